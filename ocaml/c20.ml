(* C20 handler: build the list of calls a case performs, run the tape model
   (coq/model/Rand.v), print the read sizes and the random field of every
   output exactly as the Go harness prints them. *)
let ios = int_of_string
let nat n = nat_of_int n
let nth_or l i d = if i < List.length l then ios (List.nth l i) else d
let be32 (id : int) : n list =
  List.map n_of_int [(id lsr 24) land 255; (id lsr 16) land 255; (id lsr 8) land 255; id land 255]
let prefix_of v id = match v with
  | "T" -> n_of_int 1 :: be32 id | "C" -> n_of_int 0 :: be32 id | _ -> []
let scheme_of spec =
  let f = split ':' spec in
  match List.hd f with
  | "gcm" -> AesGcm | "gcmsiv" -> AesGcmSiv | "chacha" -> ChaCha20Poly1305 | "xchacha" -> XChaCha20Poly1305
  | "ctrhmac" -> AesCtrHmac (nat (if List.length f < 5 then 16 else ios (List.nth f 3)))
  | "xaes" -> XAesGcm (nat (nth_or f 1 12))
  | s -> failwith ("scheme " ^ s)
let keytype_of spec =
  let f = split ':' spec in
  let a i = nat (ios (List.nth f i)) in
  match List.hd f with
  | "gcm" -> KAesGcm (a 1) | "gcmsiv" -> KAesGcmSiv (a 1) | "chacha" -> KChaCha | "xchacha" -> KXChaCha
  | "xaes" -> KXAes | "ctrhmac" -> KAesCtrHmac (a 1, a 2) | "siv" -> KAesSiv (a 1) | "hmac" -> KHmac (a 1)
  | "cmac" -> KAesCmac (a 1) | "hmacprf" -> KHmacPrf (a 1) | "hkdfprf" -> KHkdfPrf (a 1) | "cmacprf" -> KAesCmacPrf (a 1)
  | "sgcm" -> KStreamGcmHkdf (a 1) | "sctr" -> KStreamCtrHmac (a 1) | "jwthmac" -> KJwtHmac (a 1)
  | "mldsa" -> KMlDsa | "slhdsa" -> KSlhDsa (nat (ios (List.nth f 1) / 4)) | "ed25519" -> KEd25519
  | "hpke" -> (match List.nth f 1 with "xwing" -> KXWing | "mlkem768" | "mlkem1024" -> KMlKem | s -> failwith ("hpke keygen " ^ s))
  | s -> failwith ("keytype " ^ s)
let sign_len op =
  let f = split ':' op in
  match List.hd f with
  | "mldsa" | "mldsapre" -> 32 | "slhdsa" -> ios (List.nth f 1) / 4 | "rsapss" -> ios (List.nth f 1)
  | s -> failwith ("sign " ^ s)
let loose_of op =
  let f = split ':' op in
  match f with
  | "kg" :: "hpke" :: "x25519" :: _ -> LX25519Keygen
  | "kg" :: _ -> LNistKeygen
  | "hpke" :: ("mlkem768" | "mlkem1024") :: _ -> LHpkeMlKem
  | "hpke" :: _ -> LHpkeNist
  | "ecdsa" :: _ -> LEcdsaSign
  | _ -> failwith ("loose " ^ op)
let rec rep x k = if k <= 0 then [] else x :: rep x (k - 1)
let pub sk = ocall "x25519_pub" [] [sk]
let show_out = function
  | OBytes b -> hexs b
  | OKey (id, mat) -> dec_of_n id ^ ":" ^ hexs (List.concat mat)
  | ONone -> "-"
let go calls unavail tape (fields : bool) =
  match run pub calls { r_unavail = unavail; r_tape = tape } with
  | None -> "TAPE-EXHAUSTED"
  | Some (res, _) ->
    let sizes = List.concat_map (fun (_, tr) -> List.map (fun w -> string_of_int (List.length w)) tr) res in
    "r=" ^ String.concat "," sizes ^ "|" ^
    (if fields then String.concat ";" (List.map (fun (o, _) -> show_out o) res)
     else
       (* a hedged signature is a function of (key, message, randomizer): calls whose
          windows are equal give equal signatures, calls with pairwise distinct windows
          are expected to differ (C20 section 11) *)
       let ws = List.map (fun (_, tr) -> tr) res in
       let rec nodup = function [] -> true | x :: r -> not (List.mem x r) && nodup r in
       "fresh=" ^ (if List.for_all (fun (_, tr) -> List.exists (fun w -> w <> []) tr) res then "yes" else "no") ^
       ",distinct=" ^ (if nodup ws then "yes" else "no"))
let handle line =
  let f = Array.of_list (String.split_on_char '|' line) in
  let n = Array.length f in
  let tape = unhex f.(n - 1) in
  match f.(1) with
  | "ENC" -> go (rep (CEncrypt (scheme_of f.(2), prefix_of f.(3) (ios f.(4)))) (ios f.(5))) [] tape true
  | "STR" -> go (rep (CNewWriter (nat (ios (List.nth (split ':' f.(2)) 2)))) (ios f.(3))) [] tape true
  | "HPKE" -> go (rep (CHpkeEncrypt (prefix_of f.(3) (ios f.(4)))) (ios f.(5))) [] tape true
  | "ECIES" ->
    let sc = (match f.(2) with "p256" -> 32 | "p384" -> 48 | "p521" -> 66 | s -> failwith s) in
    go (rep (CEciesEncrypt (prefix_of f.(3) (ios f.(4)), nat sc, nat 12)) (ios f.(5))) [] tape true
  | "MGR" ->
    (* "id!" = key added then deleted: Delete does not free the id, so it stays in the used set *)
    let strip s = if String.length s > 0 && s.[String.length s - 1] = '!' then String.sub s 0 (String.length s - 1) else s in
    let pre = List.map (fun s -> n_of_dec (strip s)) (List.filter (fun s -> s <> "-" && s <> "") (split ',' f.(2))) in
    let adds = List.map (fun s -> CAddKey (keytype_of (List.hd (split '/' s)))) (List.filter (fun s -> s <> "") (split ';' f.(3))) in
    go adds pre tape true
  | "NEWH" -> go (rep (CNewHandle (keytype_of f.(2))) (ios f.(4))) [] tape true
  | "SIGN" -> go (rep (CSign (nat (sign_len f.(2)))) (ios f.(3))) [] tape false
  | "LOOSE" -> "r=*|fresh=" ^ (if draws_from_reader (loose_of f.(2)) then "yes" else "no") ^ ",distinct=yes"
  | s -> failwith ("kind " ^ s)
