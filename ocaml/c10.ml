(* C10 handler: ML-DSA model (extracted from coq/gen/MldsaScalar.v,
   coq/model/MldsaKernels.v, MldsaPoly.v, Mldsa.v) over the stdlib SHAKE
   oracle.  Polynomials travel as 256 x 8 hex digits (uint32, big endian),
   hint vectors as k x 32-byte bit masks (bit j&7 of byte j>>3 = h[j]).
   Case lines (tag = generator's label/expectation, not read here):
     C10|sc|op|a|b|g|tag            scalar kernel: generated function AND k_ kernel -> r0,r1 | panic
     C10|zt|tag                     zetas table
     C10|hang|set|seed|msg|tag      emitted by the generator when Go's signing did not return -> returns
     C10|ntt|poly|tag  C10|intt|poly|tag
     C10|sbp|bits|poly|tag  C10|bp|a|bits|poly|tag     -> hex
     C10|sbu|bits|hex|tag   C10|bu|a|bits|hex|tag      -> poly | PANIC
     C10|hbp|set|masks|tag          -> hex
     C10|hbu|set|hex|tag            -> masks | err | PANIC
     C10|chb|set|b|tag              -> coefficient | rej
     C10|rnp|rho34|tag  C10|rbp|set|rho66|tag  C10|sib|set|rho|tag  -> poly
     C10|par|set|tag                parameter record and lengths
     C10|kg|set|seed|tag            -> pk,sk (encoded)
     C10|sg|set|seed|msg|ctx|rnd|tag     rnd "d" = SignDeterministic -> sig | err
     C10|vf|set|pk|msg|ctx|sig|tag       -> ok | rej
     C10|ts|set|variant|id|seed|msg|rnd|tag   Tink signer  -> prefix‖sig | err
     C10|tv|set|variant|id|pk|msg|sig|tag     Tink verifier -> ok | rej
     C10|ph|set|id|seed|msg|rnd|tag      prehash (external mu): prehash,sig
     C10|cs|set|alg|variant|id|seed|clseed|msg|rnd|tag   composite signer: the ML-DSA component
     C10|cv|set|alg|variant|id|pk|clpk|msg|sig|tag       composite verifier -> ok | rej *)
let rec zpos_of_int i = if i = 1 then XH else if i land 1 = 0 then XO (zpos_of_int (i lsr 1)) else XI (zpos_of_int (i lsr 1))
let z_of_int i = if i = 0 then Z0 else if i > 0 then Zpos (zpos_of_int i) else Zneg (zpos_of_int (- i))
let int_of_z = function Z0 -> 0 | Zpos p -> int_of_pos p | Zneg p -> - (int_of_pos p)
let shake128 m len =
  let r = oracle ("shake128 " ^ hexs m ^ " " ^ string_of_int (int_of_nat len)) in
  if r = "ERR" then failwith "oracle error on shake128" else unhex r
let shake256 m len =
  let r = oracle ("shake256 " ^ hexs m ^ " " ^ string_of_int (int_of_nat len)) in
  if r = "ERR" then failwith "oracle error on shake256" else unhex r
let sha512 m = ocall "hash" ["sha512"] [m]
let ed_verify pub msg sg = oracle (String.concat " " ["ed25519_verify"; hexs pub; hexs msg; hexs sg]) = "01"
let bytes_of_string s = List.init (String.length s) (fun i -> byte_tab.(Char.code s.[i]))
(* labels of draft-ietf-lamps-pq-composite-sigs, written here independently of the Go table *)
let label_of set alg = bytes_of_string (match set, alg with
  | "65", "ed25519" -> "COMPSIG-MLDSA65-Ed25519-SHA512"
  | _ -> failwith "composite algorithm")
let classical_of = function "ed25519" -> ed_verify | _ -> failwith "classical algorithm"
let set_of = function "44" -> mLDSA44 | "65" -> mLDSA65 | "87" -> mLDSA87 | _ -> failwith "set"
let poly_of_hex (s : string) : z list =
  if s = "-" then [] else
  List.init (String.length s / 8) (fun i -> z_of_int (int_of_string ("0x" ^ String.sub s (8 * i) 8)))
let hex_of_poly (p : z list) : string =
  let b = Buffer.create 2048 in
  List.iter (fun c -> Buffer.add_string b (Printf.sprintf "%08x" (int_of_z c))) p; Buffer.contents b
let polys_of_masks (s : string) : z list list =
  let bs = Array.of_list (List.map int_of_n (unhex s)) in
  List.init (Array.length bs / 32) (fun i ->
    List.init 256 (fun j -> z_of_int ((bs.(32 * i + j / 8) lsr (j land 7)) land 1)))
let masks_of_polys (ps : z list list) : string =
  String.concat "" (List.map (fun p ->
    let a = Array.make 32 0 in
    List.iteri (fun j c -> if int_of_z c <> 0 then a.(j / 8) <- a.(j / 8) lor (1 lsl (j land 7))) p;
    String.concat "" (Array.to_list (Array.map (fun x -> hex_tab.(x)) a))) ps)
let fuel = nat_of_int 2000
let u32 s = z_of_int (int_of_string s)
let opt1 = function Some x -> string_of_int (int_of_z x) ^ ",0" | None -> "panic"
let opt2 = function Some (x, y) -> string_of_int (int_of_z x) ^ "," ^ string_of_int (int_of_z y) | None -> "panic"
let v1 x = string_of_int (int_of_z x) ^ ",0"
let v2 (x, y) = string_of_int (int_of_z x) ^ "," ^ string_of_int (int_of_z y)
(* generated kernel, and the k_ kernel of the model (must agree) *)
let scalar op a b g : string * string =
  match op with
  | "reduceOnce" -> let r = v1 (mldsa_rZq_reduceOnce a) in (r, r)
  | "add" -> (v1 (mldsa_rZq_add a b), v1 (k_add a b))
  | "sub" -> (v1 (mldsa_rZq_sub a b), v1 (k_sub a b))
  | "neg" -> (v1 (mldsa_rZq_neg a), v1 (k_neg a))
  | "mul" -> (v1 (mldsa_rZq_mul a b), v1 (k_mul a b))
  | "power2Round" -> (v2 (mldsa_rZq_power2Round a), v2 (k_power2Round a))
  | "scalePower2" -> (v1 (mldsa_rZq_scalePower2 a), v1 (k_scalePower2 a))
  | "divBy2Gamma2" -> let r = opt1 (mldsa_divBy2Gamma2 a g) in (r, r)
  | "decompose" -> (opt2 (mldsa_rZq_decompose a g), opt2 (k_decompose a g))
  | "highBits" -> (opt1 (mldsa_rZq_highBits a g), opt1 (k_highBits a g))
  | "lowBits" -> (opt1 (mldsa_rZq_lowBits a g), opt1 (k_lowBits a g))
  | "makeHint" -> (opt1 (mldsa_rZq_makeHint a g b), opt1 (k_makeHint a g b))
  | "useHint" -> (opt1 (mldsa_rZq_useHint a g b), opt1 (k_useHint a g b))
  | "centeredAbs" -> (v1 (mldsa_rZq_centeredAbs a), v1 (k_centeredAbs a))
  | "centeredMax" -> (v1 (mldsa_rZq_centeredMax a b), v1 (k_centeredMax a b))
  | _ -> failwith "scalar op"
let polyout = function Some p -> hex_of_poly p | None -> "OUT-OF-STREAM"
let verout = function Some true -> "ok" | Some false -> "rej" | None -> "OUT-OF-STREAM"
let sigout = function Some s -> hexs s | None -> "OUT-OF-FUEL"
let prefix_of v id = if v = "T" then byte_tab.(1) :: List.map (fun i -> byte_tab.((id lsr i) land 255)) [24; 16; 8; 0] else []
let keys p seed =
  match keyGenInternal shake128 shake256 p (unhex seed) with
  | Some ks -> ks
  | None -> failwith "keygen out of stream"
let handle line =
  match String.split_on_char '|' line with
  | [_; "sc"; op; a; b; g; _] ->
    let (gen, k) = scalar op (u32 a) (u32 b) (u32 g) in
    if gen = k then gen else "KERNEL-DIFF gen=" ^ gen ^ " k=" ^ k
  | [_; "hang"; _; _; _; _] -> "returns"   (* FIPS 204 signing terminates (with overwhelming probability) *)
  | [_; "zt"; _] -> hex_of_poly mldsa_zetas
  | [_; "ntt"; p; _] -> hex_of_poly (ntt (poly_of_hex p))
  | [_; "intt"; p; _] -> hex_of_poly (intt (poly_of_hex p))
  | [_; "sbp"; bits; p; _] -> hexs (simpleBitPack (nat_of_int (int_of_string bits)) (poly_of_hex p))
  | [_; "bp"; a; bits; p; _] -> hexs (bitPack (u32 a) (nat_of_int (int_of_string bits)) (poly_of_hex p))
  | [_; "sbu"; bits; e; _] ->
    (match simpleBitUnpack_chk (nat_of_int (int_of_string bits)) (unhex e) with
     | Ok p -> hex_of_poly p | _ -> "PANIC")
  | [_; "bu"; a; bits; e; _] ->
    let bits = nat_of_int (int_of_string bits) in
    (match simpleBitUnpack_chk bits (unhex e) with
     | Ok _ -> hex_of_poly (bitUnpack (u32 a) bits (unhex e)) | _ -> "PANIC")
  | [_; "hbp"; set; m; _] -> let p = set_of set in hexs (hintBitPack p.p_omega (polys_of_masks m))
  | [_; "hbu"; set; e; _] ->
    let p = set_of set in
    (match hintBitUnpack p.p_omega p.p_k (unhex e) with
     | Ok h -> masks_of_polys h | Err -> "err" | Panic -> "PANIC")
  | [_; "chb"; set; b; _] ->
    (match coeffFromHalfByte (set_of set).p_eta (u32 b) with Some c -> string_of_int (int_of_z c) | None -> "rej")
  | [_; "rnp"; rho; _] -> polyout (rejectNTTPoly shake128 (unhex rho))
  | [_; "rbp"; set; rho; _] -> polyout (rejectBoundedPoly shake256 (set_of set).p_eta (unhex rho))
  | [_; "xm"; set; rho; mu; _] ->
    String.concat "," (List.map hex_of_poly (expandMask shake256 (set_of set) (unhex rho) (nat_of_int (int_of_string mu))))
  | [_; "sib"; set; rho; _] -> polyout (sampleInBall shake256 (set_of set).p_tau (unhex rho))
  | [_; "par"; set; _] ->
    let p = set_of set in
    String.concat "," (List.map string_of_int
      [int_of_nat p.p_tau; int_of_nat p.p_lambda; int_of_nat p.p_log2Gamma1; int_of_z p.p_gamma2;
       int_of_nat p.p_k; int_of_nat p.p_l; int_of_z p.p_eta; int_of_nat p.p_omega;
       int_of_nat p.p_etaBits; int_of_nat p.p_w1Bits;
       int_of_nat (publicKeyLength p); int_of_nat (secretKeyLength p); int_of_nat (signatureLength p)])
  | [_; "kg"; set; seed; _] ->
    let p = set_of set in
    let (pk, sk) = keys p seed in
    hexs (pkEncode pk) ^ "," ^ hexs (skEncode p sk)
  | [_; "sg"; set; seed; msg; ctx; rnd; _] ->
    let p = set_of set in
    let (_, sk) = keys p seed in
    let rnd = if rnd = "d" then List.init 32 (fun _ -> byte_tab.(0)) else unhex rnd in
    (match sign shake128 shake256 p fuel sk (unhex msg) (unhex ctx) rnd with
     | None -> "err" | Some r -> sigout r)
  | [_; "vf"; set; pk; msg; ctx; sg; _] ->
    let p = set_of set in
    (match pkDecode shake256 p (unhex pk) with
     | None -> "badkey"
     | Some pk -> verout (verify shake128 shake256 p pk (unhex msg) (unhex sg) (unhex ctx)))
  | [_; "ts"; set; v; id; seed; msg; rnd; _] ->
    let p = set_of set in
    let (_, sk) = keys p seed in
    sigout (tinkSign shake128 shake256 p fuel (prefix_of v (int_of_string id)) (skEncode p sk) (unhex msg) (unhex rnd))
  | [_; "tv"; set; v; id; pk; msg; sg; _] ->
    let p = set_of set in
    verout (tinkVerify shake128 shake256 p (prefix_of v (int_of_string id)) (unhex pk) (unhex sg) (unhex msg))
  | [_; "ph"; set; id; seed; msg; rnd; _] ->
    let p = set_of set in
    let (pk, sk) = keys p seed in
    let id = n_of_dec id in
    let pre = computePrehash shake256 pk.pk_tr id (unhex msg) in
    (match signPrehash shake128 shake256 p fuel sk id pre (unhex rnd) with
     | None -> hexs pre ^ ",err" | Some r -> hexs pre ^ "," ^ sigout r)
  | [_; "cs"; set; alg; v; id; seed; _; msg; rnd; _] ->
    let p = set_of set in
    let (_, sk) = keys p seed in
    (match compositeSignMldsaPart shake128 shake256 p sha512 fuel sk (label_of set alg) (unhex msg) (unhex rnd) with
     | None -> "err" | Some r -> sigout r)
  | [_; "cv"; set; alg; v; id; pk; clpk; msg; sg; _] ->
    let p = set_of set in
    verout (compositeVerify shake128 shake256 p sha512 (classical_of alg) (prefix_of v (int_of_string id))
              (unhex pk) (unhex clpk) (label_of set alg) (unhex sg) (unhex msg))
  | _ -> failwith "case"
