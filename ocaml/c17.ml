(* C17 handler: parse the deriver keyset and the salt, run Derive.derive_keyset
   with HMAC and Ed25519 answered by the stdlib oracle, print the derived
   keyset in the harness's canonical form. *)
let ios = int_of_string
let nat n = nat_of_int n
let hash_of = function
  | "sha1" -> SHA1 | "sha224" -> SHA224 | "sha256" -> SHA256 | "sha384" -> SHA384 | "sha512" -> SHA512
  | s -> failwith ("hash " ^ s)
let hash_name = function SHA1 -> "sha1" | SHA224 -> "sha224" | SHA256 -> "sha256" | SHA384 -> "sha384" | SHA512 -> "sha512"
let status_of = function "E" -> Enabled | "D" -> Disabled | "X" -> Destroyed | _ -> UnknownStatus
let variant_of = function "T" -> VTink | "C" -> VCrunchy | "L" -> VLegacy | _ -> VRaw
let variant_str = function VTink -> "T" | VCrunchy -> "C" | VLegacy -> "L" | VRaw -> "R"
let dtype_of s =
  let f = split ':' s in
  let a () = nat (ios (List.nth f 1)) in
  match List.hd f with
  | "gcm" -> DAesGcm (a ()) | "xchacha" -> DXChaCha | "siv" -> DAesSiv (a ()) | "hmac" -> DHmac (a ())
  | "hkdfprf" -> DHkdfPrf (a ()) | "hmacprf" -> DHmacPrf (a ()) | "ed25519" -> DEd25519 | "sgcm" -> DAesGcmHkdf (a ())
  | t -> failwith ("type " ^ t)
let dtype_str = function
  | DAesGcm k -> "gcm:" ^ string_of_int (int_of_nat k) | DXChaCha -> "xchacha"
  | DAesSiv k -> "siv:" ^ string_of_int (int_of_nat k) | DHmac k -> "hmac:" ^ string_of_int (int_of_nat k)
  | DHkdfPrf k -> "hkdfprf:" ^ string_of_int (int_of_nat k) | DHmacPrf k -> "hmacprf:" ^ string_of_int (int_of_nat k)
  | DEd25519 -> "ed25519" | DAesGcmHkdf k -> "sgcm:" ^ string_of_int (int_of_nat k)
let hmac h k m = ocall "hmac" [hash_name h] [k; m]
let edpub seed = ocall "ed25519_pub" [] [seed]
let st_str = function Enabled -> "E" | Disabled -> "D" | Destroyed -> "X" | UnknownStatus -> "?"
let rec handle line =
  match String.split_on_char '|' line with
  | ["C17H"; entries; salts] ->
    (* a history on one deriver: by C17_deterministic each call is the function of (keyset, salt) *)
    let rs = List.map (fun s -> handle ("C17|" ^ entries ^ "|" ^ s)) (String.split_on_char ';' salts) in
    if List.mem "new-err" rs then "new-err" else String.concat " ## " rs
  | [_; entries; salt] ->
    let es = List.map (fun s ->
      match split ',' s with
      | [id; st; p; h; ikm; ps; t; v] ->
        { d_id = n_of_dec id; d_status = status_of st; d_prim = (p = "1");
          d_key = { k_hash = hash_of h; k_ikm = unhex ikm; k_salt = unhex ps; k_type = dtype_of t; k_variant = variant_of v } }
      | _ -> failwith "entry") (split ';' entries) in
    (match derive_keyset hmac edpub es (unhex salt) with
     | DNewErr -> "new-err"
     | DDeriveErr -> "derive-err"
     | DOk (h, keys) ->
       String.concat ";" (List.map (fun e ->
         let k = List.nth keys (int_of_n e.ekey) in
         Printf.sprintf "%s.%s.%s.%s.%s.%s.%s.%s.1" (dec_of_n e.eid) (st_str e.est) (if e.eprim then "1" else "0")
           (variant_str k.r_variant) (match e.ereq with None -> "-" | Some r -> dec_of_n r)
           (dtype_str k.r_type) (hexs k.r_material) (hexs k.r_public)) h))
  | _ -> failwith "case"
