(* C08 handler: AES-SIV (as coded + RFC 5297) and AES-KWP (as coded + RFC 5649)
   over the stdlib oracle's AES block operations. *)
let memo : (string, n list) Hashtbl.t = Hashtbl.create 4096
let aes_op (op : string) (k : n list) (blk : n list) : n list =
  let key = op ^ hexs k ^ hexs blk in
  match Hashtbl.find_opt memo key with
  | Some r -> r
  | None ->
    if Hashtbl.length memo > 200000 then Hashtbl.reset memo;
    let r = obytes op [k; blk] in Hashtbl.add memo key r; r
let aes_enc k blk = aes_op "aes_enc" k blk
let aes_dec k blk = aes_op "aes_dec" k blk

let out_str = function Ok b -> "ok:" ^ hexs b | Err -> "err" | Panic -> "PANIC model"

let rec take n l = if n <= 0 then [] else match l with [] -> [] | x :: t -> x :: take (n - 1) t
let mutate (mu : string) (ct : n list) : n list =
  match String.split_on_char ':' mu with
  | ["flip"; p; m] ->
    let p = int_of_string p and m = int_of_string m in
    List.mapi (fun i x -> if i = p then byte_tab.((int_of_n x) lxor (m land 255)) else x) ct
  | ["cut"; k] -> let k = int_of_string k in if k < List.length ct then take k ct else ct
  | ["ext"; h] -> ct @ unhex h
  | ["raw"; h] -> unhex h
  | _ -> failwith "mutation"

let variant_of api v = if api = "sub" then VNoPrefix else match v with "T" -> VTink | "C" -> VCrunchy | _ -> VNoPrefix

let handle line =
  match String.split_on_char '|' line with
  | [_; "siv"; api; v; id; key; pt; ad; mu] ->
    let v = variant_of api v and id = n_of_dec id in
    let key = unhex key and pt = unhex pt and ad = unhex ad in
    (match split_key key with
     | Ok _ ->
       let enc p a = daead_encrypt aes_enc v id key p a in
       let dec c a = daead_decrypt aes_enc v id key c a in
       (match enc pt ad with
        | Ok ct ->
          let m = match String.split_on_char ':' mu with
            | ["ad"; h] -> out_str (dec ct (unhex h))
            | ["swap"; p2; a2] ->
              (match enc (unhex p2) (unhex a2) with Ok c2 -> out_str (dec c2 ad) | _ -> "encerr")
            | _ -> out_str (dec (mutate mu ct) ad) in
          "E:" ^ hexs ct ^ "|D:" ^ out_str (dec ct ad) ^ "|M:" ^ m
        | Err -> "E:err"
        | Panic -> "PANIC model")
     | _ -> "newerr")
  | [_; "sivks"; entries; pi; pt; ad; j; mu] ->
    (* keyset of several AES-SIV keys: Encrypt = the primary's daead_encrypt; Decrypt tries the keys whose
       output prefix starts the ciphertext, then the RAW keys (the walk of daead_factory.go; as a theorem
       this walk is the subject of C05 - here it is composed in the handler from the per-key model) *)
    let es = List.map (fun e -> match split ',' e with
      | [v; id; k] -> ((match v with "T" -> VTink | "C" -> VCrunchy | _ -> VNoPrefix), n_of_dec id, unhex k)
      | _ -> failwith "sivks entry") (split ';' entries) in
    let pt = unhex pt and ad = unhex ad in
    let nth l i = List.nth l (int_of_string i) in
    let enc (v, id, k) = daead_encrypt aes_enc v id k pt ad in
    let prefix_len v = match v with VNoPrefix -> 0 | _ -> 5 in
    let starts (v, id, k) c =
      (* the key's output prefix is what its own ciphertext starts with *)
      match daead_encrypt aes_enc v id k [] [] with
      | Ok c0 -> prefix_len v > 0 && List.length c >= 5 && take 5 c = take 5 c0
      | _ -> false in
    let dec c =
      let cands = List.filter (fun e -> starts e c) es @ List.filter (fun (v, _, _) -> v = VNoPrefix) es in
      let rec go = function
        | [] -> Err
        | (v, id, k) :: r -> (match daead_decrypt aes_enc v id k c ad with Ok p -> Ok p | _ -> go r) in
      go cands in
    (match enc (nth es pi), enc (nth es j) with
     | Ok ct, Ok ctj ->
       "E:" ^ hexs ct ^ "|D:" ^ out_str (dec ct) ^ "|X:" ^ out_str (dec ctj) ^ "|M:" ^ out_str (dec (mutate mu ctj))
     | _ -> "E:err")
  | [_; "kwp"; kek; data; mu] ->
    (* the API model of the totality theorems: NewKWP (KEK size rule) then Wrap / Unwrap *)
    let kek = unhex kek and data = unhex data in
    let unwrap c = match kwp_api_unwrap aes_dec kek c with Some r -> out_str r | None -> "newerr" in
    (match kwp_api_wrap aes_enc kek data with
     | None -> "newerr"
     | Some (Ok w) ->
       "W:" ^ hexs w ^ "|U:" ^ unwrap w ^ "|M:" ^ unwrap (mutate mu w)
     | Some Err ->
       "W:err|U:skip|M:" ^
       (match String.split_on_char ':' mu with
        | ["raw"; h] -> unwrap (unhex h)
        | _ -> "skip")
     | Some Panic -> "PANIC model")
  | [_; "katsiv"; key; ads; pt; _] ->
    (* RFC 5297 vectors: K = K1 || K2 of equal halves, any AES key size *)
    let key = unhex key in
    let h = List.length key / 2 in
    let k1 = take h key and k2 = List.filteri (fun i _ -> i >= h) key in
    let ads = List.map unhex (split ',' ads) in
    hexs (siv_encrypt_rfc5297 (cmac_impl (aes_enc k1)) (aes_enc k2) ads (unhex pt))
  | [_; "katkwp"; kek; data; _] ->
    hexs (wrap_rfc5649 (aes_enc (unhex kek)) (unhex data))
  | _ -> failwith "case"
