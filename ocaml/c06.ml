(* C06 handler: parse the case line, run the extracted HPKE / ECIES model with
   the stdlib oracle closures, print the same canonical observation as
   harness/p/c06 (see the comment at the top of harness/p/c06/c06.go). *)
let oreq (parts : string list) : string = oracle (String.concat " " parts)
let obytes_of r = if r = "ERR" then failwith "oracle error" else unhex r
let oopt r =
  if r = "ERR" then None
  else if String.length r >= 2 && String.sub r 0 2 = "ok" then Some (unhex (String.sub r 2 (String.length r - 2)))
  else Some (unhex r)

let hname = function SHA1 -> "sha1" | SHA224 -> "sha224" | SHA256 -> "sha256" | SHA384 -> "sha384" | SHA512 -> "sha512"
let o_extract h ikm salt = obytes_of (oreq ["hkdf_extract"; hname h; hexs ikm; hexs salt])
let o_expand h prk info len = obytes_of (oreq ["hkdf_expand"; hname h; hexs prk; hexs info; string_of_int (int_of_nat len)])
let o_hkdf h ikm salt info len = obytes_of (oreq ["hkdf"; hname h; hexs ikm; hexs salt; hexs info; string_of_int (int_of_nat len)])
let kem_curve = function P256 -> "p256" | P384 -> "p384" | P521 -> "p521" | _ -> failwith "curve"
let o_dh k sk pk = match k with
  | X25519 -> oopt (oreq ["x25519"; hexs sk; hexs pk])
  | _ -> oopt (oreq ["ecdh"; kem_curve k; hexs sk; hexs pk])
let o_dh_pub k sk = match k with
  | X25519 -> oopt (oreq ["x25519_pub"; hexs sk])
  | _ -> oopt (oreq ["ecdh_pub"; kem_curve k; hexs sk])
let mlname = function MLKEM768 -> "mlkem768" | MLKEM1024 -> "mlkem1024" | _ -> failwith "mlkem"
let o_mlkem_decap k seed ct = oopt (oreq [mlname k ^ "_decap"; hexs seed; hexs ct])
(* public key -> seed, filled whenever the model asks for the public key of a seed *)
let seeds : (string, n list) Hashtbl.t = Hashtbl.create 16
let o_mlkem_pub k seed =
  match oopt (oreq [mlname k ^ "_pub"; hexs seed]) with
  | None -> None
  | Some pk -> Hashtbl.replace seeds (hexs pk) seed; Some pk
(* The stdlib has no derandomised ML-KEM encapsulation.  The run-time stand-in
   for "encapsulate to pk with coins" takes the KEM ciphertext itself as the
   coins and answers (Decapsulate(seed of pk, ct), ct). *)
let o_mlkem_encap k pk coins =
  match Hashtbl.find_opt seeds (hexs pk) with
  | None -> None
  | Some seed -> (match o_mlkem_decap k seed coins with None -> None | Some ss -> Some (ss, coins))
let o_shake256 m len = obytes_of (oreq ["shake256"; hexs m; string_of_int (int_of_nat len)])
let o_sha3 m = obytes_of (oreq ["hash"; "sha3_256"; hexs m])
let aname = function AES128GCM | AES256GCM -> "gcm" | CHACHA20POLY1305 -> "chacha"
let o_seal a key nonce ad pt = obytes_of (oreq [aname a ^ "_seal"; hexs key; hexs nonce; hexs ad; hexs pt])
let o_open a key nonce ad ct = oopt (oreq [aname a ^ "_open"; hexs key; hexs nonce; hexs ad; hexs ct])

let res = function Ok p -> "ok:" ^ hexs p | Err -> "err" | Panic -> "PANIC"
let hexo = function Ok p -> hexs p | Err -> "err" | Panic -> "PANIC"

(* mutations, as in harness/p/c06/c06.go applyMut *)
let rec take n l = if n <= 0 then [] else match l with [] -> [] | x :: t -> x :: take (n - 1) t
let rec drop n l = if n <= 0 then l else match l with [] -> [] | _ :: t -> drop (n - 1) t
let split2 c s = match String.index_opt s c with
  | Some i -> (String.sub s 0 i, String.sub s (i + 1) (String.length s - i - 1))
  | None -> (s, "")
let apply_mut (spec : string) (ct : n list) (info : n list) (sk : n list) =
  if spec = "" then (ct, info, sk) else
  let arg = String.sub spec 1 (String.length spec - 1) in
  match spec.[0] with
  | 'f' -> let (i, m) = split2 '.' arg in
    let i = int_of_string i and m = int_of_string ("0x" ^ m) in
    (List.mapi (fun j x -> if j = i then n_of_int ((int_of_n x) lxor m) else x) ct, info, sk)
  | 't' -> (take (int_of_string arg) ct, info, sk)
  | 'a' -> (ct @ unhex arg, info, sk)
  | 'P' -> (unhex arg @ ct, info, sk)
  | 'd' -> (drop (int_of_string arg) ct, info, sk)
  | 'r' -> let (off, b) = split2 '.' arg in
    let off = int_of_string off and b = Array.of_list (unhex b) in
    (List.mapi (fun j x -> if j >= off && j < off + Array.length b then b.(j - off) else x) ct, info, sk)
  | 'i' -> (ct, unhex arg, sk)
  | 'k' | 'n' -> (ct, info, unhex arg)
  | 'z' -> ([], info, sk)
  | _ -> (ct, info, sk)
let muts_of s = if s = "" || s = "-" then [] else String.split_on_char ';' s

let kem_of = function "p256" -> P256 | "p384" -> P384 | "p521" -> P521 | "x25519" -> X25519
  | "mlkem768" -> MLKEM768 | "mlkem1024" -> MLKEM1024 | "xwing" -> XWING | _ -> failwith "kem"
let kdf_of = function "sha256" -> HKDF_SHA256 | "sha384" -> HKDF_SHA384 | "sha512" -> HKDF_SHA512 | _ -> failwith "kdf"
let aead_of = function "a128" -> AES128GCM | "a256" -> AES256GCM | "chacha" -> CHACHA20POLY1305 | _ -> failwith "aead"
let var_of = function "T" -> VTink | "C" -> VCrunchy | "N" -> VNoPrefix | _ -> failwith "variant"

let hpke_enc k d a prefix pk eph info pt =
  hpke_encrypt o_extract o_expand o_dh o_dh_pub o_mlkem_encap o_sha3 o_seal k d a prefix pk eph info pt
let hpke_dec k d a prefix sk c info =
  hpke_decrypt o_extract o_expand o_dh o_dh_pub o_mlkem_decap o_shake256 o_sha3 o_open k d a prefix sk c info
let hpke_rec k d a prefix sk c info pt =
  hpke_recompute o_extract o_expand o_dh o_dh_pub o_mlkem_decap o_shake256 o_sha3 o_seal k d a prefix sk c info pt
let hpke_pub k sk = public_from_private o_dh_pub o_mlkem_pub o_shake256 k sk

let handle_hpke f =
  match f with
  | [_; _; suite; id; sk; info; pt; tc; eph; mc; ft; feph; muts] ->
    let (k, d, a, v) = match String.split_on_char '.' suite with
      | [k; d; a; v] -> (kem_of k, kdf_of d, aead_of a, var_of v) | _ -> failwith "suite" in
    let id = n_of_dec id in
    let sk = unhex sk and info = unhex info and pt = unhex pt and tc = unhex tc in
    (match output_prefix v id, hpke_pub k sk with
     | Ok prefix, Ok pk ->
       if mc = "!" then
         (match hpke_enc k d a prefix pk (unhex eph) info pt with Ok c -> "mc=" ^ hexs c | _ -> "mc=?")
       else begin
         let b = Buffer.create 4096 in
         Buffer.add_string b ("pk=" ^ hexs pk);
         Buffer.add_string b ("|d=" ^ res (hpke_dec k d a prefix sk tc info));
         Buffer.add_string b ("|re=" ^ hexo (hpke_rec k d a prefix sk tc info pt));
         if mc = "?" then Buffer.add_string b "|mc=?|md=skip"
         else begin
           let c = hpke_enc k d a prefix pk (unhex eph) info pt in
           Buffer.add_string b ("|mc=" ^ hexo c);
           Buffer.add_string b ("|md=" ^ (match c with Ok c -> res (hpke_dec k d a prefix sk c info) | _ -> "err"))
         end;
         if ft = "?" then Buffer.add_string b "|fe=skip"
         else begin
           match hpke_enc k d a prefix pk (unhex feph) info pt with
           | Ok c -> Buffer.add_string b ("|fe=" ^ hexs c ^ "|fd=" ^ res (hpke_dec k d a prefix sk c info))
           | _ -> Buffer.add_string b "|fe=err"
         end;
         Buffer.add_string b "|rt=ok|mu=";
         List.iteri (fun i sp ->
           if i > 0 then Buffer.add_char b ',';
           let (c2, i2, k2) = apply_mut sp tc info sk in
           match hpke_pub k k2 with
           | Ok _ -> Buffer.add_string b (res (hpke_dec k d a prefix k2 c2 i2))
           | _ -> Buffer.add_string b "nokey") (muts_of muts);
         Buffer.contents b
       end
     | _ -> if mc = "!" then "mc=?" else "nokey")
  | _ -> failwith "hpke case"

(* ---- ECIES ---- *)
let cname = function NIST_P256 -> "p256" | NIST_P384 -> "p384" | NIST_P521 -> "p521" | CURVE_X25519 -> "x25519"
let e_dh c sk p = match c with
  | CURVE_X25519 -> None
  | _ -> oopt (oreq ["ecdh"; cname c; hexs sk; hexs p])
let e_pub c sk = match c with
  | CURVE_X25519 -> oopt (oreq ["x25519_pub"; hexs sk])
  | _ -> oopt (oreq ["ecdh_pub"; cname c; hexs sk])
let e_oncurve c x y = match c with
  | CURVE_X25519 -> false
  | _ -> oreq ["ec_oncurve"; cname c; hexs x; hexs y] = "01"
let e_decompress c e = match c with
  | CURVE_X25519 -> None
  | _ -> oopt (oreq ["ec_decompress"; cname c; hexs e])
let e_gcm_seal key iv ad pt = obytes_of (oreq ["gcm_seal"; hexs key; hexs iv; hexs ad; hexs pt])
let e_gcm_open key iv ad ct = oopt (oreq ["gcm_open"; hexs key; hexs iv; hexs ad; hexs ct])
let e_aes_ctr key iv data = obytes_of (oreq ["aes_ctr"; hexs key; hexs iv; hexs data])
let e_hmac key msg = obytes_of (oreq ["hmac"; "sha256"; hexs key; hexs msg])
let e_siv_seal key ad pt = obytes_of (oreq ["c06_siv_seal"; hexs key; hexs ad; hexs pt])
let e_siv_open key ad ct = oopt (oreq ["c06_siv_open"; hexs key; hexs ad; hexs ct])

let curve_of = function "p256" -> NIST_P256 | "p384" -> NIST_P384 | "p521" -> NIST_P521 | "x25519" -> CURVE_X25519 | _ -> failwith "curve"
let hash_of = function "sha1" -> SHA1 | "sha224" -> SHA224 | "sha256" -> SHA256 | "sha384" -> SHA384 | "sha512" -> SHA512 | _ -> failwith "hash"
let fmt_of = function "c" -> COMPRESSED | "u" -> UNCOMPRESSED | "l" -> LEGACY_UNCOMPRESSED | "n" -> UNSPECIFIED_FORMAT | _ -> failwith "format"
let dem_of = function "g128" -> AES128_GCM | "g256" -> AES256_GCM | "siv" -> AES256_SIV | "xchacha" -> XCHACHA20_POLY1305
  | "ctr128" -> AES128_CTR_HMAC_SHA256 | "ctr256" -> AES256_CTR_HMAC_SHA256 | _ -> failwith "dem"

let ecies_enc c h f d salt prefix pk eph iv info pt =
  ecies_encrypt e_dh e_pub e_oncurve o_hkdf e_gcm_seal e_aes_ctr e_hmac e_siv_seal c h f d salt prefix pk eph iv info pt
let ecies_dec c h f d salt prefix sk ct info =
  ecies_decrypt e_dh e_oncurve e_decompress o_hkdf e_gcm_open e_aes_ctr e_hmac e_siv_open c h f d salt prefix sk ct info
let ecies_rec c h f d salt prefix sk ct info pt =
  ecies_recompute e_dh e_oncurve e_decompress o_hkdf e_gcm_seal e_aes_ctr e_hmac e_siv_seal c h f d salt prefix sk ct info pt

let handle_ecies f =
  match f with
  | [_; _; suite; id; sk; salt; info; pt; tc; eph; iv; mc; ft; feph; fiv; muts] ->
    let (c, h, fm, d, v) = match String.split_on_char '.' suite with
      | [c; h; fm; d; v] -> (curve_of c, hash_of h, fmt_of fm, dem_of d, var_of v) | _ -> failwith "suite" in
    let id = n_of_dec id in
    let sk = unhex sk and salt = unhex salt and info = unhex info and pt = unhex pt and tc = unhex tc in
    (match output_prefix v id, e_pub c sk with
     | Ok prefix, Some pk ->
       if not (primitive_supported c fm d) then (if mc = "!" then "mc=?" else "noprim")
       else if mc = "!" then
         (match ecies_enc c h fm d salt prefix pk (unhex eph) (unhex iv) info pt with Ok x -> "mc=" ^ hexs x | _ -> "mc=?")
       else begin
         let b = Buffer.create 4096 in
         Buffer.add_string b ("pk=" ^ hexs pk);
         Buffer.add_string b ("|d=" ^ res (ecies_dec c h fm d salt prefix sk tc info));
         Buffer.add_string b ("|re=" ^ hexo (ecies_rec c h fm d salt prefix sk tc info pt));
         if mc = "?" then Buffer.add_string b "|mc=?|md=skip"
         else begin
           let x = ecies_enc c h fm d salt prefix pk (unhex eph) (unhex iv) info pt in
           Buffer.add_string b ("|mc=" ^ hexo x);
           Buffer.add_string b ("|md=" ^ (match x with Ok x -> res (ecies_dec c h fm d salt prefix sk x info) | _ -> "err"))
         end;
         if ft = "?" then Buffer.add_string b "|fe=skip"
         else begin
           match ecies_enc c h fm d salt prefix pk (unhex feph) (unhex fiv) info pt with
           | Ok x -> Buffer.add_string b ("|fe=" ^ hexs x ^ "|fd=" ^ res (ecies_dec c h fm d salt prefix sk x info))
           | _ -> Buffer.add_string b "|fe=err"
         end;
         Buffer.add_string b "|rt=ok|mu=";
         List.iteri (fun i sp ->
           if i > 0 then Buffer.add_char b ',';
           let (c2, i2, k2) = apply_mut sp tc info sk in
           match e_pub c k2 with
           | Some _ -> Buffer.add_string b (res (ecies_dec c h fm d salt prefix k2 c2 i2))
           | None -> Buffer.add_string b "nokey") (muts_of muts);
         Buffer.contents b
       end
     | _ -> if mc = "!" then "mc=?" else "nokey")
  | _ -> failwith "ecies case"

(* RFC 9180 test vector: the model alone against the constants of the RFC *)
let handle_vector f =
  match f with
  | [_; _; suite; skE; pkR; skR; info; _; _; _; _] ->
    let (k, d, a) = match String.split_on_char '.' suite with
      | [k; d; a] -> (kem_of k, kdf_of d, aead_of a) | _ -> failwith "suite" in
    let skE = unhex skE and pkR = unhex pkR and skR = unhex skR and info = unhex info in
    let pk = hpke_pub k skR in
    (match encap o_extract o_expand o_dh o_dh_pub o_mlkem_encap o_sha3 k pkR skE with
     | Ok (ss, enc) ->
       let ss2 = decap o_extract o_expand o_dh o_dh_pub o_mlkem_decap o_shake256 o_sha3 k enc skR in
       (match key_schedule o_extract o_expand k d a ss info with
        | Ok (key, bn) ->
          "pk=" ^ hexo pk ^ "|enc=" ^ hexs enc ^ "|ss=" ^ hexs ss ^ "|ss2=" ^ hexo ss2 ^ "|key=" ^ hexs key ^ "|bn=" ^ hexs bn
        | _ -> "schedule-failed")
     | _ -> "encap-failed")
  | _ -> failwith "vector case"

let handle line =
  match String.split_on_char '|' line with
  | "C06" :: "H" :: _ as f -> handle_hpke f
  | "C06" :: "E" :: _ as f -> handle_ecies f
  | "C06" :: "V" :: _ as f -> handle_vector f
  | _ -> failwith "case"
