(* C15 handler: PRF cases through the model of prf/subtle, prf.NewPRFSet and subtle.ComputeHKDF. *)
let hash_name = function SHA1 -> "sha1" | SHA224 -> "sha224" | SHA256 -> "sha256" | SHA384 -> "sha384" | SHA512 -> "sha512"
let hash_o (h : hash_alg) (m : n list) : n list = ocall "hash" [hash_name h] [m]
let aes_o (k : n list) (b : n list) : n list = obytes "aes_enc" [k; b]
let hash_of = function
  | "SHA1" -> Some SHA1 | "SHA224" -> Some SHA224 | "SHA256" -> Some SHA256
  | "SHA384" -> Some SHA384 | "SHA512" -> Some SHA512 | _ -> None
let kind_of kind hash salt = match kind with
  | "HM" -> KHmac (hash_of hash) | "HK" -> KHkdf (hash_of hash, unhex salt) | "CM" -> KCmac | _ -> failwith "kind"
let lens s = List.map int_of_string (List.filter (fun x -> x <> "") (split ',' s))
let out_str = function Ok o -> hexs o | _ -> "err"
let outs (p : n list -> nat -> n list outcome) input ls =
  String.concat "," (List.map (fun n -> out_str (p input (nat_of_int n))) ls)
(* unsigned decimal comparison of ids (as OCaml ints: ids < 2^32 fit) *)
let handle line =
  match String.split_on_char '|' line with
  | [_; "S"; kind; hash; key; salt; input; ls] ->
    (match subtle_new hash_o aes_o (kind_of kind hash salt) (unhex key) with
     | Ok p -> "ok|" ^ outs p (unhex input) (lens ls)
     | _ -> "rej")
  | [_; "R"; hash; secret; salt; info; sizes] ->
    (* the x/crypto hkdf reader AS CODED (model/HkdfCode.v over model/HmacCode.v); the streaming
       hash is the accumulating instance over the oracle's one-shot hash *)
    (match hash_of hash with
     | None -> "BADCASE"
     | Some h ->
       let salt = if salt = "nil" then None else Some (unhex salt) in
       let rd = new_code acc_init acc_write (hash_o h) (block_size h) (digest_size h) (unhex secret) salt (unhex info) in
       let (_, outs) = rd_reads acc_init acc_write (hash_o h) true rd (List.map nat_of_int (lens sizes)) in
       String.concat "," (List.map (function Some o -> hexs o | None -> "err") outs))
  | [_; "H"; hash; key; salt; info; ls] ->
    String.concat "," (List.map (fun n ->
      out_str (compute_hkdf hash_o (hash_of hash) (unhex key) (unhex salt) (unhex info) (nat_of_int n))) (lens ls))
  | [_; "P"; entries; primary; input; ls] ->
    let es = List.map (fun s -> match String.split_on_char ',' s with
      | [kind; hash; key; salt; st; id] ->
        (((n_of_dec id, (if st = "E" then PEnabled else PDisabled)), kind_of kind hash salt), unhex key)
      | _ -> failwith "entry") (split ';' entries) in
    if List.exists (fun (((_, _), k), key) -> not (prf_key_ok k (nat_of_int (List.length key)))) es then "rej1" else
    let (((pid, _), _), _) = List.nth es (int_of_string primary) in
    (match new_prf_set hash_o aes_o es pid with
     | None -> "rej4"
     | Some s ->
       let input = unhex input in
       let ls = lens ls in
       let ids = List.sort compare (List.map (fun (id, _) -> int_of_n id) s.prfs) in
       let per = List.map (fun id ->
         match set_lookup s.prfs (n_of_int id) with
         | Some p -> string_of_int id ^ ":" ^ outs p input [List.hd ls]
         | None -> failwith "lookup") ids in
       Printf.sprintf "ok|primary=%s|ids=%s|%s|%s" (dec_of_n s.primary_id)
         (String.concat "," (List.map string_of_int ids))
         (String.concat "," (List.map (fun n -> out_str (compute_primary s input (nat_of_int n))) ls))
         (String.concat ";" per))
  | _ -> failwith "case"
