(* C19 handler: slice programs through the heap model; catalogue lines (G|...)
   are direct-oracle cases for which the property demands the answer "ok". *)
let parse_instr (s : string) : instr option =
  match List.filter (fun x -> x <> "") (String.split_on_char ' ' s) with
  | ["M"; n; c] -> Some (IMake (nat_of_int (int_of_string n), nat_of_int (int_of_string c)))
  | ["S"; v; lo; hi] -> Some (ISub (nat_of_int (int_of_string v), nat_of_int (int_of_string lo), nat_of_int (int_of_string hi)))
  | ["T"; v; lo; hi; mx] -> Some (ISub3 (nat_of_int (int_of_string v), nat_of_int (int_of_string lo), nat_of_int (int_of_string hi), nat_of_int (int_of_string mx)))
  | ["W"; v; i; x] -> Some (ISet (nat_of_int (int_of_string v), nat_of_int (int_of_string i), n_of_int (int_of_string x)))
  | ["A"; v; xs; nc] -> Some (IAppend (nat_of_int (int_of_string v), unhex xs, nat_of_int (int_of_string nc)))
  | ["C"; d; s] -> Some (ICopy (nat_of_int (int_of_string d), nat_of_int (int_of_string s)))
  | ["K"; vs; nc] -> Some (IConcat (List.map (fun x -> nat_of_int (int_of_string x)) (String.split_on_char ',' vs), nat_of_int (int_of_string nc)))
  | ["L"; v; nc] -> Some (IClone (nat_of_int (int_of_string v), nat_of_int (int_of_string nc)))
  | [] -> None
  | _ -> failwith ("instr " ^ s)
let handle line =
  match String.split_on_char '|' line with
  | "P" :: prog :: _ ->
    let instrs = List.filter_map parse_instr (String.split_on_char ';' prog) in
    let st = run_prog ([], []) instrs in
    String.concat "," (List.map (fun (l, bs) -> string_of_int (int_of_nat l) ^ ":" ^ hexs bs) (observe st))
  | "G" :: _ -> "ok"
  | _ -> failwith "case"
