(* C16 handler: SLH-DSA model (extracted from coq/model/Slhdsa*.v) over the
   stdlib oracle (sha256, sha512, shake256, hmac).  Case lines:
     C16|kg|set|skSeed|skPrf|pkSeed|tag            -> hex(skSeed‖skPrf‖pkSeed‖pkRoot)
     C16|sg|set|sk|msg|ctx|addrnd|tag              -> hex(sig) | err     (addrnd "d" = SignDeterministic)
     C16|vf|set|pk|msg|ctx|sig|tag                 -> ok | rej | badkey
     C16|ts|set|T or N|id|sk|msg|addrnd|tag        -> hex(prefix‖sig) | err   (Tink signer)
     C16|tv|set|T or N|id|pk|msg|sig|tag           -> ok | rej | badkey       (Tink verifier)
     C16|gk|set|T or N|id|skSeed|skPrf|pkSeed|mode|tag   key created by Tink from the seeds on the tape:
        mode full -> hex(sk)|hex(pk)|id with sk = keygen of the NAMED set, pk = sk[2n:]
        mode proj -> hex(seeds)|4n|2n|true|true|id (Table 2 sizes, pk = sk[2n:], root = root of the named set)
   (tag: the generator's expectation and mutation label; not read here) *)
let sha256 m = ocall "hash" ["sha256"] [m]
let sha512 m = ocall "hash" ["sha512"] [m]
let hmac256 k m = ocall "hmac" ["sha256"] [k; m]
let hmac512 k m = ocall "hmac" ["sha512"] [k; m]
let shake256 m len =
  let r = oracle ("shake256 " ^ hexs m ^ " " ^ string_of_int (int_of_nat len)) in
  if r = "ERR" then failwith "oracle error on shake256" else unhex r
let set_of = function
  | "SHA2-128s" -> sLH_DSA_SHA2_128s | "SHAKE-128s" -> sLH_DSA_SHAKE_128s
  | "SHA2-128f" -> sLH_DSA_SHA2_128f | "SHAKE-128f" -> sLH_DSA_SHAKE_128f
  | "SHA2-192s" -> sLH_DSA_SHA2_192s | "SHAKE-192s" -> sLH_DSA_SHAKE_192s
  | "SHA2-192f" -> sLH_DSA_SHA2_192f | "SHAKE-192f" -> sLH_DSA_SHAKE_192f
  | "SHA2-256s" -> sLH_DSA_SHA2_256s | "SHAKE-256s" -> sLH_DSA_SHAKE_256s
  | "SHA2-256f" -> sLH_DSA_SHA2_256f | "SHAKE-256f" -> sLH_DSA_SHAKE_256f
  | _ -> failwith "set"
let inst name =
  let (p, hk) = set_of name in
  (p, mk_hashes sha256 sha512 shake256 hmac256 hmac512 hk p)
let sigout = function Some s -> hexs s | None -> "err"
let verout = function Some true -> "ok" | Some false -> "rej" | None -> "badkey"
let handle line =
  match String.split_on_char '|' line with
  | [_; "kg"; set; sks; skp; pks; _] ->
    let (p, hs) = inst set in hexs (keygen p hs (unhex sks) (unhex skp) (unhex pks))
  | [_; "sg"; set; sk; msg; ctx; rnd; _] ->
    let (p, hs) = inst set in
    if rnd = "d" then sigout (signDeterministic p hs (unhex sk) (unhex msg) (unhex ctx))
    else sigout (sign p hs (unhex sk) (unhex msg) (unhex ctx) (unhex rnd))
  | [_; "vf"; set; pk; msg; ctx; sg; _] ->
    let (p, hs) = inst set in verout (verify p hs (unhex pk) (unhex msg) (unhex sg) (unhex ctx))
  | [_; "ts"; set; v; id; sk; msg; rnd; _] ->
    let (p, hs) = inst set in
    sigout (tink_sign p hs (v = "T") (n_of_dec id) (unhex sk) (unhex msg) (unhex rnd))
  | [_; ("tv" | "tk"); set; v; id; pk; msg; sg; _] ->
    let (p, hs) = inst set in
    verout (tink_verify p hs (v = "T") (n_of_dec id) (unhex pk) (unhex msg) (unhex sg))
  | [_; "gk"; set; _; id; sks; skp; pks; mode; _] ->
    let (p, hs) = inst set in
    let n = int_of_nat p.p_n in
    if mode = "full" then begin
      let sk = keygen p hs (unhex sks) (unhex skp) (unhex pks) in
      let rec drop k l = if k = 0 then l else match l with [] -> [] | _ :: t -> drop (k - 1) t in
      hexs sk ^ "|" ^ hexs (drop (2 * n) sk) ^ "|" ^ id
    end else
      Printf.sprintf "%s|%d|%d|true|true|%s" (hexs (unhex sks @ unhex skp @ unhex pks)) (4 * n) (2 * n) id
  | _ -> failwith "case"
