(* C11 handler: parse the case line into model ops, run, print the same
   canonical observation the Go harness prints. *)
let status_of = function "E" -> Enabled | "D" -> Disabled | "X" -> Destroyed | _ -> UnknownStatus
let st_str = function Enabled -> "E" | Disabled -> "D" | Destroyed -> "X" | UnknownStatus -> "?"
let shape (h : entry list) : string =
  "h[" ^ String.concat "," (List.map (fun e ->
    Printf.sprintf "%s.%s.%s.%s" (dec_of_n e.eid) (st_str e.est) (if e.eprim then "1" else "0")
      (match e.ereq with None -> "R" | Some r -> dec_of_n r)) h) ^ "]"
let parse_init s =
  if s = "E" then None else
  let body = String.sub s 2 (String.length s - 2) in
  Some (List.mapi (fun i es ->
    match split '.' es with
    | [id; st; p; k] ->
      let id = n_of_dec id in
      { eid = id; est = status_of st; eprim = (p = "1"); ereq = (if k = "R" then None else Some id); ekey = n_of_int (1000 + i) }
    | _ -> failwith "init") (split ',' body))
let parse_op fill s : op =
  let arg () = n_of_dec (String.sub s 1 (String.length s - 1)) in
  match s with
  | "AT" -> OAdd TmplTink | "AR" -> OAdd TmplRaw | "AN" -> OAdd TmplNil
  | "AU" -> OAdd TmplUnknownPrefix | "AB" -> OAdd TmplUnregistered
  | "AL" -> OAdd TmplRaw  (* key-manager-only key type, RAW prefix: same bookkeeping, legacy creation path *)
  | "PT" -> OAddParams false | "PR" -> OAddParams true
  | "PW" -> OAddParams false  (* WITH_ID_REQUIREMENT parameters: bound to the drawn id exactly as TINK parameters are *)
  | "KR" -> OAddKey (None, n_of_int fill)
  | "H" -> OHandle
  | _ -> (match s.[0] with
    | 'O' ->
      (* O<req|R>:<opt>,<opt>...  opt = sE sD sX sU (WithStatus) | f<id> (WithFixedID) | p (AsPrimary) *)
      (match String.split_on_char ':' (String.sub s 1 (String.length s - 1)) with
       | [r; os] ->
         let req = if r = "R" then None else Some (n_of_dec r) in
         let opt o = match o.[0] with
           | 's' -> KStatus (status_of (String.sub o 1 1))
           | 'f' -> KFixedID (n_of_dec (String.sub o 1 (String.length o - 1)))
           | 'p' -> KPrimary
           | _ -> failwith "opt" in
         OAddOpts (req, n_of_int fill, List.map opt (List.filter (fun x -> x <> "") (String.split_on_char ',' os)))
       | _ -> failwith "O op")
    | 'K' -> OAddKey (Some (arg ()), n_of_int fill)
    | 'S' -> OSetPrimary (arg ()) | 'E' -> OEnable (arg ())
    | 'D' -> ODisable (arg ()) | 'X' -> ODelete (arg ())
    | 'F' -> OFromHandle (nat_of_int (int_of_string (String.sub s 1 (String.length s - 1))))
    | _ -> failwith "op")
let handle line =
  match String.split_on_char '|' line with
  | [_; init; tape; ops] ->
    let tape = List.map n_of_dec (split ',' tape) in
    let ops = List.mapi (fun i s -> parse_op (i + 1) s) (List.filter (fun s -> s <> "") (split ';' ops)) in
    let (s, rs) = run (init_state (parse_init init) tape) ops in
    let res = List.map (function
      | RId id -> "ok:" ^ dec_of_n id | ROk -> "ok" | RErr -> "err"
      | RHandle h -> shape h | RSkip -> "skip" | ROutOfTape -> "out-of-tape") rs in
    if List.mem "out-of-tape" res then "TAPE-EXHAUSTED" else
    String.concat ";" res ^ "|" ^ String.concat ";" (List.map shape (shandles s))
    ^ "|draws:" ^ string_of_int (int_of_nat (sdraws s))
  | _ -> failwith "case"
