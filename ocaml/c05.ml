(* C05 handler: rebuild the keyset of the case line (explicit entries, or the
   extracted Manager model run over the history), run the extracted factory
   model with the single-key verdicts of the line as the abstract validity
   predicate, print the observation the Go harness prints. *)
type ksres = KS of fentry list | NoKS of string
type pk = { ppt : ptype; pid : n; pleg : bool; pdet : bool }
let pt_of = function "T" -> PTink | "C" -> PCrunchy | "L" -> PLegacy | _ -> PRaw
let st_of = function "E" -> Enabled | "D" -> Disabled | "X" -> Destroyed | _ -> UnknownStatus
let st_str = function Enabled -> "E" | Disabled -> "D" | Destroyed -> "X" | UnknownStatus -> "?"
let rec drop k l = if k <= 0 then l else match l with [] -> [] | _ :: t -> drop (k - 1) t
let rec take k l = if k <= 0 then [] else match l with [] -> [] | x :: t -> x :: take (k - 1) t
let is_suffix o out dl =
  let lo = List.length o and lt = List.length out in
  lt - lo = dl && drop dl out = o
let handle line =
  match String.split_on_char '|' line with
  | [_; cls; pool; build; data; inputs; verds; outs] ->
    let pool = Array.of_list (List.map (fun s -> match String.split_on_char ':' s with
      | [_; pt; id; lg; dt; _] -> { ppt = pt_of pt; pid = n_of_dec id; pleg = (lg = "1"); pdet = (dt = "1") }
      | _ -> failwith "pool") (split ',' pool)) in
    let (msg, aad) = match String.split_on_char ':' data with
      | [m; a; _] -> (unhex m, unhex a) | _ -> failwith "data" in
    let dd = if cls = "mac" || cls = "sig" then msg else aad in
    let inputs = List.map (fun s -> match String.split_on_char ':' s with
      | [_; h] -> unhex h | _ -> failwith "input") (split ',' inputs) in
    let verds = Array.of_list (List.map (fun s -> Array.of_list (String.split_on_char '/' s)) (split ',' verds)) in
    let outs = Array.of_list (List.map (fun s -> Array.of_list (String.split_on_char '/' s)) (split ',' outs)) in
    (* verdict table: (pool key, input bytes, data flag) -> bool *)
    let tbl = Hashtbl.create 256 in
    Array.iteri (fun k vs ->
      List.iteri (fun j x ->
        let bit s = s <> "-" && s.[j] = '1' in
        if Array.length vs = 1 then Hashtbl.replace tbl (k, hexs x, 0) (bit vs.(0))
        else begin
          Hashtbl.replace tbl (k, hexs x, 0) (bit vs.(0));
          Hashtbl.replace tbl (k, hexs x, 1) (bit vs.(1));
          if List.length x >= 5 then begin
            Hashtbl.replace tbl (k, hexs (drop 5 x), 0) (bit vs.(2));
            Hashtbl.replace tbl (k, hexs (drop 5 x), 1) (bit vs.(3)) end
        end) inputs) verds;
    let flag_of d base = if d = base then 0 else if d = base @ [N0] then 1 else failwith "unexpected data argument" in
    let raw_valid (e : fentry) (x : n list) (d : n list) : bool =
      let k = int_of_n e.fkey - 1 in
      match Hashtbl.find_opt tbl (k, hexs x, flag_of d dd) with
      | Some b -> b | None -> failwith "verdict missing" in
    let raw_produce (e : fentry) (m : n list) : n list =
      let k = int_of_n e.fkey - 1 in
      let o = outs.(k) in
      let i = flag_of m msg in
      if i >= Array.length o || o.(i) = "~" then failwith "no deterministic output" else unhex o.(i) in
    (* keyset *)
    let mk i st p = let q = pool.(i) in
      { fid = q.pid; fstat = st; fprim = p; fpt = q.ppt; freq = q.pid; flegacy = q.pleg; fkey = n_of_int (i + 1) } in
    let ks : ksres =
      if String.sub build 0 2 = "P:" then
        KS (List.map (fun es -> match String.split_on_char '.' es with
          | [i; st; p] -> mk (int_of_string i) (st_of st) (p = "1")
          | _ -> failwith "entry") (split ',' (String.sub build 2 (String.length build - 2))))
      else begin
        let body = String.sub build 2 (String.length build - 2) in
        let (tape, ops) = match String.index_opt body '/' with
          | Some i -> (String.sub body 0 i, String.sub body (i + 1) (String.length body - i - 1))
          | None -> failwith "build" in
        let tape = List.map n_of_dec (split ',' tape) in
        let ops = List.map (fun s ->
          let a = String.sub s 1 (String.length s - 1) in
          match s.[0] with
          | 'K' -> let i = int_of_string a in
                   OAddKey ((if pool.(i).ppt = PRaw then None else Some pool.(i).pid), n_of_int (i + 1))
          | 'S' -> OSetPrimary (n_of_dec a) | 'E' -> OEnable (n_of_dec a)
          | 'D' -> ODisable (n_of_dec a) | 'X' -> ODelete (n_of_dec a)
          | _ -> failwith "op") (List.filter (fun s -> s <> "") (split ';' ops)) in
        let (_, rs) = run (init_state None tape) (ops @ [OHandle]) in
        if List.mem ROutOfTape rs then NoKS "nohandle:TAPE-EXHAUSTED" else
        match List.nth rs (List.length rs - 1) with
        | RHandle h ->
          let q (e : entry) = pool.(int_of_n e.ekey - 1) in
          KS (List.map (lift (fun e -> (q e).ppt) (fun e -> (q e).pleg)) h)
        | _ -> NoKS "nohandle:no handle"
      end in
    (match ks with
    | NoKS s -> s
    | KS ks ->
      let uses_prefix = not (List.mem cls ["jwtmac"; "jwtsig"; "stream"; "prf"]) in
      let shape = "h[" ^ String.concat "," (List.map (fun e ->
        Printf.sprintf "%s.%s.%s.%s" (dec_of_n e.fid) (st_str e.fstat) (if e.fprim then "1" else "0")
          (if uses_prefix then hexs (prefix_of e) else "-")) ks) ^ "]" in
      let eq_list (out : n list) =
        let xs = ref [] in
        Array.iteri (fun k o ->
          if Array.exists (fun h -> h <> "~" && (let ob = unhex h in is_suffix ob out 0 || is_suffix ob out 5)) o
          then xs := string_of_int k :: !xs) outs;
        if !xs = [] then "-" else String.concat "+" (List.rev !xs) in
      if cls = "prf" then begin
        let m = prf_map ks in
        let key_of s = (String.length s, s) in
        let sorted = List.sort (fun (a, _) (b, _) -> compare (key_of (dec_of_n a)) (key_of (dec_of_n b))) m in
        let out_of (e : fentry) = unhex outs.(int_of_n e.fkey - 1).(0) in
        let per = List.map (fun (id, e) -> Printf.sprintf "%s=%s/%s" (dec_of_n id) (eq_list (out_of e)) (dec_of_n e.fid)) sorted in
        let pp = match prf_primary ks with
          | Some e -> Printf.sprintf "pp=%s/%s" (eq_list (out_of e)) (dec_of_n e.fid)
          | None -> "pp=error" in
        shape ^ "|ids:" ^ String.concat "+" (List.map (fun (id, _) -> dec_of_n id) sorted)
        ^ ";prim:" ^ dec_of_n (prf_primary_id ks) ^ "|" ^ String.concat "," (per @ [pp])
      end else begin
        let logs = cls <> "stream" in
        let prim = if List.mem cls ["sig"; "hyb"; "jwtsig"] then primary_handle ks else primary_loop ks in
        let pkd = if cls = "mac" || cls = "sig" then PkConcatLegacy else PkConcat in
        let prod = match prim with
          | None -> "p:error:"
          | Some e ->
            let k = int_of_n e.fkey - 1 in
            let idstr = if logs then dec_of_n e.fid else "~" in
            (* JWT tokens: protojson output is deliberately unstable across binaries (detrand),
               so a token precomputed by another build of the harness need not be byte-equal *)
            if (e.flegacy || pool.(k).pdet) && not (List.mem cls ["jwtmac"; "jwtsig"]) then begin
              match produce raw_produce pkd prim msg with
              | Some (id, out) ->
                let carried =
                  if logs && List.length out >= 5 && int_of_n (List.hd out) <= 1
                     && take 4 (drop 1 out) = take 4 (drop 1 (prefix_of { e with fpt = PTink; freq = id }))
                  then hexs (take 5 out) else "-" in
                "p:" ^ idstr ^ ":" ^ carried ^ ":" ^ eq_list out
              | None -> "p:error:"
            end else
              "p:" ^ idstr ^ ":" ^ (if logs && uses_prefix then hexs (prefix_of e) else "-") ^ ":-" in
        let valid_all (e : fentry) (x : n list) = raw_valid e x dd in
        let res = List.map (fun x ->
          let r = match cls with
            | "aead" | "daead" -> accept_o raw_valid AdStrip ks x dd
            | "hyb" -> accept_o raw_valid AdCheck ks x dd
            | "sig" -> accept_o raw_valid AdCheckLegacy ks x dd
            | "mac" -> mac_accept_o raw_valid ks x dd
            | _ -> Ok (accept_all valid_all ks x) in
          match r with
          | Ok (Some e) -> if logs then "a" ^ dec_of_n e.fid else "a"
          | Ok None -> "r"
          | Err -> "ERR" | Panic -> "PANIC") inputs in
        shape ^ "|" ^ prod ^ "|" ^ String.concat "," res
      end)
  | _ -> failwith "case"
