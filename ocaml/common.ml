(* Glue shared by every per-property model driver.  Concatenated after
   "open M" (the extracted model) and before the property's handler. *)
let rec pos_of_int i = if i = 1 then XH else if i land 1 = 0 then XO (pos_of_int (i lsr 1)) else XI (pos_of_int (i lsr 1))
let n_of_int i = if i = 0 then N0 else Npos (pos_of_int i)
let rec int_of_pos = function XH -> 1 | XO p -> 2 * int_of_pos p | XI p -> 2 * int_of_pos p + 1
let int_of_n = function N0 -> 0 | Npos p -> int_of_pos p
let rec nat_of_int i = if i <= 0 then O else S (nat_of_int (i - 1))
let rec int_of_nat = function O -> 0 | S n -> 1 + int_of_nat n
(* byte tables so that hex conversion does not rebuild positives *)
let byte_tab = Array.init 256 n_of_int
let hex_tab = Array.init 256 (fun i -> Printf.sprintf "%02x" i)
let hexs (l : n list) : string =
  if l = [] then "-" else begin
    let b = Buffer.create 64 in
    List.iter (fun x -> Buffer.add_string b hex_tab.(int_of_n x)) l; Buffer.contents b end
let hv c = match c with '0'..'9' -> Char.code c - 48 | 'a'..'f' -> Char.code c - 87 | 'A'..'F' -> Char.code c - 55 | _ -> failwith "hex"
let unhex (s : string) : n list =
  if s = "-" || s = "" then [] else
  List.init (String.length s / 2) (fun i -> byte_tab.(16 * hv s.[2*i] + hv s.[2*i+1]))
(* big naturals as decimal strings (values may exceed 2^62) *)
let n_of_dec (s : string) : n =
  let r = ref N0 in
  let ten = n_of_int 10 in
  String.iter (fun c -> r := xb_add (xb_mul !r ten) (n_of_int (Char.code c - 48))) s; !r
let dec_of_n (x : n) : string =
  match x with N0 -> "0" | _ ->
  let ten = n_of_int 10 in
  let rec go x acc = match x with N0 -> acc | _ ->
    let (q, r) = xb_div_eucl x ten in go q (string_of_int (int_of_n r) ^ acc) in
  go x ""
let split c s = if s = "" then [] else String.split_on_char c s
(* stdlib oracle: a Go process answering from the standard library only *)
let oracle_chan = ref None
let oracle_path = ref "./oracle"
let oracle_calls = ref 0
let oracle (req : string) : string =
  let (ic, oc) = match !oracle_chan with
    | Some c -> c
    | None -> let c = Unix.open_process !oracle_path in oracle_chan := Some c; c in
  incr oracle_calls;
  output_string oc req; output_char oc '\n'; flush oc; input_line ic
let obytes (op : string) (args : n list list) : n list =
  let r = oracle (String.concat " " (op :: List.map hexs args)) in
  if r = "ERR" then failwith ("oracle error on " ^ op) else unhex r
(* optional-result oracle call (AEAD open etc.) *)
let obytes_opt (op : string) (args : n list list) : n list option =
  let r = oracle (String.concat " " (op :: List.map hexs args)) in
  if r = "ERR" then None
  else if String.length r >= 2 && String.sub r 0 2 = "ok" then Some (unhex (String.sub r 2 (String.length r - 2)))
  else Some (unhex r)
(* oracle call with textual (non-hex) leading arguments, e.g. hash names, lengths *)
let ocall (op : string) (targs : string list) (args : n list list) : n list =
  let r = oracle (String.concat " " (op :: targs @ List.map hexs args)) in
  if r = "ERR" then failwith ("oracle error on " ^ op) else unhex r
let ocall_opt (op : string) (targs : string list) (args : n list list) : n list option =
  let r = oracle (String.concat " " (op :: targs @ List.map hexs args)) in
  if r = "ERR" then None
  else if String.length r >= 2 && String.sub r 0 2 = "ok" then Some (unhex (String.sub r 2 (String.length r - 2)))
  else Some (unhex r)
