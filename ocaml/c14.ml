(* C14 handler: run the extracted model of the keyset readers on a case line
   and print the canonical observation the Go harness prints.
   Lines:  B|<hex>                      binary keyset through the cleartext and no-secrets readers
           J|<json hex>|<bin hex or X>  JSON keyset (bin = the same message in binary, X = not parseable)
           M|<bin hex>|<nil injections> proto-message API (nil keyset / nil key / nil key data)
           E|<kek>|<ad>|<hex>           encrypted keyset, AES-GCM key-encryption key *)
let curve_name c = match int_of_n c with 2 -> "p256" | 3 -> "p384" | 4 -> "p521" | 5 -> "x25519" | _ -> failwith "curve"
let rec take_l k l = if k = 0 then [] else match l with [] -> [] | x :: t -> x :: take_l (k - 1) t
let rec drop_l k l = if k = 0 then l else match l with [] -> [] | _ :: t -> drop_l (k - 1) t
let hash_name h = match int_of_n h with 1 -> "sha1" | 2 -> "sha384" | 3 -> "sha256" | 4 -> "sha512" | 5 -> "sha224" | _ -> failwith "hash"
(* the standard library, answered by the stdlib oracle *)
let std : stdlib = {
  ec_point_ok = (fun c pt -> oracle (String.concat " " ["c14_ecdh_point"; curve_name c; hexs pt]) = "01");
  ec_pub_of_priv = (fun c d ->
    let r = oracle (String.concat " " ["c14_ecdh_pub"; curve_name c; hexs d]) in
    if r = "ERR" then None else Some (unhex r));
  ed25519_pub = (fun seed -> ocall "ed25519_pub" [] [seed]);
  mlkem_pub = (fun k seed ->
    let r = oracle ((if int_of_n k = 768 then "mlkem768_pub " else "mlkem1024_pub ") ^ hexs seed) in
    if r = "ERR" then None else Some (unhex r));
  shake256 = (fun m n -> unhex (oracle (Printf.sprintf "shake256 %s %d" (hexs m) (int_of_nat n))));
  rsa_crt = (fun n e d p q ->
    let r = oracle (String.concat " " ["c14_rsa_crt"; hexs n; dec_of_n e; hexs d; hexs p; hexs q]) in
    if r = "ERR" then None else
    (match String.split_on_char ',' r with
     | [a; b; c] -> Some ((unhex a, unhex b), unhex c)
     | _ -> failwith "c14_rsa_crt"));
  rsa_selfcheck = (fun pss h salt n e d p q ->
    oracle (String.concat " " ["c14_rsa_selfcheck"; (if pss then "pss" else "pkcs1"); hash_name h; dec_of_n salt;
                               hexs n; dec_of_n e; hexs d; hexs p; hexs q]) = "01");
  (* the library's own ML-DSA key generation (no counterpart in the Go standard library): trusted for this one function *)
  mldsa_pub = (fun inst seed ->
    let r = oracle (String.concat " " ["c14_mldsa_pub"; dec_of_n inst; hexs seed]) in
    if r = "ERR" then [] else unhex r);
}

let st_str s = match int_of_n s with 1 -> "E" | 2 -> "D" | 3 -> "X" | _ -> "?"
let shape (h : entry list) : string =
  "h[" ^ String.concat "," (List.map (fun e ->
    let p = if not e.emod then "~" else
      (match prim_ok std e.ekey with Ok true -> "+" | Ok false -> "-" | _ -> "!") in
    Printf.sprintf "%s.%s.%s.%s.%d.%s" (dec_of_n e.eid) (st_str e.estatus) (if e.eprim then "1" else "0")
      (match shown_req e with None -> "R" | Some r -> dec_of_n r) (int_of_n (shown_prefix e)) p) h) ^ "]"
let out = function Ok h -> shape h | Err -> "err" | Panic -> "PANIC-MODEL"

let both_bin (b : n list) : string =
  match decode_keyset b with
  | Some ks when any_unmodelled ks -> "U"
  | _ -> "c:" ^ out (read std b) ^ "|n:" ^ out (read_no_secrets std b)

let inject (ks : keyset option) (inj : string) : keyset option =
  List.fold_left (fun ks i ->
    match ks with None -> None | Some k ->
    if i = "ks" then None
    else if i = "" || i = "-" then ks
    else begin
      let idx = int_of_string (String.sub i 1 (String.length i - 1)) in
      Some { k with ks_keys = List.mapi (fun j key ->
        if j <> idx then key else
        match i.[0], key with
        | 'k', _ -> None
        | 'd', Some key -> Some { key with k_data = None }
        | _, _ -> key) k.ks_keys }
    end) ks (split ',' inj)

let handle line =
  match String.split_on_char '|' line with
  | ["B"; h; _] -> both_bin (unhex h)
  | ["J"; _; bin; _] -> if bin = "X" then "c:err|n:err" else both_bin (unhex bin)
  | ["M"; bin; inj; _] ->
    (match decode_keyset (unhex bin) with
     | None -> "c:err|n:err"
     | Some ks when any_unmodelled ks -> "U"
     | Some ks ->
       let ks' = inject (Some ks) inj in
       "c:" ^ out (read_proto std ks') ^ "|n:" ^ out (handle_no_secrets std ks'))
  | ["E"; kek; ad; enc; _] ->
    let kek = unhex kek in
    let dec (ct : n list) (ad : n list) : n list option =
      if List.length ct < 28 then None
      else ocall_opt "gcm_open" [] [kek; take_l 12 ct; ad; drop_l 12 ct] in
    let enc = unhex enc and ad = unhex ad in
    let unm = (match decode_encrypted enc with
      | None -> false
      | Some ct -> (match dec ct ad with
        | None -> false
        | Some pt -> (match decode_keyset pt with Some ks -> any_unmodelled ks | None -> false))) in
    if unm then "U" else "e:" ^ out (read_encrypted std dec enc ad)
  | _ -> failwith "case"
