(* C14 handler: run the extracted model of the keyset readers on a case line
   and print the canonical observation the Go harness prints.
   Lines:  B|<hex>                      binary keyset through the cleartext and no-secrets readers
           J|<json hex>|<bin hex or X>  JSON keyset TEXT: parsed by the model itself (model/JsonKeyset.v); bin = the
                                        message protojson made of it (X = refused), compared with the model's parse
           F|<kek>|<ad>|<json hex>|<canon or X>  JSON EncryptedKeyset TEXT through the encrypted reader; canon likewise
           M|<bin hex>|<nil injections> proto-message API (nil keyset / nil key / nil key data)
           E|<kek>|<ad>|<hex>           encrypted keyset, AES-GCM key-encryption key
           P|<KeyTemplate hex>          protoserialization.ParseParameters on the decoded template
   The readers are the x-readers of model/UntrustedParams.v: every registered
   key type is decided by the model (PRF-based deriver keys, ECIES keys with
   the DEM template parsed by its own parameters parser, composite keys with
   the nested parsers run first). *)
let curve_name c = match int_of_n c with 2 -> "p256" | 3 -> "p384" | 4 -> "p521" | 5 -> "x25519" | _ -> failwith "curve"
let rec take_l k l = if k = 0 then [] else match l with [] -> [] | x :: t -> x :: take_l (k - 1) t
let rec drop_l k l = if k = 0 then l else match l with [] -> [] | _ :: t -> drop_l (k - 1) t
let hash_name h = match int_of_n h with 1 -> "sha1" | 2 -> "sha384" | 3 -> "sha256" | 4 -> "sha512" | 5 -> "sha224" | _ -> failwith "hash"
(* the standard library, answered by the stdlib oracle *)
let std : stdlib = {
  ec_point_ok = (fun c pt -> oracle (String.concat " " ["c14_ecdh_point"; curve_name c; hexs pt]) = "01");
  ec_pub_of_priv = (fun c d ->
    let r = oracle (String.concat " " ["c14_ecdh_pub"; curve_name c; hexs d]) in
    if r = "ERR" then None else Some (unhex r));
  ed25519_pub = (fun seed -> ocall "ed25519_pub" [] [seed]);
  mlkem_pub = (fun k seed ->
    let r = oracle ((if int_of_n k = 768 then "mlkem768_pub " else "mlkem1024_pub ") ^ hexs seed) in
    if r = "ERR" then None else Some (unhex r));
  shake256 = (fun m n -> unhex (oracle (Printf.sprintf "shake256 %s %d" (hexs m) (int_of_nat n))));
  rsa_crt = (fun n e d p q ->
    let r = oracle (String.concat " " ["c14_rsa_crt"; hexs n; dec_of_n e; hexs d; hexs p; hexs q]) in
    if r = "ERR" then None else
    (match String.split_on_char ',' r with
     | [a; b; c] -> Some ((unhex a, unhex b), unhex c)
     | _ -> failwith "c14_rsa_crt"));
  rsa_selfcheck = (fun pss h salt n e d p q ->
    oracle (String.concat " " ["c14_rsa_selfcheck"; (if pss then "pss" else "pkcs1"); hash_name h; dec_of_n salt;
                               hexs n; dec_of_n e; hexs d; hexs p; hexs q]) = "01");
  (* the library's own ML-DSA key generation (no counterpart in the Go standard library): trusted for this one function *)
  mldsa_pub = (fun inst seed ->
    let r = oracle (String.concat " " ["c14_mldsa_pub"; dec_of_n inst; hexs seed]) in
    if r = "ERR" then [] else unhex r);
}

let st_str s = match int_of_n s with 1 -> "E" | 2 -> "D" | 3 -> "X" | _ -> "?"

(* the observable form of a parameters object (harness/p/c14/params.go renderParams) *)
let dn = dec_of_n
let dem_render c = match int_of_n c with
  | 1 -> "AesGcm(16,12,16,3)" | 2 -> "AesGcm(32,12,16,3)" | 3 -> "AesSiv(64,3)" | 4 -> "XChaCha(3)"
  | 5 -> "AesCtrHmac(16,32,16,16,3,3)" | 6 -> "AesCtrHmac(32,32,16,32,3,3)" | _ -> failwith "dem"
let nm name l = name ^ "(" ^ String.concat "," l ^ ")"
let rec render_params (p : params) : string =
  match p with
  | QAesGcm (k, v) -> nm "AesGcm" [dn k; "12"; "16"; dn v]
  | QAesGcmSiv (k, v) -> nm "AesGcmSiv" [dn k; dn v]
  | QAesCtrHmac (aes, hk, iv, tag, hash, v) -> nm "AesCtrHmac" [dn aes; dn hk; dn iv; dn tag; dn hash; dn v]
  | QChaCha v -> nm "ChaCha" [dn v]
  | QXChaCha v -> nm "XChaCha" [dn v]
  | QXAesGcm (salt, v) -> nm "XAesGcm" [dn salt; dn v]
  | QAesSiv (k, v) -> nm "AesSiv" [dn k; dn v]
  | QHmac (k, tag, hash, v) -> nm "Hmac" [dn k; dn tag; dn hash; dn v]
  | QAesCmac (k, tag, v) -> nm "AesCmac" [dn k; dn tag; dn v]
  | QAesCmacPrf k -> nm "AesCmacPrf" [dn k]
  | QHkdfPrf (k, hash, salt) -> nm "HkdfPrf" [dn k; dn hash; hexs salt]
  | QHmacPrf (k, hash) -> nm "HmacPrf" [dn k; dn hash]
  | QEcdsa (curve, hash, enc, v) -> nm "Ecdsa" [dn curve; dn hash; dn enc; dn v]
  | QEd25519 v -> nm "Ed25519" [dn v]
  | QRsaPkcs1 (bits, hash, e, v) -> nm "RsaPkcs1" [dn bits; dn hash; dn e; dn v]
  | QRsaPss (bits, hash, e, salt, v) -> nm "RsaPss" [dn bits; dn hash; dn hash; dn e; dn salt; dn v]
  | QMlDsa (inst, v) -> nm "MlDsa" [dn inst; dn v]
  | QSlhDsa (hash, ks, sg, v) -> nm "SlhDsa" [dn hash; dn ks; dn sg; dn v]
  | QComposite (alg, inst, v) -> nm "Composite" [dn alg; dn inst; dn v]
  | QEcies (curve, hash, fmt, dem, v, salt) -> nm "Ecies" [dn curve; dn hash; dn fmt; dem_render dem; dn v; hexs salt]
  | QHpke (kem, kdf, aead, v) -> nm "Hpke" [dn kem; dn kdf; dn aead; dn v]
  | QStreamGcmHkdf (ikm, derived, hash, seg) -> nm "StreamGcmHkdf" [dn ikm; dn derived; dn hash; dn seg]
  | QStreamCtrHmac (ikm, derived, hkdf, hash, tag, seg) -> nm "StreamCtrHmac" [dn ikm; dn derived; dn hkdf; dn hash; dn tag; dn seg]
  | QJwtHmac (k, alg, v) -> nm "JwtHmac" [dn k; dn alg; dn v]
  | QJwtEcdsa (alg, v) -> nm "JwtEcdsa" [dn alg; dn v]
  | QJwtRsa (pss, alg, bits, e, v) -> nm (if pss then "JwtRsaPss" else "JwtRsaPkcs1") [dn alg; dn bits; dn e; dn v]
  | QJwtMlDsa (alg, v) -> nm "JwtMlDsa" [dn alg; dn v]
  | QDeriver (prf, d) -> nm "Deriver" [render_params prf; render_params d]

let prf_render (d : pkd) : string =
  match d with
  | PHkdfPrf (hash, kl) -> nm "hkdf" [dn kl; dn hash]
  | PHmacPrf (hash, kl) -> nm "hmacprf" [dn kl; dn hash]
  | PAesCmacPrf kl -> nm "cmacprf" [dn kl]
  | _ -> "?"

let shape (h : xentry list) : string =
  "h[" ^ String.concat "," (List.map (fun e ->
    let flag = (match prim_ok_x std e.xkey with Ok true -> "+" | Ok false -> "-" | _ -> "!") in
    let p = (match e.xkey with
      | XBase _ -> if not (modelled_url { kd_url = e.xurl; kd_value = e.xvalue; kd_mat = e.xmat }) then "~" else flag
      | XDeriver (prf, dp) -> flag ^ "{" ^ prf_render prf ^ ";" ^ render_params dp ^ "}") in
    Printf.sprintf "%s.%s.%s.%s.%d.%s" (dec_of_n e.xid) (st_str e.xstatus) (if e.xprim then "1" else "0")
      (match xshown_req e with None -> "R" | Some r -> dec_of_n r) (int_of_n (xshown_prefix e)) p) h) ^ "]"
let out = function Ok h -> shape h | Err -> "err" | Panic -> "PANIC-MODEL"

let both_bin (b : n list) : string =
  "c:" ^ out (xread std b) ^ "|n:" ^ out (xread_no_secrets std b)

let inject (ks : keyset option) (inj : string) : keyset option =
  List.fold_left (fun ks i ->
    match ks with None -> None | Some k ->
    if i = "ks" then None
    else if i = "" || i = "-" then ks
    else begin
      let idx = int_of_string (String.sub i 1 (String.length i - 1)) in
      Some { k with ks_keys = List.mapi (fun j key ->
        if j <> idx then key else
        match i.[0], key with
        | 'k', _ -> None
        | 'd', Some key -> Some { key with k_data = None }
        | _, _ -> key) k.ks_keys }
    end) ks (split ',' inj)

let handle line =
  match String.split_on_char '|' line with
  | ["B"; h; _] -> both_bin (unhex h)
  | ["J"; text; bin; _] ->
    let text = unhex text in
    (* the correspondence of the text layer: the model's own parse against protojson's *)
    let own = json_keyset text in
    let theirs = if bin = "X" then None else
        (match decode_keyset (unhex bin) with Some ks -> Some ks | None -> failwith "the binary form in the line does not decode") in
    if own <> theirs then
      failwith ("json text layer: the model " ^ (match own with None -> "refuses" | Some _ -> "accepts")
                ^ " the text, protojson " ^ (match theirs with None -> "refuses it" | Some _ -> "accepts it (or yields another message)"));
    "c:" ^ out (xread_json std text) ^ "|n:" ^ out (xread_json_no_secrets std text)
  | ["F"; kek; ad; text; canon; _] ->
    let kek = unhex kek and text = unhex text in
    let show_enc (e : jencrypted) =
      "ct=" ^ hexs e.je_ct ^ ";info=" ^
      (match e.je_info with
       | None -> "~"
       | Some i -> dec_of_n i.jn_primary ^ "/" ^ String.concat "," (List.map (fun (k : jkeyinfo) ->
           hexs k.ji_url ^ "." ^ dec_of_n k.ji_status ^ "." ^ dec_of_n k.ji_id ^ "." ^ dec_of_n k.ji_prefix) i.jn_keys)) in
    let own = (match encrypted_of_json_text text with None -> "X" | Some e -> show_enc e) in
    if own <> canon then failwith ("json text layer: the model reads the EncryptedKeyset text as " ^ own ^ ", protojson as " ^ canon);
    let dec (ct : n list) (ad : n list) : n list option =
      if List.length ct < 28 then None
      else ocall_opt "gcm_open" [] [kek; take_l 12 ct; ad; drop_l 12 ct] in
    "e:" ^ out (xread_json_encrypted std dec text (unhex ad))
  | ["M"; bin; inj; _] ->
    (match decode_keyset (unhex bin) with
     | None -> "c:err|n:err"
     | Some ks ->
       let ks' = inject (Some ks) inj in
       "c:" ^ out (xread_proto std ks') ^ "|n:" ^ out (xhandle_no_secrets std ks'))
  | ["E"; kek; ad; enc; _] ->
    let kek = unhex kek in
    let dec (ct : n list) (ad : n list) : n list option =
      if List.length ct < 28 then None
      else ocall_opt "gcm_open" [] [kek; take_l 12 ct; ad; drop_l 12 ct] in
    let enc = unhex enc and ad = unhex ad in
    "e:" ^ out (xread_encrypted std dec enc ad)
  | ["P"; t; _] ->
    (match decode_template (unhex t) with
     | None -> "p:err"
     | Some tm ->
       (match parse_params_full tm with
        | Ok p -> "p:" ^ render_params p
        | Err -> "p:err"
        | Panic -> "PANIC-MODEL"))
  | _ -> failwith "case"
