(* C14 handler: run the extracted model of the keyset readers on a case line
   and print the canonical observation the Go harness prints.
   Lines:  B|<hex>                      binary keyset through the cleartext and no-secrets readers
           J|<json hex>|<bin hex or X>  JSON keyset (bin = the same message in binary, X = not parseable)
           M|<bin hex>|<nil injections> proto-message API (nil keyset / nil key / nil key data)
           E|<kek>|<ad>|<hex>           encrypted keyset, AES-GCM key-encryption key *)
let curve_name c = match int_of_n c with 2 -> "p256" | 3 -> "p384" | 4 -> "p521" | _ -> "p256"
let rec take_l k l = if k = 0 then [] else match l with [] -> [] | x :: t -> x :: take_l (k - 1) t
let rec drop_l k l = if k = 0 then l else match l with [] -> [] | _ :: t -> drop_l (k - 1) t
let ec_point_ok (c : n) (pt : n list) : bool =
  let len = List.length pt in
  if len < 3 || len mod 2 = 0 then false else
  let cs = (len - 1) / 2 in
  let x = take_l cs (drop_l 1 pt) and y = drop_l (1 + cs) pt in
  (match ocall "ec_oncurve" [curve_name c] [x; y] with [b] -> int_of_n b = 1 | _ -> false)
let ec_pub_of_priv (c : n) (d : n list) : n list option =
  if d = [] then None else ocall_opt "ecdh_pub" [curve_name c] [d]

let st_str s = match int_of_n s with 1 -> "E" | 2 -> "D" | 3 -> "X" | _ -> "?"
let shape (h : entry list) : string =
  "h[" ^ String.concat "," (List.map (fun e ->
    let p = if not e.emod then "~" else
      (match prim_ok e.ekey with Ok true -> "+" | Ok false -> "-" | _ -> "!") in
    Printf.sprintf "%s.%s.%s.%s.%d.%s" (dec_of_n e.eid) (st_str e.estatus) (if e.eprim then "1" else "0")
      (match e.ereq with None -> "R" | Some r -> dec_of_n r) (int_of_n (out_prefix e)) p) h) ^ "]"
let out = function Ok h -> shape h | Err -> "err" | Panic -> "PANIC-MODEL"

let both_bin (b : n list) : string =
  match decode_keyset b with
  | Some ks when any_unmodelled ks -> "U"
  | _ -> "c:" ^ out (read ec_point_ok ec_pub_of_priv b) ^ "|n:" ^ out (read_no_secrets ec_point_ok ec_pub_of_priv b)

let inject (ks : keyset option) (inj : string) : keyset option =
  List.fold_left (fun ks i ->
    match ks with None -> None | Some k ->
    if i = "ks" then None
    else if i = "" || i = "-" then ks
    else begin
      let idx = int_of_string (String.sub i 1 (String.length i - 1)) in
      Some { k with ks_keys = List.mapi (fun j key ->
        if j <> idx then key else
        match i.[0], key with
        | 'k', _ -> None
        | 'd', Some key -> Some { key with k_data = None }
        | _, _ -> key) k.ks_keys }
    end) ks (split ',' inj)

let handle line =
  match String.split_on_char '|' line with
  | ["B"; h; _] -> both_bin (unhex h)
  | ["J"; _; bin; _] -> if bin = "X" then "c:err|n:err" else both_bin (unhex bin)
  | ["M"; bin; inj; _] ->
    (match decode_keyset (unhex bin) with
     | None -> "c:err|n:err"
     | Some ks when any_unmodelled ks -> "U"
     | Some ks ->
       let ks' = inject (Some ks) inj in
       "c:" ^ out (read_proto ec_point_ok ec_pub_of_priv ks') ^ "|n:" ^ out (handle_no_secrets ec_point_ok ec_pub_of_priv ks'))
  | ["E"; kek; ad; enc; _] ->
    let kek = unhex kek in
    let dec (ct : n list) (ad : n list) : n list option =
      if List.length ct < 28 then None
      else ocall_opt "gcm_open" [] [kek; take_l 12 ct; ad; drop_l 12 ct] in
    let enc = unhex enc and ad = unhex ad in
    let unm = (match decode_encrypted enc with
      | None -> false
      | Some ct -> (match dec ct ad with
        | None -> false
        | Some pt -> (match decode_keyset pt with Some ks -> any_unmodelled ks | None -> false))) in
    if unm then "U" else "e:" ^ out (read_encrypted ec_point_ok ec_pub_of_priv dec enc ad)
  | _ -> failwith "case"
