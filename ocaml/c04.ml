(* C04 handler: parse the case line, build the model MAC object through the
   same construction path, print the canonical observation of the Go harness. *)
let hash_name = function SHA1 -> "sha1" | SHA224 -> "sha224" | SHA256 -> "sha256" | SHA384 -> "sha384" | SHA512 -> "sha512"
let hash_o (h : hash_alg) (m : n list) : n list = ocall "hash" [hash_name h] [m]
let aes_o (k : n list) (b : n list) : n list = obytes "aes_enc" [k; b]
let alg_of = function
  | "CMAC" -> ACmac
  | "SHA1" -> AHmac (Some SHA1) | "SHA224" -> AHmac (Some SHA224) | "SHA256" -> AHmac (Some SHA256)
  | "SHA384" -> AHmac (Some SHA384) | "SHA512" -> AHmac (Some SHA512)
  | _ -> AHmac None
let variant_of = function "T" -> VTink | "C" -> VCrunchy | "L" -> VLegacy | _ -> VNoPrefix
let path_of = function "S" | "I" -> PSubtle | "K" -> PKey | "F" -> PFactory | "A" -> PAdapter | _ -> failwith "path"
let rec take k l = if k <= 0 then [] else match l with [] -> [] | x :: t -> x :: take (k - 1) t
let rec drop k l = if k <= 0 then l else match l with [] -> [] | _ :: t -> drop (k - 1) t
let rec mutate (mu : string) (tag : n list) (msg : n list) : n list * n list =
  match String.index_opt mu '+' with
  | Some i -> let (t, m) = mutate (String.sub mu 0 i) tag msg in
              mutate (String.sub mu (i + 1) (String.length mu - i - 1)) t m
  | None ->
  if mu = "=" || mu = "" then (tag, msg) else
  let arg = String.sub mu 1 (String.length mu - 1) in
  let len = List.length tag in
  match mu.[0] with
  | 'f' -> if len = 0 then (tag, msg) else
      let i = int_of_string arg mod (8 * len) in
      (List.mapi (fun j x -> if j = i / 8 then n_of_int ((int_of_n x) lxor (1 lsl (i mod 8))) else x) tag, msg)
  | 't' -> (take (len - min len (int_of_string arg)) tag, msg)
  | 'h' -> (drop (int_of_string arg) tag, msg)
  | 'e' -> (tag @ unhex arg, msg)
  | 'p' -> (unhex arg @ tag, msg)
  | 'x' -> (unhex arg, msg)
  | 'z' -> ([], msg)
  | 'm' -> (tag, unhex arg)
  | 'a' -> (tag, msg @ unhex arg)
  | _ -> failwith "mutation"
let bits (p : prim) (tag : n list) (msg : n list) (muts : string) : string =
  String.concat "" (List.map (fun mu ->
    let (t, m) = mutate mu tag msg in if p.pverify t m then "1" else "0")
    (List.filter (fun s -> s <> "") (split ';' muts)))
let stage_str st = "rej" ^ string_of_int (int_of_n st)
let hash_of = function
  | "SHA1" -> Some SHA1 | "SHA224" -> Some SHA224 | "SHA256" -> Some SHA256
  | "SHA384" -> Some SHA384 | "SHA512" -> Some SHA512 | _ -> None
let handle line =
  match String.split_on_char '|' line with
  | [_; "W"; hash; key; ops] ->
    (* a crypto/hmac object AS CODED (model/HmacCode.v) over the accumulating streaming hash;
       sha1/sha2 of the standard library are marshalable *)
    (match hash_of hash with
     | None -> "BADCASE"
     | Some h ->
       let ops = List.map (fun t ->
         let rest = String.sub t 1 (String.length t - 1) in
         match t.[0] with
         | 'w' -> HWrite (unhex rest) | 's' -> HSum (unhex rest) | 'r' -> HReset
         | _ -> failwith "op") (split ';' ops) in
       let st = hm_new acc_init acc_write (hash_o h) (block_size h) (unhex key) in
       let (_, outs) = hm_run acc_init acc_write (hash_o h) true st ops in
       "ok|" ^ String.concat "," (List.map hexs outs))
  | _ :: "M" :: keys :: primary :: use :: msg :: muts :: _ ->
    let specs = List.map (fun ks -> match split ',' ks with
      | [a; k; t; v; id] -> ((((alg_of a, unhex k), nat_of_int (int_of_string t)), variant_of v), n_of_dec id)
      | _ -> failwith "keyspec") (split ';' keys) in
    let msg = unhex msg in
    (match build_set hash_o aes_o specs (nat_of_int (int_of_string primary)) with
     | Rejected st -> stage_str st
     | Built p ->
       let ((((a, k), t), v), id) = List.nth specs (int_of_string use) in
       (match build hash_o aes_o PKey a k t v id with
        | Rejected _ -> "rej3"
        | Built q ->
          let alt = q.pcompute msg in
          "ok|" ^ hexs (p.pcompute msg) ^ "|" ^ hexs alt ^ "|" ^ bits p alt msg muts ^ "|d1"))
  | _ :: path :: alg :: key :: tag :: variant :: id :: msg :: muts :: _ ->
    let a = alg_of alg in
    let tag = if path = "I" && alg = "CMAC" then 16 else int_of_string tag in
    let msg = unhex msg in
    (match build hash_o aes_o (path_of path) a (unhex key) (nat_of_int tag) (variant_of variant) (n_of_dec id) with
     | Rejected st -> stage_str st
     | Built p ->
       let t = p.pcompute msg in
       "ok|" ^ hexs t ^ "|" ^ bits p t msg muts ^ "|d1")
  | _ -> failwith "case"
