(* C07 handler: parse a case line, run the extracted model (coq/model/Stream.v)
   and print the canonical observation the Go harness (harness/p/c07) prints. *)
let field_sep = '|'
let opt_nat s = if s = "-" || s = "" then None else Some (nat_of_int (int_of_string s))
let ints s = if s = "-" || s = "" then [] else List.map int_of_string (split ',' s)
let okerr b = if b then "ok" else "err"

(* stdlib oracles *)
let hname = function SHA1 -> "sha1" | SHA256 -> "sha256" | SHA512 -> "sha512"
let o_hkdf h ikm salt info len =
  let r = oracle (String.concat " " ["hkdf"; hname h; hexs ikm; hexs salt; hexs info; string_of_int (int_of_nat len)]) in
  if r = "ERR" then failwith "oracle hkdf" else unhex r
let o_gcm_seal k n p = obytes "gcm_seal" [k; n; []; p]
let o_gcm_open k n c = obytes_opt "gcm_open" [k; n; []; c]
let o_aes_ctr k iv d = obytes "aes_ctr" [k; iv; d]
let o_hmac h k m = ocall "hmac" [hname h] [k; m]

(* Write / Close histories *)
let run_wops (wr : wst -> bytes -> wst * wres) (cl : wst -> wst * bool) (st0 : wst) (ops : string) : string list * wst =
  let st = ref st0 and out = ref [] and stop = ref false in
  List.iter (fun op ->
    if op <> "" && not !stop then begin
      if op = "c" then begin
        let (s, ok) = cl !st in st := s; out := ("c:" ^ okerr ok) :: !out
      end else begin
        let data = unhex (String.sub op 1 (String.length op - 1)) in
        let (s, r) = wr !st data in
        st := s;
        (match r with
         | WOk n -> out := Printf.sprintf "w:%d:ok" (int_of_nat n) :: !out
         | WErr n -> out := Printf.sprintf "w:%d:err" (int_of_nat n) :: !out
         | WPanic -> out := "panic" :: !out; stop := true
         | WFuel -> out := "fuel" :: !out; stop := true)
      end
    end) (split ';' ops);
  (List.rev !out, !st)

(* Read histories: listed sizes until the first terminal, then Read(drain)
   until one (at most 20000 calls), then two more calls *)
let run_reads (rd : 'a -> nat -> 'a * rres) (st0 : 'a) (sizes : int list) (drain : int) : string list =
  let st = ref st0 and out = ref [] and term = ref false and panicked = ref false in
  let one n =
    let (s, r) = rd !st (nat_of_int n) in
    st := s;
    (match r with
     | RData b -> out := (hexs b ^ ":nil") :: !out
     | REof -> out := "-:eof" :: !out; term := true
     | RErr -> out := "-:err" :: !out; term := true
     | RPanic -> out := "panic" :: !out; panicked := true) in
  (try
    List.iter (fun n -> if not !term && not !panicked then one n) sizes;
    let i = ref 0 in
    while not !term && not !panicked && !i < 20000 do one drain; incr i done;
    if !term && not !panicked then begin
      (* two calls after the terminal: only the bytes handed out are observed *)
      let post () =
        let (s, r) = rd !st (nat_of_int drain) in
        st := s;
        (match r with
         | RData b -> out := ("+" ^ hexs b) :: !out
         | REof | RErr -> out := "+-" :: !out
         | RPanic -> out := "panic" :: !out; panicked := true) in
      post (); if not !panicked then post ()
    end
  with Exit -> ());
  List.rev !out

(* byte-level edits, same rules as applyMut in the harness *)
let rec take n l = if n <= 0 then [] else match l with [] -> [] | x :: t -> x :: take (n - 1) t
let rec drop n l = if n <= 0 then l else match l with [] -> [] | _ :: t -> drop (n - 1) t
let apply_mut (ct : n list) (mut : string) : n list =
  if mut = "-" || mut = "" then ct else
  List.fold_left (fun ct m ->
    if m = "" then ct else
    let len = List.length ct in
    let cl i = if i < 0 then 0 else if i > len then len else i in
    let body = String.sub m 1 (String.length m - 1) in
    let a = List.map (fun s -> s) (String.split_on_char '.' body) in
    let ai k = int_of_string (List.nth a k) in
    match m.[0] with
    | 't' -> take (cl (ai 0)) ct
    | 'x' -> let i = ai 0 and mask = ai 1 in
             if i >= 0 && i < len then
               List.mapi (fun j x -> if j = i then n_of_int ((int_of_n x) lxor mask) else x) ct
             else ct
    | 'a' -> ct @ unhex body
    | 'd' -> let lo = cl (ai 0) and hi = cl (ai 1) in
             if lo <= hi then take lo ct @ drop hi ct else ct
    | 'u' -> let lo = cl (ai 0) and hi = cl (ai 1) in
             if lo <= hi then take hi ct @ take (hi - lo) (drop lo ct) @ drop hi ct else ct
    | 's' -> let lo = cl (ai 0) and mid = cl (ai 1) and hi = cl (ai 2) in
             if lo <= mid && mid <= hi then
               take lo ct @ take (hi - mid) (drop mid ct) @ take (mid - lo) (drop lo ct) @ drop hi ct
             else ct
    | _ -> failwith "mut") ct (split ';' mut)

let hash_of = function "SHA1" -> SHA1 | "SHA256" -> SHA256 | "SHA512" -> SHA512 | _ -> failwith "hash"

(* (enabled, primary, key) *)
let parse_keys (s : string) : (bool * bool * skey) list =
  List.filter_map (fun ks ->
    if ks = "" then None else
    match String.index_opt ks ':' with
    | None -> failwith "key"
    | Some i ->
      let hd = String.sub ks 0 i and body = String.sub ks (i + 1) (String.length ks - i - 1) in
      let a = Array.of_list (String.split_on_char ',' body) in
      let nat k = nat_of_int (int_of_string a.(k)) in
      let key =
        if a.(0) = "G" then GcmHkdf (unhex a.(2), hash_of a.(1), nat 3, nat 4, nat 5)
        else CtrHmac (unhex a.(2), hash_of a.(1), nat 3, hash_of a.(4), nat 5, nat 6, nat 7) in
      Some (hd.[0] = 'E', hd.[1] = 'P', key)) (split ';' s)

(* what the keyset route additionally demands of a key (parameters.go, key.go) *)
let keyset_ok (k : skey) : bool =
  let ml = List.length (match k with GcmHkdf (m, _, _, _, _) -> m | CtrHmac (m, _, _, _, _, _, _) -> m) in
  key_valid k && (ml = 16 || ml = 32)

let handle line =
  let f = Array.of_list (String.split_on_char field_sep line) in
  match f.(1) with
  | "TW" ->
    let p = { w_nonce_size = nat_of_int (int_of_string f.(2)); w_prefix = unhex f.(3);
              w_seg = nat_of_int (int_of_string f.(4)); w_off = nat_of_int (int_of_string f.(5)) } in
    let sink = { sout = []; sfail = opt_nat f.(7) } in
    (match new_writer p sink with
     | None -> "new:err|out:-"
     | Some st ->
       let (res, st') = run_wops (wwrite toy_encs p) (wclose toy_encs p) st f.(8) in
       String.concat ";" ("new:ok" :: res) ^ "|out:" ^ hexs st'.wsink.sout)
  | "TR" ->
    let p = { r_nonce_size = nat_of_int (int_of_string f.(2)); r_prefix = unhex f.(3);
              r_ctseg = nat_of_int (int_of_string f.(4)); r_off = nat_of_int (int_of_string f.(5)) } in
    let s = { srem = unhex f.(11); sfailr = opt_nat f.(7) } in
    (match new_reader p s with
     | None -> "new:err"
     | Some st ->
       String.concat ";" ("new:ok" :: run_reads (read toy_decs read_full p) st (ints f.(12)) (int_of_string f.(13))))
  | "K" ->
    let route = f.(2) in
    let ekeys = parse_keys f.(3) in
    let dkeys = if f.(4) = "=" then ekeys else parse_keys f.(4) in
    let valid ks = List.for_all (fun (_, _, k) -> if route = "SU" then key_valid k else keyset_ok k) ks in
    if not (valid ekeys && valid dkeys) then "k:err" else begin
      let tape = unhex f.(5) and aad = unhex f.(6) and raad = unhex f.(11) in
      let (_, _, pk) = List.find (fun (_, p, _) -> p) ekeys in
      let sink = { sout = []; sfail = opt_nat f.(8) } in
      let (wout, sink') =
        match new_enc_writer o_hkdf pk tape aad sink with
        | (None, k') -> (["new:err"], k')
        | (Some (((k1, k2), prefix), st), _) ->
          let enc = seg_enc o_gcm_seal o_aes_ctr o_hmac pk (k1, k2) in
          let p = k_wparams pk prefix in
          let (res, st') = run_wops (wwrite enc p) (wclose enc p) st f.(7) in
          ("new:ok" :: res, st'.wsink) in
      let ct = sink'.sout in
      let s = { srem = apply_mut ct f.(9); sfailr = opt_nat f.(13) } in
      let sizes = ints f.(14) and drain = int_of_string f.(15) in
      let rout =
        if route = "SU" then begin
          let (_, _, dk) = List.hd dkeys in
          match new_dec_reader o_hkdf read_full dk raad s with
          | (None, _) -> ["new:err"]
          | (Some (((k1, k2), prefix), st), _) ->
            "new:ok" :: run_reads (read (seg_dec o_gcm_open o_aes_ctr o_hmac dk (k1, k2)) read_full (k_rparams dk prefix)) st sizes drain
        end else begin
          let keys = List.filter_map (fun (e, _, k) -> if e then Some k else None) dkeys in
          "new:ok" :: run_reads (dr_read o_hkdf o_gcm_open o_aes_ctr o_hmac keys raad) (dr_new s) sizes drain
        end in
      "k:ok|W:" ^ String.concat ";" wout ^ "|ct:" ^ hexs ct ^ "|R:" ^ String.concat ";" rout
    end
  | _ -> failwith "kind"
