(* C02 handler: the model decrypts exactly the (ciphertext, AD) pair the Go
   harness hands to Tink and prints ok:<plaintext> | err | PANIC.  The key
   description -> model functions part (scheme_of) is the same as in c01.ml
   (the build concatenates one handler file per property, so it is repeated). *)
let variant_of = function "T" -> VTink | "C" -> VCrunchy | "L" -> VLegacy | _ -> VRaw
let o_seal kind = fun k n a p -> obytes (kind ^ "_seal") [k; n; a; p]
let o_open kind = fun k n a c -> obytes_opt (kind ^ "_open") [k; n; a; c]
let show = function Ok b -> "ok:" ^ hexs b | Err -> "err" | Panic -> "PANIC"
let show_ct = function Ok b -> hexs b | Err -> "enc-err" | Panic -> "PANIC"

let rec take n l = if n = 0 then [] else match l with [] -> [] | x :: t -> x :: take (n - 1) t
let rec drop n l = if n = 0 then l else match l with [] -> [] | _ :: t -> drop (n - 1) t
(* data-key templates of the KMS envelope: (kind of model/EnvelopeDek.v, key length) *)
let dek_info = function
  | "gcm16" -> (DekGcm, 16) | "gcm32" -> (DekGcm, 32) | "chacha" -> (DekChacha, 32)
  | "xchacha" -> (DekXchacha, 32) | "siv16" -> (DekSiv, 16) | "siv32" -> (DekSiv, 32)
  | d -> failwith ("dek " ^ d)

(* key description -> (enc iv p ad, dec c ad, ivlen) *)
let rec scheme_of (f : string array) =
  let scheme = f.(0) and route = f.(1) in
  let prefix = output_prefix (variant_of f.(2)) (n_of_dec f.(3)) in
  let key = unhex f.(5) in
  match scheme with
  | "gcm" ->
    ((fun iv p ad -> aesgcm_enc (o_seal "gcm") prefix key iv p ad),
     (fun c ad -> aesgcm_dec (o_open "gcm") prefix key c ad), 12)
  | "chacha" when route = "S" ->
    ((fun iv p ad -> chacha_subtle_enc (o_seal "chacha") key iv p ad),
     (fun c ad -> chacha_subtle_dec (o_open "chacha") key c ad), 12)
  | "chacha" ->
    ((fun iv p ad -> chacha_enc (o_seal "chacha") prefix key iv p ad),
     (fun c ad -> chacha_dec (o_open "chacha") prefix key c ad), 12)
  | "xchacha" when route = "S" ->
    ((fun iv p ad -> xchacha_enc (o_seal "xchacha") prefix key iv p ad),
     (fun c ad -> xchacha_subtle_dec (o_open "xchacha") key c ad), 24)
  | "xchacha" ->
    ((fun iv p ad -> xchacha_enc (o_seal "xchacha") prefix key iv p ad),
     (fun c ad -> xchacha_dec (o_open "xchacha") prefix key c ad), 24)
  | "etm" ->
    (match split '.' f.(4) with
     | [ivs; tags; hash; aeslen] ->
       let ivs = int_of_string ivs and tags = int_of_string tags and aeslen = int_of_string aeslen in
       let k = { ek_aes = take aeslen key; ek_hmac = drop aeslen key; ek_iv = nat_of_int ivs; ek_tag = nat_of_int tags } in
       let aes = fun k b -> obytes "aes_enc" [k; b] in
       let hmac = fun k m -> ocall "hmac" [hash] [k; m] in
       let hlen = match hash with "sha1" -> 20 | "sha224" -> 28 | "sha256" -> 32 | "sha384" -> 48 | _ -> 64 in
       if not (etm_valid (nat_of_int hlen) k) then failwith "nokey" else
       ((fun iv p ad -> etm_enc aes hmac prefix k iv p ad),
        (fun c ad -> if route = "S" then etm_subtle_dec aes hmac k c ad else etm_dec aes hmac prefix k c ad), ivs)
     | _ -> failwith "etm params")
  | "siv" ->
    let aes = fun k b -> obytes "aes_enc" [k; b] in
    ((fun iv p ad -> siv_enc aes prefix key iv p ad),
     (fun c ad -> siv_dec aes prefix key c ad), 12)
  | "xaes" ->
    let aes = fun k b -> obytes "aes_enc" [k; b] in
    let salt = int_of_string f.(4) in
    ((fun iv p ad -> xaes_enc aes (o_seal "gcm") (nat_of_int salt) prefix key iv p ad),
     (fun c ad -> xaes_dec aes (o_open "gcm") (nat_of_int salt) prefix key c ad), salt + 12)
  | "pad" ->
    (* harness-side key-encryption AEAD with ciphertexts of a chosen size (harness/p/c01/aead.go padAEAD):
       be16(|ic|) || ic || zeros up to exactly n bytes around the inner AEAD's ciphertext ic; Decrypt accepts
       exactly such strings.  It plays the abstract kek_enc / kek_dec of the envelope theorems. *)
    (match String.split_on_char '~' f.(4) with
     | ns :: is :: ir :: ip ->
       let n = int_of_string ns in
       let (ienc, idec, iivlen) = scheme_of [| is; ir; f.(2); f.(3); String.concat "~" ip; f.(5) |] in
       let zeros k = List.init k (fun _ -> N0) in
       ((fun iv p ad ->
           match ienc iv p ad with
           | Ok ic ->
             let l = List.length ic in
             if 2 + l > n || l > 65535 then Err
             else Ok (byte_tab.(l lsr 8) :: byte_tab.(l land 255) :: ic @ zeros (n - 2 - l))
           | e -> e),
        (fun c ad ->
           if List.length c <> n || n < 2 then Err else
           match c with
           | h :: lo :: rest ->
             let l = 256 * int_of_n h + int_of_n lo in
             if 2 + l > n then Err
             else if List.exists (fun b -> b <> N0) (drop l rest) then Err
             else idec (take l rest) ad
           | _ -> Err),
        iivlen)
     | _ -> failwith "pad params")
  | "env" ->
    (match String.split_on_char '~' f.(4) with
     | dek :: ks :: kr :: kp ->
       let (kenc, kdec, kivlen) = scheme_of [| ks; kr; f.(2); f.(3); String.concat "~" kp; f.(5) |] in
       (* the data-key AEAD is the Coq definition EnvelopeDek.dek_enc / dek_dec (serialised DEK ->
          parse, key-size check, RAW primitive of the key type), the one the closed envelope theorems are about *)
       let aes = fun k b -> obytes "aes_enc" [k; b] in
       if String.length dek > 4 && String.sub dek 0 4 = "etm:" then begin
         (* AES-CTR-HMAC data key (model/EnvelopeDekEtm.v): etm:<iv>.<tag>.<hash>.<aes key len>.<hmac key len>;
            the tape gives the AES key, then the HMAC key, as aesctrhmac.createKey draws them *)
         match split '.' (String.sub dek 4 (String.length dek - 4)) with
         | [ivs; tags; hash; al; hl] ->
           let ivs = int_of_string ivs and tags = int_of_string tags and al = int_of_string al and hl = int_of_string hl in
           let hname = function 1 -> "sha1" | 2 -> "sha384" | 3 -> "sha256" | 4 -> "sha512" | 5 -> "sha224" | _ -> failwith "hash enum" in
           let henum = match hash with "sha1" -> 1 | "sha384" -> 2 | "sha256" -> 3 | "sha512" -> 4 | "sha224" -> 5 | _ -> failwith "hash" in
           let hmacs = fun h k m -> ocall "hmac" [hname (int_of_n h)] [k; m] in
           (* nothing of the template but its type reaches Decrypt: the parsed key carries its own sizes *)
           let denc = etm_dek_enc aes hmacs and ddec = etm_dek_dec aes hmacs in
           let dklen = al + hl in
           ((fun tape p ad ->
               let dk = take dklen tape in
               let kiv = take kivlen (drop dklen tape) and div = drop (dklen + kivlen) tape in
               let k = { ek_aes = take al dk; ek_hmac = drop al dk; ek_iv = nat_of_int ivs; ek_tag = nat_of_int tags } in
               env_enc kenc denc (etm_dek_proto byte_tab.(henum) k) kiv div p ad),
            (fun c ad -> env_dec kdec ddec c ad), dklen + kivlen + ivs)
         | _ -> failwith "etm dek"
       end else
       let (kd, dklen) = dek_info dek in
       let denc = dek_enc aes (o_seal "gcm") (o_seal "chacha") (o_seal "xchacha") kd in
       let ddec = dek_dec aes (o_open "gcm") (o_open "chacha") (o_open "xchacha") kd in
       let divlen = int_of_nat (dek_ivlen kd) in
       ((fun tape p ad ->
           let dk = take dklen tape in
           let kiv = take kivlen (drop dklen tape) and div = drop (dklen + kivlen) tape in
           env_enc kenc denc (dek_proto (dek_tag kd) dk) kiv div p ad),
        (fun c ad -> env_dec kdec ddec c ad), dklen + kivlen + divlen)
     | _ -> failwith "env params")
  | _ -> failwith ("scheme " ^ scheme ^ route)

let handle line =
  match String.split_on_char '|' line with
  | "C02" :: rest when List.length rest = 10 ->
    let f = Array.of_list rest in
    let kind = f.(6) in
    if String.length kind > 6 && String.sub kind 0 6 = "bigad." then
      (* DIRECT case (harness/p/c02 runBigAD): an associated data of 2^k bytes (k up to 29) cannot be held as a
         list here; the expected observation is the property itself — the genuine pair decrypts to p0, the pair
         with the AD moved in front of the body and an empty AD is an error.  Model-level counterpart:
         EtMProofs.mac_input_injective below 2^61 bytes and its necessity C02_etm_mac_input_ambiguous_at_2_61_refuted. *)
      "ctl=ok:" ^ f.(9) ^ "|shift=err"
    else
    if String.length kind > 5 && String.sub kind 0 5 = "huge." then begin
      (* too long to materialise: length-only prediction (AeadFrameProofs.na_dec_len_only_err/_panic) *)
      let len = n_of_dec (String.sub kind 5 (String.length kind - 5)) in
      let pl = match f.(2) with "R" -> 0 | _ -> 5 in
      let ivlen = match f.(0) with "chacha" -> 12 | "xchacha" -> 24 | _ -> failwith "huge scheme" in
      (match na_dec_len_only (Some chacha_open_max) (Some chacha_tink_ct_max) (nat_of_int pl) (nat_of_int ivlen) (nat_of_int 16) len true with
       | Some Err -> "err" | Some Panic -> "PANIC" | Some (Ok _) -> failwith "len-only"
       | None -> failwith "huge case whose outcome depends on the content")
    end else if f.(0) = "ks" then begin
      (* keyset: one model primitive per ENABLED key, in keyset order *)
      let prims = List.filter_map (fun e ->
        match String.split_on_char ',' e with
        | [sc; ro; va; id; pa; ke; st] ->
          if st <> "E" then None else
          let g = [| sc; ro; va; id; pa; ke |] in
          let (enc, dec, _) = scheme_of g in
          (* a KMS-envelope key has only a key manager: aead.New wraps its primitive (which knows no prefix)
             in fullAEADPrimitiveAdapter = prim_dec with pr_legacy (unchecked ciphertext[len(prefix):]) *)
          Some { pr_prefix = output_prefix (variant_of va) (n_of_dec id); pr_legacy = (sc = "env"); pr_enc = enc; pr_dec = dec }
        | _ -> failwith "ks entry") (String.split_on_char ';' f.(5)) in
      show (ks_dec prims (unhex f.(7)) (unhex f.(8)))
    end else begin
      let (_, dec, _) = scheme_of f in
      show (dec (unhex f.(7)) (unhex f.(8)))
    end
  | _ -> failwith "case"
