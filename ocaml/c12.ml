(* C12 handler: parse the case line, run the extracted model of the wire codec
   and of the key / parameters / keyset serialisation, print the same canonical
   observation as the Go harness (harness/p/c12). *)
let bytes_of_str (s : string) : n list = List.init (String.length s) (fun i -> byte_tab.(Char.code s.[i]))
let str_of_bytes (b : n list) : string = String.concat "" (List.map (fun x -> String.make 1 (Char.chr (int_of_n x))) b)

(* schema text  num:kind,...  kinds u32 u64 i32 i64 e b y s m(..) r(..) *)
let parse_schema (s : string) : schema =
  let n = String.length s in
  let pos = ref 0 in
  let rec fields () : schema =
    if !pos >= n || s.[!pos] = ')' then SNil else begin
      let st = !pos in
      while s.[!pos] <> ':' do incr pos done;
      let num = n_of_dec (String.sub s st (!pos - st)) in
      incr pos;
      let st = !pos in
      while !pos < n && (match s.[!pos] with 'a'..'z' | '0'..'9' -> true | _ -> false) do incr pos done;
      let kind = String.sub s st (!pos - st) in
      let sub () = incr pos; let r = fields () in incr pos; r in
      let t = match kind with
        | "u32" -> TU32 | "u64" -> TU64 | "i32" -> TI32 | "i64" -> TI64 | "e" -> TEnum | "b" -> TBool
        | "y" -> TBytes | "s" -> TString
        | "m" -> TMsg (sub ()) | "r" -> TRep (sub ())
        | _ -> failwith ("schema kind " ^ kind) in
      if !pos < n && s.[!pos] = ',' then incr pos;
      SCons (num, t, fields ())
    end in
  fields ()

let rec text (s : schema) (m : msg) : string =
  let rec go s m = match s, m with
    | SCons (_, t, s'), v :: m' ->
      (match t, v with
       | _, VInt x -> dec_of_n x
       | _, VBytes b -> hexs b
       | _, VMsg None -> "~"
       | TMsg sub, VMsg (Some x) -> "{" ^ text sub x ^ "}"
       | TRep sub, VRep xs -> "[" ^ String.concat "" (List.map (fun x -> "{" ^ text sub x ^ "}") xs) ^ "]"
       | _, _ -> "?") :: go s' m'
    | _, _ -> [] in
  String.concat "," (go s m)

let ser_string (s : kser) : string =
  Printf.sprintf "%s|%s|%s|%s|%s" (str_of_bytes s.ks_url) (dec_of_n s.ks_mat) (dec_of_n s.ks_prefix) (dec_of_n s.ks_id) (hexs s.ks_value)

let get_ktype url sch = match ktype_of url sch with Some t -> t | None -> failwith ("no prefix maps for " ^ str_of_bytes url)

let handle_k f =
  let url = bytes_of_str f.(2) and mat = n_of_dec f.(3) and prefix = n_of_dec f.(4) and id = n_of_dec f.(5)
  and value = unhex f.(6) and sch = parse_schema f.(7) in
  match new_key_serialization url value mat prefix id with
  | None -> "err-ser"
  | Some s0 ->
    let t = get_ktype url sch in
    match parse_key t s0 with
    | None -> "err"
    | Some k ->
      match serialize_key t k with
      | None -> "MODEL-FAIL serialize of a parsed key"
      | Some s1 ->
        let pub =
          if f.(8) = "-" then "-" else
          match public_of t (n_of_dec f.(9)) (bytes_of_str f.(8)) k with
          | None -> "?"
          | Some (ps, pg) ->
            (match serialize_key (get_ktype (bytes_of_str f.(8)) ps) pg with
             | Some s -> ser_string s | None -> "?") in
        "ok|" ^ ser_string s1 ^ "|" ^ text sch k.gk_fields ^ "|PUB:" ^ pub ^ ""

let handle_p f =
  let url = bytes_of_str f.(2) and prefix = n_of_dec f.(3) and value = unhex f.(4) and sch = parse_schema f.(5) in
  let t = get_ktype url sch in
  match parse_params t { tp_url = url; tp_value = value; tp_prefix = prefix } with
  | None -> "err"
  | Some p ->
    match serialize_params t p with
    | None -> "MODEL-FAIL serialize of parsed parameters"
    | Some t1 ->
      Printf.sprintf "ok|%s|%s|%s|%s" (str_of_bytes t1.tp_url) (dec_of_n t1.tp_prefix) (hexs t1.tp_value) (text sch p.gp_fields)

let handle_w f =
  let sch = parse_schema f.(3) in
  match decode sch (unhex f.(4)) with
  | None -> "err"
  | Some m -> "ok|" ^ hexs (encode sch m) ^ "|" ^ text sch m ^ ""

let assoc_of (s : string) : (string * string) list =
  List.filter_map (fun kv -> match String.index_opt kv '=' with
    | Some i -> Some (String.sub kv 0 i, String.sub kv (i + 1) (String.length kv - i - 1))
    | None -> None) (split ';' s)

let rec firstn_l k l = if k = 0 then [] else match l with [] -> [] | x :: r -> x :: firstn_l (k - 1) r
let rec skipn_l k l = if k = 0 then l else match l with [] -> [] | _ :: r -> skipn_l (k - 1) r

let handle_h f =
  let kek_kind = f.(2) and kek = unhex f.(3) and ad = unhex f.(4) and tape = unhex f.(5) and primary = n_of_dec f.(6) in
  let schemas = List.map (fun (u, s) -> (u, parse_schema s)) (assoc_of f.(8)) in
  let pubs = List.map (fun (u, p) -> match split '~' p with
    | [pu; pf] -> (u, (bytes_of_str pu, n_of_dec pf)) | _ -> failwith "puburls") (assoc_of f.(9)) in
  let reg (url : n list) : ktype option =
    match List.assoc_opt (str_of_bytes url) schemas with
    | Some sch -> ktype_of url sch
    | None -> None in
  let pub_url (url : n list) = List.assoc_opt (str_of_bytes url) pubs in
  let keys = List.map (fun es -> match split '~' es with
    | [id; st; pt; mat; url; v] ->
      { pk_data = Some { kd_url = bytes_of_str url; kd_value = unhex v; kd_mat = n_of_dec mat };
        pk_status = n_of_dec st; pk_id = n_of_dec id; pk_prefix = n_of_dec pt }
    | _ -> failwith "entry") (split ';' f.(7)) in
  let ks = { pks_primary = primary; pks_keys = keys } in
  match handle_from_proto (dpar reg) ks with
  | None -> "err"
  | Some es ->
    let shape es =
      "h[" ^ String.concat "," (List.map (fun e ->
        let st = match e.e_status with Enabled -> "E" | Disabled -> "D" | Destroyed -> "X" | Unknown -> "?" in
        let (req, url, pt) = match dser e.e_key with
          | Some s ->
            ((if int_of_n s.ks_prefix = 3 then "R" else dec_of_n s.ks_id),
             (let u = str_of_bytes s.ks_url in
              let p = "type.googleapis.com/" in
              String.sub u (String.length p) (String.length u - String.length p)),
             dec_of_n s.ks_prefix)
          | None -> ("?", "?", "?") in
        Printf.sprintf "%s.%s.%s.%s.%s.%s" (dec_of_n e.e_id) st (if e.e_primary then "1" else "0") req url pt) es) ^ "]" in
    let b1 = match write_cleartext dser es with Some b -> b | None -> failwith "write_cleartext" in
    (* the model's own round trip: reading what it wrote gives the same handle *)
    (match read_cleartext (dpar reg) b1 with
     | Some es' when shape es' = shape es && write_cleartext dser es' = Some b1 -> ()
     | _ -> failwith "model round trip of the binary keyset");
    (* ... and through the JSON text: the model prints the keyset (model/JsonKeyset.v) and its
       JSON reader gives the same handle back (C12_registry_json_cleartext_roundtrip) *)
    (match write_cleartext_json dser es with
     | Some text ->
       (match read_cleartext_json (dpar reg) text with
        | Some es' when shape es' = shape es && write_cleartext dser es' = Some b1 -> ()
        | _ -> failwith "model round trip of the JSON keyset")
     | None -> failwith "write_cleartext_json");
    let e1 =
      if kek_kind <> "gcm" then "-" else begin
        let iv = firstn_l 12 tape in
        let enc ad pt = iv @ ocall "gcm_seal" [] [kek; iv; ad; pt] in
        let dec ad ct =
          if List.length ct < 12 then None
          else ocall_opt "gcm_open" [] [kek; firstn_l 12 ct; ad; skipn_l 12 ct] in
        match write_encrypted dser enc es ad with
        | Some b ->
          (* the model's own round trip through the encrypted form (C12_registry_encrypted_roundtrip) *)
          (match read_encrypted (dpar reg) dec b ad with
           | Some es' when shape es' = shape es && write_cleartext dser es' = Some b1 -> ()
           | _ -> failwith "model round trip of the encrypted keyset");
          hexs b
        | None -> failwith "write_encrypted"
      end in
    let pb = match public_handle (dpub reg pub_url) es with
      | Some pes ->
        (match write_cleartext dser pes with
         | Some b ->
           (* the public handle is again a registry handle: it survives write/read
              (C12_registry_public_roundtrip) *)
           (match read_cleartext (dpar reg) b with
            | Some pes' when shape pes' = shape pes && write_cleartext dser pes' = Some b -> ()
            | _ -> failwith "model round trip of the public keyset");
           hexs b
         | None -> "?")
      | None -> "-" in
    "ok|" ^ shape es ^ "|" ^ hexs b1 ^ "|" ^ e1 ^ "|" ^ pb ^ ""

(* T|tag|K or E|<json text hex>: the JSON text of a Keyset / EncryptedKeyset through the JSON reader.
   The model parses the TEXT itself and prints the message as canonical protobuf bytes.
   Both printers of the model are run on what the reader produced (print, read back, same message).
   On jt-tink-writer lines the text is what Tink's own JSON writer (protojson.Marshal with
   EmitUnpopulated) emitted: it must equal the model's protojson-style text
   (json_text_pj_of_*: enum names, standard padded base64, every field present) once the white
   space protojson injects outside strings is removed - unless the text uses one of the short
   string escapes (\b \f \n \r \t) or non-ASCII escapes where protojson and the model's
   printer write the same string differently. *)
let strip_ws_outside_strings (s : string) : string =
  let b = Buffer.create (String.length s) in
  let in_str = ref false and esc = ref false in
  String.iter (fun c ->
      if !in_str then begin
        Buffer.add_char b c;
        if !esc then esc := false
        else if c = '\\' then esc := true
        else if c = '"' then in_str := false
      end else if c = '"' then (in_str := true; Buffer.add_char b c)
      else if c = ' ' || c = '\n' || c = '\t' || c = '\r' then ()
      else Buffer.add_char b c) s;
  Buffer.contents b
let same_escapes (s : string) : bool =
  (* only the quote and backslash escapes: there the two printers agree *)
  let ok = ref true in
  let n = String.length s in
  let i = ref 0 in
  while !i < n do
    if s.[!i] = '\\' && !i + 1 < n then begin
      (match s.[!i + 1] with '"' | '\\' -> () | _ -> ok := false);
      i := !i + 2
    end else incr i
  done;
  !ok
let string_of_nbytes (b : n list) : string =
  let buf = Buffer.create 64 in List.iter (fun x -> Buffer.add_char buf (Char.chr (int_of_n x))) b; Buffer.contents buf
let compare_with_writer (tag : string) (text : n list) (model_text : n list) : unit =
  if String.length tag >= 14 && String.sub tag 0 14 = "jt-tink-writer" then begin
    let theirs = strip_ws_outside_strings (string_of_nbytes text) in
    let ours = string_of_nbytes model_text in
    if same_escapes theirs && theirs <> ours then
      failwith ("model: the protojson-style text of the message differs from what Tink's JSON writer emitted: model "
                ^ ours ^ " writer " ^ theirs)
  end
let handle_t f =
  let text = unhex f.(3) in
  if f.(2) = "K" then begin
    (* the printers on what the reader produced: print, read back, same message *)
    (match keyset_of_json_text text with
     | Some jks ->
       (match keyset_of_json_text (json_text_of_keyset jks) with
        | Some jks' when jks' = jks -> ()
        | _ -> failwith "model: printed keyset text does not read back");
       (match keyset_of_json_text (json_text_pj_of_keyset jks) with
        | Some jks' when jks' = jks -> ()
        | _ -> failwith "model: protojson-style keyset text does not read back");
       compare_with_writer f.(1) text (json_text_pj_of_keyset jks)
     | None -> ());
    match canon_keyset_bytes text with Some b -> "ok|" ^ hexs b | None -> "err"
  end else begin
    (match encrypted_of_json_text text with
     | Some e ->
       (match encrypted_of_json_text (json_text_of_encrypted e) with
        | Some e' when e' = e -> ()
        | _ -> failwith "model: printed EncryptedKeyset text does not read back");
       (match encrypted_of_json_text (json_text_pj_of_encrypted e) with
        | Some e' when e' = e -> ()
        | _ -> failwith "model: protojson-style EncryptedKeyset text does not read back");
       compare_with_writer f.(1) text (json_text_pj_of_encrypted e)
     | None -> ());
    match canon_encrypted_bytes text with Some b -> "ok|" ^ hexs b | None -> "err"
  end

let handle (line : string) : string =
  let f = Array.of_list (String.split_on_char '|' line) in
  match f.(0) with
  | "K" -> handle_k f
  | "P" -> handle_p f
  | "W" -> handle_w f
  | "H" | "M" | "N" -> handle_h f  (* M, N: the same keyset, the handle built through keyset.Manager *)
  | "T" -> handle_t f
  | "U" -> "u"  (* direct check only: a handle with a key its serializer refuses *)
  | "GENFAIL" -> "genfail-not-expected"
  | _ -> failwith "case kind"
