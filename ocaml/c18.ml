(* C18 handler: the hammer cases are direct-oracle cases; the property demands "ok". *)
let handle (_ : string) = "ok"
