(* C09 handler: parse the case line (see harness/p/c09/c09.go), run the
   extracted model of model/Jwt.v, print the same canonical observation as the
   Go harness.  The Section variables of the model are closures built from the
   case line (V/J: signature validity as the harness computed it with the
   standard library; E: a toy signer that satisfies the laws of the round-trip
   theorem).

   JSON TEXT: the model parses the header / payload bytes and the JWK set text
   ITSELF (Json.json_parse_text).  What structpb.Struct.UnmarshalJSON said
   about the same bytes (hp / pp of a V/J line, the second field of an I line)
   is only a cross-check: on every case the model's own parse must have the
   same verdict and the same canonical value, else the case is a mismatch.
   The one oracle left is the float64 view of a number literal that the model
   does not decide itself (Json.lit_class = NCOracle: the value is not an
   integer, or is an integer from 2^53 up, or the literal is outside the digit
   budget - integer part of more than 800 digits, or exponent magnitude >= 10000
   on a non-zero mantissa; op json_num of the stdlib oracle: strconv.ParseFloat).  The
   parser is Json.json_parse_x = json_parse_text (num_x oracle): for every
   other literal (an integer below 2^53 in ANY spelling, zero, underflow,
   overflow) the oracle is NOT consulted - num_of_literal fails if it is asked
   about one, and on a case whose tag contains "numx" (the harness families of
   model-decided spellings) the handler fails if the oracle was asked at all. *)
let z_of_dec (s : string) : z =
  if s <> "" && s.[0] = '-' then
    (match n_of_dec (String.sub s 1 (String.length s - 1)) with N0 -> Z0 | Npos p -> Zneg p)
  else (match n_of_dec s with N0 -> Z0 | Npos p -> Zpos p)
let dec_of_z (x : z) : string =
  match x with Z0 -> "0" | Zpos p -> dec_of_n (Npos p) | Zneg p -> "-" ^ dec_of_n (Npos p)
let bytes_of_string (s : string) : n list = List.init (String.length s) (fun i -> byte_tab.(Char.code s.[i]))
let string_of_bytes (b : n list) : string =
  let buf = Buffer.create 64 in List.iter (fun x -> Buffer.add_char buf (Char.chr (int_of_n x))) b; Buffer.contents buf
let opt_bytes s = if s = "~" then None else Some (unhex s)
let opt_z s = if s = "~" then None else Some (z_of_dec s)
let show_opt = function None -> "~" | Some b -> hexs b

(* ---- canonical JSON text <-> json ---- *)
let rec parse_value (toks : string list) : json * string list =
  match toks with
  | [] -> failwith "json: out of tokens"
  | t :: rest ->
    let tl = String.sub t 1 (String.length t - 1) in
    (match t.[0] with
     | 'n' -> (JNull, rest)
     | 't' -> (JBool true, rest)
     | 'f' -> (JBool false, rest)
     | 's' -> (JStr (unhex tl), rest)
     | 'd' -> let i = String.index tl 'x' in
       (JNum (z_of_dec (String.sub tl 0 i), unhex (String.sub tl (i + 1) (String.length tl - i - 1))), rest)
     | 'a' -> let n = int_of_string tl in
       let rec go k acc rest = if k = 0 then (JArr (List.rev acc), rest)
         else let (v, rest) = parse_value rest in go (k - 1) (v :: acc) rest in
       go n [] rest
     | 'o' -> let n = int_of_string tl in
       let rec go k acc rest = if k = 0 then (JObj (List.rev acc), rest)
         else (match rest with
             | kt :: rest when kt.[0] = 'k' ->
               let key = unhex (String.sub kt 1 (String.length kt - 1)) in
               let (v, rest) = parse_value rest in go (k - 1) ((key, v) :: acc) rest
             | _ -> failwith "json: key expected") in
       go n [] rest
     | _ -> failwith "json: token")
let parse_fields (s : string) : (n list * json) list =
  match parse_value (String.split_on_char ',' s) with
  | (JObj f, []) -> f
  | _ -> failwith "json: object expected"

(* linear in the size of the value (an accumulator, not list concatenation:
   values nested a few thousand levels deep occur in the text-layer stream) *)
let canon (sorted : bool) (j : json) : string list =
  let acc = ref [] in
  let emit t = acc := t :: !acc in
  let rec go j =
    match j with
    | JNull -> emit "n" | JBool true -> emit "t" | JBool false -> emit "f"
    | JStr s -> emit ("s" ^ hexs s)
    | JNum (t, r) -> emit ("d" ^ dec_of_z t ^ "x" ^ hexs r)
    | JArr l -> emit ("a" ^ string_of_int (List.length l)); List.iter go l
    | JObj f ->
      let f = if sorted then List.stable_sort (fun (a, _) (b, _) -> compare (string_of_bytes a) (string_of_bytes b)) f else f in
      emit ("o" ^ string_of_int (List.length f));
      List.iter (fun (k, v) -> emit ("k" ^ hexs k); go v) f in
  go j; List.rev !acc
let canon_fields sorted f = String.concat "," (canon sorted (JObj f))

(* ---- the JSON text layer ---- *)
let text_of_lit (l : numlit) : n list =
  (if l.nl_neg then [n_of_int 45] else []) @ l.nl_int
  @ (if l.nl_frac = [] then [] else n_of_int 46 :: l.nl_frac)
  @ (match l.nl_exp with
      | None -> []
      | Some (neg, ds) -> n_of_int 101 :: (if neg then [n_of_int 45] else []) @ ds)
let num_calls = Hashtbl.create 16
let oracle_asked = ref 0
let num_of_literal (l : numlit) : (z * n list) option =
  let key = hexs (text_of_lit l) in
  (match lit_class l with
   | NCOracle -> ()
   | _ -> failwith ("the float oracle is consulted for a literal the model decides itself: " ^ key));
  incr oracle_asked;
  match Hashtbl.find_opt num_calls key with
  | Some r -> r
  | None ->
    let r = oracle ("json_num " ^ key) in
    let v = if r = "ERR" then None else
        let i = String.index r 'x' in
        Some (z_of_dec (String.sub r 0 i), unhex (String.sub r (i + 1) (String.length r - i - 1))) in
    Hashtbl.replace num_calls key v; v
let num_view = num_x num_of_literal
let parse_text (b : n list) : (n list * json) list option = json_parse_x num_of_literal b
let show_parse = function None -> "!" | Some f -> canon_fields true f
(* the correspondence of the text layer: the model's parse of b against what
   structpb.Struct.UnmarshalJSON said (canonical text, "!" = error) *)
let cross_check (what : string) (b : n list) (harness : string) : (n list * json) list option =
  let own = parse_text b in
  if show_parse own <> harness then
    failwith ("text layer: the model parses the " ^ what ^ " as " ^ show_parse own ^ " but structpb.Struct.UnmarshalJSON gave " ^ harness);
  own

(* ---- case-line pieces ---- *)
let parse_key (i : int) (s : string) : jkey =
  match String.split_on_char '.' s with
  | [id; st; _; alg; kid; _] ->
    { kref = n_of_int i; kenabled = (st = "E"); kalg = bytes_of_string alg;
      kkid = (match kid.[0] with
          | 'T' -> KTink (n_of_dec id)
          | 'C' -> KCustom (unhex (String.sub kid 1 (String.length kid - 1)))
          | _ -> KIgnored) }
  | _ -> failwith "key"
let parse_keys s = List.mapi parse_key (List.filter (fun x -> x <> "") (String.split_on_char ';' s))

let parse_vopts (s : string) : vopts =
  match String.split_on_char ';' s with
  | [typ; iss; aud; auds; it; ia; ii; am; ip; skew; now] ->
    { o_typ = opt_bytes typ; o_iss = opt_bytes iss; o_aud = opt_bytes aud; o_ign_typ = (it = "1"); o_ign_aud = (ia = "1");
      o_ign_iss = (ii = "1"); o_allow_noexp = (am = "1"); o_iat_past = (ip = "1"); o_skew = z_of_dec skew; o_now = z_of_dec now;
      o_auds = opt_bytes auds }
  | _ -> failwith "vopts"

let parse_rawopts (s : string) : rawopts =
  match String.split_on_char ';' s with
  | [typ; aud; auds; sub; iss; jti; iat; exp; nbf; noexp; custom] ->
    { ro_typ = opt_bytes typ; ro_aud = opt_bytes aud;
      ro_auds = (if auds = "~" then None else if auds = "L" then Some []
                 else Some (List.map unhex (String.split_on_char ':' (String.sub auds 1 (String.length auds - 1)))));
      ro_sub = opt_bytes sub; ro_iss = opt_bytes iss; ro_jti = opt_bytes jti;
      ro_iat = opt_z iat; ro_exp = opt_z exp; ro_nbf = opt_z nbf; ro_noexp = (noexp = "1");
      ro_custom = (if custom = "~" then None else Some (parse_fields custom)) }
  | _ -> failwith "rawopts"

let show_claims (r : rawjwt) : string =
  let f = r.r_payload in
  let str name k = name ^ "=" ^ (if not (has k f) then "~" else match claim_str f k with None -> "!" | Some s -> hexs s) ^ ";" in
  let tm name k = name ^ "=" ^ (if not (has k f) then "~" else match claim_time f k with None -> "!" | Some t -> dec_of_z t) ^ ";" in
  "typ=" ^ show_opt r.r_typ ^ ";" ^ str "iss" s_iss ^ str "sub" s_sub ^ str "jti" s_jti
  ^ "aud=" ^ (if not (has s_aud f) then "~" else match audiences f with None -> "!" | Some l -> "L" ^ String.concat ":" (List.map hexs l)) ^ ";"
  ^ tm "exp" s_exp ^ tm "nbf" s_nbf ^ tm "iat" s_iat ^ "pl=" ^ canon_fields true f

let show_result = function
  | None -> "badopts"
  | Some (VOk r) -> "ok " ^ show_claims r
  | Some _ -> "rej"

let last_dot_prefix (tok : n list) : n list =
  let s = string_of_bytes tok in
  match String.rindex_opt s '.' with None -> [] | Some i -> bytes_of_string (String.sub s 0 i)

let table (s : string) : (n list * string) option =
  if s = "~" then None else
    let i = String.index s '=' in
    Some (unhex (String.sub s 0 i), String.sub s (i + 1) (String.length s - i - 1))

let handle_verify kind keys o tok sv hp pp =
  let keys = parse_keys keys and o = parse_vopts o and tok = unhex tok in
  let unsigned = last_dot_prefix tok in
  let sig_valid kref sg u =
    if sv = "~" then failwith "sig_valid asked although the harness found no signature part" else
      match String.split_on_char ':' sv with
      | [sh; bits] ->
        if sg <> unhex sh || u <> unsigned then failwith "sig_valid asked on a different (signature, text) pair than the harness computed"
        else bits.[int_of_n kref] = '1'
      | _ -> failwith "sv" in
  (* every decodable header / payload is parsed by the model and compared with
     structpb's verdict, whether or not verification gets that far *)
  let parsed = List.filter_map (fun (what, t) ->
      match table t with
      | Some (b, harness) -> Some (b, cross_check what b harness)
      | None -> None) [("header", hp); ("payload", pp)] in
  let json_parse b =
    match List.assoc_opt b parsed with
    | Some r -> r
    | None -> parse_text b in
  let keys = if kind = "J" then jwk_roundtrip keys else keys in
  let jwk_shape = String.concat "," (List.map (fun k ->
      string_of_bytes k.kalg ^ "." ^ (match k.kkid with KCustom c -> hexs c | _ -> "~")) keys) in
  (if kind = "J" then "priv=refused jwk=" ^ jwk_shape ^ " " else "") ^ show_result (verify sig_valid json_parse keys o tok)

(* the encode round trip: the model prints with Json.json_print_text and parses
   its own text back; the signer is a toy *)
let handle_encode key ropts o =
  let k = { (parse_key 0 key) with kenabled = true } in
  let o = parse_vopts o in
  match new_raw_jwt (parse_rawopts ropts) with
  | None -> "rawerr"
  | Some r ->
    let json_print f = json_print_text f in
    let json_parse b = parse_text b in
    let sign kref m = bytes_of_string ("SIG" ^ dec_of_n kref ^ ":") @ m in
    let sig_valid kref sg m = (sg = sign kref m) in
    (match encode json_print sign k r, encode_parts k r with
     | Some tok, Some (h, p) ->
       let u = last_dot_prefix tok in
       let sg = sign k.kref u in
       let mut = List.mapi (fun i x -> if i = List.length sg / 2 then n_of_int ((int_of_n x) lxor 0x10) else x) sg in
       let mtok = u @ [n_of_int 46] @ b64_encode mut in
       let mres = match verify sig_valid json_parse [k] o mtok with Some (VOk _) -> "acc" | _ -> "rej" in
       Printf.sprintf "tok h=%s;p=%s;sig=%s;mut=%s;%s" (canon_fields true h) (canon_fields true p)
         (if sig_valid k.kref sg u then "1" else "0") mres (show_result (verify sig_valid json_parse [k] o tok))
     | _ -> "signerr")

(* ---- JWK export / import on the material model (model/Jwk.v) ----
   X line:  C09|X|<xkeys>|<tag>      xkeys = id.st.pr.alg.kid.mat.<P|S>.<pub> ; ...
            pub = point (hex) for ES, <modulus hex>:<exponent> for RS/PS, - otherwise
   I line:  C09|I|<json text hex>|<canonical parse | !>|<on-curve table>|<tag>
            table = ~ | <256|384|512>:<point hex>:<0|1>,... (computed by the harness with crypto/elliptic) *)
let hsz_of s = match s with "256" -> H256 | "384" -> H384 | "512" -> H512 | _ -> failwith "hsz"
let hsz_name = function H256 -> "256" | H384 -> "384" | H512 -> "512"
let show_kid = function KTink id -> "T" ^ dec_of_n id | KCustom c -> "C" ^ hexs c | KIgnored -> "I"
let show_pub (k : pubkey) : string =
  match k with
  | PubES (_, pt, kid) -> string_of_bytes (alg_name k) ^ "." ^ show_kid kid ^ "." ^ hexs pt
  | PubRSA (_, _, n, e, kid) -> string_of_bytes (alg_name k) ^ "." ^ show_kid kid ^ "." ^ hexs n ^ ":" ^ dec_of_n e

(* the handle: ids 1..n stand for the random ids; print key, status, primary.
   The import starts from the JWK set TEXT (Json.jwk_import_text /
   jwk_import_handle_text: the model parses it itself). *)
let show_handle (oc : hsz -> n list -> bool) (text : n list) (pks : pubkey list) : string =
  let ids = List.mapi (fun i _ -> n_of_int (i + 1)) pks in
  match jwk_import_handle_text num_view oc ids text with
  | None -> failwith "import_handle disagrees with import"
  | Some (ks, prim) ->
    String.concat "," (List.map (fun en ->
        (match en.e_key with KPub p -> show_pub p | _ -> failwith "imported entry is not a public key")
        ^ "." ^ (match en.e_status with Enabled -> "E" | Disabled -> "D" | Destroyed -> "X")
        ^ (if en.e_id = prim then "1" else "0")) ks)

let show_import (oc : hsz -> n list -> bool) (text : n list) : string =
  match jwk_import_text num_view oc text with
  | None -> "rej"
  | Some pks -> "ok " ^ show_handle oc text pks

let parse_xkey (s : string) : entry =
  match String.split_on_char '.' s with
  | [id; st; _; alg; kid; _; v; pub] ->
    let kidr = (match kid.[0] with
        | 'T' -> KTink (n_of_dec id)
        | 'C' -> KCustom (unhex (String.sub kid 1 (String.length kid - 1)))
        | _ -> KIgnored) in
    let fam = if String.length alg >= 2 then String.sub alg 0 2 else "" in
    let pk =
      if String.length alg = 5 && fam = "ES" then Some (PubES (hsz_of (String.sub alg 2 3), unhex pub, kidr))
      else if String.length alg = 5 && (fam = "RS" || fam = "PS") then
        (match String.split_on_char ':' pub with
         | [n; e] -> Some (PubRSA ((if fam = "RS" then RS else PS), hsz_of (String.sub alg 2 3), unhex n, n_of_dec e, kidr))
         | _ -> failwith "rsa pub")
      else None in
    { e_key = (match pk with
          | None -> KOther (n_of_int 0)
          | Some p -> if v = "S" then KPriv (p, []) else KPub p);
      e_status = (if st = "E" then Enabled else Disabled);
      e_id = n_of_dec id }
  | _ -> failwith "xkey"

let handle_export (keys : string) : string =
  let ks = List.map parse_xkey (List.filter (fun x -> x <> "") (String.split_on_char ';' keys)) in
  (* the exported points are public points of real keys (the harness checks the
     annotation against crypto/ecdh): on the curve *)
  let pts = List.concat_map (fun en -> match en.e_key with KPub (PubES (a, pt, _)) -> [(a, pt)] | _ -> []) ks in
  let oc a pt = List.mem (a, pt) pts in
  match jwk_export ks with
  | None -> "refused"
  | Some (JObj f as j) ->
    (* the exported value is printed by the model's printer and imported from that text *)
    "jwk=" ^ String.concat "," (canon true j) ^ " imp=" ^ show_import oc (json_print_text f)
  | Some _ -> failwith "the exported JWK set is not an object"

let handle_import (text : string) (parsed : string) (table : string) : string =
  let text = unhex text in
  ignore (cross_check "JWK set" text parsed);
  let tab = if table = "~" then [] else
      List.map (fun e -> match String.split_on_char ':' e with
          | [a; pt; b] -> ((hsz_of a, unhex pt), b = "1")
          | _ -> failwith "on-curve table") (String.split_on_char ',' table) in
  let oc a pt = match List.assoc_opt (a, pt) tab with
    | Some b -> b
    | None -> failwith ("on_curve asked on a point the harness did not judge: " ^ hsz_name a ^ ":" ^ hexs pt) in
  show_import oc text

let contains (s : string) (sub : string) : bool =
  let n = String.length s and m = String.length sub in
  let rec go i = i + m <= n && (String.sub s i m = sub || go (i + 1)) in
  go 0

let handle_case (line : string) : string =
  match String.split_on_char '|' line with
  | [_; ("V" | "J" as kind); _; keys; o; tok; sv; hp; pp; _] -> handle_verify kind keys o tok sv hp pp
  | [_; "E"; _; key; ropts; o; _] -> handle_encode key ropts o
  | [_; "X"; keys; _] -> handle_export keys
  | [_; "I"; text; parsed; table; _] -> handle_import text parsed table
  | _ -> failwith "case"

(* a case of a "numx" family: every number literal of its texts is decided by
   the model; the float oracle must not have been asked *)
let handle (line : string) : string =
  let before = !oracle_asked in
  let obs = handle_case line in
  let tag = List.nth (String.split_on_char '|' line) (List.length (String.split_on_char '|' line) - 1) in
  if contains tag "numx" && !oracle_asked <> before then
    failwith ("the float oracle was asked on a case whose number literals the model must decide itself: " ^ tag);
  obs
