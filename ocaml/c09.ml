(* C09 handler: parse the case line (see harness/p/c09/c09.go), run the
   extracted model of model/Jwt.v, print the same canonical observation as the
   Go harness.  The Section variables of the model are closures built from the
   case line (V/J: what the harness computed with the standard library and
   structpb; E: a toy JSON printer / signer that satisfy the laws of the
   round-trip theorem). *)
let z_of_dec (s : string) : z =
  if s <> "" && s.[0] = '-' then
    (match n_of_dec (String.sub s 1 (String.length s - 1)) with N0 -> Z0 | Npos p -> Zneg p)
  else (match n_of_dec s with N0 -> Z0 | Npos p -> Zpos p)
let dec_of_z (x : z) : string =
  match x with Z0 -> "0" | Zpos p -> dec_of_n (Npos p) | Zneg p -> "-" ^ dec_of_n (Npos p)
let bytes_of_string (s : string) : n list = List.init (String.length s) (fun i -> byte_tab.(Char.code s.[i]))
let string_of_bytes (b : n list) : string =
  let buf = Buffer.create 64 in List.iter (fun x -> Buffer.add_char buf (Char.chr (int_of_n x))) b; Buffer.contents buf
let opt_bytes s = if s = "~" then None else Some (unhex s)
let opt_z s = if s = "~" then None else Some (z_of_dec s)
let show_opt = function None -> "~" | Some b -> hexs b

(* ---- canonical JSON text <-> json ---- *)
let rec parse_value (toks : string list) : json * string list =
  match toks with
  | [] -> failwith "json: out of tokens"
  | t :: rest ->
    let tl = String.sub t 1 (String.length t - 1) in
    (match t.[0] with
     | 'n' -> (JNull, rest)
     | 't' -> (JBool true, rest)
     | 'f' -> (JBool false, rest)
     | 's' -> (JStr (unhex tl), rest)
     | 'd' -> let i = String.index tl 'x' in
       (JNum (z_of_dec (String.sub tl 0 i), unhex (String.sub tl (i + 1) (String.length tl - i - 1))), rest)
     | 'a' -> let n = int_of_string tl in
       let rec go k acc rest = if k = 0 then (JArr (List.rev acc), rest)
         else let (v, rest) = parse_value rest in go (k - 1) (v :: acc) rest in
       go n [] rest
     | 'o' -> let n = int_of_string tl in
       let rec go k acc rest = if k = 0 then (JObj (List.rev acc), rest)
         else (match rest with
             | kt :: rest when kt.[0] = 'k' ->
               let key = unhex (String.sub kt 1 (String.length kt - 1)) in
               let (v, rest) = parse_value rest in go (k - 1) ((key, v) :: acc) rest
             | _ -> failwith "json: key expected") in
       go n [] rest
     | _ -> failwith "json: token")
let parse_fields (s : string) : (n list * json) list =
  match parse_value (String.split_on_char ',' s) with
  | (JObj f, []) -> f
  | _ -> failwith "json: object expected"

let rec canon (sorted : bool) (j : json) : string list =
  match j with
  | JNull -> ["n"] | JBool true -> ["t"] | JBool false -> ["f"]
  | JStr s -> ["s" ^ hexs s]
  | JNum (t, r) -> ["d" ^ dec_of_z t ^ "x" ^ hexs r]
  | JArr l -> ("a" ^ string_of_int (List.length l)) :: List.concat_map (canon sorted) l
  | JObj f ->
    let f = if sorted then List.stable_sort (fun (a, _) (b, _) -> compare (string_of_bytes a) (string_of_bytes b)) f else f in
    ("o" ^ string_of_int (List.length f)) :: List.concat_map (fun (k, v) -> ("k" ^ hexs k) :: canon sorted v) f
let canon_fields sorted f = String.concat "," (canon sorted (JObj f))

(* ---- case-line pieces ---- *)
let parse_key (i : int) (s : string) : jkey =
  match String.split_on_char '.' s with
  | [id; st; _; alg; kid; _] ->
    { kref = n_of_int i; kenabled = (st = "E"); kalg = bytes_of_string alg;
      kkid = (match kid.[0] with
          | 'T' -> KTink (n_of_dec id)
          | 'C' -> KCustom (unhex (String.sub kid 1 (String.length kid - 1)))
          | _ -> KIgnored) }
  | _ -> failwith "key"
let parse_keys s = List.mapi parse_key (List.filter (fun x -> x <> "") (String.split_on_char ';' s))

let parse_vopts (s : string) : vopts =
  match String.split_on_char ';' s with
  | [typ; iss; aud; auds; it; ia; ii; am; ip; skew; now] ->
    { o_typ = opt_bytes typ; o_iss = opt_bytes iss; o_aud = opt_bytes aud; o_ign_typ = (it = "1"); o_ign_aud = (ia = "1");
      o_ign_iss = (ii = "1"); o_allow_noexp = (am = "1"); o_iat_past = (ip = "1"); o_skew = z_of_dec skew; o_now = z_of_dec now;
      o_auds = opt_bytes auds }
  | _ -> failwith "vopts"

let parse_rawopts (s : string) : rawopts =
  match String.split_on_char ';' s with
  | [typ; aud; auds; sub; iss; jti; iat; exp; nbf; noexp; custom] ->
    { ro_typ = opt_bytes typ; ro_aud = opt_bytes aud;
      ro_auds = (if auds = "~" then None else if auds = "L" then Some []
                 else Some (List.map unhex (String.split_on_char ':' (String.sub auds 1 (String.length auds - 1)))));
      ro_sub = opt_bytes sub; ro_iss = opt_bytes iss; ro_jti = opt_bytes jti;
      ro_iat = opt_z iat; ro_exp = opt_z exp; ro_nbf = opt_z nbf; ro_noexp = (noexp = "1");
      ro_custom = (if custom = "~" then None else Some (parse_fields custom)) }
  | _ -> failwith "rawopts"

let show_claims (r : rawjwt) : string =
  let f = r.r_payload in
  let str name k = name ^ "=" ^ (if not (has k f) then "~" else match claim_str f k with None -> "!" | Some s -> hexs s) ^ ";" in
  let tm name k = name ^ "=" ^ (if not (has k f) then "~" else match claim_time f k with None -> "!" | Some t -> dec_of_z t) ^ ";" in
  "typ=" ^ show_opt r.r_typ ^ ";" ^ str "iss" s_iss ^ str "sub" s_sub ^ str "jti" s_jti
  ^ "aud=" ^ (if not (has s_aud f) then "~" else match audiences f with None -> "!" | Some l -> "L" ^ String.concat ":" (List.map hexs l)) ^ ";"
  ^ tm "exp" s_exp ^ tm "nbf" s_nbf ^ tm "iat" s_iat ^ "pl=" ^ canon_fields true f

let show_result = function
  | None -> "badopts"
  | Some (VOk r) -> "ok " ^ show_claims r
  | Some _ -> "rej"

let last_dot_prefix (tok : n list) : n list =
  let s = string_of_bytes tok in
  match String.rindex_opt s '.' with None -> [] | Some i -> bytes_of_string (String.sub s 0 i)

let table (s : string) : (n list * (n list * json) list option) option =
  if s = "~" then None else
    let i = String.index s '=' in
    let b = unhex (String.sub s 0 i) and p = String.sub s (i + 1) (String.length s - i - 1) in
    Some (b, if p = "!" then None else Some (parse_fields p))

let handle_verify kind keys o tok sv hp pp =
  let keys = parse_keys keys and o = parse_vopts o and tok = unhex tok in
  let unsigned = last_dot_prefix tok in
  let sig_valid kref sg u =
    if sv = "~" then failwith "sig_valid asked although the harness found no signature part" else
      match String.split_on_char ':' sv with
      | [sh; bits] ->
        if sg <> unhex sh || u <> unsigned then failwith "sig_valid asked on a different (signature, text) pair than the harness computed"
        else bits.[int_of_n kref] = '1'
      | _ -> failwith "sv" in
  let ht = table hp and pt = table pp in
  let json_parse b =
    match ht, pt with
    | Some (hb, r), _ when hb = b -> r
    | _, Some (pb, r) when pb = b -> r
    | _ -> failwith "json_parse asked on bytes the harness did not decode" in
  let keys = if kind = "J" then jwk_roundtrip keys else keys in
  let jwk_shape = String.concat "," (List.map (fun k ->
      string_of_bytes k.kalg ^ "." ^ (match k.kkid with KCustom c -> hexs c | _ -> "~")) keys) in
  (if kind = "J" then "priv=refused jwk=" ^ jwk_shape ^ " " else "") ^ show_result (verify sig_valid json_parse keys o tok)

(* toy oracles for the encode round trip *)
let handle_encode key ropts o =
  let k = { (parse_key 0 key) with kenabled = true } in
  let o = parse_vopts o in
  match new_raw_jwt (parse_rawopts ropts) with
  | None -> "rawerr"
  | Some r ->
    let printed : (string, (n list * json) list) Hashtbl.t = Hashtbl.create 4 in
    let json_print f = let s = canon_fields false f in Hashtbl.replace printed s f; bytes_of_string s in
    let json_parse b = Hashtbl.find_opt printed (string_of_bytes b) in
    let sign kref m = bytes_of_string ("SIG" ^ dec_of_n kref ^ ":") @ m in
    let sig_valid kref sg m = (sg = sign kref m) in
    (match encode json_print sign k r, encode_parts k r with
     | Some tok, Some (h, p) ->
       let u = last_dot_prefix tok in
       let sg = sign k.kref u in
       let mut = List.mapi (fun i x -> if i = List.length sg / 2 then n_of_int ((int_of_n x) lxor 0x10) else x) sg in
       let mtok = u @ [n_of_int 46] @ b64_encode mut in
       let mres = match verify sig_valid json_parse [k] o mtok with Some (VOk _) -> "acc" | _ -> "rej" in
       Printf.sprintf "tok h=%s;p=%s;sig=%s;mut=%s;%s" (canon_fields true h) (canon_fields true p)
         (if sig_valid k.kref sg u then "1" else "0") mres (show_result (verify sig_valid json_parse [k] o tok))
     | _ -> "signerr")

(* ---- JWK export / import on the material model (model/Jwk.v) ----
   X line:  C09|X|<xkeys>|<tag>      xkeys = id.st.pr.alg.kid.mat.<P|S>.<pub> ; ...
            pub = point (hex) for ES, <modulus hex>:<exponent> for RS/PS, - otherwise
   I line:  C09|I|<json text hex>|<canonical parse | !>|<on-curve table>|<tag>
            table = ~ | <256|384|512>:<point hex>:<0|1>,... (computed by the harness with crypto/elliptic) *)
let hsz_of s = match s with "256" -> H256 | "384" -> H384 | "512" -> H512 | _ -> failwith "hsz"
let hsz_name = function H256 -> "256" | H384 -> "384" | H512 -> "512"
let show_kid = function KTink id -> "T" ^ dec_of_n id | KCustom c -> "C" ^ hexs c | KIgnored -> "I"
let show_pub (k : pubkey) : string =
  match k with
  | PubES (_, pt, kid) -> string_of_bytes (alg_name k) ^ "." ^ show_kid kid ^ "." ^ hexs pt
  | PubRSA (_, _, n, e, kid) -> string_of_bytes (alg_name k) ^ "." ^ show_kid kid ^ "." ^ hexs n ^ ":" ^ dec_of_n e

(* the handle: ids 1..n stand for the random ids; print key, status, primary *)
let show_handle (oc : hsz -> n list -> bool) (j : json) (pks : pubkey list) : string =
  let ids = List.mapi (fun i _ -> n_of_int (i + 1)) pks in
  match jwk_import_handle oc ids j with
  | None -> failwith "import_handle disagrees with import"
  | Some (ks, prim) ->
    String.concat "," (List.map (fun en ->
        (match en.e_key with KPub p -> show_pub p | _ -> failwith "imported entry is not a public key")
        ^ "." ^ (match en.e_status with Enabled -> "E" | Disabled -> "D" | Destroyed -> "X")
        ^ (if en.e_id = prim then "1" else "0")) ks)

let show_import (oc : hsz -> n list -> bool) (j : json) : string =
  match jwk_import oc j with
  | None -> "rej"
  | Some pks -> "ok " ^ show_handle oc j pks

let parse_xkey (s : string) : entry =
  match String.split_on_char '.' s with
  | [id; st; _; alg; kid; _; v; pub] ->
    let kidr = (match kid.[0] with
        | 'T' -> KTink (n_of_dec id)
        | 'C' -> KCustom (unhex (String.sub kid 1 (String.length kid - 1)))
        | _ -> KIgnored) in
    let fam = if String.length alg >= 2 then String.sub alg 0 2 else "" in
    let pk =
      if String.length alg = 5 && fam = "ES" then Some (PubES (hsz_of (String.sub alg 2 3), unhex pub, kidr))
      else if String.length alg = 5 && (fam = "RS" || fam = "PS") then
        (match String.split_on_char ':' pub with
         | [n; e] -> Some (PubRSA ((if fam = "RS" then RS else PS), hsz_of (String.sub alg 2 3), unhex n, n_of_dec e, kidr))
         | _ -> failwith "rsa pub")
      else None in
    { e_key = (match pk with
          | None -> KOther (n_of_int 0)
          | Some p -> if v = "S" then KPriv (p, []) else KPub p);
      e_status = (if st = "E" then Enabled else Disabled);
      e_id = n_of_dec id }
  | _ -> failwith "xkey"

let handle_export (keys : string) : string =
  let ks = List.map parse_xkey (List.filter (fun x -> x <> "") (String.split_on_char ';' keys)) in
  (* the exported points are public points of real keys (the harness checks the
     annotation against crypto/ecdh): on the curve *)
  let pts = List.concat_map (fun en -> match en.e_key with KPub (PubES (a, pt, _)) -> [(a, pt)] | _ -> []) ks in
  let oc a pt = List.mem (a, pt) pts in
  match jwk_export ks with
  | None -> "refused"
  | Some j -> "jwk=" ^ String.concat "," (canon true j) ^ " imp=" ^ show_import oc j

let handle_import (parsed : string) (table : string) : string =
  if parsed = "!" then "rej" else
    let j = (match parse_value (String.split_on_char ',' parsed) with
        | (v, []) -> v
        | _ -> failwith "json: trailing tokens") in
    let tab = if table = "~" then [] else
        List.map (fun e -> match String.split_on_char ':' e with
            | [a; pt; b] -> ((hsz_of a, unhex pt), b = "1")
            | _ -> failwith "on-curve table") (String.split_on_char ',' table) in
    let oc a pt = match List.assoc_opt (a, pt) tab with
      | Some b -> b
      | None -> failwith ("on_curve asked on a point the harness did not judge: " ^ hsz_name a ^ ":" ^ hexs pt) in
    show_import oc j

let handle (line : string) : string =
  match String.split_on_char '|' line with
  | [_; ("V" | "J" as kind); _; keys; o; tok; sv; hp; pp; _] -> handle_verify kind keys o tok sv hp pp
  | [_; "E"; _; key; ropts; o; _] -> handle_encode key ropts o
  | [_; "X"; keys; _] -> handle_export keys
  | [_; "I"; _; parsed; table; _] -> handle_import parsed table
  | _ -> failwith "case"
