(* C03 handler: parse the case line, run the extracted model (model/Sig.v,
   model/DER.v) with the stdlib oracle for the standard algorithms, print the
   same canonical observation the Go harness prints. *)
let curve_of = function "p256" -> P256 | "p384" -> P384 | "p521" -> P521 | _ -> failwith "curve"
let curve_name = function P256 -> "p256" | P384 -> "p384" | P521 -> "p521"
let hash_of = function
  | "sha1" -> SHA1 | "sha224" -> SHA224 | "sha256" -> SHA256 | "sha384" -> SHA384 | "sha512" -> SHA512
  | _ -> failwith "hash"
let hash_name = function
  | SHA1 -> "sha1" | SHA224 -> "sha224" | SHA256 -> "sha256" | SHA384 -> "sha384" | SHA512 -> "sha512"
let variant_of = function "T" -> VTink | "C" -> VCrunchy | "L" -> VLegacy | "R" -> VRaw | _ -> failwith "variant"
let enc_of = function "der" -> DER | "p1363" -> P1363 | _ -> failwith "encoding"

(* the standard algorithms: answered by the Go standard library *)
let yes r = (r = "01")
let o_hash h m = unhex (oracle (String.concat " " ["hash"; hash_name h; hexs m]))
let o_ecdsa c pub dig r s =
  yes (oracle (String.concat " " ["ecdsa_verify"; curve_name c; hexs pub; hexs dig; hexs (be_min r); hexs (be_min s)]))
let o_ed pub msg sg = yes (oracle (String.concat " " ["ed25519_verify"; hexs pub; hexs msg; hexs sg]))
(* RSA: the verification is the RFC 8017 transcription model/Rsa8017.v (RSASSA-PKCS1-V1_5-VERIFY,
   RSASSA-PSS-VERIFY with EMSA-PSS-VERIFY, MGF1, strict salt length); the only oracles are the hash
   functions and the RSA public permutation s^e mod n (math/big) *)
(* glue: the hexadecimal digits of a binary natural, read off its bits (no division) *)
let hex_of_n (x : n) : string =
  match x with
  | N0 -> "-"
  | Npos p ->
    let bits = ref [] in                       (* least significant first *)
    let rec go = function XH -> bits := true :: !bits
                        | XO q -> bits := false :: !bits; go q
                        | XI q -> bits := true :: !bits; go q in
    go p;
    let a = Array.of_list (List.rev !bits) in  (* a.(i) = bit i *)
    let nb = Array.length a in
    let nd = (nb + 3) / 4 in
    let nd = if nd mod 2 = 1 then nd + 1 else nd in
    let b = Bytes.make nd '0' in
    for d = 0 to nd - 1 do
      let v = ref 0 in
      for j = 3 downto 0 do
        let i = 4 * d + j in
        v := 2 * !v + (if i < nb && a.(i) then 1 else 0)
      done;
      Bytes.set b (nd - 1 - d) "0123456789abcdef".[!v]
    done;
    Bytes.to_string b
let o_rsaep n e s = be_val (unhex (oracle (String.concat " " ["rsa_ep"; hexs n; dec_of_n e; hex_of_n s])))
let o_pkcs1 n e h dig sg = rfc_pkcs1_verify o_rsaep n e h dig sg
(* crypto/rsa.VerifyPSS as tink-go calls it: SaltLength = the key's salt length, 0 = auto-detect
   (model/Rsa8017.v go_pss_verify); the known finding "saltlen=0 not bound" is part of the model *)
let o_pss n e h salt dig sg = go_pss_verify o_hash o_rsaep n e h salt dig sg

let show = function Ok _ -> "accept" | Err -> "reject" | Panic -> "MODEL-PANIC"

let zs = function
  | Z0 -> "p00"
  | Zpos p -> "p" ^ hexs (be_min (Npos p))
  | Zneg p -> "m" ^ hexs (be_min (Npos p))
let z_of (s : string) =
  let h = String.sub s 1 (String.length s - 1) in
  let h = if String.length h mod 2 = 1 then "0" ^ h else h in
  match be_val (unhex h) with
  | N0 -> Z0
  | Npos p -> if s.[0] = 'm' then Zneg p else Zpos p
let n_of_z = function Z0 -> N0 | Zpos p -> Npos p | Zneg _ -> failwith "negative"

let rsa_key h v id n e salt =
  { rk_hash = h; rk_variant = v; rk_id = id; rk_n = n; rk_e = e; rk_salt = salt }

(* does the constructor of the verifier / signer succeed? *)
let ctor_ok scheme params n_or_pub =
  match scheme, split '.' params with
  | "ecdsa", [c; h; _] -> ecdsa_params_ok (curve_of c) (hash_of h)
  | "ed25519", _ -> true
  | ("pkcs1" | "pss"), (h :: e :: _) -> rsa_ctor_ok (hash_of h) n_or_pub (n_of_dec e)
  | _ -> failwith "scheme"

let handle line =
  match String.split_on_char '|' line with
  | [_; "V"; _api; scheme; params; variant; id; pub; sg; msg; _label] ->
    let v = variant_of variant and id = n_of_dec id in
    let pub = unhex pub and sg = unhex sg and msg = unhex msg in
    if not (ctor_ok scheme params pub) then "noctor" else
    (match scheme, split '.' params with
     | "ecdsa", [c; h; e] ->
       let k = { ek_curve = curve_of c; ek_hash = hash_of h; ek_enc = enc_of e; ek_variant = v; ek_id = id; ek_pub = pub } in
       show (ecdsa_verify o_hash o_ecdsa k sg msg)
     | "ed25519", _ -> show (ed25519_verify o_ed v id pub sg msg)
     (* o_pkcs1 / o_pss are the RFC 8017 transcriptions (= std_pkcs1 / std_pss of their cores:
        rfc_pkcs1_is_std, rfc_pss_is_std), so the length rule is decided by the model *)
     | "pkcs1", [h; e] -> show (pkcs1_verify o_hash o_pkcs1 (rsa_key (hash_of h) v id pub (n_of_dec e) N0) sg msg)
     | "pss", [h; e; salt] -> show (pss_verify o_hash o_pss (rsa_key (hash_of h) v id pub (n_of_dec e) (n_of_dec salt)) sg msg)
     | _ -> failwith "scheme")
  | [_; "S"; _api; scheme; params; variant; id; priv; _msg; _seed] ->
    (* what Sign must return: prefix || body of the scheme's size; it verifies *)
    let v = variant_of variant and id = n_of_dec id in
    let n = match scheme with
      | "pkcs1" | "pss" -> unhex (List.hd (split '.' priv))
      | _ -> [] in
    if not (ctor_ok scheme params n) then "noctor" else
    let len = match scheme, split '.' params with
      | "ecdsa", [_; _; "der"] -> "der"
      | "ecdsa", [c; _; _] -> string_of_int (int_of_nat (p1363_size (curve_of c)))
      | "ed25519", _ -> "64"
      | _ -> string_of_int (int_of_nat (rsa_sig_len n)) in
    "pfx=" ^ hexs (prefix v id) ^ " len=" ^ len ^ " self=accept"
  | [_; "D"; codec; b] ->
    let b = unhex b in
    let nn (r, s) = "ok:" ^ zs (match r with N0 -> Z0 | Npos p -> Zpos p) ^ ":" ^ zs (match s with N0 -> Z0 | Npos p -> Zpos p) in
    (match split '.' codec with
     | ["der"] -> (match der_decode b with Some (r, s) -> "ok:" ^ zs r ^ ":" ^ zs s | None -> "err")
     | ["p1363"] -> (match p1363_decode_any b with Ok rs -> nn rs | Err -> "err" | Panic -> "MODEL-PANIC")
     | ["p1363"; c] -> (match p1363_decode (curve_of c) b with Ok rs -> nn rs | Err -> "err" | Panic -> "MODEL-PANIC")
     | _ -> failwith "codec")
  | [_; "E"; codec; r; s] ->
    let r = z_of r and s = z_of s in
    (match split '.' codec with
     | ["der"] -> hexs (der_encode r s)
     | ["p1363"; c] -> (match p1363_encode (curve_of c) (n_of_z r) (n_of_z s) with Some b -> hexs b | None -> "err")
     | _ -> failwith "codec")
  | _ -> failwith "case"
