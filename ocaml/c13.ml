(* C13 handler: run the extracted model of the no-secrets APIs, KeysetInfo and
   the encrypted writer/reader on a case line
     S|<bin>|<bin2 or ->|<kek>|<ad>|<tape>|<label>
     W|<kek>|<ad>|<tape>|<ops>|<bin1>|<bin2>|<bin3>|<label>   one writer, several writes (ops like C1,E2,A2,N3)
   and print the observation the Go harness prints. *)
let curve_name c = match int_of_n c with 2 -> "p256" | 3 -> "p384" | 4 -> "p521" | 5 -> "x25519" | _ -> failwith "curve"
let rec take_l k l = if k = 0 then [] else match l with [] -> [] | x :: t -> x :: take_l (k - 1) t
let rec drop_l k l = if k = 0 then l else match l with [] -> [] | _ :: t -> drop_l (k - 1) t
let hash_name h = match int_of_n h with 1 -> "sha1" | 2 -> "sha384" | 3 -> "sha256" | 4 -> "sha512" | 5 -> "sha224" | _ -> failwith "hash"
(* the standard library as model/Untrusted.v asks for it, answered by the
   stdlib oracle (the same closures as the C14 handler: C13 now covers every
   key type whose parser the shared model transcribes) *)
let std : stdlib = {
  ec_point_ok = (fun c pt -> oracle (String.concat " " ["c14_ecdh_point"; curve_name c; hexs pt]) = "01");
  ec_pub_of_priv = (fun c d ->
    let r = oracle (String.concat " " ["c14_ecdh_pub"; curve_name c; hexs d]) in
    if r = "ERR" then None else Some (unhex r));
  ed25519_pub = (fun seed -> ocall "ed25519_pub" [] [seed]);
  mlkem_pub = (fun k seed ->
    let r = oracle ((if int_of_n k = 768 then "mlkem768_pub " else "mlkem1024_pub ") ^ hexs seed) in
    if r = "ERR" then None else Some (unhex r));
  shake256 = (fun m n -> unhex (oracle (Printf.sprintf "shake256 %s %d" (hexs m) (int_of_nat n))));
  rsa_crt = (fun n e d p q ->
    let r = oracle (String.concat " " ["c14_rsa_crt"; hexs n; dec_of_n e; hexs d; hexs p; hexs q]) in
    if r = "ERR" then None else
    (match String.split_on_char ',' r with
     | [a; b; c] -> Some ((unhex a, unhex b), unhex c)
     | _ -> failwith "c14_rsa_crt"));
  rsa_selfcheck = (fun pss h salt n e d p q ->
    oracle (String.concat " " ["c14_rsa_selfcheck"; (if pss then "pss" else "pkcs1"); hash_name h; dec_of_n salt;
                               hexs n; dec_of_n e; hexs d; hexs p; hexs q]) = "01");
  (* the library's own ML-DSA key generation (no counterpart in the Go standard library): trusted for this one function *)
  mldsa_pub = (fun inst seed ->
    let r = oracle (String.concat " " ["c14_mldsa_pub"; dec_of_n inst; hexs seed]) in
    if r = "ERR" then [] else unhex r);
}

let okerr = function Ok _ -> "ok" | Err -> "err" | Panic -> "PANIC-MODEL"
let info_str (i : keyset_info) : string =
  dec_of_n i.i_primary ^ ";" ^ String.concat "" (List.map (fun k ->
    Printf.sprintf "[%s,%s,%s,%s]" (hexs k.ki_url) (dec_of_n k.ki_status) (dec_of_n k.ki_id) (dec_of_n k.ki_prefix)) i.i_keys)

let handle line =
  match String.split_on_char '|' line with
  | ["S"; bin; bin2; kek; ad; tape; _] ->
    let bin = unhex bin and kek = unhex kek and ad = unhex ad and tape = unhex tape in
    (match decode_keyset bin with
     | None -> failwith "undecodable"
     | Some ks when any_unmodelled ks -> "U"
     | Some ks ->
       let c = read std bin in
       let n = handle_no_secrets std (Some ks) in
       let rn = read_no_secrets std bin in
       let head = Printf.sprintf "c:%s|n:%s|rn:%s|rj:%s" (okerr c) (okerr n) (okerr rn) (okerr rn) in
       (match c with
        | Ok h ->
          let w = (match write_no_secrets h with Ok b -> "ok:" ^ hexs b | Err -> "err" | Panic -> "PANIC-MODEL") in
          let info = info_of_handle h in
          let same = if bin2 = "-" then "-" else
            (match read std (unhex bin2) with
             | Ok h2 -> if info_of_handle h2 = info then "1" else "0"
             | _ -> "0") in
          (* the key-encryption AEAD: Tink AES-GCM without prefix = iv || gcm_seal *)
          let enc_with (iv : n list) (pt : n list) (ad : n list) : n list = iv @ ocall "gcm_seal" [] [kek; iv; ad; pt] in
          let dec_with (k : n list) (ct : n list) (ad : n list) : n list option =
            if List.length ct < 28 then None else ocall_opt "gcm_open" [] [k; take_l 12 ct; ad; drop_l 12 ct] in
          let iv1 = take_l 12 tape and iv2 = take_l 12 (drop_l 12 tape) in
          let enc = (match write_encrypted_binary enc_with h iv1 ad with Ok b -> b | _ -> []) in
          let jenc = encrypted_ct enc_with h iv2 ad in
          let jinfo = info_of_keyset (proto_of_handle h) in
          let rd = (match read_encrypted std (dec_with kek) enc ad with
            | Ok h' -> if info_of_handle h' = info then "ok=" else "ok!"
            | Err -> "err" | Panic -> "PANIC-MODEL") in
          let kek' = (match List.rev kek with [] -> [] | x :: t -> List.rev (n_of_int ((int_of_n x) lxor 1) :: t)) in
          let wk = okerr (read_encrypted std (dec_with kek') enc ad) in
          let wa = okerr (read_encrypted std (dec_with kek) enc (ad @ [n_of_int 1])) in
          Printf.sprintf "%s|w:%s|info:%s|same:%s|enc:%s|jenc:%s|jinfo:%s|rd:%s|wk:%s|wa:%s"
            head w (info_str info) same (hexs enc) (hexs jenc) (info_str jinfo) rd wk wa
        | _ -> head))
  | ["W"; kek; ad; tape; ops; b1; b2; b3; _] ->
    let kek = unhex kek and ad = unhex ad and tape = unhex tape in
    let hs = List.map (fun b -> read std (unhex b)) [b1; b2; b3] in
    let head = "W|c:" ^ String.concat "," (List.map okerr hs) in
    if List.exists (function Ok _ -> false | _ -> true) hs then head else begin
      let h i = (match List.nth hs (i - 1) with Ok h -> h | _ -> []) in
      let enc_with (iv : n list) (pt : n list) (ad : n list) : n list = iv @ ocall "gcm_seal" [] [kek; iv; ad; pt] in
      (* the j-th encrypted write draws the j-th 12 bytes of the tape *)
      let j = ref 0 in
      let wops = List.map (fun o ->
        let idx = Char.code o.[1] - Char.code '0' in
        match o.[0] with
        | 'C' -> WClear (h idx)
        | 'N' -> WNoSecrets (h idx)
        | c ->
          let iv = take_l 12 (drop_l (12 * !j) tape) in
          incr j;
          WEncrypted (h idx, iv, (if c = 'A' then ad else []))) (String.split_on_char ',' ops) in
      let outs = writer_history enc_with wops in
      head ^ "|o:" ^ String.concat ";" (List.map (function Ok b -> "ok:" ^ hexs b | Err -> "err" | Panic -> "PANIC-MODEL") outs)
    end
  | _ -> failwith "case"
