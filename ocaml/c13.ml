(* C13 handler: run the extracted model of the no-secrets APIs, KeysetInfo and
   the encrypted writer/reader on a case line
     S|<bin>|<bin2 or ->|<kek>|<ad>|<tape>|<label>
   and print the observation the Go harness prints. *)
let curve_name c = match int_of_n c with 2 -> "p256" | 3 -> "p384" | 4 -> "p521" | _ -> "p256"
let rec take_l k l = if k = 0 then [] else match l with [] -> [] | x :: t -> x :: take_l (k - 1) t
let rec drop_l k l = if k = 0 then l else match l with [] -> [] | _ :: t -> drop_l (k - 1) t
let ec_point_ok (c : n) (pt : n list) : bool =
  let len = List.length pt in
  if len < 3 || len mod 2 = 0 then false else
  let cs = (len - 1) / 2 in
  let x = take_l cs (drop_l 1 pt) and y = drop_l (1 + cs) pt in
  (match ocall "ec_oncurve" [curve_name c] [x; y] with [b] -> int_of_n b = 1 | _ -> false)
let ec_pub_of_priv (c : n) (d : n list) : n list option =
  if d = [] then None else ocall_opt "ecdh_pub" [curve_name c] [d]
(* the standard library as model/Untrusted.v asks for it; C13's scope (the 16
   key types it was built on) needs the two crypto/ecdh answers only *)
let std : stdlib = {
  ec_point_ok = ec_point_ok; ec_pub_of_priv = ec_pub_of_priv;
  ed25519_pub = (fun _ -> failwith "outside C13"); mlkem_pub = (fun _ _ -> failwith "outside C13");
  shake256 = (fun _ _ -> failwith "outside C13"); rsa_crt = (fun _ _ _ _ _ -> failwith "outside C13");
  rsa_selfcheck = (fun _ _ _ _ _ _ _ _ -> failwith "outside C13") }

let okerr = function Ok _ -> "ok" | Err -> "err" | Panic -> "PANIC-MODEL"
let info_str (i : keyset_info) : string =
  dec_of_n i.i_primary ^ ";" ^ String.concat "" (List.map (fun k ->
    Printf.sprintf "[%s,%s,%s,%s]" (hexs k.ki_url) (dec_of_n k.ki_status) (dec_of_n k.ki_id) (dec_of_n k.ki_prefix)) i.i_keys)

let handle line =
  match String.split_on_char '|' line with
  | ["S"; bin; bin2; kek; ad; tape; _] ->
    let bin = unhex bin and kek = unhex kek and ad = unhex ad and tape = unhex tape in
    (match decode_keyset bin with
     | None -> failwith "undecodable"
     | Some ks when any_outside_c13 ks -> "U"
     | Some ks ->
       let c = read std bin in
       let n = handle_no_secrets std (Some ks) in
       let rn = read_no_secrets std bin in
       let head = Printf.sprintf "c:%s|n:%s|rn:%s|rj:%s" (okerr c) (okerr n) (okerr rn) (okerr rn) in
       (match c with
        | Ok h ->
          let w = (match write_no_secrets h with Ok b -> "ok:" ^ hexs b | Err -> "err" | Panic -> "PANIC-MODEL") in
          let info = info_of_handle h in
          let same = if bin2 = "-" then "-" else
            (match read std (unhex bin2) with
             | Ok h2 -> if info_of_handle h2 = info then "1" else "0"
             | _ -> "0") in
          (* the key-encryption AEAD: Tink AES-GCM without prefix = iv || gcm_seal *)
          let enc_with (iv : n list) (pt : n list) (ad : n list) : n list = iv @ ocall "gcm_seal" [] [kek; iv; ad; pt] in
          let dec_with (k : n list) (ct : n list) (ad : n list) : n list option =
            if List.length ct < 28 then None else ocall_opt "gcm_open" [] [k; take_l 12 ct; ad; drop_l 12 ct] in
          let iv1 = take_l 12 tape and iv2 = take_l 12 (drop_l 12 tape) in
          let enc = (match write_encrypted_binary enc_with h iv1 ad with Ok b -> b | _ -> []) in
          let jenc = encrypted_ct enc_with h iv2 ad in
          let jinfo = info_of_keyset (proto_of_handle h) in
          let rd = (match read_encrypted std (dec_with kek) enc ad with
            | Ok h' -> if info_of_handle h' = info then "ok=" else "ok!"
            | Err -> "err" | Panic -> "PANIC-MODEL") in
          let kek' = (match List.rev kek with [] -> [] | x :: t -> List.rev (n_of_int ((int_of_n x) lxor 1) :: t)) in
          let wk = okerr (read_encrypted std (dec_with kek') enc ad) in
          let wa = okerr (read_encrypted std (dec_with kek) enc (ad @ [n_of_int 1])) in
          Printf.sprintf "%s|w:%s|info:%s|same:%s|enc:%s|jenc:%s|jinfo:%s|rd:%s|wk:%s|wa:%s"
            head w (info_str info) same (hexs enc) (hexs jenc) (info_str jinfo) rd wk wa
        | _ -> head))
  | _ -> failwith "case"
