(* main loop: one case per line in, one model observation per line out *)
let () =
  if Array.length Sys.argv > 2 then oracle_path := Sys.argv.(2);
  let ic = open_in Sys.argv.(1) in
  (try
    while true do
      let line = input_line ic in
      let r = try handle line with
        | Failure m -> "MODEL-FAIL " ^ m
        | Not_found -> "MODEL-FAIL not_found"
        | Invalid_argument m -> "MODEL-FAIL invalid " ^ m in
      print_string r; print_newline ()
    done
  with End_of_file -> ());
  flush stdout
