#!/usr/bin/env python3
"""try_refactor.py <patch.diff> <check>[,<check>...] [tier]
Applies a SEMANTICS-PRESERVING patch in a fresh scratch worktree of /repo HEAD and runs the named
checks against it through VERIF_REPO.  A check that exits non-zero here raised an alarm on code on
which the property still holds; the output says whether it was a broken obligation
(no-failing-input-found: allowed by the brief, but worth knowing) or a claimed failing input
(a false alarm that must be fixed).  /repo itself is never touched."""
import json, os, subprocess, sys, time, hashlib, shutil
patch, checks = os.path.abspath(sys.argv[1]), sys.argv[2].split(',')
tier = sys.argv[3] if len(sys.argv) > 3 else 'quick'
V = os.path.dirname(os.path.dirname(os.path.abspath(__file__)))
env = dict(os.environ, GOFLAGS='-mod=mod', GOPROXY='off')
def sh(cmd, cwd=None, extra=None, timeout=7200):
    r = subprocess.run(cmd, shell=True, cwd=cwd, env=dict(env, **(extra or {})), capture_output=True, text=True, timeout=timeout)
    return r.returncode, r.stdout + r.stderr
name = os.path.basename(patch).replace('.diff', '')
conf = f'/tmp/rf_{name}'
sh(f'git -C /repo worktree remove --force {conf}')
rc, out = sh(f'git -C /repo worktree add -q --detach {conf} HEAD'); assert rc == 0, out
try:
    rc, out = sh(f'git apply {patch}', cwd=conf); assert rc == 0, out
    for c in checks:
        t = time.time()
        rcc, outc = sh(f'./check {c} {tier}', cwd=V, extra={'VERIF_REPO': conf})
        lines = [l for l in outc.split('\n') if l.startswith('VIOLATION') or l.startswith(c)]
        kind = 'quiet'
        if rcc != 0:
            kind = 'OBLIGATION-ONLY' if all('no-failing-input-found' in l for l in lines if l.startswith('VIOLATION')) else 'FALSE-ALARM-WITH-INPUT'
        print(name, c, 'rc', rcc, kind, round(time.time() - t), 's', '|', ' || '.join(l[:150] for l in lines[-3:]))
        for l in lines:
            if l.startswith('VIOLATION') and 'replay=' in l:
                try:
                    rp = json.load(open(l.split('replay=')[1].split()[0]))
                    print('   ', {k: (v[:300] if isinstance(v, str) else v) for k, v in rp.items() if k in ('kind', 'theorem_or_correspondence', 'detail', 'case', 'what_fails')})
                except Exception:
                    pass
                break
        sys.stdout.flush()
        shutil.rmtree(f'{V}/build/ws/' + hashlib.sha1(conf.encode()).hexdigest()[:10], ignore_errors=True)
finally:
    sh(f'git -C /repo worktree remove --force {conf}')
