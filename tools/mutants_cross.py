#!/usr/bin/env python3
"""mutants_cross.py [worker-id]: every mutant of mutants/Cxx.jsonl that survived the existing tests AND the
check of the property it was drawn for is run against the checks of ALL properties whose anchors name the
mutated file (a file is usually anchored by several properties; the property that can see a change is not
always the one the mutant was drawn for).  Results: mutants/cross.jsonl."""
import fnmatch, glob, json, os, subprocess, sys, time
V = os.path.dirname(os.path.dirname(os.path.abspath(__file__)))
wid = sys.argv[1] if len(sys.argv) > 1 else 'x'
WT = f'/tmp/mut_w{wid}'
env = dict(os.environ, GOFLAGS='-mod=mod', GOPROXY='off')
def sh(cmd, cwd=None, extra=None, timeout=3000):
    try:
        r = subprocess.run(cmd, shell=True, cwd=cwd, env=dict(env, **(extra or {})), capture_output=True, text=True, errors='replace', timeout=timeout)
        return r.returncode, r.stdout + r.stderr
    except subprocess.TimeoutExpired:
        return 124, 'TIMEOUT'
props = [json.loads(l) for l in open(f'{V}/properties.jsonl')]
def anchored(rel):
    return [p['id'] for p in props if any(fnmatch.fnmatch(rel, g) for g in p['anchors']['files'])]
done = set()
if os.path.exists(f'{V}/mutants/cross.jsonl'):
    for l in open(f'{V}/mutants/cross.jsonl'):
        r = json.loads(l); done.add((r['file'], r['line'], r['after'], r['check_property']))
todo = {}
for f in sorted(glob.glob(f'{V}/mutants/C*.jsonl')):
    for l in open(f):
        r = json.loads(l)
        if r['status'] == 'SURVIVED':
            k = (r['file'], r['line'], r['after'])
            todo.setdefault(k, dict(r, tried=set()))['tried'].add(r['property'])
sh(f'git -C /repo worktree remove --force {WT}')
rc, out = sh(f'git -C /repo worktree add -q --detach {WT} HEAD'); assert rc == 0, out
try:
    for (rel, line, after), r in todo.items():
        others = [p for p in anchored(rel) if p not in r['tried'] and (rel, line, after, p) not in done]
        if not others:
            continue
        path = f'{WT}/{rel}'
        lines = open(path).read().split('\n')
        if lines[line - 1].strip() != r['before']:
            print('skip (source moved)', rel, line); continue
        ind = lines[line - 1][:len(lines[line - 1]) - len(lines[line - 1].lstrip())]
        lines[line - 1] = ind + after
        open(path, 'w').write('\n'.join(lines))
        rc, out = sh('go build ./...', cwd=WT, timeout=600)
        if rc == 0:
            for p in others:
                rcc, outc = sh(f'./check {p} quick', cwd=V, extra={'VERIF_REPO': WT})
                ls = [l for l in outc.split('\n') if l.startswith('VIOLATION') or l.startswith(p)]
                st = 'caught-by-check' if rcc == 1 and any(l.startswith('VIOLATION') for l in ls) else ('SURVIVED' if rcc == 0 else f'check-rc-{rcc}')
                rec = dict(file=rel, line=line, before=r['before'], after=after, drawn_for=sorted(r['tried']), check_property=p, status=st, check=[l[:200] for l in ls[-2:]])
                open(f'{V}/mutants/cross.jsonl', 'a').write(json.dumps(rec) + '\n')
                print(p, st, rel, line, '|', r['before'][:60], '=>', after[:60]); sys.stdout.flush()
        sh('git checkout -- .', cwd=WT)
finally:
    sh(f'git -C /repo worktree remove --force {WT}')
