#!/usr/bin/env python3
"""Regenerates MANIFEST.json from checks/registry.py + checks/manifest_text.py."""
import json, sys
sys.path.insert(0, '/verif/checks')
from common import load_props
MODS = load_props()
PROPS = {k: m.CFG for k, m in MODS.items()}
TEXT = {k: m.MANIFEST for k, m in MODS.items() if hasattr(m, 'MANIFEST')}
NOT_YET = {}
READY = set(l.strip() for l in open('/verif/checks/READY') if l.strip() and not l.startswith('#'))
props = [json.loads(l) for l in open('/verif/properties.jsonl')]
checks = []
na = []
# a READY property whose config does not load right now (half-edited file) keeps its previous entry
try:
    OLD = {c['property_id']: c for c in json.load(open('/verif/MANIFEST.json'))['checks']}
except Exception:
    OLD = {}
for p in props:
    pid = p['id']
    if pid in PROPS and pid in TEXT and pid in READY:
        t = TEXT[pid]
        checks.append(dict(property_id=pid, quick_cmd=f'./check {pid} quick', thorough_cmd=f'./check {pid} thorough',
                           evidence_file=f'/verif/evidence/{pid}.json', replay_cmd_template=f'./check {pid} --replay {{path}}',
                           engine='coq-proof+correspondence',
                           level_claimed=dict(category='proof', text=t['text'], design_ref=t.get('design_ref', f'DESIGN.md §3 {pid}')),
                           level_note=t['note'], technique=t['technique']))
    elif pid in READY and pid in OLD:
        print('warning: keeping previous MANIFEST entry for', pid, file=sys.stderr)
        checks.append(OLD[pid])
    else:
        na.append(dict(property_id=pid, reason=NOT_YET.get(pid, 'check not built yet in this round (planned: DESIGN.md §3); not claimed until its proof and correspondence run')))
m = dict(version=1, setup_cmd='./check --setup',
         hooks=dict(guard='verif', enable='go build -tags verif (harness module github.com/tink-crypto/tink-go/v2/verifharness with replace => /repo)',
                    baseline_off_cmd='cd /repo && GOFLAGS=-mod=mod go test -json -vet=off -count=1 -timeout 25m ./...',
                    source_commits=[l.split()[0] for l in open('/verif/MANIFEST.hooks') if l.strip() and not l.startswith('#')],
                    add_only=True),
         engines=[dict(name='coq-proof+correspondence', path='/verif/check', serves_properties=[c['property_id'] for c in checks],
                       kind_free_text='Coq 8.16.1 theorems over Gallina models (coq/), models extracted with ExtrOcamlBasic and run against the Go implementation on generated inputs (harness/, ocaml/), translator regenerating coq/gen from /repo')],
         checks=checks, not_applicable=na,
         notes='Machine-checked proof in Coq; see DESIGN.md. Quick = incremental proof rebuild + Print Assumptions + correspondence on a few hundred to a few thousand generated cases; thorough = many more cases.')
json.dump(m, open('/verif/MANIFEST.json', 'w'), indent=1)
print(len(checks), 'checks,', len(na), 'not claimed')
