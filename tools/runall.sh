#!/bin/bash
# runall.sh [seed] [tier]: run every READY check once, print one line each
seed=${1:-1}; tier=${2:-quick}
cd /verif
for p in $(grep -v '^#' checks/READY | sort -u); do
  out=$(VERIF_SEED=$seed timeout 3000 ./check $p $tier 2>&1); rc=$?
  echo "seed=$seed rc=$rc $(echo "$out" | tail -1)"
  echo "$out" | grep -E '^(VIOLATION|KNOWN)' | cut -c1-200 | head -5
done
