#!/usr/bin/env python3
"""mkcoverage.py <Cxx> [<Cxx> ...]: run the quick check of each property on the UNCHANGED tree with eight seeds and write
checks/coverage/<Cxx>.txt: the case-class groups (class strings with every digit run replaced by '#') that occur at
least 25 times in EVERY one of the eight runs.  The quick check then requires them (obligation "coverage").
A group whose count depends on the draw and averages 25 or more is absent from a run with probability below e^-25;
directed families have the same count in every run.  Families that are drawn rarely are left out on purpose: the
obligation is about whole families vanishing, not about sampling."""
import json, os, re, subprocess, sys, collections
V = os.path.dirname(os.path.dirname(os.path.abspath(__file__)))
SEEDS = [1, 2, 3, 5, 7, 11, 13, 17]
MIN = 25
os.makedirs(f'{V}/checks/coverage', exist_ok=True)
for pid in sys.argv[1:]:
    cov = f'{V}/checks/coverage/{pid}.txt'
    if os.path.exists(cov):
        os.remove(cov)  # the runs below must not be judged by an old manifest
    groups = None
    ok = True
    for sd in SEEDS:
        r = subprocess.run(['./check', pid, 'quick'], cwd=V, env=dict(os.environ, VERIF_SEED=str(sd)), capture_output=True, text=True)
        if r.returncode != 0:
            print(pid, 'seed', sd, 'rc', r.returncode, r.stdout[-300:]); ok = False; break
        meta = json.load(open(f'{V}/build/main/run/{pid}/meta.json'))
        c = collections.Counter()
        for k, n in meta['classes'].items():
            c[re.sub(r'\d+', '#', k)] += n
        g = {k for k, n in c.items() if n >= MIN and k}
        groups = g if groups is None else groups & g
    if not ok:
        continue
    with open(cov, 'w') as f:
        f.write(f'# {pid}: case-class groups with at least {MIN} cases in every quick run with seeds {SEEDS} on the unchanged tree\n')
        for k in sorted(groups):
            f.write(k + '\n')
    print(pid, len(groups), 'groups'); sys.stdout.flush()
