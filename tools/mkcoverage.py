#!/usr/bin/env python3
"""mkcoverage.py <Cxx> [<Cxx> ...]: run the quick check of each property on the UNCHANGED tree with seeds 1, 2, 3, 7, 11
and write checks/coverage/<Cxx>.txt: the case-class groups (class strings with every digit run replaced by '#') that
occur at least 3 times in EVERY one of the five runs.  The quick check then requires them (obligation "coverage").
Classes that depend on the draw are thereby left out; directed families and frequent random families stay."""
import json, os, re, subprocess, sys, collections
V = os.path.dirname(os.path.dirname(os.path.abspath(__file__)))
SEEDS = [1, 2, 3, 7, 11]
os.makedirs(f'{V}/checks/coverage', exist_ok=True)
for pid in sys.argv[1:]:
    cov = f'{V}/checks/coverage/{pid}.txt'
    if os.path.exists(cov):
        os.rename(cov, cov + '.old')
    groups = None
    ok = True
    for sd in SEEDS:
        r = subprocess.run(['./check', pid, 'quick'], cwd=V, env=dict(os.environ, VERIF_SEED=str(sd)), capture_output=True, text=True)
        if r.returncode != 0:
            print(pid, 'seed', sd, 'rc', r.returncode, r.stdout[-300:]); ok = False; break
        meta = json.load(open(f'{V}/build/main/run/{pid}/meta.json'))
        c = collections.Counter()
        for k, n in meta['classes'].items():
            c[re.sub(r'\d+', '#', k)] += n
        g = {k for k, n in c.items() if n >= 3 and k}
        groups = g if groups is None else groups & g
    if not ok:
        if os.path.exists(cov + '.old'):
            os.rename(cov + '.old', cov)
        continue
    with open(cov, 'w') as f:
        f.write(f'# {pid}: case-class groups present (>= 3 cases) in every quick run with seeds {SEEDS} on the unchanged tree\n')
        for k in sorted(groups):
            f.write(k + '\n')
    if os.path.exists(cov + '.old'):
        os.remove(cov + '.old')
    print(pid, len(groups), 'groups')
