#!/usr/bin/env python3
"""mutate.py <worker-id> <n-survivors-per-property> <Cxx> [<Cxx> ...]
Systematic single-token mutation of the files a property is anchored in (properties.jsonl), in a
scratch worktree /tmp/mut_w<worker-id> of /repo HEAD.  A mutant that compiles and PASSES the existing
tests of its package is run against the property's quick check through VERIF_REPO; the outcome is
appended to /verif/mutants/<Cxx>.jsonl.  Survivors of both (tests and check) need triage: equivalent
mutant, or a detection gap.  /repo itself is never touched."""
import glob, hashlib, json, os, random, re, subprocess, sys, time
wid, nsurv, props = sys.argv[1], int(sys.argv[2]), sys.argv[3:]
V = os.path.dirname(os.path.dirname(os.path.abspath(__file__)))
WT = f'/tmp/mut_w{wid}'
env = dict(os.environ, GOFLAGS='-mod=mod', GOPROXY='off')
def sh(cmd, cwd=None, extra=None, timeout=1800):
    try:
        r = subprocess.run(cmd, shell=True, cwd=cwd, env=dict(env, **(extra or {})), capture_output=True, text=True, errors='replace', timeout=timeout)
        return r.returncode, r.stdout + r.stderr
    except subprocess.TimeoutExpired:
        return 124, 'TIMEOUT'
OPS = [(r'(?<![<>=!:+\-*/&|^])<(?![<=\-])', '<='), (r'<=', '<'), (r'(?<![<>=!\-])>(?![>=])', '>='), (r'>=', '>'),
       (r'==', '!='), (r'!=', '=='), (r'&&', '||'), (r'\|\|', '&&'),
       (r'\+ 1\b', '+ 2'), (r'- 1\b', '- 2'), (r'\+ 1\b', ''), (r'- 1\b', ''),
       (r'\b0\b', '1'), (r'\b1\b', '0'), (r'\b8\b', '7'), (r'\b16\b', '15'), (r'\b32\b', '31'), (r'\b12\b', '13'), (r'\b4\b', '5'),
       (r'\[:(\w+)\]', r'[:\1-1]'), (r'\[(\w+):\]', r'[\1+1:]')]
def candidates(path):
    out, inblock = [], False
    for ln, line in enumerate(open(path).read().split('\n')):
        s = line.strip()
        if inblock:
            if '*/' in s: inblock = False
            continue
        if s.startswith('/*'):
            inblock = '*/' not in s
            continue
        if not s or s.startswith('//') or s.startswith('import') or s.startswith('package') or 'Errorf' in s or 'errors.New' in s or s.startswith('"') or 'panic(' in s:
            continue
        code = line.split('//')[0]
        for pat, rep in OPS:
            for m in re.finditer(pat, code):
                if code[:m.start()].count('"') % 2 == 1 or code[:m.start()].count('`') % 2 == 1:
                    continue
                out.append((ln, m.start(), m.end(), pat, rep))
    return out
allprops = {json.loads(l)['id']: json.loads(l) for l in open(f'{V}/properties.jsonl')}
sh(f'git -C /repo worktree remove --force {WT}')
rc, out = sh(f'git -C /repo worktree add -q --detach {WT} HEAD'); assert rc == 0, out
os.makedirs(f'{V}/mutants', exist_ok=True)
rng = random.Random(int(hashlib.sha1((wid + ''.join(props)).encode()).hexdigest(), 16) % (1 << 32))
try:
    for pid in props:
        files = []
        for f in allprops[pid]['anchors']['files']:
            files += [p for p in glob.glob(f'{WT}/{f}') if p.endswith('.go') and not p.endswith('_test.go')]
        files = sorted(set(files))
        if not files:
            print(pid, 'no anchored files'); continue
        survivors, tried, t0 = 0, 0, time.time()
        seen = set()
        while survivors < nsurv and tried < 40 * nsurv and time.time() - t0 < 3 * 3600:
            path = rng.choice(files)
            cands = candidates(path)
            if not cands: continue
            ln, a, b, pat, rep = rng.choice(cands)
            key = (path, ln, a, rep)
            if key in seen: continue
            seen.add(key); tried += 1
            src = open(path).read()
            lines = src.split('\n')
            before = lines[ln]
            after = before[:a] + re.sub(pat, rep, before[a:b], count=1) + before[b:]
            if after == before: continue
            lines[ln] = after
            open(path, 'w').write('\n'.join(lines))
            rel = os.path.relpath(path, WT)
            pkg = './' + os.path.dirname(rel)
            rec = dict(property=pid, file=rel, line=ln + 1, before=before.strip(), after=after.strip())
            rc, out = sh(f'go build ./... && go vet {pkg}', cwd=WT, timeout=600)
            if rc != 0:
                rec['status'] = 'does-not-build'
            else:
                rc, out = sh(f'go test {pkg} -count=1 -timeout 280s', cwd=WT, timeout=330)
                if rc != 0:
                    rec['status'] = 'killed-by-existing-tests'
                else:
                    t = time.time()
                    rcc, outc = sh(f'./check {pid} quick', cwd=V, extra={'VERIF_REPO': WT}, timeout=3000)
                    lines_ = [l for l in outc.split('\n') if l.startswith('VIOLATION') or l.startswith(pid)]
                    rec['status'] = 'caught-by-check' if rcc == 1 and any(l.startswith('VIOLATION') for l in lines_) else ('SURVIVED' if rcc == 0 else f'check-rc-{rcc}')
                    rec['check'] = [l[:200] for l in lines_[-3:]]
                    rec['check_s'] = round(time.time() - t)
                    survivors += 1
            open(f'{V}/mutants/{pid}.jsonl', 'a').write(json.dumps(rec) + '\n')
            print(pid, rec['status'], rel, ln + 1, '|', rec['before'][:70], '=>', rec['after'][:70]); sys.stdout.flush()
            sh('git checkout -- .', cwd=WT)
finally:
    sh(f'git -C /repo worktree remove --force {WT}')
