#!/bin/bash
# One-off: regenerate the z-norm-boundary cases of corpus/C10.txt (see tools/gen/c10_zbound_gen_test.go.txt).
# Works in a scratch worktree of /repo HEAD, which it removes; /repo itself is not touched.
set -e
V=$(cd "$(dirname "$0")/.." && pwd)
WT=/tmp/c10zb_$$
git -C /repo worktree add -q --detach $WT HEAD
trap "git -C /repo worktree remove --force $WT" EXIT
cp $V/tools/gen/c10_zbound_gen_test.go.txt $WT/internal/signature/mldsa/zbound_gen_test.go
(cd $WT && GOFLAGS=-mod=mod GOPROXY=off go test ./internal/signature/mldsa/ -run TestGenC10ZBound -v -count=1 -timeout 60m) | grep '^C10|vf|'
