#!/usr/bin/env python3
"""rerun_seed.py <seeded-name> <check>[,<check>...] [tier]
Re-applies seeded/<name>/patch.diff in a fresh scratch worktree of /repo HEAD, runs the named
checks against it through VERIF_REPO, records the result under confirmed.checks_rerun in
seeded/<name>/meta.json and removes the worktree.  /repo itself is never touched."""
import json, os, subprocess, sys, time, hashlib, shutil
name, checks = sys.argv[1], sys.argv[2].split(',')
tier = sys.argv[3] if len(sys.argv) > 3 else 'quick'
V = os.path.dirname(os.path.dirname(os.path.abspath(__file__)))
env = dict(os.environ, GOFLAGS='-mod=mod', GOPROXY='off')
def sh(cmd, cwd=None, extra=None, timeout=7200):
    r = subprocess.run(cmd, shell=True, cwd=cwd, env=dict(env, **(extra or {})), capture_output=True, text=True, timeout=timeout)
    return r.returncode, r.stdout + r.stderr
conf = f'/tmp/re_{name}'
sh(f'git -C /repo worktree remove --force {conf}')
rc, out = sh(f'git -C /repo worktree add -q --detach {conf} HEAD'); assert rc == 0, out
res = {}
try:
    rc, out = sh(f'git apply {V}/seeded/{name}/patch.diff', cwd=conf); assert rc == 0, out
    for c in checks:
        t = time.time()
        rcc, outc = sh(f'./check {c} {tier}', cwd=V, extra={'VERIF_REPO': conf})
        lines = [l for l in outc.split('\n') if l.startswith('VIOLATION') or l.startswith('KNOWN') or l.startswith(c)]
        res[c] = dict(rc=rcc, caught=(rcc == 1 and any(l.startswith('VIOLATION') for l in lines)), lines=lines[:6], wall_s=round(time.time() - t, 1))
        for l in lines:
            if l.startswith('VIOLATION') and 'replay=' in l:
                try:
                    rp = json.load(open(l.split('replay=')[1].split()[0]))
                    res[c]['replay'] = {k: (v[:600] if isinstance(v, str) else v) for k, v in rp.items()}
                except Exception:
                    pass
                break
        shutil.rmtree(f'{V}/build/ws/' + hashlib.sha1(conf.encode()).hexdigest()[:10], ignore_errors=True)
finally:
    sh(f'git -C /repo worktree remove --force {conf}')
mp = f'{V}/seeded/{name}/meta.json'
m = json.load(open(mp))
m.setdefault('confirmed', {}).setdefault('checks_rerun', {}).update(res)
json.dump(m, open(mp, 'w'), indent=1)
for c, v in res.items():
    print(c, 'rc', v['rc'], 'caught', v['caught'], v['lines'][-2:])
