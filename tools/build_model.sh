#!/bin/bash
# build_model.sh <id e.g. c11> [coqdir] [workspace]: extract <coqdir>/extract/Extract<ID>.v
# and build <ws>/bin/model_<id> from ocaml/common.ml + ocaml/<id>.ml + ocaml/tail.ml
set -e
id=$1
ID=$(echo "$id" | tr a-z A-Z)
V=${VERIF_HOME:-/verif}
COQ=${2:-$V/coq}
WS=${3:-$V/build/main}
d=$WS/ocaml/$id
mkdir -p "$d" "$WS/bin"
cd "$d"
timeout 1500 coqc -Q $COQ Tink $COQ/extract/Extract$ID.v > extract.log 2>&1 || { cat extract.log; exit 1; }
{ echo "open M"; cat $V/ocaml/common.ml $V/ocaml/$id.ml $V/ocaml/tail.ml; } > drv.ml
ocamlfind ocamlopt -O3 -w -a -package unix -linkpkg m.mli m.ml drv.ml -o $WS/bin/.model_$id.$$ > ocaml.log 2>&1 || \
ocamlfind ocamlopt -w -a -package unix -linkpkg m.mli m.ml drv.ml -o $WS/bin/.model_$id.$$ > ocaml.log 2>&1 || { cat ocaml.log; exit 1; }
mv $WS/bin/.model_$id.$$ $WS/bin/model_$id
