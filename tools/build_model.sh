#!/bin/bash
# build_model.sh <id-lowercase e.g. c11>: extract coq/extract/Extract<ID>.v and
# build build/bin/model_<id> from ocaml/common.ml + ocaml/<id>.ml + ocaml/tail.ml
set -e
id=$1
ID=$(echo "$id" | tr a-z A-Z)
V=/verif
d=$V/build/ocaml/$id
mkdir -p "$d" "$V/build/bin"
cd "$d"
timeout 900 coqc -Q $V/coq Tink $V/coq/extract/Extract$ID.v > extract.log 2>&1 || { cat extract.log; exit 1; }
{ echo "open M"; cat $V/ocaml/common.ml $V/ocaml/$id.ml $V/ocaml/tail.ml; } > drv.ml
ocamlfind ocamlopt -w -a -package unix -linkpkg m.mli m.ml drv.ml -o $V/build/bin/model_$id > ocaml.log 2>&1 || { cat ocaml.log; exit 1; }
