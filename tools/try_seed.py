#!/usr/bin/env python3
"""try_seed.py <ID> <seed_worktree> <name> --demo <relpath>... --run '<go test cmd>' --pkgs './keyset/...' [--checks C11,C05]
Confirms a seeded change in a FRESH scratch worktree (demo passes on the original, fails with the
change, existing tests of the touched packages pass), runs the registered checks against it through
VERIF_REPO, stores seeded/<name>/{patch.diff, demo, meta.json}, removes the scratch worktree."""
import argparse, json, os, shutil, subprocess, sys, time, hashlib
ap = argparse.ArgumentParser()
ap.add_argument('pid'); ap.add_argument('wt'); ap.add_argument('name')
ap.add_argument('--demo', nargs='+', required=True)
ap.add_argument('--run', required=True)
ap.add_argument('--pkgs', default='')
ap.add_argument('--checks', default='')
ap.add_argument('--needs', default='')
ap.add_argument('--tier', default='quick')
a = ap.parse_args()
env = dict(os.environ, GOFLAGS='-mod=mod', GOPROXY='off')
def sh(cmd, cwd=None, extra=None, timeout=3600):
    r = subprocess.run(cmd, shell=True, cwd=cwd, env=dict(env, **(extra or {})), capture_output=True, text=True, timeout=timeout)
    return r.returncode, (r.stdout + r.stderr)
patch = open(f'{a.wt}/SEED_PATCH.diff').read()
conf = f'/tmp/conf_{a.name}'
sh(f'git -C /repo worktree remove --force {conf}')
rc, out = sh(f'git -C /repo worktree add -q --detach {conf} HEAD'); assert rc == 0, out
res = {}
try:
    for d in a.demo:
        os.makedirs(os.path.dirname(f'{conf}/{d}'), exist_ok=True)
        shutil.copy(f'{a.wt}/{d}', f'{conf}/{d}')
    rc0, out0 = sh(a.run, cwd=conf)
    res['demo_on_original'] = 'pass' if rc0 == 0 else 'FAIL'
    open(f'{conf}/p.diff', 'w').write(patch)
    rc, out = sh('git apply p.diff', cwd=conf); assert rc == 0, out
    os.remove(f'{conf}/p.diff')
    rcb, outb = sh('go build ./...', cwd=conf)
    res['builds'] = rcb == 0
    rc1, out1 = sh(a.run, cwd=conf)
    res['demo_with_change'] = 'fail' if rc1 != 0 else 'PASSES (not a break)'
    res['demo_output_tail'] = out1[-600:]
    if a.pkgs:
        # existing tests only: move demo files away
        for d in a.demo:
            os.rename(f'{conf}/{d}', f'{conf}/{d}.away')
        rct, outt = sh(f'go test -count=1 {a.pkgs} 2>&1 | grep -v "^ok\\|no test files" | tail -15', cwd=conf, timeout=7200)
        res['existing_tests'] = 'pass' if not [l for l in outt.split('\n') if l.startswith('FAIL') or l.startswith('--- FAIL')] else 'FAIL: ' + outt[-800:]
        for d in a.demo:
            os.rename(f'{conf}/{d}.away', f'{conf}/{d}')
    # remove demo files before running the checks (the checks see only the source change)
    for d in a.demo:
        os.remove(f'{conf}/{d}')
    checks = [c for c in (a.checks.split(',') if a.checks else [a.pid]) if c]
    res['checks'] = {}
    for c in checks:
        t = time.time()
        rcc, outc = sh(f'./check {c} {a.tier}', cwd='/verif', extra={'VERIF_REPO': conf}, timeout=7200)
        lines = [l for l in outc.split('\n') if l.startswith('VIOLATION') or l.startswith('KNOWN') or l.startswith(c)]
        res['checks'][c] = dict(rc=rcc, caught=(rcc == 1 and any(l.startswith('VIOLATION') for l in lines)), lines=lines[:6], wall_s=round(time.time() - t, 1))
        # keep one replay as evidence of what was reported
        ws = '/verif/build/ws/' + hashlib.sha1(conf.encode()).hexdigest()[:10]
        for l in lines:
            if l.startswith('VIOLATION') and 'replay=' in l:
                rp = l.split('replay=')[1].split()[0]
                try:
                    res['checks'][c]['replay'] = json.load(open(rp))
                    for k in ('case', 'observed', 'expected', 'expected_by_model', 'detail'):
                        if isinstance(res['checks'][c]['replay'].get(k), str):
                            res['checks'][c]['replay'][k] = res['checks'][c]['replay'][k][:600]
                except Exception as e:
                    pass
                break
        shutil.rmtree(ws, ignore_errors=True)
finally:
    sh(f'git -C /repo worktree remove --force {conf}')
dst = f'/verif/seeded/{a.name}'
os.makedirs(dst, exist_ok=True)
open(f'{dst}/patch.diff', 'w').write(patch)
for d in a.demo:
    shutil.copy(f'{a.wt}/{d}', f'{dst}/{os.path.basename(d)}')
try:
    shutil.copy(f'{a.wt}/SEED_META.md', f'{dst}/SEED_META.md')
except OSError:
    pass
meta = dict(property=a.pid, name=a.name, needs_to_manifest=a.needs, demonstration=[os.path.basename(d) for d in a.demo],
            demonstration_cmd=a.run, existing_test_packages=a.pkgs, confirmed=res,
            how_confirmed='fresh scratch worktree of /repo HEAD: demo run on the original, patch applied, go build ./..., demo run again, existing tests of the touched packages, then VERIF_REPO=<worktree> ./check <id> ' + a.tier)
json.dump(meta, open(f'{dst}/meta.json', 'w'), indent=1)
print(json.dumps({k: v for k, v in res.items() if k != 'demo_output_tail'}, indent=1)[:3000])
