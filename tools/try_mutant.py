#!/usr/bin/env python3
"""try_mutant.py <relfile> <line> '<after>' <check>[,<check>]: one-line mutant in a scratch worktree, run the checks."""
import os, subprocess, sys, hashlib, shutil
rel, line, after, checks = sys.argv[1], int(sys.argv[2]), sys.argv[3], sys.argv[4].split(',')
V = os.path.dirname(os.path.dirname(os.path.abspath(__file__)))
WT = '/tmp/mut_one_%d' % os.getpid()
env = dict(os.environ, GOFLAGS='-mod=mod', GOPROXY='off')
def sh(cmd, cwd=None, extra=None):
    r = subprocess.run(cmd, shell=True, cwd=cwd, env=dict(env, **(extra or {})), capture_output=True, text=True, errors='replace', timeout=3000)
    return r.returncode, r.stdout + r.stderr
rc, out = sh(f'git -C /repo worktree add -q --detach {WT} HEAD'); assert rc == 0, out
try:
    p = f'{WT}/{rel}'
    ls = open(p).read().split('\n')
    ind = ls[line - 1][:len(ls[line - 1]) - len(ls[line - 1].lstrip())]
    print('before:', ls[line - 1].strip()); print('after: ', after)
    ls[line - 1] = ind + after
    open(p, 'w').write('\n'.join(ls))
    rc, out = sh('go build ./...', cwd=WT); assert rc == 0, out[-500:]
    for c in checks:
        rcc, outc = sh(f'./check {c} quick', cwd=V, extra={'VERIF_REPO': WT})
        ls2 = [l for l in outc.split('\n') if l.startswith('VIOLATION') or l.startswith(c)]
        print(c, 'rc', rcc, 'CAUGHT' if rcc == 1 and any(l.startswith('VIOLATION') for l in ls2) else 'survived', '|', ' || '.join(l[:140] for l in ls2[-2:]))
        shutil.rmtree(f'{V}/build/ws/' + hashlib.sha1(WT.encode()).hexdigest()[:10], ignore_errors=True)
finally:
    sh(f'git -C /repo worktree remove --force {WT}')
