// Demonstration: streamingaead/subtle/noncebased.NewWriter / NewReader kept the caller's NoncePrefix
// slice (before fix: the nonces of later segments changed when the caller reused its buffer).
// Exit status 1 = defect present.
package main

import (
	"bytes"
	"fmt"
	"os"

	"github.com/tink-crypto/tink-go/v2/streamingaead/subtle/noncebased"
)

// recorder is a segment "encrypter" that records the nonce of every segment.
type recorder struct{ nonces [][]byte }

func (r *recorder) EncryptSegment(segment, nonce []byte) ([]byte, error) {
	r.nonces = append(r.nonces, bytes.Clone(nonce))
	return bytes.Clone(segment), nil
}

func (r *recorder) DecryptSegment(segment, nonce []byte) ([]byte, error) {
	r.nonces = append(r.nonces, bytes.Clone(nonce))
	return bytes.Clone(segment), nil
}

func main() {
	bad := false
	prefix := []byte{1, 2, 3, 4, 5, 6, 7}
	rec := &recorder{}
	var out bytes.Buffer
	w, err := noncebased.NewWriter(noncebased.WriterParams{W: &out, SegmentEncrypter: rec, NonceSize: 12, NoncePrefix: prefix,
		PlaintextSegmentSize: 8, FirstCiphertextSegmentOffset: 0})
	if err != nil {
		fmt.Println(err)
		os.Exit(2)
	}
	for i := range prefix { // the caller reuses its buffer after construction
		prefix[i] = 0xee
	}
	w.Write(make([]byte, 20))
	w.Close()
	for i, n := range rec.nonces {
		if !bytes.Equal(n[:7], []byte{1, 2, 3, 4, 5, 6, 7}) {
			fmt.Printf("Writer: nonce of segment %d starts with %x: the caller's later write to its NoncePrefix buffer reached the writer\n", i, n[:7])
			bad = true
			break
		}
	}
	prefix2 := []byte{1, 2, 3, 4, 5, 6, 7}
	rec2 := &recorder{}
	r, err := noncebased.NewReader(noncebased.ReaderParams{R: bytes.NewReader(out.Bytes()), SegmentDecrypter: rec2, NonceSize: 12, NoncePrefix: prefix2,
		CiphertextSegmentSize: 8, FirstCiphertextSegmentOffset: 0})
	if err != nil {
		fmt.Println(err)
		os.Exit(2)
	}
	for i := range prefix2 {
		prefix2[i] = 0xee
	}
	buf := make([]byte, 64)
	r.Read(buf)
	for i, n := range rec2.nonces {
		if !bytes.Equal(n[:7], []byte{1, 2, 3, 4, 5, 6, 7}) {
			fmt.Printf("Reader: nonce of segment %d starts with %x\n", i, n[:7])
			bad = true
			break
		}
	}
	if bad {
		os.Exit(1)
	}
	fmt.Println("ok: NoncePrefix is copied at construction")
}
