module github.com/tink-crypto/tink-go/v2/veriffinding_ed25519ptr

go 1.25.0

toolchain go1.25.11

require (
	github.com/tink-crypto/tink-go/v2 v2.0.0
	google.golang.org/protobuf v1.36.11
)

require (
	golang.org/x/crypto v0.53.0 // indirect
	golang.org/x/sys v0.46.0 // indirect
)

replace github.com/tink-crypto/tink-go/v2 => /repo
