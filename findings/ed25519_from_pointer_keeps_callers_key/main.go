// Demonstration: signature/subtle.NewED25519SignerFromPrivateKey / NewED25519VerifierFromPublicKey kept the
// caller's POINTER (slice header and array).  Exit status 1 = defect present.
package main

import (
	"crypto/ed25519"
	"fmt"
	"os"

	"github.com/tink-crypto/tink-go/v2/signature/subtle"
)

func main() {
	seed := make([]byte, 32)
	priv := ed25519.NewKeyFromSeed(seed)
	pub := append(ed25519.PublicKey{}, priv.Public().(ed25519.PublicKey)...)
	origPub := append(ed25519.PublicKey{}, pub...)
	s, err := subtle.NewED25519SignerFromPrivateKey(&priv)
	if err != nil {
		fmt.Println(err)
		os.Exit(2)
	}
	v, err := subtle.NewED25519VerifierFromPublicKey(&pub)
	if err != nil {
		fmt.Println(err)
		os.Exit(2)
	}
	msg := []byte("message")
	sig1, _ := s.Sign(msg)
	bad := false
	priv[0] ^= 1 // the caller reuses its buffer
	sig2, _ := s.Sign(msg)
	if !ed25519.Verify(origPub, msg, sig2) {
		fmt.Println("signer: signature made after the caller modified its key buffer does not verify under the original key")
		bad = true
	}
	pub[0] ^= 1
	if err := v.Verify(sig1, msg); err != nil {
		fmt.Println("verifier: a genuine signature is rejected after the caller modified its key buffer:", err)
		bad = true
	}
	if bad {
		os.Exit(1)
	}
	fmt.Println("ok: the keys are copied at construction")
}
