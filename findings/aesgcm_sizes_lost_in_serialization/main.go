package main

import (
	"fmt"

	"github.com/tink-crypto/tink-go/v2/aead/aesgcm"
	"github.com/tink-crypto/tink-go/v2/insecuresecretdataaccess"
	"github.com/tink-crypto/tink-go/v2/internal/protoserialization"
	"github.com/tink-crypto/tink-go/v2/secretdata"
)

func main() {
	for _, c := range [][2]int{{12, 16}, {16, 16}, {12, 12}, {8, 14}} {
		p, err := aesgcm.NewParameters(aesgcm.ParametersOpts{KeySizeInBytes: 16, IVSizeInBytes: c[0], TagSizeInBytes: c[1], Variant: aesgcm.VariantTink})
		if err != nil {
			fmt.Println(c, "NewParameters:", err)
			continue
		}
		k, err := aesgcm.NewKey(secretdata.NewBytesFromData(make([]byte, 16), insecuresecretdataaccess.Token{}), 7, p)
		if err != nil {
			fmt.Println(c, "NewKey:", err)
			continue
		}
		s, err := protoserialization.SerializeKey(k)
		if err != nil {
			fmt.Println(c, "SerializeKey:", err)
			continue
		}
		k2, err := protoserialization.ParseKey(s)
		fmt.Println(c, "roundtrip equal:", err == nil && k2.Equal(k))
		t, err := protoserialization.SerializeParameters(p)
		if err != nil {
			fmt.Println(c, "SerializeParameters:", err)
			continue
		}
		p2, err := protoserialization.ParseParameters(t)
		fmt.Println(c, "params roundtrip equal:", err == nil && p2.Equal(p))
		_, err = aesgcm.NewAEAD(k)
		fmt.Println(c, "NewAEAD err:", err)
	}
}
