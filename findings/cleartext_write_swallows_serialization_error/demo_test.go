package probe

import (
	"bytes"
	"testing"

	"github.com/tink-crypto/tink-go/v2/insecurecleartextkeyset"
	"github.com/tink-crypto/tink-go/v2/insecuresecretdataaccess"
	"github.com/tink-crypto/tink-go/v2/jwt/jwthmac"
	"github.com/tink-crypto/tink-go/v2/keyset"
	"github.com/tink-crypto/tink-go/v2/secretdata"
)

func TestProbe(t *testing.T) {
	p, err := jwthmac.NewParameters(32, jwthmac.CustomKID, jwthmac.HS256)
	if err != nil {
		t.Fatal(err)
	}
	k, err := jwthmac.NewKey(jwthmac.KeyOpts{KeyBytes: secretdata.NewBytesFromData(make([]byte, 32), insecuresecretdataaccess.Token{}), CustomKID: "\xff", HasCustomKID: true, Parameters: p})
	if err != nil {
		t.Fatalf("NewKey: %v", err)
	}
	km := keyset.NewManager()
	id, err := km.AddKey(k)
	if err != nil {
		t.Fatalf("AddKey: %v", err)
	}
	km.SetPrimary(id)
	h, err := km.Handle()
	if err != nil {
		t.Fatal(err)
	}
	var buf bytes.Buffer
	if err := insecurecleartextkeyset.Write(h, keyset.NewBinaryWriter(&buf)); err != nil {
		t.Fatalf("Write: %v", err)
	}
	t.Logf("written %d bytes", buf.Len())
	if _, err := insecurecleartextkeyset.Read(keyset.NewBinaryReader(&buf)); err != nil {
		t.Fatalf("Read of what Write produced: %v", err)
	}
}
