module github.com/tink-crypto/tink-go/v2/utf8probe

go 1.25.0

toolchain go1.25.11

require github.com/tink-crypto/tink-go/v2 v2.0.0

require google.golang.org/protobuf v1.36.11 // indirect

replace github.com/tink-crypto/tink-go/v2 => /repo
