// Demonstration for the finding "a handle holding a key of an unregistered type
// keeps the caller's KeyData": after reading a keyset proto, mutating the
// caller's proto changes the handle.  Exits 1 when the handle changed.
package main

import (
	"fmt"
	"os"

	"github.com/tink-crypto/tink-go/v2/insecurecleartextkeyset"
	"github.com/tink-crypto/tink-go/v2/keyset"
	"google.golang.org/protobuf/proto"

	tinkpb "github.com/tink-crypto/tink-go/v2/proto/tink_go_proto"
)

func main() {
	ks := &tinkpb.Keyset{PrimaryKeyId: 7, Key: []*tinkpb.Keyset_Key{{KeyId: 7, Status: tinkpb.KeyStatusType_ENABLED, OutputPrefixType: tinkpb.OutputPrefixType_TINK,
		KeyData: &tinkpb.KeyData{TypeUrl: "type.googleapis.com/some.custom.KeyType", Value: []byte("opaque key material"), KeyMaterialType: tinkpb.KeyData_SYMMETRIC}}}}
	h, err := insecurecleartextkeyset.Read(&keyset.MemReaderWriter{Keyset: ks})
	if err != nil {
		fmt.Println("read:", err)
		os.Exit(2)
	}
	before := proto.Clone(insecurecleartextkeyset.KeysetMaterial(h))
	for i := range ks.Key[0].KeyData.Value { // the caller reuses / wipes its buffer
		ks.Key[0].KeyData.Value[i] = 0
	}
	after := insecurecleartextkeyset.KeysetMaterial(h)
	if !proto.Equal(before, after) {
		fmt.Println("DEFECT: the handle's key changed when the caller modified the keyset proto it had passed in")
		os.Exit(1)
	}
	fmt.Println("handle unaffected")
}
