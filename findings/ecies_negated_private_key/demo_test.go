// Demonstration: ECIES-AEAD-HKDF decrypts under ANOTHER private key, the
// negated scalar n-d (public key -Q != Q).
//
// Drop this file into /repo/hybrid/ and run
//
//	go test ./hybrid/ -run TestEciesNegatedPrivateKey
//
// It FAILS on the current code: Decrypt with the negated key returns the
// plaintext instead of an error.  Reason: the DEM key is
// HKDF(kem_bytes || x(d*P), salt, info); the recipient public key is not an
// input, and x(d*P) = x((n-d)*P).  HPKE (DHKEM) puts pkR into the KEM context
// and rejects the negated key (last sub-test, which passes).
package hybrid_test

import (
	"bytes"
	"crypto/elliptic"
	"math/big"
	"testing"

	"github.com/tink-crypto/tink-go/v2/aead/aesgcm"
	"github.com/tink-crypto/tink-go/v2/hybrid"
	"github.com/tink-crypto/tink-go/v2/hybrid/ecies"
	"github.com/tink-crypto/tink-go/v2/hybrid/hpke"
	"github.com/tink-crypto/tink-go/v2/insecuresecretdataaccess"
	"github.com/tink-crypto/tink-go/v2/key"
	"github.com/tink-crypto/tink-go/v2/keyset"
	"github.com/tink-crypto/tink-go/v2/secretdata"
)

func negatedScalar(c elliptic.Curve, d []byte) []byte {
	n := c.Params().N
	return new(big.Int).Sub(n, new(big.Int).SetBytes(d)).FillBytes(make([]byte, len(d)))
}

func handleOf(t *testing.T, k key.Key) *keyset.Handle {
	t.Helper()
	m := keyset.NewManager()
	id, err := m.AddKey(k)
	if err != nil {
		t.Fatal(err)
	}
	if err := m.SetPrimary(id); err != nil {
		t.Fatal(err)
	}
	h, err := m.Handle()
	if err != nil {
		t.Fatal(err)
	}
	return h
}

func TestEciesNegatedPrivateKey(t *testing.T) {
	dem, err := aesgcm.NewParameters(aesgcm.ParametersOpts{KeySizeInBytes: 16, IVSizeInBytes: 12, TagSizeInBytes: 16, Variant: aesgcm.VariantNoPrefix})
	if err != nil {
		t.Fatal(err)
	}
	curves := []struct {
		name string
		ct   ecies.CurveType
		c    elliptic.Curve
		size int
	}{
		{"P256", ecies.NISTP256, elliptic.P256(), 32},
		{"P384", ecies.NISTP384, elliptic.P384(), 48},
		{"P521", ecies.NISTP521, elliptic.P521(), 66},
	}
	formats := []struct {
		name string
		f    ecies.PointFormat
	}{
		{"compressed", ecies.CompressedPointFormat},
		{"uncompressed", ecies.UncompressedPointFormat},
		{"legacy_uncompressed", ecies.LegacyUncompressedPointFormat},
	}
	plaintext, info := []byte("attack at dawn"), []byte("context info")
	for _, cv := range curves {
		for _, pf := range formats {
			t.Run("ECIES_"+cv.name+"_"+pf.name, func(t *testing.T) {
				variant := ecies.VariantNoPrefix
				if pf.f == ecies.LegacyUncompressedPointFormat {
					variant = ecies.VariantCrunchy // legacy point format goes with the CRUNCHY prefix
				}
				params, err := ecies.NewParameters(ecies.ParametersOpts{
					CurveType: cv.ct, HashType: ecies.SHA256, NISTCurvePointFormat: pf.f,
					DEMParameters: dem, Variant: variant,
				})
				if err != nil {
					t.Fatal(err)
				}
				d := make([]byte, cv.size)
				d[1], d[cv.size-1] = 0x11, 0x05
				id := uint32(0)
				if variant != ecies.VariantNoPrefix {
					id = 0x01020304
				}
				mk := func(b []byte) *ecies.PrivateKey {
					k, err := ecies.NewPrivateKey(secretdata.NewBytesFromData(b, insecuresecretdataaccess.Token{}), id, params)
					if err != nil {
						t.Fatal(err)
					}
					return k
				}
				honest, other := mk(d), mk(negatedScalar(cv.c, d))
				pkH, _ := honest.PublicKey()
				pkO, _ := other.PublicKey()
				if pkH.Equal(pkO) || honest.Equal(other) {
					t.Fatal("the two keys are expected to be different keys")
				}
				hHonest, hOther := handleOf(t, honest), handleOf(t, other)
				pubHandle, err := hHonest.Public()
				if err != nil {
					t.Fatal(err)
				}
				enc, err := hybrid.NewHybridEncrypt(pubHandle)
				if err != nil {
					t.Fatal(err)
				}
				dec, err := hybrid.NewHybridDecrypt(hOther)
				if err != nil {
					t.Fatal(err)
				}
				ct, err := enc.Encrypt(plaintext, info)
				if err != nil {
					t.Fatal(err)
				}
				got, err := dec.Decrypt(ct, info)
				if err == nil {
					t.Errorf("Decrypt with ANOTHER private key (negated scalar, public key -Q) succeeded and returned %q (equal to the plaintext: %v); want an error",
						got, bytes.Equal(got, plaintext))
				}
			})
		}
	}
	// HPKE DHKEM(P-256) is not affected: pkR is part of the KEM context.
	t.Run("HPKE_P256_rejects", func(t *testing.T) {
		params, err := hpke.NewParameters(hpke.ParametersOpts{KEMID: hpke.DHKEM_P256_HKDF_SHA256, KDFID: hpke.HKDFSHA256, AEADID: hpke.AES128GCM, Variant: hpke.VariantNoPrefix})
		if err != nil {
			t.Fatal(err)
		}
		d := make([]byte, 32)
		d[1], d[31] = 0x11, 0x05
		mk := func(b []byte) *hpke.PrivateKey {
			k, err := hpke.NewPrivateKey(secretdata.NewBytesFromData(b, insecuresecretdataaccess.Token{}), 0, params)
			if err != nil {
				t.Fatal(err)
			}
			return k
		}
		honest, other := mk(d), mk(negatedScalar(elliptic.P256(), d))
		pubHandle, err := handleOf(t, honest).Public()
		if err != nil {
			t.Fatal(err)
		}
		enc, err := hybrid.NewHybridEncrypt(pubHandle)
		if err != nil {
			t.Fatal(err)
		}
		dec, err := hybrid.NewHybridDecrypt(handleOf(t, other))
		if err != nil {
			t.Fatal(err)
		}
		ct, err := enc.Encrypt(plaintext, info)
		if err != nil {
			t.Fatal(err)
		}
		if got, err := dec.Decrypt(ct, info); err == nil {
			t.Errorf("HPKE Decrypt with the negated private key returned %q; want an error", got)
		}
	})
}
