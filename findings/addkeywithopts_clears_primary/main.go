// Demonstration for the finding "a failing AddKeyWithOpts(AsPrimary, colliding
// fixed id) removed the primary": the call returns an error, yet afterwards the
// manager has no primary and Handle() fails.  Exits 1 when that happens.
package main

import (
	"fmt"
	"os"

	"github.com/tink-crypto/tink-go/v2/aead/aesgcm"
	"github.com/tink-crypto/tink-go/v2/insecuresecretdataaccess"
	"github.com/tink-crypto/tink-go/v2/internal/internalapi"
	"github.com/tink-crypto/tink-go/v2/keyset"
	"github.com/tink-crypto/tink-go/v2/secretdata"
)

func mkKey(id uint32) *aesgcm.Key {
	p, _ := aesgcm.NewParameters(aesgcm.ParametersOpts{KeySizeInBytes: 16, IVSizeInBytes: 12, TagSizeInBytes: 16, Variant: aesgcm.VariantTink})
	k, err := aesgcm.NewKey(secretdata.NewBytesFromData(make([]byte, 16), insecuresecretdataaccess.Token{}), id, p)
	if err != nil {
		panic(err)
	}
	return k
}

func main() {
	km := keyset.NewManager()
	id, _ := km.AddKey(mkKey(7))
	km.SetPrimary(id)
	if _, err := km.Handle(); err != nil {
		panic(err)
	}
	// id 7 is taken: this call must fail and leave the keyset unchanged
	_, err := km.AddKeyWithOpts(mkKey(7), internalapi.Token{}, keyset.AsPrimary())
	fmt.Println("AddKeyWithOpts(AsPrimary, colliding id) error:", err)
	if _, herr := km.Handle(); herr != nil {
		fmt.Println("DEFECT: the failing call changed the keyset: Handle() now fails:", herr)
		os.Exit(1)
	}
	fmt.Println("keyset unchanged")
}
