// Demonstration for the finding "NoSecrets APIs accept key material types
// outside the enum": a keyset holding an AES-CMAC-PRF key (real symmetric key
// bytes) labelled with KeyMaterialType 5 was accepted by
// keyset.NewHandleWithNoSecrets / ReadWithNoSecrets.  Exits 1 when accepted.
package main

import (
	"bytes"
	"fmt"
	"os"

	"github.com/tink-crypto/tink-go/v2/keyset"
	_ "github.com/tink-crypto/tink-go/v2/prf"
	"google.golang.org/protobuf/proto"

	cmacpb "github.com/tink-crypto/tink-go/v2/proto/aes_cmac_prf_go_proto"
	tinkpb "github.com/tink-crypto/tink-go/v2/proto/tink_go_proto"
)

func main() {
	kv, _ := proto.Marshal(&cmacpb.AesCmacPrfKey{Version: 0, KeyValue: bytes.Repeat([]byte{0x42}, 32)})
	ks := &tinkpb.Keyset{PrimaryKeyId: 1, Key: []*tinkpb.Keyset_Key{{KeyId: 1, Status: tinkpb.KeyStatusType_ENABLED, OutputPrefixType: tinkpb.OutputPrefixType_RAW,
		KeyData: &tinkpb.KeyData{TypeUrl: "type.googleapis.com/google.crypto.tink.AesCmacPrfKey", Value: kv, KeyMaterialType: tinkpb.KeyData_KeyMaterialType(5)}}}}
	bad := false
	if _, err := keyset.NewHandleWithNoSecrets(ks); err == nil {
		fmt.Println("DEFECT: NewHandleWithNoSecrets accepted a symmetric key labelled with material type 5")
		bad = true
	} else {
		fmt.Println("NewHandleWithNoSecrets rejected:", err)
	}
	b, _ := proto.Marshal(ks)
	if _, err := keyset.ReadWithNoSecrets(keyset.NewBinaryReader(bytes.NewReader(b))); err == nil {
		fmt.Println("DEFECT: ReadWithNoSecrets accepted a symmetric key labelled with material type 5")
		bad = true
	} else {
		fmt.Println("ReadWithNoSecrets rejected:", err)
	}
	if bad {
		os.Exit(1)
	}
}
