// Demonstration: JWT RSA parameters with a public exponent other than F4 do not survive
// SerializeParameters -> ParseParameters (before fix 00e0cd9 the serializers wrote the constant F4).
// Exit status 1 = defect present.
package main

import (
	"fmt"
	"os"

	"github.com/tink-crypto/tink-go/v2/internal/protoserialization"
	"github.com/tink-crypto/tink-go/v2/jwt/jwtrsassapkcs1"
	"github.com/tink-crypto/tink-go/v2/jwt/jwtrsassapss"
	"github.com/tink-crypto/tink-go/v2/key"
)

func roundTrip(name string, p key.Parameters) bool {
	t, err := protoserialization.SerializeParameters(p)
	if err != nil {
		fmt.Println(name, "SerializeParameters:", err)
		return false
	}
	q, err := protoserialization.ParseParameters(t)
	if err != nil {
		fmt.Println(name, "ParseParameters:", err)
		return false
	}
	if !q.Equal(p) {
		fmt.Printf("%s: parameters with exponent 65539 come back different (template public_exponent lost)\n", name)
		return false
	}
	fmt.Println(name, "ok")
	return true
}

func main() {
	ok := true
	p1, err := jwtrsassapkcs1.NewParameters(jwtrsassapkcs1.ParametersOpts{ModulusSizeInBits: 2048, PublicExponent: 65539, Algorithm: jwtrsassapkcs1.RS256, KidStrategy: jwtrsassapkcs1.Base64EncodedKeyIDAsKID})
	if err != nil {
		fmt.Println(err)
		os.Exit(2)
	}
	ok = roundTrip("jwtrsassapkcs1", p1) && ok
	p2, err := jwtrsassapss.NewParameters(jwtrsassapss.ParametersOpts{ModulusSizeInBits: 2048, PublicExponent: 65539, Algorithm: jwtrsassapss.PS256, KidStrategy: jwtrsassapss.Base64EncodedKeyIDAsKID})
	if err != nil {
		fmt.Println(err)
		os.Exit(2)
	}
	ok = roundTrip("jwtrsassapss", p2) && ok
	if !ok {
		os.Exit(1)
	}
}
