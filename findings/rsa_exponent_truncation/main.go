// Demonstration for the finding "RSA public exponent truncated to 64 bits":
// an RSA-SSA-PKCS1 public key whose exponent field encodes 2^64+65537 was
// accepted (as e = 65537) by the key parsers.  Exits 1 when a handle/verifier
// is produced, 0 when the keyset is rejected.
package main

import (
	"crypto/rand"
	"crypto/rsa"
	"fmt"
	"os"

	"github.com/tink-crypto/tink-go/v2/keyset"
	"github.com/tink-crypto/tink-go/v2/signature"
	"google.golang.org/protobuf/proto"

	commonpb "github.com/tink-crypto/tink-go/v2/proto/common_go_proto"
	rsppb "github.com/tink-crypto/tink-go/v2/proto/rsa_ssa_pkcs1_go_proto"
	tinkpb "github.com/tink-crypto/tink-go/v2/proto/tink_go_proto"
)

func main() {
	k, _ := rsa.GenerateKey(rand.Reader, 2048)
	pub := &rsppb.RsaSsaPkcs1PublicKey{Version: 0, Params: &rsppb.RsaSsaPkcs1Params{HashType: commonpb.HashType_SHA256},
		N: k.N.Bytes(), E: []byte{0x01, 0, 0, 0, 0, 0, 0x01, 0x00, 0x01}}
	v, _ := proto.Marshal(pub)
	ks := &tinkpb.Keyset{PrimaryKeyId: 7, Key: []*tinkpb.Keyset_Key{{KeyId: 7, Status: tinkpb.KeyStatusType_ENABLED, OutputPrefixType: tinkpb.OutputPrefixType_TINK,
		KeyData: &tinkpb.KeyData{TypeUrl: "type.googleapis.com/google.crypto.tink.RsaSsaPkcs1PublicKey", Value: v, KeyMaterialType: tinkpb.KeyData_ASYMMETRIC_PUBLIC}}}}
	h, err := keyset.NewHandleWithNoSecrets(ks)
	if err != nil {
		fmt.Println("rejected:", err)
		return
	}
	if _, err := signature.NewVerifier(h); err != nil {
		fmt.Println("rejected at primitive creation:", err)
		return
	}
	fmt.Println("DEFECT: keyset with RSA exponent 2^64+65537 accepted and a verifier was created")
	os.Exit(1)
}
