// Demonstration: a CompositeMlDsaPublicKey (key material type
// ASYMMETRIC_PUBLIC) whose classical_public_key slot holds the key data of an
// Ed25519 PRIVATE key is accepted: parseClassicalPublicKey hands the nested
// KeyData to the parser of its own type URL, and compositemldsa.NewPublicKey
// only compares classicalKey.Parameters() with the expected parameters, which
// a private key satisfies as well.  The "public" key object then holds a
// private key: keyset.ReadWithNoSecrets / NewHandleWithNoSecrets import it,
// and Handle.WriteWithNoSecrets writes the private seed (the public-key
// serializer's serializeClassicalKey accepts private key types and labels the
// nested data ASYMMETRIC_PUBLIC).  Exits 1 when the import succeeds.
package main

import (
	"bytes"
	"crypto/ed25519"
	"fmt"
	"os"

	"github.com/tink-crypto/tink-go/v2/insecurecleartextkeyset"
	"github.com/tink-crypto/tink-go/v2/keyset"
	"github.com/tink-crypto/tink-go/v2/signature"
	"github.com/tink-crypto/tink-go/v2/signature/compositemldsa"
	"google.golang.org/protobuf/proto"

	comppb "github.com/tink-crypto/tink-go/v2/proto/composite_ml_dsa_go_proto"
	ed25519pb "github.com/tink-crypto/tink-go/v2/proto/ed25519_go_proto"
	tinkpb "github.com/tink-crypto/tink-go/v2/proto/tink_go_proto"
)

func main() {
	_ = signature.NewSigner
	// a genuine composite key pair, to take its ML-DSA public key from
	params, err := compositemldsa.NewParameters(compositemldsa.Ed25519, compositemldsa.MLDSA65, compositemldsa.VariantTink)
	if err != nil {
		panic(err)
	}
	km := keyset.NewManager()
	id, err := km.AddNewKeyFromParameters(params)
	if err != nil {
		panic(err)
	}
	km.SetPrimary(id)
	h, _ := km.Handle()
	pubH, _ := h.Public()
	pubKS := insecurecleartextkeyset.KeysetMaterial(pubH)
	cpk := &comppb.CompositeMlDsaPublicKey{}
	if err := proto.Unmarshal(pubKS.Key[0].KeyData.Value, cpk); err != nil {
		panic(err)
	}
	// an unrelated Ed25519 PRIVATE key, put where the classical public key belongs
	seed := bytes.Repeat([]byte{0x5e}, 32)
	edPub := ed25519.NewKeyFromSeed(seed).Public().(ed25519.PublicKey)
	edPriv, _ := proto.Marshal(&ed25519pb.Ed25519PrivateKey{KeyValue: seed, PublicKey: &ed25519pb.Ed25519PublicKey{KeyValue: edPub}})
	cpk.ClassicalPublicKey = &tinkpb.KeyData{TypeUrl: "type.googleapis.com/google.crypto.tink.Ed25519PrivateKey", Value: edPriv,
		KeyMaterialType: tinkpb.KeyData_ASYMMETRIC_PRIVATE}
	pubKS.Key[0].KeyData.Value, _ = proto.Marshal(cpk)
	b, _ := proto.Marshal(pubKS)

	nh, err := keyset.ReadWithNoSecrets(keyset.NewBinaryReader(bytes.NewReader(b)))
	if err != nil {
		fmt.Println("ReadWithNoSecrets rejected:", err)
		os.Exit(0)
	}
	fmt.Println("ReadWithNoSecrets ACCEPTED a keyset labelled ASYMMETRIC_PUBLIC that holds an Ed25519 private key")
	var out bytes.Buffer
	if err := nh.WriteWithNoSecrets(keyset.NewBinaryWriter(&out)); err != nil {
		fmt.Println("WriteWithNoSecrets refused:", err)
	} else {
		fmt.Printf("WriteWithNoSecrets wrote %d bytes; they contain the private seed: %v\n", out.Len(), bytes.Contains(out.Bytes(), seed))
	}
	fmt.Printf("KeysetInfo: %v\n", nh.KeysetInfo().GetKeyInfo()[0].GetTypeUrl())
	os.Exit(1)
}
