// Demonstration for the finding "ChaCha20-Poly1305 / XChaCha20-Poly1305 Decrypt
// and Encrypt panic on inputs above the cipher's size limit": the ciphertext is
// a lazily mapped (never touched) 2^38-byte region, so nothing is allocated.
// Exits 1 when a call panics, 0 when every call returns an error.
package main

import (
	"fmt"
	"os"
	"syscall"

	"github.com/tink-crypto/tink-go/v2/aead/subtle"
)

func try(name string, f func() error) bool {
	defer func() {
		if e := recover(); e != nil {
			fmt.Printf("DEFECT: %s panicked: %v\n", name, e)
		}
	}()
	err := f()
	fmt.Printf("%s returned error: %v\n", name, err != nil)
	return err != nil
}

func main() {
	n := 1<<38 + 4096
	buf, err := syscall.Mmap(-1, 0, n, syscall.PROT_READ, syscall.MAP_ANON|syscall.MAP_PRIVATE|syscall.MAP_NORESERVE)
	if err != nil {
		fmt.Println("mmap:", err)
		os.Exit(2)
	}
	key := make([]byte, 32)
	c, _ := subtle.NewChaCha20Poly1305(key)
	x, _ := subtle.NewXChaCha20Poly1305(key)
	ok := true
	ok = try("ChaCha20Poly1305.Decrypt(2^38 bytes)", func() error { _, err := c.Decrypt(buf[:1<<38], nil); return err }) && ok
	ok = try("XChaCha20Poly1305.Decrypt(2^38 bytes)", func() error { _, err := x.Decrypt(buf[:1<<38], nil); return err }) && ok
	if !ok {
		os.Exit(1)
	}
}
