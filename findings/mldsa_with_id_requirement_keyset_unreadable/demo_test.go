package keyset_test

// Demonstration for finding "ML-DSA keys of variant NoPrefixWithPrehashID make a keyset
// that can be written but not read back" (C12).  Copy into /repo/keyset/ and run
//   go test ./keyset/ -run TestMlDsaWithIDRequirementKeysetRoundTrip

import (
	"bytes"
	"testing"

	"github.com/tink-crypto/tink-go/v2/insecurecleartextkeyset"
	"github.com/tink-crypto/tink-go/v2/keyset"
	_ "github.com/tink-crypto/tink-go/v2/signature"
	"github.com/tink-crypto/tink-go/v2/signature/mldsa"
)

func TestMlDsaWithIDRequirementKeysetRoundTrip(t *testing.T) {
	for _, v := range []mldsa.Variant{mldsa.VariantTink, mldsa.VariantNoPrefix, mldsa.VariantNoPrefixWithPrehashID} {
		t.Run(v.String(), func(t *testing.T) {
			p, err := mldsa.NewParameters(mldsa.MLDSA65, v)
			if err != nil {
				t.Fatal(err)
			}
			km := keyset.NewManager()
			id, err := km.AddNewKeyFromParameters(p)
			if err != nil {
				t.Fatal(err)
			}
			if err := km.SetPrimary(id); err != nil {
				t.Fatal(err)
			}
			h, err := km.Handle()
			if err != nil {
				t.Fatal(err)
			}
			buf := &bytes.Buffer{}
			if err := insecurecleartextkeyset.Write(h, keyset.NewBinaryWriter(buf)); err != nil {
				t.Fatalf("Write: %v", err)
			}
			h2, err := insecurecleartextkeyset.Read(keyset.NewBinaryReader(bytes.NewBuffer(buf.Bytes())))
			if err != nil {
				t.Fatalf("Read of the bytes Write just produced: %v", err)
			}
			e, _ := h.Entry(0)
			e2, _ := h2.Entry(0)
			if !e.Key().Equal(e2.Key()) {
				t.Errorf("key changed")
			}
			hp, err := h.Public()
			if err != nil {
				t.Fatal(err)
			}
			pbuf := &bytes.Buffer{}
			if err := hp.WriteWithNoSecrets(keyset.NewBinaryWriter(pbuf)); err != nil {
				t.Fatalf("WriteWithNoSecrets: %v", err)
			}
			if _, err := keyset.ReadWithNoSecrets(keyset.NewBinaryReader(bytes.NewBuffer(pbuf.Bytes()))); err != nil {
				t.Fatalf("ReadWithNoSecrets of the bytes WriteWithNoSecrets just produced: %v", err)
			}
		})
	}
}
