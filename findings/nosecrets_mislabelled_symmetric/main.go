// Demonstration for the observation "the no-secrets import APIs trust the
// key_material_type label on five key types": the parsers of HmacKey,
// AesCmacKey, HkdfPrfKey, HmacPrfKey and AesCmacPrfKey never compare
// KeyData.key_material_type with SYMMETRIC (every other symmetric parser
// does), so a keyset holding real symmetric key bytes labelled
// ASYMMETRIC_PUBLIC (or REMOTE) is accepted by keyset.NewHandleWithNoSecrets /
// ReadWithNoSecrets; the handle computes MACs with the key, and
// Handle.WriteWithNoSecrets refuses to write the same handle back (it sees
// SYMMETRIC).  Coq witness: C13_no_secrets_import_trusts_the_label_refuted;
// corpus line corpus/C13.txt "corpus-mislabelled-hmac-public".
// Fixed by /repo b141c20 (the import re-serialises the parsed keys and tests
// their material): exits 0 on the repaired tree.  Exits 1 when the import succeeds.
package main

import (
	"bytes"
	"fmt"
	"os"

	"github.com/tink-crypto/tink-go/v2/keyset"
	"github.com/tink-crypto/tink-go/v2/mac"
	"google.golang.org/protobuf/proto"

	commonpb "github.com/tink-crypto/tink-go/v2/proto/common_go_proto"
	hmacpb "github.com/tink-crypto/tink-go/v2/proto/hmac_go_proto"
	tinkpb "github.com/tink-crypto/tink-go/v2/proto/tink_go_proto"
)

func main() {
	bad := false
	for _, label := range []tinkpb.KeyData_KeyMaterialType{tinkpb.KeyData_ASYMMETRIC_PUBLIC, tinkpb.KeyData_REMOTE} {
		kv, _ := proto.Marshal(&hmacpb.HmacKey{Version: 0, Params: &hmacpb.HmacParams{Hash: commonpb.HashType_SHA256, TagSize: 16},
			KeyValue: bytes.Repeat([]byte{0x09}, 16)})
		ks := &tinkpb.Keyset{PrimaryKeyId: 7, Key: []*tinkpb.Keyset_Key{{KeyId: 7, Status: tinkpb.KeyStatusType_ENABLED, OutputPrefixType: tinkpb.OutputPrefixType_TINK,
			KeyData: &tinkpb.KeyData{TypeUrl: "type.googleapis.com/google.crypto.tink.HmacKey", Value: kv, KeyMaterialType: label}}}}
		b, _ := proto.Marshal(ks)
		h, err := keyset.ReadWithNoSecrets(keyset.NewBinaryReader(bytes.NewReader(b)))
		if err != nil {
			fmt.Printf("label %v: ReadWithNoSecrets rejected: %v\n", label, err)
			continue
		}
		bad = true
		fmt.Printf("label %v: ReadWithNoSecrets ACCEPTED a keyset holding 16 bytes of HMAC key\n", label)
		if m, err := mac.New(h); err == nil {
			tag, err := m.ComputeMAC([]byte("message"))
			fmt.Printf("  the handle computes MACs with the imported key: %x (err %v)\n", tag, err)
		}
		var out bytes.Buffer
		fmt.Printf("  WriteWithNoSecrets of the same handle: %v\n", h.WriteWithNoSecrets(keyset.NewBinaryWriter(&out)))
		if _, err := keyset.NewHandleWithNoSecrets(ks); err == nil {
			fmt.Println("  NewHandleWithNoSecrets accepts it as well")
		}
	}
	if bad {
		os.Exit(1)
	}
}
