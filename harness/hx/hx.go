// Package hx holds what every property generator of the verification harness
// shares: one PRNG from which every random choice derives, the randomness
// tape installed as crypto/rand.Reader, the property registry and the
// cases/expect writer.
package hx

import (
	"bufio"
	"crypto/rand"
	"encoding/hex"
	"encoding/json"
	"flag"
	"fmt"
	"io"
	"os"
	"path/filepath"
	"runtime/debug"
	"sort"
	"strings"
	"sync"
)

// Rng is splitmix64; every generator choice comes from one state so that a
// seed replays exactly.
type Rng struct{ s uint64 }

func NewRng(seed uint64) *Rng {
	// decorrelate consecutive seeds: the state is a mixed function of the seed
	// (a plain multiple of the increment would make seed s+1 the stream of seed s shifted by one)
	z := seed + 0x632be59bd9b4e019
	z = (z ^ (z >> 30)) * 0xbf58476d1ce4e5b9
	z = (z ^ (z >> 27)) * 0x94d049bb133111eb
	z ^= z >> 31
	z = (z ^ (z >> 33)) * 0xff51afd7ed558ccd
	z ^= z >> 29
	return &Rng{s: z}
}
func (r *Rng) U64() uint64 {
	r.s += 0x9e3779b97f4a7c15
	z := r.s
	z = (z ^ (z >> 30)) * 0xbf58476d1ce4e5b9
	z = (z ^ (z >> 27)) * 0x94d049bb133111eb
	return z ^ (z >> 31)
}
func (r *Rng) Intn(n int) int {
	if n <= 0 {
		return 0
	}
	return int(r.U64() % uint64(n))
}
func (r *Rng) Bool() bool        { return r.U64()&1 == 1 }
func (r *Rng) Chance(p int) bool { return r.Intn(100) < p }
func (r *Rng) Bytes(n int) []byte {
	b := make([]byte, n)
	for i := range b {
		b[i] = byte(r.U64())
	}
	return b
}
func (r *Rng) Pick(xs []int) int    { return xs[r.Intn(len(xs))] }
func PickS[T any](r *Rng, xs []T) T { return xs[r.Intn(len(xs))] }

// Tape is the deterministic reader installed as crypto/rand.Reader.  Reads of
// exactly 4 bytes (key IDs: subtle/random.GetRandomUint32) are served from the
// ID channel when it is non-empty, every other read from the bulk channel; a
// drained channel continues with a counter stream so the real code never
// blocks.  Every read is logged (length and bytes) for the C20 comparison.
type Tape struct {
	mu          sync.Mutex
	IDs         []uint32
	Bulk        []byte
	ctr         uint64
	Log         []TapeRead
	NIDs        int  // number of ID draws served
	NBulk       int  // bulk bytes served
	IDExhausted bool // a 4-byte read found the ID channel empty although one was configured
	HadIDs      bool
}
type TapeRead struct {
	N    int
	Data []byte
}

func (t *Tape) Read(p []byte) (int, error) {
	t.mu.Lock()
	defer t.mu.Unlock()
	if len(t.IDs) > 0 {
		t.HadIDs = true
	}
	if len(p) == 4 && len(t.IDs) == 0 && t.HadIDs {
		t.IDExhausted = true
	}
	if len(p) == 4 && len(t.IDs) > 0 {
		v := t.IDs[0]
		t.IDs = t.IDs[1:]
		p[0], p[1], p[2], p[3] = byte(v>>24), byte(v>>16), byte(v>>8), byte(v)
		t.NIDs++
	} else {
		for i := range p {
			if len(t.Bulk) > 0 {
				p[i] = t.Bulk[0]
				t.Bulk = t.Bulk[1:]
			} else {
				t.ctr++
				x := t.ctr * 0x9e3779b97f4a7c15
				p[i] = byte(x >> 56)
			}
		}
		if len(p) == 4 {
			t.NIDs++
		} else {
			t.NBulk += len(p)
		}
	}
	t.Log = append(t.Log, TapeRead{len(p), append([]byte(nil), p...)})
	return len(p), nil
}

var realRand = rand.Reader

// WithTape runs f with crypto/rand.Reader replaced by t.
func WithTape(t *Tape, f func()) {
	old := rand.Reader
	rand.Reader = t
	defer func() { rand.Reader = old }()
	f()
}

// RealRand restores the operating-system randomness (used by generators for
// things whose values are irrelevant, e.g. RSA key generation).
func RealRand(f func()) {
	old := rand.Reader
	rand.Reader = realRand
	defer func() { rand.Reader = old }()
	f()
}

// Prop is one property's harness.
type Prop struct {
	// Gen returns n case lines (self-contained, deterministic inputs).
	Gen func(r *Rng, n int, tier string) []string
	// Run executes the real code on one case line and returns the canonical
	// observation (projected observables only).  Panics are caught by the caller.
	Run func(in string) string
	// Check is the direct property oracle that needs no model: "" when the
	// property holds on (in, observed), otherwise what fails.
	Check func(in, obs string) string
	// Class returns the equivalence class used for distinct_nontrivial
	// ("" = trivial case).
	Class func(in, obs string) string
}

var Props = map[string]*Prop{}

func Register(id string, p *Prop) { Props[id] = p }

func SafeRun(p *Prop, in string) (obs string) {
	defer func() {
		if e := recover(); e != nil {
			st := string(debug.Stack())
			_ = st
			obs = "PANIC " + strings.ReplaceAll(fmt.Sprint(e), "\n", " ")
		}
	}()
	return p.Run(in)
}

// Scribble overwrites caller-owned buffers after they were handed to a constructor: an
// object that kept a reference instead of a copy computes a different function afterwards.
func Scribble(bs ...[]byte) {
	for _, b := range bs {
		for i := range b {
			b[i] ^= 0xA5
		}
	}
}

func H(b []byte) string {
	if len(b) == 0 {
		return "-"
	}
	return hex.EncodeToString(b)
}
func UH(s string) []byte {
	if s == "-" || s == "" {
		return []byte{}
	}
	b, err := hex.DecodeString(s)
	if err != nil {
		panic("bad hex " + s)
	}
	return b
}

// Main drives one property: writes cases.txt, expect.txt, direct.txt, meta.json.
func Main(id string, seed uint64, n int, tier, out, corpus, single string) error {
	p := Props[id]
	if p == nil {
		return fmt.Errorf("unknown property %s", id)
	}
	var lines []string
	if single != "" {
		lines = []string{single}
	} else {
		if corpus != "" {
			if b, err := os.ReadFile(corpus); err == nil {
				for _, l := range strings.Split(string(b), "\n") {
					if l = strings.TrimSpace(l); l != "" && !strings.HasPrefix(l, "#") {
						lines = append(lines, l)
					}
				}
			}
		}
		lines = append(lines, p.Gen(NewRng(seed), n, tier)...)
	}
	if err := os.MkdirAll(out, 0o755); err != nil {
		return err
	}
	cf, _ := os.Create(filepath.Join(out, "cases.txt"))
	ef, _ := os.Create(filepath.Join(out, "expect.txt"))
	df, _ := os.Create(filepath.Join(out, "direct.txt"))
	cw, ew, dw := bufio.NewWriter(cf), bufio.NewWriter(ef), bufio.NewWriter(df)
	classes := map[string]int{}
	for i, l := range lines {
		obs := SafeRun(p, l)
		fmt.Fprintln(cw, l)
		fmt.Fprintln(ew, obs)
		if p.Check != nil {
			if v := safeCheck(p, l, obs); v != "" {
				fmt.Fprintf(dw, "%d\t%s\n", i, v)
			}
		} else if strings.HasPrefix(obs, "PANIC") {
			fmt.Fprintf(dw, "%d\t%s\n", i, obs)
		}
		if p.Class != nil {
			if c := p.Class(l, obs); c != "" {
				classes[c]++
			}
		}
	}
	cw.Flush()
	ew.Flush()
	dw.Flush()
	cf.Close()
	ef.Close()
	df.Close()
	keys := make([]string, 0, len(classes))
	for k := range classes {
		keys = append(keys, k)
	}
	sort.Strings(keys)
	meta := map[string]any{"property": id, "seed": seed, "cases": len(lines), "classes": classes, "distinct_classes": len(classes)}
	mb, _ := json.MarshalIndent(meta, "", " ")
	return os.WriteFile(filepath.Join(out, "meta.json"), mb, 0o644)
}

func safeCheck(p *Prop, in, obs string) (v string) {
	defer func() {
		if e := recover(); e != nil {
			v = "check panicked: " + fmt.Sprint(e)
		}
	}()
	return p.Check(in, obs)
}

var _ = io.EOF

// CLI is the main function of every per-property harness command.
func CLI(id string) {
	seed := flag.Uint64("seed", 1, "seed")
	n := flag.Int("n", 100, "number of generated cases")
	tier := flag.String("tier", "quick", "tier")
	out := flag.String("out", "", "output directory")
	corpus := flag.String("corpus", "", "corpus file of case lines run first")
	single := flag.String("case", "", "run exactly this case line")
	flag.Parse()
	if err := Main(id, *seed, *n, *tier, *out, *corpus, *single); err != nil {
		fmt.Fprintln(os.Stderr, err)
		os.Exit(2)
	}
}
