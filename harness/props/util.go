// Package props holds one harness (generator, runner, direct property oracle)
// per property.
package props

import "sort"

func sortStrings(s []string) { sort.Strings(s) }
