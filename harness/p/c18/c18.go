// Package c18: concurrency hammer.  Every primitive class and key type is used
// from many goroutines at once on ONE shared primitive (built under the race
// detector); each concurrent result is compared with the sequential oracle.
package c18

import (
	"bytes"
	"fmt"
	"io"
	"os"
	"path/filepath"
	"strconv"
	"strings"
	"sync"

	"github.com/tink-crypto/tink-go/v2/aead"
	"github.com/tink-crypto/tink-go/v2/daead"
	"github.com/tink-crypto/tink-go/v2/hybrid"
	"github.com/tink-crypto/tink-go/v2/insecurecleartextkeyset"
	"github.com/tink-crypto/tink-go/v2/jwt"
	"github.com/tink-crypto/tink-go/v2/key"
	"github.com/tink-crypto/tink-go/v2/keyderivation"
	"github.com/tink-crypto/tink-go/v2/keyset"
	"github.com/tink-crypto/tink-go/v2/mac"
	"github.com/tink-crypto/tink-go/v2/prf"
	"github.com/tink-crypto/tink-go/v2/signature"
	"github.com/tink-crypto/tink-go/v2/signprehash"
	"github.com/tink-crypto/tink-go/v2/streamingaead"
	"github.com/tink-crypto/tink-go/v2/verifharness/hx"

	thpke "github.com/tink-crypto/tink-go/v2/hybrid/hpke"
	tinkpb "github.com/tink-crypto/tink-go/v2/proto/tink_go_proto"
	tmldsa "github.com/tink-crypto/tink-go/v2/signature/mldsa"
	tslhdsa "github.com/tink-crypto/tink-go/v2/signature/slhdsa"
)

type tmpl struct {
	class, name string
	t           func() *tinkpb.KeyTemplate
	params      func() key.Parameters // used when t is nil
	slow        bool                  // slow primitive: fewer iterations
}

func must[T any](v T, err error) T {
	if err != nil {
		panic(err)
	}
	return v
}

var templates = []tmpl{
	{class: "aead", name: "AES128GCM", t: aead.AES128GCMKeyTemplate},
	{class: "aead", name: "AES256CTRHMACSHA256", t: aead.AES256CTRHMACSHA256KeyTemplate},
	{class: "aead", name: "ChaCha20Poly1305", t: aead.ChaCha20Poly1305KeyTemplate},
	{class: "aead", name: "XChaCha20Poly1305", t: aead.XChaCha20Poly1305KeyTemplate},
	{class: "aead", name: "AES256GCMSIV", t: aead.AES256GCMSIVKeyTemplate},
	{class: "aead", name: "XAES256GCM192", t: aead.XAES256GCM192BitNonceKeyTemplate},
	{class: "daead", name: "AESSIV", t: daead.AESSIVKeyTemplate},
	{class: "mac", name: "HMACSHA256Tag128", t: mac.HMACSHA256Tag128KeyTemplate},
	{class: "mac", name: "HMACSHA512Tag512", t: mac.HMACSHA512Tag512KeyTemplate},
	{class: "mac", name: "AESCMACTag128", t: mac.AESCMACTag128KeyTemplate},
	{class: "prf", name: "HMACSHA256PRF", t: prf.HMACSHA256PRFKeyTemplate},
	{class: "prf", name: "HKDFSHA256PRF", t: prf.HKDFSHA256PRFKeyTemplate},
	{class: "prf", name: "AESCMACPRF", t: prf.AESCMACPRFKeyTemplate},
	{class: "sig", name: "ECDSAP256", t: signature.ECDSAP256KeyTemplate},
	{class: "sig", name: "ECDSAP384SHA512", t: signature.ECDSAP384SHA512KeyTemplate},
	{class: "sig", name: "ED25519", t: signature.ED25519KeyTemplate},
	{class: "sig", name: "RSASSAPSS3072", t: signature.RSA_SSA_PSS_3072_SHA256_32_F4_Key_Template, slow: true},
	{class: "sig", name: "RSASSAPKCS1-3072", t: signature.RSA_SSA_PKCS1_3072_SHA256_F4_Key_Template, slow: true},
	{class: "sig", name: "MLDSA65", params: func() key.Parameters { return must(tmldsa.NewParameters(tmldsa.MLDSA65, tmldsa.VariantTink)) }},
	{class: "sig", name: "SLHDSA-SHA2-128s", slow: true, params: func() key.Parameters {
		return must(tslhdsa.NewParameters(tslhdsa.SHA2, 64, tslhdsa.SmallSignature, tslhdsa.VariantTink))
	}},
	{class: "prehash", name: "MLDSA44-prehash", params: func() key.Parameters {
		return must(tmldsa.NewParameters(tmldsa.MLDSA44, tmldsa.VariantNoPrefixWithPrehashID))
	}},
	{class: "hyb", name: "HPKE-XWING-AES256GCM", params: func() key.Parameters {
		return must(thpke.NewParameters(thpke.ParametersOpts{KEMID: thpke.X_WING, KDFID: thpke.HKDFSHA256, AEADID: thpke.AES256GCM, Variant: thpke.VariantTink}))
	}},
	{class: "hyb", name: "HPKE-MLKEM768-AES128GCM", params: func() key.Parameters {
		return must(thpke.NewParameters(thpke.ParametersOpts{KEMID: thpke.ML_KEM768, KDFID: thpke.HKDFSHA256, AEADID: thpke.AES128GCM, Variant: thpke.VariantTink}))
	}},
	{class: "hyb", name: "HPKE-X25519-AES128GCM", t: hybrid.DHKEM_X25519_HKDF_SHA256_HKDF_SHA256_AES_128_GCM_Key_Template},
	{class: "hyb", name: "HPKE-P256-AES256GCM", t: hybrid.DHKEM_P256_HKDF_SHA256_HKDF_SHA256_AES_256_GCM_Key_Template},
	{class: "hyb", name: "ECIES-AES128GCM", t: hybrid.ECIESHKDFAES128GCMKeyTemplate},
	{class: "stream", name: "AES128GCMHKDF4KB", t: streamingaead.AES128GCMHKDF4KBKeyTemplate},
	{class: "stream", name: "AES128CTRHMACSHA256Segment4KB", t: streamingaead.AES128CTRHMACSHA256Segment4KBKeyTemplate},
	{class: "jwtmac", name: "HS256", t: jwt.HS256Template},
	{class: "jwtsig", name: "ES256", t: jwt.ES256Template},
	{class: "derive", name: "PRFBased-AES128GCM", t: func() *tinkpb.KeyTemplate {
		t, err := keyderivation.CreatePRFBasedKeyTemplate(prf.HKDFSHA256PRFKeyTemplate(), aead.AES128GCMKeyTemplate())
		if err != nil {
			panic(err)
		}
		return t
	}},
}

var (
	hmu     sync.Mutex
	handles = map[string]*keyset.Handle{}
)

func handleFor(t tmpl) *keyset.Handle {
	hmu.Lock()
	defer hmu.Unlock()
	if h, ok := handles[t.name]; ok {
		return h
	}
	// two keys, the second one primary, so that the prefix map has two entries
	m := keyset.NewManager()
	add := func() (uint32, error) {
		if t.t != nil {
			return m.Add(t.t())
		}
		return m.AddNewKeyFromParameters(t.params())
	}
	if _, err := add(); err != nil {
		panic(fmt.Sprintf("%s: %v", t.name, err))
	}
	id, err := add()
	if err != nil {
		panic(err)
	}
	if err := m.SetPrimary(id); err != nil {
		panic(err)
	}
	h, err := m.Handle()
	if err != nil {
		panic(err)
	}
	handles[t.name] = h
	return h
}

const workers = 16

// hammer runs f(worker, iteration) from `workers` goroutines; f returns "" or a complaint.
func hammer(iters int, f func(w, i int) string) string {
	var wg sync.WaitGroup
	var mu sync.Mutex
	var bad []string
	start := make(chan struct{})
	for w := 0; w < workers; w++ {
		wg.Add(1)
		go func(w int) {
			defer wg.Done()
			defer func() {
				if e := recover(); e != nil {
					mu.Lock()
					bad = append(bad, fmt.Sprint("panic: ", e))
					mu.Unlock()
				}
			}()
			<-start
			for i := 0; i < iters; i++ {
				if s := f(w, i); s != "" {
					mu.Lock()
					if len(bad) < 3 {
						bad = append(bad, s)
					}
					mu.Unlock()
					return
				}
			}
		}(w)
	}
	close(start)
	wg.Wait()
	if len(bad) > 0 {
		return "DIFF " + strings.Join(bad, " ## ")
	}
	return "ok"
}

func msgFor(r *hx.Rng, w, i int) []byte {
	n := []int{0, 1, 16, 33, 100, 257}[(w+i)%6]
	b := make([]byte, n)
	for k := range b {
		b[k] = byte(w*31 + i*7 + k)
	}
	return b
}

func runTemplate(name string, iters int, r *hx.Rng) string {
	var t tmpl
	for _, x := range templates {
		if x.name == name {
			t = x
		}
	}
	h := handleFor(t)
	ad := []byte("associated data")
	if t.slow {
		// RSA-3072 and SLH-DSA-128s signing under the race detector costs seconds per call:
		// a handful of overlapping calls per worker is what the budget allows, in every tier
		iters = iters/10 + 1
		if iters > 6 {
			iters = 6
		}
	}
	switch t.class {
	case "prehash":
		// one Prehash object and one PrehashSigner shared by all workers; short and long messages
		ph, err := h.Public()
		if err != nil {
			return "DIFF " + err.Error()
		}
		pr, err1 := signprehash.NewPrehash(ph)
		ps, err2 := signprehash.NewPrehashSigner(h)
		v, err3 := signature.NewVerifier(ph)
		if err1 != nil || err2 != nil || err3 != nil {
			return fmt.Sprintf("DIFF %v %v %v", err1, err2, err3)
		}
		// sequential oracle: the prehash of each message this run can produce
		want := map[string]string{}
		for w := 0; w < workers; w++ {
			for i := 0; i < iters; i++ {
				m := msgFor(r, w, i)
				pre, err := pr.ComputePrehash(m)
				if err != nil {
					return "DIFF sequential ComputePrehash: " + err.Error()
				}
				want[string(m)] = string(pre)
			}
		}
		return hammer(iters, func(w, i int) string {
			m := msgFor(r, w, i)
			pre, err := pr.ComputePrehash(m)
			if err != nil {
				return "prehash: " + err.Error()
			}
			if want[string(m)] != string(pre) {
				return "concurrent ComputePrehash differs from the sequential value"
			}
			if i%8 == 0 {
				sig, err := ps.SignPrehash(pre)
				if err != nil {
					return "signprehash: " + err.Error()
				}
				if err := v.Verify(sig, m); err != nil {
					return "prehash signature rejected by the ordinary verifier"
				}
			}
			return ""
		})
	case "aead":
		p, err := aead.New(h)
		if err != nil {
			return "DIFF " + err.Error()
		}
		fixed := msgFor(r, 3, 4)
		ct0, _ := p.Encrypt(fixed, ad)
		return hammer(iters, func(w, i int) string {
			m := msgFor(r, w, i)
			ct, err := p.Encrypt(m, ad)
			if err != nil {
				return "encrypt: " + err.Error()
			}
			pt, err := p.Decrypt(ct, ad)
			if err != nil || !bytes.Equal(pt, m) {
				return "concurrent decrypt returned a wrong plaintext or an error"
			}
			pt0, err := p.Decrypt(ct0, ad)
			if err != nil || !bytes.Equal(pt0, fixed) {
				return "concurrent decrypt of a fixed ciphertext failed"
			}
			return ""
		})
	case "daead":
		p, err := daead.New(h)
		if err != nil {
			return "DIFF " + err.Error()
		}
		want := map[int][]byte{}
		for k := 0; k < 6; k++ {
			want[k], _ = p.EncryptDeterministically(msgFor(r, k, 0), ad)
		}
		return hammer(iters, func(w, i int) string {
			k := (w + i) % 6
			m := msgFor(r, k, 0)
			ct, err := p.EncryptDeterministically(m, ad)
			if err != nil || !bytes.Equal(ct, want[k]) {
				return "deterministic ciphertext differs from the sequential one"
			}
			pt, err := p.DecryptDeterministically(ct, ad)
			if err != nil || !bytes.Equal(pt, m) {
				return "concurrent deterministic decrypt failed"
			}
			return ""
		})
	case "mac":
		p, err := mac.New(h)
		if err != nil {
			return "DIFF " + err.Error()
		}
		want := map[int][]byte{}
		for k := 0; k < 6; k++ {
			want[k], _ = p.ComputeMAC(msgFor(r, k, 0))
		}
		return hammer(iters, func(w, i int) string {
			k := (w + i) % 6
			m := msgFor(r, k, 0)
			tag, err := p.ComputeMAC(m)
			if err != nil || !bytes.Equal(tag, want[k]) {
				return "concurrent tag differs from the sequential one"
			}
			if err := p.VerifyMAC(tag, m); err != nil {
				return "concurrent VerifyMAC failed"
			}
			return ""
		})
	case "prf":
		ps, err := prf.NewPRFSet(h)
		if err != nil {
			return "DIFF " + err.Error()
		}
		want := map[int][]byte{}
		for k := 0; k < 6; k++ {
			want[k], _ = ps.ComputePrimaryPRF(msgFor(r, k, 0), 16)
		}
		return hammer(iters, func(w, i int) string {
			k := (w + i) % 6
			out, err := ps.ComputePrimaryPRF(msgFor(r, k, 0), 16)
			if err != nil || !bytes.Equal(out, want[k]) {
				return "concurrent PRF output differs from the sequential one"
			}
			return ""
		})
	case "sig":
		ph, err := h.Public()
		if err != nil {
			return "DIFF " + err.Error()
		}
		s, err1 := signature.NewSigner(h)
		v, err2 := signature.NewVerifier(ph)
		if err1 != nil || err2 != nil {
			return fmt.Sprintf("DIFF %v %v", err1, err2)
		}
		fixed := msgFor(r, 1, 1)
		sig0, _ := s.Sign(fixed)
		return hammer(iters/4+1, func(w, i int) string {
			m := msgFor(r, w, i)
			sig, err := s.Sign(m)
			if err != nil {
				return "sign: " + err.Error()
			}
			if err := v.Verify(sig, m); err != nil {
				return "concurrent Verify rejected a fresh signature"
			}
			if err := v.Verify(sig0, fixed); err != nil {
				return "concurrent Verify rejected a fixed signature"
			}
			return ""
		})
	case "hyb":
		ph, err := h.Public()
		if err != nil {
			return "DIFF " + err.Error()
		}
		e, err1 := hybrid.NewHybridEncrypt(ph)
		d, err2 := hybrid.NewHybridDecrypt(h)
		if err1 != nil || err2 != nil {
			return fmt.Sprintf("DIFF %v %v", err1, err2)
		}
		return hammer(iters/4+1, func(w, i int) string {
			m := msgFor(r, w, i)
			ct, err := e.Encrypt(m, ad)
			if err != nil {
				return "encrypt: " + err.Error()
			}
			pt, err := d.Decrypt(ct, ad)
			if err != nil || !bytes.Equal(pt, m) {
				return "concurrent hybrid decrypt returned a wrong plaintext or an error"
			}
			return ""
		})
	case "stream":
		p, err := streamingaead.New(h)
		if err != nil {
			return "DIFF " + err.Error()
		}
		return hammer(iters/4+1, func(w, i int) string {
			m := bytes.Repeat(msgFor(r, w, i), 40)
			var buf bytes.Buffer
			wr, err := p.NewEncryptingWriter(&buf, ad)
			if err != nil {
				return err.Error()
			}
			wr.Write(m[:len(m)/2])
			wr.Write(m[len(m)/2:])
			if err := wr.Close(); err != nil {
				return err.Error()
			}
			rd, err := p.NewDecryptingReader(bytes.NewReader(buf.Bytes()), ad)
			if err != nil {
				return err.Error()
			}
			got, err := io.ReadAll(rd)
			if err != nil || !bytes.Equal(got, m) {
				return "concurrent stream round trip failed"
			}
			return ""
		})
	case "jwtmac":
		p, err := jwt.NewMAC(h)
		if err != nil {
			return "DIFF " + err.Error()
		}
		val, _ := jwt.NewValidator(&jwt.ValidatorOpts{AllowMissingExpiration: true, IgnoreIssuer: true})
		return hammer(iters/2+1, func(w, i int) string {
			iss := fmt.Sprintf("issuer-%d-%d", w, i)
			raw, err := jwt.NewRawJWT(&jwt.RawJWTOptions{Issuer: &iss, WithoutExpiration: true})
			if err != nil {
				return err.Error()
			}
			tok, err := p.ComputeMACAndEncode(raw)
			if err != nil {
				return err.Error()
			}
			vj, err := p.VerifyMACAndDecode(tok, val)
			if err != nil {
				return "concurrent VerifyMACAndDecode failed"
			}
			if got, _ := vj.Issuer(); got != iss {
				return "verified JWT carries another call's issuer"
			}
			return ""
		})
	case "jwtsig":
		ph, err := h.Public()
		if err != nil {
			return "DIFF " + err.Error()
		}
		s, err1 := jwt.NewSigner(h)
		v, err2 := jwt.NewVerifier(ph)
		if err1 != nil || err2 != nil {
			return fmt.Sprintf("DIFF %v %v", err1, err2)
		}
		val, _ := jwt.NewValidator(&jwt.ValidatorOpts{AllowMissingExpiration: true, IgnoreIssuer: true})
		return hammer(iters/4+1, func(w, i int) string {
			iss := fmt.Sprintf("issuer-%d-%d", w, i)
			raw, _ := jwt.NewRawJWT(&jwt.RawJWTOptions{Issuer: &iss, WithoutExpiration: true})
			tok, err := s.SignAndEncode(raw)
			if err != nil {
				return err.Error()
			}
			vj, err := v.VerifyAndDecode(tok, val)
			if err != nil {
				return "concurrent VerifyAndDecode failed"
			}
			if got, _ := vj.Issuer(); got != iss {
				return "verified JWT carries another call's issuer"
			}
			return ""
		})
	case "derive":
		d, err := keyderivation.New(h)
		if err != nil {
			return "DIFF " + err.Error()
		}
		want := map[int]string{}
		for k := 0; k < 4; k++ {
			dh, _ := d.DeriveKeyset(msgFor(r, k, 1))
			want[k] = keysetBytes(dh)
		}
		return hammer(iters/4+1, func(w, i int) string {
			k := (w + i) % 4
			dh, err := d.DeriveKeyset(msgFor(r, k, 1))
			if err != nil || keysetBytes(dh) != want[k] {
				return "concurrently derived keyset differs from the sequential one"
			}
			return ""
		})
	}
	return "DIFF unknown class"
}

func keysetBytes(h *keyset.Handle) string {
	if h == nil {
		return "nil"
	}
	var b bytes.Buffer
	if err := insecurecleartextkeyset.Write(h, keyset.NewBinaryWriter(&b)); err != nil {
		return "err"
	}
	return string(b.Bytes())
}

// firstUse: a FRESH primitive per trial, used for the first time from all
// workers at once (released together); results compared with an oracle computed
// on a separately built primitive.  Catches unsynchronised lazy initialisation,
// which a warmed-up primitive never shows.
func firstUse(name string, trials int, r *hx.Rng) string {
	var t tmpl
	for _, x := range templates {
		if x.name == name {
			t = x
		}
	}
	h := handleFor(t)
	ad := []byte("associated data")
	m := msgFor(r, 2, 3)
	type prim struct {
		det func(in []byte) ([]byte, error)      // deterministic operation
		inv func(out, in []byte) ([]byte, error) // its inverse / verification (may be nil)
	}
	mk := func() (prim, error) {
		switch t.class {
		case "daead":
			p, err := daead.New(h)
			if err != nil {
				return prim{}, err
			}
			return prim{func(in []byte) ([]byte, error) { return p.EncryptDeterministically(in, ad) },
				func(out, in []byte) ([]byte, error) { return p.DecryptDeterministically(out, ad) }}, nil
		case "mac":
			p, err := mac.New(h)
			if err != nil {
				return prim{}, err
			}
			return prim{func(in []byte) ([]byte, error) { return p.ComputeMAC(in) },
				func(out, in []byte) ([]byte, error) { return in, p.VerifyMAC(out, in) }}, nil
		case "prf":
			p, err := prf.NewPRFSet(h)
			if err != nil {
				return prim{}, err
			}
			return prim{func(in []byte) ([]byte, error) { return p.ComputePrimaryPRF(in, 16) }, nil}, nil
		case "aead":
			p, err := aead.New(h)
			if err != nil {
				return prim{}, err
			}
			return prim{func(in []byte) ([]byte, error) {
				ct, err := p.Encrypt(in, ad)
				if err != nil {
					return nil, err
				}
				return p.Decrypt(ct, ad)
			}, nil}, nil
		}
		return prim{}, fmt.Errorf("class %s has no first-use case", t.class)
	}
	oracleP, err := mk()
	if err != nil {
		return "DIFF " + err.Error()
	}
	want, err := oracleP.det(m)
	if err != nil {
		return "DIFF " + err.Error()
	}
	for trial := 0; trial < trials; trial++ {
		p, err := mk()
		if err != nil {
			return "DIFF " + err.Error()
		}
		var wg sync.WaitGroup
		var ready sync.WaitGroup
		start := make(chan struct{})
		bad := make(chan string, workers)
		for w := 0; w < 8; w++ {
			wg.Add(1)
			ready.Add(1)
			go func() {
				defer wg.Done()
				defer func() {
					if e := recover(); e != nil {
						bad <- fmt.Sprint("panic: ", e)
					}
				}()
				ready.Done()
				<-start
				out, err := p.det(m)
				if err != nil || !bytes.Equal(out, want) {
					bad <- "first concurrent use of a fresh primitive gave a result that differs from the sequential one"
					return
				}
				if p.inv != nil {
					if back, err := p.inv(out, m); err != nil || !bytes.Equal(back, m) {
						bad <- "first concurrent use of a fresh primitive: inverse/verification failed"
					}
				}
			}()
		}
		ready.Wait()
		close(start)
		wg.Wait()
		select {
		case s := <-bad:
			return fmt.Sprintf("DIFF %s (trial %d)", s, trial)
		default:
		}
		// the instance must also be right afterwards
		if out, err := p.det(m); err != nil || !bytes.Equal(out, want) {
			return fmt.Sprintf("DIFF primitive permanently wrong after its first concurrent use (trial %d)", trial)
		}
	}
	return "ok"
}

// handle reads, primitive construction and registry lookups, concurrently
func runHandleReads(iters int, r *hx.Rng) string {
	t := templates[int(r.U64()%uint64(len(templates)))]
	h := handleFor(t)
	info0 := h.String()
	return hammer(iters, func(w, i int) string {
		if h.String() != info0 || h.Len() != 2 {
			return "handle info differs under concurrent reads"
		}
		e, err := h.Entry(i % 2)
		if err != nil || e.Key() == nil {
			return "Entry failed"
		}
		if p, err := h.Primary(); err != nil || !p.IsPrimary() {
			return "Primary failed"
		}
		switch t.class {
		case "aead":
			if _, err := aead.New(h); err != nil {
				return "concurrent aead.New failed: " + err.Error()
			}
		case "mac":
			if _, err := mac.New(h); err != nil {
				return "concurrent mac.New failed: " + err.Error()
			}
		case "sig", "hyb", "jwtsig", "prehash":
			if _, err := h.Public(); err != nil {
				return "concurrent Public failed: " + err.Error()
			}
		}
		if w%4 == 0 {
			if _, err := keyset.NewHandle(aead.AES128GCMKeyTemplate()); err != nil {
				return "concurrent NewHandle failed"
			}
		}
		return ""
	})
}

// raceLog returns the total size of the race detector's log files.
func raceLogSize() int64 {
	lp := ""
	for _, f := range strings.Fields(os.Getenv("GORACE")) {
		if strings.HasPrefix(f, "log_path=") {
			lp = strings.TrimPrefix(f, "log_path=")
		}
	}
	if lp == "" {
		return 0
	}
	ms, _ := filepath.Glob(lp + ".*")
	var n int64
	for _, m := range ms {
		if st, err := os.Stat(m); err == nil {
			n += st.Size()
		}
	}
	return n
}

// case lines: H|<template>|<iters>|<seed>   F|<template>|<trials>|<seed> (first use of fresh primitives)   R|<iters>|<seed>
func run(in string) string {
	f := strings.Split(in, "|")
	before := raceLogSize()
	var res string
	hx.RealRand(func() {
		switch f[0] {
		case "H":
			it, _ := strconv.Atoi(f[2])
			sd, _ := strconv.ParseUint(f[3], 10, 64)
			res = runTemplate(f[1], it, hx.NewRng(sd))
		case "F":
			it, _ := strconv.Atoi(f[2])
			sd, _ := strconv.ParseUint(f[3], 10, 64)
			res = firstUse(f[1], it, hx.NewRng(sd))
		case "R":
			it, _ := strconv.Atoi(f[1])
			sd, _ := strconv.ParseUint(f[2], 10, 64)
			res = runHandleReads(it, hx.NewRng(sd))
		default:
			res = "badcase"
		}
	})
	if raceLogSize() > before {
		return "RACE (data race reported by the Go race detector; see the race log) " + res
	}
	return res
}

func gen(r *hx.Rng, n int, tier string) []string {
	iters := 40
	if tier == "thorough" {
		iters = 400
	}
	var lines []string
	for rep := 0; rep < n; rep++ {
		for _, t := range templates {
			lines = append(lines, fmt.Sprintf("H|%s|%d|%d", t.name, iters, r.U64()%1000000))
		}
		for _, t := range templates {
			switch t.class {
			case "daead", "mac", "prf", "aead":
				lines = append(lines, fmt.Sprintf("F|%s|%d|%d", t.name, 8*iters, r.U64()%1000000))
			}
		}
		for k := 0; k < 4; k++ {
			lines = append(lines, fmt.Sprintf("R|%d|%d", iters, r.U64()%1000000))
		}
	}
	return lines
}

func check(in, obs string) string {
	if obs != "ok" {
		return "[" + strings.SplitN(in, "|", 3)[1] + "] " + obs
	}
	return ""
}

func class(in, obs string) string {
	f := strings.Split(in, "|")
	if f[0] == "H" || f[0] == "F" {
		return f[0] + ":" + f[1]
	}
	return "R:" + f[2]
}

func init() {
	hx.Register("C18", &hx.Prop{Gen: gen, Run: run, Check: check, Class: class})
}
