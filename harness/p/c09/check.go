package c09

import (
	"encoding/binary"
	"math/big"
	"strings"
	"time"
	"unicode/utf8"

	"github.com/tink-crypto/tink-go/v2/verifharness/hx"
	spb "google.golang.org/protobuf/types/known/structpb"
)

// The direct property oracle: a decision procedure written from the property
// text (not from the model), evaluated on what the harness itself decoded and
// verified with the standard library.

const tsMax = 253402300799

func isRegisteredName(k string) bool {
	switch k {
	case "iss", "sub", "jti", "aud", "exp", "nbf", "iat":
		return true
	}
	return false
}

// refOptsOK: the validator option rules.
func refOptsOK(o vo) (aud *string, ok bool) {
	aud = o.Aud
	if o.Auds != nil {
		if o.Aud != nil {
			return nil, false
		}
		aud = o.Auds
	}
	if (o.Typ != nil && o.IgnTyp) || (o.Iss != nil && o.IgnIss) || (aud != nil && o.IgnAud) {
		return nil, false
	}
	if o.Skew > int64(10*time.Minute) {
		return nil, false
	}
	return aud, true
}

func strField(m map[string]any, k string) (string, bool, bool) { // value, present, isString
	v, ok := m[k]
	if !ok {
		return "", false, false
	}
	s, isS := v.(string)
	return s, true, isS
}

// refPayloadOK: registered claims have their types, times are in range.
func refPayloadOK(pl map[string]any) bool {
	for _, k := range []string{"iss", "sub", "jti"} {
		if _, present, isS := strField(pl, k); present && !isS {
			return false
		}
	}
	for _, k := range []string{"exp", "nbf", "iat"} {
		if v, present := pl[k]; present {
			f, isN := v.(float64)
			if !isN || int64(f) < 0 || int64(f) > tsMax {
				return false
			}
		}
	}
	if v, present := pl["aud"]; present {
		switch a := v.(type) {
		case string:
		case []any:
			if len(a) == 0 {
				return false
			}
			for _, e := range a {
				if _, isS := e.(string); !isS {
					return false
				}
			}
		default:
			return false
		}
	}
	return true
}

func nsOf(sec int64) *big.Int { return new(big.Int).Mul(big.NewInt(sec), e9) }

// refValidate: the validator's typ / iss / aud / exp / nbf / iat / skew rules
// on a payload that passed refPayloadOK.
func refValidate(o vo, aud *string, typ *string, pl map[string]any) bool {
	lo := new(big.Int).Sub(o.Now, big.NewInt(o.Skew)) // now - skew
	hi := new(big.Int).Add(o.Now, big.NewInt(o.Skew)) // now + skew
	if v, ok := pl["exp"]; ok {
		if nsOf(int64(v.(float64))).Cmp(lo) <= 0 { // must be strictly after now - skew
			return false
		}
	} else if !o.AllowNoExp {
		return false
	}
	if v, ok := pl["nbf"]; ok && nsOf(int64(v.(float64))).Cmp(hi) > 0 {
		return false
	}
	if o.IatPast {
		v, ok := pl["iat"]
		if !ok || nsOf(int64(v.(float64))).Cmp(hi) > 0 {
			return false
		}
	}
	matrix := func(ignore bool, expected *string, present bool, matches func(string) bool) bool {
		if ignore {
			return true
		}
		if expected == nil {
			return !present
		}
		return present && matches(*expected)
	}
	if !matrix(o.IgnTyp, o.Typ, typ != nil, func(e string) bool { return *typ == e }) {
		return false
	}
	_, hasIss := pl["iss"]
	if !matrix(o.IgnIss, o.Iss, hasIss, func(e string) bool { return pl["iss"].(string) == e }) {
		return false
	}
	_, hasAud := pl["aud"]
	return matrix(o.IgnAud, aud, hasAud, func(e string) bool {
		switch a := pl["aud"].(type) {
		case string:
			return a == e
		case []any:
			for _, x := range a {
				if x.(string) == e {
					return true
				}
			}
		}
		return false
	})
}

func tinkKid(id uint32) string {
	var b [4]byte
	binary.BigEndian.PutUint32(b[:], id)
	return b64Enc(b[:])
}

// refHeaderOK: the header names exactly the key's algorithm, has no crit and
// satisfies the key's kid rule.
func refHeaderOK(d kd, hdr map[string]any) bool {
	alg, present, isS := strField(hdr, "alg")
	if !present || !isS || alg != d.Alg {
		return false
	}
	if _, crit := hdr["crit"]; crit {
		return false
	}
	kid, hasKid, kidIsS := strField(hdr, "kid")
	switch d.Kid {
	case 'T':
		return hasKid && kidIsS && kid == tinkKid(d.ID)
	case 'C':
		return !hasKid || (kidIsS && kid == d.CustomKid)
	}
	return true
}

// refVerify returns badopts | rej | ok for a V line.
func refVerify(keys []kd, o vo, tok, sv, hp, pp string) string {
	aud, ok := refOptsOK(o)
	if !ok {
		return "badopts"
	}
	if strings.Count(tok, ".") != 2 || sv == "~" || hp == "~" || pp == "~" {
		return "rej"
	}
	svp := strings.Split(sv, ":")
	if svp[0] == "-" { // empty signature
		return "rej"
	}
	hc := hp[strings.Index(hp, "=")+1:]
	pc := pp[strings.Index(pp, "=")+1:]
	if hc == "!" || pc == "!" {
		return "rej"
	}
	hdr, pl := canonToMap(hc), canonToMap(pc)
	keyOK := false
	for i, d := range keys {
		if d.Enabled && svp[1][i] == '1' && refHeaderOK(d, hdr) {
			keyOK = true
		}
	}
	if !keyOK {
		return "rej"
	}
	var typ *string
	if t, present, isS := strField(hdr, "typ"); present {
		if !isS {
			return "rej"
		}
		typ = &t
	}
	if !refPayloadOK(pl) || !refValidate(o, aud, typ, pl) {
		return "rej"
	}
	return "ok"
}

// jResult strips the "priv=... jwk=... " prefix of a J observation.
func jResult(obs string) string {
	if strings.HasPrefix(obs, "priv=") {
		if p := strings.SplitN(obs, " ", 3); len(p) == 3 {
			return p[2]
		}
	}
	return obs
}

func outcome(obs string) string {
	obs = jResult(obs)
	if strings.HasPrefix(obs, "ok ") {
		return "ok"
	}
	return obs
}

// expected payload of NewRawJWT(opts) as canonical text, or "" when the
// options must be refused.
func refRawPayload(o ro) (string, bool) {
	var custom map[string]any
	if o.Custom != "~" {
		custom = canonToMap(o.Custom)
	}
	for k := range custom {
		if isRegisteredName(k) {
			return "", false
		}
	}
	if (o.Exp == nil) != o.NoExp {
		return "", false
	}
	if o.Aud != nil && o.HasAuds {
		return "", false
	}
	if o.HasAuds && len(o.Auds) == 0 {
		return "", false
	}
	m := map[string]any{}
	for k, v := range custom {
		m[k] = v
	}
	for k, p := range map[string]*string{"iss": o.Iss, "sub": o.Sub, "jti": o.Jti, "aud": o.Aud} {
		if p != nil {
			if !utf8.ValidString(*p) {
				return "", false
			}
			m[k] = *p
		}
	}
	if o.HasAuds {
		var l []any
		for _, a := range o.Auds {
			if !utf8.ValidString(a) {
				return "", false
			}
			l = append(l, a)
		}
		m["aud"] = l
	}
	for k, p := range map[string]*int64{"iat": o.Iat, "exp": o.Exp, "nbf": o.Nbf} {
		if p != nil {
			if *p < 0 || *p > tsMax {
				return "", false
			}
			m[k] = float64(*p)
		}
	}
	// custom claim values go through structpb.NewValue (which refuses invalid
	// UTF-8 inside the value); the top-level names are not checked here
	s := &spb.Struct{Fields: map[string]*spb.Value{}}
	for k, v := range m {
		val, err := spb.NewValue(v)
		if err != nil {
			return "", false
		}
		s.Fields[k] = val
	}
	return canonOf(s), true
}

func check(in, obs string) string {
	if strings.HasPrefix(obs, "PANIC") || strings.HasPrefix(obs, "SETUP-FAIL") {
		return obs
	}
	f := strings.Split(in, "|")
	tag := f[len(f)-1]
	switch f[1] {
	case "X":
		return checkX(f, obs)
	case "I":
		return checkI(f, obs)
	case "V", "J":
		keys, o, tok := parseKeys(f[3]), parseVO(f[4]), string(hx.UH(f[5]))
		got := outcome(obs)
		if i := strings.LastIndex(tag, ":"); i >= 0 {
			if want := map[string]string{"A": "ok", "R": "rej", "B": "badopts"}[tag[i+1:]]; want != "" && want != got {
				return "by construction this token must give " + want + ", implementation gave " + got
			}
		}
		if f[1] == "V" {
			if want := refVerify(keys, o, tok, f[6], f[7], f[8]); want != got {
				return "property-text decision procedure says " + want + ", implementation gave " + got
			}
			if got == "ok" {
				// the returned claims are exactly the signed payload (and typ header)
				pc := f[8][strings.Index(f[8], "=")+1:]
				if !strings.HasSuffix(obs, ";pl="+pc) {
					return "returned payload differs from the signed payload " + pc
				}
				hdr := canonToMap(f[7][strings.Index(f[7], "=")+1:])
				wantTyp := "typ=~;"
				if t, present, _ := strField(hdr, "typ"); present {
					wantTyp = "typ=" + hx.H([]byte(t)) + ";"
				}
				if !strings.HasPrefix(obs, "ok "+wantTyp) {
					return "returned type header differs from the signed header, want " + wantTyp
				}
			}
			return ""
		}
		// J: JWK export refuses the private keyset, and whatever the public
		// keyset accepts is accepted with the same claims after export + import
		if !strings.HasPrefix(obs, "priv=refused ") {
			return "JWK export did not refuse the private keyset: " + obs[:20]
		}
		// the JWK set has one entry per ENABLED key, in order, naming its
		// algorithm and its kid (key-ID-derived or custom; none otherwise)
		var want []string
		for _, d := range keys {
			if !d.Enabled {
				continue
			}
			kid := "~"
			if d.Kid == 'T' {
				kid = hx.H([]byte(tinkKid(d.ID)))
			} else if d.Kid == 'C' {
				kid = hx.H([]byte(d.CustomKid))
			}
			want = append(want, d.Alg+"."+kid)
		}
		if got := strings.SplitN(obs, " ", 3)[1]; got != "jwk="+strings.Join(want, ",") {
			return "exported JWK set is " + got + ", want jwk=" + strings.Join(want, ",")
		}
		vf, _, err := verifierOf("S", keys, false)
		if err != nil {
			return "SETUP-FAIL " + err.Error()
		}
		direct := verifyObs(vf, o, tok)
		if outcome(direct) == "ok" && jResult(obs) != direct {
			return "public keyset gives " + direct[:2] + " but after JWK export/import: " + jResult(obs)
		}
		return ""
	case "E":
		d, r, o := parseKD(f[3]), parseRO(f[4]), parseVO(f[5])
		pc, rawOK := refRawPayload(r)
		if !rawOK {
			if obs != "rawerr" {
				return "NewRawJWT must refuse these options, got " + obs
			}
			return ""
		}
		if obs == "rawerr" {
			return "NewRawJWT refused valid options"
		}
		signOK := (r.Typ == nil || utf8.ValidString(*r.Typ)) && (d.Kid != 'C' || utf8.ValidString(d.CustomKid))
		if r.Custom != "~" {
			for k := range canonToMap(r.Custom) {
				signOK = signOK && utf8.ValidString(k)
			}
		}
		if !signOK {
			if obs != "signerr" {
				return "encoding must fail (invalid UTF-8 cannot be JSON), got " + obs
			}
			return ""
		}
		if !strings.HasPrefix(obs, "tok h=") {
			return "encoding failed for a valid raw JWT: " + obs
		}
		hm := map[string]any{"alg": d.Alg}
		if r.Typ != nil {
			hm["typ"] = *r.Typ
		}
		if d.Kid == 'T' {
			hm["kid"] = tinkKid(d.ID)
		} else if d.Kid == 'C' {
			hm["kid"] = d.CustomKid
		}
		hs, _ := spb.NewStruct(hm)
		want := "tok h=" + canonOf(hs) + ";p=" + pc + ";sig=1;mut=rej;"
		if !strings.HasPrefix(obs, want) {
			return "produced token does not carry exactly the given header/claims with a valid signature that a bit flip invalidates; want prefix " + want
		}
		res := obs[len(want):]
		aud, okOpts := refOptsOK(o)
		wantRes := "badopts"
		if okOpts {
			wantRes = "rej"
			if refValidate(o, aud, r.Typ, canonToMap(pc)) {
				wantRes = "ok"
			}
		}
		if outcome(res) != wantRes {
			return "round trip: validator rules say " + wantRes + ", implementation gave " + outcome(res)
		}
		if wantRes == "ok" {
			wantTyp := "typ=" + optS(r.Typ) + ";"
			if !strings.HasPrefix(res, "ok "+wantTyp) || !strings.HasSuffix(res, ";pl="+pc) {
				return "round trip did not return the claims that were signed"
			}
		}
		return ""
	}
	return ""
}
