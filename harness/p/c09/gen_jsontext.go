package c09

import (
	"encoding/json"
	"fmt"
	"math/big"
	"strconv"
	"strings"

	"github.com/tink-crypto/tink-go/v2/verifharness/hx"
)

// The JSON TEXT stream: tokens whose header or payload text, and JWK sets
// whose text, are mostly valid JSON with ONE thing wrong (or one exotic but
// valid thing).  The signature is always valid for the text as written, so the
// verdict depends on the text layer alone: what structpb.Struct.UnmarshalJSON
// (protojson) accepts, and what it makes of it.  The model parses the bytes
// itself (coq/model/Json.v); the tag carries the verdict that RFC 8259 plus
// the documented protojson rules (duplicate names refused, UTF-8 validated,
// recursion limit 10000, numbers must fit a float64) give by construction:
//
//	jt-<h|p|k|s>-<family>[:A|:R]
//	   h = header text, p = payload text, k = key object of a JWK set, s = JWK set text
type jtSnip struct {
	fam   string // family (class of the case)
	text  string // one member  "name":value  as raw bytes
	valid bool   // the object it is added to stays an acceptable Struct
	free  bool   // no verdict by construction (valid = what the implementation does)
}

// f64Over = 2^1024 - 2^970: the smallest magnitude that rounds to +Inf;
// f64Under5 = 5^1075: f64Under5 * 10^-1075 = 2^-1075, the largest magnitude that rounds to 0.
var f64Over = new(big.Int).Sub(new(big.Int).Lsh(big.NewInt(1), 1024), new(big.Int).Lsh(big.NewInt(1), 970))
var f64Under5 = new(big.Int).Exp(big.NewInt(5), big.NewInt(1075), nil)

func bigPlus(x *big.Int, d int64) string { return new(big.Int).Add(x, big.NewInt(d)).String() }

type jtWhole struct {
	fam   string
	f     func(t string) string // applied to a valid object text
	valid bool
}

func nestArr(n int, inner string) string {
	return strings.Repeat("[", n) + inner + strings.Repeat("]", n)
}

func nestObj(n int, inner string) string {
	return strings.Repeat(`{"a":`, n) + inner + strings.Repeat("}", n)
}

var jtSnipsCache []jtSnip

// jtSnips: every member-level manipulation.  "x" is a fresh name.
func jtSnips() []jtSnip {
	if jtSnipsCache != nil {
		return jtSnipsCache
	}
	var s []jtSnip
	add := func(fam string, valid bool, texts ...string) {
		for _, t := range texts {
			s = append(s, jtSnip{fam, t, valid, false})
		}
	}
	// duplicate member names below the top level
	add("dup-depth2", false, `"x":{"a":1,"a":2}`, `"x":{"a":1,"a":1}`, `"x":[{"b":null,"b":null}]`, `"x":{"a":1,"b":2,"c":3,"a":4}`,
		`"x":{"a":1,"\u0061":2}`, `"x":{"":1,"":2}`, `"x":{"\u00e9":1,"`+"\xc3\xa9"+`":2}`, `"x":{"\ud83d\ude00":1,"`+"\xf0\x9f\x98\x80"+`":2}`)
	add("dup-depth3", false, `"x":{"y":{"z":[{"k":1,"k":2}]}}`, `"x":[[[{"exp":1,"exp":1}]]]`, `"x":{"alg":{"alg":{"alg":1,"alg":2}}}`)
	add("nodup", true, `"x":{"a":1,"A":2}`, `"x":[{"a":1},{"a":2}]`, `"x":{"x":{"x":1}}`, `"x":{"a":1,"a ":2}`, `"x":{"exp":1,"alg":2,"aud":3}`)
	// UTF-8
	for _, b := range []string{"\xff", "a\xc3", "\xed\xa0\x80", "\xc0\xaf", "\xf4\x90\x80\x80", "\xe2\x82", "\x80", "\xf8\x88\x80\x80\x80", "\xc3\x28", "\xe0\x80\xaf", "\xf0\x80\x80\xaf"} {
		add("utf8-bad-name", false, `"x`+b+`":1`)
		add("utf8-bad-value", false, `"x":"`+b+`"`, `"x":["ok","v`+b+`"]`, `"x":{"k":"`+b+`z"}`)
	}
	add("utf8-exotic", true, `"x":"`+"\xef\xbf\xbd"+`"`, `"x":"`+"\xf4\x8f\xbf\xbf"+`"`, `"x":"`+"\x7f"+`"`, `"`+"\xc3\xa9"+`":"`+"\xf0\x9f\x98\x80"+`"`,
		`"x":"`+"\xef\xbb\xbf"+`"`, `"x":"`+"\xe2\x80\xa8\xc2\xa0"+`"`, `"x":"`+"\xed\x9f\xbf\xee\x80\x80"+`"`, `"x":"`+"\xf0\x90\x80\x80\xdf\xbf\xe0\xa0\x80"+`"`)
	// \u escapes and surrogates
	add("surrogate-pair", true, `"x":"\ud83d\ude00"`, `"x":"\uD83D\uDE00"`, `"x":"a\udbff\udfffb"`, `"\ud83d\ude00":1`, `"x":"\ud800\udc00"`, `"x":["\ud83d\ude00\ud83d\ude00"]`)
	add("surrogate-lone", false, `"x":"\ud83d"`, `"x":"\ude00"`, `"x":"\ud83d\ud83d"`, `"x":"\ude00\ud83d"`, `"x":"\ud83dabcdef"`, `"x":"\ud83d\n12345"`,
		`"x":"\ud83d\u0041"`, `"x":"\udfff"`, `"x":"\ud800"`, `"x":"\ud83d\\ude00"`, `"x":"\ud83d\ude0"`, `"x":"\ud83d\uDE0G"`, `"\ud83d":1`, `"x":"\ud83d \ude00"`)
	add("u-escape", true, `"x":"\u0000"`, `"x":"\u00e9"`, `"x":"\u00E9\u20AC"`, `"x":"\uffff"`, `"x":"\ufffd"`, `"x":"\u007f\u0080\u07ff\u0800"`, `"\u0078":1`, `"x":"\ud7ff\ue000"`, `"x":"\u0022\u005c"`)
	add("u-escape-bad", false, `"x":"\u12"`, `"x":"\u12G4"`, `"x":"\u 123"`, `"x":"\u+123"`, `"x":"\u-123"`, `"x":"\u"`, `"x":"\u123`, `"x":"\U0041"`, `"x":"\u00_1"`, `"x":"\u0x41"`)
	add("escape-simple", true, `"x":"\""`, `"x":"\\"`, `"x":"\/"`, `"x":"\b"`, `"x":"\f"`, `"x":"\n"`, `"x":"\r"`, `"x":"\t"`, `"x":"\"\\\/\b\f\n\r\t"`, `"\n\t":"\\n"`, `"x":"\\u0041"`, `"x":"/"`)
	add("escape-bad", false, `"x":"\a"`, `"x":"\v"`, `"x":"\0"`, `"x":"\x41"`, `"x":"\'"`, `"x":"\ "`, `"x":"\N"`, `"x":"\`+"\n"+`"`, `"x":"\`, `"x":"\"`, `"x":"\B"`, `"x":"\e"`)
	for _, c := range []byte{0, 1, 8, 9, 10, 11, 12, 13, 27, 31} {
		add("control-raw", false, `"x":"a`+string([]byte{c})+`b"`)
	}
	add("control-raw", false, "\"x\x01\":1", "\"x\":[\"\t\"]")
	// numbers.  Families whose name contains "numx": EVERY literal is decided by the
	// model itself (coq/model/Json.v lit_class: the value is an integer below 2^53
	// in whatever spelling, is zero, rounds to zero, or is out of the float64
	// range); the OCaml handler fails if the float oracle is consulted on such a
	// case.  The other number families reach the oracle (strconv.ParseFloat).
	add("numx-int", true, `"x":1700003600.0`, `"x":17000036e2`, `"x":1.7000036e9`, `"x":1.7000036E+9`, `"x":170000360000e-2`, `"x":0.00000017000036e16`,
		`"x":1e5`, `"x":1E+5`, `"x":1e3`, `"x":100e-2`, `"x":-12.50e1`, `"x":1E0`, `"x":1e+0`, `"x":1.0`, `"x":1.5e3`, `"x":1e0001`, `"x":1e-0`, `"x":0.1e1`, `"x":1e1`, `"x":1e15`,
		`"x":100000e-5`, `"x":9007199254740991`, `"x":-9007199254740991`, `"x":9007199254740991.0`, `"x":900719925474099.1e1`, `"x":-9007199254740991e0`, `"x":9007199254740.991e3`,
		`"x":9.007199254740991e15`, `"x":-0.9007199254740991E+16`, `"x":1700000000`, `"x":1`+strings.Repeat("0", 300)+`e-300`, `"x":0.`+strings.Repeat("0", 300)+`1e301`,
		`"x":123456789.000000000000000000000000000000`, `"x":[1.0,2.00,3e0,4E+0,5e-0,-6.0e0]`, `"x":1`+strings.Repeat("0", 799)+`e-799`, `"x":4503599627370496.0`)
	add("numx-zero", true, `"x":0`, `"x":-0`, `"x":0.0`, `"x":-0.0`, `"x":0e0`, `"x":0e99999999999999999999`, `"x":-0e-5`, `"x":0.000e+7`, `"x":1e-400`, `"x":-1e-400`, `"x":2.4e-324`,
		`"x":1e-9999`, `"x":-123e-9999`, `"x":0.000e-99999999999999999999`, `"x":0.`+strings.Repeat("0", 400)+`1`, `"x":[0,-0,0.0,-0.0,0e5,-0e-5]`,
		// 2^-1075 exactly (a tie: rounds to the even mantissa 0) and just below
		`"x":`+f64Under5.String()+`e-1075`, `"x":-`+bigPlus(f64Under5, -1)+`e-1075`, `"x":0.`+strings.Repeat("0", 323)+f64Under5.String(),
		`"x":0.`+strings.Repeat("0", 323)+bigPlus(f64Under5, -1)+strings.Repeat("9", 200))
	add("numx-range", false, `"x":1e400`, `"x":-1e400`, `"x":1.8e308`, `"x":1.7976931348623159e308`, `"x":1e309`, `"x":1`+strings.Repeat("0", 400), `"x":-1`+strings.Repeat("0", 309),
		`"x":[1,1e9999]`, `"x":0.1e310`, `"x":-5E+401`, `"x":17976931348623159`+strings.Repeat("0", 292)+`.5`,
		// 2^1024 - 2^970 exactly (a tie: rounds to the even mantissa 2^53, i.e. to infinity) and just above
		`"x":`+f64Over.String(), `"x":-`+f64Over.String()+`.0`, `"x":`+f64Over.String()+`e0`, `"x":`+bigPlus(f64Over, 1), `"x":`+f64Over.String()+`.`+strings.Repeat("0", 900)+`1`,
		`"x":`+f64Over.String()+`0e-1`, `"x":0.`+f64Over.String()+`e309`)
	add("number-ok", true, `"x":1e-5`,
		`"x":9007199254740992`, `"x":9007199254740993`, `"x":-9007199254740992`, `"x":-9007199254740993`,
		`"x":123456789012345678901234567890`, `"x":1e308`, `"x":-1e308`, `"x":1.7976931348623157e308`, `"x":4.9e-324`, `"x":2.5e-324`, `"x":0.1`,
		`"x":-9223372036854775808`, `"x":9223372036854775807`, `"x":9223372036854775808`, `"x":10000000000000000`,
		`"x":0.`+strings.Repeat("0", 300)+`1`, `"x":0.30000000000000004`,
		`"x":1.0000000000000002`, `"x":0.1000000000000000055511151231257827`, `"x":9007199254740992.5`, `"x":4503599627370496.5`, `"x":1e22`, `"x":1e23`, `"x":1.5`, `"x":-2.5e-1`,
		// the neighbours of the two float64 boundaries that are NOT decided by the model
		`"x":1.7976931348623158e308`, `"x":`+bigPlus(f64Over, -1), `"x":`+bigPlus(f64Over, -1)+`.`+strings.Repeat("9", 900), `"x":`+bigPlus(f64Under5, 1)+`e-1075`,
		`"x":0.`+strings.Repeat("0", 323)+f64Under5.String()+strings.Repeat("0", 200)+`1`, `"x":9007199254740991.5`, `"x":900719925474099.15e1`,
		`"x":17976931348623158`+strings.Repeat("0", 292)+`.5`)
	// an exponent of magnitude >= 10000 on a non-zero mantissa: strconv.ParseFloat
	// accumulates the exponent with  if e < 10000 { e = e*10 + d }  and so DROPS its
	// digits from there on; a literal with ~100000 leading fraction zeros and an
	// exponent >= 100000 is read as 0 although its value is an ordinary number.
	// The model leaves every such literal to the oracle, i.e. follows strconv
	// (number-long-exp; the ~100 KB texts are kept to a handful).  The short ones
	// (true value out of range / underflow, read by Go as such) go the same way.
	for _, t := range []string{`"x":1e10000`, `"x":1e99999999999999999999`, `"x":[1,1e999999999]`, `"x":-2.5E+10000`} {
		s = append(s, jtSnip{"number-long-exp-range", t, false, false})
	}
	for _, t := range []string{`"x":1e-10000`, `"x":1e-99999999999999999999`, `"x":-123e-99999999999999999999`, `"x":0.1e-100000`,
		`"x":0.` + strings.Repeat("0", 9999) + `1e10000`, `"x":0.` + strings.Repeat("0", 12344) + `17000036e12354`} {
		s = append(s, jtSnip{"number-long-exp", t, true, true})
	}
	// (family name with the prefix "large": placed like the other 30 KB+ snippets)
	for _, t := range []string{`"x":0.` + strings.Repeat("0", 99999) + `1e100000`, `"x":0.` + strings.Repeat("0", 100000) + `17000036e100010`} {
		s = append(s, jtSnip{"large-number-long-exp", t, true, true})
	}
	// an integer part of more than 800 digits: strconv.ParseFloat (go1.25.11; also 1.23.5, 1.26.8) drops the
	// excess digits of its 800-digit buffer WITHOUT moving the decimal point when its
	// fast paths do not apply, so the first is read as 1.7000036e-100 instead of
	// 1700003600.00..01 and the second (true value 2e309, out of range) as 2e209.
	// The model leaves these literals to the oracle, i.e. follows strconv.
	for _, t := range []string{`"x":17000036` + strings.Repeat("0", 900) + `1e-899`, `"x":2` + strings.Repeat("0", 898) + `1e-590`, `"x":1` + strings.Repeat("0", 900),
		`"x":1` + strings.Repeat("0", 800) + `e-800`, `"x":3` + strings.Repeat("0", 800) + `e-1124`, `"x":9007199254740993` + strings.Repeat("0", 900) + `1e-901`} {
		s = append(s, jtSnip{"number-long-int", t, true, true})
	}
	// null and the literals
	add("null-literal", true, `"x":null`, `"x":[null,[null],{"n":null}]`, `"x":true`, `"x":false`, `"x":[true,false,null]`, `"null":null`, `"true":false`)
	add("literal-bad", false, `"x":nul`, `"x":nulll`, `"x":NULL`, `"x":Null`, `"x":True`, `"x":tru`, `"x":truefalse`, `"x":true1`, `"x":false_`, `"x":nu ll`, `"x":n`, `"x":none`, `"x":undefined`,
		`"x":fals`, `"x":FALSE`, `"x":null.`, `"x":true-`, `"x":[nulltrue]`, `"x":t`, `"x":f`)
	// nesting
	add("nested", true, `"x":[[[]]]`, `"x":{"a":{"b":{"c":[1,[2,[3]]]}}}`, `"x":[{},[],""]`, `"x":{}`, `"":{"":[]}`, `"x":[[],[[]],[[],[]]]`, `"x":{"a":[],"b":{},"c":[{}]}`,
		`"x":`+nestArr(300, ""), `"x":`+nestObj(300, "{}"), `"x":`+nestArr(150, `{"k":`+nestArr(150, "0")+`}`))
	// structure
	add("syntax-bad", false, `"x":`, `"x"`, `"x" 1`, `"x"::1`, `"x":1:2`, `:1`, `x:1`, `'x':1`, `"x":[1,]`, `"x":[,1]`, `"x":[1 2]`, `"x":[1,,2]`, `"x":{"a":1,}`, `"x":{,}`, `"x":[1}`, `"x":{"a":1]`,
		`"x":[`, `"x":"unterminated`, `"x":/*c*/1`, `"x":1//c`, `"x":[1,2]]`, `"x":{"a"}`, `"x":{"a":}`, `"x":{1:2}`, `"x":{null:1}`, `"x":[1;2]`, `"x"=1`, `"x":(1)`, `"x":<1>`, `"x":{"a":1 "b":2}`,
		`"x":["a" "b"]`, `"x":[1,2`, `"x":{"a":[}]`, `"x":1,`, `,"x":1`, `"x":1,,"y":2`, `"x":1;"y":2`, `"x":"a""b"`, `"x":[1]2`, `"x":{}{}`, `x`, `"x":'a'`, "\"x\":`a`")
	// whitespace inside a member
	add("ws-ok", true, `"x" : 1`, "\"x\"\t:\n[\r1 , 2\t]\n", "\"x\":{ \"a\" :\t1 ,\r\n\"b\":[ ] }", " \"x\" : \"  \" ", "\n\n\"x\":\t\tnull", `"x":"   "`, "\"x\":[\n]", "\"x\":{\r}")
	add("ws-bad", false, "\"x\":\f1", "\"x\":\v1", "\"x\":\xc2\xa01", "\"x\":\xe2\x80\xa81", "\"x\":\xef\xbb\xbf1", "\"x\":1\x00", "\"x\"\f:1", "\"x\":[1,\v2]", "\"x\":\x1c1", "\"x\":\x851", "\"x\":\xe3\x80\x801",
		"\f\"x\":1", "\"x\":1\v", "\x00\"x\":1", "\"x\":\xe2\x80\x8b1")
	// recursion limit of protojson: a Value at depth d (members of the top-level object are depth 1) needs d <= 9999
	add("depth-in", true, `"x":`+nestArr(9998, ""), `"x":`+nestArr(9999, ""), `"x":`+nestArr(9998, "1"), `"x":`+nestObj(9998, "{}"), `"x":`+nestObj(9997, `{"b":null}`),
		`"x":`+nestArr(4999, nestObj(4999, `[]`)), `"x":[`+nestArr(9998, "")+`,`+nestArr(9998, "")+`]`)
	add("depth-out", false, `"x":`+nestArr(10000, ""), `"x":`+nestArr(10001, ""), `"x":`+nestArr(9999, "1"), `"x":`+nestArr(9999, `""`), `"x":`+nestObj(9999, "{}"), `"x":`+nestObj(9998, `{"b":null}`),
		`"x":`+nestArr(5000, nestObj(4999, `[]`)), `"x":[1,`+nestArr(9999, "")+`]`, `"x":`+nestArr(20000, ""), `"x":{"ok":1,"deep":`+nestArr(9998, `[]`)+`}`)
	// large
	var many, manyDup strings.Builder
	for i := 0; i < 1500; i++ {
		if i > 0 {
			many.WriteString(",")
		}
		fmt.Fprintf(&many, `"k%d":%d`, i, i)
	}
	manyDup.WriteString(many.String() + `,"k7":7`)
	var arr strings.Builder
	for i := 0; i < 3000; i++ {
		if i > 0 {
			arr.WriteString(",")
		}
		arr.WriteString(strconv.Itoa(i * 7919))
	}
	add("large", true, `"x":"`+strings.Repeat("a", 30000)+`"`, `"x":[`+arr.String()+`]`, `"x":{`+many.String()+`}`, `"x":"`+strings.Repeat(`\u00e9`, 4000)+`"`, `"x":"`+strings.Repeat("\xf0\x9f\x98\x80", 5000)+`"`,
		`"x":[`+strings.Repeat(`{"a":[null]},`, 2000)+`{}]`, `"`+strings.Repeat("n", 20000)+`":0`)
	add("large-bad", false, `"x":{`+manyDup.String()+`}`, `"x":"`+strings.Repeat("a", 30000)+"\xff"+`"`, `"x":[`+arr.String()+`,]`, `"x":"`+strings.Repeat(`\u00e9`, 4000)+`\ud800"`)
	jtSnipsCache = s
	return s
}

// jtWholes: manipulations of a whole (valid) object text.
func jtWholes() []jtWhole {
	pre := func(p string) func(string) string { return func(t string) string { return p + t } }
	suf := func(p string) func(string) string { return func(t string) string { return t + p } }
	con := func(p string) func(string) string { return func(string) string { return p } }
	var w []jtWhole
	add := func(fam string, valid bool, fs ...func(string) string) {
		for _, f := range fs {
			w = append(w, jtWhole{fam, f, valid})
		}
	}
	add("ws-around", true, pre(" "), pre("\n\r\t "), suf(" "), suf("\r\n"), suf("\t\t\n"), func(t string) string { return "\t" + t + "\n" }, suf(strings.Repeat(" ", 5000)))
	add("ws-not-json", false, pre("\f"), pre("\v"), suf("\f"), suf("\v"), pre("\xef\xbb\xbf"), suf("\xef\xbb\xbf"), pre("\xc2\xa0"), suf("\xe2\x80\xa8"), suf("\x00"), pre("\x00"), suf("\x1a"), pre("\xfe\xff"))
	add("trailing-garbage", false, suf("x"), suf("}"), suf("{}"), suf(","), suf("null"), suf(" null"), suf("[]"), suf(`"a"`), suf("1"), suf(" 1"), suf(":"), suf("]"), suf("\xff"), suf("\n}"),
		func(t string) string { return t + t }, func(t string) string { return t + " " + t }, func(t string) string { return t + "," + t }, suf("//"), suf("/**/"), suf("#"), suf(";"))
	add("empty-text", false, con(""), con(" "), con("\n"), con("\t\r\n "), con("\xef\xbb\xbf"))
	add("top-level-not-object", false, con("[]"), func(t string) string { return "[" + t + "]" }, con(`"x"`), con("1"), con("0"), con("-1.5e3"), con("null"), con("true"), con("false"), func(t string) string { return jq(t) },
		con(`[{"alg":"HS256"}]`), con(`"{}"`), con("[[]]"), con(`""`), con(" null "))
	add("truncated", false, func(t string) string { return t[:len(t)-1] }, func(t string) string { return t[1:] }, func(t string) string { return t[:len(t)/2] }, func(t string) string { return "{" + t + "}" },
		func(t string) string { return "{" + t }, func(t string) string { return t[:len(t)-1] + "]" }, func(t string) string { return "[" + t[1:] }, con("{"), con("}"), con("{]"), con(`{"`), con(`{"a`), con(`{"a"`), con(`{"a":`),
		func(t string) string { return strings.Replace(t, ":", "=", 1) }, func(t string) string { return strings.Replace(t, `"`, `'`, 2) }, func(t string) string { return strings.Replace(t, `"`, ``, 2) },
		func(t string) string { return strings.ToUpper(t[:1]) + t[1:] + "\x00" }, con("\xff"), con("{\xff}"))
	return w
}

// the four JSON whitespace bytes, drawn at every token boundary of a rendering
func (g *G) jtWs() string {
	if g.r.Chance(70) {
		return ""
	}
	n := 1 + g.r.Intn(3)
	var b []byte
	for i := 0; i < n; i++ {
		b = append(b, " \t\n\r"[g.r.Intn(4)])
	}
	return string(b)
}

// jtRender: members -> object text; spaced = random JSON whitespace between tokens.
func (g *G) jtRender(members []string, spaced bool) string {
	ws := func() string {
		if spaced {
			return g.jtWs()
		}
		return ""
	}
	var sb strings.Builder
	sb.WriteString(ws() + "{" + ws())
	for i, m := range members {
		if i > 0 {
			sb.WriteString(ws() + "," + ws())
		}
		sb.WriteString(m)
	}
	sb.WriteString(ws() + "}" + ws())
	return sb.String()
}

// jtWrap puts a member deeper: inside objects / arrays under a fresh name
// (duplicates, bad bytes and syntax errors count at any depth).
func (g *G) jtWrap(member string, levels int) string {
	for i := 0; i < levels; i++ {
		if g.r.Chance(50) {
			member = `"w` + strconv.Itoa(i) + `":{"p":0,` + member + `,"q":[]}`
		} else {
			member = `"w` + strconv.Itoa(i) + `":[1,{` + member + `},"z"]`
		}
	}
	return member
}

func insertAt(ms []string, i int, m string) []string {
	out := append([]string{}, ms[:i]...)
	out = append(out, m)
	return append(out, ms[i:]...)
}

func expectTag(valid bool) string {
	if valid {
		return ":A"
	}
	return ":R"
}

// jtKey: a key whose family is cheap to sign with most of the time.
func (g *G) jtKey() (kd, bool) {
	alg := hx.PickS(g.r, []string{"HS256", "HS256", "HS384", "HS512", "ES256", "ES256", "ES384", "RS256", "PS256"})
	d := g.key(g.keyID(), alg)
	d.Enabled, d.Primary = true, true
	return d, isMACAlg(alg)
}

func (g *G) jtBase(d kd, now int64) (hdr, pl []string) {
	hdr = []string{`"alg":` + jq(d.Alg)}
	if k := correctKid(d); k != "" {
		hdr = append(hdr, `"kid":`+k)
	}
	pl = []string{`"exp":` + strconv.FormatInt(now+3600, 10), `"iss":"issuer"`, `"aud":["a1","a2"]`}
	return
}

func (g *G) jtLine(d kd, mac bool, where byte, fam, hdrText, plText, expect string) string {
	now := int64(baseNow)
	tok := g.assemble(d, hdrText, plText, b64Enc, b64Enc, b64Enc)
	return lineV("V", prim(mac), []kd{d}, easyValidator(now), tok, "jt-"+string(where)+"-"+fam+expect)
}

// jtSnipCase: snippet sn added to the header or payload of a token of key d.
func (g *G) jtSnipCase(d kd, mac bool, where byte, sn jtSnip, levels int, spaced bool) string {
	hdr, pl := g.jtBase(d, baseNow)
	m := sn.text
	if levels > 0 {
		m = g.jtWrap(m, levels)
	}
	fam := sn.fam
	if levels > 0 {
		fam += "-deeper"
	}
	// a snippet is valid only where its name is fresh; whitespace rendering keeps validity
	if where == 'h' {
		hdr = insertAt(hdr, g.r.Intn(len(hdr)+1), m)
	} else {
		pl = insertAt(pl, g.r.Intn(len(pl)+1), m)
	}
	expect := expectTag(sn.valid)
	if sn.free {
		expect = ""
	}
	return g.jtLine(d, mac, where, fam, g.jtRender(hdr, spaced && where == 'h'), g.jtRender(pl, spaced && where == 'p'), expect)
}

// jtClaimCases: manipulations of the registered members themselves.
type jtClaim struct {
	fam    string
	where  byte
	edit   func(hdr, pl []string, d kd) ([]string, []string)
	expect string // "" = decided by the claim rules (the property-text oracle judges)
}

func jtClaims() []jtClaim {
	var c []jtClaim
	setM := func(ms []string, name, val string) []string {
		out := []string{}
		found := false
		for _, m := range ms {
			if strings.HasPrefix(m, `"`+name+`":`) {
				out = append(out, `"`+name+`":`+val)
				found = true
			} else {
				out = append(out, m)
			}
		}
		if !found {
			out = append(out, `"`+name+`":`+val)
		}
		return out
	}
	getM := func(ms []string, name string) string {
		for _, m := range ms {
			if strings.HasPrefix(m, `"`+name+`":`) {
				return m[len(name)+3:]
			}
		}
		return ""
	}
	// duplicates at depth 1, spelled the same, escaped, with equal and with different values
	for _, name := range []string{"exp", "aud", "iss"} {
		name := name
		esc := `\u00` + fmt.Sprintf("%02x", name[0]) + name[1:]
		for i, mk := range []func(v string) string{
			func(v string) string { return `"` + name + `":` + v },
			func(v string) string { return `"` + esc + `":` + v },
			func(v string) string { return `"` + name + `":null` },
			func(v string) string { return `"` + name + `":"other"` },
		} {
			mk, i := mk, i
			c = append(c, jtClaim{"dup-depth1-" + name, 'p', func(h, p []string, d kd) ([]string, []string) {
				dup := mk(getM(p, name))
				if i%2 == 0 {
					return h, append(append([]string{}, p...), dup)
				}
				return h, append([]string{dup}, p...)
			}, ":R"})
		}
	}
	for _, name := range []string{"alg", "kid", "typ"} {
		name := name
		esc := `\u00` + fmt.Sprintf("%02x", name[0]) + name[1:]
		for i, form := range []string{name, esc} {
			form, i := form, i
			c = append(c, jtClaim{"dup-depth1-" + name, 'h', func(h, p []string, d kd) ([]string, []string) {
				v := getM(h, name)
				if v == "" {
					v = `"JWT"`
					h = append(append([]string{}, h...), `"`+name+`":`+v)
				}
				dup := `"` + form + `":` + v
				if i == 0 {
					return append(append([]string{}, h...), dup), p
				}
				return append([]string{dup}, h...), p
			}, ":R"})
		}
	}
	// a name spelled with escapes IS the name
	c = append(c, jtClaim{"escaped-name", 'h', func(h, p []string, d kd) ([]string, []string) {
		return append([]string{`"\u0061l\u0067":` + jq(d.Alg)}, h[1:]...), p
	}, ":A"})
	c = append(c, jtClaim{"escaped-name", 'p', func(h, p []string, d kd) ([]string, []string) {
		return h, append([]string{`"e\u0078p":` + getM(p, "exp")}, p[1:]...)
	}, ":A"})
	c = append(c, jtClaim{"escaped-name", 'p', func(h, p []string, d kd) ([]string, []string) {
		return h, append(append([]string{}, p...), `"\u006ebf":"not a number"`)
	}, ":R"})
	// null for every registered name
	for _, name := range []string{"iss", "sub", "jti", "aud", "exp", "nbf", "iat"} {
		name := name
		c = append(c, jtClaim{"null-claim-" + name, 'p', func(h, p []string, d kd) ([]string, []string) { return h, setM(p, name, "null") }, ":R"})
	}
	c = append(c, jtClaim{"null-claim-aud-element", 'p', func(h, p []string, d kd) ([]string, []string) { return h, setM(p, "aud", `["a1",null]`) }, ":R"})
	c = append(c, jtClaim{"null-claim-aud-element", 'p', func(h, p []string, d kd) ([]string, []string) { return h, setM(p, "aud", `[null]`) }, ":R"})
	for _, name := range []string{"alg", "typ", "crit"} {
		name := name
		c = append(c, jtClaim{"null-header-" + name, 'h', func(h, p []string, d kd) ([]string, []string) { return setM(h, name, "null"), p }, ":R"})
	}
	c = append(c, jtClaim{"null-header-kid", 'h', func(h, p []string, d kd) ([]string, []string) { return setM(h, "kid", "null"), p }, ""})
	// containers where a registered claim wants a scalar
	for _, name := range []string{"iss", "sub", "jti", "exp", "nbf", "iat"} {
		for _, v := range []string{`{"a":1}`, `["x"]`, `[]`, `{}`, `[[1]]`} {
			name, v := name, v
			c = append(c, jtClaim{"container-claim", 'p', func(h, p []string, d kd) ([]string, []string) { return h, setM(p, name, v) }, ":R"})
		}
	}
	for _, v := range []string{`[["a"]]`, `{"a":"b"}`, `[{"a":"b"}]`, `["a",["b"]]`, `{}`, `[[]]`} {
		v := v
		c = append(c, jtClaim{"container-claim", 'p', func(h, p []string, d kd) ([]string, []string) { return h, setM(p, "aud", v) }, ":R"})
	}
	// number spellings of a timestamp (the claim rules decide).  numx-claim: the
	// value is an integer below 2^53 / zero / an underflow, decided by the model
	// in every spelling (the float oracle must not be consulted); number-claim:
	// not an integer, or from 2^53 up: the oracle's answer decides the verdict
	for _, v := range []string{"1700003600.0", "17000036e2", "1.7000036e9", "1700003600e0", "1.7000036E+9", "170000360000e-2", "0.17000036E10", "-0", "0.0", "1e-400", "253402300799",
		"253402300800", "2534023008e2", "253402300799.0", "2534023007.99e2", "25340230080e1", "1699999999.0", "17e8", "1.7e9", "1700000001e0", "9007199254740991.0"} {
		v := v
		for _, name := range []string{"exp", "nbf", "iat"} {
			name := name
			c = append(c, jtClaim{"numx-claim", 'p', func(h, p []string, d kd) ([]string, []string) { return h, setM(p, name, v) }, ""})
		}
	}
	for _, v := range []string{"1700003600.9", "1700003600.5", "253402300799.9", "1e30", "9007199254740993", "-1e-7", "1699999999.999999999", "1.7000000005e9", "0.5"} {
		v := v
		for _, name := range []string{"exp", "nbf", "iat"} {
			name := name
			c = append(c, jtClaim{"number-claim", 'p', func(h, p []string, d kd) ([]string, []string) { return h, setM(p, name, v) }, ""})
		}
	}
	// outside the digit budget of the model's exact decisions: the oracle decides,
	// and what strconv reads is NOT the value of the literal (both are the auditor's
	// instances: nbf is read as 0 and the token accepted although the value is
	// 9.9e10; exp is read as 0 and the token refused although the value is 1700003600)
	c = append(c, jtClaim{"number-long-exp-claim", 'p', func(h, p []string, d kd) ([]string, []string) {
		return h, setM(p, "nbf", "0."+strings.Repeat("0", 100000)+"99e100011")
	}, ""})
	c = append(c, jtClaim{"number-long-exp-claim", 'p', func(h, p []string, d kd) ([]string, []string) {
		return h, setM(p, "exp", "0."+strings.Repeat("0", 100000)+"17000036e100010")
	}, ""})
	c = append(c, jtClaim{"number-long-exp-claim", 'p', func(h, p []string, d kd) ([]string, []string) {
		return h, setM(p, "exp", "17e999999999")
	}, ":R"})
	// refused without the oracle: syntax, or out of the float64 range
	for _, v := range []string{"01700003600", "+1700003600", "1700003600.", "1e400", "NaN", "Infinity", "0x6553F100", "1_700_003_600", "1700003600e", "17000036e+", "17e9999", "-1.8e308"} {
		v := v
		c = append(c, jtClaim{"numx-claim-bad", 'p', func(h, p []string, d kd) ([]string, []string) { return h, setM(p, "exp", v) }, ":R"})
	}
	return c
}

// directedJSONText: every snippet once in a payload and once in a header,
// every whole-text manipulation on both, every registered-member manipulation.
func directedJSONText() []string {
	g := &G{r: hx.NewRng(20260927), pool: map[string][]string{}}
	hs := kd{ID: 0x0a0b0c0d, Enabled: true, Primary: true, Alg: "HS256", Kid: 'T', Mat: g.material("HS256")}
	es := kd{ID: 77, Enabled: true, Primary: true, Alg: "ES256", Kid: 'C', CustomKid: "custom-kid", Mat: g.material("ES256")}
	var out []string
	for i, sn := range jtSnips() {
		heavy := strings.HasPrefix(sn.fam, "depth") || strings.HasPrefix(sn.fam, "large")
		d, mac := hs, true
		if i%5 == 4 && !heavy {
			d, mac = es, false
		}
		out = append(out, g.jtSnipCase(d, mac, 'p', sn, 0, false))
		if !heavy || i%2 == 0 {
			out = append(out, g.jtSnipCase(d, mac, 'h', sn, 0, false))
		}
	}
	for i, wh := range jtWholes() {
		d, mac := hs, true
		if i%4 == 3 {
			d, mac = es, false
		}
		hdr, pl := g.jtBase(d, baseNow)
		ht, pt := g.jtRender(hdr, false), g.jtRender(pl, false)
		out = append(out, g.jtLine(d, mac, 'p', wh.fam, ht, wh.f(pt), expectTag(wh.valid)))
		out = append(out, g.jtLine(d, mac, 'h', wh.fam, wh.f(ht), pt, expectTag(wh.valid)))
	}
	for i, c := range jtClaims() {
		d, mac := hs, true
		if i%3 == 2 {
			d, mac = es, false
		}
		hdr, pl := g.jtBase(d, baseNow)
		hdr, pl = c.edit(hdr, pl, d)
		out = append(out, g.jtLine(d, mac, c.where, c.fam, g.jtRender(hdr, false), g.jtRender(pl, false), c.expect))
	}
	// the JWK set text: whole-text manipulations and a sample of the snippets in a key object and in the set
	jd := kd{ID: 5, Enabled: true, Primary: true, Alg: "ES256", Kid: 'I', Mat: g.material("ES256")}
	for _, wh := range jtWholes() {
		out = append(out, lineI(wh.f(setText(jwkOf(jd))), "jt-s-"+wh.fam+expectTag(wh.valid)))
	}
	for i, sn := range jtSnips() {
		if strings.HasPrefix(sn.fam, "large") || (strings.HasPrefix(sn.fam, "depth") && i%3 != 0) {
			continue
		}
		if i%2 == 0 {
			out = append(out, g.jtJWK(jd, 'k', sn, false))
		} else {
			out = append(out, g.jtJWK(jd, 's', sn, false))
		}
	}
	return out
}

// jtJWK: a JWK set text with snippet sn in the key object ('k') or in the set ('s').
func (g *G) jtJWK(d kd, where byte, sn jtSnip, spaced bool) string {
	kb, err := json.Marshal(jwkOf(d))
	if err != nil {
		panic(err)
	}
	key := string(kb)
	if where == 'k' && strings.HasPrefix(sn.text, `"x"`) { // "x" is a member of an EC key object
		sn.text = `"xx"` + sn.text[3:]
	}
	var text string
	ws := func() string {
		if spaced {
			return g.jtWs()
		}
		return ""
	}
	if where == 'k' {
		// depth of the snippet's value: set 0, "keys" list 1, key object 2, member 3
		if g.r.Chance(50) {
			key = "{" + ws() + sn.text + ws() + "," + key[1:]
		} else {
			key = key[:len(key)-1] + ws() + "," + ws() + sn.text + "}"
		}
		text = ws() + `{"keys"` + ws() + `:` + ws() + `[` + key + `]` + ws() + `}` + ws()
	} else if g.r.Chance(50) {
		text = `{` + sn.text + ws() + `,"keys":[` + key + `]}`
	} else {
		text = `{"keys":[` + key + `],` + ws() + sn.text + ws() + `}`
	}
	expect := ""
	if !sn.valid && !sn.free {
		expect = ":R"
	}
	// the recursion budget is counted from the top of the text: two levels deeper inside a key object
	if where == 'k' && strings.HasPrefix(sn.fam, "depth") {
		expect = ""
	}
	return lineI(text, "jt-"+string(where)+"-"+sn.fam+expect)
}

// jsonTextCase: a random manipulation, random placement (header / payload,
// position among the members, 0..3 levels deeper), random JSON whitespace.
func (g *G) jsonTextCase() string {
	r := g.r
	snips := jtSnips()
	light := func() jtSnip {
		for {
			sn := snips[r.Intn(len(snips))]
			if strings.HasPrefix(sn.fam, "large") || strings.HasPrefix(sn.fam, "depth") {
				if !r.Chance(8) {
					continue
				}
			}
			return sn
		}
	}
	where := byte('p')
	if r.Chance(45) {
		where = 'h'
	}
	switch k := r.Intn(20); {
	case k < 11:
		d, mac := g.jtKey()
		sn := light()
		levels := 0
		if r.Chance(40) && !strings.HasPrefix(sn.fam, "depth") {
			levels = 1 + r.Intn(3)
		}
		return g.jtSnipCase(d, mac, where, sn, levels, r.Chance(50))
	case k < 14:
		d, mac := g.jtKey()
		whs := jtWholes()
		wh := whs[r.Intn(len(whs))]
		hdr, pl := g.jtBase(d, baseNow)
		ht, pt := g.jtRender(hdr, r.Chance(30)), g.jtRender(pl, r.Chance(30))
		if where == 'h' {
			ht = wh.f(ht)
		} else {
			pt = wh.f(pt)
		}
		return g.jtLine(d, mac, where, wh.fam, ht, pt, expectTag(wh.valid))
	case k < 16:
		d, mac := g.jtKey()
		cs := jtClaims()
		c := cs[r.Intn(len(cs))]
		hdr, pl := g.jtBase(d, baseNow)
		hdr, pl = c.edit(hdr, pl, d)
		return g.jtLine(d, mac, c.where, c.fam, g.jtRender(hdr, r.Chance(50)), g.jtRender(pl, r.Chance(50)), c.expect)
	case k < 17: // two valid exotic snippets and whitespace everywhere: still accepted
		d, mac := g.jtKey()
		hdr, pl := g.jtBase(d, baseNow)
		n := 0
		for n < 2 {
			sn := light()
			if !sn.valid || sn.free || !strings.HasPrefix(sn.text, `"x":`) {
				continue
			}
			m := `"x` + strconv.Itoa(n) + sn.text[2:]
			if where == 'h' {
				hdr = insertAt(hdr, r.Intn(len(hdr)+1), m)
			} else {
				pl = insertAt(pl, r.Intn(len(pl)+1), m)
			}
			n++
		}
		return g.jtLine(d, mac, where, "two-valid-exotic", g.jtRender(hdr, true), g.jtRender(pl, true), ":A")
	default:
		d := g.key(g.keyID(), hx.PickS(r, sigAlgs))
		w := byte('k')
		if r.Chance(40) {
			w = 's'
		}
		if r.Chance(25) {
			whs := jtWholes()
			wh := whs[r.Intn(len(whs))]
			return lineI(wh.f(setText(jwkOf(d))), "jt-s-"+wh.fam+expectTag(wh.valid))
		}
		return g.jtJWK(d, w, light(), r.Chance(50))
	}
}
