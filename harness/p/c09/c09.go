// Package c09: JWT verification accepts exactly validly signed, rule-conforming tokens.
//
// Case lines ('|' separated):
//
//	C09|V|<M|S>|<keys>|<vopts>|<token hex>|<sv>|<hp>|<pp>|<tag>
//	    verify the token with jwt.NewMAC (M) / jwt.NewVerifier on the public
//	    keyset (S) built from <keys> (see keys.go) and a validator from <vopts>
//	C09|J|S|<keys>|<vopts>|<token hex>|<sv>|<hp>|<pp>|<tag>
//	    same, but the public keyset first goes through JWKSetFromPublicKeysetHandle
//	    and JWKSetToPublicKeysetHandle; JWK export of the private keyset must fail
//	C09|E|<M|S>|<key>|<rawopts>|<vopts>|<tag>
//	    NewRawJWT(rawopts), ComputeMACAndEncode / SignAndEncode with the key,
//	    inspect the produced token, verify it (and a signature-mutated copy)
//
//	vopts   typ;iss;aud;auds;ignTyp;ignAud;ignIss;allowNoExp;iatPast;skew_ns;now_ns
//	        (strings: ~ = nil, else hex with - = empty; auds = deprecated ExpectedAudiences)
//	rawopts typ;aud;auds;sub;iss;jti;iat;exp;nbf;withoutExp;custom
//	        (auds: ~ | L | L<hex>:<hex>..; times: ~ | seconds; custom: ~ | canonical object)
//	sv      what the harness computed with the standard library only:
//	        <sig hex>:<one 0/1 per key: sig valid for the text before the last dot>, or ~
//	hp, pp  <decoded bytes hex>=<canonical parse | !> of the header / payload part, or ~
//	        (the parse is what structpb.Struct.UnmarshalJSON said; the model parses the
//	        bytes ITSELF - coq/model/Json.v - and its parse is compared with this one on
//	        every case; the direct oracle reads this one)
//	tag     generator name and, when known by construction, the expected outcome
//
// Which lines give TEXT to the model's JSON parser: V and J lines (hp, pp: the
// decoded header / payload bytes) and I lines (the JWK set text).  E and X
// lines do not (E: the model prints and reparses its own text; X: jwk= is a
// comparison of parsed values); the text Tink produces for them travels on the
// accompanying lines the generator emits: etok-* (a V line with the token the
// real encoder made of the E case) and xtext-* (an I line with the text
// JWKSetFromPublicKeysetHandle emitted for the X keyset).  -0 and 0 are
// identified on both sides (json.go canonNumber; coq/model/Json.v).
//
//	C09|X|..., C09|I|...   JWK export / import on key material: see jwk.go
//
// Observation: badopts | rej | ok typ=..;iss=..;sub=..;jti=..;aud=..;exp=..;nbf=..;iat=..;pl=<canonical payload>
// (J: prefixed with "priv=refused jwk=<alg.kid,...> "; E: rawerr | signerr | tok h=..;p=..;sig=1;mut=rej;<verify result>).
package c09

import (
	"fmt"
	"math/big"
	"strconv"
	"strings"
	"time"

	"github.com/tink-crypto/tink-go/v2/jwt"
	"github.com/tink-crypto/tink-go/v2/verifharness/hx"
	spb "google.golang.org/protobuf/types/known/structpb"
)

func init() {
	hx.Register("C09", &hx.Prop{Gen: gen, Run: run, Check: check, Class: class})
}

// ---- optional strings ----
func optS(p *string) string {
	if p == nil {
		return "~"
	}
	return hx.H([]byte(*p))
}
func parseOptS(s string) *string {
	if s == "~" {
		return nil
	}
	v := string(hx.UH(s))
	return &v
}
func b01(b bool) string {
	if b {
		return "1"
	}
	return "0"
}

// ---- validator options ----
type vo struct {
	Typ, Iss, Aud, Auds                          *string
	IgnTyp, IgnAud, IgnIss, AllowNoExp, IatPast bool
	Skew                                         int64    // ns
	Now                                          *big.Int // ns since the Unix epoch
}

func (o vo) String() string {
	return strings.Join([]string{optS(o.Typ), optS(o.Iss), optS(o.Aud), optS(o.Auds), b01(o.IgnTyp), b01(o.IgnAud), b01(o.IgnIss),
		b01(o.AllowNoExp), b01(o.IatPast), strconv.FormatInt(o.Skew, 10), o.Now.String()}, ";")
}

func parseVO(s string) vo {
	f := strings.Split(s, ";")
	if len(f) != 11 {
		panic("bad vopts " + s)
	}
	sk, _ := strconv.ParseInt(f[9], 10, 64)
	now, ok := new(big.Int).SetString(f[10], 10)
	if !ok {
		panic("bad now")
	}
	return vo{parseOptS(f[0]), parseOptS(f[1]), parseOptS(f[2]), parseOptS(f[3]), f[4] == "1", f[5] == "1", f[6] == "1", f[7] == "1", f[8] == "1", sk, now}
}

var e9 = big.NewInt(1000000000)

func (o vo) fixedNow() time.Time {
	sec, nsec := new(big.Int).DivMod(o.Now, e9, new(big.Int))
	return time.Unix(sec.Int64(), nsec.Int64())
}

func (o vo) opts() *jwt.ValidatorOpts {
	return &jwt.ValidatorOpts{ExpectedTypeHeader: o.Typ, ExpectedIssuer: o.Iss, ExpectedAudience: o.Aud, ExpectedAudiences: o.Auds,
		IgnoreTypeHeader: o.IgnTyp, IgnoreAudiences: o.IgnAud, IgnoreIssuer: o.IgnIss,
		AllowMissingExpiration: o.AllowNoExp, ExpectIssuedInThePast: o.IatPast,
		ClockSkew: time.Duration(o.Skew), FixedNow: o.fixedNow()}
}

// ---- raw JWT options ----
type ro struct {
	Typ, Aud           *string
	Auds               []string
	HasAuds            bool
	Sub, Iss, Jti      *string
	Iat, Exp, Nbf      *int64
	NoExp              bool
	Custom             string // "~" or canonical object
}

func optT(p *int64) string {
	if p == nil {
		return "~"
	}
	return strconv.FormatInt(*p, 10)
}
func parseOptT(s string) *int64 {
	if s == "~" {
		return nil
	}
	v, err := strconv.ParseInt(s, 10, 64)
	if err != nil {
		panic(err)
	}
	return &v
}

func (o ro) String() string {
	auds := "~"
	if o.HasAuds {
		var p []string
		for _, a := range o.Auds {
			p = append(p, hx.H([]byte(a)))
		}
		auds = "L" + strings.Join(p, ":")
	}
	return strings.Join([]string{optS(o.Typ), optS(o.Aud), auds, optS(o.Sub), optS(o.Iss), optS(o.Jti), optT(o.Iat), optT(o.Exp), optT(o.Nbf), b01(o.NoExp), o.Custom}, ";")
}

func parseRO(s string) ro {
	f := strings.Split(s, ";")
	if len(f) != 11 {
		panic("bad rawopts " + s)
	}
	o := ro{Typ: parseOptS(f[0]), Aud: parseOptS(f[1]), Sub: parseOptS(f[3]), Iss: parseOptS(f[4]), Jti: parseOptS(f[5]),
		Iat: parseOptT(f[6]), Exp: parseOptT(f[7]), Nbf: parseOptT(f[8]), NoExp: f[9] == "1", Custom: f[10]}
	if f[2] != "~" {
		o.HasAuds = true
		o.Auds = []string{}
		if f[2] != "L" {
			for _, a := range strings.Split(f[2][1:], ":") {
				o.Auds = append(o.Auds, string(hx.UH(a)))
			}
		}
	}
	return o
}

func (o ro) opts() *jwt.RawJWTOptions {
	t := func(p *int64) *time.Time {
		if p == nil {
			return nil
		}
		v := time.Unix(*p, 0)
		return &v
	}
	r := &jwt.RawJWTOptions{Audience: o.Aud, Subject: o.Sub, Issuer: o.Iss, JWTID: o.Jti, IssuedAt: t(o.Iat), ExpiresAt: t(o.Exp), NotBefore: t(o.Nbf),
		TypeHeader: o.Typ, WithoutExpiration: o.NoExp}
	if o.HasAuds {
		r.Audiences = o.Auds
	}
	if o.Custom != "~" {
		r.CustomClaims = canonToMap(o.Custom)
	}
	return r
}

// ---- observation of a verified token ----
func claims(v *jwt.VerifiedJWT) string {
	var sb strings.Builder
	str := func(name string, has bool, get func() (string, error)) {
		sb.WriteString(name + "=")
		if !has {
			sb.WriteString("~")
		} else if s, err := get(); err != nil {
			sb.WriteString("!")
		} else {
			sb.WriteString(hx.H([]byte(s)))
		}
		sb.WriteString(";")
	}
	tm := func(name string, has bool, get func() (time.Time, error)) {
		sb.WriteString(name + "=")
		if !has {
			sb.WriteString("~")
		} else if t, err := get(); err != nil {
			sb.WriteString("!")
		} else {
			sb.WriteString(strconv.FormatInt(t.Unix(), 10))
		}
		sb.WriteString(";")
	}
	str("typ", v.HasTypeHeader(), v.TypeHeader)
	str("iss", v.HasIssuer(), v.Issuer)
	str("sub", v.HasSubject(), v.Subject)
	str("jti", v.HasJWTID(), v.JWTID)
	sb.WriteString("aud=")
	if !v.HasAudiences() {
		sb.WriteString("~")
	} else if a, err := v.Audiences(); err != nil {
		sb.WriteString("!")
	} else {
		var p []string
		for _, x := range a {
			p = append(p, hx.H([]byte(x)))
		}
		sb.WriteString("L" + strings.Join(p, ":"))
	}
	sb.WriteString(";")
	tm("exp", v.HasExpiration(), v.ExpiresAt)
	tm("nbf", v.HasNotBefore(), v.NotBefore)
	tm("iat", v.HasIssuedAt(), v.IssuedAt)
	pl, err := v.JSONPayload()
	if err != nil {
		sb.WriteString("pl=!")
	} else {
		sb.WriteString("pl=" + parseObject(pl))
	}
	return sb.String()
}

type verifyFn func(tok string, v *jwt.Validator) (*jwt.VerifiedJWT, error)

// verifierOf builds the keyset primitive that verifies (MAC keyset, or the
// public keyset of a signature keyset, optionally through a JWK round trip).
func verifierOf(prim string, keys []kd, viaJWK bool) (verifyFn, string, error) {
	if prim == "M" {
		h, err := buildHandle(keys, true)
		if err != nil {
			return nil, "", err
		}
		m, err := jwt.NewMAC(h)
		if err != nil {
			return nil, "", err
		}
		return m.VerifyMACAndDecode, "", nil
	}
	note := ""
	h, err := buildHandle(keys, false)
	if err != nil {
		return nil, "", err
	}
	if viaJWK {
		priv, err := buildHandle(keys, true)
		if err != nil {
			return nil, "", err
		}
		if _, err := jwt.JWKSetFromPublicKeysetHandle(priv); err == nil {
			note = "priv=EXPORTED "
		} else {
			note = "priv=refused "
		}
		pub, err := priv.Public()
		if err != nil {
			return nil, "", err
		}
		js, err := jwt.JWKSetFromPublicKeysetHandle(pub)
		if err != nil {
			return nil, "", fmt.Errorf("jwk export: %v", err)
		}
		note += "jwk=" + jwkShape(js) + " "
		if h, err = jwt.JWKSetToPublicKeysetHandle(js); err != nil {
			return nil, "", fmt.Errorf("jwk import: %v", err)
		}
	}
	v, err := jwt.NewVerifier(h)
	if err != nil {
		return nil, "", err
	}
	return v.VerifyAndDecode, note, nil
}

// jwkShape: the exported JWK set as  alg.kid,alg.kid,...  (kid: hex or ~).
func jwkShape(js []byte) string {
	st := &spb.Struct{}
	if err := st.UnmarshalJSON(js); err != nil {
		return "!"
	}
	var out []string
	for _, k := range st.GetFields()["keys"].GetListValue().GetValues() {
		f := k.GetStructValue().GetFields()
		kid := "~"
		if v, ok := f["kid"]; ok {
			kid = hx.H([]byte(v.GetStringValue()))
		}
		out = append(out, f["alg"].GetStringValue()+"."+kid)
	}
	return strings.Join(out, ",")
}

func verifyObs(vf verifyFn, o vo, tok string) string {
	val, err := jwt.NewValidator(o.opts())
	if err != nil {
		return "badopts"
	}
	vj, err := vf(tok, val)
	if err != nil {
		return "rej"
	}
	return "ok " + claims(vj)
}

func run(in string) string {
	f := strings.Split(in, "|")
	switch f[1] {
	case "V", "J":
		keys := parseKeys(f[3])
		vf, note, err := verifierOf(f[2], keys, f[1] == "J")
		if err != nil {
			return "SETUP-FAIL " + err.Error()
		}
		return note + verifyObs(vf, parseVO(f[4]), string(hx.UH(f[5])))
	case "E":
		return runE(f)
	case "X":
		return runX(f)
	case "I":
		return runI(f)
	}
	return "SETUP-FAIL unknown kind"
}

func runE(f []string) string {
	d := parseKD(f[3])
	raw, err := jwt.NewRawJWT(parseRO(f[4]).opts())
	if err != nil {
		return "rawerr"
	}
	priv, err := buildHandle([]kd{d}, true)
	if err != nil {
		return "SETUP-FAIL " + err.Error()
	}
	var tok string
	if f[2] == "M" {
		m, err := jwt.NewMAC(priv)
		if err != nil {
			return "SETUP-FAIL " + err.Error()
		}
		tok, err = m.ComputeMACAndEncode(raw)
		if err != nil {
			return "signerr"
		}
	} else {
		s, err := jwt.NewSigner(priv)
		if err != nil {
			return "SETUP-FAIL " + err.Error()
		}
		tok, err = s.SignAndEncode(raw)
		if err != nil {
			return "signerr"
		}
	}
	vf, _, err := verifierOf(f[2], []kd{d}, false)
	if err != nil {
		return "SETUP-FAIL " + err.Error()
	}
	parts := strings.Split(tok, ".")
	if len(parts) != 3 {
		return "tok MALFORMED " + tok
	}
	hb, ok1 := b64Lenient(parts[0])
	pb, ok2 := b64Lenient(parts[1])
	sg, ok3 := b64Lenient(parts[2])
	if !ok1 || !ok2 || !ok3 || b64Enc(hb) != parts[0] || b64Enc(pb) != parts[1] || b64Enc(sg) != parts[2] {
		return "tok NONCANONICAL " + tok
	}
	o := parseVO(f[5])
	// a copy with one signature bit flipped must be rejected
	mut := append([]byte(nil), sg...)
	mut[len(mut)/2] ^= 0x10
	mutTok := parts[0] + "." + parts[1] + "." + b64Enc(mut)
	mres := "acc"
	if r := verifyObs(vf, o, mutTok); r == "rej" || r == "badopts" {
		mres = "rej"
	}
	return fmt.Sprintf("tok h=%s;p=%s;sig=%s;mut=%s;%s", parseObject(hb), parseObject(pb),
		b01(sigValid(d, sg, []byte(parts[0]+"."+parts[1]))), mres, verifyObs(vf, o, tok))
}

// ---- an independent lenient base64url codec (harness side) ----
const b64abc = "ABCDEFGHIJKLMNOPQRSTUVWXYZabcdefghijklmnopqrstuvwxyz0123456789-_"

func b64Enc(b []byte) string {
	var sb strings.Builder
	for i := 0; i < len(b); i += 3 {
		n := len(b) - i
		var v uint32 = uint32(b[i]) << 16
		if n > 1 {
			v |= uint32(b[i+1]) << 8
		}
		if n > 2 {
			v |= uint32(b[i+2])
		}
		sb.WriteByte(b64abc[v>>18&63])
		sb.WriteByte(b64abc[v>>12&63])
		if n > 1 {
			sb.WriteByte(b64abc[v>>6&63])
		}
		if n > 2 {
			sb.WriteByte(b64abc[v&63])
		}
	}
	return sb.String()
}

// b64Lenient: alphabet only, no padding, length mod 4 != 1, unused trailing
// bits ignored.
func b64Lenient(s string) ([]byte, bool) {
	if len(s)%4 == 1 {
		return nil, false
	}
	var out []byte
	var acc uint32
	nb := 0
	for i := 0; i < len(s); i++ {
		v := strings.IndexByte(b64abc, s[i])
		if v < 0 {
			return nil, false
		}
		acc = acc<<6 | uint32(v)
		nb += 6
		if nb >= 8 {
			nb -= 8
			out = append(out, byte(acc>>uint(nb)))
			acc &= 1<<uint(nb) - 1
		}
	}
	if out == nil {
		out = []byte{}
	}
	return out, true
}

// annotate computes the sv, hp, pp fields of a V/J line for a token.
func annotate(keys []kd, tok string) (sv, hp, pp string) {
	sv, hp, pp = "~", "~", "~"
	i := strings.LastIndex(tok, ".")
	if i < 0 {
		return
	}
	unsigned := tok[:i]
	if sg, ok := b64Lenient(tok[i+1:]); ok {
		bits := ""
		for _, d := range keys {
			bits += b01(sigValid(d, sg, []byte(unsigned)))
		}
		sv = hx.H(sg) + ":" + bits
	}
	parts := strings.Split(unsigned, ".")
	if len(parts) >= 1 {
		if hb, ok := b64Lenient(parts[0]); ok {
			hp = hx.H(hb) + "=" + parseObject(hb)
		}
	}
	if len(parts) >= 2 {
		if pb, ok := b64Lenient(parts[1]); ok {
			pp = hx.H(pb) + "=" + parseObject(pb)
		}
	}
	return
}

func lineV(kind, prim string, keys []kd, o vo, tok, tag string) string {
	sv, hp, pp := annotate(keys, tok)
	return strings.Join([]string{"C09", kind, prim, keysString(keys), o.String(), hx.H([]byte(tok)), sv, hp, pp, tag}, "|")
}

func lineE(prim string, d kd, r ro, o vo, tag string) string {
	return strings.Join([]string{"C09", "E", prim, d.String(), r.String(), o.String(), tag}, "|")
}

func class(in, obs string) string {
	f := strings.Split(in, "|")
	if f[1] == "X" || f[1] == "I" {
		return classJWK(f, obs)
	}
	res := obs
	if i := strings.IndexAny(obs, " "); i > 0 {
		res = obs[:i]
	}
	if strings.HasPrefix(res, "priv=") {
		if p := strings.SplitN(obs, " ", 4); len(p) >= 3 {
			res = p[2]
		}
	}
	if f[1] == "E" && strings.HasPrefix(obs, "tok ") {
		j := strings.Index(obs, "mut=")
		res = "tok:" + strings.SplitN(obs[j+8:], " ", 2)[0]
	}
	tag := f[len(f)-1]
	if i := strings.Index(tag, ":"); i >= 0 {
		tag = tag[:i]
	}
	if strings.HasPrefix(tag, "jt-") { // JSON text layer: one class per (place, family, outcome)
		return "T/" + tag[3:] + "/" + res
	}
	alg := ""
	if ks := parseKeys(f[3]); len(ks) > 0 {
		alg = ks[0].Alg[:2] + string(ks[0].Kid)
	}
	return f[1] + "/" + tag + "/" + alg + "/" + res
}
