package c09

import (
	"math"
	"sort"
	"strconv"
	"strings"

	"github.com/tink-crypto/tink-go/v2/verifharness/hx"
	spb "google.golang.org/protobuf/types/known/structpb"
)

// Canonical text of a JSON value, shared with the OCaml handler.  Tokens
// joined by ',' in pre-order:
//
//	n            null
//	t | f        booleans
//	s<hex>       string (UTF-8 bytes; "s-" = empty)
//	d<t>x<hex>   number: t = int64(value) (Go conversion), hex = shortest
//	             decimal text of the value, "-" when the value is an integer
//	             below 2^53 in magnitude (then t is the value)
//	a<n>         array, followed by its n elements
//	o<n>         object, followed by n pairs  k<hex> value  in bytewise key order
func canonNumber(f float64) string {
	t := int64(f)
	repr := "-"
	if !(f == math.Trunc(f) && math.Abs(f) < 1<<53) {
		repr = hx.H([]byte(strconv.FormatFloat(f, 'g', -1, 64)))
	}
	return "d" + strconv.FormatInt(t, 10) + "x" + repr
}

func canonValue(v *spb.Value, out *[]string) {
	switch k := v.GetKind().(type) {
	case *spb.Value_NullValue:
		*out = append(*out, "n")
	case *spb.Value_BoolValue:
		if k.BoolValue {
			*out = append(*out, "t")
		} else {
			*out = append(*out, "f")
		}
	case *spb.Value_NumberValue:
		*out = append(*out, canonNumber(k.NumberValue))
	case *spb.Value_StringValue:
		*out = append(*out, "s"+hx.H([]byte(k.StringValue)))
	case *spb.Value_ListValue:
		vs := k.ListValue.GetValues()
		*out = append(*out, "a"+strconv.Itoa(len(vs)))
		for _, e := range vs {
			canonValue(e, out)
		}
	case *spb.Value_StructValue:
		canonStruct(k.StructValue, out)
	default:
		*out = append(*out, "n")
	}
}

func canonStruct(s *spb.Struct, out *[]string) {
	f := s.GetFields()
	keys := make([]string, 0, len(f))
	for k := range f {
		keys = append(keys, k)
	}
	sort.Strings(keys)
	*out = append(*out, "o"+strconv.Itoa(len(keys)))
	for _, k := range keys {
		*out = append(*out, "k"+hx.H([]byte(k)))
		canonValue(f[k], out)
	}
}

func canonOf(s *spb.Struct) string {
	var out []string
	canonStruct(s, &out)
	return strings.Join(out, ",")
}

// parseObject is structpb.Struct.UnmarshalJSON: the canonical text, or "!"
// when the bytes are not a JSON object the library accepts.
func parseObject(b []byte) string {
	s := &spb.Struct{}
	if err := s.UnmarshalJSON(b); err != nil {
		return "!"
	}
	return canonOf(s)
}

// canonToAny turns canonical text into the Go value a caller would put into
// RawJWTOptions.CustomClaims.
type canonReader struct {
	tok []string
	pos int
}

func (r *canonReader) next() string {
	t := r.tok[r.pos]
	r.pos++
	return t
}

func (r *canonReader) value() any {
	t := r.next()
	switch t[0] {
	case 'n':
		return nil
	case 't':
		return true
	case 'f':
		return false
	case 's':
		return string(hx.UH(t[1:]))
	case 'd':
		i := strings.IndexByte(t, 'x')
		if t[i+1:] == "-" {
			n, _ := strconv.ParseInt(t[1:i], 10, 64)
			return float64(n)
		}
		f, _ := strconv.ParseFloat(string(hx.UH(t[i+1:])), 64)
		return f
	case 'a':
		n, _ := strconv.Atoi(t[1:])
		l := make([]any, 0, n)
		for i := 0; i < n; i++ {
			l = append(l, r.value())
		}
		return l
	case 'o':
		n, _ := strconv.Atoi(t[1:])
		m := map[string]any{}
		for i := 0; i < n; i++ {
			k := string(hx.UH(r.next()[1:]))
			m[k] = r.value()
		}
		return m
	}
	panic("bad canonical json token " + t)
}

func canonToMap(s string) map[string]any {
	r := &canonReader{tok: strings.Split(s, ",")}
	return r.value().(map[string]any)
}
