package c09

import (
	"bytes"
	"crypto"
	"crypto/ecdh"
	"crypto/ecdsa"
	"crypto/elliptic"
	"crypto/hmac"
	"crypto/rsa"
	"crypto/sha256"
	"crypto/sha512"
	"encoding/asn1"
	"encoding/hex"
	"fmt"
	"hash"
	"math/big"
	"strconv"
	"strings"
	"sync"

	"github.com/tink-crypto/tink-go/v2/insecurecleartextkeyset"
	"github.com/tink-crypto/tink-go/v2/insecuresecretdataaccess"
	"github.com/tink-crypto/tink-go/v2/internal/internalapi"
	imldsa "github.com/tink-crypto/tink-go/v2/internal/signature/mldsa"
	"github.com/tink-crypto/tink-go/v2/jwt/jwtecdsa"
	"github.com/tink-crypto/tink-go/v2/jwt/jwthmac"
	"github.com/tink-crypto/tink-go/v2/jwt/jwtmldsa"
	"github.com/tink-crypto/tink-go/v2/jwt/jwtrsassapkcs1"
	"github.com/tink-crypto/tink-go/v2/jwt/jwtrsassapss"
	"github.com/tink-crypto/tink-go/v2/key"
	"github.com/tink-crypto/tink-go/v2/keyset"
	"github.com/tink-crypto/tink-go/v2/secretdata"
	"github.com/tink-crypto/tink-go/v2/verifharness/hx"
)

// kd is one key of a case line:  id.status.primary.alg.kid.material
//
//	status   E | D
//	primary  0 | 1
//	alg      HS256 HS384 HS512 ES256 ES384 ES512 RS256 RS384 RS512 PS256 PS384 PS512 ML-DSA-44 ML-DSA-65 ML-DSA-87
//	kid      T (Base64EncodedKeyIDAsKID, TINK) | I (IgnoredKID, RAW) | C<hex> (CustomKID, RAW)
//	material HS: key bytes (hex); ES: private scalar (hex); RS/PS: r0 r1 r2 (embedded RSA-2048 keys);
//	         ML-DSA: 32-byte key generation seed (hex)
type kd struct {
	ID        uint32
	Enabled   bool
	Primary   bool
	Alg       string
	Kid       byte // 'T' 'I' 'C'
	CustomKid string
	Mat       string
}

func (d kd) String() string {
	st, pr := "D", "0"
	if d.Enabled {
		st = "E"
	}
	if d.Primary {
		pr = "1"
	}
	k := string(d.Kid)
	if d.Kid == 'C' {
		k += hx.H([]byte(d.CustomKid))
	}
	return fmt.Sprintf("%d.%s.%s.%s.%s.%s", d.ID, st, pr, d.Alg, k, d.Mat)
}

func parseKD(s string) kd {
	f := strings.Split(s, ".")
	if len(f) != 6 {
		panic("bad key descriptor " + s)
	}
	id, err := strconv.ParseUint(f[0], 10, 32)
	if err != nil {
		panic(err)
	}
	d := kd{ID: uint32(id), Enabled: f[1] == "E", Primary: f[2] == "1", Alg: f[3], Kid: f[4][0], Mat: f[5]}
	if d.Kid == 'C' {
		d.CustomKid = string(hx.UH(f[4][1:]))
	}
	return d
}

func parseKeys(s string) []kd {
	var out []kd
	for _, p := range strings.Split(s, ";") {
		if p != "" {
			out = append(out, parseKD(p))
		}
	}
	return out
}

func keysString(ds []kd) string {
	var p []string
	for _, d := range ds {
		p = append(p, d.String())
	}
	return strings.Join(p, ";")
}

func isMACAlg(a string) bool { return strings.HasPrefix(a, "HS") }

func hashOf(alg string) (crypto.Hash, func() hash.Hash) {
	switch alg[2:] {
	case "256":
		return crypto.SHA256, sha256.New
	case "384":
		return crypto.SHA384, sha512.New384
	default:
		return crypto.SHA512, sha512.New
	}
}

func curveOf(alg string) (elliptic.Curve, ecdh.Curve, int) {
	switch alg {
	case "ES256":
		return elliptic.P256(), ecdh.P256(), 32
	case "ES384":
		return elliptic.P384(), ecdh.P384(), 48
	default:
		return elliptic.P521(), ecdh.P521(), 66
	}
}

// mlKeys derives the ML-DSA key pair of a descriptor from its seed.
func mlKeys(d kd) (*imldsa.PublicKey, *imldsa.SecretKey) {
	ck := d.Alg + d.Mat
	cacheMu.Lock()
	defer cacheMu.Unlock()
	if k, ok := stdCache[ck]; ok {
		p := k.([2]any)
		return p[0].(*imldsa.PublicKey), p[1].(*imldsa.SecretKey)
	}
	var seed [imldsa.SecretKeySeedSize]byte
	copy(seed[:], hx.UH(d.Mat))
	var pk *imldsa.PublicKey
	var sk *imldsa.SecretKey
	switch d.Alg {
	case "ML-DSA-44":
		pk, sk = imldsa.MLDSA44.KeyGenFromSeed(seed)
	case "ML-DSA-65":
		pk, sk = imldsa.MLDSA65.KeyGenFromSeed(seed)
	default:
		pk, sk = imldsa.MLDSA87.KeyGenFromSeed(seed)
	}
	stdCache[ck] = [2]any{pk, sk}
	return pk, sk
}

type rsaMat struct{ n, d, p, q []byte }

func rsaKey(mat string) rsaMat {
	i, err := strconv.Atoi(strings.TrimPrefix(mat, "r"))
	if err != nil || i < 0 || i >= len(rsaKeysHex) {
		panic("bad rsa key ref " + mat)
	}
	h := func(s string) []byte { b, _ := hex.DecodeString(s); return b }
	k := rsaKeysHex[i]
	return rsaMat{h(k[0]), h(k[1]), h(k[2]), h(k[3])}
}

var (
	cacheMu  sync.Mutex
	keyCache = map[string]key.Key{}
	stdCache = map[string]any{}
)

// ecPoint returns the uncompressed public point of an ES key descriptor.
func ecPoint(d kd) []byte {
	_, c, _ := curveOf(d.Alg)
	sk, err := c.NewPrivateKey(hx.UH(d.Mat))
	if err != nil {
		panic("bad EC scalar: " + err.Error())
	}
	return sk.PublicKey().Bytes()
}

func sd(b []byte) secretdata.Bytes {
	return secretdata.NewBytesFromData(b, insecuresecretdataaccess.Token{})
}

// tinkKey builds the tink-go key object of a descriptor (private: the signing
// key for ES/RS/PS; HS keys are symmetric).
func tinkKey(d kd, private bool) (key.Key, error) {
	ck := fmt.Sprintf("%v|%d|%s|%c|%x|%s", private, d.ID, d.Alg, d.Kid, d.CustomKid, d.Mat)
	cacheMu.Lock()
	if k, ok := keyCache[ck]; ok {
		cacheMu.Unlock()
		return k, nil
	}
	cacheMu.Unlock()
	idReq := uint32(0)
	if d.Kid == 'T' {
		idReq = d.ID
	}
	var k key.Key
	var err error
	switch d.Alg[:2] {
	case "HS":
		strat := map[byte]jwthmac.KIDStrategy{'T': jwthmac.Base64EncodedKeyIDAsKID, 'I': jwthmac.IgnoredKID, 'C': jwthmac.CustomKID}[d.Kid]
		alg := map[string]jwthmac.Algorithm{"HS256": jwthmac.HS256, "HS384": jwthmac.HS384, "HS512": jwthmac.HS512}[d.Alg]
		kb := hx.UH(d.Mat)
		var p *jwthmac.Parameters
		if p, err = jwthmac.NewParameters(len(kb), strat, alg); err != nil {
			return nil, err
		}
		k, err = jwthmac.NewKey(jwthmac.KeyOpts{KeyBytes: sd(kb), IDRequirement: idReq, CustomKID: d.CustomKid, HasCustomKID: d.Kid == 'C', Parameters: p})
	case "ES":
		strat := map[byte]jwtecdsa.KIDStrategy{'T': jwtecdsa.Base64EncodedKeyIDAsKID, 'I': jwtecdsa.IgnoredKID, 'C': jwtecdsa.CustomKID}[d.Kid]
		alg := map[string]jwtecdsa.Algorithm{"ES256": jwtecdsa.ES256, "ES384": jwtecdsa.ES384, "ES512": jwtecdsa.ES512}[d.Alg]
		var p *jwtecdsa.Parameters
		if p, err = jwtecdsa.NewParameters(strat, alg); err != nil {
			return nil, err
		}
		var pub *jwtecdsa.PublicKey
		if pub, err = jwtecdsa.NewPublicKey(jwtecdsa.PublicKeyOpts{PublicPoint: ecPoint(d), IDRequirement: idReq, CustomKID: d.CustomKid, HasCustomKID: d.Kid == 'C', Parameters: p}); err != nil {
			return nil, err
		}
		k = pub
		if private {
			k, err = jwtecdsa.NewPrivateKeyFromPublicKey(sd(hx.UH(d.Mat)), pub)
		}
	case "RS":
		strat := map[byte]jwtrsassapkcs1.KIDStrategy{'T': jwtrsassapkcs1.Base64EncodedKeyIDAsKID, 'I': jwtrsassapkcs1.IgnoredKID, 'C': jwtrsassapkcs1.CustomKID}[d.Kid]
		alg := map[string]jwtrsassapkcs1.Algorithm{"RS256": jwtrsassapkcs1.RS256, "RS384": jwtrsassapkcs1.RS384, "RS512": jwtrsassapkcs1.RS512}[d.Alg]
		m := rsaKey(d.Mat)
		var p *jwtrsassapkcs1.Parameters
		if p, err = jwtrsassapkcs1.NewParameters(jwtrsassapkcs1.ParametersOpts{ModulusSizeInBits: 2048, PublicExponent: 65537, Algorithm: alg, KidStrategy: strat}); err != nil {
			return nil, err
		}
		var pub *jwtrsassapkcs1.PublicKey
		if pub, err = jwtrsassapkcs1.NewPublicKey(jwtrsassapkcs1.PublicKeyOpts{Modulus: m.n, IDRequirement: idReq, CustomKID: d.CustomKid, HasCustomKID: d.Kid == 'C', Parameters: p}); err != nil {
			return nil, err
		}
		k = pub
		if private {
			k, err = jwtrsassapkcs1.NewPrivateKey(jwtrsassapkcs1.PrivateKeyOpts{PublicKey: pub, D: sd(m.d), P: sd(m.p), Q: sd(m.q)})
		}
	case "PS":
		strat := map[byte]jwtrsassapss.KIDStrategy{'T': jwtrsassapss.Base64EncodedKeyIDAsKID, 'I': jwtrsassapss.IgnoredKID, 'C': jwtrsassapss.CustomKID}[d.Kid]
		alg := map[string]jwtrsassapss.Algorithm{"PS256": jwtrsassapss.PS256, "PS384": jwtrsassapss.PS384, "PS512": jwtrsassapss.PS512}[d.Alg]
		m := rsaKey(d.Mat)
		var p *jwtrsassapss.Parameters
		if p, err = jwtrsassapss.NewParameters(jwtrsassapss.ParametersOpts{ModulusSizeInBits: 2048, PublicExponent: 65537, Algorithm: alg, KidStrategy: strat}); err != nil {
			return nil, err
		}
		var pub *jwtrsassapss.PublicKey
		if pub, err = jwtrsassapss.NewPublicKey(jwtrsassapss.PublicKeyOpts{Modulus: m.n, IDRequirement: idReq, CustomKID: d.CustomKid, HasCustomKID: d.Kid == 'C', Parameters: p}); err != nil {
			return nil, err
		}
		k = pub
		if private {
			k, err = jwtrsassapss.NewPrivateKey(jwtrsassapss.PrivateKeyOpts{PublicKey: pub, D: sd(m.d), P: sd(m.p), Q: sd(m.q)})
		}
	case "ML":
		strat := map[byte]jwtmldsa.KIDStrategy{'T': jwtmldsa.Base64EncodedKeyIDAsKID, 'I': jwtmldsa.IgnoredKID, 'C': jwtmldsa.CustomKID}[d.Kid]
		alg := map[string]jwtmldsa.Algorithm{"ML-DSA-44": jwtmldsa.MLDSA44, "ML-DSA-65": jwtmldsa.MLDSA65, "ML-DSA-87": jwtmldsa.MLDSA87}[d.Alg]
		var p *jwtmldsa.Parameters
		if p, err = jwtmldsa.NewParameters(strat, alg); err != nil {
			return nil, err
		}
		pk, _ := mlKeys(d)
		var pub *jwtmldsa.PublicKey
		if pub, err = jwtmldsa.NewPublicKey(jwtmldsa.PublicKeyOpts{KeyBytes: pk.Encode(), IDRequirement: idReq, CustomKID: d.CustomKid, HasCustomKID: d.Kid == 'C', Parameters: p}); err != nil {
			return nil, err
		}
		k = pub
		if private {
			k, err = jwtmldsa.NewPrivateKeyFromPublicKey(sd(hx.UH(d.Mat)), pub)
		}
	default:
		return nil, fmt.Errorf("unknown alg %s", d.Alg)
	}
	if err != nil {
		return nil, err
	}
	cacheMu.Lock()
	keyCache[ck] = k
	cacheMu.Unlock()
	return k, nil
}

// buildHandle builds a keyset handle holding the keys in order.
func buildHandle(ds []kd, private bool) (*keyset.Handle, error) {
	km := keyset.NewManager()
	for _, d := range ds {
		k, err := tinkKey(d, private)
		if err != nil {
			return nil, err
		}
		opts := []keyset.KeyOpts{keyset.WithFixedID(d.ID)}
		if !d.Enabled {
			opts = append(opts, keyset.WithStatus(keyset.Disabled))
		}
		if d.Primary {
			opts = append(opts, keyset.AsPrimary())
		}
		if _, err := km.AddKeyWithOpts(k, internalapi.Token{}, opts...); err != nil {
			return nil, err
		}
	}
	h, err := km.Handle()
	if err != nil {
		return nil, err
	}
	// Every second keyset (by the id of its first key) is used as it comes back from a
	// serialization round trip: a key object built in memory and the key parsed from its own
	// serialization must obey the same rules (kid strategies, custom kid incl. the empty one).
	if len(ds) > 0 && ds[0].ID%2 == 1 {
		var buf bytes.Buffer
		if err := insecurecleartextkeyset.Write(h, keyset.NewBinaryWriter(&buf)); err != nil {
			// a key that cannot be serialized (e.g. a custom kid that is not valid UTF-8) is
			// legitimate here: use the handle as it is.  A Write that SUCCEEDS must be readable.
			return h, nil
		}
		h2, err := insecurecleartextkeyset.Read(keyset.NewBinaryReader(&buf))
		if err != nil {
			return nil, fmt.Errorf("round trip read: %v", err)
		}
		return h2, nil
	}
	return h, nil
}

// ---- standard-library view of a key (independent of tink-go) ----

func stdRSA(mat string) *rsa.PrivateKey {
	cacheMu.Lock()
	defer cacheMu.Unlock()
	if k, ok := stdCache[mat]; ok {
		return k.(*rsa.PrivateKey)
	}
	m := rsaKey(mat)
	k := &rsa.PrivateKey{PublicKey: rsa.PublicKey{N: new(big.Int).SetBytes(m.n), E: 65537}, D: new(big.Int).SetBytes(m.d),
		Primes: []*big.Int{new(big.Int).SetBytes(m.p), new(big.Int).SetBytes(m.q)}}
	if err := k.Validate(); err != nil {
		panic(err)
	}
	k.Precompute()
	stdCache[mat] = k
	return k
}

func stdEC(d kd) *ecdsa.PrivateKey {
	ck := d.Alg + d.Mat
	cacheMu.Lock()
	defer cacheMu.Unlock()
	if k, ok := stdCache[ck]; ok {
		return k.(*ecdsa.PrivateKey)
	}
	c, _, n := curveOf(d.Alg)
	pt := ecPoint(d)
	k := &ecdsa.PrivateKey{PublicKey: ecdsa.PublicKey{Curve: c, X: new(big.Int).SetBytes(pt[1 : 1+n]), Y: new(big.Int).SetBytes(pt[1+n:])},
		D: new(big.Int).SetBytes(hx.UH(d.Mat))}
	stdCache[ck] = k
	return k
}

// sigValid: is sig a valid MAC / signature of msg under the key, computed
// with the Go standard library only (JWS encodings: full-length HMAC tag,
// fixed-width r||s, RSASSA-PKCS1-v1_5, RSASSA-PSS with salt length = hash
// length).
func sigValid(d kd, sig, msg []byte) bool {
	if d.Alg[:2] == "ML" {
		// no ML-DSA in the standard library: the repository's own FIPS 204
		// implementation (property C10) with an empty context
		pk, _ := mlKeys(d)
		return pk.Verify(msg, sig, nil) == nil
	}
	ch, newH := hashOf(d.Alg)
	h := newH()
	switch d.Alg[:2] {
	case "HS":
		m := hmac.New(newH, hx.UH(d.Mat))
		m.Write(msg)
		return hmac.Equal(m.Sum(nil), sig)
	case "ES":
		_, _, n := curveOf(d.Alg)
		if len(sig) != 2*n {
			return false
		}
		h.Write(msg)
		return ecdsa.Verify(&stdEC(d).PublicKey, h.Sum(nil), new(big.Int).SetBytes(sig[:n]), new(big.Int).SetBytes(sig[n:]))
	case "RS":
		h.Write(msg)
		return rsa.VerifyPKCS1v15(&stdRSA(d.Mat).PublicKey, ch, h.Sum(nil), sig) == nil
	case "PS":
		h.Write(msg)
		return rsa.VerifyPSS(&stdRSA(d.Mat).PublicKey, ch, h.Sum(nil), sig, &rsa.PSSOptions{SaltLength: ch.Size(), Hash: ch}) == nil
	}
	return false
}

// rawSign signs msg with the standard library (used for hand-assembled
// tokens).  ECDSA is RFC 6979 deterministic (nil random source); PSS takes
// its salt from rnd.
func rawSign(d kd, msg []byte, rnd *hx.Rng) []byte {
	if d.Alg[:2] == "ML" {
		_, sk := mlKeys(d)
		s, err := sk.SignDeterministic(msg, nil)
		if err != nil {
			panic(err)
		}
		return s
	}
	ch, newH := hashOf(d.Alg)
	h := newH()
	h.Write(msg)
	dg := h.Sum(nil)
	switch d.Alg[:2] {
	case "HS":
		m := hmac.New(newH, hx.UH(d.Mat))
		m.Write(msg)
		return m.Sum(nil)
	case "ES":
		_, _, n := curveOf(d.Alg)
		der, err := stdEC(d).Sign(nil, dg, ch)
		if err != nil {
			panic(err)
		}
		var rs struct{ R, S *big.Int }
		if _, err := asn1.Unmarshal(der, &rs); err != nil {
			panic(err)
		}
		out := make([]byte, 2*n)
		rs.R.FillBytes(out[:n])
		rs.S.FillBytes(out[n:])
		return out
	case "RS":
		s, err := rsa.SignPKCS1v15(nil, stdRSA(d.Mat), ch, dg)
		if err != nil {
			panic(err)
		}
		return s
	case "PS":
		s, err := rsa.SignPSS(rngReader{rnd}, stdRSA(d.Mat), ch, dg, &rsa.PSSOptions{SaltLength: ch.Size(), Hash: ch})
		if err != nil {
			panic(err)
		}
		return s
	}
	panic("alg")
}

type rngReader struct{ r *hx.Rng }

func (r rngReader) Read(p []byte) (int, error) {
	copy(p, r.r.Bytes(len(p)))
	return len(p), nil
}
