package c09

import (
	"encoding/json"
	"fmt"
	"math/big"
	"sort"
	"strconv"
	"strings"

	"github.com/tink-crypto/tink-go/v2/jwt"
	"github.com/tink-crypto/tink-go/v2/verifharness/hx"
)

type G struct {
	r    *hx.Rng
	tier string
	pool map[string][]string // alg -> key materials (kept small so key objects are cached)
	// lines that accompany the line a generator returns (text PRODUCED BY TINK at
	// generation time, handed to the model parser: the token of an E case as a V
	// line, the exported JWK set text of an X case as an I line)
	extra []string
}

var macAlgs = []string{"HS256", "HS384", "HS512"}
var sigAlgs = []string{"ES256", "ES384", "ES512", "RS256", "RS384", "RS512", "PS256", "PS384", "PS512"}

func sp(s string) *string { return &s }

func (g *G) material(alg string) string {
	if l := g.pool[alg]; len(l) >= 3 || (len(l) > 0 && g.r.Chance(60)) {
		return hx.PickS(g.r, l)
	}
	var m string
	switch alg[:2] {
	case "HS":
		n := map[string]int{"HS256": 32, "HS384": 48, "HS512": 64}[alg]
		if g.r.Chance(25) {
			n += g.r.Intn(40)
		}
		m = hx.H(g.r.Bytes(n))
	case "ML":
		m = hx.H(g.r.Bytes(32))
	case "ES":
		_, _, n := curveOf(alg)
		b := g.r.Bytes(n)
		if b[0] == 0xff {
			b[0] = 0x7f
		}
		if alg == "ES512" {
			b[0] &= 1
			b[1] &= 0x7f
		}
		b[n-1] |= 1
		m = hx.H(b)
	default:
		// the three embedded keys; RS and PS may share a modulus on purpose
		m = "r" + strconv.Itoa(g.r.Intn(len(rsaKeysHex)))
	}
	g.pool[alg] = append(g.pool[alg], m)
	return m
}

var customKids = []string{"custom-kid", "k1", "", "AAAAAQ", "kid with space", "ключ", "0"}

func (g *G) key(id uint32, alg string) kd {
	d := kd{ID: id, Enabled: true, Alg: alg, Mat: g.material(alg)}
	switch g.r.Intn(3) {
	case 0:
		d.Kid = 'T'
	case 1:
		d.Kid = 'I'
	default:
		d.Kid = 'C'
		d.CustomKid = hx.PickS(g.r, customKids)
	}
	return d
}

func (g *G) keyID() uint32 {
	switch g.r.Intn(8) {
	case 0:
		return uint32(g.r.Intn(3))
	case 1:
		return 0xffffffff - uint32(g.r.Intn(2))
	case 2:
		return 0x01020304
	}
	return uint32(g.r.U64())
}

// keyset: 1..3 keys of one family, distinct ids, one enabled primary.
func (g *G) keyset(mac bool) []kd { return g.keysetOpt(mac, true) }

func (g *G) keysetOpt(mac, allowML bool) []kd {
	n := 1 + g.r.Intn(3)
	var ks []kd
	used := map[uint32]bool{}
	for len(ks) < n {
		id := g.keyID()
		if used[id] {
			continue
		}
		used[id] = true
		alg := hx.PickS(g.r, sigAlgs)
		if allowML && g.r.Chance(4) { // large keys and signatures: a small share
			alg = hx.PickS(g.r, []string{"ML-DSA-44", "ML-DSA-44", "ML-DSA-65", "ML-DSA-87"})
		}
		if mac {
			alg = hx.PickS(g.r, macAlgs)
		}
		if len(ks) > 0 && g.r.Chance(40) {
			alg = ks[0].Alg // same algorithm, different key / kid rule
		}
		d := g.key(id, alg)
		d.Enabled = g.r.Chance(75)
		ks = append(ks, d)
	}
	p := g.r.Intn(n)
	ks[p].Enabled = true
	ks[p].Primary = true
	return ks
}

func prim(mac bool) string {
	if mac {
		return "M"
	}
	return "S"
}

// tinkSign produces a token with the real ComputeMACAndEncode / SignAndEncode
// of a keyset whose only (primary) key is d.
func (g *G) tinkSign(d kd, r ro) (string, error) {
	d.Enabled, d.Primary = true, true
	raw, err := jwt.NewRawJWT(r.opts())
	if err != nil {
		return "", err
	}
	h, err := buildHandle([]kd{d}, true)
	if err != nil {
		return "", err
	}
	var tok string
	hx.WithTape(&hx.Tape{Bulk: g.r.Bytes(256)}, func() {
		if isMACAlg(d.Alg) {
			var m jwt.MAC
			if m, err = jwt.NewMAC(h); err == nil {
				tok, err = m.ComputeMACAndEncode(raw)
			}
		} else {
			var s jwt.Signer
			if s, err = jwt.NewSigner(h); err == nil {
				tok, err = s.SignAndEncode(raw)
			}
		}
	})
	return tok, err
}

const baseNow = 1700000000

var skews = []int64{0, 0, 0, 0, 1, 1e9, 1e9, 59e9, 60e9, 600e9, 600e9, 599999999999, 600e9 + 1, 601e9, -5e9, -1, 300e9, 3e9}
var deltas = []int64{-1e9, -1, 0, 1, 1e9}

var strPool = []string{"issuer", "tink", "", "https://example.com/a?b=c", "aud1", "aud2", "JWT", "jwt", "söme ünicode ✓", "a\"b\\c", "x"}

// claimsAndValidator draws registered claims around a base time, and a
// validator whose bounds sit at a chosen distance from one of the time claims.
func (g *G) claimsAndValidator() (ro, vo, string) {
	r := g.r
	var c ro
	c.Custom = "~"
	now := int64(baseNow + r.Intn(1000000))
	if r.Chance(60) {
		c.Typ = sp(hx.PickS(r, strPool))
	}
	if r.Chance(60) {
		c.Iss = sp(hx.PickS(r, strPool))
	}
	if r.Chance(40) {
		c.Sub = sp(hx.PickS(r, strPool))
	}
	if r.Chance(40) {
		c.Jti = sp(hx.PickS(r, strPool))
	}
	switch r.Intn(4) {
	case 0:
		c.Aud = sp(hx.PickS(r, strPool))
	case 1, 2:
		c.HasAuds = true
		for i := 0; i < 1+r.Intn(3); i++ {
			c.Auds = append(c.Auds, hx.PickS(r, strPool))
		}
	}
	tv := func(off int64) *int64 { v := now + off; return &v }
	if r.Chance(85) {
		c.Exp = tv(3600)
	} else {
		c.NoExp = true
	}
	if r.Chance(60) {
		c.Nbf = tv(-3600)
	}
	if r.Chance(60) {
		c.Iat = tv(-3600)
	}
	if r.Chance(50) {
		c.Custom = g.customClaims()
	}
	// validator
	var o vo
	o.Skew = skews[r.Intn(len(skews))]
	o.AllowNoExp = r.Chance(50)
	o.IatPast = r.Chance(50)
	what := ""
	_ = what
	satisfy := r.Chance(50) // a validator that suits the claims (apart from the time bound under test)
	matrix := func(claim *string, list []string) (exp *string, ign bool) {
		present := claim != nil || len(list) > 0
		match := func() *string {
			if len(list) > 0 {
				return sp(hx.PickS(r, list))
			}
			return sp(*claim)
		}
		if satisfy {
			switch {
			case r.Chance(25):
				return nil, true
			case present:
				return match(), false
			default:
				return nil, false
			}
		}
		switch r.Intn(8) {
		case 0:
			return nil, true
		case 1, 2:
			return nil, false
		case 3, 4:
			return sp(hx.PickS(r, strPool)), false
		case 5:
			return sp(hx.PickS(r, strPool)), r.Chance(25) // sometimes the forbidden combination
		default:
			if present {
				return match(), false
			}
			return nil, false
		}
	}
	o.Typ, o.IgnTyp = matrix(c.Typ, nil)
	o.Iss, o.IgnIss = matrix(c.Iss, nil)
	o.Aud, o.IgnAud = matrix(c.Aud, c.Auds)
	if satisfy {
		o.AllowNoExp = o.AllowNoExp || c.Exp == nil
		o.IatPast = o.IatPast && c.Iat != nil
		if o.Skew > 600e9 || o.Skew < 0 {
			o.Skew = 0
		}
	}
	if r.Chance(10) { // the deprecated field
		o.Auds, o.Aud = o.Aud, nil
		if r.Chance(15) {
			o.Aud = sp("aud1")
		}
	}
	nowNs := new(big.Int).Mul(big.NewInt(now), e9)
	// put one bound at distance delta from its claim
	target := r.Intn(5)
	delta := deltas[r.Intn(len(deltas))]
	switch {
	case target == 0 && c.Exp != nil: // ns(exp) - (now - skew) = delta
		nowNs = new(big.Int).Add(nsOf(*c.Exp), big.NewInt(o.Skew-delta))
		what = fmt.Sprintf("exp%+d", delta)
	case target == 1 && c.Nbf != nil: // ns(nbf) - (now + skew) = delta
		nowNs = new(big.Int).Sub(nsOf(*c.Nbf), big.NewInt(o.Skew+delta))
		what = fmt.Sprintf("nbf%+d", delta)
	case target == 2 && c.Iat != nil:
		nowNs = new(big.Int).Sub(nsOf(*c.Iat), big.NewInt(o.Skew+delta))
		o.IatPast = true
		what = fmt.Sprintf("iat%+d", delta)
	default:
		if r.Chance(20) {
			nowNs.Add(nowNs, big.NewInt(int64(r.Intn(1e9))))
		}
	}
	o.Now = nowNs
	return c, o, what
}

// custom claims of every JSON type (canonical object text, keys sorted)
func (g *G) customClaims() string {
	r := g.r
	names := []string{"c_str", "c_num", "c_bool", "c_null", "c_arr", "c_obj", "scope", "exp2", "ünï", ""}
	var val func(depth int) []string
	val = func(depth int) []string {
		switch k := r.Intn(7); {
		case k == 0:
			return []string{"n"}
		case k == 1:
			return []string{hx.PickS(r, []string{"t", "f"})}
		case k == 2:
			return []string{"s" + hx.H([]byte(hx.PickS(r, strPool)))}
		case k == 3:
			fs := []float64{0, 1, -1, 3.5, -0.25, 1e21, 1.5e-7, 253402300799, 253402300800, 9007199254740993, -9223372036854775808, 1e300, 123456789}
			return []string{canonNumber(fs[r.Intn(len(fs))])}
		case k == 4 && depth < 2:
			n := r.Intn(3)
			out := []string{"a" + strconv.Itoa(n)}
			for i := 0; i < n; i++ {
				out = append(out, val(depth+1)...)
			}
			return out
		case k == 5 && depth < 2:
			keys := []string{"a", "b", "iss"}[:r.Intn(4)]
			out := []string{"o" + strconv.Itoa(len(keys))}
			for _, kk := range keys {
				out = append(out, "k"+hx.H([]byte(kk)))
				out = append(out, val(depth+1)...)
			}
			return out
		}
		return []string{"d" + strconv.Itoa(r.Intn(100)) + "x-"}
	}
	n := 1 + r.Intn(4)
	chosen := map[string]bool{}
	for len(chosen) < n {
		chosen[hx.PickS(r, names)] = true
	}
	var ks []string
	for k := range chosen {
		ks = append(ks, k)
	}
	sort.Strings(ks)
	out := []string{"o" + strconv.Itoa(len(ks))}
	for _, k := range ks {
		out = append(out, "k"+hx.H([]byte(k)))
		out = append(out, val(0)...)
	}
	return strings.Join(out, ",")
}

// ---- honest tokens from the real encoder, verified under varied keysets and validators ----
func (g *G) honest(kind string) string {
	r := g.r
	mac := r.Chance(35) && kind == "V"
	ks := g.keysetOpt(mac, kind == "V") // JWK has no ML-DSA mapping
	c, o, what := g.claimsAndValidator()
	var signer kd
	who := "primary"
	switch k := r.Intn(10); {
	case k < 6:
		for _, d := range ks {
			if d.Primary {
				signer = d
			}
		}
	case k < 8:
		signer = ks[r.Intn(len(ks))]
		who = "member"
		if !signer.Enabled {
			who = "disabled"
		}
	case k == 8: // a key that is not in the keyset but shares id, algorithm and kid rule with a member
		m := ks[r.Intn(len(ks))]
		signer = m
		g.pool[m.Alg] = nil
		signer.Mat = g.material(m.Alg)
		who = "foreign"
		if signer.Mat == m.Mat {
			who = "member"
		}
	default: // same key material under a different id / kid rule
		m := ks[r.Intn(len(ks))]
		signer = g.key(g.keyID(), m.Alg)
		signer.Mat = m.Mat
		who = "rekeyed"
	}
	tok, err := g.tinkSign(signer, c)
	if err != nil {
		// e.g. a custom kid that is not valid UTF-8; fall back to a plain key
		return g.honest(kind)
	}
	return lineV(kind, prim(mac), ks, o, tok, "honest-"+who+what)
}

// ---- hand-assembled tokens ----
func jq(s string) string {
	b, _ := json.Marshal(s)
	return string(b)
}

type hdrSpec struct {
	alg, kid, typ, crit, extra string // raw JSON values, "" = absent
	raw                        string // overrides everything when useRaw
	useRaw                     bool
}

func (h hdrSpec) json(order int) string {
	if h.useRaw {
		return h.raw
	}
	var parts []string
	add := func(k, v string) {
		if v != "" {
			parts = append(parts, jq(k)+":"+v)
		}
	}
	add("alg", h.alg)
	add("kid", h.kid)
	add("typ", h.typ)
	add("crit", h.crit)
	if h.extra != "" {
		parts = append(parts, h.extra)
	}
	if order%2 == 1 {
		for i, j := 0, len(parts)-1; i < j; i, j = i+1, j-1 {
			parts[i], parts[j] = parts[j], parts[i]
		}
	}
	return "{" + strings.Join(parts, ",") + "}"
}

func correctKid(d kd) string {
	switch d.Kid {
	case 'T':
		return jq(tinkKid(d.ID))
	case 'C':
		return jq(d.CustomKid)
	}
	return ""
}

// nonCanon re-encodes with the unused trailing bits of the last character set
// (possible when len(b) % 3 != 0).
func nonCanon(b []byte, r *hx.Rng) string {
	s := b64Enc(b)
	if len(b)%3 == 0 || len(s) == 0 {
		return s
	}
	v := strings.IndexByte(b64abc, s[len(s)-1])
	if len(b)%3 == 1 {
		v |= 1 + r.Intn(15)
	} else {
		v |= 1 + r.Intn(3)
	}
	return s[:len(s)-1] + string(b64abc[v])
}

func (g *G) assemble(signer kd, hdr, pl string, encH, encP, encS func([]byte) string) string {
	unsigned := encH([]byte(hdr)) + "." + encP([]byte(pl))
	return unsigned + "." + encS(rawSign(signer, []byte(unsigned), g.r))
}

func (g *G) simplePayload(now int64) string {
	return fmt.Sprintf(`{"iss":"issuer","exp":%d,"custom":[1,"two",null]}`, now+3600)
}

func easyValidator(now int64) vo {
	return vo{IgnTyp: true, IgnAud: true, IgnIss: true, AllowNoExp: true, Now: new(big.Int).Mul(big.NewInt(now), e9)}
}

func (g *G) headerCase() string {
	r := g.r
	mac := r.Chance(35)
	ks := g.keyset(mac)
	signer := ks[r.Intn(len(ks))]
	now := int64(baseNow)
	h := hdrSpec{alg: jq(signer.Alg), kid: correctKid(signer)}
	if r.Chance(30) {
		h.typ = jq("JWT")
	}
	tag := "hdr-ok"
	expect := ""
	otherAlgs := append(append([]string{}, macAlgs...), sigAlgs...)
	switch r.Intn(22) {
	case 0:
		h.alg = jq(hx.PickS(r, otherAlgs))
		tag = "hdr-alg-swap"
	case 1:
		h.alg = jq("none")
		tag, expect = "hdr-alg-none", ":R"
	case 2:
		h.alg = hx.PickS(r, []string{jq(strings.ToLower(signer.Alg)), jq(strings.ToLower(signer.Alg)), jq(signer.Alg[:1] + strings.ToLower(signer.Alg[1:])), jq(signer.Alg + " "), jq(""), "null", "256", "[" + jq(signer.Alg) + "]", "true"})
		tag, expect = "hdr-alg-bad", ":R"
	case 3:
		h.alg = ""
		tag, expect = "hdr-alg-missing", ":R"
	case 4:
		h.crit = hx.PickS(r, []string{`["exp"]`, "[]", "null", `"x"`, "false"})
		tag, expect = "hdr-crit", ":R"
	case 5:
		h.kid = ""
		tag = "hdr-kid-absent"
	case 6:
		h.kid = jq(hx.PickS(r, []string{"AAAAAQ", "wrong", "", tinkKid(signer.ID + 1), tinkKid(signer.ID) + "A", "custom-kid"}))
		tag = "hdr-kid-other"
	case 7:
		h.kid = hx.PickS(r, []string{"123", "null", `["` + tinkKid(signer.ID) + `"]`, "true", "{}"})
		tag = "hdr-kid-nonstring"
	case 8:
		h.typ = hx.PickS(r, []string{"1", "null", `["JWT"]`, "{}", "false"})
		tag, expect = "hdr-typ-nonstring", ":R"
	case 9:
		h.extra = hx.PickS(r, []string{`"x":1`, `"jku":"https://evil.example/keys"`, `"jwk":{"kty":"oct","k":"AAAA"}`, `"x5u":"u"`, `"cty":"JWT"`, `"b64":false`})
		tag = "hdr-extra"
	case 10:
		h.extra = hx.PickS(r, []string{`"alg":` + jq(signer.Alg), `"alg":"none"`, `"kid":"dup"`, `"typ":"a"`})
		if h.typ == "" && strings.HasPrefix(h.extra, `"typ"`) {
			h.typ = jq("b")
		}
		if h.kid == "" && strings.HasPrefix(h.extra, `"kid"`) {
			h.kid = jq("dup")
		}
		tag, expect = "hdr-duplicate-key", ":R"
	case 11:
		h.useRaw = true
		h.raw = hx.PickS(r, []string{"[]", `"` + signer.Alg + `"`, "null", "", "{", "{}", "nul", `{"alg":"` + signer.Alg + `"}x`, "\xff\xfe", `{"alg":"` + signer.Alg + "\",\"x\":\"\xc3\x28\"}"})
		tag, expect = "hdr-not-object", ":R"
	case 12:
		h.useRaw = true
		h.raw = " {\n\t\"\\u0061lg\" : " + jq(signer.Alg) + " }"
		if k := correctKid(signer); k != "" {
			h.raw = " {\n\t\"\\u0061lg\" : " + jq(signer.Alg) + ", \"kid\":" + k + "\r\n}"
		}
		tag = "hdr-escapes-whitespace"
	case 13: // HS-vs-RS confusion: header says HS256, MAC keyed with the verifier's public material
		if !mac {
			conf := kd{Alg: "HS256", Mat: hx.H([]byte(signer.Mat + "0123456789abcdef0123456789abcdef"))}
			switch signer.Alg[:2] {
			case "ES":
				conf.Mat = hx.H(ecPoint(signer))
			case "ML":
				pk, _ := mlKeys(signer)
				conf.Mat = hx.H(pk.Encode())
			default:
				conf.Mat = hx.H(rsaKey(signer.Mat).n)
			}
			h.alg = jq("HS256")
			tok := g.assemble(conf, h.json(r.Intn(2)), g.simplePayload(now), b64Enc, b64Enc, b64Enc)
			return lineV("V", "S", ks, easyValidator(now), tok, "hdr-hs-vs-pk:R")
		}
	case 14: // signature of another family's key of the keyset under this key's header
		other := ks[r.Intn(len(ks))]
		tok := g.assemble(other, h.json(r.Intn(2)), g.simplePayload(now), b64Enc, b64Enc, b64Enc)
		return lineV("V", prim(mac), ks, easyValidator(now), tok, "hdr-of-one-key-sig-of-another")
	}
	tok := g.assemble(signer, h.json(r.Intn(2)), g.simplePayload(now), b64Enc, b64Enc, b64Enc)
	if tag == "hdr-alg-none" && r.Chance(50) {
		tok = tok[:strings.LastIndex(tok, ".")+1] + hx.PickS(r, []string{"", "AA", "e30"})
	}
	o := easyValidator(now)
	if r.Chance(30) {
		o.IgnTyp = false
		if r.Chance(50) {
			o.Typ = sp("JWT")
		}
	}
	return lineV("V", prim(mac), ks, o, tok, tag+expect)
}

func (g *G) structureCase() string {
	r := g.r
	mac := r.Chance(50)
	ks := g.keyset(mac)
	var signer kd
	for _, d := range ks {
		if d.Primary {
			signer = d
		}
	}
	now := int64(baseNow)
	h := hdrSpec{alg: jq(signer.Alg), kid: correctKid(signer)}
	hj, pj := h.json(0), g.simplePayload(now)
	if r.Chance(50) { // vary lengths mod 3 so that every trailing-bit situation occurs
		pj = fmt.Sprintf(`{"exp":%d,"p":"%s"}`, now+3600, strings.Repeat("x", r.Intn(3)))
		hj = strings.TrimSuffix(hj, "}") + `,"h":"` + strings.Repeat("y", r.Intn(3)) + `"}`
	}
	tok := g.assemble(signer, hj, pj, b64Enc, b64Enc, b64Enc)
	parts := strings.Split(tok, ".")
	tag, expect := "", ":R"
	bad := []string{"\n", "\r", "\r\n", "+", "/", " ", "=", "\xc3\xa9", "*", "\x00", ",", "~", "\xff"}
	switch r.Intn(19) {
	case 0:
		tok, tag = tok+".", "str-trailing-dot"
	case 1:
		tok, tag = "."+tok, "str-leading-dot"
	case 2:
		tok, tag = parts[0]+"."+parts[1]+"."+parts[1]+"."+parts[2], "str-four-parts"
	case 3:
		tok, tag = parts[0]+"."+parts[1], "str-two-parts"
	case 4:
		tok, tag = hx.PickS(r, []string{"", ".", "..", "...", parts[0], "a.b", "a.b.c"}), "str-degenerate"
	case 5:
		tok, tag = "."+parts[1]+"."+parts[2], "str-empty-header"
	case 6:
		tok, tag = parts[0]+".."+parts[2], "str-empty-payload"
	case 7:
		tok, tag = parts[0]+"."+parts[1]+".", "str-empty-signature"
	case 8:
		i := r.Intn(3)
		parts[i] += hx.PickS(r, []string{"=", "==", "==="})
		tok, tag = strings.Join(parts, "."), "str-padding"
	case 9:
		i := r.Intn(3)
		p := r.Intn(len(parts[i]) + 1)
		parts[i] = parts[i][:p] + hx.PickS(r, bad) + parts[i][p:]
		tok, tag = strings.Join(parts, "."), "str-invalid-char-inserted"
	case 10:
		i := r.Intn(3)
		p := r.Intn(len(parts[i]))
		parts[i] = parts[i][:p] + hx.PickS(r, bad[:5]) + parts[i][p+1:]
		tok, tag = strings.Join(parts, "."), "str-invalid-char-replaced"
	case 11: // non-canonical trailing bits in the signature part: decodes to the same signature
		nc := nonCanon(mustDecode(parts[2]), r)
		tag, expect = "str-noncanonical-signature", ""
		if nc != parts[2] {
			expect = ":A"
		}
		tok = parts[0] + "." + parts[1] + "." + nc
	case 12: // non-canonical header / payload text, signed as such
		tok = g.assemble(signer, hj, pj, func(b []byte) string { return nonCanon(b, r) }, func(b []byte) string { return nonCanon(b, r) }, b64Enc)
		tag, expect = "str-noncanonical-signed-text", ":A"
	case 13: // non-canonical header text after signing: changes the signed text
		nc := nonCanon(mustDecode(parts[0]), r)
		tag, expect = "str-noncanonical-header-after-signing", ""
		tok = nc + "." + parts[1] + "." + parts[2]
	case 14:
		i := r.Intn(3)
		parts[i] += "A"
		if len(parts[i])%4 != 1 {
			parts[i] += "AAA"[:(5-len(parts[i])%4)%4]
		}
		tok, tag = strings.Join(parts, "."), "str-length-1-mod-4"
	case 15:
		tok, tag = hx.PickS(r, []string{" ", "\n", "\t"})+tok, "str-leading-space"
		if r.Chance(50) {
			tok, tag = tok[1:]+hx.PickS(r, []string{" ", "\n", "\r\n"}), "str-trailing-space"
		}
	case 16: // signature bit flip / truncation / extension
		sg := mustDecode(parts[2])
		switch r.Intn(4) {
		case 0:
			sg[r.Intn(len(sg))] ^= 1 << uint(r.Intn(8))
		case 1:
			sg = sg[:len(sg)-1]
		case 2:
			sg = append(sg, 0)
		default:
			sg = append([]byte{0}, sg...)
		}
		tok, tag = parts[0]+"."+parts[1]+"."+b64Enc(sg), "str-signature-mutated"
	case 17: // payload swapped after signing
		tok, tag = parts[0]+"."+b64Enc([]byte(fmt.Sprintf(`{"iss":"evil","exp":%d}`, now+3600)))+"."+parts[2], "str-payload-swapped"
	default:
		tag, expect = "str-intact", ":A"
	}
	return lineV("V", prim(mac), ks, easyValidator(now), tok, tag+expect)
}

func mustDecode(s string) []byte {
	b, ok := b64Lenient(s)
	if !ok {
		panic("decode " + s)
	}
	return b
}

func (g *G) payloadCase() string {
	r := g.r
	mac := r.Chance(50)
	ks := g.keyset(mac)
	var signer kd
	for _, d := range ks {
		if d.Primary {
			signer = d
		}
	}
	now := int64(baseNow)
	o := easyValidator(now)
	exp := fmt.Sprintf(`"exp":%d`, now+3600)
	tag := "pl-ok"
	var pl string
	pick := func(xs ...string) string { return hx.PickS(r, xs) }
	switch r.Intn(16) {
	case 0:
		pl, tag = "{"+exp+`,"aud":`+pick(`"a"`, `["a"]`, `["a","b"]`, `[]`, `[1]`, `["a",null]`, `1`, `null`, `{}`, `[["a"]]`, `""`, `[""]`)+"}", "pl-aud-shapes"
		o.IgnAud = r.Chance(50)
		if !o.IgnAud && r.Chance(70) {
			o.Aud = sp(pick("a", "b", ""))
		}
	case 1:
		pl, tag = "{"+exp+`,"`+pick("iss", "sub", "jti")+`":`+pick(`1`, `null`, `["x"]`, `{}`, `true`, `"ok"`, `""`)+"}", "pl-string-claim-shapes"
		o.IgnIss = r.Chance(70)
		if !o.IgnIss && r.Chance(50) {
			o.Iss = sp(pick("ok", ""))
		}
	case 2:
		pl, tag = `{"`+pick("exp", "nbf", "iat")+`":`+pick(`"1700003600"`, `null`, `[1]`, `{}`, `true`, `-1`, `-0`, `0`, `253402300799`, `253402300800`, `1e30`, `-1e30`, `1e400`)+"}", "pl-time-claim-shapes"
	case 3: // fractional and exponent forms: the code truncates toward zero
		pl, tag = `{"`+pick("exp", "nbf", "iat")+`":`+pick(`1700003600.5`, `1700000000.999`, `1700000000.0000001`, `1.7000036e9`, `-0.5`, `0.999`, `253402300799.5`, `17000036e2`, `1699999999.9999999`, `1700000000.0`)+"}", "pl-time-fractional"
		if r.Chance(50) {
			o.IatPast = true
		}
	case 4:
		pl, tag = pick(`[]`, `"x"`, `null`, ``, `{`, `{"exp":1,}`, `{"a":1}{"b":2}`, `{"exp":NaN}`, `{"exp":Infinity}`, `{'exp':1}`, "{\"iss\":\"\xff\"}", `{"exp":01}`, ` {"a" : 1} `, `true`), "pl-not-object"
	case 5:
		pl, tag = "{"+exp+`,"iss":"a","iss":"b"}`, "pl-duplicate-key"
		if r.Chance(50) {
			pl = `{"exp":1,` + exp + `}`
		}
	case 6:
		pl, tag = "{}", "pl-empty-object"
		o.AllowNoExp = r.Chance(50)
	case 7:
		pl, tag = "{"+exp+`,"n":{"a":[1,2,{"b":null}],"c":{"d":{"e":"f"}}},"b":true,"z":null,"f":1.5e-7,"big":1e300,"neg":-9223372036854775808,"u":"\u00e9\ud83d\ude00","":0}`, "pl-custom-every-type"
	case 8:
		pl, tag = "{"+exp+`,"`+pick(`\u0069ss`, `is\u0073`, `ISS`, `iss `)+`":`+pick(`1`, `"x"`)+"}", "pl-escaped-claim-name"
		o.IgnIss = false
	case 9: // exact boundary via hand-written times and a ns-resolution clock
		t := now + int64(r.Intn(1000))
		which := pick("exp", "nbf", "iat")
		pl = fmt.Sprintf(`{"%s":%d}`, which, t)
		o.AllowNoExp = true
		o.Skew = skews[r.Intn(len(skews)-3)]
		if o.Skew > 600e9 {
			o.Skew = 600e9
		}
		d := deltas[r.Intn(len(deltas))]
		if which == "exp" {
			o.Now = new(big.Int).Add(nsOf(t), big.NewInt(o.Skew-d))
		} else {
			o.Now = new(big.Int).Sub(nsOf(t), big.NewInt(o.Skew+d))
			o.IatPast = which == "iat"
		}
		tag = fmt.Sprintf("pl-boundary-%s%+d", which, d)
	case 10:
		pl, tag = "{"+exp+`,"nbf":`+strconv.FormatInt(now+int64(r.Intn(3))-1, 10)+`,"iat":`+strconv.FormatInt(now+int64(r.Intn(3))-1, 10)+"}", "pl-second-boundaries"
		o.IatPast = r.Chance(50)
	case 11:
		pl, tag = `{"exp":`+strconv.FormatInt(now+int64(r.Intn(3))-1, 10)+"}", "pl-exp-second-boundary"
	case 12: // huge / extreme clock values
		pl, tag = `{"exp":253402300799,"nbf":0,"iat":0}`, "pl-extreme-times"
		o.IatPast = true
		o.Now = pickBig(r, "0", "-1", "1", "253402300798999999999", "253402300799000000000", "253402300799000000001", "-600000000000", "600000000000")
		o.Skew = skews[r.Intn(len(skews))]
	default:
		pl = g.simplePayload(now)
	}
	h := hdrSpec{alg: jq(signer.Alg), kid: correctKid(signer)}
	tok := g.assemble(signer, h.json(0), pl, b64Enc, b64Enc, b64Enc)
	return lineV("V", prim(mac), ks, o, tok, tag)
}

func pickBig(r *hx.Rng, xs ...string) *big.Int {
	v, _ := new(big.Int).SetString(hx.PickS(r, xs), 10)
	return v
}

// ---- validator option product on one honest token ----
func (g *G) validatorCase() string {
	r := g.r
	mac := r.Chance(50)
	ks := g.keyset(mac)
	var signer kd
	for _, d := range ks {
		if d.Primary {
			signer = d
		}
	}
	now := int64(baseNow)
	c := ro{Custom: "~"}
	bits := r.Intn(1 << 6)
	if bits&1 != 0 {
		c.Typ = sp("JWT")
	}
	if bits&2 != 0 {
		c.Iss = sp("issuer")
	}
	if bits&4 != 0 {
		c.Aud = sp("aud1")
	} else if bits&8 != 0 {
		c.HasAuds, c.Auds = true, []string{"aud2", "aud1"}
	}
	if bits&16 != 0 {
		v := now + 3600
		c.Exp = &v
	} else {
		c.NoExp = true
	}
	if bits&32 != 0 {
		v := now - 10
		c.Iat = &v
	}
	tok, err := g.tinkSign(signer, c)
	if err != nil {
		panic(err)
	}
	o := vo{Now: new(big.Int).Mul(big.NewInt(now), e9)}
	mode := func(match, other string) (*string, bool) {
		switch k := r.Intn(11); {
		case k < 3:
			return nil, false
		case k < 6:
			return sp(match), false
		case k < 8:
			return sp(other), false
		case k < 10:
			return nil, true
		}
		return sp(match), true // forbidden combination
	}
	o.Typ, o.IgnTyp = mode("JWT", "jwt")
	o.Iss, o.IgnIss = mode("issuer", "other")
	o.Aud, o.IgnAud = mode("aud1", hx.PickS(r, []string{"aud2", "aud3"}))
	if r.Chance(15) {
		o.Auds, o.Aud = o.Aud, nil
		if r.Chance(20) {
			o.Aud = sp("aud1")
		}
	}
	o.AllowNoExp, o.IatPast = r.Chance(50), r.Chance(50)
	o.Skew = skews[r.Intn(len(skews))]
	return lineV("V", prim(mac), ks, o, tok, "validator-product")
}

// ---- encode round trip ----
func (g *G) encodeCase() string {
	r := g.r
	mac := r.Chance(40)
	alg := hx.PickS(r, sigAlgs)
	if r.Chance(4) {
		alg = hx.PickS(r, []string{"ML-DSA-44", "ML-DSA-65", "ML-DSA-87"})
	}
	if mac {
		alg = hx.PickS(r, macAlgs)
	}
	d := g.key(g.keyID(), alg)
	d.Primary = true
	c, o, what := g.claimsAndValidator()
	tag := "enc" + what
	bad := []string{"\xff", "a\xc3", "\xed\xa0\x80", "\xc0\xaf", "\xf4\x90\x80\x80", "ok\xe2\x82"}
	switch r.Intn(14) {
	case 0:
		c.Exp, c.NoExp = nil, false
		tag = "enc-no-exp-unmarked"
	case 1:
		c.NoExp = true
		if c.Exp == nil {
			v := int64(baseNow)
			c.Exp = &v
		}
		tag = "enc-exp-and-without"
	case 2:
		c.Aud, c.HasAuds, c.Auds = sp("a"), true, []string{"b"}
		tag = "enc-aud-and-audiences"
	case 3:
		c.Aud, c.HasAuds, c.Auds = nil, true, nil
		tag = "enc-empty-audiences"
	case 4:
		c.Custom = "o1,k" + hx.H([]byte(hx.PickS(r, []string{"iss", "sub", "jti", "aud", "exp", "nbf", "iat"}))) + ",s" + hx.H([]byte("x"))
		tag = "enc-registered-as-custom"
	case 5:
		s := sp(hx.PickS(r, bad))
		switch r.Intn(5) {
		case 0:
			c.Iss = s
		case 1:
			c.Sub = s
		case 2:
			c.Jti = s
		case 3:
			c.Aud, c.HasAuds, c.Auds = s, false, nil
		default:
			c.Aud, c.HasAuds, c.Auds = nil, true, []string{"ok", *s}
		}
		tag = "enc-invalid-utf8-claim"
	case 6:
		c.Typ = sp(hx.PickS(r, bad))
		tag = "enc-invalid-utf8-typ"
	case 7:
		v := hx.PickS(r, []int64{-1, 0, tsMax, tsMax + 1, -62135596800, 1 << 53, 1<<53 + 1, 1 << 61, -(1 << 61)})
		switch r.Intn(3) {
		case 0:
			c.Exp, c.NoExp = &v, false
		case 1:
			c.Nbf = &v
		default:
			c.Iat = &v
		}
		tag = "enc-time-range"
	case 8:
		c.Custom = "o1,k" + hx.H([]byte("c")) + hx.PickS(r, []string{",s" + hx.H([]byte(bad[0])), ",a1,s" + hx.H([]byte(bad[1])), ",o1,k" + hx.H([]byte(bad[2])) + ",n", ",o1,k" + hx.H([]byte("k")) + ",s" + hx.H([]byte(bad[3]))})
		tag = "enc-invalid-utf8-custom"
	case 9:
		c.Custom = "o1,k" + hx.H([]byte(bad[r.Intn(len(bad))])) + ",t"
		tag = "enc-invalid-utf8-custom-name"
	case 10:
		if d.Kid == 'C' {
			d.CustomKid = bad[r.Intn(len(bad))]
			tag = "enc-invalid-utf8-kid"
		}
	}
	// the token the real encoder makes of this case, as a V line: its header and
	// payload bytes (protojson's Marshal output) go through the MODEL parser and
	// are compared with structpb's parse of the same bytes
	if tok, err := g.tinkSign(d, c); err == nil {
		g.extra = append(g.extra, lineV("V", prim(mac), []kd{d}, o, tok, "etok-"+tag))
	}
	return lineE(prim(mac), d, c, o, tag)
}

// directed: the systematic products that every run covers regardless of the
// seed: each time bound x distance x skew; the expected/ignore/present matrix
// of typ, iss, aud; each kid rule x header kid shape; alg confusion.
func directed() []string {
	g := &G{r: hx.NewRng(20250925), pool: map[string][]string{}}
	var out []string
	mk := func(alg string, kid byte, id uint32) kd {
		d := kd{ID: id, Enabled: true, Primary: true, Alg: alg, Kid: kid, Mat: g.material(alg)}
		if kid == 'C' {
			d.CustomKid = "custom-kid"
		}
		return d
	}
	hs := mk("HS256", 'I', 11)
	es := mk("ES256", 'T', 0x01020304)
	now := int64(baseNow)
	hdrOf := func(d kd) string { return hdrSpec{alg: jq(d.Alg), kid: correctKid(d)}.json(0) }
	// 1. time bounds
	for _, d := range []kd{hs, es} {
		for _, which := range []string{"exp", "nbf", "iat"} {
			for _, delta := range deltas {
				for _, skew := range []int64{0, 600e9, -1e9, 1} {
					t := now + 100
					o := vo{IgnTyp: true, IgnAud: true, IgnIss: true, AllowNoExp: true, Skew: skew, IatPast: which == "iat"}
					if which == "exp" {
						o.Now = new(big.Int).Add(nsOf(t), big.NewInt(skew-delta))
					} else {
						o.Now = new(big.Int).Sub(nsOf(t), big.NewInt(skew+delta))
					}
					exp := "A"
					if (which == "exp") == (delta <= 0) {
						exp = "R"
					}
					tok := g.assemble(d, hdrOf(d), fmt.Sprintf(`{"%s":%d}`, which, t), b64Enc, b64Enc, b64Enc)
					out = append(out, lineV("V", prim(isMACAlg(d.Alg)), []kd{d}, o, tok, fmt.Sprintf("dir-%s%+d:%s", which, delta, exp)))
				}
			}
		}
	}
	// 2. presence matrix
	type cl struct{ name, json, match string }
	for _, c := range []cl{{"typ", `"JWT"`, "JWT"}, {"iss", `"issuer"`, "issuer"}, {"aud", `"a1"`, "a1"}, {"aud", `["a0","a1"]`, "a1"}} {
		for _, present := range []bool{false, true} {
			for mode := 0; mode < 5; mode++ {
				hdr, pl := hdrSpec{alg: jq(hs.Alg)}, fmt.Sprintf(`{"exp":%d}`, now+3600)
				if present {
					if c.name == "typ" {
						hdr.typ = c.json
					} else {
						pl = fmt.Sprintf(`{"exp":%d,"%s":%s}`, now+3600, c.name, c.json)
					}
				}
				o := vo{IgnTyp: true, IgnAud: true, IgnIss: true, Now: new(big.Int).Mul(big.NewInt(now), e9)}
				var e *string
				ign := false
				switch mode {
				case 1:
					e = sp(c.match)
				case 2:
					e = sp("other")
				case 3:
					ign = true
				case 4:
					e, ign = sp(c.match), true
				}
				exp := "R"
				switch {
				case mode == 4:
					exp = "B"
				case mode == 3, mode == 0 && !present, mode == 1 && present:
					exp = "A"
				}
				switch c.name {
				case "typ":
					o.Typ, o.IgnTyp = e, ign
				case "iss":
					o.Iss, o.IgnIss = e, ign
				default:
					o.Aud, o.IgnAud = e, ign
				}
				tok := g.assemble(hs, hdr.json(0), pl, b64Enc, b64Enc, b64Enc)
				out = append(out, lineV("V", "M", []kd{hs}, o, tok, fmt.Sprintf("dir-presence-%s-%v-%d:%s", c.name, present, mode, exp)))
			}
		}
	}
	// 3. kid rules x header kid
	for _, fam := range []string{"HS384", "ES384", "RS256", "PS256"} {
		for _, rule := range []byte{'T', 'I', 'C'} {
			d := mk(fam, rule, 0xfffefdfc)
			for i, kid := range []string{"", correctKid(d), jq("wrong"), "7", jq(tinkKid(d.ID)), jq("custom-kid")} {
				if i == 1 && kid == "" {
					continue
				}
				h := hdrSpec{alg: jq(d.Alg), kid: kid}
				tok := g.assemble(d, h.json(0), g.simplePayload(now), b64Enc, b64Enc, b64Enc)
				out = append(out, lineV("V", prim(isMACAlg(fam)), []kd{d}, easyValidator(now), tok, fmt.Sprintf("dir-kid-%c-%d", rule, i)))
			}
		}
	}
	// 4. algorithm confusion
	rs := mk("RS256", 'I', 5)
	for _, alg := range []string{"none", "None", "NONE", "HS256", "RS384", "PS256", "rs256", "RS256"} {
		h := hdrSpec{alg: jq(alg)}
		exp := "R"
		if alg == "RS256" {
			exp = "A"
		}
		tok := g.assemble(rs, h.json(0), g.simplePayload(now), b64Enc, b64Enc, b64Enc)
		out = append(out, lineV("V", "S", []kd{rs}, easyValidator(now), tok, "dir-alg-"+alg+":"+exp))
		conf := kd{Alg: "HS256", Mat: hx.H(rsaKey(rs.Mat).n)}
		tok = g.assemble(conf, h.json(0), g.simplePayload(now), b64Enc, b64Enc, b64Enc)
		out = append(out, lineV("V", "S", []kd{rs}, easyValidator(now), tok, "dir-alg-hmac-with-modulus-"+alg+":R"))
		unsigned := tok[:strings.LastIndex(tok, ".")]
		out = append(out, lineV("V", "S", []kd{rs}, easyValidator(now), unsigned+".", "dir-alg-unsigned-"+alg+":R"))
	}
	return out
}

func gen(r *hx.Rng, n int, tier string) []string {
	g := &G{r: r, tier: tier, pool: map[string][]string{}}
	out := append(directed(), directedJWK()...)
	out = append(out, directedJSONText()...)
	for len(out) < n {
		switch k := r.Intn(124); {
		case k >= 110: // the JSON text layer (gen_jsontext.go)
			out = append(out, g.jsonTextCase())
		case k >= 105:
			out = append(out, g.exportCase())
		case k >= 100:
			out = append(out, g.importCase())
		case k < 30:
			out = append(out, g.honest("V"))
		case k < 50:
			out = append(out, g.headerCase())
		case k < 64:
			out = append(out, g.structureCase())
		case k < 78:
			out = append(out, g.payloadCase())
		case k < 84:
			out = append(out, g.validatorCase())
		case k < 94:
			out = append(out, g.encodeCase())
		default:
			out = append(out, g.honest("J"))
		}
		out = append(out, g.extra...)
		g.extra = nil
	}
	return out
}
