package c09

// JWK export / import on the level of key material (model/Jwk.v).
//
//	C09|X|<xkeys>|<tag>
//	    build the keyset <xkeys> with keyset.Manager, JWKSetFromPublicKeysetHandle;
//	    if it succeeds, parse the produced JWK set and import it back
//	    xkeys  = <kd>.<P|S>.<pub> ; ...   kd as in keys.go (alg may also be Ed25519,
//	             RS/PS material may be m<modulus hex>x<exponent>, a public-only key)
//	             P = the public key object, S = the private (secret) key object
//	             pub = uncompressed point (hex) | <modulus hex>:<exponent> | -
//	C09|I|<json text hex>|<canonical parse | !>|<on-curve table>|<tag>
//	    JWKSetToPublicKeysetHandle on the text; the model parses the text itself and
//	    its parse is compared with the second field (structpb's parse)
//	    table  = ~ | <256|384|512>:<point hex>:<0|1>,...  for every EC key object
//	             of the set (crypto/elliptic's answer for 04||x||y)
//
// Observations:
//
//	X: refused | jwk=<canonical parse of the JWK set> imp=<rej | ok <keys>>
//	I: rej | ok <keys>
//	keys = <alg>.<T<id>|I|C<kid hex>>.<point hex | modulus hex:exponent>.<E|D><1 if primary else 0> , ...

import (
	"crypto/ed25519"
	"crypto/elliptic"
	"encoding/json"
	"fmt"
	"math/big"
	"reflect"
	"strconv"
	"strings"
	"unicode/utf8"

	"github.com/tink-crypto/tink-go/v2/internal/internalapi"
	"github.com/tink-crypto/tink-go/v2/jwt"
	"github.com/tink-crypto/tink-go/v2/jwt/jwtecdsa"
	"github.com/tink-crypto/tink-go/v2/jwt/jwtrsassapkcs1"
	"github.com/tink-crypto/tink-go/v2/jwt/jwtrsassapss"
	"github.com/tink-crypto/tink-go/v2/key"
	"github.com/tink-crypto/tink-go/v2/keyset"
	tinked "github.com/tink-crypto/tink-go/v2/signature/ed25519"
	"github.com/tink-crypto/tink-go/v2/verifharness/hx"
)

// ---- X-line key descriptors ----
type xk struct {
	kd
	Private bool
	Pub     string
}

func (x xk) String() string {
	v := "P"
	if x.Private {
		v = "S"
	}
	return x.kd.String() + "." + v + "." + x.Pub
}

func parseXK(s string) xk {
	f := strings.Split(s, ".")
	if len(f) != 8 {
		panic("bad X key descriptor " + s)
	}
	return xk{kd: parseKD(strings.Join(f[:6], ".")), Private: f[6] == "S", Pub: f[7]}
}

func parseXKeys(s string) []xk {
	var out []xk
	for _, p := range strings.Split(s, ";") {
		if p != "" {
			out = append(out, parseXK(p))
		}
	}
	return out
}

func xkeysString(ks []xk) string {
	var p []string
	for _, k := range ks {
		p = append(p, k.String())
	}
	return strings.Join(p, ";")
}

func famOf(alg string) string {
	if len(alg) == 5 && (alg[:2] == "ES" || alg[:2] == "RS" || alg[:2] == "PS") {
		return alg[:2]
	}
	return ""
}

// rsaPublic returns modulus bytes and exponent of an RS/PS descriptor.
func rsaPublic(mat string) ([]byte, int) {
	if strings.HasPrefix(mat, "m") {
		i := strings.IndexByte(mat, 'x')
		e, err := strconv.Atoi(mat[i+1:])
		if err != nil {
			panic("bad rsa material " + mat)
		}
		return hx.UH(mat[1:i]), e
	}
	return rsaKey(mat).n, 65537
}

// pubOf: the public material of a descriptor, computed without tink-go.
func pubOf(d kd) string {
	switch famOf(d.Alg) {
	case "ES":
		return hx.H(ecPoint(d))
	case "RS", "PS":
		n, e := rsaPublic(d.Mat)
		return hx.H(n) + ":" + strconv.Itoa(e)
	}
	return "-"
}

func tinkKeyX(x xk) (key.Key, error) {
	d := x.kd
	idReq := uint32(0)
	if d.Kid == 'T' {
		idReq = d.ID
	}
	switch {
	case d.Alg == "Ed25519":
		variant := tinked.VariantNoPrefix
		if d.Kid == 'T' {
			variant = tinked.VariantTink
		}
		p, err := tinked.NewParameters(variant)
		if err != nil {
			return nil, err
		}
		sk := ed25519.NewKeyFromSeed(hx.UH(d.Mat))
		if x.Private {
			return tinked.NewPrivateKey(sd(hx.UH(d.Mat)), idReq, p)
		}
		return tinked.NewPublicKey(sk.Public().(ed25519.PublicKey), idReq, p)
	case (d.Alg[:2] == "RS" || d.Alg[:2] == "PS") && strings.HasPrefix(d.Mat, "m"):
		if x.Private {
			return nil, fmt.Errorf("no private key for an m-form RSA descriptor")
		}
		n, e := rsaPublic(d.Mat)
		bits := new(big.Int).SetBytes(n).BitLen()
		if d.Alg[:2] == "RS" {
			strat := map[byte]jwtrsassapkcs1.KIDStrategy{'T': jwtrsassapkcs1.Base64EncodedKeyIDAsKID, 'I': jwtrsassapkcs1.IgnoredKID, 'C': jwtrsassapkcs1.CustomKID}[d.Kid]
			alg := map[string]jwtrsassapkcs1.Algorithm{"RS256": jwtrsassapkcs1.RS256, "RS384": jwtrsassapkcs1.RS384, "RS512": jwtrsassapkcs1.RS512}[d.Alg]
			p, err := jwtrsassapkcs1.NewParameters(jwtrsassapkcs1.ParametersOpts{ModulusSizeInBits: bits, PublicExponent: e, Algorithm: alg, KidStrategy: strat})
			if err != nil {
				return nil, err
			}
			return jwtrsassapkcs1.NewPublicKey(jwtrsassapkcs1.PublicKeyOpts{Modulus: n, IDRequirement: idReq, CustomKID: d.CustomKid, HasCustomKID: d.Kid == 'C', Parameters: p})
		}
		strat := map[byte]jwtrsassapss.KIDStrategy{'T': jwtrsassapss.Base64EncodedKeyIDAsKID, 'I': jwtrsassapss.IgnoredKID, 'C': jwtrsassapss.CustomKID}[d.Kid]
		alg := map[string]jwtrsassapss.Algorithm{"PS256": jwtrsassapss.PS256, "PS384": jwtrsassapss.PS384, "PS512": jwtrsassapss.PS512}[d.Alg]
		p, err := jwtrsassapss.NewParameters(jwtrsassapss.ParametersOpts{ModulusSizeInBits: bits, PublicExponent: e, Algorithm: alg, KidStrategy: strat})
		if err != nil {
			return nil, err
		}
		return jwtrsassapss.NewPublicKey(jwtrsassapss.PublicKeyOpts{Modulus: n, IDRequirement: idReq, CustomKID: d.CustomKid, HasCustomKID: d.Kid == 'C', Parameters: p})
	}
	return tinkKey(d, x.Private)
}

func buildHandleX(ks []xk) (*keyset.Handle, error) {
	km := keyset.NewManager()
	for _, x := range ks {
		k, err := tinkKeyX(x)
		if err != nil {
			return nil, err
		}
		opts := []keyset.KeyOpts{keyset.WithFixedID(x.ID)}
		if !x.Enabled {
			opts = append(opts, keyset.WithStatus(keyset.Disabled))
		}
		if x.Primary {
			opts = append(opts, keyset.AsPrimary())
		}
		if _, err := km.AddKeyWithOpts(k, internalapi.Token{}, opts...); err != nil {
			return nil, err
		}
	}
	return km.Handle()
}

// describeHandle reads the keys of a handle back through its entries.
func describeHandle(h *keyset.Handle) string {
	var out []string
	for i := 0; i < h.Len(); i++ {
		e, err := h.Entry(i)
		if err != nil {
			return "ENTRY-ERROR"
		}
		kidOf := func(strategy string, k interface {
			KID() (string, bool)
			IDRequirement() (uint32, bool)
		}) string {
			switch strategy {
			case "Base64EncodedKeyIDAsKID":
				id, _ := k.IDRequirement()
				return "T" + strconv.FormatUint(uint64(id), 10)
			case "IgnoredKID":
				if _, has := k.KID(); has {
					return "?kid-on-ignored"
				}
				return "I"
			case "CustomKID":
				kid, has := k.KID()
				if !has {
					return "?custom-without-kid"
				}
				return "C" + hx.H([]byte(kid))
			}
			return "?" + strategy
		}
		var s string
		switch k := e.Key().(type) {
		case *jwtecdsa.PublicKey:
			p := k.Parameters().(*jwtecdsa.Parameters)
			s = p.Algorithm().String() + "." + kidOf(p.KIDStrategy().String(), k) + "." + hx.H(k.PublicPoint())
		case *jwtrsassapkcs1.PublicKey:
			p := k.Parameters().(*jwtrsassapkcs1.Parameters)
			s = p.Algorithm().String() + "." + kidOf(p.KIDStrategy().String(), k) + "." + hx.H(k.Modulus()) + ":" + strconv.Itoa(p.PublicExponent())
			if p.ModulusSizeInBits() != new(big.Int).SetBytes(k.Modulus()).BitLen() {
				s += "?modulus-size"
			}
		case *jwtrsassapss.PublicKey:
			p := k.Parameters().(*jwtrsassapss.Parameters)
			s = p.Algorithm().String() + "." + kidOf(p.KIDStrategy().String(), k) + "." + hx.H(k.Modulus()) + ":" + strconv.Itoa(p.PublicExponent())
			if p.ModulusSizeInBits() != new(big.Int).SetBytes(k.Modulus()).BitLen() {
				s += "?modulus-size"
			}
		default:
			s = fmt.Sprintf("?%T", k)
		}
		st := "D"
		if e.KeyStatus() == keyset.Enabled {
			st = "E"
		}
		out = append(out, s+"."+st+b01(e.IsPrimary()))
	}
	return strings.Join(out, ",")
}

func importObs(text []byte) string {
	h, err := jwt.JWKSetToPublicKeysetHandle(text)
	if err != nil {
		return "rej"
	}
	return "ok " + describeHandle(h)
}

func runX(f []string) string {
	h, err := buildHandleX(parseXKeys(f[2]))
	if err != nil {
		return "SETUP-FAIL " + err.Error()
	}
	js, err := jwt.JWKSetFromPublicKeysetHandle(h)
	if err != nil {
		return "refused"
	}
	return "jwk=" + parseObject(js) + " imp=" + importObs(js)
}

func runI(f []string) string { return importObs(hx.UH(f[2])) }

// ---- the direct oracle (from the property text and RFC 7517 / 7518) ----

func minBE(e int) []byte { return big.NewInt(int64(e)).Bytes() }

// onCurveStd: is 04||x||y (already of the right length) a point of the curve
// of alg, by crypto/elliptic.
func onCurveStd(bits string, pt []byte) bool {
	var c elliptic.Curve
	n := 0
	switch bits {
	case "256":
		c, n = elliptic.P256(), 32
	case "384":
		c, n = elliptic.P384(), 48
	case "512":
		c, n = elliptic.P521(), 66
	default:
		return false
	}
	if len(pt) != 1+2*n || pt[0] != 4 {
		return false
	}
	return c.IsOnCurve(new(big.Int).SetBytes(pt[1:1+n]), new(big.Int).SetBytes(pt[1+n:]))
}

// importedKid: the kid rule after a JWK round trip.
func importedKid(d kd) string {
	switch d.Kid {
	case 'T':
		return "C" + hx.H([]byte(tinkKid(d.ID)))
	case 'C':
		return "C" + hx.H([]byte(d.CustomKid))
	}
	return "I"
}

func keyList(ks []string) string {
	for i := range ks {
		ks[i] += ".E" + b01(i == len(ks)-1)
	}
	return strings.Join(ks, ",")
}

func checkX(f []string, obs string) string {
	keys := parseXKeys(f[2])
	if tag := f[len(f)-1]; strings.HasSuffix(tag, ":E") && !strings.HasPrefix(obs, "jwk=") {
		return "by construction this keyset must be exported, implementation refused"
	} else if strings.HasSuffix(tag, ":F") && obs != "refused" {
		return "by construction the export of this keyset must be refused"
	}
	refuse := false
	var enabled []xk
	for _, x := range keys {
		if x.Pub != pubOf(x.kd) {
			return "SETUP-FAIL public material annotation of key " + strconv.FormatUint(uint64(x.ID), 10) + " is wrong"
		}
		if !x.Enabled {
			continue
		}
		enabled = append(enabled, x)
		if famOf(x.Alg) == "" || x.Private {
			refuse = true // private key, or a key type without JWK mapping
		}
		if x.Kid == 'C' && !utf8.ValidString(x.CustomKid) {
			refuse = true // cannot be JSON
		}
	}
	if refuse {
		if obs != "refused" {
			return "JWK export must refuse a keyset with an enabled private / unsupported key, got " + obs[:min(len(obs), 40)]
		}
		return ""
	}
	if obs == "refused" {
		return "JWK export refused a keyset whose enabled keys are all supported public keys"
	}
	i := strings.Index(obs, " imp=")
	if !strings.HasPrefix(obs, "jwk=") || i < 0 {
		return "malformed observation"
	}
	canon, imp := obs[4:i], obs[i+5:]
	if canon == "!" {
		return "exported JWK set is not a JSON object"
	}
	var wantKeys []any
	var wantImp []string
	for _, x := range enabled {
		m := map[string]any{"alg": x.Alg, "use": "sig", "key_ops": []any{"verify"}}
		switch x.Kid {
		case 'T':
			m["kid"] = tinkKid(x.ID)
		case 'C':
			m["kid"] = x.CustomKid
		}
		if famOf(x.Alg) == "ES" {
			pt := ecPoint(x.kd)
			_, _, n := curveOf(x.Alg)
			m["kty"], m["crv"] = "EC", map[string]string{"ES256": "P-256", "ES384": "P-384", "ES512": "P-521"}[x.Alg]
			m["x"], m["y"] = b64Enc(pt[1:1+n]), b64Enc(pt[1+n:])
			wantImp = append(wantImp, x.Alg+"."+importedKid(x.kd)+"."+hx.H(pt))
		} else {
			n, e := rsaPublic(x.Mat)
			m["kty"], m["n"], m["e"] = "RSA", b64Enc(n), b64Enc(minBE(e))
			wantImp = append(wantImp, x.Alg+"."+importedKid(x.kd)+"."+hx.H(n)+":"+strconv.Itoa(e))
		}
		wantKeys = append(wantKeys, m)
	}
	if got := canonToMap(canon); !reflect.DeepEqual(got, map[string]any{"keys": wantKeys}) {
		return "exported JWK set is not the RFC 7517 rendering of the enabled keys"
	}
	if want := "ok " + keyList(wantImp); imp != want {
		return "import of the exported set gave " + imp[:min(len(imp), 60)] + ", want the enabled keys with the same material: " + want[:min(len(want), 60)]
	}
	return ""
}

// refImportKey: what one element of "keys" must look like, and the key it denotes.
func refImportKey(v any) (string, bool) {
	m, ok := v.(map[string]any)
	if !ok {
		return "", false
	}
	alg, ok := m["alg"].(string)
	if !ok || famOf(alg) == "" {
		return "", false
	}
	bits := alg[2:]
	if bits != "256" && bits != "384" && bits != "512" {
		return "", false
	}
	if u, present := m["use"]; present {
		if s, isS := u.(string); !isS || s != "sig" {
			return "", false
		}
	}
	if o, present := m["key_ops"]; present {
		l, isL := o.([]any)
		if !isL || len(l) != 1 {
			return "", false
		}
		if s, isS := l[0].(string); !isS || s != "verify" {
			return "", false
		}
	}
	kid := "I"
	if kv, present := m["kid"]; present {
		s, isS := kv.(string)
		if !isS {
			return "", false
		}
		kid = "C" + hx.H([]byte(s))
	}
	str := func(name string) (string, bool) { s, ok := m[name].(string); return s, ok }
	dec := func(name string) ([]byte, bool) {
		s, ok := str(name)
		if !ok {
			return nil, false
		}
		return b64Lenient(s)
	}
	if famOf(alg) == "ES" {
		crv, _ := str("crv")
		if crv != map[string]string{"256": "P-256", "384": "P-384", "512": "P-521"}[bits] {
			return "", false
		}
		if kty, _ := str("kty"); kty != "EC" {
			return "", false
		}
		if _, private := m["d"]; private {
			return "", false
		}
		x, okx := dec("x")
		y, oky := dec("y")
		if !okx || !oky {
			return "", false
		}
		pt := append(append([]byte{4}, x...), y...)
		if !onCurveStd(bits, pt) {
			return "", false
		}
		return alg + "." + kid + "." + hx.H(pt), true
	}
	if kty, _ := str("kty"); kty != "RSA" {
		return "", false
	}
	for _, name := range []string{"p", "q", "dp", "dq", "d", "qi"} {
		if _, private := m[name]; private {
			return "", false
		}
	}
	n, okn := dec("n")
	eb, oke := dec("e")
	if !okn || !oke {
		return "", false
	}
	e := new(big.Int).SetBytes(eb)
	if new(big.Int).SetBytes(n).BitLen() < 2048 || e.Cmp(big.NewInt(65537)) < 0 || e.Cmp(big.NewInt(1<<31-1)) > 0 || e.Bit(0) == 0 {
		return "", false
	}
	return alg + "." + kid + "." + hx.H(n) + ":" + e.String(), true
}

func refImport(canon string) string {
	if canon == "!" {
		return "rej"
	}
	l, ok := canonToMap(canon)["keys"].([]any)
	if !ok || len(l) == 0 {
		return "rej"
	}
	var ks []string
	for _, v := range l {
		k, ok := refImportKey(v)
		if !ok {
			return "rej"
		}
		ks = append(ks, k)
	}
	return "ok " + keyList(ks)
}

// curveTable: the on-curve table of an I line for a JWK set text.
func curveTable(canon string) string {
	if canon == "!" {
		return "~"
	}
	l, _ := canonToMap(canon)["keys"].([]any)
	var out []string
	seen := map[string]bool{}
	for _, v := range l {
		m, ok := v.(map[string]any)
		if !ok {
			continue
		}
		alg, _ := m["alg"].(string)
		if famOf(alg) != "ES" {
			continue
		}
		xs, okx := m["x"].(string)
		ys, oky := m["y"].(string)
		if !okx || !oky {
			continue
		}
		x, okx := b64Lenient(xs)
		y, oky := b64Lenient(ys)
		if !okx || !oky {
			continue
		}
		pt := append(append([]byte{4}, x...), y...)
		for _, bits := range []string{"256", "384", "512"} {
			e := bits + ":" + hx.H(pt) + ":" + b01(onCurveStd(bits, pt))
			if !seen[e] {
				seen[e] = true
				out = append(out, e)
			}
		}
	}
	if len(out) == 0 {
		return "~"
	}
	return strings.Join(out, ",")
}

func lineI(text, tag string) string {
	canon := parseObject([]byte(text))
	return strings.Join([]string{"C09", "I", hx.H([]byte(text)), canon, curveTable(canon), tag}, "|")
}

// exportedTextLine: the JWK set TEXT that the real JWKSetFromPublicKeysetHandle
// produces for ks (at generation time), as an I line: the model parses Tink's
// own text, its parse is compared with structpb's, and the set is imported.
func exportedTextLine(ks []xk, tag string) (string, bool) {
	h, err := buildHandleX(ks)
	if err != nil {
		return "", false
	}
	js, err := jwt.JWKSetFromPublicKeysetHandle(h)
	if err != nil {
		return "", false
	}
	return lineI(string(js), tag), true
}

func lineX(ks []xk, tag string) string {
	for i := range ks {
		ks[i].Pub = pubOf(ks[i].kd)
	}
	return strings.Join([]string{"C09", "X", xkeysString(ks), tag}, "|")
}

func checkI(f []string, obs string) string {
	text := hx.UH(f[2])
	if canon := parseObject(text); canon != f[3] {
		return "SETUP-FAIL the parsed value in the line is not the parse of the text"
	} else if curveTable(canon) != f[4] {
		return "SETUP-FAIL the on-curve table in the line is not what crypto/elliptic says"
	}
	tag := f[len(f)-1]
	got := obs
	if strings.HasPrefix(obs, "ok ") {
		got = "ok"
	}
	if i := strings.LastIndex(tag, ":"); i >= 0 {
		if want := map[string]string{"A": "ok", "R": "rej"}[tag[i+1:]]; want != "" && want != got {
			return "by construction this JWK set must give " + want + ", implementation gave " + got
		}
	}
	if want := refImport(f[3]); want != obs {
		return "property-text import rules say " + want[:min(len(want), 60)] + ", implementation gave " + obs[:min(len(obs), 60)]
	}
	return ""
}

// ---- generators ----

// jwkOf: a correct public JWK of an ES/RS/PS descriptor.
func jwkOf(d kd) map[string]any {
	m := map[string]any{"alg": d.Alg, "use": "sig", "key_ops": []any{"verify"}}
	switch d.Kid {
	case 'T':
		m["kid"] = tinkKid(d.ID)
	case 'C':
		m["kid"] = d.CustomKid
	}
	if famOf(d.Alg) == "ES" {
		pt := ecPoint(d)
		_, _, n := curveOf(d.Alg)
		m["kty"], m["crv"] = "EC", map[string]string{"ES256": "P-256", "ES384": "P-384", "ES512": "P-521"}[d.Alg]
		m["x"], m["y"] = b64Enc(pt[1:1+n]), b64Enc(pt[1+n:])
	} else {
		n, e := rsaPublic(d.Mat)
		m["kty"], m["n"], m["e"] = "RSA", b64Enc(n), b64Enc(minBE(e))
	}
	return m
}

func setText(keys ...any) string {
	b, err := json.Marshal(map[string]any{"keys": keys})
	if err != nil {
		panic(err)
	}
	return string(b)
}

func nextAlg(alg string) string {
	return alg[:2] + map[string]string{"256": "384", "384": "512", "512": "256"}[alg[2:]]
}

var commonMuts = []string{
	"none:A", "extra-member:A",
	"d:R", "d-null:R",
	"use-enc:R", "use-num:R", "use-null:R", "use-absent:A", "use-SIG:R",
	"ops-sign:R", "ops-two:R", "ops-dup:R", "ops-notlist:R", "ops-empty:R", "ops-num:R", "ops-null:R", "ops-absent:A", "ops-nested:R",
	"alg-missing:R", "alg-E:R", "alg-empty:R", "alg-XS256:R", "alg-num:R", "alg-prefix-only:R", "alg-lower:R", "alg-space:R",
	"alg-999:R", "alg-EdDSA:R", "alg-Ed25519-okp:R", "alg-none:R", "alg-HS256:R", "alg-null:R",
	"kty-other:R", "kty-missing:R", "kty-num:R", "kty-lower:R", "kty-oct:R",
	"kid-num:R", "kid-null:R", "kid-obj:R", "kid-list:R", "kid-bool:R", "kid-str:A", "kid-empty:A", "kid-absent:A", "kid-unicode:A",
}
var esMuts = []string{
	"p-member:A", "alg-next:R", "crv-next:R", "crv-missing:R", "crv-num:R", "alg-crv-next:R", "crv-lower:R", "alg-RS256:R",
	"x-plus:R", "x-slash:R", "x-pad:R", "x-space:R", "x-newline:R", "x-cr:R", "x-dot:R", "x-nonascii:R", "x-mod1:R", "x-long:R", "x-short:R", "x-empty:R", "x-shift:A", "y-shift:A",
	"x-noncanon:A", "y-noncanon:A", "x-missing:R", "y-missing:R", "x-num:R", "y-null:R", "y-flip:R", "x-flip:R", "x-ge-p:R", "xy-zero:R", "xy-swap:R", "y-neg:A",
}
var rsaMuts = []string{
	"p:R", "q:R", "dp:R", "dq:R", "qi:R", "p-null:R", "x-member:A", "alg-swap:A", "alg-ES256:R",
	"n-1024:R", "n-2047:R", "n-2048-min:A", "n-leading-zero:A", "n-leading-zeros-small:R", "n-empty:R", "n-missing:R", "n-badb64:R", "n-newline:R", "n-num:R", "n-4096:A", "n-noncanon:A", "n-pad:R",
	"e-3:R", "e-65536:R", "e-65538:R", "e-65539:A", "e-leading-zero:A", "e-max:A", "e-max-plus-2:R", "e-2p63:R", "e-2p64:R", "e-empty:R", "e-zero:R", "e-missing:R", "e-badb64:R", "e-num:R", "e-1:R",
}

// curveP: the field prime of the curve of an ES algorithm, as coordinate-width bytes.
func curveP(alg string) []byte {
	c, _, n := curveOf(alg)
	return c.Params().P.FillBytes(make([]byte, n))
}

// mutate applies one named manipulation to a correct JWK object.
func mutate(m map[string]any, d kd, name string) {
	rep := func(field string, f func(string) string) { m[field] = f(m[field].(string)) }
	decF := func(field string) []byte { b, _ := b64Lenient(m[field].(string)); return b }
	noncanon := func(s string) string {
		if len(s)%4 == 0 {
			return s // no unused bits
		}
		v := strings.IndexByte(b64abc, s[len(s)-1])
		return s[:len(s)-1] + string(b64abc[v|1])
	}
	switch name {
	case "none":
	case "extra-member":
		m["foo"] = map[string]any{"bar": []any{1.0, "two", nil}}
		m["x5c"] = []any{}
	case "d":
		if famOf(d.Alg) == "ES" {
			m["d"] = b64Enc(hx.UH(d.Mat))
		} else {
			m["d"] = b64Enc([]byte{1, 2, 3})
		}
	case "d-null":
		m["d"] = nil
	case "p", "q", "dp", "dq", "qi", "p-member":
		m[strings.TrimSuffix(name, "-member")] = "AQ"
	case "p-null":
		m["p"] = nil
	case "x-member":
		m["x"] = "AQ"
	case "use-enc":
		m["use"] = "enc"
	case "use-SIG":
		m["use"] = "SIG"
	case "use-num":
		m["use"] = 1.0
	case "use-null":
		m["use"] = nil
	case "use-absent":
		delete(m, "use")
	case "ops-sign":
		m["key_ops"] = []any{"sign"}
	case "ops-two":
		m["key_ops"] = []any{"verify", "sign"}
	case "ops-dup":
		m["key_ops"] = []any{"verify", "verify"}
	case "ops-notlist":
		m["key_ops"] = "verify"
	case "ops-empty":
		m["key_ops"] = []any{}
	case "ops-num":
		m["key_ops"] = []any{1.0}
	case "ops-nested":
		m["key_ops"] = []any{[]any{"verify"}}
	case "ops-null":
		m["key_ops"] = nil
	case "ops-absent":
		delete(m, "key_ops")
	case "alg-missing":
		delete(m, "alg")
	case "alg-E":
		m["alg"] = d.Alg[:1]
	case "alg-empty":
		m["alg"] = ""
	case "alg-XS256":
		m["alg"] = "X" + d.Alg[1:]
	case "alg-num":
		m["alg"] = 256.0
	case "alg-null":
		m["alg"] = nil
	case "alg-prefix-only":
		m["alg"] = d.Alg[:2]
	case "alg-lower":
		m["alg"] = strings.ToLower(d.Alg)
	case "alg-space":
		m["alg"] = d.Alg + " "
	case "alg-999":
		m["alg"] = d.Alg[:2] + "999"
	case "alg-EdDSA":
		m["alg"] = "EdDSA"
	case "alg-Ed25519-okp":
		for k := range m {
			delete(m, k)
		}
		m["alg"], m["kty"], m["crv"], m["x"], m["use"] = "EdDSA", "OKP", "Ed25519", b64Enc(make([]byte, 32)), "sig"
	case "alg-none":
		m["alg"] = "none"
	case "alg-HS256":
		m["alg"] = "HS256"
	case "alg-next":
		m["alg"] = nextAlg(d.Alg)
	case "alg-swap":
		m["alg"] = map[string]string{"RS": "PS", "PS": "RS"}[d.Alg[:2]] + d.Alg[2:]
	case "alg-ES256":
		m["alg"] = "ES256"
	case "alg-RS256":
		m["alg"] = "RS256"
	case "crv-next":
		m["crv"] = map[string]string{"P-256": "P-384", "P-384": "P-521", "P-521": "P-256"}[m["crv"].(string)]
	case "alg-crv-next":
		m["alg"] = nextAlg(d.Alg)
		m["crv"] = map[string]string{"P-256": "P-384", "P-384": "P-521", "P-521": "P-256"}[m["crv"].(string)]
	case "crv-missing":
		delete(m, "crv")
	case "crv-num":
		m["crv"] = 256.0
	case "crv-lower":
		m["crv"] = strings.ToLower(m["crv"].(string))
	case "kty-other":
		m["kty"] = map[string]string{"EC": "RSA", "RSA": "EC"}[m["kty"].(string)]
	case "kty-missing":
		delete(m, "kty")
	case "kty-num":
		m["kty"] = 2.0
	case "kty-lower":
		m["kty"] = strings.ToLower(m["kty"].(string))
	case "kty-oct":
		m["kty"] = "oct"
	case "kid-num":
		m["kid"] = 7.0
	case "kid-null":
		m["kid"] = nil
	case "kid-obj":
		m["kid"] = map[string]any{}
	case "kid-list":
		m["kid"] = []any{"k"}
	case "kid-bool":
		m["kid"] = true
	case "kid-str":
		m["kid"] = "imported kid"
	case "kid-empty":
		m["kid"] = ""
	case "kid-unicode":
		m["kid"] = "ключ-鍵"
	case "kid-absent":
		delete(m, "kid")
	case "x-plus":
		rep("x", func(s string) string { return "+" + s[1:] })
	case "x-slash":
		rep("x", func(s string) string { return s[:1] + "/" + s[2:] })
	case "x-pad", "n-pad":
		rep(name[:1], func(s string) string { return s + "=" })
	case "x-space":
		rep("x", func(s string) string { return s[:3] + " " + s[3:] })
	case "x-newline":
		// encoding/base64 silently skips \n and \r: only the explicit alphabet check rejects them
		rep("x", func(s string) string { return s[:3] + "\n" + s[3:] })
	case "x-cr":
		rep("x", func(s string) string { return s + "\r" })
	case "n-newline":
		rep("n", func(s string) string { return s[:7] + "\n" + s[7:] })
	case "x-dot":
		rep("x", func(s string) string { return s[:len(s)-1] + "." })
	case "x-nonascii":
		rep("x", func(s string) string { return s[:2] + "é" + s[4:] })
	case "x-mod1":
		rep("x", func(s string) string {
			for len(s)%4 != 1 {
				s = s[:len(s)-1]
			}
			return s
		})
	case "x-long":
		m["x"] = b64Enc(append([]byte{0}, decF("x")...))
	case "x-short":
		m["x"] = b64Enc(decF("x")[1:])
	case "x-empty":
		m["x"] = ""
	case "x-shift": // x one byte shorter, y one byte longer: the same 04||x||y
		x, y := decF("x"), decF("y")
		m["x"], m["y"] = b64Enc(x[:len(x)-1]), b64Enc(append([]byte{x[len(x)-1]}, y...))
	case "y-shift":
		x, y := decF("x"), decF("y")
		m["x"], m["y"] = b64Enc(append(append([]byte{}, x...), y[0])), b64Enc(y[1:])
	case "x-noncanon", "y-noncanon", "n-noncanon":
		rep(name[:1], noncanon)
	case "x-missing", "y-missing", "n-missing", "e-missing":
		delete(m, name[:1])
	case "x-num", "n-num", "e-num":
		m[name[:1]] = 65537.0
	case "y-null":
		m["y"] = nil
	case "y-flip", "x-flip":
		b := decF(name[:1])
		b[len(b)-1] ^= 1
		m[name[:1]] = b64Enc(b)
	case "x-ge-p":
		m["x"] = b64Enc(curveP(d.Alg))
	case "xy-zero":
		z := make([]byte, len(decF("x")))
		m["x"], m["y"] = b64Enc(z), b64Enc(z)
	case "xy-swap":
		m["x"], m["y"] = m["y"], m["x"]
	case "y-neg": // (x, p - y) is on the curve as well: a different valid key
		p := new(big.Int).SetBytes(curveP(d.Alg))
		y := decF("y")
		m["y"] = b64Enc(new(big.Int).Sub(p, new(big.Int).SetBytes(y)).FillBytes(make([]byte, len(y))))
	case "n-1024":
		n := decF("n")
		m["n"] = b64Enc(n[:128])
	case "n-2047":
		n := decF("n")
		n[0] = 0x7f
		m["n"] = b64Enc(n)
	case "n-2048-min":
		n := make([]byte, 256)
		n[0] = 0x80
		m["n"] = b64Enc(n)
	case "n-leading-zero":
		m["n"] = b64Enc(append([]byte{0, 0, 0}, decF("n")...))
	case "n-leading-zeros-small":
		m["n"] = b64Enc(append(make([]byte, 200), decF("n")[:100]...))
	case "n-empty":
		m["n"] = ""
	case "n-badb64":
		rep("n", func(s string) string { return s[:5] + "*" + s[6:] })
	case "n-4096":
		n := new(big.Int).SetBytes(decF("n"))
		m["n"] = b64Enc(new(big.Int).Mul(n, n).Bytes())
	case "e-3":
		m["e"] = b64Enc([]byte{3})
	case "e-1":
		m["e"] = b64Enc([]byte{1})
	case "e-65536":
		m["e"] = b64Enc([]byte{1, 0, 0})
	case "e-65538":
		m["e"] = b64Enc([]byte{1, 0, 2})
	case "e-65539":
		m["e"] = b64Enc([]byte{1, 0, 3})
	case "e-leading-zero":
		m["e"] = b64Enc([]byte{0, 0, 1, 0, 1})
	case "e-max":
		m["e"] = b64Enc([]byte{0x7f, 0xff, 0xff, 0xff})
	case "e-max-plus-2":
		m["e"] = b64Enc([]byte{0x80, 0, 0, 1})
	case "e-2p63":
		m["e"] = b64Enc([]byte{0x80, 0, 0, 0, 0, 0, 0, 1})
	case "e-2p64":
		m["e"] = b64Enc([]byte{1, 0, 0, 0, 0, 0, 1, 0, 1})
	case "e-empty":
		m["e"] = ""
	case "e-zero":
		m["e"] = b64Enc([]byte{0})
	case "e-badb64":
		m["e"] = "AQ@B"
	default:
		panic("unknown JWK mutation " + name)
	}
}

func mutsFor(alg string) []string {
	if famOf(alg) == "ES" {
		return append(append([]string{}, commonMuts...), esMuts...)
	}
	return append(append([]string{}, commonMuts...), rsaMuts...)
}

func splitTag(mut string) (string, string) {
	i := strings.LastIndex(mut, ":")
	return mut[:i], mut[i:]
}

// directedJWK: every manipulation on one key of each family, the shapes of the
// set, and the export cases the property names.
func directedJWK() []string {
	g := &G{r: hx.NewRng(20260926), pool: map[string][]string{}}
	var out []string
	mk := func(alg string, kid byte, id uint32) kd {
		d := kd{ID: id, Enabled: true, Primary: true, Alg: alg, Kid: kid}
		if alg == "Ed25519" {
			d.Mat = g.seed32()
		} else {
			d.Mat = g.material(alg)
		}
		if kid == 'C' {
			d.CustomKid = "custom-kid"
		}
		return d
	}
	for i, alg := range []string{"ES256", "ES384", "ES512", "RS256", "PS384"} {
		d := mk(alg, "TIC"[i%3], 0x01020304+uint32(i))
		for _, mut := range mutsFor(alg) {
			name, exp := splitTag(mut)
			m := jwkOf(d)
			mutate(m, d, name)
			out = append(out, lineI(setText(m), "jwk-"+alg[:2]+"-"+name+exp))
		}
	}
	es, rs := mk("ES256", 'I', 1), mk("RS512", 'C', 2)
	good, good2 := jwkOf(es), jwkOf(rs)
	bad := jwkOf(es)
	bad["d"] = "AQ"
	for _, c := range []struct{ text, tag string }{
		{setText(good, good2), "set-two-good:A"},
		{setText(good2, good, good2), "set-three-good:A"},
		{setText(good, bad), "set-second-bad:R"},
		{setText(bad, good), "set-first-bad:R"},
		{`{"keys":[]}`, "set-empty-list:R"},
		{`{}`, "set-no-keys:R"},
		{`{"Keys":[` + setText(good)[9:], "set-keys-misspelled:R"},
		{`{"keys":{}}`, "set-keys-object:R"},
		{`{"keys":"x"}`, "set-keys-string:R"},
		{`{"keys":null}`, "set-keys-null:R"},
		{`{"keys":1}`, "set-keys-number:R"},
		{`{"keys":["a"]}`, "set-key-string:R"},
		{`{"keys":[1]}`, "set-key-number:R"},
		{`{"keys":[null]}`, "set-key-null:R"},
		{`{"keys":[[]]}`, "set-key-list:R"},
		{`{"keys":[{}]}`, "set-key-empty-object:R"},
		{setText(good, "x"), "set-second-not-object:R"},
		{`[]`, "text-array:R"},
		{`{`, "text-garbage:R"},
		{``, "text-empty:R"},
		{`{"keys":[],"keys":` + setText(good)[8:], "text-duplicate-member:R"},
		{setText(good)[:len(setText(good))-1] + `,"other":[1,2,{"a":null}]}`, "set-extra-member:A"},
	} {
		out = append(out, lineI(c.text, c.tag))
	}
	// export; every keyset whose export succeeds also gives an I line with the exported TEXT
	var xtexts []string
	lineX := func(ks []xk, tag string) string {
		l := lineX(ks, tag)
		if t, ok := exportedTextLine(ks, "xtext-"+strings.SplitN(tag, ":", 2)[0]+":A"); ok {
			xtexts = append(xtexts, t)
		}
		return l
	}
	id := uint32(100)
	one := func(alg string, kid byte, private, enabled, primary bool) xk {
		id++
		d := mk(alg, kid, id)
		d.Enabled, d.Primary = enabled, primary
		return xk{kd: d, Private: private}
	}
	for _, alg := range sigAlgs {
		for _, kid := range []byte{'T', 'I', 'C'} {
			out = append(out, lineX([]xk{one(alg, kid, false, true, true)}, "exp-public:E"))
		}
		out = append(out, lineX([]xk{one(alg, 'T', true, true, true)}, "exp-private:F"))
		// a disabled private key next to an enabled public key is skipped before the type switch
		out = append(out, lineX([]xk{one(alg, 'I', true, false, false), one(alg, 'T', false, true, true)}, "exp-disabled-private:E"))
		out = append(out, lineX([]xk{one(alg, 'I', false, true, true), one(alg, 'T', true, true, false)}, "exp-mixed-private:F"))
	}
	for _, alg := range []string{"HS256", "ML-DSA-44", "Ed25519"} {
		out = append(out, lineX([]xk{one(alg, 'T', false, true, true)}, "exp-unsupported:F"))
		out = append(out, lineX([]xk{one(alg, 'I', true, true, true)}, "exp-unsupported-secret:F"))
		out = append(out, lineX([]xk{one("ES256", 'I', false, true, true), one(alg, 'I', false, true, false)}, "exp-unsupported-member:F"))
		out = append(out, lineX([]xk{one("RS256", 'I', false, true, true), one(alg, 'I', false, false, false)}, "exp-unsupported-disabled:E"))
	}
	badKid := one("ES384", 'C', false, true, true)
	badKid.CustomKid = "\xff\xfekid"
	out = append(out, lineX([]xk{badKid}, "exp-kid-not-utf8:F"))
	badKid.Enabled, badKid.Primary = false, false
	out = append(out, lineX([]xk{badKid, one("PS256", 'C', false, true, true)}, "exp-kid-not-utf8-disabled:E"))
	n0 := rsaKey("r0").n
	sq := new(big.Int).Mul(new(big.Int).SetBytes(n0), new(big.Int).SetBytes(rsaKey("r1").n)).Bytes()
	for i, mat := range []string{
		"m" + hx.H(append([]byte{0}, n0...)) + "x65537", "m" + hx.H(append(make([]byte, 5), n0...)) + "x65539",
		"m" + hx.H(n0) + "x2147483647", "m" + hx.H(sq) + "x65537", "m" + hx.H(n0) + "x16777217",
	} {
		x := one([]string{"RS256", "PS512"}[i%2], "TIC"[i%3], false, true, true)
		x.Mat = mat
		out = append(out, lineX([]xk{x}, "exp-rsa-shapes:E"))
	}
	return append(out, xtexts...)
}

func (g *G) seed32() string { return hx.H(g.r.Bytes(32)) }

// exportCase: a random keyset of public, private and unsupported keys.
func (g *G) exportCase() string {
	r := g.r
	n := 1 + r.Intn(4)
	var ks []xk
	used := map[uint32]bool{}
	for len(ks) < n {
		id := g.keyID()
		if used[id] {
			continue
		}
		used[id] = true
		alg := hx.PickS(r, sigAlgs)
		switch k := r.Intn(100); {
		case k < 5:
			alg = hx.PickS(r, macAlgs)
		case k < 9:
			alg = "ML-DSA-44"
		case k < 13:
			alg = "Ed25519"
		}
		var d kd
		if alg == "Ed25519" {
			d = kd{ID: id, Enabled: true, Alg: alg, Kid: "TI"[r.Intn(2)], Mat: g.seed32()}
		} else {
			d = g.key(id, alg)
		}
		if d.Kid == 'C' && r.Chance(6) {
			d.CustomKid = "bad\xff"
		}
		x := xk{kd: d, Private: r.Chance(12)}
		if (alg[:2] == "RS" || alg[:2] == "PS") && !x.Private && r.Chance(35) {
			nb := rsaKey(d.Mat).n
			e := hx.PickS(r, []int{65537, 65537, 65539, 2147483647, 100001})
			if r.Chance(50) {
				nb = append(make([]byte, 1+r.Intn(3)), nb...)
			}
			x.Mat = "m" + hx.H(nb) + "x" + strconv.Itoa(e)
		}
		x.Enabled = r.Chance(70)
		ks = append(ks, x)
	}
	p := r.Intn(n)
	ks[p].Enabled, ks[p].Primary = true, true
	l := lineX(ks, "exp-random")
	if t, ok := exportedTextLine(ks, "xtext-exp-random:A"); ok {
		g.extra = append(g.extra, t)
	}
	return l
}

// importCase: a JWK set of 1..3 keys, some manipulated.
func (g *G) importCase() string {
	r := g.r
	n := 1 + r.Intn(3)
	var objs []any
	tag := "imp"
	for i := 0; i < n; i++ {
		d := g.key(g.keyID(), hx.PickS(r, sigAlgs))
		m := jwkOf(d)
		if r.Chance(55) {
			name, _ := splitTag(hx.PickS(r, mutsFor(d.Alg)))
			mutate(m, d, name)
			tag += "-" + d.Alg[:2] + "." + name
			if r.Chance(15) {
				name2, _ := splitTag(hx.PickS(r, mutsFor(d.Alg)))
				func() {
					defer func() { recover() }() // the second manipulation may not apply to the first's result
					mutate(m, d, name2)
				}()
				tag += "+" + name2
			}
		} else {
			tag += "-" + d.Alg[:2] + ".ok"
		}
		objs = append(objs, m)
	}
	return lineI(setText(objs...), tag)
}

func classJWK(f []string, obs string) string {
	res := obs
	if i := strings.IndexByte(obs, ' '); i > 0 {
		res = obs[:i]
	}
	if strings.HasPrefix(obs, "jwk=") {
		res = "exported"
	}
	tag := f[len(f)-1]
	if i := strings.Index(tag, ":"); i >= 0 {
		tag = tag[:i]
	}
	if f[1] == "X" {
		shape := ""
		for _, x := range parseXKeys(f[2]) {
			v := "p"
			if x.Private {
				v = "s"
			}
			if !x.Enabled {
				v = strings.ToUpper(v)
			}
			shape += x.Alg[:2] + string(x.Kid) + v
		}
		return "X/" + tag + "/" + shape + "/" + res
	}
	if len(tag) > 40 {
		tag = tag[:40]
	}
	if strings.HasPrefix(tag, "jt-") { // JSON text layer (gen_jsontext.go)
		return "T/" + tag[3:] + "/" + res
	}
	return "I/" + tag + "/" + res
}
