package c19

import (
	"strings"

	"github.com/tink-crypto/tink-go/v2/verifharness/hx"
)

// case lines:
//   P|<program>                      slice program (model-compared)
//   G|prim|<template>|<seed>         guard regions around a primitive obtained from a handle
//   G|ctor|<constructor>|<seed>      constructor keeps no reference to caller bytes
//   G|acc|<template>|<seed>          accessors / serializations hand out copies
//   G|legacy|<kind>/<prefix>|<seed>  legacy primitives behind the factory adapters
//   G|saad|<template>|<seed>         associated data mutated after NewDecryptingReader
//   G|derive||<seed>                 keyset derivation salt
// observation: P: per variable len:hex(cap view); G: "ok" or "VIOL what ## what"

func run(in string) string {
	f := strings.SplitN(in, "|", 4)
	switch f[0] {
	case "P":
		o, _ := runProg(f[1], false)
		return o
	case "G":
		seed := uint64(0)
		for _, c := range f[3] {
			seed = seed*10 + uint64(c-'0')
		}
		r := hx.NewRng(seed)
		switch f[1] {
		case "prim":
			return opPrimitive(f[2], r)
		case "ctor":
			return opCtor(f[2], r)
		case "acc":
			return opAccessors(f[2], r)
		case "legacy":
			return opLegacy(f[2], r)
		case "saad":
			return opStreamAAD(f[2], r)
		case "derive":
			return opDerive(r)
		}
	}
	return "badcase"
}

func gen(r *hx.Rng, n int, tier string) []string {
	var lines []string
	seed := func() string {
		return strings.TrimLeft(strings.Map(func(c rune) rune { return c }, itoa(r.U64()%1000000)), "")
	}
	// the whole catalogue once (every run), then random slice programs
	for _, t := range templates {
		lines = append(lines, "G|prim|"+t.name+"|"+seed())
		lines = append(lines, "G|acc|"+t.name+"|"+seed())
		if t.class == "stream" {
			lines = append(lines, "G|saad|"+t.name+"|"+seed())
		}
	}
	for _, c := range ctors() {
		lines = append(lines, "G|ctor|"+c.name+"|"+seed())
	}
	for _, k := range []string{"MAC", "AEAD", "SIG"} {
		for _, p := range []string{"TINK", "LEGACY", "CRUNCHY", "RAW"} {
			lines = append(lines, "G|legacy|"+k+"/"+p+"|"+seed())
		}
	}
	lines = append(lines, "G|derive||"+seed())
	reps := 1
	if tier == "thorough" {
		reps = 10
	}
	for i := 0; i < reps; i++ {
		for _, t := range templates {
			lines = append(lines, "G|prim|"+t.name+"|"+seed())
		}
		for _, k := range []string{"MAC", "AEAD", "SIG"} {
			lines = append(lines, "G|legacy|"+k+"/LEGACY|"+seed())
		}
	}
	for i := 0; i < n; i++ {
		lines = append(lines, "P|"+genProg(r))
	}
	return lines
}

func itoa(x uint64) string {
	if x == 0 {
		return "0"
	}
	var b []byte
	for x > 0 {
		b = append([]byte{byte('0' + x%10)}, b...)
		x /= 10
	}
	return string(b)
}

func check(in, obs string) string {
	if strings.HasPrefix(obs, "PANIC") {
		return obs
	}
	if strings.HasPrefix(in, "G|") && obs != "ok" {
		f := strings.SplitN(in, "|", 4)
		return "[" + f[1] + " " + f[2] + "] " + strings.TrimPrefix(obs, "VIOL ")
	}
	return ""
}

func class(in, obs string) string {
	f := strings.SplitN(in, "|", 4)
	if f[0] == "G" {
		return "G:" + f[1] + ":" + f[2]
	}
	// slice programs: class = multiset of instruction kinds, non-trivial when an
	// in-place append or a copy through an alias happens
	kinds := map[byte]bool{}
	for _, ins := range strings.Split(f[1], ";") {
		if ins != "" {
			kinds[ins[0]] = true
		}
	}
	if !kinds['A'] && !kinds['C'] && !kinds['W'] {
		return ""
	}
	var ks []byte
	for _, k := range []byte("MSTWACKL") {
		if kinds[k] {
			ks = append(ks, k)
		}
	}
	return "P:" + string(ks) + ":" + itoa(uint64(strings.Count(f[1], ";")/4))
}

func init() {
	hx.Register("C19", &hx.Prop{Gen: gen, Run: run, Check: check, Class: class})
}
