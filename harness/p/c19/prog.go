// Package c19: (P) random slice programs run on the Go runtime, compared with
// the Coq heap model; (G) guard-region catalogue: every operation taking or
// returning bytes is run with inputs inside larger canary-filled buffers with
// spare capacity, then inputs/outputs are mutated and objects compared with
// pristine copies (direct property oracle, no model).
package c19

import (
	"bytes"
	"fmt"
	"slices"
	"strconv"
	"strings"

	"github.com/tink-crypto/tink-go/v2/verifharness/hx"
)

// program text: instructions separated by ';'
//   M n c | S v lo hi | T v lo hi mx | W v i x | A v hex newcap | C d s | K v,v,.. newcap | L v newcap

func runProg(prog string, learn bool) (obs string, learned string) {
	var vars [][]byte
	var out []string
	mark := func(s []byte, nv int) {
		full := s[:cap(s)]
		for k := range full {
			full[k] = byte((nv*16 + k) % 256)
		}
	}
	for _, ins := range strings.Split(prog, ";") {
		f := strings.Fields(ins)
		if len(f) == 0 {
			continue
		}
		n := func(i int) int { v, _ := strconv.Atoi(f[i]); return v }
		v := func(i int) ([]byte, bool) {
			k := n(i)
			if k < 0 || k >= len(vars) {
				return nil, false
			}
			return vars[k], true
		}
		rec := ins
		switch f[0] {
		case "M":
			if n(1) <= n(2) {
				s := make([]byte, n(1), n(2))
				mark(s, len(vars))
				vars = append(vars, s)
			}
		case "S":
			if s, ok := v(1); ok && n(2) <= n(3) && n(3) <= cap(s) {
				vars = append(vars, s[n(2):n(3)])
			}
		case "T":
			if s, ok := v(1); ok && n(2) <= n(3) && n(3) <= n(4) && n(4) <= cap(s) {
				vars = append(vars, s[n(2):n(3):n(4)])
			}
		case "W":
			if s, ok := v(1); ok && n(2) < len(s) {
				s[n(2)] = byte(n(3))
			}
		case "A":
			if s, ok := v(1); ok {
				r := append(s, hx.UH(f[2])...)
				vars = append(vars, r)
				if learn {
					rec = fmt.Sprintf("A %s %s %d", f[1], f[2], cap(r))
				}
			}
		case "C":
			d, ok1 := v(1)
			s, ok2 := v(2)
			if ok1 && ok2 {
				copy(d, s)
			}
		case "K":
			var ss [][]byte
			ok := true
			for _, x := range strings.Split(f[1], ",") {
				k, _ := strconv.Atoi(x)
				if k < 0 || k >= len(vars) {
					ok = false
					break
				}
				ss = append(ss, vars[k])
			}
			if ok {
				r := slices.Concat(ss...)
				if r == nil {
					r = []byte{}
				}
				vars = append(vars, r)
				if learn {
					rec = fmt.Sprintf("K %s %d", f[1], cap(r))
				}
			}
		case "L":
			if s, ok := v(1); ok {
				r := bytes.Clone(s)
				if r == nil { // bytes.Clone(nil) = nil; our slices are never nil but may be empty
					r = []byte{}
				}
				vars = append(vars, r)
				if learn {
					rec = fmt.Sprintf("L %s %d", f[1], cap(r))
				}
			}
		}
		out = append(out, rec)
	}
	var o []string
	for _, s := range vars {
		o = append(o, strconv.Itoa(len(s))+":"+hx.H(s[:cap(s)]))
	}
	return strings.Join(o, ","), strings.Join(out, ";")
}

func genProg(r *hx.Rng) string {
	n := 3 + r.Intn(14)
	var ins []string
	nv := 0
	for i := 0; i < n; i++ {
		pv := func() int {
			if nv == 0 {
				return 0
			}
			return r.Intn(nv + 1) // sometimes out of range: instruction skipped on both sides
		}
		switch x := r.Intn(100); {
		case x < 18 || nv == 0:
			c := r.Intn(12)
			ins = append(ins, fmt.Sprintf("M %d %d", r.Intn(c+2), c))
			nv++
		case x < 32:
			a, b := r.Intn(10), r.Intn(10)
			ins = append(ins, fmt.Sprintf("S %d %d %d", pv(), min(a, b), max(a, b)))
			nv++
		case x < 40:
			a, b, c := r.Intn(10), r.Intn(10), r.Intn(10)
			l := []int{a, b, c}
			slices.Sort(l)
			ins = append(ins, fmt.Sprintf("T %d %d %d %d", pv(), l[0], l[1], l[2]))
			nv++
		case x < 55:
			ins = append(ins, fmt.Sprintf("W %d %d %d", pv(), r.Intn(8), 200+r.Intn(50)))
		case x < 75:
			ins = append(ins, fmt.Sprintf("A %d %s 0", pv(), hx.H(r.Bytes(r.Intn(4)))))
			nv++
		case x < 83:
			ins = append(ins, fmt.Sprintf("C %d %d", pv(), pv()))
		case x < 92:
			k := 1 + r.Intn(3)
			var vs []string
			for j := 0; j < k; j++ {
				vs = append(vs, strconv.Itoa(pv()))
			}
			ins = append(ins, "K "+strings.Join(vs, ",")+" 0")
			nv++
		default:
			ins = append(ins, fmt.Sprintf("L %d 0", pv()))
			nv++
		}
	}
	// the number of variables the generator assumed may exceed the real one
	// (skipped instructions); that only makes more instructions skip.
	_, learned := runProg(strings.Join(ins, ";"), true)
	return learned
}
