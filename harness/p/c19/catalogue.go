package c19

import (
	"bytes"
	"context"
	"crypto/ed25519"
	"fmt"
	"io"
	"reflect"
	"sort"
	"strings"
	"sync"

	"crypto/elliptic"
	"github.com/tink-crypto/tink-go/v2/aead"
	aeadsubtle "github.com/tink-crypto/tink-go/v2/aead/subtle"
	"github.com/tink-crypto/tink-go/v2/core/registry"
	"github.com/tink-crypto/tink-go/v2/daead"
	daeadsubtle "github.com/tink-crypto/tink-go/v2/daead/subtle"

	"github.com/tink-crypto/tink-go/v2/aead/aesgcm"
	"github.com/tink-crypto/tink-go/v2/hybrid"
	"github.com/tink-crypto/tink-go/v2/hybrid/ecies"
	hybridsubtle "github.com/tink-crypto/tink-go/v2/hybrid/subtle"
	"github.com/tink-crypto/tink-go/v2/insecurecleartextkeyset"
	"github.com/tink-crypto/tink-go/v2/insecuresecretdataaccess"
	"github.com/tink-crypto/tink-go/v2/internal/protoserialization"
	"github.com/tink-crypto/tink-go/v2/jwt"
	"github.com/tink-crypto/tink-go/v2/jwt/jwtecdsa"
	"github.com/tink-crypto/tink-go/v2/jwt/jwtrsassapkcs1"
	"github.com/tink-crypto/tink-go/v2/jwt/jwtrsassapss"
	"github.com/tink-crypto/tink-go/v2/key"
	"github.com/tink-crypto/tink-go/v2/keyderivation"
	"github.com/tink-crypto/tink-go/v2/keyset"
	kwpsubtle "github.com/tink-crypto/tink-go/v2/kwp/subtle"
	"github.com/tink-crypto/tink-go/v2/mac"
	macsubtle "github.com/tink-crypto/tink-go/v2/mac/subtle"
	"github.com/tink-crypto/tink-go/v2/prf"
	"github.com/tink-crypto/tink-go/v2/prf/hkdfprf"
	prfsubtle "github.com/tink-crypto/tink-go/v2/prf/subtle"
	"github.com/tink-crypto/tink-go/v2/secretdata"
	"github.com/tink-crypto/tink-go/v2/signature"
	"github.com/tink-crypto/tink-go/v2/signature/compositemldsa"
	"github.com/tink-crypto/tink-go/v2/signature/mldsa"
	"github.com/tink-crypto/tink-go/v2/signature/slhdsa"
	sigsubtle "github.com/tink-crypto/tink-go/v2/signature/subtle"
	"github.com/tink-crypto/tink-go/v2/streamingaead"
	streamsubtle "github.com/tink-crypto/tink-go/v2/streamingaead/subtle"
	"github.com/tink-crypto/tink-go/v2/streamingaead/subtle/noncebased"
	"github.com/tink-crypto/tink-go/v2/tink"
	"github.com/tink-crypto/tink-go/v2/verifharness/hx"
	"google.golang.org/protobuf/proto"

	tinkpb "github.com/tink-crypto/tink-go/v2/proto/tink_go_proto"
)

// ---- guard regions ---------------------------------------------------------

const canary = 0xA5

// guarded places data inside a larger canary-filled buffer with spare capacity:
// [8 canaries | data | 24 canaries]; the returned slice has len(data) and 16
// bytes of spare capacity (which are canaries).
type guard struct {
	buf  []byte
	s    []byte
	orig []byte
	name string
}

func guarded(name string, data []byte) *guard {
	buf := bytes.Repeat([]byte{canary}, 8+len(data)+24)
	copy(buf[8:], data)
	return &guard{buf: buf, s: buf[8 : 8+len(data) : 8+len(data)+16], orig: bytes.Clone(buf), name: name}
}

// intact reports "" when no byte of the whole buffer (data, spare capacity, guards) changed.
func (g *guard) intact() string {
	if bytes.Equal(g.buf, g.orig) {
		return ""
	}
	for i := range g.buf {
		if g.buf[i] != g.orig[i] {
			where := "its data"
			if i < 8 {
				where = "the bytes before it"
			} else if i >= 8+len(g.s) {
				where = "its spare capacity"
			}
			return fmt.Sprintf("caller buffer %q modified in %s (offset %d)", g.name, where, i-8)
		}
	}
	return ""
}

func flip(b []byte) {
	for i := range b {
		b[i] ^= 0xFF
	}
}

// overlaps reports whether mutating a changes b (shared memory).
func sharesMemory(a, b []byte) bool {
	if len(a) == 0 || len(b) == 0 {
		return false
	}
	saved := bytes.Clone(b)
	a0 := bytes.Clone(a)
	flip(a)
	shared := !bytes.Equal(b, saved)
	copy(a, a0)
	if shared {
		// when a and b overlap, restoring a restores b
	}
	return shared
}

type viol []string

func (v *viol) add(format string, a ...any) { *v = append(*v, fmt.Sprintf(format, a...)) }
func (v *viol) chk(gs ...*guard) {
	for _, g := range gs {
		if s := g.intact(); s != "" {
			v.add("%s", s)
		}
	}
}
func (v viol) result() string {
	if len(v) == 0 {
		return "ok"
	}
	u := map[string]bool{}
	var out []string
	for _, s := range v {
		if !u[s] {
			u[s] = true
			out = append(out, s)
		}
	}
	sort.Strings(out)
	return "VIOL " + strings.Join(out, " ## ")
}

// ---- handles ----------------------------------------------------------------

type tmpl struct {
	class string
	name  string
	t     func() *tinkpb.KeyTemplate
	p     func() (key.Parameters, error) // alternative to t
}

func hkdfSaltParams() (key.Parameters, error) {
	return hkdfprf.NewParameters(32, hkdfprf.SHA256, []byte("c19 salt bytes"))
}

func legacyOf(t func() *tinkpb.KeyTemplate) func() *tinkpb.KeyTemplate {
	return func() *tinkpb.KeyTemplate {
		x := proto.Clone(t()).(*tinkpb.KeyTemplate)
		x.OutputPrefixType = tinkpb.OutputPrefixType_LEGACY
		return x
	}
}

var templates = []tmpl{
	{class: "aead", name: "AES128GCM", t: aead.AES128GCMKeyTemplate},
	{class: "aead", name: "AES256GCMNoPrefix", t: aead.AES256GCMNoPrefixKeyTemplate},
	{class: "aead", name: "AES128CTRHMACSHA256", t: aead.AES128CTRHMACSHA256KeyTemplate},
	{class: "aead", name: "AES256CTRHMACSHA256", t: aead.AES256CTRHMACSHA256KeyTemplate},
	{class: "aead", name: "ChaCha20Poly1305", t: aead.ChaCha20Poly1305KeyTemplate},
	{class: "aead", name: "XChaCha20Poly1305", t: aead.XChaCha20Poly1305KeyTemplate},
	{class: "aead", name: "AES128GCMSIV", t: aead.AES128GCMSIVKeyTemplate},
	{class: "aead", name: "AES256GCMSIVNoPrefix", t: aead.AES256GCMSIVNoPrefixKeyTemplate},
	{class: "aead", name: "XAES256GCM192", t: aead.XAES256GCM192BitNonceKeyTemplate},
	{class: "aead", name: "XAES256GCM160NoPrefix", t: aead.XAES256GCM160BitNonceNoPrefixKeyTemplate},
	{class: "aead", name: "AES128GCM-LEGACY", t: legacyOf(aead.AES128GCMKeyTemplate)},
	{class: "daead", name: "AESSIV", t: daead.AESSIVKeyTemplate},
	{class: "daead", name: "AESSIV-LEGACY", t: legacyOf(daead.AESSIVKeyTemplate)},
	{class: "mac", name: "HMACSHA256Tag128", t: mac.HMACSHA256Tag128KeyTemplate},
	{class: "mac", name: "HMACSHA512Tag512", t: mac.HMACSHA512Tag512KeyTemplate},
	{class: "mac", name: "AESCMACTag128", t: mac.AESCMACTag128KeyTemplate},
	{class: "mac", name: "HMACSHA256Tag128-LEGACY", t: legacyOf(mac.HMACSHA256Tag128KeyTemplate)},
	{class: "mac", name: "AESCMACTag128-LEGACY", t: legacyOf(mac.AESCMACTag128KeyTemplate)},
	{class: "prf", name: "HMACSHA256PRF", t: prf.HMACSHA256PRFKeyTemplate},
	{class: "prf", name: "HKDFSHA256PRF", t: prf.HKDFSHA256PRFKeyTemplate},
	{class: "prf", name: "AESCMACPRF", t: prf.AESCMACPRFKeyTemplate},
	{class: "sig", name: "ECDSAP256", t: signature.ECDSAP256KeyTemplate},
	{class: "sig", name: "ECDSAP256Raw", t: signature.ECDSAP256RawKeyTemplate},
	{class: "sig", name: "ECDSAP384SHA512", t: signature.ECDSAP384SHA512KeyTemplate},
	{class: "sig", name: "ECDSAP521NoPrefix", t: signature.ECDSAP521KeyWithoutPrefixTemplate},
	{class: "sig", name: "ED25519", t: signature.ED25519KeyTemplate},
	{class: "sig", name: "ED25519NoPrefix", t: signature.ED25519KeyWithoutPrefixTemplate},
	{class: "sig", name: "ECDSAP256-LEGACY", t: legacyOf(signature.ECDSAP256KeyTemplate)},
	{class: "sig", name: "ED25519-LEGACY", t: legacyOf(signature.ED25519KeyTemplate)},
	{class: "hyb", name: "HPKE-X25519-AES128GCM", t: hybrid.DHKEM_X25519_HKDF_SHA256_HKDF_SHA256_AES_128_GCM_Key_Template},
	{class: "hyb", name: "HPKE-X25519-CHACHA-Raw", t: hybrid.DHKEM_X25519_HKDF_SHA256_HKDF_SHA256_CHACHA20_POLY1305_Raw_Key_Template},
	{class: "hyb", name: "HPKE-P256-AES256GCM", t: hybrid.DHKEM_P256_HKDF_SHA256_HKDF_SHA256_AES_256_GCM_Key_Template},
	{class: "hyb", name: "ECIES-AES128GCM", t: hybrid.ECIESHKDFAES128GCMKeyTemplate},
	{class: "hyb", name: "ECIES-AES128CTRHMAC", t: hybrid.ECIESHKDFAES128CTRHMACSHA256KeyTemplate},
	{class: "stream", name: "AES128GCMHKDF4KB", t: streamingaead.AES128GCMHKDF4KBKeyTemplate},
	{class: "stream", name: "AES128CTRHMACSHA256Segment4KB", t: streamingaead.AES128CTRHMACSHA256Segment4KBKeyTemplate},
	{class: "jwtmac", name: "HS256", t: jwt.HS256Template},
	{class: "jwtsig", name: "ES256", t: jwt.ES256Template},
	{class: "jwtsig", name: "RawES384", t: jwt.RawES384Template},
	{class: "fallback", name: "fallback-SYMMETRIC"},
	{class: "fallback", name: "fallback-PRIVATE"},
	{class: "fallback", name: "fallback-PUBLIC"},
	{class: "fallback", name: "fallback-REMOTE"},
	{class: "prf", name: "HKDFSHA256PRF-salt", p: hkdfSaltParams},
	{class: "sig", name: "MLDSA65", p: func() (key.Parameters, error) { return mldsa.NewParameters(mldsa.MLDSA65, mldsa.VariantTink) }},
	{class: "sig", name: "SLHDSA-SHA2-128s", p: func() (key.Parameters, error) {
		return slhdsa.NewParameters(slhdsa.SHA2, 64, slhdsa.SmallSignature, slhdsa.VariantTink)
	}},
	{class: "sig", name: "CompositeMLDSA65-Ed25519", p: func() (key.Parameters, error) {
		return compositemldsa.NewParameters(compositemldsa.Ed25519, compositemldsa.MLDSA65, compositemldsa.VariantTink)
	}},
}

var (
	hmu     sync.Mutex
	handles = map[string]*keyset.Handle{}
)

// fallbackHandle: a key of a type url nobody registered (kept as a fallback
// proto key by the handle), with the given key material type.
func fallbackHandle(material tinkpb.KeyData_KeyMaterialType) (*keyset.Handle, error) {
	ks := &tinkpb.Keyset{PrimaryKeyId: 77, Key: []*tinkpb.Keyset_Key{
		{KeyId: 77, Status: tinkpb.KeyStatusType_ENABLED, OutputPrefixType: tinkpb.OutputPrefixType_TINK,
			KeyData: &tinkpb.KeyData{TypeUrl: "type.googleapis.com/verif.c19.UnknownType", Value: []byte("unknown key type: opaque key bytes 0123456789"), KeyMaterialType: material}},
		{KeyId: 78, Status: tinkpb.KeyStatusType_ENABLED, OutputPrefixType: tinkpb.OutputPrefixType_RAW,
			KeyData: &tinkpb.KeyData{TypeUrl: "type.googleapis.com/verif.c19.UnknownType2", Value: []byte("second opaque key"), KeyMaterialType: material}}}}
	return insecurecleartextkeyset.Read(&keyset.MemReaderWriter{Keyset: ks})
}

func handleFor(t tmpl) *keyset.Handle {
	hmu.Lock()
	defer hmu.Unlock()
	if h, ok := handles[t.name]; ok {
		return h
	}
	if t.class == "fallback" {
		m := map[string]tinkpb.KeyData_KeyMaterialType{"fallback-SYMMETRIC": tinkpb.KeyData_SYMMETRIC, "fallback-PRIVATE": tinkpb.KeyData_ASYMMETRIC_PRIVATE,
			"fallback-PUBLIC": tinkpb.KeyData_ASYMMETRIC_PUBLIC, "fallback-REMOTE": tinkpb.KeyData_REMOTE}[t.name]
		h, err := fallbackHandle(m)
		if err != nil {
			panic(fmt.Sprintf("template %s: %v", t.name, err))
		}
		handles[t.name] = h
		return h
	}
	var h *keyset.Handle
	var err error
	hx.RealRand(func() {
		if t.p != nil {
			var ps key.Parameters
			if ps, err = t.p(); err == nil {
				km := keyset.NewManager()
				var id uint32
				if id, err = km.AddNewKeyFromParameters(ps); err == nil {
					if err = km.SetPrimary(id); err == nil {
						h, err = km.Handle()
					}
				}
			}
			return
		}
		h, err = keyset.NewHandle(t.t())
	})
	if err != nil {
		panic(fmt.Sprintf("template %s: %v", t.name, err))
	}
	handles[t.name] = h
	return h
}

func findTmpl(name string) tmpl {
	for _, t := range templates {
		if t.name == name {
			return t
		}
	}
	panic("unknown template " + name)
}

// ---- (A) primitive calls ------------------------------------------------------

func msg(r *hx.Rng) []byte { return r.Bytes(hx.PickS(r, []int{0, 1, 15, 16, 17, 33, 64, 100})) }

func opPrimitive(name string, r *hx.Rng) string {
	t := findTmpl(name)
	h := handleFor(t)
	var v viol
	m, ad := msg(r), msg(r)
	hx.RealRand(func() {
		switch t.class {
		case "aead":
			p, err := aead.New(h)
			if err != nil {
				v.add("aead.New: %v", err)
				return
			}
			v = append(v, checkEncDec(p.Encrypt, p.Decrypt, m, ad)...)
		case "daead":
			p, err := daead.New(h)
			if err != nil {
				v.add("daead.New: %v", err)
				return
			}
			v = append(v, checkEncDec(p.EncryptDeterministically, p.DecryptDeterministically, m, ad)...)
		case "hyb":
			ph, err := h.Public()
			if err != nil {
				v.add("Public: %v", err)
				return
			}
			e, err1 := hybrid.NewHybridEncrypt(ph)
			d, err2 := hybrid.NewHybridDecrypt(h)
			if err1 != nil || err2 != nil {
				v.add("hybrid.New: %v %v", err1, err2)
				return
			}
			v = append(v, checkEncDec(e.Encrypt, d.Decrypt, m, ad)...)
		case "mac":
			p, err := mac.New(h)
			if err != nil {
				v.add("mac.New: %v", err)
				return
			}
			v = append(v, checkMAC(p, m)...)
		case "prf":
			ps, err := prf.NewPRFSet(h)
			if err != nil {
				v.add("prf.NewPRFSet: %v", err)
				return
			}
			g := guarded("input", m)
			o1, err := ps.ComputePrimaryPRF(g.s, 16)
			v.chk(g)
			if err != nil {
				v.add("ComputePrimaryPRF: %v", err)
				return
			}
			keep := bytes.Clone(o1)
			flip(g.s)
			if !bytes.Equal(o1, keep) {
				v.add("PRF output shares memory with its input")
			}
			flip(g.s)
			flip(o1)
			o2, _ := ps.ComputePrimaryPRF(bytes.Clone(m), 16)
			if !bytes.Equal(o2, keep) {
				v.add("mutating a returned PRF output changed a later result")
			}
		case "sig":
			ph, err := h.Public()
			if err != nil {
				v.add("Public: %v", err)
				return
			}
			s, err1 := signature.NewSigner(h)
			vf, err2 := signature.NewVerifier(ph)
			if err1 != nil || err2 != nil {
				v.add("signature.New: %v %v", err1, err2)
				return
			}
			v = append(v, checkSig(s, vf, m)...)
		case "stream":
			p, err := streamingaead.New(h)
			if err != nil {
				v.add("streamingaead.New: %v", err)
				return
			}
			v = append(v, checkStream(p, m, ad)...)
		case "jwtmac", "jwtsig", "fallback":
			// JWT APIs take strings; fallback keys have no primitive: nothing to guard
		}
	})
	return v.result()
}

func checkEncDec(enc, dec func(a, b []byte) ([]byte, error), m, ad []byte) (v viol) {
	gm, ga := guarded("plaintext", m), guarded("associated data", ad)
	ct, err := enc(gm.s, ga.s)
	v.chk(gm, ga)
	if err != nil {
		v.add("encrypt: %v", err)
		return
	}
	if sharesMemory(ct, gm.buf) || sharesMemory(ct, ga.buf) {
		v.add("ciphertext shares memory with an input of Encrypt")
	}
	keep := bytes.Clone(ct)
	gc, ga2 := guarded("ciphertext", ct), guarded("associated data", ad)
	pt, err := dec(gc.s, ga2.s)
	v.chk(gc, ga2)
	if err != nil {
		v.add("decrypt: %v", err)
		return
	}
	if !bytes.Equal(pt, m) {
		v.add("round trip failed")
	}
	if sharesMemory(pt, gc.buf) || sharesMemory(pt, ga2.buf) {
		v.add("plaintext returned by Decrypt shares memory with an input")
	}
	// mutating returned values must not influence later calls
	flip(ct)
	flip(pt)
	pt2, err := dec(bytes.Clone(keep), bytes.Clone(ad))
	if err != nil || !bytes.Equal(pt2, m) {
		v.add("mutating returned ciphertext/plaintext changed a later decryption")
	}
	// nil and empty associated data with spare capacity
	return
}

func checkMAC(p tink.MAC, m []byte) (v viol) {
	g := guarded("data", m)
	tag, err := p.ComputeMAC(g.s)
	v.chk(g)
	if err != nil {
		v.add("ComputeMAC: %v", err)
		return
	}
	if sharesMemory(tag, g.buf) {
		v.add("tag shares memory with the input of ComputeMAC")
	}
	keep := bytes.Clone(tag)
	gt, gd := guarded("tag", tag), guarded("data", m)
	if err := p.VerifyMAC(gt.s, gd.s); err != nil {
		v.add("VerifyMAC rejected its own tag: %v", err)
	}
	v.chk(gt, gd)
	flip(tag)
	tag2, _ := p.ComputeMAC(bytes.Clone(m))
	if !bytes.Equal(tag2, keep) {
		v.add("mutating a returned tag changed a later ComputeMAC")
	}
	return
}

func checkSig(s tink.Signer, vf tink.Verifier, m []byte) (v viol) {
	g := guarded("data", m)
	sig, err := s.Sign(g.s)
	v.chk(g)
	if err != nil {
		v.add("Sign: %v", err)
		return
	}
	if sharesMemory(sig, g.buf) {
		v.add("signature shares memory with the input of Sign")
	}
	gs, gd := guarded("signature", sig), guarded("data", m)
	if err := vf.Verify(gs.s, gd.s); err != nil {
		v.add("Verify rejected own signature: %v", err)
	}
	v.chk(gs, gd)
	keep := bytes.Clone(sig)
	flip(sig)
	if err := vf.Verify(keep, bytes.Clone(m)); err != nil {
		v.add("mutating a returned signature changed a later Verify")
	}
	return
}

func checkStream(p tink.StreamingAEAD, m, ad []byte) (v viol) {
	var out bytes.Buffer
	ga := guarded("associated data", ad)
	w, err := p.NewEncryptingWriter(&out, ga.s)
	if err != nil {
		v.add("NewEncryptingWriter: %v", err)
		return
	}
	gm := guarded("plaintext chunk", m)
	if _, err := w.Write(gm.s); err != nil {
		v.add("Write: %v", err)
	}
	v.chk(gm)
	flip(gm.s) // the writer must have consumed or copied the chunk
	if err := w.Close(); err != nil {
		v.add("Close: %v", err)
	}
	v.chk(ga)
	flip(ga.s) // mutate the associated data after the writer was created
	flip(ga.s)
	rd, err := p.NewDecryptingReader(bytes.NewReader(out.Bytes()), bytes.Clone(ad))
	if err != nil {
		v.add("NewDecryptingReader: %v", err)
		return
	}
	// read into the middle of a guarded buffer: only [0:len) may be written
	buf := bytes.Repeat([]byte{canary}, len(m)+40)
	dst := buf[8 : 8+len(m)+4 : 8+len(m)+20]
	n, err := io.ReadFull(rd, dst[:len(m)])
	if err != nil && err != io.EOF && len(m) > 0 {
		v.add("Read: %v", err)
	}
	if !bytes.Equal(dst[:n], m[:n]) || n != len(m) {
		v.add("stream round trip failed")
	}
	for i, b := range buf {
		if (i < 8 || i >= 8+len(m)) && b != canary {
			v.add("Read wrote outside the destination slice (offset %d)", i-8)
			break
		}
	}
	return
}

// ---- (A') associated data mutated after stream creation -----------------------

func opStreamAAD(name string, r *hx.Rng) string {
	t := findTmpl(name)
	h := handleFor(t)
	var v viol
	m, ad := r.Bytes(50), r.Bytes(9)
	hx.RealRand(func() {
		p, err := streamingaead.New(h)
		if err != nil {
			v.add("%v", err)
			return
		}
		var out bytes.Buffer
		w, _ := p.NewEncryptingWriter(&out, bytes.Clone(ad))
		w.Write(m)
		w.Close()
		ad2 := bytes.Clone(ad)
		rd, err := p.NewDecryptingReader(bytes.NewReader(out.Bytes()), ad2)
		if err != nil {
			v.add("%v", err)
			return
		}
		flip(ad2) // caller reuses its buffer before the first Read
		got, err := io.ReadAll(rd)
		if err != nil || !bytes.Equal(got, m) {
			v.add("mutating the associated-data slice after NewDecryptingReader changed the result of Read (err=%v)", err)
		}
	})
	return v.result()
}

// ---- (B) subtle constructors keep no reference to caller key bytes -----------

type ctor struct {
	name string
	// build returns a fingerprint function of the object built from the inputs
	build func(in [][]byte) (func() []byte, error)
	sizes []int
}

// ctorPrep: optional per-constructor hook that makes the random inputs valid
// before the guards are armed.
var ctorPrep = map[string]func(in [][]byte){
	"jwt/jwtecdsa.NewPublicKey(opts.PublicPoint)":           func(in [][]byte) { copy(in[0], p256Point()) },
	"jwt/jwtrsassapkcs1.NewPublicKey(opts.Modulus)":         func(in [][]byte) { in[0][0] |= 0x80; in[0][len(in[0])-1] |= 1 },
	"jwt/jwtrsassapss.NewPublicKey(opts.Modulus)":           func(in [][]byte) { in[0][0] |= 0x80; in[0][len(in[0])-1] |= 1 },
	"aead.NewKMSEnvelopeAEAD2(dekTemplate.Value)":           func(in [][]byte) { copy(in[0], aead.AES128GCMKeyTemplate().Value) },
	"aead.NewKMSEnvelopeAEADWithContext(dekTemplate.Value)": func(in [][]byte) { copy(in[0], aead.AES128GCMKeyTemplate().Value) },
	"signature/subtle.NewED25519Verifier":                   func(in [][]byte) { copy(in[0], ed25519FixedKey().Public().(ed25519.PublicKey)) },
}

var fixedMsg = []byte("c19 fixed message for fingerprints")

// kmsTestKEK: a local AEAD standing in for the remote key-encryption AEAD of a KMS envelope
func kmsTestKEK() (tink.AEAD, error) {
	kh, err := keyset.NewHandle(aead.AES256GCMKeyTemplate())
	if err != nil {
		return nil, err
	}
	return aead.New(kh)
}

type kekWithContext struct{ a tink.AEAD }

func (k kekWithContext) EncryptWithContext(_ context.Context, pt, ad []byte) ([]byte, error) {
	return k.a.Encrypt(pt, ad)
}
func (k kekWithContext) DecryptWithContext(_ context.Context, ct, ad []byte) ([]byte, error) {
	return k.a.Decrypt(ct, ad)
}

// nonceRecorder is a segment encrypter / decrypter that remembers the nonce of the last segment
type nonceRecorder struct{ last []byte }

func (n *nonceRecorder) EncryptSegment(segment, nonce []byte) ([]byte, error) {
	n.last = bytes.Clone(nonce)
	return bytes.Clone(segment), nil
}
func (n *nonceRecorder) DecryptSegment(segment, nonce []byte) ([]byte, error) {
	n.last = bytes.Clone(nonce)
	return bytes.Clone(segment), nil
}

type zeroReader struct{}

func (zeroReader) Read(p []byte) (int, error) { clear(p); return len(p), nil }

func ed25519FixedKey() ed25519.PrivateKey {
	return ed25519.NewKeyFromSeed(bytes.Repeat([]byte{0x42}, 32))
}

func ctors() []ctor {
	return []ctor{
		{"daead/subtle.NewAESSIV", func(in [][]byte) (func() []byte, error) {
			p, err := daeadsubtle.NewAESSIV(in[0])
			if err != nil {
				return nil, err
			}
			return func() []byte { c, _ := p.EncryptDeterministically(fixedMsg, []byte("ad")); return c }, nil
		}, []int{64}},
		{"mac/subtle.NewHMAC", func(in [][]byte) (func() []byte, error) {
			p, err := macsubtle.NewHMAC("SHA256", in[0], 16)
			if err != nil {
				return nil, err
			}
			return func() []byte { c, _ := p.ComputeMAC(fixedMsg); return c }, nil
		}, []int{32}},
		{"mac/subtle.NewAESCMAC", func(in [][]byte) (func() []byte, error) {
			p, err := macsubtle.NewAESCMAC(in[0], 16)
			if err != nil {
				return nil, err
			}
			return func() []byte { c, _ := p.ComputeMAC(fixedMsg); return c }, nil
		}, []int{32}},
		{"prf/subtle.NewHMACPRF", func(in [][]byte) (func() []byte, error) {
			p, err := prfsubtle.NewHMACPRF("SHA256", in[0])
			if err != nil {
				return nil, err
			}
			return func() []byte { c, _ := p.ComputePRF(fixedMsg, 16); return c }, nil
		}, []int{32}},
		{"prf/subtle.NewHKDFPRF(key)", func(in [][]byte) (func() []byte, error) {
			p, err := prfsubtle.NewHKDFPRF("SHA256", in[0], []byte("fixed salt"))
			if err != nil {
				return nil, err
			}
			return func() []byte { c, _ := p.ComputePRF(fixedMsg, 16); return c }, nil
		}, []int{32}},
		{"prf/subtle.NewHKDFPRF(salt)", func(in [][]byte) (func() []byte, error) {
			p, err := prfsubtle.NewHKDFPRF("SHA256", bytes.Repeat([]byte{7}, 32), in[0])
			if err != nil {
				return nil, err
			}
			return func() []byte { c, _ := p.ComputePRF(fixedMsg, 16); return c }, nil
		}, []int{12}},
		{"prf/subtle.NewAESCMACPRF", func(in [][]byte) (func() []byte, error) {
			p, err := prfsubtle.NewAESCMACPRF(in[0])
			if err != nil {
				return nil, err
			}
			return func() []byte { c, _ := p.ComputePRF(fixedMsg, 16); return c }, nil
		}, []int{32}},
		{"aead/subtle.NewAESGCM", func(in [][]byte) (func() []byte, error) {
			p, err := aeadsubtle.NewAESGCM(in[0])
			if err != nil {
				return nil, err
			}
			ct, _ := p.Encrypt(fixedMsg, nil)
			return func() []byte { c, _ := p.Decrypt(ct, nil); return c }, nil
		}, []int{16}},
		{"aead/subtle.NewAESGCMSIV", func(in [][]byte) (func() []byte, error) {
			p, err := aeadsubtle.NewAESGCMSIV(in[0])
			if err != nil {
				return nil, err
			}
			ct, _ := p.Encrypt(fixedMsg, nil)
			return func() []byte { c, _ := p.Decrypt(ct, nil); return c }, nil
		}, []int{16}},
		{"aead/subtle.NewChaCha20Poly1305", func(in [][]byte) (func() []byte, error) {
			p, err := aeadsubtle.NewChaCha20Poly1305(in[0])
			if err != nil {
				return nil, err
			}
			ct, _ := p.Encrypt(fixedMsg, nil)
			return func() []byte { c, _ := p.Decrypt(ct, nil); return c }, nil
		}, []int{32}},
		{"aead/subtle.NewXChaCha20Poly1305", func(in [][]byte) (func() []byte, error) {
			p, err := aeadsubtle.NewXChaCha20Poly1305(in[0])
			if err != nil {
				return nil, err
			}
			ct, _ := p.Encrypt(fixedMsg, nil)
			return func() []byte { c, _ := p.Decrypt(ct, nil); return c }, nil
		}, []int{32}},
		{"aead/subtle.NewAESCTR", func(in [][]byte) (func() []byte, error) {
			p, err := aeadsubtle.NewAESCTR(in[0], 16)
			if err != nil {
				return nil, err
			}
			ct, _ := p.Encrypt(fixedMsg)
			return func() []byte { c, _ := p.Decrypt(ct); return c }, nil
		}, []int{16}},
		{"kwp/subtle.NewKWP", func(in [][]byte) (func() []byte, error) {
			p, err := kwpsubtle.NewKWP(in[0])
			if err != nil {
				return nil, err
			}
			return func() []byte { c, _ := p.Wrap(fixedMsg[:24]); return c }, nil
		}, []int{32}},
		{"streamingaead/subtle.NewAESGCMHKDF", func(in [][]byte) (func() []byte, error) {
			p, err := streamsubtle.NewAESGCMHKDF(in[0], "SHA256", 16, 64, 0)
			if err != nil {
				return nil, err
			}
			var out bytes.Buffer
			hx.WithTape(&hx.Tape{}, func() {
				w, _ := p.NewEncryptingWriter(&out, nil)
				w.Write(fixedMsg)
				w.Close()
			})
			ct := out.Bytes()
			return func() []byte {
				rd, err := p.NewDecryptingReader(bytes.NewReader(ct), nil)
				if err != nil {
					return []byte("error")
				}
				c, err := io.ReadAll(rd)
				if err != nil {
					return []byte("error")
				}
				return c
			}, nil
		}, []int{16}},
		{"streamingaead/subtle.NewAESCTRHMAC", func(in [][]byte) (func() []byte, error) {
			p, err := streamsubtle.NewAESCTRHMAC(in[0], "SHA256", 16, "SHA256", 16, 64, 0)
			if err != nil {
				return nil, err
			}
			var out bytes.Buffer
			hx.WithTape(&hx.Tape{}, func() {
				w, _ := p.NewEncryptingWriter(&out, nil)
				w.Write(fixedMsg)
				w.Close()
			})
			ct := out.Bytes()
			return func() []byte {
				rd, err := p.NewDecryptingReader(bytes.NewReader(ct), nil)
				if err != nil {
					return []byte("error")
				}
				c, err := io.ReadAll(rd)
				if err != nil {
					return []byte("error")
				}
				return c
			}, nil
		}, []int{16}},
		{"prf/hkdfprf.NewParameters(salt)", func(in [][]byte) (func() []byte, error) {
			p, err := hkdfprf.NewParameters(32, hkdfprf.SHA256, in[0])
			if err != nil {
				return nil, err
			}
			return func() []byte { return p.Salt() }, nil
		}, []int{12}},
		{"hybrid/subtle.NewECIESAEADHKDFHybridEncrypt(salt)", func(in [][]byte) (func() []byte, error) {
			// the salt reaches the HKDF only through Encrypt; fingerprint via a
			// decrypt with a recipient built from a pristine copy of the salt
			pristine := bytes.Clone(in[0])
			curve, _ := hybridsubtle.GetCurve("NIST_P256")
			var pvt *hybridsubtle.ECPrivateKey
			var err error
			hx.RealRand(func() { pvt, err = hybridsubtle.GenerateECDHKeyPair(curve) })
			if err != nil {
				return nil, err
			}
			dem := &c19Dem{}
			e, err := hybridsubtle.NewECIESAEADHKDFHybridEncrypt(&pvt.PublicKey, in[0], "SHA256", "UNCOMPRESSED", dem)
			if err != nil {
				return nil, err
			}
			d, err := hybridsubtle.NewECIESAEADHKDFHybridDecrypt(pvt, pristine, "SHA256", "UNCOMPRESSED", dem)
			if err != nil {
				return nil, err
			}
			return func() []byte {
				var out []byte
				hx.RealRand(func() {
					ct, err := e.Encrypt(fixedMsg, nil)
					if err != nil {
						out = []byte("encrypt error")
						return
					}
					pt, err := d.Decrypt(ct, nil)
					if err != nil {
						out = []byte("decrypt error")
						return
					}
					out = pt
				})
				return out
			}, nil
		}, []int{9}},
		{"hybrid/ecies.NewParameters(opts.Salt)", func(in [][]byte) (func() []byte, error) {
			p, err := ecies.NewParameters(ecies.ParametersOpts{CurveType: ecies.NISTP256, HashType: ecies.SHA256, NISTCurvePointFormat: ecies.UncompressedPointFormat,
				DEMParameters: mustAESGCMParams(), Salt: in[0], Variant: ecies.VariantTink})
			if err != nil {
				return nil, err
			}
			return func() []byte { return p.Salt() }, nil
		}, []int{10}},
		{"jwt/jwtecdsa.NewPublicKey(opts.PublicPoint)", func(in [][]byte) (func() []byte, error) {
			ps, err := jwtecdsa.NewParameters(jwtecdsa.IgnoredKID, jwtecdsa.ES256)
			if err != nil {
				return nil, err
			}
			k, err := jwtecdsa.NewPublicKey(jwtecdsa.PublicKeyOpts{PublicPoint: in[0], Parameters: ps})
			if err != nil {
				return nil, err
			}
			return func() []byte { return k.PublicPoint() }, nil
		}, []int{65}},
		{"jwt/jwtrsassapkcs1.NewPublicKey(opts.Modulus)", func(in [][]byte) (func() []byte, error) {
			ps, err := jwtrsassapkcs1.NewParameters(jwtrsassapkcs1.ParametersOpts{ModulusSizeInBits: 2048, PublicExponent: 65537, Algorithm: jwtrsassapkcs1.RS256, KidStrategy: jwtrsassapkcs1.IgnoredKID})
			if err != nil {
				return nil, err
			}
			k, err := jwtrsassapkcs1.NewPublicKey(jwtrsassapkcs1.PublicKeyOpts{Modulus: in[0], Parameters: ps})
			if err != nil {
				return nil, err
			}
			return func() []byte { return k.Modulus() }, nil
		}, []int{256}},
		{"jwt/jwtrsassapss.NewPublicKey(opts.Modulus)", func(in [][]byte) (func() []byte, error) {
			ps, err := jwtrsassapss.NewParameters(jwtrsassapss.ParametersOpts{ModulusSizeInBits: 2048, PublicExponent: 65537, Algorithm: jwtrsassapss.PS256, KidStrategy: jwtrsassapss.IgnoredKID})
			if err != nil {
				return nil, err
			}
			k, err := jwtrsassapss.NewPublicKey(jwtrsassapss.PublicKeyOpts{Modulus: in[0], Parameters: ps})
			if err != nil {
				return nil, err
			}
			return func() []byte { return k.Modulus() }, nil
		}, []int{256}},
		{"aead.NewKMSEnvelopeAEAD2(dekTemplate.Value)", func(in [][]byte) (func() []byte, error) {
			kek, err := kmsTestKEK()
			if err != nil {
				return nil, err
			}
			tmpl := aead.AES128GCMKeyTemplate()
			tmpl.Value = in[0] // the caller's template object, its format bytes in the guarded buffer
			env := aead.NewKMSEnvelopeAEAD2(tmpl, kek)
			return func() []byte { c, err := env.Encrypt(fixedMsg, nil); return []byte(fmt.Sprint(len(c), err)) }, nil
		}, []int{2}},
		{"aead.NewKMSEnvelopeAEADWithContext(dekTemplate.Value)", func(in [][]byte) (func() []byte, error) {
			kek, err := kmsTestKEK()
			if err != nil {
				return nil, err
			}
			tmpl := aead.AES128GCMKeyTemplate()
			tmpl.Value = in[0]
			env, err := aead.NewKMSEnvelopeAEADWithContext(tmpl, kekWithContext{kek})
			if err != nil {
				return nil, err
			}
			return func() []byte {
				c, err := env.EncryptWithContext(context.Background(), fixedMsg, nil)
				return []byte(fmt.Sprint(len(c), err))
			}, nil
		}, []int{2}},
		{"streamingaead/subtle/noncebased.NewWriter(params.NoncePrefix)", func(in [][]byte) (func() []byte, error) {
			rec := &nonceRecorder{}
			w, err := noncebased.NewWriter(noncebased.WriterParams{W: io.Discard, SegmentEncrypter: rec, NonceSize: 12,
				NoncePrefix: in[0], PlaintextSegmentSize: 16})
			if err != nil {
				return nil, err
			}
			// every call writes two segments' worth, so at least one segment is encrypted; the fingerprint is
			// the prefix part of the nonce it was encrypted under
			return func() []byte { w.Write(bytes.Repeat([]byte{7}, 32)); return bytes.Clone(rec.last[:len(in[0])]) }, nil
		}, []int{7}},
		{"streamingaead/subtle/noncebased.NewReader(params.NoncePrefix)", func(in [][]byte) (func() []byte, error) {
			rec := &nonceRecorder{}
			r, err := noncebased.NewReader(noncebased.ReaderParams{R: zeroReader{}, SegmentDecrypter: rec, NonceSize: 12,
				NoncePrefix: in[0], CiphertextSegmentSize: 16})
			if err != nil {
				return nil, err
			}
			return func() []byte {
				io.ReadFull(r, make([]byte, 32))
				return bytes.Clone(rec.last[:len(in[0])])
			}, nil
		}, []int{7}},
		{"signature/subtle.NewED25519SignerFromPrivateKey(*key)", func(in [][]byte) (func() []byte, error) {
			key := ed25519.PrivateKey(in[0]) // the caller's key object lives in the guarded buffer
			s, err := sigsubtle.NewED25519SignerFromPrivateKey(&key)
			if err != nil {
				return nil, err
			}
			return func() []byte { c, _ := s.Sign(fixedMsg); return c }, nil
		}, []int{64}},
		{"signature/subtle.NewED25519VerifierFromPublicKey(*key)", func(in [][]byte) (func() []byte, error) {
			key := ed25519.PublicKey(in[0])
			v, err := sigsubtle.NewED25519VerifierFromPublicKey(&key)
			if err != nil {
				return nil, err
			}
			sig := ed25519.Sign(ed25519FixedKey(), fixedMsg)
			return func() []byte { return []byte(fmt.Sprint(v.Verify(sig, fixedMsg))) }, nil
		}, []int{32}},
		{"signature/subtle.NewED25519Verifier", func(in [][]byte) (func() []byte, error) {
			v, err := sigsubtle.NewED25519Verifier(in[0])
			if err != nil {
				return nil, err
			}
			sig := ed25519.Sign(ed25519FixedKey(), fixedMsg)
			return func() []byte { return []byte(fmt.Sprint(v.Verify(sig, fixedMsg))) }, nil
		}, []int{32}},
		{"signature/subtle.NewED25519Signer", func(in [][]byte) (func() []byte, error) {
			s, err := sigsubtle.NewED25519Signer(in[0])
			if err != nil {
				return nil, err
			}
			return func() []byte { c, _ := s.Sign(fixedMsg); return c }, nil
		}, []int{32}},
		{"secretdata.NewBytesFromData", func(in [][]byte) (func() []byte, error) {
			b := secretdata.NewBytesFromData(in[0], insecuresecretdataaccess.Token{})
			return func() []byte { return b.Data(insecuresecretdataaccess.Token{}) }, nil
		}, []int{32}},
	}
}

func opCtor(name string, r *hx.Rng) string {
	var v viol
	for _, c := range ctors() {
		if c.name != name {
			continue
		}
		var gs []*guard
		var in [][]byte
		for i, n := range c.sizes {
			g := guarded(fmt.Sprintf("%s argument %d", c.name, i), r.Bytes(n))
			gs = append(gs, g)
			in = append(in, g.s)
		}
		if prep := ctorPrep[c.name]; prep != nil {
			prep(in)
			for _, g := range gs {
				g.orig = bytes.Clone(g.buf)
			}
		}
		fp, err := c.build(in)
		if err != nil {
			return "VIOL constructor failed: " + err.Error()
		}
		v.chk(gs...)
		before := bytes.Clone(fp())
		v.chk(gs...)
		for _, g := range gs {
			flip(g.s) // the caller reuses its key buffer
		}
		after := fp()
		if !bytes.Equal(before, after) {
			v.add("%s keeps a reference to the caller's byte slice: results changed after the caller modified its buffer", c.name)
		}
		// a returned value must not be internal memory either
		keep := bytes.Clone(after)
		flip(after)
		if again := fp(); !bytes.Equal(again, keep) {
			v.add("%s: mutating a returned value changed a later result", c.name)
		}
		return v.result()
	}
	return "VIOL unknown constructor " + name
}

// ---- (C) accessors never hand out internal memory (reflection over all key types)

var byteSliceT = reflect.TypeOf([]byte(nil))
var secretBytesT = reflect.TypeOf(secretdata.Bytes{})
var tokenT = reflect.TypeOf(insecuresecretdataaccess.Token{})

// probeObject calls every niladic method of obj that returns []byte or
// secretdata.Bytes, mutates the result and calls it again.
func probeObject(path string, obj reflect.Value, depth int, v *viol, seen map[string]bool) {
	if !obj.IsValid() || (obj.Kind() == reflect.Pointer && obj.IsNil()) || (obj.Kind() == reflect.Interface && obj.IsNil()) {
		return
	}
	t := obj.Type()
	if seen[path+t.String()] {
		return
	}
	seen[path+t.String()] = true
	for i := 0; i < t.NumMethod(); i++ {
		m := t.Method(i)
		mt := m.Type
		if mt.NumIn() != 1 || mt.NumOut() < 1 || mt.IsVariadic() {
			continue
		}
		name := m.Name
		if name == "String" || name == "ProtoReflect" || name == "Descriptor" || name == "Reset" {
			continue
		}
		call := func() (out reflect.Value, ok bool) {
			defer func() {
				if recover() != nil {
					ok = false
				}
			}()
			res := obj.Method(i).Call(nil)
			if len(res) == 2 {
				if e, isErr := res[1].Interface().(error); isErr && e != nil {
					return reflect.Value{}, false
				}
			}
			return res[0], true
		}
		switch {
		case mt.Out(0) == byteSliceT:
			r1, ok := call()
			if !ok || r1.Len() == 0 {
				continue
			}
			b1 := r1.Bytes()
			keep := bytes.Clone(b1)
			flip(b1)
			r2, ok := call()
			if ok && !bytes.Equal(r2.Bytes(), keep) {
				v.add("accessor %s.%s() of %s returns internal memory: mutating the returned slice changed the object", path, name, t)
				flip(b1) // restore the object
			}
		case mt.Out(0) == secretBytesT:
			r1, ok := call()
			if !ok {
				continue
			}
			sb := r1.Interface().(secretdata.Bytes)
			b1 := sb.Data(insecuresecretdataaccess.Token{})
			if len(b1) == 0 {
				continue
			}
			keep := bytes.Clone(b1)
			flip(b1)
			r2, ok := call()
			if ok && !bytes.Equal(r2.Interface().(secretdata.Bytes).Data(insecuresecretdataaccess.Token{}), keep) {
				v.add("accessor %s.%s().Data() of %s returns internal memory", path, name, t)
				flip(b1)
			}
		default:
			// nested tink objects: Parameters(), PublicKey(), ...
			if depth > 0 && (mt.Out(0).Kind() == reflect.Pointer || mt.Out(0).Kind() == reflect.Interface) &&
				(name == "Parameters" || name == "PublicKey" || strings.HasSuffix(name, "Parameters") || strings.HasSuffix(name, "PublicKey") || strings.HasSuffix(name, "Key")) {
				if r, ok := call(); ok {
					if r.Kind() == reflect.Interface && !r.IsNil() {
						r = r.Elem()
					}
					probeObject(path+"."+name+"()", r, depth-1, v, seen)
				}
			}
		}
	}
}

func opAccessors(name string, r *hx.Rng) string {
	t := findTmpl(name)
	h := handleFor(t)
	var v viol
	probe := func(hh *keyset.Handle, tag string) {
		for i := 0; i < hh.Len(); i++ {
			e, err := hh.Entry(i)
			if err != nil {
				continue
			}
			k := e.Key()
			ser, err := protoserialization.SerializeKey(k)
			if err != nil {
				v.add("SerializeKey: %v", err)
				continue
			}
			pristine, err := protoserialization.ParseKey(ser)
			if err != nil {
				v.add("ParseKey: %v", err)
				continue
			}
			probeObject(tag+"key", reflect.ValueOf(k), 2, &v, map[string]bool{})
			if !k.Equal(pristine) {
				v.add("%s key of %s no longer equals its pristine copy after its accessors' results were mutated", tag, name)
			}
			// serialized key data handed out must be a copy
			ser1, _ := protoserialization.SerializeKey(k)
			val := ser1.KeyData().GetValue()
			keep := bytes.Clone(val)
			flip(val)
			ser2, _ := protoserialization.SerializeKey(k)
			if !bytes.Equal(ser2.KeyData().GetValue(), keep) {
				v.add("serialized key data of %s shares memory with the key object", name)
				flip(val)
			}
			// parsing must copy out of the serialization
			kd := proto.Clone(ser2.KeyData()).(*tinkpb.KeyData)
			idr, _ := ser2.IDRequirement()
			ks3, err := protoserialization.NewKeySerialization(kd, ser2.OutputPrefixType(), idr)
			if err == nil {
				if k3, err := protoserialization.ParseKey(ks3); err == nil {
					flip(kd.Value)
					if !k3.Equal(pristine) {
						v.add("key of %s parsed from a KeyData keeps a reference to its value bytes", name)
					}
				}
			}
		}
	}
	hx.RealRand(func() {
		probe(h, "")
		if ph, err := h.Public(); err == nil {
			probe(ph, "public ")
		}
		// keyset proto handed out by insecurecleartextkeyset must be a copy
		ks := insecurecleartextkeyset.KeysetMaterial(h)
		info1 := h.String()
		for _, k := range ks.GetKey() {
			flip(k.GetKeyData().GetValue())
			k.KeyId ^= 0xffff
		}
		ks2 := insecurecleartextkeyset.KeysetMaterial(h)
		if proto.Equal(ks, ks2) || h.String() != info1 {
			v.add("keyset proto returned by KeysetMaterial shares memory with the handle")
		}
	})
	return v.result()
}

// ---- (D) legacy (non-full) primitives behind the factories' adapters -----------

const stubURL = "type.googleapis.com/verif.c19.Stub"

type stubMAC struct{ k []byte }

func (s *stubMAC) ComputeMAC(data []byte) ([]byte, error) {
	h, _ := macsubtle.NewHMAC("SHA256", bytes.Clone(s.k), 16)
	return h.ComputeMAC(data)
}
func (s *stubMAC) VerifyMAC(m, data []byte) error {
	h, _ := macsubtle.NewHMAC("SHA256", bytes.Clone(s.k), 16)
	return h.VerifyMAC(m, data)
}

type stubAEAD struct{ k []byte }

func (s *stubAEAD) Encrypt(p, a []byte) ([]byte, error) {
	x, _ := aeadsubtle.NewAESGCM(bytes.Clone(s.k))
	return x.Encrypt(p, a)
}
func (s *stubAEAD) Decrypt(c, a []byte) ([]byte, error) {
	x, _ := aeadsubtle.NewAESGCM(bytes.Clone(s.k))
	return x.Decrypt(c, a)
}

type stubSigner struct{ k []byte }

func (s *stubSigner) Sign(d []byte) ([]byte, error) { return (&stubMAC{s.k}).ComputeMAC(d) }

type stubVerifier struct{ k []byte }

func (s *stubVerifier) Verify(sig, d []byte) error { return (&stubMAC{s.k}).VerifyMAC(sig, d) }

type stubKM struct {
	url  string
	make func(k []byte) any
}

func (m *stubKM) Primitive(serializedKey []byte) (any, error) {
	return m.make(bytes.Clone(serializedKey)), nil
}
func (m *stubKM) NewKey(serializedKeyFormat []byte) (proto.Message, error) {
	return nil, fmt.Errorf("not supported")
}
func (m *stubKM) DoesSupport(typeURL string) bool { return typeURL == m.url }
func (m *stubKM) TypeURL() string                 { return m.url }
func (m *stubKM) NewKeyData(serializedKeyFormat []byte) (*tinkpb.KeyData, error) {
	return nil, fmt.Errorf("not supported")
}

var stubOnce sync.Once

func registerStubs() {
	stubOnce.Do(func() {
		for suffix, mk := range map[string]func(k []byte) any{
			"MAC":      func(k []byte) any { return &stubMAC{k} },
			"AEAD":     func(k []byte) any { return &stubAEAD{k} },
			"Signer":   func(k []byte) any { return &stubSigner{k} },
			"Verifier": func(k []byte) any { return &stubVerifier{k} },
		} {
			if err := registry.RegisterKeyManager(&stubKM{url: stubURL + suffix, make: mk}); err != nil {
				panic(err)
			}
		}
	})
}

func stubHandle(kind string, pt tinkpb.OutputPrefixType, material tinkpb.KeyData_KeyMaterialType, k []byte) (*keyset.Handle, error) {
	registerStubs()
	ks := &tinkpb.Keyset{PrimaryKeyId: 0x01020304, Key: []*tinkpb.Keyset_Key{{KeyId: 0x01020304, Status: tinkpb.KeyStatusType_ENABLED, OutputPrefixType: pt,
		KeyData: &tinkpb.KeyData{TypeUrl: stubURL + kind, Value: k, KeyMaterialType: material}}}}
	return insecurecleartextkeyset.Read(&keyset.MemReaderWriter{Keyset: ks})
}

var prefixTypes = map[string]tinkpb.OutputPrefixType{"TINK": tinkpb.OutputPrefixType_TINK, "LEGACY": tinkpb.OutputPrefixType_LEGACY, "CRUNCHY": tinkpb.OutputPrefixType_CRUNCHY, "RAW": tinkpb.OutputPrefixType_RAW}

func opLegacy(arg string, r *hx.Rng) string {
	f := strings.Split(arg, "/") // kind/prefix
	kind, pt := f[0], prefixTypes[f[1]]
	var v viol
	m, ad := msg(r), msg(r)
	key := r.Bytes(16)
	switch kind {
	case "MAC":
		h, err := stubHandle("MAC", pt, tinkpb.KeyData_SYMMETRIC, key)
		if err != nil {
			return "VIOL " + err.Error()
		}
		p, err := mac.New(h)
		if err != nil {
			return "VIOL " + err.Error()
		}
		v = append(v, checkMAC(p, m)...)
	case "AEAD":
		h, err := stubHandle("AEAD", pt, tinkpb.KeyData_SYMMETRIC, key)
		if err != nil {
			return "VIOL " + err.Error()
		}
		p, err := aead.New(h)
		if err != nil {
			return "VIOL " + err.Error()
		}
		hx.RealRand(func() { v = append(v, checkEncDec(p.Encrypt, p.Decrypt, m, ad)...) })
	case "SIG":
		hs, err1 := stubHandle("Signer", pt, tinkpb.KeyData_ASYMMETRIC_PRIVATE, key)
		hv, err2 := stubHandle("Verifier", pt, tinkpb.KeyData_ASYMMETRIC_PUBLIC, key)
		if err1 != nil || err2 != nil {
			return fmt.Sprintf("VIOL %v %v", err1, err2)
		}
		s, err1 := signature.NewSigner(hs)
		vf, err2 := signature.NewVerifier(hv)
		if err1 != nil || err2 != nil {
			return fmt.Sprintf("VIOL %v %v", err1, err2)
		}
		v = append(v, checkSig(s, vf, m)...)
	}
	return v.result()
}

// ---- (E) key derivation: salt is an input buffer -------------------------------

func opDerive(r *hx.Rng) string {
	var v viol
	hx.RealRand(func() {
		t, err := keyderivation.CreatePRFBasedKeyTemplate(prf.HKDFSHA256PRFKeyTemplate(), aead.AES128GCMKeyTemplate())
		if err != nil {
			v.add("%v", err)
			return
		}
		h, err := keyset.NewHandle(t)
		if err != nil {
			v.add("%v", err)
			return
		}
		d, err := keyderivation.New(h)
		if err != nil {
			v.add("%v", err)
			return
		}
		g := guarded("salt", r.Bytes(11))
		h1, err := d.DeriveKeyset(g.s)
		v.chk(g)
		if err != nil {
			v.add("%v", err)
			return
		}
		s1 := h1.String()
		flip(g.s)
		if h1.String() != s1 {
			v.add("derived handle changed when the salt buffer was modified")
		}
	})
	return v.result()
}

func mustAESGCMParams() *aesgcm.Parameters {
	p, err := aesgcm.NewParameters(aesgcm.ParametersOpts{KeySizeInBytes: 16, IVSizeInBytes: 12, TagSizeInBytes: 16, Variant: aesgcm.VariantNoPrefix})
	if err != nil {
		panic(err)
	}
	return p
}

// p256Point returns a fixed valid uncompressed P-256 point (the generator).
func p256Point() []byte {
	return elliptic.Marshal(elliptic.P256(), elliptic.P256().Params().Gx, elliptic.P256().Params().Gy)
}

// c19Dem is a DEM helper for the ECIES subtle constructors (AES-128-GCM).
type c19Dem struct{}

func (*c19Dem) GetSymmetricKeySize() uint32 { return 16 }
func (*c19Dem) GetAEADOrDAEAD(k []byte) (any, error) {
	return aeadsubtle.NewAESGCM(k)
}

var _ key.Key
