package c20

import (
	"fmt"
	"strconv"
	"strings"

	"github.com/tink-crypto/tink-go/v2/aead/aesctrhmac"
	"github.com/tink-crypto/tink-go/v2/aead/aesgcm"
	"github.com/tink-crypto/tink-go/v2/aead/aesgcmsiv"
	"github.com/tink-crypto/tink-go/v2/aead/chacha20poly1305"
	"github.com/tink-crypto/tink-go/v2/aead/xaesgcm"
	"github.com/tink-crypto/tink-go/v2/aead/xchacha20poly1305"
	"github.com/tink-crypto/tink-go/v2/daead/aessiv"
	"github.com/tink-crypto/tink-go/v2/hybrid/hpke"
	"github.com/tink-crypto/tink-go/v2/insecuresecretdataaccess"
	"github.com/tink-crypto/tink-go/v2/internal/keygenregistry"
	"github.com/tink-crypto/tink-go/v2/jwt/jwthmac"
	"github.com/tink-crypto/tink-go/v2/key"
	"github.com/tink-crypto/tink-go/v2/keyset"
	"github.com/tink-crypto/tink-go/v2/mac/aescmac"
	"github.com/tink-crypto/tink-go/v2/mac/hmac"
	"github.com/tink-crypto/tink-go/v2/prf/aescmacprf"
	"github.com/tink-crypto/tink-go/v2/prf/hkdfprf"
	"github.com/tink-crypto/tink-go/v2/prf/hmacprf"
	"github.com/tink-crypto/tink-go/v2/secretdata"
	"github.com/tink-crypto/tink-go/v2/signature/ed25519"
	"github.com/tink-crypto/tink-go/v2/signature/mldsa"
	"github.com/tink-crypto/tink-go/v2/signature/slhdsa"
	sctrhmac "github.com/tink-crypto/tink-go/v2/streamingaead/aesctrhmac"
	sgcmhkdf "github.com/tink-crypto/tink-go/v2/streamingaead/aesgcmhkdf"
	"github.com/tink-crypto/tink-go/v2/verifharness/hx"
)

func atoi(s string) int { v, _ := strconv.Atoi(s); return v }

func pick[T any](v string, t, c, r T) T {
	switch v {
	case "T":
		return t
	case "C":
		return c
	}
	return r
}

// paramsOf builds key parameters from a spec "name:arg:arg..." and a variant
// letter (T = TINK, C = CRUNCHY, R = no prefix).  Key types without a CRUNCHY
// variant map C to TINK.  tag = number of trailing bytes the primitive appends
// after the encrypted payload (AEADs), so that the harness can cut an output
// without knowing how long the random field is.
func paramsOf(spec, v string) (p key.Parameters, tag int, err error) {
	f := strings.Split(spec, ":")
	a := func(i int) int {
		if i < len(f) {
			return atoi(f[i])
		}
		return 0
	}
	switch f[0] {
	case "gcm":
		p, err = aesgcm.NewParameters(aesgcm.ParametersOpts{KeySizeInBytes: a(1), IVSizeInBytes: 12, TagSizeInBytes: 16,
			Variant: pick(v, aesgcm.VariantTink, aesgcm.VariantCrunchy, aesgcm.VariantNoPrefix)})
		tag = 16
	case "gcmsiv":
		p, err = aesgcmsiv.NewParameters(a(1), pick(v, aesgcmsiv.VariantTink, aesgcmsiv.VariantCrunchy, aesgcmsiv.VariantNoPrefix))
		tag = 16
	case "chacha":
		p, err = chacha20poly1305.NewParameters(pick(v, chacha20poly1305.VariantTink, chacha20poly1305.VariantCrunchy, chacha20poly1305.VariantNoPrefix))
		tag = 16
	case "xchacha":
		p, err = xchacha20poly1305.NewParameters(pick(v, xchacha20poly1305.VariantTink, xchacha20poly1305.VariantCrunchy, xchacha20poly1305.VariantNoPrefix))
		tag = 16
	case "xaes": // xaes:<salt size>
		s := a(1)
		if len(f) < 2 {
			s = 12
		}
		p, err = xaesgcm.NewParameters(pick(v, xaesgcm.VariantTink, xaesgcm.VariantTink, xaesgcm.VariantNoPrefix), s)
		tag = 16
	case "ctrhmac": // ctrhmac:<aes key>:<hmac key>:<iv>:<tag>
		iv, tg := a(3), a(4)
		if len(f) < 5 {
			iv, tg = 16, 32
		}
		p, err = aesctrhmac.NewParameters(aesctrhmac.ParametersOpts{AESKeySizeInBytes: a(1), HMACKeySizeInBytes: a(2), IVSizeInBytes: iv, TagSizeInBytes: tg,
			HashType: aesctrhmac.SHA256, Variant: pick(v, aesctrhmac.VariantTink, aesctrhmac.VariantCrunchy, aesctrhmac.VariantNoPrefix)})
		tag = tg
	case "siv":
		p, err = aessiv.NewParameters(a(1), pick(v, aessiv.VariantTink, aessiv.VariantCrunchy, aessiv.VariantNoPrefix))
	case "hmac":
		p, err = hmac.NewParameters(hmac.ParametersOpts{KeySizeInBytes: a(1), TagSizeInBytes: 16, HashType: hmac.SHA256,
			Variant: pick(v, hmac.VariantTink, hmac.VariantCrunchy, hmac.VariantNoPrefix)})
	case "cmac":
		p, err = aescmac.NewParameters(aescmac.ParametersOpts{KeySizeInBytes: a(1), TagSizeInBytes: 16,
			Variant: pick(v, aescmac.VariantTink, aescmac.VariantCrunchy, aescmac.VariantNoPrefix)})
	case "hmacprf":
		p, err = hmacprf.NewParameters(a(1), hmacprf.SHA256)
	case "hkdfprf":
		p, err = hkdfprf.NewParameters(a(1), hkdfprf.SHA256, nil)
	case "cmacprf":
		var pp aescmacprf.Parameters
		pp, err = aescmacprf.NewParameters(a(1))
		p = &pp
	case "sgcm": // sgcm:<key size>:<derived key size>
		p, err = sgcmhkdf.NewParameters(sgcmhkdf.ParametersOpts{KeySizeInBytes: a(1), DerivedKeySizeInBytes: a(2), HKDFHashType: sgcmhkdf.SHA256, SegmentSizeInBytes: 256})
		tag = 16
	case "sctr": // sctr:<key size>:<derived key size>:<tag>
		tg := a(3)
		if tg == 0 {
			tg = 32
		}
		p, err = sctrhmac.NewParameters(sctrhmac.ParametersOpts{KeySizeInBytes: a(1), DerivedKeySizeInBytes: a(2), HkdfHashType: sctrhmac.SHA256,
			HmacHashType: sctrhmac.SHA256, HmacTagSizeInBytes: tg, SegmentSizeInBytes: 256})
		tag = tg
	case "jwthmac":
		p, err = jwthmac.NewParameters(a(1), jwthmac.IgnoredKID, jwthmac.HS256)
	case "mldsa":
		inst := mldsa.MLDSA65
		if a(1) == 87 {
			inst = mldsa.MLDSA87
		}
		p, err = mldsa.NewParameters(inst, pick(v, mldsa.VariantTink, mldsa.VariantTink, mldsa.VariantNoPrefix))
	case "slhdsa":
		// slhdsa:<private key size 64|96|128>:<f|s>:<sha2|shake>
		st := slhdsa.FastSigning
		if len(f) > 2 && f[2] == "s" {
			st = slhdsa.SmallSignature
		}
		ht := slhdsa.SHA2
		if len(f) > 3 && f[3] == "shake" {
			ht = slhdsa.SHAKE
		}
		p, err = slhdsa.NewParameters(ht, a(1), st, pick(v, slhdsa.VariantTink, slhdsa.VariantTink, slhdsa.VariantNoPrefix))
	case "ed25519":
		var pp ed25519.Parameters
		pp, err = ed25519.NewParameters(pick(v, ed25519.VariantTink, ed25519.VariantCrunchy, ed25519.VariantNoPrefix))
		p = &pp
	case "hpke": // hpke:<kem>:<aead>
		kem := map[string]hpke.KEMID{"x25519": hpke.DHKEM_X25519_HKDF_SHA256, "xwing": hpke.X_WING, "p256": hpke.DHKEM_P256_HKDF_SHA256,
			"p384": hpke.DHKEM_P384_HKDF_SHA384, "p521": hpke.DHKEM_P521_HKDF_SHA512, "mlkem768": hpke.ML_KEM768, "mlkem1024": hpke.ML_KEM1024}[f[1]]
		kdf := hpke.HKDFSHA256
		switch f[1] {
		case "p384", "mlkem1024":
			kdf = hpke.HKDFSHA384
		case "p521":
			kdf = hpke.HKDFSHA512
		}
		ae := hpke.AES128GCM
		if len(f) > 2 {
			ae = map[string]hpke.AEADID{"a128": hpke.AES128GCM, "a256": hpke.AES256GCM, "cc": hpke.ChaCha20Poly1305}[f[2]]
		}
		p, err = hpke.NewParameters(hpke.ParametersOpts{KEMID: kem, KDFID: kdf, AEADID: ae,
			Variant: pick(v, hpke.VariantTink, hpke.VariantCrunchy, hpke.VariantNoPrefix)})
		tag = 16
	default:
		err = fmt.Errorf("unknown key spec %q", spec)
	}
	return
}

// fixedKey creates a key of the given parameters whose material does not
// depend on the operating system's randomness: it is created while a counter
// tape is installed (seeded by the spec so that different specs get different
// keys).  Only used for keys whose value is irrelevant to the observation.
func fixedKey(p key.Parameters, id uint32, seed string) (key.Key, error) {
	var k key.Key
	var err error
	t := &hx.Tape{}
	for _, c := range []byte(seed) {
		t.Bulk = append(t.Bulk, c, c^0x5a)
	}
	hx.WithTape(t, func() {
		req := id
		if !p.HasIDRequirement() {
			req = 0
		}
		k, err = keygenregistry.CreateKey(p, req)
	})
	return k, err
}

// oneKeyHandle wraps k into a handle in which it is the primary key.
func oneKeyHandle(k key.Key) (*keyset.Handle, error) {
	var h *keyset.Handle
	var err error
	hx.WithTape(&hx.Tape{}, func() {
		km := keyset.NewManager()
		var id uint32
		if id, err = km.AddKey(k); err != nil {
			return
		}
		if err = km.SetPrimary(id); err != nil {
			return
		}
		h, err = km.Handle()
	})
	return h, err
}

// material returns the secret key material of a key as hex fields.
func material(k key.Key) string {
	tok := insecuresecretdataaccess.Token{}
	switch x := k.(type) {
	case *slhdsa.PrivateKey:
		// skSeed ‖ skPrf ‖ pkSeed ‖ pkRoot: the first three quarters are drawn, the root is computed
		b := x.PrivateKeyBytes().Data(tok)
		return hx.H(b[:len(b)/4*3])
	case interface{ KeyBytes() secretdata.Bytes }:
		return hx.H(x.KeyBytes().Data(tok))
	case interface {
		AESKeyBytes() secretdata.Bytes
		HMACKeyBytes() secretdata.Bytes
	}:
		return hx.H(x.AESKeyBytes().Data(tok)) + hx.H(x.HMACKeyBytes().Data(tok))
	case interface{ PrivateKeyBytes() secretdata.Bytes }:
		return hx.H(x.PrivateKeyBytes().Data(tok))
	case interface{ PrivateKeyValue() secretdata.Bytes }:
		return hx.H(x.PrivateKeyValue().Data(tok))
	}
	return fmt.Sprintf("?%T", k)
}
