package c20

import (
	"fmt"
	"strconv"
	"strings"

	"github.com/tink-crypto/tink-go/v2/keyset"
	"github.com/tink-crypto/tink-go/v2/verifharness/hx"
)

// ---------------------------------------------------------------- generator

var encSpecs = []string{"gcm:16", "gcm:32", "gcmsiv:16", "gcmsiv:32", "chacha", "xchacha",
	"ctrhmac:16:32:12:16", "ctrhmac:32:32:16:32", "ctrhmac:16:16:13:10", "ctrhmac:32:32:14:20", "ctrhmac:16:32:15:32",
	"xaes:12", "xaes:8", "xaes:10"}
var strSpecs = []string{"sgcm:16:16", "sgcm:32:16", "sgcm:32:32", "sctr:16:16:16", "sctr:32:16:32", "sctr:32:32:32", "sctr:32:32:16"}
var hpkeSpecs = []string{"hpke:x25519:a128", "hpke:x25519:a256", "hpke:x25519:cc", "hpke:xwing:a128", "hpke:xwing:a256", "hpke:xwing:cc"}
var keySpecs = []string{"gcm:16", "gcm:32", "gcmsiv:16", "gcmsiv:32", "chacha", "xchacha", "xaes", "ctrhmac:16:32", "ctrhmac:32:32", "ctrhmac:16:16",
	"siv:64", "hmac:16", "hmac:32", "hmac:64", "cmac:32", "hmacprf:32", "hmacprf:16", "hkdfprf:32", "cmacprf:32", "sgcm:16:16", "sgcm:32:16", "sctr:32:32",
	"jwthmac:32", "mldsa:65", "mldsa:87", "slhdsa:64:f", "ed25519", "hpke:xwing", "hpke:mlkem768", "hpke:mlkem1024"}
var signSpecs = []string{"mldsa:65", "mldsa:87", "mldsapre:65", "mldsapre:87", "rsapss:32", "rsapss:20", "slhdsa:64:f"}
var looseSpecs = []string{"hpke:p256", "hpke:p384", "hpke:p521", "hpke:mlkem768", "hpke:mlkem1024", "ecdsa:p256:der", "ecdsa:p256:p1363",
	"ecdsa:p384:der", "ecdsa:p521:p1363", "kg:ecdsa:p256", "kg:ecdsa:p384", "kg:hpke:p256", "kg:hpke:x25519", "kg:ecies:p256", "kg:hpke:p521"}

// noCrunchy: key types without a CRUNCHY variant.
func variantFor(r *hx.Rng, spec string) string {
	v := hx.PickS(r, []string{"T", "T", "C", "R", "R"})
	for _, p := range []string{"xaes", "mldsa", "slhdsa"} {
		if strings.HasPrefix(spec, p) && v == "C" {
			v = "T"
		}
	}
	for _, p := range []string{"hmacprf", "hkdfprf", "cmacprf", "sgcm", "sctr", "jwthmac"} {
		if strings.HasPrefix(spec, p) {
			v = "R"
		}
	}
	return v
}

// tape styles: 0 random, 1 all zero, 2 all 0xff, 3 counting bytes, 4 short period, 5 words from a small universe
func genTape(r *hx.Rng, n, style int) []byte {
	b := make([]byte, n)
	switch style {
	case 0:
		copy(b, r.Bytes(n))
	case 1:
	case 2:
		for i := range b {
			b[i] = 0xff
		}
	case 3:
		s := byte(r.U64())
		for i := range b {
			b[i] = s + byte(i)
		}
	case 4:
		p := r.Bytes(1 + r.Intn(13))
		for i := range b {
			b[i] = p[i%len(p)]
		}
	case 5:
		uni := [][]byte{r.Bytes(4), r.Bytes(4), r.Bytes(4), {0, 0, 0, 0}, {0xff, 0xff, 0xff, 0xff}, {0, 0, 0, 1}}
		for i := 0; i+4 <= n; i += 4 {
			if r.Chance(55) {
				copy(b[i:], hx.PickS(r, uni))
			} else {
				copy(b[i:], r.Bytes(4))
			}
		}
	}
	return b
}

func pickStyle(r *hx.Rng) int {
	x := r.Intn(100)
	switch {
	case x < 62:
		return 0
	case x < 68:
		return 1
	case x < 74:
		return 2
	case x < 84:
		return 3
	default:
		return 4
	}
}

func be32(b []byte) uint32 {
	return uint32(b[0])<<24 | uint32(b[1])<<16 | uint32(b[2])<<8 | uint32(b[3])
}

func gen(r *hx.Rng, n int, tier string) []string {
	if tier == "thorough" {
		directN = 4096
	}
	lines := directed(r)
	id := func() string {
		if r.Chance(20) {
			return hx.PickS(r, []string{"0", "1", "4294967295", "2147483648", "16777216"})
		}
		return strconv.FormatUint(uint64(uint32(r.U64())), 10)
	}
	tapeLen := func(need int) int {
		if r.Chance(3) && need > 1 {
			return r.Intn(need) // deliberately too short: both sides report exhaustion
		}
		return need + r.Intn(24)
	}
	for c := 0; c < n; c++ {
		x := r.Intn(100)
		switch {
		case x < 34:
			spec := hx.PickS(r, encSpecs)
			k := 1 + r.Intn(6)
			t := genTape(r, tapeLen(k*36), pickStyle(r))
			lines = append(lines, fmt.Sprintf("C20|ENC|%s|%s|%s|%d|%s", spec, variantFor(r, spec), id(), k, hx.H(t)))
		case x < 44:
			spec := hx.PickS(r, strSpecs)
			k := 1 + r.Intn(4)
			t := genTape(r, tapeLen(k*39), pickStyle(r))
			lines = append(lines, fmt.Sprintf("C20|STR|%s|%d|%s", spec, k, hx.H(t)))
		case x < 52:
			spec := hx.PickS(r, hpkeSpecs)
			k := 1 + r.Intn(3)
			t := genTape(r, tapeLen(k*32), pickStyle(r))
			lines = append(lines, fmt.Sprintf("C20|HPKE|%s|%s|%s|%d|%s", spec, variantFor(r, spec), id(), k, hx.H(t)))
		case x < 56:
			k := 1 + r.Intn(3)
			curve := hx.PickS(r, []string{"p256", "p256", "p384", "p521"})
			t := genTape(r, k*78+r.Intn(16), 0) // random tapes only: an out-of-range scalar is redrawn by crypto/elliptic
			lines = append(lines, fmt.Sprintf("C20|ECIES|%s|%s|%s|%d|%s", curve, hx.PickS(r, []string{"T", "C", "R"}), id(), k, hx.H(t)))
		case x < 78:
			na := 1 + r.Intn(7)
			var adds []string
			need := 0
			for i := 0; i < na; i++ {
				spec := hx.PickS(r, keySpecs)
				adds = append(adds, spec+"/"+variantFor(r, spec))
				need += 4 + 64 + 32
			}
			style := 5
			if r.Chance(35) {
				style = pickStyle(r)
			}
			t := genTape(r, tapeLen(need+na*12), style)
			var pre []string
			for i := r.Intn(4); i > 0; i-- {
				if len(t) >= 8 && r.Chance(70) {
					o := 4 * r.Intn(len(t)/4)
					if r.Chance(40) {
						o = 0
					}
					pre = append(pre, strconv.FormatUint(uint64(be32(t[o:])), 10))
				} else {
					pre = append(pre, id())
				}
			}
			// AddKey refuses a duplicate fixed id: keep the pre ids distinct
			seen := map[string]bool{}
			var pre2 []string
			for _, p := range pre {
				if !seen[p] {
					seen[p] = true
					if r.Chance(40) {
						p += "!" // added, then deleted before the random draws
					}
					pre2 = append(pre2, p)
				}
			}
			ps := "-"
			if len(pre2) > 0 {
				ps = strings.Join(pre2, ",")
			}
			lines = append(lines, fmt.Sprintf("C20|MGR|%s|%s|%s", ps, strings.Join(adds, ";"), hx.H(t)))
		case x < 86:
			spec := hx.PickS(r, keySpecs)
			k := 1 + r.Intn(4)
			t := genTape(r, tapeLen(k*100), pickStyle(r))
			lines = append(lines, fmt.Sprintf("C20|NEWH|%s|%s|%d|%s", spec, variantFor(r, spec), k, hx.H(t)))
		case x < 91:
			spec := hx.PickS(r, signSpecs)
			k := 2 + r.Intn(2)
			t := genTape(r, k*32+r.Intn(16), 0)
			lines = append(lines, fmt.Sprintf("C20|SIGN|%s|%d|%s", spec, k, hx.H(t)))
		default:
			spec := hx.PickS(r, looseSpecs)
			k := 2 + r.Intn(3)
			t := genTape(r, k*140+r.Intn(16), 0)
			lines = append(lines, fmt.Sprintf("C20|LOOSE|%s|%d|%s", spec, k, hx.H(t)))
		}
	}
	return lines
}

// ------------------------------------------------------ direct property oracle

// stat: outputs must be pairwise different and, when there are enough of
// them, no byte position at or after `from` may hold the same value in all.
func stat(what string, outs [][]byte, from int) string {
	if !allDistinct(outs) {
		return what + ": two calls produced the same random field"
	}
	if len(outs) < 12 {
		return ""
	}
	minLen := len(outs[0])
	for _, o := range outs {
		if len(o) < minLen {
			minLen = len(o)
		}
	}
	if len(outs) >= 2560 && !strings.HasPrefix(what, "HPKE") { // an X25519 public key is not uniform in its top bit
		exp := float64(len(outs)) / 256
		for p := from; p < minLen; p++ {
			var cnt [256]int
			for _, o := range outs {
				cnt[o[p]]++
			}
			chi := 0.0
			for _, c := range cnt {
				d := float64(c) - exp
				chi += d * d / exp
			}
			if chi > 255+12*22.6 { // 255 degrees of freedom: mean 255, sd 22.6
				return fmt.Sprintf("%s: byte position %d of the random field is not uniform over %d calls (chi-square %.0f, 255 d.o.f.)", what, p-from, len(outs), chi)
			}
		}
	}
	for p := from; p < minLen; p++ {
		constant := true
		for _, o := range outs[1:] {
			if o[p] != outs[0][p] {
				constant = false
				break
			}
		}
		if constant {
			return fmt.Sprintf("%s: byte position %d of the random field is constant (0x%02x) over %d calls", what, p-from, outs[0][p], len(outs))
		}
	}
	return ""
}

// varying counts the byte positions at or after from that are not constant over outs.
func varying(outs [][]byte, from int) int {
	if len(outs) == 0 {
		return 0
	}
	minLen := len(outs[0])
	for _, o := range outs {
		if len(o) < minLen {
			minLen = len(o)
		}
	}
	v := 0
	for p := from; p < minLen; p++ {
		for _, o := range outs[1:] {
			if o[p] != outs[0][p] {
				v++
				break
			}
		}
	}
	return v
}

// directN: number of calls made with the operating system's randomness per
// operation (quick 16; thorough 4096, which also enables the per-position
// chi-square test).
var directN = 16

// directVarying: per operation, the number of varying byte positions seen in
// the random field over directN calls with the operating system's randomness.
var directVarying = map[string]int{}

var directDone = map[string]string{}

// direct runs the operation of the case with the operating system's
// randomness and examines the outputs statistically (memoised per operation).
func direct(f []string) string {
	key := strings.Join(f[1:len(f)-1], "|")
	switch f[1] {
	case "ENC", "HPKE", "ECIES":
		key = f[1] + "|" + f[2] + "|" + f[3]
	case "STR", "NEWH", "SIGN", "LOOSE":
		key = f[1] + "|" + f[2]
	case "MGR":
		key = ""
	}
	if key != "" {
		if v, ok := directDone[key]; ok {
			return v
		}
	}
	v := direct1(f, key)
	if key != "" {
		directDone[key] = v
	}
	return v
}

func direct1(f []string, key string) string {
	pl := func(v string) int {
		if v == "R" {
			return 0
		}
		return 5
	}
	switch f[1] {
	case "ENC":
		outs, err := encOutputs(f[2], f[3], idOf(f[4]), directN, nil)
		if err != nil {
			return "direct: " + err.Error()
		}
		directVarying[key] = varying(outs, pl(f[3]))
		return stat("Encrypt "+f[2], outs, pl(f[3]))
	case "STR":
		outs, err := strOutputs(f[2], directN, nil)
		if err != nil {
			return "direct: " + err.Error()
		}
		directVarying[key] = varying(outs, 1)
		return stat("NewEncryptingWriter "+f[2], outs, 1)
	case "HPKE":
		outs, err := hpkeOutputs(f[2], f[3], idOf(f[4]), directN, nil)
		if err != nil {
			return "direct: " + err.Error()
		}
		directVarying[key] = varying(outs, pl(f[3]))
		return stat("HPKE Encrypt "+f[2], outs, pl(f[3]))
	case "ECIES":
		outs, err := eciesOutputs(f[2], f[3], idOf(f[4]), directN, nil)
		if err != nil {
			return "direct: " + err.Error()
		}
		directVarying[key] = varying(outs, pl(f[3]))
		return stat("ECIES Encrypt "+f[2], outs, pl(f[3]))
	case "MGR", "NEWH":
		var specs []string
		if f[1] == "NEWH" {
			specs = []string{f[2] + "/" + f[3]}
		} else {
			specs = strings.Split(f[3], ";")
		}
		for _, s := range specs {
			if v, ok := directDone["KEY|"+s]; ok {
				if v != "" {
					return v
				}
				continue
			}
			v := directKeys(s)
			directDone["KEY|"+s] = v
			if v != "" {
				return v
			}
		}
		return ""
	case "SIGN", "LOOSE":
		n := 4
		if strings.HasPrefix(f[2], "slhdsa") || strings.HasPrefix(f[2], "rsapss") {
			n = 2
		}
		outs, _, err := looseOutputs(f[2], n, nil)
		if err != nil {
			return "direct: " + err.Error()
		}
		return stat(f[2], outs, 0)
	}
	return ""
}

// directKeys: directN keys of one type generated by ONE manager with the
// operating system's randomness: ids pairwise distinct and spread over all
// four bytes, material pairwise distinct and no constant byte.
func directKeys(specv string) string {
	sv := strings.Split(specv, "/")
	p, _, err := paramsOf(sv[0], sv[1])
	if err != nil {
		return "direct: " + err.Error()
	}
	var ids, mats [][]byte
	var res string
	hx.RealRand(func() {
		km := keyset.NewManager()
		var all []uint32
		for i := 0; i < directN; i++ {
			id, err := km.AddNewKeyFromParameters(p)
			if err != nil {
				res = "direct: " + err.Error()
				return
			}
			all = append(all, id)
			ids = append(ids, []byte{byte(id >> 24), byte(id >> 16), byte(id >> 8), byte(id)})
		}
		if err := km.SetPrimary(all[0]); err != nil {
			res = "direct: " + err.Error()
			return
		}
		h, err := km.Handle()
		if err != nil {
			res = "direct: " + err.Error()
			return
		}
		for i := 0; i < h.Len(); i++ {
			e, _ := h.Entry(i)
			mats = append(mats, hx.UH(material(e.Key())))
		}
	})
	if res != "" {
		return res
	}
	directVarying["KEY|"+specv] = varying(ids, 0) + varying(mats, 0)
	if v := stat("key ids of one manager ("+specv+")", ids, 0); v != "" {
		return v
	}
	return stat("generated key material "+specv, mats, 0)
}

func check(in, obs string) string {
	if strings.HasPrefix(obs, "PANIC") || strings.HasPrefix(obs, "ERR") || strings.HasPrefix(obs, "BAD") {
		return obs
	}
	f := strings.Split(in, "|")
	if obs != "TAPE-EXHAUSTED" {
		parts := strings.SplitN(obs, "|", 2)
		if len(parts) != 2 {
			return "malformed observation"
		}
		switch f[1] {
		case "MGR":
			// under the tape (which forces collisions) the manager must still hand out distinct, unused ids
			seen := map[string]bool{}
			for _, p := range strings.Split(f[2], ",") {
				seen[strings.TrimSuffix(p, "!")] = true // ids of deleted keys stay handed out
			}
			for _, fld := range strings.Split(parts[1], ";") {
				if fld == "err" || fld == "" {
					continue
				}
				id := strings.SplitN(fld, ":", 2)[0]
				if seen[id] {
					return "manager handed out key id " + id + " twice (or an id already in the keyset)"
				}
				seen[id] = true
			}
		case "ENC", "STR", "HPKE", "ECIES":
			// entropy accounting: the random field cannot have more varying
			// bytes than the call drew fresh bytes from the reader
			if v := direct(f); v != "" {
				return v
			}
			key := f[1] + "|" + f[2]
			k := atoi(f[3])
			if f[1] != "STR" {
				key += "|" + f[3]
				k = atoi(f[5])
			}
			drawn := 0
			for _, sz := range strings.Split(strings.TrimPrefix(parts[0], "r="), ",") {
				drawn += atoi(sz)
			}
			if vb, ok := directVarying[key]; ok && k > 0 && vb*k > drawn {
				return fmt.Sprintf("%s %s: the random field has %d varying bytes per call but only %d fresh bytes were drawn from crypto/rand in %d calls (part of the field is not fresh randomness)", f[1], f[2], vb, drawn, k)
			}
		case "NEWH":
			if v := direct(f); v != "" {
				return v
			}
			drawn := 0
			for _, sz := range strings.Split(strings.TrimPrefix(parts[0], "r="), ",") {
				drawn += atoi(sz)
			}
			k := atoi(f[4])
			if vb, ok := directVarying["KEY|"+f[2]+"/"+f[3]]; ok && k > 0 && vb*k > drawn && !strings.Contains(parts[1], "err") {
				return fmt.Sprintf("NewHandle %s: key id and material have %d varying bytes per key but only %d fresh bytes were drawn from crypto/rand for %d keys", f[2], vb, drawn, k)
			}
		case "SIGN", "LOOSE":
			if strings.Contains(parts[1], "distinct=no") && !(f[1] == "SIGN" && windowsRepeat(parts[0], hx.UH(f[len(f)-1]))) {
				return f[2] + ": two calls with fresh randomness gave the same output"
			}
		}
	}
	return direct(f)
}

func class(in, obs string) string {
	if obs == "TAPE-EXHAUSTED" || strings.HasPrefix(obs, "PANIC") || strings.HasPrefix(obs, "ERR") {
		return ""
	}
	f := strings.Split(in, "|")
	nreads := strings.Count(strings.SplitN(obs, "|", 2)[0], ",") + 1
	switch f[1] {
	case "ENC", "HPKE", "ECIES":
		return f[1] + ":" + f[2] + ":" + f[3] + ":k" + f[5]
	case "STR", "SIGN", "LOOSE":
		return f[1] + ":" + f[2] + ":k" + f[3]
	case "NEWH":
		return f[1] + ":" + f[2] + ":" + f[3] + ":k" + f[4]
	case "MGR":
		// adds, and how many id draws were rejected
		adds := strings.Split(f[3], ";")
		rej := 0
		prev := ""
		for _, s := range strings.Split(strings.TrimPrefix(strings.SplitN(obs, "|", 2)[0], "r="), ",") {
			if s == "4" && prev == "4" {
				rej++
			}
			prev = s
		}
		_ = nreads
		return fmt.Sprintf("MGR:%s:n%d:rej%d", strings.Split(adds[0], "/")[0], len(adds), rej)
	}
	return ""
}

// windowsRepeat: do two of the consecutive tape windows of the logged read
// sizes carry the same bytes?  (A hedged signature is a function of the key,
// the message and the randomizer: with a constant tape the signatures of one
// message repeat, which is what the model predicts.)
func windowsRepeat(sizes string, tape []byte) bool {
	seen := map[string]bool{}
	off := 0
	for _, sz := range strings.Split(strings.TrimPrefix(sizes, "r="), ",") {
		n := atoi(sz)
		if off+n > len(tape) {
			return false
		}
		w := string(tape[off : off+n])
		if seen[w] {
			return true
		}
		seen[w] = true
		off += n
	}
	return false
}
