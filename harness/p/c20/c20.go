// Package c20: randomized operations draw fresh, full-length randomness.
//
// Every case installs hx.Tape as crypto/rand.Reader, performs k calls of one
// randomized operation and reports (a) the sizes of all reads the real code
// issued, in order, and (b) the random field found in every output.  The
// model (coq/model/Rand.v) predicts both from the tape alone.
//
// case lines (tape = bulk channel of hx.Tape, hex; ID channel unused, so the
// 4-byte key-id reads are served from the same tape):
//
//	C20|ENC|<aead spec>|<variant T/C/R>|<key id>|<k>|<tape>     k Encrypt calls through aead.New(handle)
//	C20|STR|<stream spec>|<k>|<tape>                            k NewEncryptingWriter calls (+ one short segment)
//	C20|HPKE|<hpke:x25519|xwing:aead>|<variant>|<key id>|<k>|<tape>   k HybridEncrypt.Encrypt calls
//	C20|MGR|<pre ids ,>|<key spec/variant ;...>|<tape>          one Manager: AddKey(fixed ids) then AddNewKeyFromParameters...
//	C20|NEWH|<key spec>|<variant>|<k>|<tape>                    k keyset.NewHandle(template) calls
//	C20|LOOSE|<op>|<k>|<tape>                                   operations drawing through the stdlib (no exact window)
//
// observation:  r=<read sizes ,>|<field>;<field>;...   or TAPE-EXHAUSTED
//
//	ENC   field = output up to the end of the random field = ct[:len-|pt|-tag]  (prefix ‖ iv, or prefix ‖ salt ‖ iv)
//	STR   field = stream header (ct[:len-|pt|-tag]) = len byte ‖ salt ‖ nonce prefix
//	HPKE  field = prefix ‖ X25519 public key of the ephemeral secret (for X-Wing: the X25519 part of enc)
//	MGR/NEWH  field = <key id>:<key material hex>[:<second key>]   or err
//	LOOSE field = fresh=<yes|no>,distinct=<yes|no>
package c20

import (
	"bytes"
	"fmt"
	"strconv"
	"strings"

	"github.com/tink-crypto/tink-go/v2/aead"
	"github.com/tink-crypto/tink-go/v2/hybrid"
	"github.com/tink-crypto/tink-go/v2/hybrid/ecies"
	"github.com/tink-crypto/tink-go/v2/internal/protoserialization"
	"github.com/tink-crypto/tink-go/v2/key"
	"github.com/tink-crypto/tink-go/v2/keyset"
	"github.com/tink-crypto/tink-go/v2/streamingaead"
	"github.com/tink-crypto/tink-go/v2/verifharness/hx"
)

func ptOf(i int) []byte {
	b := make([]byte, (i*5+3)%23)
	for j := range b {
		b[j] = byte(i + j)
	}
	return b
}

// finish turns the tape log and the fields into the observation.
func finish(t *hx.Tape, given int, fields []string) string {
	total := 0
	var sizes []string
	for _, r := range t.Log {
		total += r.N
		sizes = append(sizes, strconv.Itoa(r.N))
	}
	if total > given {
		return "TAPE-EXHAUSTED"
	}
	return "r=" + strings.Join(sizes, ",") + "|" + strings.Join(fields, ";")
}

func idOf(s string) uint32 { v, _ := strconv.ParseUint(s, 10, 32); return uint32(v) }

// encOutputs runs k Encrypt calls under tape (nil = operating system randomness) and returns the cut outputs.
func encOutputs(spec, v string, id uint32, k int, tape *hx.Tape) ([][]byte, error) {
	p, tag, err := paramsOf(spec, v)
	if err != nil {
		return nil, err
	}
	ky, err := fixedKey(p, id, spec)
	if err != nil {
		return nil, err
	}
	h, err := oneKeyHandle(ky)
	if err != nil {
		return nil, err
	}
	a, err := aead.New(h)
	if err != nil {
		return nil, err
	}
	var outs [][]byte
	body := func() {
		for i := 0; i < k; i++ {
			pt := ptOf(i)
			ct, e := a.Encrypt(pt, []byte("ad"))
			if e != nil {
				err = e
				return
			}
			if len(ct) < len(pt)+tag {
				err = fmt.Errorf("ciphertext too short")
				return
			}
			outs = append(outs, ct[:len(ct)-len(pt)-tag])
		}
	}
	if tape != nil {
		hx.WithTape(tape, body)
	} else {
		hx.RealRand(body)
	}
	return outs, err
}

func strOutputs(spec string, k int, tape *hx.Tape) ([][]byte, error) {
	p, tag, err := paramsOf(spec, "R")
	if err != nil {
		return nil, err
	}
	ky, err := fixedKey(p, 0, spec)
	if err != nil {
		return nil, err
	}
	h, err := oneKeyHandle(ky)
	if err != nil {
		return nil, err
	}
	s, err := streamingaead.New(h)
	if err != nil {
		return nil, err
	}
	var outs [][]byte
	body := func() {
		for i := 0; i < k; i++ {
			var buf bytes.Buffer
			w, e := s.NewEncryptingWriter(&buf, []byte("aad"))
			if e != nil {
				err = e
				return
			}
			pt := ptOf(i)
			w.Write(pt)
			if e := w.Close(); e != nil {
				err = e
				return
			}
			b := buf.Bytes()
			if len(b) < len(pt)+tag {
				err = fmt.Errorf("stream too short")
				return
			}
			outs = append(outs, append([]byte(nil), b[:len(b)-len(pt)-tag]...))
		}
	}
	if tape != nil {
		hx.WithTape(tape, body)
	} else {
		hx.RealRand(body)
	}
	return outs, err
}

// hpkeOutputs: for x25519 the output is prefix ‖ enc; for xwing prefix ‖ enc[1088:]; other KEMs prefix ‖ enc.
func hpkeOutputs(spec, v string, id uint32, k int, tape *hx.Tape) ([][]byte, error) {
	p, tag, err := paramsOf(spec, v)
	if err != nil {
		return nil, err
	}
	var ky key.Key
	hx.RealRand(func() { ky, err = fixedKeyReal(p, id) })
	if err != nil {
		return nil, err
	}
	h, err := oneKeyHandle(ky)
	if err != nil {
		return nil, err
	}
	pub, err := h.Public()
	if err != nil {
		return nil, err
	}
	e, err := hybrid.NewHybridEncrypt(pub)
	if err != nil {
		return nil, err
	}
	pl := 0
	if v != "R" {
		pl = 5
	}
	var outs [][]byte
	body := func() {
		for i := 0; i < k; i++ {
			pt := ptOf(i)
			ct, e2 := e.Encrypt(pt, []byte("info"))
			if e2 != nil {
				err = e2
				return
			}
			hd := ct[:len(ct)-len(pt)-tag]
			if strings.Contains(spec, "xwing") && len(hd) == pl+1120 {
				hd = append(append([]byte(nil), hd[:pl]...), hd[pl+1088:]...)
			}
			outs = append(outs, hd)
		}
	}
	if tape != nil {
		hx.WithTape(tape, body)
	} else {
		hx.RealRand(body)
	}
	return outs, err
}

// eciesOutputs: ECIES-AEAD-HKDF over a NIST curve, uncompressed point, AES128-GCM DEM.
// Output = prefix ‖ (what follows the ephemeral point up to the end of the DEM IV).
func eciesOutputs(curve, v string, id uint32, k int, tape *hx.Tape) ([][]byte, error) {
	p, err := looseParams("ecies:" + curve)
	if err != nil {
		return nil, err
	}
	pp := p.(*ecies.Parameters)
	p, err = ecies.NewParameters(ecies.ParametersOpts{CurveType: pp.CurveType(), HashType: pp.HashType(), NISTCurvePointFormat: pp.NISTCurvePointFormat(),
		DEMParameters: pp.DEMParameters(), Variant: pick(v, ecies.VariantTink, ecies.VariantCrunchy, ecies.VariantNoPrefix)})
	if err != nil {
		return nil, err
	}
	var ky key.Key
	hx.RealRand(func() { ky, err = fixedKeyReal(p, id) })
	if err != nil {
		return nil, err
	}
	h, err := oneKeyHandle(ky)
	if err != nil {
		return nil, err
	}
	pub, err := h.Public()
	if err != nil {
		return nil, err
	}
	e, err := hybrid.NewHybridEncrypt(pub)
	if err != nil {
		return nil, err
	}
	pl := 0
	if v != "R" {
		pl = 5
	}
	point := map[string]int{"p256": 65, "p384": 97, "p521": 133}[curve]
	var outs [][]byte
	body := func() {
		for i := 0; i < k; i++ {
			pt := ptOf(i)
			ct, e2 := e.Encrypt(pt, []byte("info"))
			if e2 != nil {
				err = e2
				return
			}
			hd := ct[:len(ct)-len(pt)-16]
			if len(hd) < pl+point {
				err = fmt.Errorf("ecies ciphertext too short")
				return
			}
			outs = append(outs, append(append([]byte(nil), hd[:pl]...), hd[pl+point:]...))
		}
	}
	if tape != nil {
		hx.WithTape(tape, body)
	} else {
		hx.RealRand(body)
	}
	return outs, err
}

var realKeys = map[string]key.Key{}

// fixedKeyReal creates (once per process) a key with operating-system randomness.
func fixedKeyReal(p key.Parameters, id uint32) (key.Key, error) {
	ck := fmt.Sprintf("%T%v/%d", p, p, id)
	if k, ok := realKeys[ck]; ok {
		return k, nil
	}
	k, err := fixedKeyRealNew(p, id)
	if err == nil {
		realKeys[ck] = k
	}
	return k, err
}

func hexes(bs [][]byte) []string {
	var out []string
	for _, b := range bs {
		out = append(out, hx.H(b))
	}
	return out
}

func run(in string) string {
	f := strings.Split(in, "|")
	if len(f) < 3 {
		return "BADCASE"
	}
	tapeBytes := hx.UH(f[len(f)-1])
	tape := &hx.Tape{Bulk: append([]byte(nil), tapeBytes...)}
	switch f[1] {
	case "ENC":
		outs, err := encOutputs(f[2], f[3], idOf(f[4]), atoi(f[5]), tape)
		if err != nil {
			return "ERR " + err.Error()
		}
		return finish(tape, len(tapeBytes), hexes(outs))
	case "STR":
		outs, err := strOutputs(f[2], atoi(f[3]), tape)
		if err != nil {
			return "ERR " + err.Error()
		}
		return finish(tape, len(tapeBytes), hexes(outs))
	case "HPKE":
		outs, err := hpkeOutputs(f[2], f[3], idOf(f[4]), atoi(f[5]), tape)
		if err != nil {
			return "ERR " + err.Error()
		}
		return finish(tape, len(tapeBytes), hexes(outs))
	case "MGR":
		return finish(tape, len(tapeBytes), mgrRun(f[2], f[3], tape))
	case "NEWH":
		return finish(tape, len(tapeBytes), newhRun(f[2], f[3], atoi(f[4]), tape))
	case "ECIES":
		outs, err := eciesOutputs(f[2], f[3], idOf(f[4]), atoi(f[5]), tape)
		if err != nil {
			return "ERR " + err.Error()
		}
		return finish(tape, len(tapeBytes), hexes(outs))
	case "SIGN":
		return looseRun(f[2], atoi(f[3]), tape, len(tapeBytes), true)
	case "LOOSE":
		return looseRun(f[2], atoi(f[3]), tape, len(tapeBytes), false)
	}
	return "BADKIND"
}

// mgrRun: one manager; keys with the fixed ids first (AddKey draws nothing
// for a key with an id requirement), then one AddNewKeyFromParameters per
// entry of adds.
func mgrRun(pre, adds string, tape *hx.Tape) []string {
	var fields []string
	km := keyset.NewManager()
	var handleErr error
	for _, s := range strings.Split(pre, ",") {
		if s == "" || s == "-" {
			continue
		}
		// "id!" = the key is added and then deleted again: its id stays used
		del := strings.HasSuffix(s, "!")
		s = strings.TrimSuffix(s, "!")
		p, _, _ := paramsOf("gcm:16", "T")
		k, err := fixedKey(p, idOf(s), "pre")
		if err != nil {
			panic(err)
		}
		hx.WithTape(&hx.Tape{}, func() {
			if _, err := km.AddKey(k); err != nil {
				handleErr = err
			} else if del {
				if err := km.Delete(idOf(s)); err != nil {
					handleErr = err
				}
			}
		})
	}
	if handleErr != nil {
		return []string{"ERR pre " + handleErr.Error()}
	}
	var ids []uint32
	var oks []bool
	hx.WithTape(tape, func() {
		for _, s := range strings.Split(adds, ";") {
			if s == "" {
				continue
			}
			sv := strings.Split(s, "/")
			p, _, err := paramsOf(sv[0], sv[1])
			if err != nil {
				panic(err)
			}
			id, err := km.AddNewKeyFromParameters(p)
			ids = append(ids, id)
			oks = append(oks, err == nil)
		}
	})
	// read the generated material back from a handle
	mat := map[uint32]string{}
	hx.WithTape(&hx.Tape{}, func() {
		for i, id := range ids {
			if oks[i] {
				if err := km.SetPrimary(id); err != nil {
					handleErr = err
					return
				}
				break
			}
		}
		h, err := km.Handle()
		if err != nil {
			handleErr = err
			return
		}
		for i := 0; i < h.Len(); i++ {
			e, err := h.Entry(i)
			if err != nil {
				continue
			}
			mat[e.KeyID()] = material(e.Key())
		}
	})
	for i, id := range ids {
		if !oks[i] {
			fields = append(fields, "err")
			continue
		}
		m, ok := mat[id]
		if !ok {
			m = "?"
		}
		fields = append(fields, strconv.FormatUint(uint64(id), 10)+":"+m)
	}
	return fields
}

func newhRun(spec, v string, k int, tape *hx.Tape) []string {
	var fields []string
	p, _, err := paramsOf(spec, v)
	if err != nil {
		panic(err)
	}
	kt, err := protoserialization.SerializeParameters(p)
	if err != nil {
		panic(err)
	}
	var hs []*keyset.Handle
	hx.WithTape(tape, func() {
		for i := 0; i < k; i++ {
			h, err := keyset.NewHandle(kt)
			if err != nil {
				hs = append(hs, nil)
				continue
			}
			hs = append(hs, h)
		}
	})
	for _, h := range hs {
		if h == nil {
			fields = append(fields, "err")
			continue
		}
		e, err := h.Primary()
		if err != nil {
			fields = append(fields, "err")
			continue
		}
		fields = append(fields, strconv.FormatUint(uint64(e.KeyID()), 10)+":"+material(e.Key()))
	}
	return fields
}

func init() {
	hx.Register("C20", &hx.Prop{Gen: gen, Run: run, Check: check, Class: class})
}
