package c20

import (
	"fmt"
	"os"
	"strconv"
	"strings"

	"github.com/tink-crypto/tink-go/v2/aead/aesgcm"
	"github.com/tink-crypto/tink-go/v2/hybrid"
	"github.com/tink-crypto/tink-go/v2/hybrid/ecies"
	"github.com/tink-crypto/tink-go/v2/internal/internalapi"
	"github.com/tink-crypto/tink-go/v2/internal/keygenregistry"
	"github.com/tink-crypto/tink-go/v2/key"
	"github.com/tink-crypto/tink-go/v2/signature"
	"github.com/tink-crypto/tink-go/v2/signature/ecdsa"
	tinkmldsa "github.com/tink-crypto/tink-go/v2/signature/mldsa"
	"github.com/tink-crypto/tink-go/v2/signature/rsassapss"
	prehashmldsa "github.com/tink-crypto/tink-go/v2/signprehash/mldsa"
	"github.com/tink-crypto/tink-go/v2/verifharness/hx"
)

func fixedKeyRealNew(p key.Parameters, id uint32) (key.Key, error) {
	req := id
	if !p.HasIDRequirement() {
		req = 0
	}
	return keygenregistry.CreateKey(p, req)
}

// looseParams: parameters of the operations that draw through the standard
// library (P-256/P-384/P-521 ECDH key generation, ECDSA and RSA-PSS signing,
// ML-KEM encapsulation) or whose random input is not visible in the output
// (ML-DSA / SLH-DSA hedged signing).
func looseParams(op string) (key.Parameters, error) {
	f := strings.Split(op, ":")
	switch f[0] {
	case "hpke", "mldsa", "slhdsa", "ed25519":
		p, _, err := paramsOf(op, "T")
		return p, err
	case "mldsapre": // the external-mu (prehash) signer of an ML-DSA key
		p, _, err := paramsOf("mldsa:"+f[1], "T")
		return p, err
	case "ecdsa":
		curve := map[string]ecdsa.CurveType{"p256": ecdsa.NistP256, "p384": ecdsa.NistP384, "p521": ecdsa.NistP521}[f[1]]
		h := map[string]ecdsa.HashType{"p256": ecdsa.SHA256, "p384": ecdsa.SHA384, "p521": ecdsa.SHA512}[f[1]]
		enc := ecdsa.DER
		if len(f) > 2 && f[2] == "p1363" {
			enc = ecdsa.IEEEP1363
		}
		return ecdsa.NewParameters(curve, h, enc, ecdsa.VariantTink)
	case "rsapss":
		return rsassapss.NewParameters(rsassapss.ParametersValues{ModulusSizeBits: 2048, SigHashType: rsassapss.SHA256, MGF1HashType: rsassapss.SHA256,
			PublicExponent: 65537, SaltLengthBytes: atoi(f[1])}, rsassapss.VariantTink)
	case "ecies":
		dem, err := aesgcm.NewParameters(aesgcm.ParametersOpts{KeySizeInBytes: 16, IVSizeInBytes: 12, TagSizeInBytes: 16, Variant: aesgcm.VariantNoPrefix})
		if err != nil {
			return nil, err
		}
		curve := map[string]ecies.CurveType{"p256": ecies.NISTP256, "p384": ecies.NISTP384, "p521": ecies.NISTP521, "x25519": ecies.X25519}[f[1]]
		pf := ecies.UncompressedPointFormat
		if f[1] == "x25519" {
			pf = ecies.UnspecifiedPointFormat
		}
		return ecies.NewParameters(ecies.ParametersOpts{CurveType: curve, HashType: ecies.SHA256, NISTCurvePointFormat: pf, DEMParameters: dem, Variant: ecies.VariantTink})
	}
	return nil, fmt.Errorf("unknown loose op %q", op)
}

// looseOutputs runs k calls of op; for every call it returns the output and
// the number of tape bytes the call consumed (0 when tape == nil).
func looseOutputs(op string, k int, tape *hx.Tape) (outs [][]byte, used []int, err error) {
	body := func(call func() ([]byte, error)) {
		run := func() {
			for i := 0; i < k; i++ {
				before := 0
				if tape != nil {
					before = tapeUsed(tape)
				}
				o, e := call()
				if e != nil {
					err = e
					return
				}
				outs = append(outs, o)
				if tape != nil {
					used = append(used, tapeUsed(tape)-before)
				} else {
					used = append(used, 0)
				}
			}
		}
		if tape != nil {
			hx.WithTape(tape, run)
		} else {
			hx.RealRand(run)
		}
	}
	if strings.HasPrefix(op, "kg:") { // key generation: output = the new key's material
		p, e := looseParams(strings.TrimPrefix(op, "kg:"))
		if e != nil {
			return nil, nil, e
		}
		body(func() ([]byte, error) {
			ky, e := keygenregistry.CreateKey(p, 7)
			if e != nil {
				return nil, e
			}
			return []byte(material(ky)), nil
		})
		return
	}
	p, e := looseParams(op)
	if e != nil {
		return nil, nil, e
	}
	var ky key.Key
	hx.RealRand(func() { ky, e = fixedKeyReal(p, 7) })
	if e != nil {
		return nil, nil, e
	}
	h, e := oneKeyHandle(ky)
	if e != nil {
		return nil, nil, e
	}
	switch strings.Split(op, ":")[0] {
	case "hpke", "ecies":
		pub, e := h.Public()
		if e != nil {
			return nil, nil, e
		}
		enc, e := hybrid.NewHybridEncrypt(pub)
		if e != nil {
			return nil, nil, e
		}
		body(func() ([]byte, error) { return enc.Encrypt([]byte("same message"), []byte("info")) })
	case "mldsapre":
		priv, ok := ky.(*tinkmldsa.PrivateKey)
		if !ok {
			return nil, nil, fmt.Errorf("mldsapre: not an ML-DSA private key: %T", ky)
		}
		pk, e := priv.PublicKey()
		if e != nil {
			return nil, nil, e
		}
		ph, e := prehashmldsa.NewPrehash(pk.(*tinkmldsa.PublicKey), internalapi.Token{})
		if e != nil {
			return nil, nil, e
		}
		ps, e := prehashmldsa.NewPrehashSigner(priv, internalapi.Token{})
		if e != nil {
			return nil, nil, e
		}
		pre, e := ph.ComputePrehash([]byte("same message"))
		if e != nil {
			return nil, nil, e
		}
		body(func() ([]byte, error) { return ps.SignPrehash(pre) })
	default:
		s, e := signature.NewSigner(h)
		if e != nil {
			return nil, nil, e
		}
		body(func() ([]byte, error) { return s.Sign([]byte("same message")) })
	}
	return
}

func tapeUsed(t *hx.Tape) int {
	n := 0
	for _, r := range t.Log {
		n += r.N
	}
	return n
}

func allDistinct(bs [][]byte) bool {
	seen := map[string]bool{}
	for _, b := range bs {
		if seen[string(b)] {
			return false
		}
		seen[string(b)] = true
	}
	return true
}

func looseRun(op string, k int, tape *hx.Tape, given int, withSizes bool) string {
	outs, used, err := looseOutputs(op, k, tape)
	if err != nil {
		return "ERR " + err.Error()
	}
	if tapeUsed(tape) > given {
		return "TAPE-EXHAUSTED"
	}
	fresh := "yes"
	for _, u := range used {
		if u == 0 {
			fresh = "no"
		}
	}
	d := "yes"
	if !allDistinct(outs) {
		d = "no"
	}
	// read sizes are reported only where they are deterministic (the draw is
	// made by tink-go itself: ML-DSA rnd, SLH-DSA addrnd); draws made inside
	// the standard library carry a nondeterministic extra byte.
	sizes := "*"
	if withSizes || os.Getenv("C20_SIZES") != "" {
		var ss []string
		for _, r := range tape.Log {
			ss = append(ss, strconv.Itoa(r.N))
		}
		sizes = strings.Join(ss, ",")
	}
	return "r=" + sizes + "|fresh=" + fresh + ",distinct=" + d
}
