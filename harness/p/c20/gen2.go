package c20

import (
	"fmt"
	"strings"

	"github.com/tink-crypto/tink-go/v2/verifharness/hx"
)

// directed: deterministic cases for the theorems of the stretch round
// (coq/props/C20.v sections 9-11).
//
//   - clamp twins (C20_distinct_unclamped_randomness_refuted): two 32-byte
//     windows that differ only in the bits RFC 7748 clamps give ONE X25519
//     encapsulation, in the model (oracle x25519_pub) and in the real code;
//     a third window that differs in an unclamped bit gives another one;
//   - every unused id can be drawn, by exactly its big-endian window
//     (C20_every_unused_id_can_be_drawn, C20_id_loop_terminates_at_first_unused_word):
//     edge ids 0, 1, 2^31, 2^32-1 as first window, with the neighbouring ids in
//     use; used words in front of the first unused one;
//   - k signatures of every randomized signer that draws through tink-go
//     itself, on all tape styles (C20_ith_signature_randomizer_is_ith_window).
func directed(r *hx.Rng) []string {
	var lines []string
	for _, spec := range hpkeSpecs {
		for _, v := range []string{"T", "R"} {
			w := r.Bytes(32)
			twin := append([]byte(nil), w...)
			twin[0] ^= byte(1 + r.Intn(7)) // low three bits of byte 0
			twin[31] ^= 0x80               // top bit of byte 31
			if r.Chance(50) {
				twin[31] ^= 0x40 // bit 254 is set by the clamp
			}
			other := append([]byte(nil), w...)
			other[1+r.Intn(30)] ^= byte(1 + r.Intn(255))
			t := append(append(append([]byte(nil), w...), twin...), other...)
			lines = append(lines, fmt.Sprintf("C20|HPKE|%s|%s|%d|3|%s", spec, v, 7+r.Intn(1000), hx.H(t)))
		}
	}
	be := func(id uint32) []byte { return []byte{byte(id >> 24), byte(id >> 16), byte(id >> 8), byte(id)} }
	for _, id := range []uint32{0, 1, 1 << 31, 1<<32 - 1, 1 << 24, 255} {
		// neighbours in use, the id itself free: accepted at once
		pre := []string{fmt.Sprint(id + 1), fmt.Sprint(id - 1)}
		t := append(be(id), r.Bytes(40)...)
		lines = append(lines, fmt.Sprintf("C20|MGR|%s|gcm:32/T|%s", strings.Join(pre, ","), hx.H(t)))
		// the id in use (once as a deleted key): rejected, then the neighbour
		t2 := append(append(append(be(id), be(id)...), be(id+1)...), r.Bytes(40)...)
		lines = append(lines, fmt.Sprintf("C20|MGR|%d!|hmac:32/T;chacha/R|%s", id, hx.H(t2)))
		// tape of used words only: the loop runs off the tape
		t3 := append(append(be(id), be(id)...), be(id)[:3]...)
		lines = append(lines, fmt.Sprintf("C20|MGR|%d|gcm:16/T|%s", id, hx.H(t3)))
	}
	for _, spec := range signSpecs {
		for style := 0; style <= 4; style++ {
			k := 2 + r.Intn(2)
			lines = append(lines, fmt.Sprintf("C20|SIGN|%s|%d|%s", spec, k, hx.H(genTape(r, k*32+r.Intn(8), style))))
		}
	}
	return lines
}
