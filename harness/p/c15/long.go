package c15

// Directed long inputs (the random generator stops around 200 bytes): AES-CMAC-PRF on the subtle
// route and through prf.NewPRFSet at input lengths around the multiples of 16 and 64 AES blocks
// (an implementation that handles the non-final blocks in bulk goes wrong only there), HMAC-PRF and
// HKDF-PRF on inputs of many hash blocks.

import (
	"fmt"

	"github.com/tink-crypto/tink-go/v2/verifharness/hx"
)

var longLensQuick = []int{256, 257, 272, 273, 288, 300, 528, 1040, 1041, 1057, 2065, 4100}
var longLensThorough = []int{255, 256, 257, 272, 273, 288, 300, 512, 528, 1024, 1040, 1041, 1056, 1057, 2048, 2065, 4096, 4100, 8197, 65536}

func genLong(r *hx.Rng, tier string) []string {
	ll := longLensQuick
	if tier == "thorough" {
		ll = longLensThorough
	}
	var lines []string
	for i, n := range ll {
		in := r.Bytes(n)
		// subtle.NewAESCMACPRF
		lines = append(lines, fmt.Sprintf("C15|S|CM|-|%s|-|%s|%s", hx.H(r.Bytes(r.Pick([]int{16, 24, 32}))), hx.H(in), genLens(r, 16, false)))
		// a keyset: the AES-CMAC-PRF key primary, or not primary next to an HMAC-PRF key
		cm := entrySpec{kind: "CM", hash: "-", kb: r.Bytes(32), enabled: true, id: uint32(r.U64())}
		hm := entrySpec{kind: "HM", hash: hx.PickS(r, hashes), kb: r.Bytes(32), enabled: true, id: cm.id + 1}
		es, primary := []entrySpec{cm, hm}, i%2
		if i%3 == 0 {
			es = []entrySpec{cm}
			primary = 0
		}
		var ss []string
		for _, e := range es {
			ss = append(ss, entryStr(e))
		}
		m, big := maxOf(es[primary])
		lines = append(lines, fmt.Sprintf("C15|P|%s|%d|%s|%s", joinS(ss), primary, hx.H(in), genLens(r, m, big)))
	}
	hl := []int{1000, 4097}
	if tier == "thorough" {
		hl = []int{1000, 4097, 65536, 1 << 20}
	}
	for i, n := range hl {
		in := r.Bytes(n)
		for j, h := range hashes {
			if n >= 65536 && h != "SHA256" && j != i%len(hashes) {
				continue
			}
			lines = append(lines, fmt.Sprintf("C15|S|HM|%s|%s|-|%s|%s", h, hx.H(r.Bytes(r.Pick([]int{16, 32, blockSz[h] + 1}))), hx.H(in), genLens(r, digest[h], false)))
			// HKDF: the input is the info of every block; keep the requests short for the long ones
			lens := fmt.Sprintf("0,1,%d,%d", digest[h], 2*digest[h]+1)
			if n <= 4097 && j == 0 {
				lens += fmt.Sprintf(",%d,%d", 255*digest[h], 255*digest[h]+1)
			}
			hin := in
			if len(hin) > 1<<18 {
				// the extracted model's list append (T(i-1) ++ info ++ [i]) is not tail recursive and
				// overflows the 8 MiB stack at 1 MiB of info: HKDF inputs stop at 256 KiB
				hin = hin[:1<<18]
			}
			lines = append(lines, fmt.Sprintf("C15|S|HK|%s|%s|%s|%s|%s", h, hx.H(r.Bytes(32)), hx.H(genSalt(r, h)), hx.H(hin), lens))
		}
	}
	return lines
}

func joinS(ss []string) string {
	out := ""
	for i, s := range ss {
		if i > 0 {
			out += ";"
		}
		out += s
	}
	return out
}
