// Package c15 runs the real tink-go PRF code on cases of property C15 (PRFs
// are deterministic, prefix-consistent and equal to HMAC / HKDF / AES-CMAC).
package c15

import (
	"bytes"
	"crypto/aes"
	stdhkdf "crypto/hkdf"
	stdhmac "crypto/hmac"
	"crypto/sha1"
	"crypto/sha256"
	"crypto/sha512"
	"fmt"
	"hash"
	"math/big"
	"sort"
	"strconv"
	"strings"

	"github.com/tink-crypto/tink-go/v2/insecuresecretdataaccess"
	"github.com/tink-crypto/tink-go/v2/key"
	"github.com/tink-crypto/tink-go/v2/keyset"
	"github.com/tink-crypto/tink-go/v2/prf"
	"github.com/tink-crypto/tink-go/v2/prf/aescmacprf"
	"github.com/tink-crypto/tink-go/v2/prf/hkdfprf"
	"github.com/tink-crypto/tink-go/v2/prf/hmacprf"
	prfsubtle "github.com/tink-crypto/tink-go/v2/prf/subtle"
	"github.com/tink-crypto/tink-go/v2/secretdata"
	"github.com/tink-crypto/tink-go/v2/subtle"
	"github.com/tink-crypto/tink-go/v2/verifharness/hx"
)

// case lines
//   C15|S|<kind>|<hash>|<key>|<salt>|<input>|<lens>      prf/subtle constructors
//   C15|P|<entries>|<primary index>|<input>|<lens>       prf.NewPRFSet over a keyset
//        entry = kind,hash,keyhex,salthex,status(E|D),id  joined by ';' (ids are
//        handed to keyset.Manager through the randomness tape, in order)
//   C15|H|<hash>|<key>|<salt>|<info>|<lens>               subtle.ComputeHKDF
//   C15|R|<hash>|<secret>|<salt or nil>|<info>|<sizes>    the x/crypto hkdf reader, one Read per size (reader.go)
//   kind: HM (HMAC-PRF) HK (HKDF-PRF) CM (AES-CMAC-PRF); lens: ',' separated output lengths
// observation
//   S: rej | ok|o,o,...            (o = hex output or "err"; "-" = empty output)
//   P: rej1 (key objects) | rej4 (NewPRFSet) |
//      ok|primary=<id>|ids=<sorted ids>|o,o,...(ComputePrimaryPRF)|id:o;id:o...(every PRF at lens[0])
//   H: o,o,...
//   a trailing "|nd" marks a second computation that differed (non-determinism)

var tok = insecuresecretdataaccess.Token{}

func hmHash(n string) hmacprf.HashType {
	switch n {
	case "SHA1":
		return hmacprf.SHA1
	case "SHA224":
		return hmacprf.SHA224
	case "SHA256":
		return hmacprf.SHA256
	case "SHA384":
		return hmacprf.SHA384
	case "SHA512":
		return hmacprf.SHA512
	}
	return hmacprf.UnknownHashType
}

func hkHash(n string) hkdfprf.HashType {
	switch n {
	case "SHA1":
		return hkdfprf.SHA1
	case "SHA224":
		return hkdfprf.SHA224
	case "SHA256":
		return hkdfprf.SHA256
	case "SHA384":
		return hkdfprf.SHA384
	case "SHA512":
		return hkdfprf.SHA512
	}
	return hkdfprf.UnknownHashType
}

func lens(s string) []uint32 {
	var out []uint32
	for _, x := range strings.Split(s, ",") {
		if x != "" {
			v, _ := strconv.ParseUint(x, 10, 32)
			out = append(out, uint32(v))
		}
	}
	return out
}

// outs evaluates p at every length; the second return is false when a second
// evaluation differs or the input buffer was modified.
func outs(p prf.PRF, input []byte, ls []uint32) (string, bool) {
	var res []string
	det := true
	for _, n := range ls {
		in := append([]byte(nil), input...)
		o, err := p.ComputePRF(in, n)
		o2, err2 := p.ComputePRF(append([]byte(nil), input...), n)
		if (err == nil) != (err2 == nil) || !bytes.Equal(o, o2) || !bytes.Equal(in, input) {
			det = false
		}
		if err != nil {
			res = append(res, "err")
		} else {
			res = append(res, hx.H(o))
		}
	}
	return strings.Join(res, ","), det
}

// subtleNew hands private copies of key and salt to the constructor and overwrites them
// afterwards: the PRF must be the function of the bytes it was constructed with.
func subtleNew(kind, hashName string, kb0, salt0 []byte) (prf.PRF, error) {
	kb, salt := bytes.Clone(kb0), bytes.Clone(salt0)
	defer hx.Scribble(kb, salt)
	switch kind {
	case "HM":
		return prfsubtle.NewHMACPRF(hashName, kb)
	case "HK":
		return prfsubtle.NewHKDFPRF(hashName, kb, salt)
	case "CM":
		return prfsubtle.NewAESCMACPRF(kb)
	}
	panic("kind " + kind)
}

func mkKey(kind, hashName string, kb, salt []byte) (key.Key, error) {
	sd := secretdata.NewBytesFromData(kb, tok)
	switch kind {
	case "HM":
		p, err := hmacprf.NewParameters(len(kb), hmHash(hashName))
		if err != nil {
			return nil, err
		}
		return hmacprf.NewKey(sd, p)
	case "HK":
		p, err := hkdfprf.NewParameters(len(kb), hkHash(hashName), salt)
		if err != nil {
			return nil, err
		}
		return hkdfprf.NewKey(sd, p)
	case "CM":
		return aescmacprf.NewKey(sd)
	}
	panic("kind " + kind)
}

type entrySpec struct {
	kind, hash string
	kb, salt   []byte
	enabled    bool
	id         uint32
}

func parseEntries(s string) []entrySpec {
	var out []entrySpec
	for _, es := range strings.Split(s, ";") {
		f := strings.Split(es, ",")
		id, _ := strconv.ParseUint(f[5], 10, 32)
		out = append(out, entrySpec{f[0], f[1], hx.UH(f[2]), hx.UH(f[3]), f[4] == "E", uint32(id)})
	}
	return out
}

func run(in string) string {
	f := strings.Split(in, "|")
	switch f[1] {
	case "R":
		return runReader(f)
	case "S":
		p, err := subtleNew(f[2], f[3], hx.UH(f[4]), hx.UH(f[5]))
		if err != nil {
			return "rej"
		}
		o, det := outs(p, hx.UH(f[6]), lens(f[7]))
		if !det {
			return "ok|" + o + "|nd"
		}
		return "ok|" + o
	case "H":
		var res []string
		det := true
		for _, n := range lens(f[6]) {
			k, s, i := hx.UH(f[3]), hx.UH(f[4]), hx.UH(f[5])
			o, err := subtle.ComputeHKDF(f[2], k, s, i, n)
			o2, err2 := subtle.ComputeHKDF(f[2], hx.UH(f[3]), hx.UH(f[4]), hx.UH(f[5]), n)
			if (err == nil) != (err2 == nil) || !bytes.Equal(o, o2) || !bytes.Equal(k, hx.UH(f[3])) || !bytes.Equal(s, hx.UH(f[4])) || !bytes.Equal(i, hx.UH(f[5])) {
				det = false
			}
			if err != nil {
				res = append(res, "err")
			} else {
				res = append(res, hx.H(o))
			}
		}
		if !det {
			return strings.Join(res, ",") + "|nd"
		}
		return strings.Join(res, ",")
	case "P":
		es := parseEntries(f[2])
		primary, _ := strconv.Atoi(f[3])
		var keys []key.Key
		for _, e := range es {
			k, err := mkKey(e.kind, e.hash, e.kb, e.salt)
			if err != nil {
				return "rej1"
			}
			keys = append(keys, k)
		}
		tape := &hx.Tape{}
		for _, e := range es {
			tape.IDs = append(tape.IDs, e.id)
		}
		var set *prf.Set
		var err error
		hx.WithTape(tape, func() {
			km := keyset.NewManager()
			var ids []uint32
			for _, k := range keys {
				var id uint32
				id, err = km.AddKey(k)
				if err != nil {
					return
				}
				ids = append(ids, id)
			}
			if err = km.SetPrimary(ids[primary]); err != nil {
				return
			}
			for i, e := range es {
				if !e.enabled {
					if err = km.Disable(ids[i]); err != nil {
						return
					}
				}
			}
			var h *keyset.Handle
			h, err = km.Handle()
			if err != nil {
				return
			}
			set, err = prf.NewPRFSet(h)
		})
		if err != nil {
			return "rej4"
		}
		input := hx.UH(f[4])
		ls := lens(f[5])
		var ids []uint32
		for id := range set.PRFs {
			ids = append(ids, id)
		}
		sort.Slice(ids, func(i, j int) bool { return ids[i] < ids[j] })
		var idss, per []string
		det := true
		for _, id := range ids {
			idss = append(idss, strconv.FormatUint(uint64(id), 10))
			o, d := outs(set.PRFs[id], input, ls[:1])
			det = det && d
			per = append(per, strconv.FormatUint(uint64(id), 10)+":"+o)
		}
		var res []string
		for _, n := range ls {
			o, err := set.ComputePrimaryPRF(append([]byte(nil), input...), n)
			if err != nil {
				res = append(res, "err")
			} else {
				res = append(res, hx.H(o))
			}
		}
		out := fmt.Sprintf("ok|primary=%d|ids=%s|%s|%s", set.PrimaryID, strings.Join(idss, ","), strings.Join(res, ","), strings.Join(per, ";"))
		if !det {
			out += "|nd"
		}
		return out
	}
	panic("bad path")
}

// ---------------------------------------------------------------------------
// direct oracle: standard library only (crypto/hmac, crypto/hkdf, RFC 4493 over math/big)

func stdHash(alg string) func() hash.Hash {
	switch alg {
	case "SHA1":
		return sha1.New
	case "SHA224":
		return sha256.New224
	case "SHA256":
		return sha256.New
	case "SHA384":
		return sha512.New384
	case "SHA512":
		return sha512.New
	}
	return nil
}

func refCMAC(kb, msg []byte) []byte {
	bc, err := aes.NewCipher(kb)
	if err != nil {
		return nil
	}
	enc := func(b []byte) []byte { o := make([]byte, 16); bc.Encrypt(o, b); return o }
	dbl := func(b []byte) []byte {
		x := new(big.Int).SetBytes(b)
		msb := x.Bit(127)
		x.Lsh(x, 1)
		x.And(x, new(big.Int).Sub(new(big.Int).Lsh(big.NewInt(1), 128), big.NewInt(1)))
		if msb == 1 {
			x.Xor(x, big.NewInt(0x87))
		}
		return x.FillBytes(make([]byte, 16))
	}
	xor := func(a, b []byte) []byte {
		o := make([]byte, 16)
		for i := range o {
			o[i] = a[i] ^ b[i]
		}
		return o
	}
	k1 := dbl(enc(make([]byte, 16)))
	k2 := dbl(k1)
	n := (len(msg) + 15) / 16
	var last []byte
	if n == 0 {
		n = 1
		last = xor(append([]byte{0x80}, make([]byte, 15)...), k2)
	} else if len(msg)%16 == 0 {
		last = xor(msg[16*(n-1):], k1)
	} else {
		p := append(append([]byte(nil), msg[16*(n-1):]...), 0x80)
		p = append(p, make([]byte, 16-len(p))...)
		last = xor(p, k2)
	}
	x := make([]byte, 16)
	for i := 0; i < n-1; i++ {
		x = enc(xor(x, msg[16*i:16*i+16]))
	}
	return enc(xor(x, last))
}

// refPRF returns the standard output of length n, or nil,false beyond the maximum.
func refPRF(kind, hashName string, kb, salt, input []byte, n uint32) ([]byte, bool) {
	switch kind {
	case "HM":
		h := stdhmac.New(stdHash(hashName), kb)
		h.Write(input)
		full := h.Sum(nil)
		if int(n) > len(full) {
			return nil, false
		}
		return full[:n], true
	case "CM":
		if n > 16 {
			return nil, false
		}
		return refCMAC(kb, input)[:n], true
	case "HK":
		hf := stdHash(hashName)
		if int(n) > 255*hf().Size() {
			return nil, false
		}
		if n == 0 {
			return []byte{}, true
		}
		s := salt
		if len(s) == 0 {
			s = make([]byte, hf().Size()) // RFC 5869: absent salt = HashLen zeros
		}
		o, err := stdhkdf.Key(hf, kb, s, string(input), int(n))
		if err != nil {
			return nil, false
		}
		return o, true
	}
	panic("kind")
}

// keyStage: 0 ok, 1 key object rejected, 4 primitive rejected (documented rules)
func keyStage(e entrySpec) int {
	switch e.kind {
	case "HM":
		if stdHash(e.hash) == nil || len(e.kb) < 16 {
			return 1
		}
	case "HK":
		if stdHash(e.hash) == nil || len(e.kb) < 16 {
			return 1
		}
		if len(e.kb) < 32 || (e.hash != "SHA256" && e.hash != "SHA512") {
			return 4
		}
	case "CM":
		if len(e.kb) != 16 && len(e.kb) != 32 {
			return 1
		}
		if len(e.kb) != 32 {
			return 4
		}
	}
	return 0
}

func checkOuts(kind, hashName string, kb, salt, input []byte, ls []uint32, got []string) string {
	if len(got) != len(ls) {
		return "malformed outputs"
	}
	var full []byte // longest successful output, for the prefix law on the implementation itself
	for i, n := range ls {
		want, ok := refPRF(kind, hashName, kb, salt, input, n)
		if !ok {
			if got[i] != "err" {
				return fmt.Sprintf("output length %d beyond the maximum was not refused", n)
			}
			continue
		}
		if got[i] == "err" {
			return fmt.Sprintf("output length %d within the maximum was refused", n)
		}
		g := hx.UH(got[i])
		if !bytes.Equal(g, want) {
			return fmt.Sprintf("ComputePRF(%d) differs from the standard value", n)
		}
		if len(g) > len(full) {
			full = g
		}
	}
	for i, n := range ls {
		if got[i] != "err" && !bytes.Equal(hx.UH(got[i]), full[:n]) {
			return fmt.Sprintf("ComputePRF(%d) is not a prefix of the longer output", n)
		}
	}
	return ""
}

func check(in, obs string) string {
	if strings.HasPrefix(obs, "PANIC") {
		return obs
	}
	if strings.HasSuffix(obs, "|nd") {
		return "PRF is not deterministic (or modified its input)"
	}
	f := strings.Split(in, "|")
	o := strings.Split(obs, "|")
	switch f[1] {
	case "R":
		return checkReader(f, obs)
	case "S":
		kb := hx.UH(f[4])
		valid := true
		if f[2] == "CM" {
			valid = len(kb) == 16 || len(kb) == 24 || len(kb) == 32
		} else {
			valid = stdHash(f[3]) != nil
		}
		if obs == "rej" {
			if valid {
				return "valid configuration rejected"
			}
			return ""
		}
		if !valid {
			return "invalid configuration accepted"
		}
		return checkOuts(f[2], f[3], kb, hx.UH(f[5]), hx.UH(f[6]), lens(f[7]), strings.Split(o[1], ","))
	case "H":
		got := strings.Split(o[0], ",")
		ls := lens(f[6])
		for i, n := range ls {
			hf := stdHash(f[2])
			if hf == nil || n < 10 || int(n) > 255*hf().Size() {
				if got[i] != "err" {
					return fmt.Sprintf("ComputeHKDF returned output for an invalid request (len %d)", n)
				}
				continue
			}
			if got[i] == "err" {
				// "whenever it returns output": refusing is not a violation, but
				// a refusal of a valid request is reported (documented behaviour)
				return fmt.Sprintf("ComputeHKDF refused a valid request (len %d)", n)
			}
			want, _ := refPRF("HK", f[2], hx.UH(f[3]), hx.UH(f[4]), hx.UH(f[5]), n)
			if !bytes.Equal(hx.UH(got[i]), want) {
				return fmt.Sprintf("ComputeHKDF(%d) differs from RFC 5869", n)
			}
		}
		return ""
	case "P":
		es := parseEntries(f[2])
		primary, _ := strconv.Atoi(f[3])
		want := 0
		for _, e := range es {
			if keyStage(e) == 1 {
				want = 1
			}
		}
		if want == 0 {
			for _, e := range es {
				if e.enabled && keyStage(e) == 4 {
					want = 4
				}
			}
		}
		if strings.HasPrefix(obs, "rej") {
			if want == 0 {
				return "valid keyset rejected: " + obs
			}
			if obs != "rej"+strconv.Itoa(want) {
				return fmt.Sprintf("%s, documented rules say stage %d", obs, want)
			}
			return ""
		}
		if want != 0 {
			return "invalid keyset accepted"
		}
		if len(o) != 5 {
			return "malformed observation"
		}
		var ids []uint32
		for _, e := range es {
			if e.enabled {
				ids = append(ids, e.id)
			}
		}
		sort.Slice(ids, func(i, j int) bool { return ids[i] < ids[j] })
		var idss []string
		for _, id := range ids {
			idss = append(idss, strconv.FormatUint(uint64(id), 10))
		}
		if o[1] != fmt.Sprintf("primary=%d", es[primary].id) {
			return "PrimaryID is not the id of the primary key: " + o[1]
		}
		if o[2] != "ids="+strings.Join(idss, ",") {
			return "key ids of the set are not the ids of the enabled keys: " + o[2]
		}
		ls := lens(f[5])
		input := hx.UH(f[4])
		p := es[primary]
		if v := checkOuts(p.kind, p.hash, p.kb, p.salt, input, ls, strings.Split(o[3], ",")); v != "" {
			return "primary: " + v
		}
		per := map[string]string{}
		for _, x := range strings.Split(o[4], ";") {
			kv := strings.SplitN(x, ":", 2)
			per[kv[0]] = kv[1]
		}
		for _, e := range es {
			if !e.enabled {
				continue
			}
			if v := checkOuts(e.kind, e.hash, e.kb, e.salt, input, ls[:1], []string{per[strconv.FormatUint(uint64(e.id), 10)]}); v != "" {
				return fmt.Sprintf("key %d: %s", e.id, v)
			}
		}
		return ""
	}
	return "bad case"
}

// ---------------------------------------------------------------------------
// generator

var hashes = []string{"SHA1", "SHA224", "SHA256", "SHA384", "SHA512"}
var digest = map[string]int{"SHA1": 20, "SHA224": 28, "SHA256": 32, "SHA384": 48, "SHA512": 64}
var blockSz = map[string]int{"SHA1": 64, "SHA224": 64, "SHA256": 64, "SHA384": 128, "SHA512": 128}

func genLens(r *hx.Rng, max int, big bool) string {
	set := []int{0, 1, max, max + 1}
	cand := []int{2, 9, 10, 11, 15, 16, 17, 31, 32, 33, max - 1, max / 2, max + 2, 2 * max, 1 + r.Intn(max+3), 1 + r.Intn(max+3)}
	if big { // HKDF: maxima are 255*HashLen; keep most requests short
		d := max / 255
		set = []int{0, 1, d - 1, d, d + 1}
		cand = []int{2, 10, 2 * d, 2*d + 1, 3*d - 1, r.Intn(6 * d), r.Intn(6 * d), r.Intn(20 * d)}
		if r.Chance(25) {
			set = append(set, max, max+1)
		}
		if r.Chance(10) {
			set = append(set, max-1, 254*d+1, r.Intn(max+1))
		}
	}
	for i := 0; i < 3; i++ {
		set = append(set, hx.PickS(r, cand))
	}
	// shuffle so that the first length (used for the per-key outputs) varies
	for i := len(set) - 1; i > 0; i-- {
		j := r.Intn(i + 1)
		set[i], set[j] = set[j], set[i]
	}
	var s []string
	for _, v := range set {
		if v < 0 {
			v = 0
		}
		s = append(s, strconv.Itoa(v))
	}
	return strings.Join(s, ",")
}

func genSalt(r *hx.Rng, h string) []byte {
	d, b := digest[h], blockSz[h]
	if d == 0 {
		d, b = 32, 64
	}
	switch r.Intn(8) {
	case 0, 1:
		return []byte{}
	case 2:
		return make([]byte, d) // explicit zero salt of HashLen
	case 3:
		return make([]byte, r.Pick([]int{1, d - 1, d + 1, b}))
	case 4:
		return r.Bytes(r.Pick([]int{b - 1, b, b + 1, 2 * b})) // around / beyond the block size (salt gets hashed)
	}
	return r.Bytes(1 + r.Intn(40))
}

func genInput(r *hx.Rng, cm bool) []byte {
	if cm {
		return r.Bytes(r.Pick([]int{0, 1, 15, 16, 17, 31, 32, 33, 48, 64, r.Intn(120)}))
	}
	return r.Bytes(r.Pick([]int{0, 1, 16, 55, 56, 63, 64, 65, 127, 128, r.Intn(200)}))
}

func genEntry(r *hx.Rng, invalid bool) entrySpec {
	var e entrySpec
	switch x := r.Intn(100); {
	case x < 35:
		e.kind, e.hash = "HM", hx.PickS(r, hashes)
		b := blockSz[e.hash]
		e.kb = r.Bytes(r.Pick([]int{16, 17, 32, b - 1, b, b + 1, 2 * b, 16 + r.Intn(100)}))
		if invalid {
			if r.Bool() {
				e.kb = r.Bytes(r.Pick([]int{0, 8, 15}))
			} else {
				e.hash = hx.PickS(r, []string{"SHA3_256", "MD5", "sha256"})
			}
		}
	case x < 70:
		e.kind, e.hash = "HK", hx.PickS(r, []string{"SHA256", "SHA512"})
		b := blockSz[e.hash]
		e.kb = r.Bytes(r.Pick([]int{32, 33, 48, b - 1, b, b + 1, 2*b + 1, 32 + r.Intn(100)}))
		e.salt = genSalt(r, e.hash)
		if invalid {
			switch r.Intn(3) {
			case 0:
				e.kb = r.Bytes(r.Pick([]int{16, 24, 31})) // key object fine, primitive refused
			case 1:
				e.hash = hx.PickS(r, []string{"SHA1", "SHA224", "SHA384"}) // likewise
			case 2:
				e.kb = r.Bytes(r.Pick([]int{0, 15}))
			}
		}
	default:
		e.kind, e.hash = "CM", "-"
		e.kb = r.Bytes(32)
		if invalid {
			e.kb = r.Bytes(r.Pick([]int{16, 16, 24, 15, 33, 0}))
		}
	}
	e.enabled = true
	return e
}

func entryStr(e entrySpec) string {
	st := "E"
	if !e.enabled {
		st = "D"
	}
	return fmt.Sprintf("%s,%s,%s,%s,%s,%d", e.kind, e.hash, hx.H(e.kb), hx.H(e.salt), st, e.id)
}

func maxOf(e entrySpec) (int, bool) {
	switch e.kind {
	case "HM":
		if d := digest[e.hash]; d > 0 {
			return d, false
		}
		return 32, false
	case "HK":
		if d := digest[e.hash]; d > 0 {
			return 255 * d, true
		}
		return 255 * 32, true
	}
	return 16, false
}

func gen(r *hx.Rng, n int, tier string) []string {
	var lines []string
	// the minimum key sizes of the subtle constructors themselves (the key objects have their own
	// checks in front of them, so only the subtle route reaches these comparisons)
	for _, h := range []string{"SHA256", "SHA512"} {
		for _, ks := range []int{15, 16} {
			lines = append(lines, fmt.Sprintf("C15|S|HM|%s|%s|-|%s|16", h, hx.H(r.Bytes(ks)), hx.H(r.Bytes(5))))
		}
		for _, ks := range []int{31, 32} {
			lines = append(lines, fmt.Sprintf("C15|S|HK|%s|%s|-|%s|16", h, hx.H(r.Bytes(ks)), hx.H(r.Bytes(5))))
		}
	}
	lines = append(lines, genLong(r, tier)...) // directed long inputs (long.go)
	for c := 0; c < n; c++ {
		switch x := r.Intn(100); {
		case x < 40: // subtle constructors: every hash, every key size
			var e entrySpec
			switch r.Intn(3) {
			case 0:
				e.kind, e.hash = "HM", hx.PickS(r, hashes)
				b := blockSz[e.hash]
				e.kb = r.Bytes(r.Pick([]int{0, 1, 15, 16, 17, 32, b - 1, b, b + 1, 2 * b, r.Intn(200)})) // 15/16: the subtle constructor's own minimum
			case 1:
				e.kind, e.hash = "HK", hx.PickS(r, hashes)
				b := blockSz[e.hash]
				e.kb = r.Bytes(r.Pick([]int{0, 1, 16, 31, 32, 33, b - 1, b, b + 1, 2 * b, r.Intn(200)})) // 31/32: the subtle constructor's own minimum
				e.salt = genSalt(r, e.hash)
			case 2:
				e.kind, e.hash = "CM", "-"
				e.kb = r.Bytes(r.Pick([]int{16, 24, 32, 32}))
				if r.Chance(10) {
					e.kb = r.Bytes(r.Pick([]int{0, 15, 17, 31, 33, 64}))
				}
			}
			if e.kind != "CM" && r.Chance(6) {
				e.hash = hx.PickS(r, []string{"SHA3_256", "MD5", "sha256", ""})
				if e.hash == "" {
					e.hash = "X"
				}
			}
			m, big := maxOf(e)
			lines = append(lines, fmt.Sprintf("C15|S|%s|%s|%s|%s|%s|%s", e.kind, e.hash, hx.H(e.kb), hx.H(e.salt), hx.H(genInput(r, e.kind == "CM")), genLens(r, m, big)))
		case x < 60: // subtle.ComputeHKDF
			h := hx.PickS(r, hashes)
			if r.Chance(5) {
				h = hx.PickS(r, []string{"SHA3_256", "MD5", "sha512"})
			}
			d := digest[h]
			if d == 0 {
				d = 32
			}
			kb := r.Bytes(r.Pick([]int{0, 1, 16, 32, 64, 65, 129, r.Intn(200)}))
			lines = append(lines, fmt.Sprintf("C15|H|%s|%s|%s|%s|%s", h, hx.H(kb), hx.H(genSalt(r, h)), hx.H(genInput(r, false)), genLens(r, 255*d, true)))
		case x < 70: // the x/crypto hkdf reader under arbitrary read schedules
			lines = append(lines, genReader(r))
		default: // PRF sets
			k := 1 + r.Intn(4)
			var es []entrySpec
			seen := map[uint32]bool{}
			for len(es) < k {
				e := genEntry(r, r.Chance(6))
				if r.Chance(30) {
					e.id = hx.PickS(r, []uint32{0, 1, 2, 0x7fffffff, 0x80000000, 0xffffffff})
				} else {
					e.id = uint32(r.U64())
				}
				if seen[e.id] {
					continue
				}
				seen[e.id] = true
				es = append(es, e)
			}
			primary := r.Intn(k)
			for i := range es {
				if i != primary && r.Chance(30) {
					es[i].enabled = false
				}
			}
			var ss []string
			for _, e := range es {
				ss = append(ss, entryStr(e))
			}
			m, big := maxOf(es[primary])
			lines = append(lines, fmt.Sprintf("C15|P|%s|%d|%s|%s", strings.Join(ss, ";"), primary, hx.H(genInput(r, es[primary].kind == "CM")), genLens(r, m, big)))
		}
	}
	return lines
}

func class(in, obs string) string {
	if strings.HasPrefix(obs, "PANIC") {
		return ""
	}
	f := strings.Split(in, "|")
	shape := func(s string) string { // err pattern of an output list
		var b []byte
		for _, x := range strings.Split(s, ",") {
			if x == "err" {
				b = append(b, 'e')
			} else {
				b = append(b, 'o')
			}
		}
		return string(b)
	}
	o := strings.Split(obs, "|")
	switch f[1] {
	case "R":
		return classReader(f, obs)
	case "S":
		if obs == "rej" {
			return "S:" + f[2] + ":" + f[3] + ":rej"
		}
		return fmt.Sprintf("S:%s:%s:k%d:s%d:i%d:%s", f[2], f[3], len(hx.UH(f[4]))/16, len(hx.UH(f[5]))/16, len(hx.UH(f[6]))%16, shape(o[1]))
	case "H":
		return fmt.Sprintf("H:%s:k%d:s%d:%s", f[2], len(hx.UH(f[3]))/32, len(hx.UH(f[4]))/16, shape(o[0]))
	case "P":
		es := parseEntries(f[2])
		var sig []string
		for _, e := range es {
			st := "E"
			if !e.enabled {
				st = "D"
			}
			sig = append(sig, e.kind+st)
		}
		if strings.HasPrefix(obs, "rej") {
			return "P:" + strings.Join(sig, "") + ":" + obs
		}
		return "P:" + strings.Join(sig, "") + ":" + f[3] + ":" + es[0].hash + ":" + shape(o[3])
	}
	return ""
}

func init() {
	hx.Register("C15", &hx.Prop{Gen: gen, Run: run, Check: check, Class: class})
}
