package c15

// Cases R: the golang.org/x/crypto/hkdf reader itself (the io.Reader that Tink's
// HKDF-PRF, subtle.ComputeHKDF and the keyset deriver read from), driven with an
// arbitrary schedule of Read sizes.  The model side is the as-coded reader of
// coq/model/HkdfCode.v (byte counter, previous block, buffer of unread bytes) over
// crypto/hmac as coded (coq/model/HmacCode.v); the theorem
// C15_xcrypto_hkdf_reader_is_rfc5869 says what every schedule must observe.
//
//   C15|R|<hash>|<secret hex>|<salt hex or "nil">|<info hex>|<sizes ','-separated>
//   observation: o,o,...   one per Read: hex of the bytes returned ("-" for an empty read) or "err"
//
// The direct check re-computes the stream T(1)|T(2)|... from RFC 5869 written by
// hand over crypto/hmac and replays the schedule on it.

import (
	stdhmac "crypto/hmac"
	"fmt"
	"strconv"
	"strings"

	"golang.org/x/crypto/hkdf"

	"github.com/tink-crypto/tink-go/v2/verifharness/hx"
)

func sizesOf(s string) []int {
	var out []int
	for _, x := range strings.Split(s, ",") {
		if x == "" {
			continue
		}
		v, _ := strconv.Atoi(x)
		out = append(out, v)
	}
	return out
}

func runReader(f []string) string {
	hf := stdHash(f[2])
	if hf == nil {
		return "BADCASE"
	}
	var salt []byte // nil
	if f[4] != "nil" {
		salt = hx.UH(f[4])
		if salt == nil {
			salt = []byte{}
		}
	}
	secret, info := hx.UH(f[3]), hx.UH(f[5])
	r := hkdf.New(hf, secret, salt, info)
	var res []string
	for _, n := range sizesOf(f[6]) {
		buf := make([]byte, n)
		k, err := r.Read(buf)
		if err != nil {
			if k != 0 {
				return "BADREAD"
			}
			res = append(res, "err")
			continue
		}
		if k != n {
			return "SHORTREAD"
		}
		res = append(res, hx.H(buf))
	}
	return strings.Join(res, ",")
}

// refStream: RFC 5869 by hand: PRK = HMAC(salt or HashLen zeros, IKM); T(i) = HMAC(PRK, T(i-1)|info|i), i = 1..255
func refStream(hn string, secret, salt, info []byte) []byte {
	hf := stdHash(hn)
	if salt == nil {
		salt = make([]byte, hf().Size())
	}
	ex := stdhmac.New(hf, salt)
	ex.Write(secret)
	prk := ex.Sum(nil)
	var out, prev []byte
	for i := 1; i <= 255; i++ {
		m := stdhmac.New(hf, prk)
		m.Write(prev)
		m.Write(info)
		m.Write([]byte{byte(i)})
		prev = m.Sum(nil)
		out = append(out, prev...)
	}
	return out
}

func checkReader(f []string, obs string) string {
	if obs == "BADCASE" || obs == "BADREAD" || obs == "SHORTREAD" {
		return "x/crypto hkdf reader: " + obs
	}
	var salt []byte
	if f[4] != "nil" {
		salt = hx.UH(f[4])
		if salt == nil {
			salt = []byte{}
		}
	}
	stream := refStream(f[2], hx.UH(f[3]), salt, hx.UH(f[5]))
	got := strings.Split(obs, ",")
	sizes := sizesOf(f[6])
	if len(sizes) == 0 {
		if obs != "" {
			return "output for an empty schedule"
		}
		return ""
	}
	if len(got) != len(sizes) {
		return "number of read results differs from the schedule"
	}
	pos := 0
	for i, n := range sizes {
		if pos+n > len(stream) {
			if got[i] != "err" {
				return fmt.Sprintf("read %d of %d bytes at offset %d passes 255*HashLen and did not fail", i, n, pos)
			}
			continue // a failing read consumes nothing
		}
		if got[i] != hx.H(stream[pos:pos+n]) {
			return fmt.Sprintf("read %d (%d bytes at offset %d) is not the RFC 5869 stream", i, n, pos)
		}
		pos += n
	}
	return ""
}

func classReader(f []string, obs string) string {
	var pat []byte
	for _, x := range strings.Split(obs, ",") {
		if x == "err" {
			pat = append(pat, 'e')
		} else {
			pat = append(pat, 'o')
		}
	}
	if len(pat) > 8 {
		pat = pat[:8]
	}
	d := digest[f[2]]
	var al []byte // alignment of each read start/size relative to the block
	pos := 0
	for i, n := range sizesOf(f[6]) {
		if i >= 6 {
			break
		}
		c := byte('m')
		switch {
		case n == 0:
			c = '0'
		case pos%d == 0 && n%d == 0:
			c = 'a'
		case n < d-pos%d:
			c = 's'
		case n > 2*d:
			c = 'l'
		}
		al = append(al, c)
		if pos+n <= 255*d {
			pos += n
		}
	}
	s := "s+"
	if f[4] == "nil" {
		s = "nil"
	} else if f[4] == "-" {
		s = "s0"
	}
	return fmt.Sprintf("R:%s:%s:%s:%s", f[2], s, string(pat), string(al))
}

func genReader(r *hx.Rng) string {
	h := hx.PickS(r, hashes)
	d := digest[h]
	secret := r.Bytes(r.Pick([]int{0, 1, 16, 32, 64, 65, 129, r.Intn(200)}))
	salt := "nil"
	if !r.Chance(20) {
		salt = hx.H(genSalt(r, h))
	}
	info := genInput(r, false)
	var sizes []string
	total := 0
	k := 1 + r.Intn(7)
	if r.Chance(25) { // walk up to the 255-block limit and across it
		big := 255*d - r.Pick([]int{0, 1, d - 1, d, d + 1, 2*d + 3})
		sizes = append(sizes, strconv.Itoa(big))
		total = big
	}
	for i := 0; i < k; i++ {
		n := r.Pick([]int{0, 1, d - 1, d, d + 1, 2 * d, 2*d + 1, 3*d - 1, r.Intn(3 * d), r.Intn(10)})
		if r.Chance(8) {
			n = 255*d - total + r.Pick([]int{0, 1, -1, d})
			if n < 0 {
				n = 0
			}
		}
		if r.Chance(4) {
			n = 255*d + r.Intn(3)
		}
		sizes = append(sizes, strconv.Itoa(n))
		if total+n <= 255*d {
			total += n
		}
	}
	return fmt.Sprintf("C15|R|%s|%s|%s|%s|%s", h, hx.H(secret), salt, hx.H(info), strings.Join(sizes, ","))
}
