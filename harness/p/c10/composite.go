package c10

import (
	"crypto/ed25519"
	"crypto/sha512"

	"github.com/tink-crypto/tink-go/v2/insecuresecretdataaccess"
	"github.com/tink-crypto/tink-go/v2/keyset"
	"github.com/tink-crypto/tink-go/v2/secretdata"
	"github.com/tink-crypto/tink-go/v2/signature"
	tcomp "github.com/tink-crypto/tink-go/v2/signature/compositemldsa"
	ted "github.com/tink-crypto/tink-go/v2/signature/ed25519"
	tmldsa "github.com/tink-crypto/tink-go/v2/signature/mldsa"
	"github.com/tink-crypto/tink-go/v2/verifharness/hx"
)

// Composite ML-DSA (signature/compositemldsa): ML-DSA-65 with Ed25519.
//
//	C10|cs|set|alg|T/N|id|seed|clseed|msg|rnd|tag   signature.NewSigner on a composite key (rnd on the tape)
//	                                                -> the ML-DSA component of the signature | err
//	C10|cv|set|alg|T/N|id|pk|clpk|msg|sig|tag       signature.NewVerifier on a composite public key -> ok | rej
//
// The direct oracle for both: the composite verifier accepts iff the prefix
// matches and BOTH components verify on their own (ML-DSA through the
// internal API with context = label, Ed25519 through the standard library).

// label and M' written independently of internal/signature/compositemldsa
func compLabel(set, alg string) []byte {
	if set == "65" && alg == "ed25519" {
		return []byte("COMPSIG-MLDSA65-Ed25519-SHA512")
	}
	panic("composite algorithm " + set + "/" + alg)
}

func compMsgPrime(label, msg []byte) []byte {
	h := sha512.Sum512(msg)
	out := append([]byte("CompositeAlgorithmSignatures2025"), label...)
	out = append(out, 0)
	return append(out, h[:]...)
}

func compParams(set, alg, v string) *tcomp.Parameters {
	if set != "65" || alg != "ed25519" {
		panic("composite algorithm " + set + "/" + alg)
	}
	variant := tcomp.VariantNoPrefix
	if v == "T" {
		variant = tcomp.VariantTink
	}
	p, err := tcomp.NewParameters(tcomp.Ed25519, tcomp.MLDSA65, variant)
	if err != nil {
		panic(err)
	}
	return p
}

func compPrefix(v string, id uint32) []byte {
	if v == "T" {
		return []byte{1, byte(id >> 24), byte(id >> 16), byte(id >> 8), byte(id)}
	}
	return nil
}

func compIDReq(v string, id uint32) uint32 {
	if v == "T" {
		return id
	}
	return 0
}

func compPublicKey(set, alg, v string, id uint32, pk, clpk []byte) (*tcomp.PublicKey, error) {
	mp, err := tmldsa.NewParameters(set65(set), tmldsa.VariantNoPrefix)
	if err != nil {
		return nil, err
	}
	mpk, err := tmldsa.NewPublicKey(pk, 0, mp)
	if err != nil {
		return nil, err
	}
	ep, err := ted.NewParameters(ted.VariantNoPrefix)
	if err != nil {
		return nil, err
	}
	epk, err := ted.NewPublicKey(clpk, 0, ep)
	if err != nil {
		return nil, err
	}
	return tcomp.NewPublicKey(mpk, epk, compIDReq(v, id), compParams(set, alg, v))
}

func set65(s string) tmldsa.Instance {
	if s != "65" {
		panic("composite ML-DSA instance " + s)
	}
	return tmldsa.MLDSA65
}

func compPrivateKey(set, alg, v string, id uint32, seed, clseed []byte) (*tcomp.PrivateKey, error) {
	mp, err := tmldsa.NewParameters(set65(set), tmldsa.VariantNoPrefix)
	if err != nil {
		return nil, err
	}
	msk, err := tmldsa.NewPrivateKey(secretdata.NewBytesFromData(seed, insecuresecretdataaccess.Token{}), 0, mp)
	if err != nil {
		return nil, err
	}
	ep, err := ted.NewParameters(ted.VariantNoPrefix)
	if err != nil {
		return nil, err
	}
	esk, err := ted.NewPrivateKey(secretdata.NewBytesFromData(clseed, insecuresecretdataaccess.Token{}), 0, ep)
	if err != nil {
		return nil, err
	}
	return tcomp.NewPrivateKey(msk, esk, compIDReq(v, id), compParams(set, alg, v))
}

// compSign returns the whole composite signature made through a keyset handle.
func compSign(set, alg, v string, id uint32, seed, clseed, msg, rnd []byte) (sig []byte, err error) {
	hx.WithTape(&hx.Tape{IDs: []uint32{id}, Bulk: rnd}, func() {
		var k *tcomp.PrivateKey
		k, err = compPrivateKey(set, alg, v, id, seed, clseed)
		if err != nil {
			return
		}
		km := keyset.NewManager()
		var kid uint32
		kid, err = km.AddKey(k)
		if err != nil {
			return
		}
		if err = km.SetPrimary(kid); err != nil {
			return
		}
		var h *keyset.Handle
		h, err = km.Handle()
		if err != nil {
			return
		}
		s, e := signature.NewSigner(h)
		if e != nil {
			err = e
			return
		}
		sig, err = s.Sign(msg)
	})
	return sig, err
}

func compVerify(set, alg, v string, id uint32, pk, clpk, msg, sig []byte) string {
	out := "rej"
	hx.WithTape(&hx.Tape{IDs: []uint32{id}}, func() {
		k, err := compPublicKey(set, alg, v, id, pk, clpk)
		if err != nil {
			out = "badkey"
			return
		}
		km := keyset.NewManager()
		kid, err := km.AddKey(k)
		if err != nil {
			out = "badkey"
			return
		}
		if km.SetPrimary(kid) != nil {
			out = "badkey"
			return
		}
		h, err := km.Handle()
		if err != nil {
			out = "badkey"
			return
		}
		vf, err := signature.NewVerifier(h)
		if err != nil {
			out = "badkey"
			return
		}
		if vf.Verify(sig, msg) == nil {
			out = "ok"
		}
	})
	return out
}

// componentsVerify: prefix present, then each component on its own.
func componentsVerify(set, alg, v string, id uint32, pk, clpk, msg, sig []byte) (prefixOK, mldsaOK, classicalOK bool) {
	p := setOf(set)
	prefix := compPrefix(v, id)
	if len(sig) < len(prefix) || string(sig[:len(prefix)]) != string(prefix) {
		return false, false, false
	}
	body := sig[len(prefix):]
	if len(body) < p.sigLen {
		return true, false, false
	}
	label := compLabel(set, alg)
	mp := compMsgPrime(label, msg)
	ipk, err := p.decodePK(pk)
	if err != nil {
		return true, false, false
	}
	mldsaOK = ipk.Verify(mp, body[:p.sigLen], label) == nil
	classicalOK = len(clpk) == ed25519.PublicKeySize && ed25519.Verify(ed25519.PublicKey(clpk), mp, body[p.sigLen:])
	return true, mldsaOK, classicalOK
}
