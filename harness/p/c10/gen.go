package c10

import (
	"crypto/ed25519"
	"encoding/binary"
	"fmt"
	"sort"

	"golang.org/x/crypto/sha3"

	imldsa "github.com/tink-crypto/tink-go/v2/internal/signature/mldsa"
	"github.com/tink-crypto/tink-go/v2/verifharness/hx"
)

// ---- scalar kernels: boundary lattice + random ----

var gammas = []uint32{(q - 1) / 88, (q - 1) / 32}

// lattice returns the boundary values of Z_q arithmetic and of the rounding
// algorithms for gamma2 = g: ends of the canonical range, the non-canonical
// range up to 2q and the uint32 ends, the centred-norm boundary (q-1)/2, the
// multiples of 2*gamma2 and the odd multiples of gamma2 (where mod± switches
// sign), and the multiples of 2^13 and 2^12 of Power2Round, each ±1.
func lattice(r *hx.Rng, g uint32) []uint32 {
	v := []uint32{0, 1, 2, q - 2, q - 1, q, q + 1, 2*q - 1, 2 * q, 2*q + 1, 1<<31 - 1, 1 << 31, 1<<32 - 1,
		(q - 1) / 2, (q-1)/2 - 1, (q-1)/2 + 1, (q + 1) / 2, 1 << 22, 1 << 23, 1<<23 - 1}
	for i := 0; i < 6; i++ {
		k := uint32(r.Intn(int((q-1)/g) + 2))
		for _, d := range []int64{-2, -1, 0, 1, 2} {
			v = append(v, uint32(int64(k*g)+d))
		}
	}
	// the top interval of Decompose: r - r0 = q - 1
	for _, d := range []int64{-2, -1, 0, 1} {
		v = append(v, uint32(int64(q-1)-int64(g)+d), uint32(int64(q-1)+d))
	}
	for i := 0; i < 4; i++ {
		k := uint32(r.Intn(1024))
		for _, d := range []int64{-1, 0, 1, 4095, 4096, 4097} {
			v = append(v, uint32(int64(k*8192)+d))
		}
	}
	return v
}

var unaryOps = []string{"reduceOnce", "neg", "power2Round", "scalePower2", "centeredAbs"}
var binaryOps = []string{"add", "sub", "mul", "centeredMax"}
var gammaOps = []string{"divBy2Gamma2", "decompose", "highBits", "lowBits"}
var hintOps = []string{"makeHint", "useHint"}

func scLine(op string, a, b, g uint32, tag string) string {
	return fmt.Sprintf("C10|sc|%s|%d|%d|%d|%s", op, a, b, g, tag)
}

func rangeTag(vs ...uint32) string {
	for _, v := range vs {
		if v >= q {
			return "?noncanon"
		}
	}
	return "?canon"
}

func randCoeff(r *hx.Rng) uint32 { return uint32(r.Intn(q)) }

func genScalar(r *hx.Rng, n int) []string {
	var out []string
	add := func(s string) { out = append(out, s) }
	for len(out) < n {
		g := gammas[r.Intn(2)]
		lat := lattice(r, g)
		pickv := func() (uint32, string) {
			switch r.Intn(10) {
			case 0, 1, 2, 3, 4:
				return lat[r.Intn(len(lat))], "lat"
			case 5:
				return uint32(r.U64()), "u32"
			default:
				return randCoeff(r), "rnd"
			}
		}
		a, ta := pickv()
		b, tb := pickv()
		switch r.Intn(10) {
		case 0, 1:
			op := unaryOps[r.Intn(len(unaryOps))]
			if op == "scalePower2" && r.Chance(70) {
				a = uint32(r.Intn(1024))
			}
			add(scLine(op, a, 0, 0, rangeTag(a)+":"+ta))
		case 2, 3, 4:
			op := binaryOps[r.Intn(len(binaryOps))]
			if op == "mul" && r.Chance(30) {
				// products next to multiples of q: b ~ (m*q + d) / a
				if a%q != 0 {
					m := uint64(r.Intn(q))
					b = uint32((m*q + uint64(r.Intn(5))) / uint64(a%q) % q)
					tb = "nearq"
				}
			}
			add(scLine(op, a, b, 0, rangeTag(a, b)+":"+ta+tb))
		case 5, 6, 7:
			op := gammaOps[r.Intn(len(gammaOps))]
			gg := g
			if r.Chance(6) {
				gg = []uint32{0, 1, g - 1, g + 1, 2 * g}[r.Intn(5)]
			}
			tg := "g88"
			if gg == gammas[1] {
				tg = "g32"
			} else if gg != gammas[0] {
				tg = "gbad"
			}
			add(scLine(op, a, 0, gg, rangeTag(a)+":"+ta+":"+tg))
		default:
			op := hintOps[r.Intn(2)]
			tg := "g88"
			if g == gammas[1] {
				tg = "g32"
			}
			if op == "useHint" {
				h := uint32(r.Intn(2))
				if r.Chance(5) {
					h = uint32(r.Intn(5))
				}
				add(scLine(op, a, h, g, rangeTag(a)+":"+ta+":"+tg+fmt.Sprintf(":h%d", h)))
			} else {
				// makeHint(z, r): mostly small |z| as in signing, sometimes anything
				if r.Chance(60) {
					z := int64(r.Intn(int(2*g))) - int64(g)
					a = uint32((z + q) % q)
					ta = "small"
				}
				add(scLine(op, a, b, g, rangeTag(a, b)+":"+ta+tb+":"+tg))
			}
		}
	}
	return out
}

// ---- polynomial kernels ----

func randPoly(r *hx.Rng, bound uint32) (c [256]uint32) {
	for i := range c {
		c[i] = uint32(r.U64() % uint64(bound))
	}
	return c
}

func genNTT(r *hx.Rng, n int) []string {
	var out []string
	for i := 0; i < n; i++ {
		kind := "ntt"
		if i%2 == 1 {
			kind = "intt"
		}
		var p [256]uint32
		tag := "?rnd"
		switch {
		case i < 2:
			tag = "?zero"
		case i < 4:
			for j := range p {
				p[j] = q - 1
			}
			tag = "?qm1"
		case i < 10:
			p[[]int{0, 1, 127, 128, 255, r.Intn(256)}[i-4]] = 1 + uint32(r.Intn(q-1))
			tag = "?delta"
		case i == 10 || i == 11:
			// arbitrary uint32 coefficients (the model follows the generated kernels; slow)
			p = randPoly(r, 1<<32-1)
			tag = "?noncanon"
		default:
			p = randPoly(r, q)
		}
		out = append(out, fmt.Sprintf("C10|%s|%s|%s", kind, polyHex(p), tag))
	}
	return out
}

var packBits = []int{3, 4, 6, 10, 13, 18, 20}

func genPack(r *hx.Rng, n int) []string {
	var out []string
	for i := 0; i < n; i++ {
		p := setOf(hx.PickS(r, []string{"44", "65", "87"}))
		switch i % 4 {
		case 0: // SimpleBitPack
			bits := packBits[r.Intn(len(packBits))]
			tag := "+fits"
			bound := uint32(1) << bits
			if r.Chance(20) {
				bound = q
				tag = "?wide"
			}
			c := randPoly(r, bound)
			if r.Chance(30) {
				c[r.Intn(256)] = 1<<bits - 1
				c[r.Intn(256)] = 0
			}
			out = append(out, fmt.Sprintf("C10|sbp|%d|%s|%s", bits, polyHex(c), tag))
		case 1: // BitPack with the three (a, bits) pairs of the scheme, coefficients in (a - 2^bits, a]
			var a uint32
			var bits int
			var lo int64 // p in [lo, a]
			switch r.Intn(3) {
			case 0:
				a, bits, lo = uint32(p.eta), p.etaBits, -int64(p.eta)
			case 1:
				a, bits, lo = 1<<12, 13, -(1<<12)+1
			default:
				a, bits, lo = 1<<p.lg1, p.lg1+1, -(1<<p.lg1)+1
			}
			var c [256]uint32
			for j := range c {
				v := lo + int64(r.U64()%uint64(int64(a)-lo+1))
				if r.Chance(5) {
					v = []int64{lo, int64(a), 0, -1, 1}[r.Intn(5)]
				}
				c[j] = uint32((v + q) % q)
			}
			out = append(out, fmt.Sprintf("C10|bp|%d|%d|%s|+%s", a, bits, polyHex(c), p.name))
		case 2: // SimpleBitUnpack: exact, short and over-long inputs
			bits := packBits[r.Intn(len(packBits))]
			ln, tag := 32*bits, "?exact"
			switch r.Intn(8) {
			case 0:
				ln, tag = r.Intn(32*bits), "?short"
			case 1:
				ln, tag = 32*bits+1+r.Intn(3), "?long"
			case 2:
				ln, tag = 0, "?empty"
			}
			b := r.Bytes(ln)
			if r.Chance(10) {
				for j := range b {
					b[j] = 0xff
				}
			}
			out = append(out, fmt.Sprintf("C10|sbu|%d|%s|%s", bits, hx.H(b), tag))
		default: // BitUnpack
			var a uint32
			var bits int
			switch r.Intn(3) {
			case 0:
				a, bits = uint32(p.eta), p.etaBits
			case 1:
				a, bits = 1<<12, 13
			default:
				a, bits = 1<<p.lg1, p.lg1+1
			}
			out = append(out, fmt.Sprintf("C10|bu|%d|%d|%s|?%s", a, bits, hx.H(r.Bytes(32*bits)), p.name))
		}
	}
	return out
}

// random hint vector of total weight w
func randHint(r *hx.Rng, p *pset, w int) [][256]uint32 {
	h := make([][256]uint32, p.k)
	for w > 0 {
		i, j := r.Intn(p.k), r.Intn(256)
		if h[i][j] == 0 {
			h[i][j] = 1
			w--
		}
	}
	return h
}

func genHints(r *hx.Rng, n int) []string {
	var out []string
	for i := 0; i < n; i++ {
		p := setOf([]string{"44", "65", "87"}[i%3])
		w := r.Intn(p.omega + 1)
		switch r.Intn(8) {
		case 0:
			w = p.omega
		case 1:
			w = 0
		case 2:
			w = p.omega - 1
		}
		h := randHint(r, p, w)
		if r.Chance(10) {
			// everything in one polynomial, including the end indices 0 and 255
			h = make([][256]uint32, p.k)
			row := r.Intn(p.k)
			h[row][0], h[row][255] = 1, 1
			for c := 2; c < w; {
				j := r.Intn(256)
				if h[row][j] == 0 {
					h[row][j] = 1
					c++
				}
			}
			if w < 2 {
				w = 2
			}
		}
		if i%3 == 0 {
			out = append(out, fmt.Sprintf("C10|hbp|%s|%s|+w%s", p.name, masksHex(h), wclass(p, w)))
			continue
		}
		enc := p.hintPack(h)
		tag := "+canon:w" + wclass(p, w)
		switch r.Intn(9) {
		case 0: // two indices of a row out of order / equal
			for try := 0; try < 50; try++ {
				row := r.Intn(p.k)
				lo := 0
				if row > 0 {
					lo = int(enc[p.omega+row-1])
				}
				hi := int(enc[p.omega+row])
				if hi-lo >= 2 {
					j := lo + r.Intn(hi-lo-1)
					if r.Bool() {
						enc[j], enc[j+1] = enc[j+1], enc[j]
						tag = "-swap"
					} else {
						enc[j+1] = enc[j]
						tag = "-equal"
					}
					break
				}
			}
		case 1: // non-zero padding
			if w < p.omega {
				enc[w+r.Intn(p.omega-w)] = byte(1 + r.Intn(255))
				tag = "-pad"
			}
		case 2: // cumulative counts decrease
			row := 1 + r.Intn(p.k-1)
			if enc[p.omega+row-1] > 0 {
				enc[p.omega+row] = byte(r.Intn(int(enc[p.omega+row-1])))
				tag = "-cntdec"
			}
		case 3: // a count beyond omega
			enc[p.omega+r.Intn(p.k)] = byte(p.omega + 1 + r.Intn(255-p.omega))
			tag = "-cntbig"
		case 4: // last count smaller than the number of indices present: the rest reads as padding
			if w > 0 && enc[w-1] != 0 {
				enc[p.omega+p.k-1]--
				if p.k >= 2 && enc[p.omega+p.k-1] < enc[p.omega+p.k-2] {
					tag = "-cntdec"
				} else {
					tag = "-pad"
				}
			}
		case 5:
			enc = r.Bytes(p.omega + p.k)
			tag = "?random"
		case 6:
			enc = r.Bytes([]int{0, 1, p.omega, p.omega + p.k - 1, p.omega + p.k + 1}[r.Intn(5)])
			tag = "?length"
		}
		out = append(out, fmt.Sprintf("C10|hbu|%s|%s|%s", p.name, hx.H(enc), tag))
	}
	return out
}

func wclass(p *pset, w int) string {
	switch {
	case w == 0:
		return "0"
	case w == p.omega:
		return "omega"
	case w == p.omega-1:
		return "omega-1"
	}
	return "mid"
}

func genSampling(r *hx.Rng, n int) []string {
	var out []string
	for _, s := range []string{"44", "65", "87"} {
		for b := 0; b < 16; b++ {
			out = append(out, fmt.Sprintf("C10|chb|%s|%d|?b%d", s, b, b))
		}
		out = append(out, fmt.Sprintf("C10|chb|%s|%d|?big", s, 16+r.Intn(240)))
	}
	// ExpandMask (Algorithm 34) around the counter values where mu+i crosses a multiple of 256
	for _, s := range []string{"44", "65", "87"} {
		for _, mu := range []int{0, 1, 250, 251, 252, 253, 254, 255, 256, 257, 505, 508, 510, 511, 512, 763, 1020, 65533, 65535} {
			out = append(out, fmt.Sprintf("C10|xm|%s|%s|%d|?mu%d", s, hx.H(r.Bytes(64)), mu, mu))
		}
		out = append(out, fmt.Sprintf("C10|xm|%s|%s|%d|?rnd", s, hx.H(r.Bytes(64)), r.Intn(3000)))
	}
	for i := 0; len(out) < n; i++ {
		p := setOf([]string{"44", "65", "87"}[i%3])
		switch i % 3 {
		case 0:
			out = append(out, fmt.Sprintf("C10|rnp|%s|?rnd", hx.H(r.Bytes(34))))
		case 1:
			out = append(out, fmt.Sprintf("C10|rbp|%s|%s|?rnd", p.name, hx.H(r.Bytes(66))))
		default:
			ln := p.lambda / 4
			if r.Chance(15) {
				ln = []int{0, 1, 32, 64, 100}[r.Intn(5)]
			}
			out = append(out, fmt.Sprintf("C10|sib|%s|%s|?len%d", p.name, hx.H(r.Bytes(ln)), ln))
		}
	}
	return out
}

// ---- keys and signatures ----

func msgOf(r *hx.Rng) []byte {
	return r.Bytes(hx.PickS(r, []int{0, 1, 2, 7, 16, 31, 32, 33, 64, 65, 100, 135, 136, 137, 200, 300}))
}

func ctxOf(r *hx.Rng) []byte {
	if r.Chance(50) {
		return nil
	}
	return r.Bytes(hx.PickS(r, []int{1, 2, 8, 32, 100, 254, 255}))
}

type base struct {
	p             *pset
	seed          []byte
	pk            *imldsa.PublicKey
	sk            *imldsa.SecretKey
	pkb           []byte
	msg, ctx, sig []byte
}

func newBase(r *hx.Rng, p *pset) *base {
	b := &base{p: p, seed: r.Bytes(32)}
	b.pk, b.sk = p.keygen(seed32(hx.H(b.seed)))
	b.pkb = b.pk.Encode()
	b.resign(r)
	return b
}

// errHang is raised (as a panic value) when a signing call of the generator
// does not return; gen turns it into the kernel-only case list plus a "hang" case.
type errHang struct{ set, seed, msg string }

func (b *base) resign(r *hx.Rng) {
	b.msg, b.ctx = msgOf(r), ctxOf(r)
	sig := signDet(b.sk, b.msg, b.ctx)
	if sig == nil {
		panic(errHang{b.p.name, hx.H(b.seed), hx.H(b.msg)})
	}
	b.sig = sig
}

// regions of an encoded signature: c~ | z | hint indices | hint counts
func (p *pset) regions() (zOff, hOff, cntOff int) {
	zOff = p.lambda / 4
	hOff = zOff + p.l*32*(1+p.lg1)
	return zOff, hOff, hOff + p.omega
}

func sigWeight(p *pset, sig []byte) int { return int(sig[len(sig)-1]) }

// centred infinity norm of the z part of a signature
func sigZNorm(p *pset, sig []byte) uint32 {
	zOff, _, _ := p.regions()
	step := 32 * (1 + p.lg1)
	var m uint32
	for i := 0; i < p.l; i++ {
		z := imldsa.VerifBitUnpack(sig[zOff+i*step:zOff+(i+1)*step], 1<<p.lg1, p.lg1+1)
		for _, c := range z {
			a := c
			if a > (q-1)/2 {
				a = q - a
			}
			if a > m {
				m = a
			}
		}
	}
	return m
}

func vfLine(p *pset, pk, msg, ctx, sig []byte, tag string) string {
	return fmt.Sprintf("C10|vf|%s|%s|%s|%s|%s|%s", p.name, hx.H(pk), hx.H(msg), hx.H(ctx), hx.H(sig), tag)
}

func clone(b []byte) []byte { return append([]byte{}, b...) }

func flipIn(r *hx.Rng, b []byte, lo, hi int) []byte {
	c := clone(b)
	c[lo+r.Intn(hi-lo)] ^= byte(1 << r.Intn(8))
	return c
}

// mutations whose rejection needs the whole verification (the signature
// still decodes): model cost = one full verification each
var fullMuts = []string{"ct", "z", "z-norm", "hint-add", "hint-del", "hint-move", "msg", "ctx", "pk-rho", "pk-t1", "other-key"}

// mutations rejected by the decoder (cheap for the model)
var cheapMuts = []string{"trunc", "extend", "empty", "hint-dup", "hint-swap", "hint-equal", "hint-pad", "hint-cntdec", "hint-cntbig", "ctxlong", "pk-short"}

func (b *base) mutate(r *hx.Rng, kind string) string {
	p := b.p
	zOff, hOff, cntOff := p.regions()
	sig := clone(b.sig)
	w := sigWeight(p, sig)
	rowBounds := func(row int) (int, int) {
		lo := 0
		if row > 0 {
			lo = int(sig[cntOff+row-1])
		}
		return lo, int(sig[cntOff+row])
	}
	switch kind {
	case "ct":
		return vfLine(p, b.pkb, b.msg, b.ctx, flipIn(r, sig, 0, zOff), "-ct")
	case "z":
		return vfLine(p, b.pkb, b.msg, b.ctx, flipIn(r, sig, zOff, hOff), "-z")
	case "z-norm":
		// one coefficient of z set to exactly gamma1 - beta (stored value a - z = beta): norm check boundary
		beta := uint32(p.tau * p.eta)
		bits := p.lg1 + 1
		ci := r.Intn(256 * p.l)
		val := beta
		if r.Bool() {
			val = uint32(1<<p.lg1) + uint32(1<<p.lg1) - beta // z = -(gamma1 - beta)
		}
		for k := 0; k < bits; k++ {
			bit := ci*bits + k
			sig[zOff+bit/8] &^= 1 << (bit & 7)
			sig[zOff+bit/8] |= byte((val>>k)&1) << (bit & 7)
		}
		return vfLine(p, b.pkb, b.msg, b.ctx, sig, "-z-norm")
	case "hint-add", "hint-del", "hint-move":
		h, err := p.hintUnpack(sig[hOff:])
		if err != nil {
			panic("genuine signature with malformed hint")
		}
		pos := func(one bool) (int, int) {
			for {
				i, j := r.Intn(p.k), r.Intn(256)
				if (h[i][j] != 0) == one {
					return i, j
				}
			}
		}
		if kind == "hint-add" && w == p.omega {
			kind = "hint-del"
		}
		if kind != "hint-add" && w == 0 {
			kind = "hint-add"
		}
		// positions are chosen before anything changes, so a move never restores the original
		di, dj := 0, 0
		if kind != "hint-add" {
			di, dj = pos(true)
		}
		ai, aj := pos(false)
		if kind != "hint-add" {
			h[di][dj] = 0
		}
		if kind != "hint-del" {
			h[ai][aj] = 1
		}
		copy(sig[hOff:], p.hintPack(h))
		return vfLine(p, b.pkb, b.msg, b.ctx, sig, "-"+kind)
	case "msg":
		m := append(clone(b.msg), 0)
		if len(b.msg) > 0 && r.Bool() {
			m = flipIn(r, b.msg, 0, len(b.msg))
		}
		return vfLine(p, b.pkb, m, b.ctx, sig, "-msg")
	case "ctx":
		c := append(clone(b.ctx), 1)
		if len(c) > 255 {
			c = c[:254]
		}
		return vfLine(p, b.pkb, b.msg, c, sig, "-ctx")
	case "pk-rho":
		return vfLine(p, flipIn(r, b.pkb, 0, 32), b.msg, b.ctx, sig, "-pk-rho")
	case "pk-t1":
		return vfLine(p, flipIn(r, b.pkb, 32, len(b.pkb)), b.msg, b.ctx, sig, "-pk-t1")
	case "other-key":
		pk2, _ := p.keygen(seed32(hx.H(r.Bytes(32))))
		return vfLine(p, pk2.Encode(), b.msg, b.ctx, sig, "-other-key")
	case "trunc":
		return vfLine(p, b.pkb, b.msg, b.ctx, sig[:len(sig)-1-r.Intn(3)], "-trunc")
	case "extend":
		return vfLine(p, b.pkb, b.msg, b.ctx, append(sig, byte(r.Intn(256))), "-extend")
	case "empty":
		return vfLine(p, b.pkb, b.msg, b.ctx, nil, "-empty")
	case "hint-swap", "hint-equal":
		for try := 0; try < 100; try++ {
			lo, hi := rowBounds(r.Intn(p.k))
			if hi-lo >= 2 {
				j := hOff + lo + r.Intn(hi-lo-1)
				if kind == "hint-swap" {
					sig[j], sig[j+1] = sig[j+1], sig[j]
				} else {
					sig[j+1] = sig[j]
				}
				return vfLine(p, b.pkb, b.msg, b.ctx, sig, "-"+kind)
			}
		}
		return vfLine(p, b.pkb, b.msg, b.ctx, sig[:len(sig)-1], "-trunc")
	case "hint-dup":
		// the same hint vector with one index written twice (the row grows by one
		// entry): a second encoding of the SAME h — a strict decoder must refuse it
		if w < p.omega && w > 0 {
			for try := 0; try < 100; try++ {
				row := r.Intn(p.k)
				lo, hi := rowBounds(row)
				if hi > lo {
					j := lo + r.Intn(hi-lo)
					copy(sig[hOff+j+1:hOff+p.omega], clone(sig[hOff+j:hOff+p.omega-1]))
					for t := row; t < p.k; t++ {
						sig[cntOff+t]++
					}
					return vfLine(p, b.pkb, b.msg, b.ctx, sig, "-hint-dup")
				}
			}
		}
		return vfLine(p, b.pkb, b.msg, b.ctx, sig[:len(sig)-1], "-trunc")
	case "hint-pad":
		if w < p.omega {
			sig[hOff+w+r.Intn(p.omega-w)] = byte(1 + r.Intn(255))
			return vfLine(p, b.pkb, b.msg, b.ctx, sig, "-hint-pad")
		}
		return vfLine(p, b.pkb, b.msg, b.ctx, sig[:len(sig)-1], "-trunc")
	case "hint-cntdec":
		row := 1 + r.Intn(p.k-1)
		if sig[cntOff+row-1] > 0 {
			sig[cntOff+row] = sig[cntOff+row-1] - 1
			return vfLine(p, b.pkb, b.msg, b.ctx, sig, "-hint-cntdec")
		}
		return vfLine(p, b.pkb, b.msg, b.ctx, clone(b.sig)[:len(sig)-1], "-trunc")
	case "hint-cntbig":
		sig[cntOff+r.Intn(p.k)] = byte(p.omega + 1 + r.Intn(255-p.omega))
		return vfLine(p, b.pkb, b.msg, b.ctx, sig, "-hint-cntbig")
	case "ctxlong":
		return vfLine(p, b.pkb, b.msg, r.Bytes(256+r.Intn(3)), sig, "-ctxlong")
	case "pk-short":
		return vfLine(p, b.pkb[:len(b.pkb)-1], b.msg, b.ctx, sig, "?pk-short")
	}
	panic("mutation " + kind)
}

// boundary search: among `tries` deterministic signatures of the base key,
// the one with the largest z norm (accept-side boundary gamma1 - beta - 1 when
// it is reached) and the one with the largest hint weight.
func (b *base) boundary(r *hx.Rng, tries int) (zb, hb []string) {
	p := b.p
	bound := uint32(1<<p.lg1) - uint32(p.tau*p.eta) - 1
	var bestZ, bestH []byte
	var bestZm, bestHm []byte
	var zn uint32
	hw := -1
	for i := 0; i < tries; i++ {
		m := make([]byte, 8)
		binary.BigEndian.PutUint64(m, r.U64())
		sig := signDet(b.sk, m, nil)
		if sig == nil {
			panic(errHang{p.name, hx.H(b.seed), hx.H(m)})
		}
		if n := sigZNorm(p, sig); n > zn {
			zn, bestZ, bestZm = n, sig, m
		}
		if w := sigWeight(p, sig); w > hw {
			hw, bestH, bestHm = w, sig, m
		}
		if zn == bound && hw == p.omega {
			break
		}
	}
	zt := fmt.Sprintf("+znorm-max-%d", bound-zn)
	if zn == bound {
		zt = "+znorm-boundary"
	}
	ht := fmt.Sprintf("+hint-weight-omega-%d", p.omega-hw)
	if hw == p.omega {
		ht = "+hint-weight-omega"
	}
	return []string{vfLine(p, b.pkb, bestZm, nil, bestZ, zt)}, []string{vfLine(p, b.pkb, bestHm, nil, bestH, ht)}
}

func shake256(n int, parts ...[]byte) []byte {
	h := sha3.NewShake256()
	for _, x := range parts {
		h.Write(x)
	}
	out := make([]byte, n)
	h.Read(out)
	return out
}

// iterations recovers the number of rounds of the rejection loop that
// produced sig = signInternalWithMu(mu, rnd): z - ExpandMask(rhopp, kappa) is
// c*s1, of norm <= beta, only for the kappa of the accepted round.  (Used by
// the generator to keep the cost of the model's signing runs bounded; the
// count is recorded in the tag.)
func iterations(p *pset, skEnc, mp, rnd, sig []byte) int {
	K, tr := skEnc[32:64], skEnc[64:128]
	mu := shake256(64, tr, mp)
	rhopp := shake256(64, K, rnd, mu)
	zOff, _, _ := p.regions()
	step := 32 * (1 + p.lg1)
	z0 := imldsa.VerifBitUnpack(sig[zOff:zOff+step], 1<<p.lg1, p.lg1+1)
	beta := int64(p.tau * p.eta)
	for it := 0; it < 1000; it++ {
		kappa := it * p.l
		y0 := imldsa.VerifBitUnpack(shake256(step, rhopp, []byte{byte(kappa), byte(kappa >> 8)}), 1<<p.lg1, p.lg1+1)
		ok := true
		for j := range z0 {
			d := cmod(int64(z0[j])-int64(y0[j]), q)
			if d > beta || d < -beta {
				ok = false
				break
			}
		}
		if ok {
			return it + 1
		}
	}
	return 0
}

// cheapMsg draws messages until signing (formatted message 0‖|ctx|‖ctx‖msg,
// randomness rnd) takes at most maxIt rounds.
func cheapMsg(r *hx.Rng, b *base, ctx, rnd []byte, maxIt int) ([]byte, int) {
	return cheapMsgF(r, b, rnd, maxIt, func(msg []byte) []byte { return formatMsg(msg, ctx) })
}

func cheapMsgF(r *hx.Rng, b *base, rnd []byte, maxIt int, format func(msg []byte) []byte) ([]byte, int) {
	skEnc := b.sk.Encode()
	for {
		msg := msgOf(r)
		var rr [32]byte
		copy(rr[:], rnd)
		mp := format(msg)
		var sig []byte
		if !watchdog(func() { sig = imldsa.VerifSignInternal(b.sk, mp, rr) }) {
			panic(errHang{b.p.name, hx.H(b.seed), hx.H(msg)})
		}
		it := iterations(b.p, skEnc, mp, rr[:], sig)
		if it == 0 {
			panic("cannot recover the number of signing rounds")
		}
		if it <= maxIt {
			return msg, it
		}
	}
}

// composite ML-DSA-65 + Ed25519 cases on the key of base b
func genComposite(r *hx.Rng, b *base, ncs, ncv, maxIt int) []string {
	var out []string
	set, alg := "65", "ed25519"
	label := compLabel(set, alg)
	format := func(msg []byte) []byte { return formatMsg(compMsgPrime(label, msg), label) }
	clseed := r.Bytes(32)
	clpk := []byte(ed25519.NewKeyFromSeed(clseed).Public().(ed25519.PublicKey))
	for i := 0; i < ncs; i++ {
		v := []string{"T", "N"}[r.Intn(2)]
		rb := r.Bytes(32)
		msg, it := cheapMsgF(r, b, rb, maxIt, format)
		out = append(out, fmt.Sprintf("C10|cs|%s|%s|%s|%d|%s|%s|%s|%s|+rounds%d", set, alg, v, uint32(r.U64()), hx.H(b.seed), hx.H(clseed), hx.H(msg), hx.H(rb), it))
	}
	for i := 0; i < ncv; i++ {
		v := []string{"T", "N"}[r.Intn(2)]
		id := uint32(r.U64())
		msg := msgOf(r)
		sig, err := compSign(set, alg, v, id, b.seed, clseed, msg, r.Bytes(32))
		if err != nil {
			panic(err)
		}
		plen := len(compPrefix(v, id))
		tag := "+valid"
		pk := b.pkb
		switch i % 8 {
		case 1: // only the ML-DSA component is damaged
			sig = flipIn(r, sig, plen, plen+b.p.sigLen)
			tag = "-mldsa-part"
		case 2: // only the classical component is damaged
			sig = flipIn(r, sig, plen+b.p.sigLen, len(sig))
			tag = "-classical-part"
		case 3:
			msg = append(clone(msg), 1)
			tag = "-msg"
		case 4: // cheap: shorter than an ML-DSA signature / prefix
			sig = sig[:plen+b.p.sigLen-1-r.Intn(10)]
			tag = "-short"
		case 5:
			if v == "T" {
				sig[1+r.Intn(4)] ^= 4
				tag = "-prefix"
			} else {
				sig = append([]byte{1, 2, 3, 4, 5}, sig...)
				tag = "-spurious-prefix"
			}
		case 6: // classical signature truncated / extended
			if r.Bool() {
				sig = sig[:len(sig)-1]
			} else {
				sig = append(sig, 0)
			}
			tag = "-classical-length"
		case 7: // components swapped in order
			body := clone(sig[plen:])
			sig = append(append(clone(sig[:plen]), body[b.p.sigLen:]...), body[:b.p.sigLen]...)
			tag = "-swapped"
		}
		out = append(out, fmt.Sprintf("C10|cv|%s|%s|%s|%d|%s|%s|%s|%s|%s", set, alg, v, id, hx.H(pk), hx.H(clpk), hx.H(msg), hx.H(sig), tag))
	}
	return out
}

type budget struct {
	kg, sg, vfFull, vfCheap, ts, tv, ph, cs, cv, search, maxIt int
}

func gen(r *hx.Rng, n int, tier string) (out []string) {
	defer func() {
		if e := recover(); e != nil {
			h, ok := e.(errHang)
			if !ok {
				panic(e)
			}
			// signing does not terminate on this tree: report that, and still run the kernels
			out = []string{fmt.Sprintf("C10|hang|%s|%s|%s|+", h.set, h.seed, h.msg), "C10|zt|?"}
			r2 := hx.NewRng(uint64(n))
			out = append(out, genNTT(r2, 60)...)
			out = append(out, genPack(r2, 100)...)
			out = append(out, genHints(r2, 150)...)
			out = append(out, genSampling(r2, 100)...)
			out = append(out, genScalar(r2, 1500)...)
		}
	}()
	return genAll(r, n, tier)
}

func genAll(r *hx.Rng, n int, tier string) []string {
	bd := budget{kg: 1, sg: 1, vfFull: 5, vfCheap: 11, ts: 1, tv: 2, ph: 1, cs: 1, cv: 8, search: 1000, maxIt: 2}
	if tier == "thorough" {
		bd = budget{kg: 8, sg: 6, vfFull: 40, vfCheap: 40, ts: 4, tv: 8, ph: 3, cs: 6, cv: 64, search: 20000, maxIt: 1000}
	}
	var out []string
	for _, s := range []string{"44", "65", "87"} {
		out = append(out, fmt.Sprintf("C10|par|%s|?", s))
	}
	out = append(out, "C10|zt|?")
	phSet := r.Intn(3) // quick tier: the prehash path and the Tink signer on one parameter set per run
	tsSet := r.Intn(3)
	hedge := r.Intn(2)
	for si, s := range []string{"44", "65", "87"} {
		p := setOf(s)
		b := newBase(r, p)
		for i := 0; i < bd.kg; i++ {
			seed := r.Bytes(32)
			if i == 0 {
				seed = b.seed
			}
			out = append(out, fmt.Sprintf("C10|kg|%s|%s|?", s, hx.H(seed)))
		}
		for i := 0; i < bd.sg; i++ {
			rnd, rb := "d", make([]byte, 32)
			tag := "+det"
			if (i+si+hedge)%2 == 1 {
				rb = r.Bytes(32)
				rnd, tag = hx.H(rb), "+hedged"
			}
			ctx := ctxOf(r)
			msg, it := cheapMsg(r, b, ctx, rb, bd.maxIt)
			out = append(out, fmt.Sprintf("C10|sg|%s|%s|%s|%s|%s|%s:rounds%d", s, hx.H(b.seed), hx.H(msg), hx.H(ctx), rnd, tag, it))
		}
		out = append(out, fmt.Sprintf("C10|sg|%s|%s|%s|%s|d|-ctxlong", s, hx.H(b.seed), hx.H(msgOf(r)), hx.H(r.Bytes(256))))
		// genuine signature, then mutations of it
		out = append(out, vfLine(p, b.pkb, b.msg, b.ctx, b.sig, "+valid"))
		zb, hb := b.boundary(r, bd.search)
		out = append(out, zb...)
		out = append(out, hb...)
		perm := r.Intn(len(fullMuts))
		for i := 0; i < bd.vfFull; i++ {
			out = append(out, b.mutate(r, fullMuts[(perm+i*3+si)%len(fullMuts)]))
			if i%3 == 2 {
				b.resign(r)
			}
		}
		for i := 0; i < bd.vfCheap; i++ {
			out = append(out, b.mutate(r, cheapMuts[(i+si*3)%len(cheapMuts)]))
		}
		// through keyset handles
		for i := 0; i < bd.ts; i++ {
			if tier != "thorough" && si != tsSet {
				continue
			}
			v := []string{"T", "N", "X"}[r.Intn(3)]
			rb := r.Bytes(32)
			msg, it := cheapMsg(r, b, nil, rb, bd.maxIt)
			out = append(out, fmt.Sprintf("C10|ts|%s|%s|%d|%s|%s|%s|+rounds%d", s, v, uint32(r.U64()), hx.H(b.seed), hx.H(msg), hx.H(rb), it))
		}
		for i := 0; i < bd.tv; i++ {
			v := []string{"T", "N", "X"}[(i+si+1)%3]
			id := uint32(r.U64())
			msg := msgOf(r)
			sig := signDet(b.sk, msg, nil)
			if sig == nil {
				panic(errHang{p.name, hx.H(b.seed), hx.H(msg)})
			}
			prefix := []byte{}
			if v == "T" {
				prefix = []byte{1, byte(id >> 24), byte(id >> 16), byte(id >> 8), byte(id)}
			}
			full := append(clone(prefix), sig...)
			tag := "+valid"
			switch i % 4 {
			case 1:
				if v == "T" {
					full[1+r.Intn(4)] ^= 1
					tag = "-prefix-id"
				} else {
					full = append([]byte{1, 0, 0, 0, 1}, full...)
					tag = "-spurious-prefix"
				}
			case 2:
				full = flipIn(r, full, len(prefix), len(full))
				tag = "-sig"
			case 3:
				if v == "T" {
					full = full[5:]
					tag = "-prefix-missing"
				} else {
					full = full[:len(full)-1]
					tag = "-trunc"
				}
			}
			out = append(out, fmt.Sprintf("C10|tv|%s|%s|%d|%s|%s|%s|%s", s, v, id, hx.H(b.pkb), hx.H(msg), hx.H(full), tag))
		}
		if s == "65" {
			out = append(out, genComposite(r, b, bd.cs, bd.cv, bd.maxIt)...)
		}
		for i := 0; i < bd.ph; i++ {
			if tier != "thorough" && si != phSet {
				continue
			}
			rb := r.Bytes(32)
			msg, it := cheapMsg(r, b, nil, rb, bd.maxIt)
			out = append(out, fmt.Sprintf("C10|ph|%s|%d|%s|%s|%s|+rounds%d", s, uint32(r.U64()), hx.H(b.seed), hx.H(msg), hx.H(rb), it))
		}
	}
	out = append(out, genBoundary(r, tier, bd.maxIt)...)
	rest := n - len(out)
	if rest < 200 {
		rest = 200
	}
	out = append(out, genNTT(r, rest*5/100)...)
	out = append(out, genPack(r, rest*12/100)...)
	out = append(out, genHints(r, rest*15/100)...)
	out = append(out, genSampling(r, rest*10/100)...)
	out = append(out, genScalar(r, rest*58/100)...)
	// cheap kernel cases first is irrelevant to the result; keep the order
	// deterministic but put the kernels first so that a kernel defect is
	// reported on a minimal input
	sort.SliceStable(out, func(i, j int) bool { return weight(out[i]) < weight(out[j]) })
	return out
}

func weight(l string) int {
	switch l[4:6] {
	case "sc", "zt", "pa", "ch":
		return 0
	case "nt", "in", "sb", "bp", "bu", "hb", "rn", "rb", "si":
		return 1
	case "kg":
		return 2
	case "vf", "tv", "cv":
		return 3
	}
	return 4
}
