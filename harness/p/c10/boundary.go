package c10

// Directed boundary cases of the rejection samplers (FIPS 204 Algorithms 29-32),
// found by SEARCH with x/crypto SHAKE only (independent of tink-go):
//
//   - RejNTTPoly: seeds rho||s||r whose SHAKE128 stream contains, before the 256th
//     accepted coefficient, the 23-bit candidates q-1 (must be ACCEPTED: the largest
//     element of Z_q), q, q+1, 0x7FFFFF (must be REJECTED) and 0;
//   - key generation seeds whose rho makes some entry of ExpandA hit the candidate
//     q-1, with keygen / sign / verify cases on those keys (a sampler that is off by
//     one at the top of the range changes the matrix A, hence the public key and
//     every signature, while all internal round trips stay consistent);
//   - SampleInBall: seeds whose stream has j = i (accepted at the boundary) and
//     j = i+1 (rejected just above it) in some round;
//   - RejBoundedPoly: seeds whose stream contains the half-bytes 14 and 15 (eta = 2)
//     or 8 and 9 (eta = 4) on both sides of the acceptance bound.
//
// The reference sampler below is also the direct oracle of every rnp case.

import (
	"encoding/binary"
	"fmt"

	"golang.org/x/crypto/sha3"

	"github.com/tink-crypto/tink-go/v2/verifharness/hx"
)

const (
	tQm1  = 1 << iota // candidate q-1
	tQ                // q
	tQp1              // q+1
	tMax              // 0x7FFFFF
	tZero             // 0
)

var rejNTTTargets = []struct {
	bit  int
	tag  string
	cand uint32
}{
	{tQm1, "+cand-q-1-accepted", q - 1},
	{tQ, "-cand-q-rejected", q},
	{tQp1, "-cand-q+1-rejected", q + 1},
	{tMax, "-cand-7fffff-rejected", 0x7FFFFF},
	{tZero, "+cand-0-accepted", 0},
}

// rejNTTRef is FIPS 204 Algorithm 30 on SHAKE128(rho34): the 256 coefficients and
// the boundary candidates met before the last one was accepted.
func rejNTTRef(rho34 []byte) (coef [256]uint32, seen int) {
	h := sha3.NewShake128()
	h.Write(rho34)
	var buf [840]byte
	i := 0
	for i < 256 {
		h.Read(buf[:])
		for j := 0; j+3 <= len(buf) && i < 256; j += 3 {
			c := uint32(buf[j]) | uint32(buf[j+1])<<8 | uint32(buf[j+2]&0x7F)<<16
			switch c {
			case q - 1:
				seen |= tQm1
			case q:
				seen |= tQ
			case q + 1:
				seen |= tQp1
			case 0x7FFFFF:
				seen |= tMax
			case 0:
				seen |= tZero
			}
			if c < q {
				coef[i] = c
				i++
			}
		}
	}
	return coef, seen
}

// sibScan follows FIPS 204 Algorithm 29 on SHAKE256(rho) and reports whether some
// round accepted j = i and whether some round rejected j = i+1.
func sibScan(rho []byte, tau int) (eqI, justAbove bool) {
	h := sha3.NewShake256()
	h.Write(rho)
	var b [8]byte
	h.Read(b[:])
	var one [1]byte
	for i := 256 - tau; i < 256; i++ {
		for {
			h.Read(one[:])
			j := int(one[0])
			if j == i+1 {
				justAbove = true
			}
			if j <= i {
				if j == i {
					eqI = true
				}
				break
			}
		}
	}
	return
}

// rbpScan reports whether the first 256 accepted half-bytes region of
// SHAKE256(rho66) contains the two half-bytes around the acceptance bound.
func rbpScan(rho66 []byte, eta int) (last, first bool) {
	s := shake256(400, rho66)
	lo, hi := byte(14), byte(15)
	if eta == 4 {
		lo, hi = 8, 9
	}
	acc := 0
	for _, z := range s {
		for _, nb := range []byte{z & 15, z >> 4} {
			if acc >= 256 {
				return
			}
			if nb == lo {
				last = true
			}
			if nb == hi {
				first = true
			}
			if nb <= lo {
				acc++
			}
		}
	}
	return
}

// rbpBytesNeeded is the number of SHAKE256(rho66) bytes FIPS 204 Algorithm 31 reads before it has 256
// coefficients (0 when 2000 bytes do not suffice).
func rbpBytesNeeded(rho66 []byte, eta int) int {
	s := shake256(2000, rho66)
	lim := byte(14)
	if eta == 4 {
		lim = 8
	}
	acc := 0
	for i, z := range s {
		for _, nb := range []byte{z & 15, z >> 4} {
			if nb <= lim {
				acc++
			}
		}
		if acc >= 256 {
			return i + 1
		}
	}
	return 0
}

// counterSeed is the 32-byte seed with the little-endian counter in bytes 0-7.
func counterSeed(c uint64) []byte {
	s := make([]byte, 32)
	binary.LittleEndian.PutUint64(s, c)
	return s
}

// expandAHits reports whether some entry of ExpandA(rho) for the key generated
// from seed meets the candidate q-1 (rho = H(seed || k || l, 128)[0:32]).
func expandAHits(p *pset, seed []byte) (r, s int, ok bool) {
	rho := shake256(32, seed, []byte{byte(p.k), byte(p.l)})
	var rho34 [34]byte
	copy(rho34[:], rho)
	for r = 0; r < p.k; r++ {
		for s = 0; s < p.l; s++ {
			rho34[32], rho34[33] = byte(s), byte(r)
			if _, seen := rejNTTRef(rho34[:]); seen&tQm1 != 0 {
				return r, s, true
			}
		}
	}
	return 0, 0, false
}

func genBoundary(r *hx.Rng, tier string, maxIt int) []string {
	var out []string
	// (1) RejNTTPoly kernel cases for every boundary candidate
	rho0 := r.Bytes(34)
	found := 0
	for c := uint64(0); c < 4000000 && found != tQm1|tQ|tQp1|tMax|tZero; c++ {
		rho := clone(rho0)
		binary.LittleEndian.PutUint64(rho, c)
		_, seen := rejNTTRef(rho)
		for _, t := range rejNTTTargets {
			if seen&t.bit != 0 && found&t.bit == 0 {
				found |= t.bit
				out = append(out, fmt.Sprintf("C10|rnp|%s|%s", hx.H(rho), t.tag))
			}
		}
	}
	// (2) keys whose matrix A contains a coefficient sampled from the candidate q-1
	full := r.Intn(3)
	for si, s := range []string{"44", "65", "87"} {
		p := setOf(s)
		start := r.U64() % 1000000
		for c := start; c < start+200000; c++ {
			seed := counterSeed(c)
			ar, as, ok := expandAHits(p, seed)
			if !ok {
				continue
			}
			tag := fmt.Sprintf("A[%d,%d]-from-cand-q-1", ar, as)
			out = append(out, fmt.Sprintf("C10|kg|%s|%s|?%s", s, hx.H(seed), tag))
			if tier == "thorough" || si == full {
				bb := newBaseFromSeed(r, p, seed)
				rb := make([]byte, 32)
				ctx := ctxOf(r)
				msg, it := cheapMsg(r, bb, ctx, rb, maxIt)
				out = append(out, fmt.Sprintf("C10|sg|%s|%s|%s|%s|d|+det-%s:rounds%d", s, hx.H(seed), hx.H(msg), hx.H(ctx), tag, it))
				out = append(out, vfLine(p, bb.pkb, bb.msg, bb.ctx, bb.sig, "+valid-"+tag))
			}
			break
		}
	}
	// (3) SampleInBall at the boundary j = i, RejBoundedPoly around its bound
	for _, s := range []string{"44", "65", "87"} {
		p := setOf(s)
		needEq, needAbove := true, true
		for t := 0; t < 2000 && (needEq || needAbove); t++ {
			rho := r.Bytes(p.lambda / 4)
			eq, ab := sibScan(rho, p.tau)
			if (eq && needEq) || (ab && needAbove) {
				tag := "?"
				if eq {
					tag += "j=i-accepted"
					needEq = false
				}
				if ab {
					tag += ":j=i+1-rejected"
					needAbove = false
				}
				out = append(out, fmt.Sprintf("C10|sib|%s|%s|%s", s, hx.H(rho), tag))
			}
		}
		// a polynomial that needs more SHAKE256 output than one block (136 bytes: eta = 2, frequent) / than
		// two blocks (272 bytes: eta = 4, about 6e-6 of the seeds) - an implementation that squeezes block-wise
		// must CONTINUE the stream at the refill (seeded change C10g restarted it); counter-derived rho, found by
		// a search with the standard library's SHAKE256
		want := 136
		if p.eta == 4 {
			want = 272
		}
		found := 0
		for c := uint64(0); c < 4000000 && found < 2; c++ {
			rho := make([]byte, 66)
			binary.LittleEndian.PutUint64(rho, c)
			rho[8] = byte(p.eta)
			if n := rbpBytesNeeded(rho, p.eta); n > want {
				out = append(out, fmt.Sprintf("C10|rbp|%s|%s|?needs-%d-bytes-more-than-%d", s, hx.H(rho), n, want))
				found++
			}
		}
		for t := 0; t < 50; t++ {
			rho := r.Bytes(66)
			if lo, hi := rbpScan(rho, p.eta); lo && hi {
				out = append(out, fmt.Sprintf("C10|rbp|%s|%s|?halfbytes-at-and-above-bound", s, hx.H(rho)))
				break
			}
		}
	}
	return out
}

// newBaseFromSeed is newBase for a given seed.
func newBaseFromSeed(r *hx.Rng, p *pset, seed []byte) *base {
	b := &base{p: p, seed: clone(seed)}
	b.pk, b.sk = p.keygen(seed32(hx.H(b.seed)))
	b.pkb = b.pk.Encode()
	b.resign(r)
	return b
}
