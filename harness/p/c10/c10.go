// Package c10 is the harness of property C10 (ML-DSA keys and signatures
// conform to FIPS 204 on every input).  It runs the real tink-go code —
// the unexported kernels of internal/signature/mldsa through the add-only
// verif_export.go hook, the exported internal API (KeyGenFromSeed, Sign,
// Verify, Encode/Decode), signature.NewSigner/NewVerifier on keyset handles
// and the signprehash (external mu) primitives — on self-contained case
// lines; the extracted Coq model over the stdlib SHAKE oracle is the
// independent reference.
//
// Polynomials travel as 256 x 8 hex digits (uint32 big endian), hint vectors
// as k x 32-byte bit masks.  Case lines (hex, "-" = empty; tag is not read by
// Run nor by the model; its first character is the expectation '+' accept,
// '-' reject, '?' none):
//
//	C10|sc|op|a|b|g|tag              scalar kernel -> r0,r1 | panic
//	C10|zt|tag                       zetas table
//	C10|ntt|poly|tag   C10|intt|poly|tag
//	C10|sbp|bits|poly|tag   C10|bp|a|bits|poly|tag    -> hex
//	C10|sbu|bits|hex|tag    C10|bu|a|bits|hex|tag     -> poly | PANIC
//	C10|hbp|set|masks|tag            -> hex
//	C10|hbu|set|hex|tag              -> masks | err | PANIC
//	C10|chb|set|b|tag                -> coefficient | rej
//	C10|rnp|rho34|tag  C10|rbp|set|rho66|tag  C10|sib|set|rho|tag -> poly
//	C10|par|set|tag                  parameter record, key and signature lengths
//	C10|kg|set|seed|tag              KeyGenFromSeed -> pk,sk (encoded)
//	C10|sg|set|seed|msg|ctx|rnd|tag  rnd "d": SignDeterministic; else signInternal with rnd -> sig | err
//	C10|vf|set|pk|msg|ctx|sig|tag    DecodePublicKey + Verify -> ok | rej | badkey
//	C10|ts|set|T/N/X|id|seed|msg|rnd|tag  signature.NewSigner on a handle (rnd on the tape) -> prefix‖sig
//	C10|tv|set|T/N/X|id|pk|msg|sig|tag    signature.NewVerifier on a handle -> ok | rej
//	C10|ph|set|id|seed|msg|rnd|tag   signprehash: ComputePrehash, SignPrehash (rnd on the tape) -> prehash,sig
package c10

import (
	"bytes"
	"crypto/ed25519"
	"encoding/binary"
	"encoding/hex"
	"fmt"
	"math/big"
	"strconv"
	"strings"
	"time"

	"github.com/tink-crypto/tink-go/v2/insecuresecretdataaccess"
	imldsa "github.com/tink-crypto/tink-go/v2/internal/signature/mldsa"
	"github.com/tink-crypto/tink-go/v2/keyset"
	"github.com/tink-crypto/tink-go/v2/secretdata"
	"github.com/tink-crypto/tink-go/v2/signature"
	tmldsa "github.com/tink-crypto/tink-go/v2/signature/mldsa"
	"github.com/tink-crypto/tink-go/v2/signprehash"
	"github.com/tink-crypto/tink-go/v2/verifharness/hx"
)

const q = 8380417

func pick[T any](name string, a, b, c T) T {
	switch name {
	case "44":
		return a
	case "65":
		return b
	case "87":
		return c
	}
	panic("unknown parameter set " + name)
}

// pset gathers what the harness needs of one parameter set (the type of
// imldsa.MLDSA44 is unexported, so everything is reached through closures).
type pset struct {
	name                                                string
	tau, lambda, lg1, k, l, eta, omega, etaBits, w1Bits int
	gamma2                                              uint32
	pkLen, skLen, sigLen                                int
	instance                                            tmldsa.Instance
	keygen                                              func(seed [32]byte) (*imldsa.PublicKey, *imldsa.SecretKey)
	decodePK                                            func([]byte) (*imldsa.PublicKey, error)
	decodeSK                                            func([]byte) (*imldsa.SecretKey, error)
	hintPack                                            func(h [][256]uint32) []byte
	hintUnpack                                          func(enc []byte) ([][256]uint32, error)
	sampleInBall                                        func(rho []byte) [256]uint32
	rejectBounded                                       func(rho [66]byte) [256]uint32
	coeffFromHalfByte                                   func(b byte) (uint32, bool)
	expandMask                                          func(rho [64]byte, mu int) [][256]uint32
}

func mkset(name string) *pset {
	par := pick(name, imldsa.MLDSA44, imldsa.MLDSA65, imldsa.MLDSA87)
	p := &pset{name: name}
	p.tau, p.lambda, p.lg1, p.gamma2, p.k, p.l, p.eta, p.omega, p.etaBits, p.w1Bits = imldsa.VerifParams(par)
	p.pkLen, p.skLen = par.PublicKeyLength(), par.SecretKeyLength()
	p.sigLen = p.lambda/4 + p.l*32*(1+p.lg1) + p.omega + p.k
	p.instance = pick(name, tmldsa.MLDSA44, tmldsa.MLDSA65, tmldsa.MLDSA87)
	p.keygen = par.KeyGenFromSeed
	p.decodePK = par.DecodePublicKey
	p.decodeSK = par.DecodeSecretKey
	p.hintPack = func(h [][256]uint32) []byte { return imldsa.VerifHintBitPack(par, h) }
	p.hintUnpack = func(enc []byte) ([][256]uint32, error) { return imldsa.VerifHintBitUnpack(par, enc) }
	p.sampleInBall = func(rho []byte) [256]uint32 { return imldsa.VerifSampleInBall(par, rho) }
	p.rejectBounded = func(rho [66]byte) [256]uint32 { return imldsa.VerifRejectBoundedPoly(par, rho) }
	p.coeffFromHalfByte = func(b byte) (uint32, bool) { return imldsa.VerifCoeffFromHalfByte(par, b) }
	p.expandMask = func(rho [64]byte, mu int) [][256]uint32 { return imldsa.VerifExpandMask(par, rho, mu) }
	return p
}

var sets = map[string]*pset{}

func setOf(name string) *pset {
	if p, ok := sets[name]; ok {
		return p
	}
	p := mkset(name)
	sets[name] = p
	return p
}

func polyHex(c [256]uint32) string {
	b := make([]byte, 1024)
	for i, v := range c {
		binary.BigEndian.PutUint32(b[4*i:], v)
	}
	return hex.EncodeToString(b)
}

func hexPoly(s string) (c [256]uint32) {
	b := hx.UH(s)
	if len(b) != 1024 {
		panic("polynomial must have 256 coefficients")
	}
	for i := range c {
		c[i] = binary.BigEndian.Uint32(b[4*i:])
	}
	return c
}

func masksHex(h [][256]uint32) string {
	b := make([]byte, 32*len(h))
	for i := range h {
		for j, v := range h[i] {
			if v != 0 {
				b[32*i+j/8] |= 1 << (j & 7)
			}
		}
	}
	return hx.H(b)
}

func hexMasks(s string) [][256]uint32 {
	b := hx.UH(s)
	h := make([][256]uint32, len(b)/32)
	for i := range h {
		for j := 0; j < 256; j++ {
			h[i][j] = uint32(b[32*i+j/8]>>(j&7)) & 1
		}
	}
	return h
}

func seed32(s string) (seed [32]byte) {
	b := hx.UH(s)
	if len(b) != 32 {
		panic("seed must have 32 bytes")
	}
	copy(seed[:], b)
	return seed
}

func atoi(s string) int {
	v, err := strconv.ParseUint(s, 10, 64)
	if err != nil {
		panic("bad number " + s)
	}
	return int(v)
}

// signTimeout bounds every signing call of the harness: a defect in the
// arithmetic can make the rejection loop of signInternalWithMu spin forever.
const signTimeout = 30 * time.Second

// watchdog runs f and reports whether it returned in time (the goroutine is
// abandoned otherwise; the process exits at the end of the run).
func watchdog(f func()) bool {
	done := make(chan struct{})
	go func() {
		defer func() {
			recover()
			close(done)
		}()
		f()
	}()
	select {
	case <-done:
		return true
	case <-time.After(signTimeout):
		return false
	}
}

// signDet is SignDeterministic under the watchdog; nil = did not return.
func signDet(sk *imldsa.SecretKey, msg, ctx []byte) []byte {
	var sig []byte
	if !watchdog(func() { sig, _ = sk.SignDeterministic(msg, ctx) }) {
		return nil
	}
	return sig
}

func formatMsg(msg, ctx []byte) []byte {
	return append(append([]byte{0, byte(len(ctx))}, ctx...), msg...)
}

func variantOf(v string) tmldsa.Variant {
	switch v {
	case "T":
		return tmldsa.VariantTink
	case "N":
		return tmldsa.VariantNoPrefix
	case "X":
		return tmldsa.VariantNoPrefixWithPrehashID
	}
	panic("variant " + v)
}

func idReq(v string, id uint32) uint32 {
	if v == "N" {
		return 0
	}
	return id
}

func tinkParams(p *pset, v string) *tmldsa.Parameters {
	params, err := tmldsa.NewParameters(p.instance, variantOf(v))
	if err != nil {
		panic(err)
	}
	return params
}

func privHandle(p *pset, v string, id uint32, seed []byte) (*keyset.Handle, error) {
	key, err := tmldsa.NewPrivateKey(secretdata.NewBytesFromData(seed, insecuresecretdataaccess.Token{}), idReq(v, id), tinkParams(p, v))
	if err != nil {
		return nil, err
	}
	km := keyset.NewManager()
	kid, err := km.AddKey(key)
	if err != nil {
		return nil, err
	}
	if err := km.SetPrimary(kid); err != nil {
		return nil, err
	}
	return km.Handle()
}

func pubHandle(p *pset, v string, id uint32, pk []byte) (*keyset.Handle, error) {
	key, err := tmldsa.NewPublicKey(pk, idReq(v, id), tinkParams(p, v))
	if err != nil {
		return nil, err
	}
	km := keyset.NewManager()
	kid, err := km.AddKey(key)
	if err != nil {
		return nil, err
	}
	if err := km.SetPrimary(kid); err != nil {
		return nil, err
	}
	return km.Handle()
}

func tinkSign(p *pset, v string, id uint32, seed, msg, rnd []byte) string {
	out := "err"
	hx.WithTape(&hx.Tape{IDs: []uint32{id}, Bulk: rnd}, func() {
		h, err := privHandle(p, v, id, seed)
		if err != nil {
			return
		}
		s, err := signature.NewSigner(h)
		if err != nil {
			return
		}
		sig, err := s.Sign(msg)
		if err == nil {
			out = hx.H(sig)
		}
	})
	return out
}

func tinkVerify(p *pset, v string, id uint32, pk, msg, sig []byte) string {
	out := "rej"
	hx.WithTape(&hx.Tape{IDs: []uint32{id}}, func() {
		h, err := pubHandle(p, v, id, pk)
		if err != nil {
			return
		}
		vf, err := signature.NewVerifier(h)
		if err != nil {
			return
		}
		if vf.Verify(sig, msg) == nil {
			out = "ok"
		}
	})
	return out
}

// prehash path: prehash from the public handle, signature from the private one
func prehashSign(p *pset, id uint32, seed, msg, rnd []byte) (pre, sig []byte, err error) {
	hx.WithTape(&hx.Tape{IDs: []uint32{id}, Bulk: rnd}, func() {
		var h, ph *keyset.Handle
		h, err = privHandle(p, "X", id, seed)
		if err != nil {
			return
		}
		ph, err = h.Public()
		if err != nil {
			return
		}
		var pr interface {
			ComputePrehash([]byte) ([]byte, error)
		}
		pr, err = signprehash.NewPrehash(ph)
		if err != nil {
			return
		}
		pre, err = pr.ComputePrehash(msg)
		if err != nil {
			return
		}
		var s interface {
			SignPrehash([]byte) ([]byte, error)
		}
		s, err = signprehash.NewPrehashSigner(h)
		if err != nil {
			return
		}
		sig, err = s.SignPrehash(pre)
	})
	return pre, sig, err
}

func run(in string) string {
	f := strings.Split(in, "|")
	if len(f) < 3 || f[0] != "C10" {
		panic("bad case line")
	}
	switch f[1] {
	case "sg", "ts", "ph", "cs":
		// signing kinds run under the watchdog
		var out string
		var pv any
		if !watchdog(func() {
			defer func() { pv = recover() }()
			out = runCase(f)
		}) {
			return "HANG"
		}
		if pv != nil {
			panic(pv)
		}
		return out
	}
	return runCase(f)
}

func runCase(f []string) string {
	switch f[1] {
	case "sc":
		a, b, g := uint32(atoi(f[3])), uint32(atoi(f[4])), uint32(atoi(f[5]))
		r0, r1, ok := imldsa.VerifScalar(f[2], a, b, g)
		if !ok {
			return "panic"
		}
		return fmt.Sprintf("%d,%d", r0, r1)
	case "zt":
		return polyHex(imldsa.VerifZetas())
	case "ntt":
		return polyHex(imldsa.VerifNTT(hexPoly(f[2])))
	case "intt":
		return polyHex(imldsa.VerifINTT(hexPoly(f[2])))
	case "sbp":
		return hx.H(imldsa.VerifSimpleBitPack(hexPoly(f[3]), atoi(f[2])))
	case "bp":
		return hx.H(imldsa.VerifBitPack(hexPoly(f[4]), uint32(atoi(f[2])), atoi(f[3])))
	case "sbu":
		return unpackGuard(func() [256]uint32 { return imldsa.VerifSimpleBitUnpack(hx.UH(f[3]), atoi(f[2])) })
	case "bu":
		return unpackGuard(func() [256]uint32 { return imldsa.VerifBitUnpack(hx.UH(f[4]), uint32(atoi(f[2])), atoi(f[3])) })
	case "hbp":
		return hx.H(setOf(f[2]).hintPack(hexMasks(f[3])))
	case "hbu":
		p := setOf(f[2])
		enc := hx.UH(f[3])
		if len(enc) != p.omega+p.k {
			return "PANIC" // the model's convention for an encoding of the wrong size (Go: index panic or ignored tail)
		}
		h, err := p.hintUnpack(enc)
		if err != nil {
			return "err"
		}
		return masksHex(h)
	case "chb":
		c, ok := setOf(f[2]).coeffFromHalfByte(byte(atoi(f[3])))
		if !ok {
			return "rej"
		}
		return strconv.Itoa(int(c))
	case "rnp":
		var rho [34]byte
		copy(rho[:], hx.UH(f[2]))
		return polyHex(imldsa.VerifRejectNTTPoly(rho))
	case "rbp":
		var rho [66]byte
		copy(rho[:], hx.UH(f[3]))
		return polyHex(setOf(f[2]).rejectBounded(rho))
	case "sib":
		return polyHex(setOf(f[2]).sampleInBall(hx.UH(f[3])))
	case "xm":
		var rho [64]byte
		copy(rho[:], hx.UH(f[3]))
		mu, _ := strconv.Atoi(f[4])
		var ps []string
		for _, p := range setOf(f[2]).expandMask(rho, mu) {
			ps = append(ps, polyHex(p))
		}
		return strings.Join(ps, ",")
	case "par":
		p := setOf(f[2])
		return fmt.Sprintf("%d,%d,%d,%d,%d,%d,%d,%d,%d,%d,%d,%d,%d", p.tau, p.lambda, p.lg1, p.gamma2, p.k, p.l, p.eta, p.omega, p.etaBits, p.w1Bits, p.pkLen, p.skLen, p.sigLen)
	case "hang":
		// C10|hang|set|seed|msg|tag: does SignDeterministic return at all?
		_, sk := setOf(f[2]).keygen(seed32(f[3]))
		if signDet(sk, hx.UH(f[4]), nil) == nil {
			return "HANG"
		}
		return "returns"
	case "kg":
		pk, sk := setOf(f[2]).keygen(seed32(f[3]))
		return hx.H(pk.Encode()) + "," + hx.H(sk.Encode())
	case "sg":
		p := setOf(f[2])
		_, sk := p.keygen(seed32(f[3]))
		msg, ctx := hx.UH(f[4]), hx.UH(f[5])
		if f[6] == "d" {
			sig, err := sk.SignDeterministic(msg, ctx)
			if err != nil {
				return "err"
			}
			return hx.H(sig)
		}
		if len(ctx) > 255 {
			return "err"
		}
		return hx.H(imldsa.VerifSignInternal(sk, formatMsg(msg, ctx), seed32(f[6])))
	case "vf":
		pk, err := setOf(f[2]).decodePK(hx.UH(f[3]))
		if err != nil {
			return "badkey"
		}
		if pk.Verify(hx.UH(f[4]), hx.UH(f[6]), hx.UH(f[5])) == nil {
			return "ok"
		}
		return "rej"
	case "ts":
		return tinkSign(setOf(f[2]), f[3], uint32(atoi(f[4])), hx.UH(f[5]), hx.UH(f[6]), hx.UH(f[7]))
	case "tv":
		return tinkVerify(setOf(f[2]), f[3], uint32(atoi(f[4])), hx.UH(f[5]), hx.UH(f[6]), hx.UH(f[7]))
	case "ph":
		pre, sig, err := prehashSign(setOf(f[2]), uint32(atoi(f[3])), hx.UH(f[4]), hx.UH(f[5]), hx.UH(f[6]))
		if err != nil {
			return hx.H(pre) + ",err"
		}
		return hx.H(pre) + "," + hx.H(sig)
	case "cs":
		p := setOf(f[2])
		sig, err := compSign(f[2], f[3], f[4], uint32(atoi(f[5])), hx.UH(f[6]), hx.UH(f[7]), hx.UH(f[8]), hx.UH(f[9]))
		plen := len(compPrefix(f[4], uint32(atoi(f[5]))))
		if err != nil || len(sig) < plen+p.sigLen {
			return "err"
		}
		return hx.H(sig[plen : plen+p.sigLen])
	case "cv":
		return compVerify(f[2], f[3], f[4], uint32(atoi(f[5])), hx.UH(f[6]), hx.UH(f[7]), hx.UH(f[8]), hx.UH(f[9]))
	}
	panic("unknown case kind " + f[1])
}

func unpackGuard(f func() [256]uint32) (out string) {
	defer func() {
		if recover() != nil {
			out = "PANIC"
		}
	}()
	return polyHex(f())
}

// ---- direct property oracles (no model) ----

func cmod(m, a int64) int64 {
	r := ((m % a) + a) % a
	if r <= a/2 {
		return r
	}
	return r - a
}

func mod(a, m int64) int64 { return ((a % m) + m) % m }

// FIPS 204 Algorithms 35-40 and the field operations on canonical arguments,
// computed with int64 / big.Int arithmetic.
func scalarSpec(op string, a, b, g int64) (string, bool) {
	if a >= q || b >= q {
		return "", false
	}
	validG := g == (q-1)/88 || g == (q-1)/32
	decompose := func(r int64) (int64, int64) {
		r0 := cmod(r, 2*g)
		if r-r0 == q-1 {
			return 0, r0 - 1
		}
		return (r - r0) / (2 * g), r0
	}
	switch op {
	case "reduceOnce":
		return fmt.Sprintf("%d,0", a%q), true
	case "add":
		return fmt.Sprintf("%d,0", (a+b)%q), true
	case "sub":
		return fmt.Sprintf("%d,0", mod(a-b, q)), true
	case "neg":
		return fmt.Sprintf("%d,0", mod(-a, q)), true
	case "mul":
		r := new(big.Int).Mul(big.NewInt(a), big.NewInt(b))
		return fmt.Sprintf("%d,0", r.Mod(r, big.NewInt(q)).Int64()), true
	case "power2Round":
		r0 := cmod(a, 8192)
		return fmt.Sprintf("%d,%d", (a-r0)/8192, mod(r0, q)), true
	case "decompose", "highBits", "lowBits":
		if !validG {
			return "panic", true
		}
		r1, r0 := decompose(a)
		switch op {
		case "decompose":
			return fmt.Sprintf("%d,%d", r1, mod(r0, q)), true
		case "highBits":
			return fmt.Sprintf("%d,0", r1), true
		}
		return fmt.Sprintf("%d,0", mod(r0, q)), true
	case "makeHint":
		if !validG {
			return "panic", true
		}
		r1, _ := decompose(b)
		v1, _ := decompose((a + b) % q)
		if r1 != v1 {
			return "1,0", true
		}
		return "0,0", true
	case "useHint":
		if !validG {
			return "panic", true
		}
		m := int64(q-1) / (2 * g)
		r1, r0 := decompose(a)
		if b == 1 {
			if r0 > 0 {
				return fmt.Sprintf("%d,0", mod(r1+1, m)), true
			}
			return fmt.Sprintf("%d,0", mod(r1-1, m)), true
		}
		return fmt.Sprintf("%d,0", r1), true
	case "centeredAbs":
		c := cmod(a, q)
		if c < 0 {
			c = -c
		}
		return fmt.Sprintf("%d,0", c), true
	case "centeredMax":
		ca, cb := cmod(a, q), cmod(b, q)
		if ca < 0 {
			ca = -ca
		}
		if cb < 0 {
			cb = -cb
		}
		if cb <= ca {
			return fmt.Sprintf("%d,0", a), true
		}
		return fmt.Sprintf("%d,0", b), true
	}
	return "", false
}

// acceptedShape checks, without the model, what the accept-set theorem says of
// every accepted signature: right length, z pieces and hint section re-encode
// to themselves (canonical encoding), every |z_i mod+- q| < gamma1 - beta,
// hint weight <= omega.
func acceptedShape(p *pset, sig []byte) string {
	if len(sig) != p.sigLen {
		return fmt.Sprintf("accepted signature has %d bytes, not %d", len(sig), p.sigLen)
	}
	ct, zb := p.lambda/4, 1+p.lg1
	g1 := uint32(1) << p.lg1
	bound := int64(g1) - int64(p.tau*p.eta)
	for i := 0; i < p.l; i++ {
		piece := sig[ct+i*32*zb : ct+(i+1)*32*zb]
		z := imldsa.VerifBitUnpack(piece, g1, zb)
		if !bytes.Equal(imldsa.VerifBitPack(z, g1, zb), piece) {
			return fmt.Sprintf("accepted signature: z[%d] is not canonically encoded", i)
		}
		for j, c := range z {
			a := int64(c)
			if a > (q-1)/2 {
				a = q - a
			}
			if c >= q || a >= bound {
				return fmt.Sprintf("accepted signature: |z[%d][%d]| = %d >= gamma1 - beta = %d", i, j, a, bound)
			}
		}
	}
	hs := sig[ct+p.l*32*zb:]
	h, err := p.hintUnpack(hs)
	if err != nil {
		return "accepted signature: hint section does not decode"
	}
	if !bytes.Equal(p.hintPack(h), hs) {
		return "accepted signature: hint section is not canonically encoded"
	}
	w := 0
	for _, row := range h {
		for _, c := range row {
			if c > 1 {
				return "accepted signature: hint entry not 0/1"
			}
			w += int(c)
		}
	}
	if len(h) != p.k || w > p.omega {
		return fmt.Sprintf("accepted signature: %d hint rows of weight %d (k = %d, omega = %d)", len(h), w, p.k, p.omega)
	}
	return ""
}

// nttRoots[i] = 1753^(2*brv8(i)+1) mod q, the evaluation point of NTT output i
var nttRoots = func() (r [256]uint64) {
	for i := 0; i < 256; i++ {
		e := 0
		for b := 0; b < 8; b++ {
			e |= ((i >> b) & 1) << (7 - b)
		}
		r[i] = new(big.Int).Exp(big.NewInt(1753), big.NewInt(int64(2*e+1)), big.NewInt(q)).Uint64()
	}
	return r
}()

// evalAtRoot returns p(nttRoots[i]) mod q (Horner from the top coefficient)
func evalAtRoot(p [256]uint32, i int) uint64 {
	x := nttRoots[i]
	var acc uint64
	for j := 255; j >= 0; j-- {
		acc = (acc*x + uint64(p[j])) % q
	}
	return acc
}

func canonical(c [256]uint32) bool {
	for _, v := range c {
		if v >= q {
			return false
		}
	}
	return true
}

func check(in, obs string) string {
	if strings.HasPrefix(obs, "PANIC ") {
		return "panic: " + obs
	}
	if obs == "HANG" {
		return fmt.Sprintf("signing did not return within %v (rejection loop does not terminate)", signTimeout)
	}
	f := strings.Split(in, "|")
	tag := f[len(f)-1]
	switch f[1] {
	case "sc":
		a, b, g := int64(atoi(f[3])), int64(atoi(f[4])), int64(atoi(f[5]))
		if f[2] == "divBy2Gamma2" {
			want := "panic"
			if g == (q-1)/88 || g == (q-1)/32 {
				want = fmt.Sprintf("%d,0", a/(2*g))
			}
			if obs != want {
				return fmt.Sprintf("divBy2Gamma2(%d,%d) = %s, floor division gives %s", a, g, obs, want)
			}
			return ""
		}
		if f[2] == "scalePower2" {
			if a < 1024 && obs != fmt.Sprintf("%d,0", a*8192) {
				return fmt.Sprintf("scalePower2(%d) = %s", a, obs)
			}
			return ""
		}
		if want, ok := scalarSpec(f[2], a, b, g); ok && obs != want {
			return fmt.Sprintf("%s(a=%d,b=%d,gamma2=%d) = %s, FIPS 204 gives %s", f[2], a, b, g, obs, want)
		}
	case "hang":
		if obs != "returns" {
			return fmt.Sprintf("SignDeterministic did not return within %v (rejection loop does not terminate)", signTimeout)
		}
	case "zt":
		// zetas[k] = 1753^brv8(k) mod q (zetas[0] = 0), computed here from scratch
		got := hexPoly(obs)
		for k := 1; k < 256; k++ {
			e := 0
			for i := 0; i < 8; i++ {
				e |= ((k >> i) & 1) << (7 - i)
			}
			z := new(big.Int).Exp(big.NewInt(1753), big.NewInt(int64(e)), big.NewInt(q)).Int64()
			if int64(got[k]) != z {
				return fmt.Sprintf("zetas[%d] = %d, 1753^brv8(%d) mod q = %d", k, got[k], k, z)
			}
		}
		if got[0] != 0 {
			return "zetas[0] != 0"
		}
	case "ntt":
		// the inverse transform undoes the transform on canonical polynomials
		p := hexPoly(f[2])
		if canonical(p) && imldsa.VerifINTT(hexPoly(obs)) != p {
			return "intt(ntt(p)) != p"
		}
		// FIPS 204 section 2.5 / Algorithm 41: output i is p evaluated at
		// zeta^(2*brv8(i)+1) (C10_ntt_is_evaluation), recomputed here by Horner
		if canonical(p) {
			got := hexPoly(obs)
			for i := 0; i < 256; i++ {
				if want := evalAtRoot(p, i); uint64(got[i]) != want {
					return fmt.Sprintf("ntt(p)[%d] = %d, p(zeta^(2*brv8(%d)+1)) mod q = %d", i, got[i], i, want)
				}
			}
		}
	case "rnp":
		// FIPS 204 Algorithm 30 recomputed with x/crypto SHAKE128: every 23-bit
		// candidate below q, q-1 included, is accepted, in stream order
		want, _ := rejNTTRef(hx.UH(f[2]))
		if got := hexPoly(obs); got != want {
			for i := range want {
				if got[i] != want[i] {
					return fmt.Sprintf("RejNTTPoly coefficient %d = %d, FIPS 204 Algorithm 30 on the SHAKE128 stream gives %d (%s)", i, got[i], want[i], tag)
				}
			}
		}
	case "intt":
		p := hexPoly(f[2])
		if canonical(p) && imldsa.VerifNTT(hexPoly(obs)) != p {
			return "ntt(intt(p)) != p"
		}
	case "sbp":
		bits := atoi(f[2])
		p := hexPoly(f[3])
		if len(hx.UH(obs)) != 32*bits {
			return fmt.Sprintf("simpleBitPack(bits=%d) has %d bytes", bits, len(hx.UH(obs)))
		}
		back := imldsa.VerifSimpleBitUnpack(hx.UH(obs), bits)
		for i := range p {
			if back[i] != p[i]&(1<<bits-1) {
				return fmt.Sprintf("simpleBitUnpack(simpleBitPack(p)) differs at coefficient %d", i)
			}
		}
	case "bp":
		a, bits := uint32(atoi(f[2])), atoi(f[3])
		p := hexPoly(f[4])
		if strings.HasPrefix(tag, "+") && imldsa.VerifBitUnpack(hx.UH(obs), a, bits) != p {
			return "bitUnpack(bitPack(p)) != p"
		}
	case "hbp":
		p := setOf(f[2])
		h := hexMasks(f[3])
		back, err := p.hintUnpack(hx.UH(obs))
		if err != nil {
			return "hintBitUnpack rejects the output of hintBitPack"
		}
		if masksHex(back) != masksHex(h) {
			return "hintBitUnpack(hintBitPack(h)) != h"
		}
	case "hbu":
		p := setOf(f[2])
		if obs != "err" && obs != "PANIC" {
			// strict encoding: whatever decodes must be the canonical encoding of what it decodes to
			if !bytes.Equal(p.hintPack(hexMasks(obs)), hx.UH(f[3])) {
				return "hintBitUnpack accepted a non-canonical encoding"
			}
		}
		if strings.HasPrefix(tag, "-") && obs != "err" {
			return "malformed hint encoding (" + tag + ") accepted"
		}
		if strings.HasPrefix(tag, "+") && (obs == "err" || obs == "PANIC") {
			return "well-formed hint encoding rejected"
		}
	case "kg":
		p := setOf(f[2])
		parts := strings.Split(obs, ",")
		if len(parts) != 2 {
			return "keygen failed"
		}
		pkb, skb := hx.UH(parts[0]), hx.UH(parts[1])
		if len(pkb) != p.pkLen || len(skb) != p.skLen {
			return "key lengths"
		}
		pk, err := p.decodePK(pkb)
		if err != nil || !bytes.Equal(pk.Encode(), pkb) {
			return "public key does not survive decode/encode"
		}
		sk, err := p.decodeSK(skb)
		if err != nil || !bytes.Equal(sk.Encode(), skb) {
			return "secret key does not survive decode/encode"
		}
	case "sg":
		p := setOf(f[2])
		if obs == "HANG" {
			return fmt.Sprintf("signing did not return within %v", signTimeout)
		}
		ctx := hx.UH(f[5])
		if len(ctx) > 255 {
			if obs != "err" {
				return "context longer than 255 accepted by Sign"
			}
			return ""
		}
		if obs == "err" {
			return "Sign failed"
		}
		pk, _ := p.keygen(seed32(f[3]))
		sig := hx.UH(obs)
		if len(sig) != p.sigLen {
			return fmt.Sprintf("signature has %d bytes, FIPS 204 says %d", len(sig), p.sigLen)
		}
		if pk.Verify(hx.UH(f[4]), sig, ctx) != nil {
			return "produced signature does not verify"
		}
		pk2, err := p.decodePK(pk.Encode())
		if err != nil || pk2.Verify(hx.UH(f[4]), sig, ctx) != nil {
			return "produced signature does not verify under the decoded public key"
		}
	case "vf", "tv":
		if strings.HasPrefix(tag, "+") && obs != "ok" {
			return "valid signature rejected (" + tag + ")"
		}
		if strings.HasPrefix(tag, "-") && obs == "ok" {
			return "invalid signature accepted (" + tag + ")"
		}
		if f[1] == "vf" && obs == "ok" {
			// C10_verify_accepts_exactly, "only if" half that needs no XOF: whatever
			// is accepted is the canonical encoding of (c~, z, h) with ||z|| < gamma1-beta
			// and at most omega hints
			if msg := acceptedShape(setOf(f[2]), hx.UH(f[6])); msg != "" {
				return msg + " (" + tag + ")"
			}
		}
	case "ts":
		p := setOf(f[2])
		if obs == "err" {
			return "Tink signer failed"
		}
		pk, _ := p.keygen(seed32(f[5]))
		if tinkVerify(p, f[3], uint32(atoi(f[4])), pk.Encode(), hx.UH(f[6]), hx.UH(obs)) != "ok" {
			return "signature of the Tink signer rejected by the Tink verifier"
		}
		sig := hx.UH(obs)
		plen := 0
		if f[3] == "T" {
			plen = 5
			want := []byte{1, 0, 0, 0, 0}
			binary.BigEndian.PutUint32(want[1:], uint32(atoi(f[4])))
			if len(sig) < 5 || !bytes.Equal(sig[:5], want) {
				return "TINK output prefix missing"
			}
		}
		if pk.Verify(hx.UH(f[6]), sig[plen:], nil) != nil {
			return "signature of the Tink signer does not verify with the internal API"
		}
	case "cs":
		// the composite signature verifies as a whole, carries the prefix, and each component verifies on its own
		p := setOf(f[2])
		id := uint32(atoi(f[5]))
		sig, err := compSign(f[2], f[3], f[4], id, hx.UH(f[6]), hx.UH(f[7]), hx.UH(f[8]), hx.UH(f[9]))
		if err != nil {
			return "composite signer failed"
		}
		pk, _ := p.keygen(seed32(f[6]))
		clpk := []byte(ed25519.NewKeyFromSeed(hx.UH(f[7])).Public().(ed25519.PublicKey))
		if compVerify(f[2], f[3], f[4], id, pk.Encode(), clpk, hx.UH(f[8]), sig) != "ok" {
			return "composite signature rejected by the composite verifier"
		}
		pre, m, c := componentsVerify(f[2], f[3], f[4], id, pk.Encode(), clpk, hx.UH(f[8]), sig)
		if !pre || !m || !c {
			return fmt.Sprintf("composite signature components: prefix=%v mldsa=%v classical=%v", pre, m, c)
		}
	case "cv":
		// composite verifies iff the prefix matches and both components do
		pre, m, c := componentsVerify(f[2], f[3], f[4], uint32(atoi(f[5])), hx.UH(f[6]), hx.UH(f[7]), hx.UH(f[8]), hx.UH(f[9]))
		want := "rej"
		if pre && m && c {
			want = "ok"
		}
		if obs != want {
			return fmt.Sprintf("composite verifier says %s, components say prefix=%v mldsa=%v classical=%v", obs, pre, m, c)
		}
		if strings.HasPrefix(tag, "+") && obs != "ok" {
			return "valid composite signature rejected"
		}
		if strings.HasPrefix(tag, "-") && obs == "ok" {
			return "invalid composite signature accepted (" + tag + ")"
		}
	case "ph":
		// prehash (external mu) signatures verify under the key's ordinary verifier
		p := setOf(f[2])
		parts := strings.Split(obs, ",")
		if len(parts) != 2 || parts[1] == "err" {
			return "prehash signing failed"
		}
		pk, _ := p.keygen(seed32(f[4]))
		if tinkVerify(p, "X", uint32(atoi(f[3])), pk.Encode(), hx.UH(f[5]), hx.UH(parts[1])) != "ok" {
			return "prehash signature rejected by the ordinary verifier of the external-mu key"
		}
		pre := hx.UH(parts[0])
		if len(pre) != 69 || pre[0] != 0xff || binary.BigEndian.Uint32(pre[1:5]) != uint32(atoi(f[3])) {
			return "prehash framing"
		}
	}
	return ""
}

func class(in, obs string) string {
	f := strings.Split(in, "|")
	tag := f[len(f)-1]
	short := obs
	if len(short) > 5 {
		short = "val"
	}
	switch f[1] {
	case "sc":
		return "sc:" + f[2] + ":" + tag
	case "zt", "par", "hang":
		return f[1]
	case "ntt", "intt", "rnp":
		return f[1] + ":" + tag
	case "sbp", "sbu":
		return f[1] + ":" + f[2] + ":" + tag + ":" + short
	case "bp", "bu":
		return f[1] + ":" + f[3] + ":" + tag + ":" + short
	case "hbp", "hbu", "rbp", "sib", "chb", "kg", "sg", "vf", "xm":
		return f[1] + ":" + f[2] + ":" + tag + ":" + short
	case "ts", "tv":
		return f[1] + ":" + f[2] + ":" + f[3] + ":" + tag + ":" + short
	case "ph":
		return f[1] + ":" + f[2] + ":" + tag
	case "cs", "cv":
		return f[1] + ":" + f[2] + ":" + f[3] + ":" + f[4] + ":" + tag + ":" + short
	}
	return f[1]
}

func init() {
	hx.Register("C10", &hx.Prop{Gen: gen, Run: run, Check: check, Class: class})
}
