package c03

import (
	"bytes"
	"crypto/ecdsa"
	"crypto/ed25519"
	"crypto/elliptic"
	"crypto/rand"
	"crypto/rsa"
	"math/big"
	"strconv"
	"strings"

	"github.com/tink-crypto/tink-go/v2/verifharness/hx"
	"github.com/tink-crypto/tink-go/v2/verifharness/p/c03/pssref"
)

type config struct {
	scheme, curve, hash, enc, variant string
	bits                              int
}

type pool struct {
	ec  map[string][]string // curve -> private scalars (hex)
	ed  []string            // seeds
	rsa map[int][]rsaPriv
}

type g struct {
	r    *hx.Rng
	p    *pool
	tier string
}

var variants = []string{"T", "C", "L", "R"}

func allConfigs(tier string) []config {
	var out []config
	for _, ch := range [][2]string{{"p256", "sha256"}, {"p384", "sha384"}, {"p384", "sha512"}, {"p521", "sha512"}} {
		for _, enc := range []string{"der", "p1363"} {
			for _, v := range variants {
				out = append(out, config{scheme: "ecdsa", curve: ch[0], hash: ch[1], enc: enc, variant: v})
			}
		}
	}
	for i := 0; i < 3; i++ {
		for _, v := range variants {
			out = append(out, config{scheme: "ed25519", variant: v})
		}
	}
	for _, sch := range []string{"pkcs1", "pss"} {
		for _, bits := range rsaSizes(tier) {
			for _, h := range []string{"sha256", "sha384", "sha512"} {
				for _, v := range variants {
					out = append(out, config{scheme: sch, hash: h, variant: v, bits: bits})
				}
			}
		}
	}
	return out
}

func rsaSizes(tier string) []int {
	// byte-aligned sizes and sizes whose bit length is not a multiple of 8 (signature length =
	// ceil(bits/8): a rounding mistake in a length rule shows only there)
	if tier == "thorough" {
		return []int{2048, 3072, 4096, 2049, 2052, 2055, 3001}
	}
	return []int{2048, 3072, 2049, 2052}
}

func newPool(r *hx.Rng, tier string) *pool {
	p := &pool{ec: map[string][]string{}, rsa: map[int][]rsaPriv{}}
	for _, c := range []string{"p256", "p384", "p521"} {
		_, ec := stdCurve(c)
		w := map[string]int{"p256": 32, "p384": 48, "p521": 66}[c]
		for len(p.ec[c]) < 3 {
			b := r.Bytes(w)
			if c == "p521" {
				b[0] &= 1
			}
			if len(p.ec[c]) == 2 {
				b[0], b[1] = 0, 0 // a scalar with leading zero octets
			}
			if _, err := ec.NewPrivateKey(b); err == nil {
				p.ec[c] = append(p.ec[c], hx.H(b))
			}
		}
	}
	for i := 0; i < 3; i++ {
		p.ed = append(p.ed, hx.H(r.Bytes(32)))
	}
	hx.RealRand(func() {
		for _, bits := range rsaSizes(tier) {
			for i := 0; i < 2; i++ {
				k, err := rsa.GenerateKey(rand.Reader, bits)
				if err != nil {
					panic(err)
				}
				p.rsa[bits] = append(p.rsa[bits], rsaPriv{k.N, k.Primes[0], k.Primes[1], k.D})
			}
		}
	})
	return p
}

func (x *g) msg() []byte {
	r := x.r
	switch r.Intn(10) {
	case 0:
		return []byte{}
	case 1:
		return r.Bytes(1)
	case 2:
		return r.Bytes(r.Pick([]int{55, 56, 63, 64, 65, 111, 112, 119, 120, 127, 128, 129}))
	case 3:
		return bytes.Repeat([]byte{0}, r.Intn(5))
	case 4:
		return r.Bytes(200 + r.Intn(300))
	}
	return r.Bytes(r.Intn(48))
}

func (x *g) id() uint32 {
	switch x.r.Intn(8) {
	case 0:
		return 0
	case 1:
		return 0xffffffff
	case 2:
		return 0x01000000
	}
	return uint32(x.r.U64())
}

func (x *g) priv(c config, i int) string {
	switch c.scheme {
	case "ecdsa":
		return x.p.ec[c.curve][i%len(x.p.ec[c.curve])]
	case "ed25519":
		return x.p.ed[i%len(x.p.ed)]
	}
	ks := x.p.rsa[c.bits]
	return ks[i%len(ks)].String()
}

func hashLen(h string) int {
	return map[string]int{"sha1": 20, "sha224": 28, "sha256": 32, "sha384": 48, "sha512": 64}[h]
}

func (x *g) salt(c config) int {
	hl := hashLen(c.hash)
	max := c.bits/8 - 2 - hl
	return x.r.Pick([]int{0, 0, 1, 20, hl, hl, hl, 64, max, max - 1})
}

func (x *g) specOf(c config) spec {
	s := spec{scheme: c.scheme, curve: c.curve, hash: c.hash, enc: c.enc, variant: c.variant, e: 65537}
	if c.variant != "R" {
		s.id = x.id()
	}
	if c.scheme == "pss" {
		s.salt = x.salt(c)
	}
	return s
}

// apis through which a key of this spec can be used
func (x *g) api(s spec) string {
	if s.variant == "R" {
		if s.scheme == "ecdsa" || s.scheme == "ed25519" {
			return hx.PickS(x.r, []string{"K", "H", "S", "S"})
		}
		return hx.PickS(x.r, []string{"K", "H", "I", "I"})
	}
	return hx.PickS(x.r, []string{"K", "H"})
}

type vcase struct {
	s             spec
	pub, sig, msg []byte
	label         string
}

func (v vcase) line() string {
	return v.s.head("V") + "|" + hx.H(v.pub) + "|" + hx.H(v.sig) + "|" + hx.H(v.msg) + "|" + v.label
}

func gen(r *hx.Rng, n int, tier string) []string {
	x := &g{r: r, p: newPool(r, tier), tier: tier}
	cfgs := allConfigs(tier)
	var out []string
	// one unmutated signature and one sign case per configuration first, then the mutation stream
	byScheme := map[string][]config{}
	for _, c := range cfgs {
		byScheme[c.scheme] = append(byScheme[c.scheme], c)
	}
	// directed: the whole prefix / truncation family through the per-key constructors, once per
	// scheme x variant
	seenPfx := map[string]bool{}
	for _, c := range cfgs {
		if seenPfx[c.scheme+c.variant] || (c.bits != 0 && c.bits != 2048) {
			continue
		}
		seenPfx[c.scheme+c.variant] = true
		kinds := []string{"drop", "junk", "start", "flip", "id", "short", "variant", "raw-key", "trunc-end", "trunc-front"}
		if c.variant == "R" {
			kinds = []string{"added", "trunc-end", "trunc-front"}
		}
		for _, kd := range kinds {
			out = append(out, x.vcase(c, "pfx:"+kd))
		}
	}
	zeroDirected := map[string]int{}
	zeroWanted := func(c config) bool {
		return (c.scheme == "pkcs1" && c.bits == 2048 && zeroDirected[c.scheme] < 8) || (c.scheme == "pss" && c.bits == 2048 && zeroDirected[c.scheme] < 6)
	}
	for i := 0; len(out) < n; i++ {
		c := cfgs[i%len(cfgs)]
		round := i / len(cfgs)
		if round >= 2 && !(round == 2 && zeroWanted(c)) {
			// weighted: the encodings of ECDSA carry most of the property
			sch := hx.PickS(r, []string{"ecdsa", "ecdsa", "ecdsa", "ecdsa", "ecdsa", "ecdsa", "ed25519", "pkcs1", "pss", "pss"})
			c = hx.PickS(r, byScheme[sch])
		}
		switch {
		case round == 0:
			out = append(out, x.vcase(c, "ok:tink"))
		case round == 1:
			out = append(out, x.scase(c))
		case round == 2 && zeroWanted(c):
			// directed: zero-stripped genuine signatures (the fixed-length rule), a dozen per run
			zeroDirected[c.scheme]++
			out = append(out, x.vcase(c, "zero"))
		default:
			switch r.Intn(12) {
			case 0:
				out = append(out, x.codec())
			case 1:
				if r.Bool() {
					c = hx.PickS(r, append(byScheme["pkcs1"], byScheme["pss"]...))
				}
				out = append(out, x.ctor(c))
			case 2:
				out = append(out, x.scase(c))
			default:
				out = append(out, x.vcase(c, ""))
			}
		}
	}
	return out
}

func (x *g) scase(c config) string {
	s := x.specOf(c)
	s.api = x.api(s)
	return s.head("S") + "|" + x.priv(c, x.r.Intn(3)) + "|" + hx.H(x.msg()) + "|" + hx.H(x.r.Bytes(16))
}

// key-rule cases: constructions that must fail (or just succeed at the boundary)
func (x *g) ctor(c config) string {
	r := x.r
	s := x.specOf(c)
	s.api = x.api(s)
	msg := x.msg()
	switch c.scheme {
	case "ecdsa":
		s.hash = hx.PickS(r, []string{"sha1", "sha224", "sha256", "sha384", "sha512"})
		if s.api == "H" {
			s.api = "K"
		}
		_, ec := stdCurve(s.curve)
		sk, _ := ec.NewPrivateKey(uh(x.priv(c, 0)))
		return vcase{s, sk.PublicKey().Bytes(), append(s.prefix(), r.Bytes(70)...), msg, "any:ctor-hash"}.line()
	case "ed25519":
		s.api = "S"
		s.variant, s.id = "R", 0
		return vcase{s, uh(x.priv(c, 0)), r.Bytes(64), msg, "any:ctor-random-key"}.line()
	}
	// RSA
	k := x.p.rsa[c.bits][0]
	pub := k.n.Bytes()
	label := ""
	switch r.Intn(5) {
	case 0:
		s.e = r.Pick([]int{3, 17, 65535, 65536, 65539, 65537 + 65536, 1<<31 - 1})
		label = "any:ctor-exponent"
	case 1:
		s.hash = hx.PickS(r, []string{"sha1", "sha224"})
		if s.variant != "R" {
			s.variant, s.id = "R", 0
		}
		s.api = "I"
		label = "any:ctor-hash"
	case 2:
		// modulus just below 2048 bits
		m := new(big.Int).SetBytes(r.Bytes(256))
		m.SetBit(m, 2047, 0)
		m.SetBit(m, 2046, 1)
		m.SetBit(m, 0, 1)
		pub = m.Bytes()
		label = "any:ctor-2047"
	case 3:
		// arbitrary odd 2048-bit modulus: constructible, nothing verifies
		m := new(big.Int).SetBytes(r.Bytes(256))
		m.SetBit(m, 2047, 1)
		m.SetBit(m, 0, 1)
		pub = m.Bytes()
		label = "any:ctor-2048-random"
	default:
		m := new(big.Int).SetBytes(r.Bytes(128))
		m.SetBit(m, 1023, 1)
		m.SetBit(m, 0, 1)
		pub = m.Bytes()
		label = "any:ctor-1024"
	}
	if label != "any:ctor-hash" && r.Chance(60) {
		// the rule of internal/signature (validRSAPublicKey) is reached directly through API I
		s.api, s.variant, s.id = "I", "R", 0
	}
	return vcase{s, pub, append(s.prefix(), r.Bytes(len(pub))...), msg, label}.line()
}

// codec cases: DER / P1363 decoders and encoders on their own
func (x *g) codec() string {
	r := x.r
	randInt := func() *big.Int {
		var v *big.Int
		switch r.Intn(8) {
		case 0:
			v = big.NewInt(int64(r.Intn(3)))
		case 1:
			v = big.NewInt(int64(r.Pick([]int{127, 128, 129, 255, 256, 32767, 32768, 65535, 65536})))
		case 2:
			v = new(big.Int).Lsh(big.NewInt(1), uint(r.Pick([]int{7, 8, 15, 16, 255, 256, 383, 384, 520, 521, 527, 528, 1015, 1016, 1023, 1024})))
			v.Sub(v, big.NewInt(int64(r.Intn(3))))
		default:
			v = new(big.Int).SetBytes(r.Bytes(r.Pick([]int{1, 2, 31, 32, 33, 47, 48, 49, 65, 66, 67, 126, 127, 128, 130})))
		}
		return v
	}
	curve := hx.PickS(r, []string{"p256", "p384", "p521"})
	switch r.Intn(6) {
	case 0: // encode DER, signed
		a, b := randInt(), randInt()
		if r.Chance(30) {
			a.Neg(a)
		}
		if r.Chance(30) {
			b.Neg(b)
		}
		return "C03|E|der|" + zstr(a) + "|" + zstr(b)
	case 1: // encode P1363 (natural numbers; around the width bound)
		return "C03|E|p1363." + curve + "|" + zstr(randInt()) + "|" + zstr(randInt())
	case 2: // decode P1363
		l := r.Pick([]int{0, 1, 63, 64, 65, 95, 96, 97, 128, 131, 132, 133, 136})
		if r.Bool() {
			return "C03|D|p1363|" + hx.H(r.Bytes(l))
		}
		return "C03|D|p1363." + curve + "|" + hx.H(r.Bytes(l))
	}
	// decode DER: canonical encodings and their manipulations
	a, b := randInt(), randInt()
	if r.Chance(25) {
		a.Neg(a)
	}
	if r.Chance(25) {
		b.Neg(b)
	}
	enc, _ := x.derMutant(a, b, nil)
	return "C03|D|der|" + hx.H(enc)
}

// derMutant returns an encoding of (r, s), canonical or manipulated, with a label.
func (x *g) derMutant(a, b, order *big.Int) ([]byte, string) {
	r := x.r
	ca, cb := intContent(a), intContent(b)
	seq := func(parts ...[]byte) []byte { return tlv(0x30, bytes.Join(parts, nil), 0) }
	n := 20
	if order != nil {
		n = 26
	}
	switch r.Intn(n) {
	case 0:
		return derEncodeSig(a, b), "ok:reenc"
	case 1: // extra leading 00 on an INTEGER
		if r.Bool() {
			return seq(tlv(2, append([]byte{0}, ca...), 0), tlv(2, cb, 0)), "bad:int-lead00"
		}
		return seq(tlv(2, ca, 0), tlv(2, append([]byte{0}, cb...), 0)), "bad:int-lead00"
	case 2: // leading ff
		return seq(tlv(2, append([]byte{0xff}, ca...), 0), tlv(2, cb, 0)), "bad:int-leadff"
	case 3: // drop the sign octet: the value becomes negative
		if len(ca) > 1 && ca[0] == 0 {
			return seq(tlv(2, ca[1:], 0), tlv(2, cb, 0)), "bad:int-neg"
		}
		if len(cb) > 1 && cb[0] == 0 {
			return seq(tlv(2, ca, 0), tlv(2, cb[1:], 0)), "bad:int-neg"
		}
		return seq(tlv(2, intContent(new(big.Int).Neg(a)), 0), tlv(2, cb, 0)), "bad:int-neg"
	case 4: // long-form length on the SEQUENCE
		return tlv(0x30, append(tlv(2, ca, 0), tlv(2, cb, 0)...), 1), "bad:seq-longlen"
	case 5: // long-form length on an INTEGER
		if r.Bool() {
			return seq(tlv(2, ca, 1), tlv(2, cb, 0)), "bad:int-longlen"
		}
		return seq(tlv(2, ca, 0), tlv(2, cb, 1)), "bad:int-longlen"
	case 6: // indefinite length
		return tlv(0x30, append(tlv(2, ca, 0), tlv(2, cb, 0)...), 2), "bad:seq-indefinite"
	case 7: // trailing bytes inside the SEQUENCE
		extra := [][]byte{{0}, {5, 0}, {2, 1, 1}, r.Bytes(1 + r.Intn(3))}[r.Intn(4)]
		return seq(tlv(2, ca, 0), tlv(2, cb, 0), extra), "bad:trail-inside"
	case 8: // trailing bytes after the SEQUENCE
		extra := [][]byte{{0}, {5, 0}, {0x30, 0}, r.Bytes(1 + r.Intn(3))}[r.Intn(4)]
		return append(derEncodeSig(a, b), extra...), "bad:trail-outside"
	case 9: // SEQUENCE length one too large / too small
		e := derEncodeSig(a, b)
		i := 1
		if e[1] >= 0x80 {
			i = 1 + int(e[1]&0x7f)
		}
		if r.Bool() {
			e[i]++
		} else {
			e[i]--
		}
		return e, "bad:seq-len-off"
	case 10: // wrong tags
		e := derEncodeSig(a, b)
		if r.Bool() {
			e[0] = byte(r.Pick([]int{0x31, 0x10, 0x70, 0xb0}))
			return e, "bad:tag-seq"
		}
		return seq(tlv(byte(r.Pick([]int{3, 4, 0x0a, 0x82})), ca, 0), tlv(2, cb, 0)), "bad:tag-int"
	case 11: // one INTEGER only / three INTEGERs
		if r.Bool() {
			return seq(tlv(2, ca, 0)), "bad:one-int"
		}
		return seq(tlv(2, ca, 0), tlv(2, cb, 0), tlv(2, cb, 0)), "bad:three-ints"
	case 12: // empty INTEGER
		return seq(tlv(2, nil, 0), tlv(2, cb, 0)), "bad:int-empty"
	case 13: // truncation
		e := derEncodeSig(a, b)
		return e[:r.Intn(len(e))], "bad:trunc"
	case 14: // single bit flip anywhere
		e := derEncodeSig(a, b)
		e[r.Intn(len(e))] ^= 1 << r.Intn(8)
		return e, "any:bitflip"
	case 15: // random bytes
		return r.Bytes(r.Intn(12)), "any:random"
	case 16: // length with leading zero octet (0x82 00 xx)
		body := append(tlv(2, ca, 0), tlv(2, cb, 0)...)
		if len(body) >= 128 && len(body) < 256 {
			return append([]byte{0x30, 0x82, 0, byte(len(body))}, body...), "bad:seq-longlen"
		}
		return append([]byte{0x30, 0x81, byte(len(body))}, body...), "any:seq-0x81"
	case 17: // five length octets
		body := append(tlv(2, ca, 0), tlv(2, cb, 0)...)
		return append([]byte{0x30, 0x85, 0, 0, 0, 0, byte(len(body))}, body...), "bad:seq-longlen"
	case 18: // zero values
		if r.Bool() {
			return derEncodeSig(big.NewInt(0), b), "bad:zero-r"
		}
		return derEncodeSig(a, big.NewInt(0)), "bad:zero-s"
	case 19:
		return derEncodeSig(b, a), "bad:swap"
	case 20: // r + n: equal modulo the order, must be rejected
		return derEncodeSig(new(big.Int).Add(a, order), b), "bad:r-plus-n"
	case 21:
		return derEncodeSig(a, new(big.Int).Add(b, order)), "bad:s-plus-n"
	case 22: // (r, n - s) is the other valid ECDSA signature
		return derEncodeSig(a, new(big.Int).Sub(order, b)), "ok:n-minus-s"
	case 23:
		return derEncodeSig(new(big.Int).Neg(a), b), "bad:neg-r"
	case 24:
		return derEncodeSig(a, new(big.Int).Sub(b, order)), "bad:s-minus-n"
	}
	return derEncodeSig(big.NewInt(int64(1+r.Intn(3))), big.NewInt(int64(1+r.Intn(3)))), "bad:tiny"
}

func fixed(w int, a, b *big.Int) []byte {
	out := make([]byte, 2*w)
	new(big.Int).Mod(a, new(big.Int).Lsh(big.NewInt(1), uint(8*w))).FillBytes(out[:w])
	new(big.Int).Mod(b, new(big.Int).Lsh(big.NewInt(1), uint(8*w))).FillBytes(out[w:])
	return out
}

func (x *g) p1363Mutant(w int, a, b, order *big.Int) ([]byte, string) {
	r := x.r
	e := fixed(w, a, b)
	switch r.Intn(14) {
	case 0:
		return e, "ok:reenc"
	case 1:
		return e[1:], "bad:len-1"
	case 2:
		return append([]byte{0}, e...), "bad:len+1-front"
	case 3:
		return append(e, 0), "bad:len+1-back"
	case 4: // the size of another curve
		o := r.Pick([]int{32, 48, 66})
		if o == w {
			o = 24
		}
		return fixed(o, a, b), "bad:other-width"
	case 5:
		return derEncodeSig(a, b), "bad:der-for-p1363"
	case 6:
		if r.Bool() {
			return fixed(w, big.NewInt(0), b), "bad:zero-r"
		}
		return fixed(w, a, big.NewInt(0)), "bad:zero-s"
	case 7:
		return fixed(w, b, a), "bad:swap"
	case 8:
		v := new(big.Int).Add(a, order)
		if v.BitLen() <= 8*w {
			return fixed(w, v, b), "bad:r-plus-n"
		}
		return fixed(w, order, b), "bad:r-is-n"
	case 9:
		return fixed(w, a, new(big.Int).Sub(order, b)), "ok:n-minus-s"
	case 10:
		e[r.Intn(len(e))] ^= 1 << r.Intn(8)
		return e, "bad:bitflip"
	case 11:
		return e[:r.Intn(len(e))], "bad:trunc"
	case 12: // minimal (unpadded) big-endian halves
		return append(a.Bytes(), b.Bytes()...), "any:unpadded"
	}
	return r.Bytes(2 * w), "bad:random"
}

// stdSign signs msg (with the LEGACY suffix where due) with the standard
// library only and encodes the result with the harness's own encoders.
func (x *g) stdSign(c config, s spec, priv string, msg []byte) []byte {
	m := msg
	if s.variant == "L" {
		m = append(bytes.Clone(msg), 0)
	}
	var out []byte
	hx.RealRand(func() {
		switch s.scheme {
		case "ecdsa":
			ec, _ := stdCurve(s.curve)
			d := new(big.Int).SetBytes(uh(priv))
			sk := &ecdsa.PrivateKey{D: d}
			sk.Curve = ec
			pub := pubOf(c, priv)
			n := (len(pub) - 1) / 2
			sk.X, sk.Y = new(big.Int).SetBytes(pub[1:1+n]), new(big.Int).SetBytes(pub[1+n:])
			a, b, err := ecdsa.Sign(rand.Reader, sk, digestOf(s.hash, m))
			if err != nil {
				return
			}
			if s.enc == "der" {
				out = derEncodeSig(a, b)
			} else {
				out = fixed((ec.Params().BitSize+7)/8, a, b)
			}
		case "ed25519":
			out = ed25519.Sign(ed25519.NewKeyFromSeed(uh(priv)), m)
		case "pkcs1":
			out, _ = rsa.SignPKCS1v15(nil, parseRSAPriv(priv).std(s.e), cryptoHash(s.hash), digestOf(s.hash, m))
		case "pss":
			rk := parseRSAPriv(priv)
			if s.salt > 0 {
				out, _ = rsa.SignPSS(rand.Reader, rk.std(s.e), cryptoHash(s.hash), digestOf(s.hash, m), &rsa.PSSOptions{SaltLength: s.salt})
			} else {
				out = pssref.Sign(rk.n, rk.d, stdHash(s.hash), nil, digestOf(s.hash, m))
			}
		}
	})
	return out
}

// pubOf derives the public key material from the private key of the pool.
func pubOf(c config, priv string) []byte {
	switch c.scheme {
	case "ecdsa":
		_, ec := stdCurve(c.curve)
		sk, err := ec.NewPrivateKey(uh(priv))
		if err != nil {
			panic(err)
		}
		return sk.PublicKey().Bytes()
	case "ed25519":
		return ed25519.NewKeyFromSeed(uh(priv)).Public().(ed25519.PublicKey)
	}
	return parseRSAPriv(priv).n.Bytes()
}

var edL, _ = new(big.Int).SetString("7237005577332262213973186563042994240857116359379907606001950938285454250989", 10)

func le(b []byte) *big.Int {
	c := bytes.Clone(b)
	for i, j := 0, len(c)-1; i < j; i, j = i+1, j-1 {
		c[i], c[j] = c[j], c[i]
	}
	return new(big.Int).SetBytes(c)
}

// vcase: sign with tink-go, then (unless label is given) mutate.
func (x *g) vcase(c config, force string) string {
	r := x.r
	s := x.specOf(c)
	ki := r.Intn(3)
	priv := x.priv(c, ki)
	msg := x.msg()
	ss := s
	ss.api = hx.PickS(r, []string{"K", "H"})
	sig, pub, err, _ := signOnce(ss, priv, msg, hx.H(r.Bytes(16)))
	s.api = x.api(s)
	if err != nil || sig == nil {
		return vcase{s, pub, nil, msg, "any:sign-failed"}.line()
	}
	v := vcase{s, pub, sig, msg, "ok:tink"}
	zero := force == "zero" // directed: the zero-stripped form of a genuine RSA signature
	if zero {
		force = ""
	}
	// directed prefix family "pfx:<kind>": always through the PER-KEY constructor (API K, the full
	// primitive the registry hands out); the keyset-level verifier would hide a per-key prefix bug
	// because its prefix map only hands over signatures whose first five bytes match
	pfxKind := ""
	if strings.HasPrefix(force, "pfx:") {
		pfxKind, force = force[4:], ""
		s.api, v.s.api = "K", "K"
	}
	if force != "" {
		v.label = force
		return v.line()
	}
	pfx := s.prefix()
	body := bytes.Clone(sig[len(pfx):])
	withBody := func(b []byte, label string) string {
		v.sig, v.label = append(bytes.Clone(pfx), b...), label
		return v.line()
	}
	// generic manipulations: prefix, message, key, variant
	gk := r.Intn(30)
	if zero {
		gk = 29
	}
	switch pfxKind {
	case "drop":
		v.sig, v.label = body, "bad:pfx-drop"
		return v.line()
	case "junk":
		v.sig, v.label = append(r.Bytes(1+r.Intn(6)), sig...), "bad:junk-before-prefix"
		return v.line()
	case "start":
		v.sig = bytes.Clone(sig)
		v.sig[0] ^= 1
		v.label = "bad:pfx-start-byte"
		return v.line()
	case "flip":
		v.sig = bytes.Clone(sig)
		v.sig[1+r.Intn(4)] ^= 1 << r.Intn(8)
		v.label = "bad:pfx-flip"
		return v.line()
	case "trunc-end":
		v.sig, v.label = sig[:len(sig)-1-r.Intn(3)], "bad:trunc-end"
		return v.line()
	case "trunc-front":
		v.sig, v.label = sig[1+r.Intn(4):], "bad:trunc-front"
		return v.line()
	case "id":
		gk = 6
	case "short":
		gk = 7
	case "added":
		gk = 8
	case "variant":
		for {
			v.s.variant = hx.PickS(r, variants[:3])
			if v.s.variant != s.variant {
				break
			}
		}
		v.label = "bad:other-variant"
		return v.line()
	case "raw-key":
		// a prefixed signature under the RAW key with the same material, and conversely
		v.s.variant, v.s.id, v.label = "R", 0, "bad:raw-key-prefixed-sig"
		return v.line()
	}
	switch k := gk; {
	case k == 0:
		return v.line()
	case k == 1:
		if len(v.msg) == 0 {
			v.msg = []byte{0}
			if s.variant == "L" {
				v.msg = []byte{1}
			}
		} else {
			v.msg = bytes.Clone(msg)
			v.msg[r.Intn(len(v.msg))] ^= 1 << r.Intn(8)
		}
		v.label = "bad:msg-flip"
		return v.line()
	case k == 2:
		v.msg = append(bytes.Clone(msg), 0)
		v.label = "bad:msg-append00"
		return v.line()
	case k == 3:
		// another key of the same type
		v.pub, v.label = pubOf(c, x.priv(c, ki+1)), "bad:other-key"
		return v.line()
	case k == 4 && s.variant != "R":
		v.sig = bytes.Clone(sig)
		if r.Bool() {
			v.sig[0] ^= 1 // TINK <-> CRUNCHY/LEGACY start byte
			v.label = "bad:pfx-start-byte"
		} else {
			v.sig[r.Intn(5)] ^= 1 << r.Intn(8)
			v.label = "bad:pfx-flip"
		}
		return v.line()
	case k == 5 && s.variant != "R":
		if r.Bool() {
			// bytes in front of a genuine prefixed signature (a prefix search that is not anchored accepts them)
			v.sig, v.label = append(r.Bytes(1+r.Intn(6)), sig...), "bad:junk-before-prefix"
			return v.line()
		}
		v.sig, v.label = body, "bad:pfx-drop"
		return v.line()
	case k == 6 && s.variant != "R":
		v.s.id = s.id + uint32(1+r.Intn(3))
		v.label = "bad:pfx-other-id"
		return v.line()
	case k == 7 && s.variant != "R":
		v.sig, v.label = sig[:r.Intn(6)], "bad:pfx-short"
		return v.line()
	case k == 8 && s.variant == "R":
		v.sig = append([]byte{byte(r.Intn(2)), 1, 2, 3, 4}, sig...)
		v.label = "bad:pfx-added"
		return v.line()
	case k == 9 && s.variant != "R":
		// same id, another variant: TINK<->CRUNCHY differ in the prefix, CRUNCHY<->LEGACY in the message
		v.s.variant = hx.PickS(r, variants[:3])
		if v.s.variant == s.variant {
			v.label = "ok:same-variant"
		} else {
			v.label = "bad:other-variant"
		}
		return v.line()
	case k == 10 && (s.variant == "C" || s.variant == "L"):
		// CRUNCHY signature over m||00 is a LEGACY signature over m, and conversely
		if s.variant == "C" {
			m2 := append(bytes.Clone(msg), 0)
			sig2, _, err, _ := signOnce(ss, priv, m2, hx.H(r.Bytes(16)))
			if err == nil {
				v.s.variant, v.sig, v.label = "L", sig2, "ok:legacy-cross"
			}
		} else {
			v.s.variant, v.msg, v.label = "C", append(bytes.Clone(msg), 0), "ok:legacy-cross"
		}
		return v.line()
	case k == 11:
		v.sig, v.label = r.Bytes(r.Intn(8)), "bad:short-random"
		return v.line()
	case k == 12:
		return withBody(nil, "bad:prefix-only")
	case k == 13:
		return withBody(r.Bytes(len(body)), "bad:random-body")
	case (k == 16 || k == 17) && s.scheme == "ecdsa":
		// ECDSA public-key recovery: the key p' = r^-1 (s R - z' G), computed from the genuine
		// signature (r, s) and the digest z' of ANY message, verifies that signature for that
		// message.  "Rejected under other keys" is false for such keys (theorem
		// C03_ecdsa_other_key_rejected_refuted); tink-go, the model and the independent
		// verifier must all ACCEPT.
		ec, _ := stdCurve(s.curve)
		var a, b *big.Int
		if s.enc == "der" {
			var ok bool
			if a, b, ok = derParseSig(body); !ok {
				return v.line()
			}
		} else {
			w := len(body) / 2
			a, b = new(big.Int).SetBytes(body[:w]), new(big.Int).SetBytes(body[w:])
		}
		m2, label := bytes.Clone(msg), "ok:recovered-key-same-msg"
		if k == 17 {
			m2, label = append(r.Bytes(1+r.Intn(20)), 0x5a), "ok:recovered-key-other-msg"
		}
		md := m2
		if s.variant == "L" {
			md = append(bytes.Clone(m2), 0)
		}
		if p2 := recoverECDSAKey(ec, digestOf(s.hash, md), a, b, r.Bool()); p2 != nil && !bytes.Equal(p2, pub) {
			v.pub, v.msg, v.label = p2, m2, label
		}
		return v.line()
	case k == 14 || k == 15:
		// signed by the standard library (not by tink-go), encoded by the harness
		if b := x.stdSign(c, s, priv, msg); b != nil {
			return withBody(b, "ok:stdlib-signed")
		}
	}
	// scheme-specific manipulations of the body
	switch s.scheme {
	case "ecdsa":
		ec, _ := stdCurve(s.curve)
		order := ec.Params().N
		w := (ec.Params().BitSize + 7) / 8
		var a, b *big.Int
		if s.enc == "der" {
			var ok bool
			a, b, ok = derParseSig(body)
			if !ok {
				return v.line()
			}
			if r.Intn(12) == 0 {
				return withBody(fixed(w, a, b), "bad:p1363-for-der")
			}
			m, label := x.derMutant(a, b, order)
			return withBody(m, label)
		}
		if len(body) != 2*w {
			return v.line()
		}
		a, b = new(big.Int).SetBytes(body[:w]), new(big.Int).SetBytes(body[w:])
		m, label := x.p1363Mutant(w, a, b, order)
		return withBody(m, label)
	case "ed25519":
		switch r.Intn(7) {
		case 0:
			body[r.Intn(64)] ^= 1 << r.Intn(8)
			return withBody(body, "bad:bitflip")
		case 1:
			return withBody(body[:63], "bad:len-1")
		case 2:
			return withBody(append(body, 0), "bad:len+1")
		case 3: // S + L: the non-canonical scalar
			sv := le(body[32:])
			sv.Add(sv, edL)
			sb := make([]byte, 32)
			sv.FillBytes(sb)
			for i, j := 0, 31; i < j; i, j = i+1, j-1 {
				sb[i], sb[j] = sb[j], sb[i]
			}
			return withBody(append(bytes.Clone(body[:32]), sb...), "bad:s-plus-l")
		case 4:
			return withBody(make([]byte, 64), "bad:zero")
		case 5:
			return withBody(body[:r.Intn(64)], "bad:trunc")
		}
		// standard library signature over the same (suffixed) message
		m := msg
		if s.variant == "L" {
			m = append(bytes.Clone(msg), 0)
		}
		return withBody(ed25519.Sign(ed25519.NewKeyFromSeed(uh(priv)), m), "ok:stdlib-signed")
	case "pkcs1", "pss":
		rk := parseRSAPriv(priv)
		m := msg
		if s.variant == "L" {
			m = append(bytes.Clone(msg), 0)
		}
		if s.scheme == "pkcs1" && (zero || (s.variant != "L" && r.Intn(8) == 0)) {
			// a genuine signature whose value starts with a zero byte, presented with that
			// byte removed (PKCS1 v1.5 signatures are deterministic: search the message)
			std := rk.std(65537)
			base := append(bytes.Clone(msg), 0, 0)
			for t := 0; t < 4000; t++ {
				base[len(base)-2], base[len(base)-1] = byte(t>>8), byte(t)
				signed := base
				if s.variant == "L" {
					signed = append(bytes.Clone(base), 0)
				}
				sg, err := rsa.SignPKCS1v15(nil, std, cryptoHash(s.hash), digestOf(s.hash, signed))
				if err == nil && sg[0] == 0 {
					v.msg = bytes.Clone(base)
					return withBody(sg[1:], "bad:lead-zero-stripped")
				}
			}
		}
		if s.scheme == "pss" && s.salt > 0 && (zero || r.Intn(24) == 0) {
			// the same for PSS (randomized: search over fresh signatures of the same message)
			std := rk.std(65537)
			for t := 0; t < 1500; t++ {
				sg, err := rsa.SignPSS(rand.Reader, std, cryptoHash(s.hash), digestOf(s.hash, m), &rsa.PSSOptions{SaltLength: s.salt})
				if err == nil && sg[0] == 0 {
					return withBody(sg[1:], "bad:lead-zero-stripped")
				}
			}
		}
		switch k := r.Intn(12); {
		case k == 0:
			body[r.Intn(len(body))] ^= 1 << r.Intn(8)
			return withBody(body, "bad:bitflip")
		case k == 1:
			return withBody(body[:len(body)-1], "bad:len-1")
		case k == 2:
			return withBody(append([]byte{0}, body...), "bad:len+1-front")
		case k == 3:
			return withBody(append(body, 0), "bad:len+1-back")
		case k == 4:
			return withBody(make([]byte, len(body)), "bad:zero")
		case k == 5: // sig + n does not fit; sig = n, n-1
			return withBody(new(big.Int).Sub(rk.n, big.NewInt(int64(r.Intn(2)))).Bytes(), "bad:sig-near-n")
		case k == 6: // verify under another hash
			for _, h := range []string{"sha256", "sha384", "sha512"} {
				if h != s.hash {
					v.s.hash = h
					break
				}
			}
			if v.s.scheme == "pss" && v.s.salt > c.bits/8-2-hashLen(v.s.hash) {
				v.s.salt = hashLen(v.s.hash)
			}
			v.label = "bad:other-hash"
			return v.line()
		case k == 7: // the other RSA scheme
			if s.scheme == "pkcs1" {
				v.s.scheme, v.s.salt = "pss", hashLen(s.hash)
			} else {
				v.s.scheme, v.s.salt = "pkcs1", 0
			}
			v.label = "bad:other-rsa-scheme"
			return v.line()
		case k <= 9 && s.scheme == "pss": // verify under a key with another salt length
			o := x.salt(c)
			if s.salt == 0 || o == 0 {
				v.label = "any:salt-key-0"
			} else if o == s.salt {
				v.label = "ok:same-salt"
			} else {
				v.label = "bad:salt-key-other"
			}
			v.s.salt = o
			return v.line()
		case s.scheme == "pss": // reference-signed with a salt of another (or the same) length
			o := x.salt(c)
			fs := pssref.Sign(rk.n, rk.d, stdHash(s.hash), r.Bytes(o), digestOf(s.hash, m))
			label := "bad:salt-sig-other@" + strconv.Itoa(o)
			if o == s.salt {
				label = "ok:reference-signed@" + strconv.Itoa(o)
			} else if s.salt == 0 {
				label = "any:salt-sig-other-key-0@" + strconv.Itoa(o)
			}
			return withBody(fs, label)
		}
		return v.line()
	}
	return v.line()
}

// recoverECDSAKey returns the uncompressed public key r^-1 (s R - z G) for the point R with
// abscissa r (odd selects which of the two), z = the digest truncated as crypto/ecdsa does;
// nil when r is not an abscissa or the result is the point at infinity.  Standard library only.
func recoverECDSAKey(c elliptic.Curve, digest []byte, r, s *big.Int, odd bool) []byte {
	pr := c.Params()
	if r.Sign() <= 0 || s.Sign() <= 0 || r.Cmp(pr.N) >= 0 || s.Cmp(pr.N) >= 0 {
		return nil
	}
	// y^2 = x^3 - 3x + b
	x := new(big.Int).Set(r)
	y2 := new(big.Int).Exp(x, big.NewInt(3), pr.P)
	y2.Sub(y2, new(big.Int).Mul(big.NewInt(3), x))
	y2.Add(y2, pr.B)
	y2.Mod(y2, pr.P)
	y := new(big.Int).ModSqrt(y2, pr.P)
	if y == nil {
		return nil
	}
	if (y.Bit(0) == 1) != odd {
		y.Sub(pr.P, y)
	}
	// z: leftmost orderBits of the digest
	ob := pr.N.BitLen()
	d := digest
	if len(d) > (ob+7)/8 {
		d = d[:(ob+7)/8]
	}
	z := new(big.Int).SetBytes(d)
	if ex := len(d)*8 - ob; ex > 0 {
		z.Rsh(z, uint(ex))
	}
	z.Mod(z, pr.N)
	sx, sy := c.ScalarMult(x, y, s.Bytes())
	nz := new(big.Int).Sub(pr.N, z)
	nz.Mod(nz, pr.N)
	tx, ty := sx, sy
	if nz.Sign() != 0 {
		gx, gy := c.ScalarBaseMult(nz.Bytes())
		tx, ty = c.Add(sx, sy, gx, gy)
	}
	if tx.Sign() == 0 && ty.Sign() == 0 {
		return nil
	}
	rinv := new(big.Int).ModInverse(r, pr.N)
	qx, qy := c.ScalarMult(tx, ty, rinv.Bytes())
	if qx.Sign() == 0 && qy.Sign() == 0 {
		return nil
	}
	w := (pr.BitSize + 7) / 8
	out := make([]byte, 1+2*w)
	out[0] = 4
	qx.FillBytes(out[1 : 1+w])
	qy.FillBytes(out[1+w:])
	return out
}
