package c03

import (
	"crypto/ecdh"
	"crypto/ed25519"
	"crypto/elliptic"
	"crypto/rsa"
	"crypto/sha1"
	"crypto/sha256"
	"crypto/sha512"
	"fmt"
	"hash"
	"math/big"
	"strconv"
	"strings"

	"github.com/tink-crypto/tink-go/v2/insecuresecretdataaccess"
	"github.com/tink-crypto/tink-go/v2/internal/internalapi"
	internalsig "github.com/tink-crypto/tink-go/v2/internal/signature"
	"github.com/tink-crypto/tink-go/v2/key"
	"github.com/tink-crypto/tink-go/v2/keyset"
	"github.com/tink-crypto/tink-go/v2/secretdata"
	"github.com/tink-crypto/tink-go/v2/signature"
	tinkecdsa "github.com/tink-crypto/tink-go/v2/signature/ecdsa"
	tinked "github.com/tink-crypto/tink-go/v2/signature/ed25519"
	"github.com/tink-crypto/tink-go/v2/signature/rsassapkcs1"
	"github.com/tink-crypto/tink-go/v2/signature/rsassapss"
	sigsubtle "github.com/tink-crypto/tink-go/v2/signature/subtle"
	"github.com/tink-crypto/tink-go/v2/tink"
	"github.com/tink-crypto/tink-go/v2/verifharness/hx"
)

// spec = everything about a key except its material.
type spec struct {
	api     string // K per-key constructor, H keyset handle + factory, S signature/subtle, I internal/signature (RSA)
	scheme  string // ecdsa ed25519 pkcs1 pss
	curve   string // p256 p384 p521
	hash    string // sha1 sha224 sha256 sha384 sha512
	enc     string // der p1363
	e       int
	salt    int
	variant string // T C L R
	id      uint32
}

func (s spec) params() string {
	switch s.scheme {
	case "ecdsa":
		return s.curve + "." + s.hash + "." + s.enc
	case "pkcs1":
		return s.hash + "." + strconv.Itoa(s.e)
	case "pss":
		return s.hash + "." + strconv.Itoa(s.e) + "." + strconv.Itoa(s.salt)
	}
	return "-"
}

func (s spec) head(kind string) string {
	return "C03|" + kind + "|" + s.api + "|" + s.scheme + "|" + s.params() + "|" + s.variant + "|" + strconv.FormatUint(uint64(s.id), 10)
}

func parseSpec(f []string) spec { // f = fields from api on: api scheme params variant id
	s := spec{api: f[0], scheme: f[1], variant: f[3]}
	id, _ := strconv.ParseUint(f[4], 10, 32)
	s.id = uint32(id)
	p := strings.Split(f[2], ".")
	switch s.scheme {
	case "ecdsa":
		s.curve, s.hash, s.enc = p[0], p[1], p[2]
	case "pkcs1":
		s.hash = p[0]
		s.e, _ = strconv.Atoi(p[1])
	case "pss":
		s.hash = p[0]
		s.e, _ = strconv.Atoi(p[1])
		s.salt, _ = strconv.Atoi(p[2])
	}
	return s
}

func (s spec) prefix() []byte {
	id := []byte{byte(s.id >> 24), byte(s.id >> 16), byte(s.id >> 8), byte(s.id)}
	switch s.variant {
	case "T":
		return append([]byte{1}, id...)
	case "C", "L":
		return append([]byte{0}, id...)
	}
	return nil
}

func stdHash(name string) func() hash.Hash {
	switch name {
	case "sha1":
		return sha1.New
	case "sha224":
		return sha256.New224
	case "sha256":
		return sha256.New
	case "sha384":
		return sha512.New384
	case "sha512":
		return sha512.New
	}
	return nil
}

func upperHash(name string) string { return strings.ToUpper(name) }

func stdCurve(name string) (elliptic.Curve, ecdh.Curve) {
	switch name {
	case "p256":
		return elliptic.P256(), ecdh.P256()
	case "p384":
		return elliptic.P384(), ecdh.P384()
	case "p521":
		return elliptic.P521(), ecdh.P521()
	}
	panic("curve " + name)
}

func tinkCurveName(name string) string {
	return map[string]string{"p256": "NIST_P256", "p384": "NIST_P384", "p521": "NIST_P521"}[name]
}

var tok = insecuresecretdataaccess.Token{}

func sd(b []byte) secretdata.Bytes { return secretdata.NewBytesFromData(b, tok) }

func ecdsaParams(s spec) (*tinkecdsa.Parameters, error) {
	c := map[string]tinkecdsa.CurveType{"p256": tinkecdsa.NistP256, "p384": tinkecdsa.NistP384, "p521": tinkecdsa.NistP521}[s.curve]
	h := map[string]tinkecdsa.HashType{"sha256": tinkecdsa.SHA256, "sha384": tinkecdsa.SHA384, "sha512": tinkecdsa.SHA512}[s.hash]
	e := map[string]tinkecdsa.SignatureEncoding{"der": tinkecdsa.DER, "p1363": tinkecdsa.IEEEP1363}[s.enc]
	v := map[string]tinkecdsa.Variant{"T": tinkecdsa.VariantTink, "C": tinkecdsa.VariantCrunchy, "L": tinkecdsa.VariantLegacy, "R": tinkecdsa.VariantNoPrefix}[s.variant]
	return tinkecdsa.NewParameters(c, h, e, v)
}

func edParams(s spec) (tinked.Parameters, error) {
	v := map[string]tinked.Variant{"T": tinked.VariantTink, "C": tinked.VariantCrunchy, "L": tinked.VariantLegacy, "R": tinked.VariantNoPrefix}[s.variant]
	return tinked.NewParameters(v)
}

func pkcs1Params(s spec, bits int) (*rsassapkcs1.Parameters, error) {
	h := map[string]rsassapkcs1.HashType{"sha256": rsassapkcs1.SHA256, "sha384": rsassapkcs1.SHA384, "sha512": rsassapkcs1.SHA512}[s.hash]
	v := map[string]rsassapkcs1.Variant{"T": rsassapkcs1.VariantTink, "C": rsassapkcs1.VariantCrunchy, "L": rsassapkcs1.VariantLegacy, "R": rsassapkcs1.VariantNoPrefix}[s.variant]
	return rsassapkcs1.NewParameters(bits, h, s.e, v)
}

func pssParams(s spec, bits int) (*rsassapss.Parameters, error) {
	h := map[string]rsassapss.HashType{"sha256": rsassapss.SHA256, "sha384": rsassapss.SHA384, "sha512": rsassapss.SHA512}[s.hash]
	v := map[string]rsassapss.Variant{"T": rsassapss.VariantTink, "C": rsassapss.VariantCrunchy, "L": rsassapss.VariantLegacy, "R": rsassapss.VariantNoPrefix}[s.variant]
	return rsassapss.NewParameters(rsassapss.ParametersValues{ModulusSizeBits: bits, SigHashType: h, MGF1HashType: h, PublicExponent: s.e, SaltLengthBytes: s.salt}, v)
}

// pubKey builds the tink-go public key object (APIs K and H).
func pubKey(s spec, pub []byte) (key.Key, error) {
	switch s.scheme {
	case "ecdsa":
		p, err := ecdsaParams(s)
		if err != nil {
			return nil, err
		}
		return tinkecdsa.NewPublicKey(pub, s.id, p)
	case "ed25519":
		p, err := edParams(s)
		if err != nil {
			return nil, err
		}
		return tinked.NewPublicKey(pub, s.id, p)
	case "pkcs1":
		p, err := pkcs1Params(s, new(big.Int).SetBytes(pub).BitLen())
		if err != nil {
			return nil, err
		}
		return rsassapkcs1.NewPublicKey(pub, s.id, p)
	case "pss":
		p, err := pssParams(s, new(big.Int).SetBytes(pub).BitLen())
		if err != nil {
			return nil, err
		}
		return rsassapss.NewPublicKey(pub, s.id, p)
	}
	return nil, fmt.Errorf("scheme")
}

type rsaPriv struct{ n, p, q, d *big.Int }

func parseRSAPriv(f string) rsaPriv {
	x := strings.Split(f, ".")
	g := func(s string) *big.Int { v, _ := new(big.Int).SetString(s, 16); return v }
	return rsaPriv{g(x[0]), g(x[1]), g(x[2]), g(x[3])}
}
func (k rsaPriv) String() string {
	return hx.H(k.n.Bytes()) + "." + hx.H(k.p.Bytes()) + "." + hx.H(k.q.Bytes()) + "." + hx.H(k.d.Bytes())
}
func (k rsaPriv) std(e int) *rsa.PrivateKey {
	pk := &rsa.PrivateKey{PublicKey: rsa.PublicKey{N: k.n, E: e}, D: k.d, Primes: []*big.Int{k.p, k.q}}
	pk.Precompute()
	return pk
}

// privKey builds the tink-go private key object and returns the public material.
func privKey(s spec, priv string) (key.Key, []byte, error) {
	switch s.scheme {
	case "ecdsa":
		p, err := ecdsaParams(s)
		if err != nil {
			return nil, nil, err
		}
		k, err := tinkecdsa.NewPrivateKey(sd(uh(priv)), s.id, p)
		if err != nil {
			return nil, nil, err
		}
		pk, _ := k.PublicKey()
		return k, pk.(*tinkecdsa.PublicKey).PublicPoint(), nil
	case "ed25519":
		p, err := edParams(s)
		if err != nil {
			return nil, nil, err
		}
		k, err := tinked.NewPrivateKey(sd(uh(priv)), s.id, p)
		if err != nil {
			return nil, nil, err
		}
		pk, _ := k.PublicKey()
		return k, pk.(*tinked.PublicKey).KeyBytes(), nil
	case "pkcs1":
		rk := parseRSAPriv(priv)
		pub, err := pubKey(s, rk.n.Bytes())
		if err != nil {
			return nil, nil, err
		}
		k, err := rsassapkcs1.NewPrivateKey(pub.(*rsassapkcs1.PublicKey), rsassapkcs1.PrivateKeyValues{P: sd(rk.p.Bytes()), Q: sd(rk.q.Bytes()), D: sd(rk.d.Bytes())})
		if err != nil {
			return nil, nil, err
		}
		return k, rk.n.Bytes(), nil
	case "pss":
		rk := parseRSAPriv(priv)
		pub, err := pubKey(s, rk.n.Bytes())
		if err != nil {
			return nil, nil, err
		}
		k, err := rsassapss.NewPrivateKey(pub.(*rsassapss.PublicKey), rsassapss.PrivateKeyValues{P: sd(rk.p.Bytes()), Q: sd(rk.q.Bytes()), D: sd(rk.d.Bytes())})
		if err != nil {
			return nil, nil, err
		}
		return k, rk.n.Bytes(), nil
	}
	return nil, nil, fmt.Errorf("scheme")
}

func handleOf(k key.Key) (*keyset.Handle, error) {
	km := keyset.NewManager()
	id, err := km.AddKey(k)
	if err != nil {
		return nil, err
	}
	if err := km.SetPrimary(id); err != nil {
		return nil, err
	}
	return km.Handle()
}

// buildVerifier constructs the tink-go verifier through the API named in the spec.
func buildVerifier(s spec, pub []byte) (tink.Verifier, error) {
	switch s.api {
	case "K", "H":
		k, err := pubKey(s, pub)
		if err != nil {
			return nil, err
		}
		if s.api == "H" {
			h, err := handleOf(k)
			if err != nil {
				return nil, err
			}
			return signature.NewVerifier(h)
		}
		switch kk := k.(type) {
		case *tinkecdsa.PublicKey:
			return tinkecdsa.NewVerifier(kk, internalapi.Token{})
		case *tinked.PublicKey:
			return tinked.NewVerifier(kk, internalapi.Token{})
		case *rsassapkcs1.PublicKey:
			return rsassapkcs1.NewVerifier(kk, internalapi.Token{})
		case *rsassapss.PublicKey:
			return rsassapss.NewVerifier(kk, internalapi.Token{})
		}
	case "S":
		switch s.scheme {
		case "ecdsa":
			n := (len(pub) - 1) / 2
			enc := map[string]string{"der": "DER", "p1363": "IEEE_P1363"}[s.enc]
			return sigsubtle.NewECDSAVerifier(upperHash(s.hash), tinkCurveName(s.curve), enc, pub[1:1+n], pub[1+n:])
		case "ed25519":
			return sigsubtle.NewED25519Verifier(pub)
		}
	case "I":
		pk := &rsa.PublicKey{N: new(big.Int).SetBytes(pub), E: s.e}
		switch s.scheme {
		case "pkcs1":
			return internalsig.New_RSA_SSA_PKCS1_Verifier(upperHash(s.hash), pk)
		case "pss":
			return internalsig.New_RSA_SSA_PSS_Verifier(upperHash(s.hash), s.salt, pk)
		}
	}
	return nil, fmt.Errorf("unsupported api/scheme %s/%s", s.api, s.scheme)
}

// buildSigner constructs the tink-go signer through the API named in the spec
// and returns the public key material as well.
func buildSigner(s spec, priv string) (tink.Signer, []byte, error) {
	switch s.api {
	case "K", "H":
		k, pub, err := privKey(s, priv)
		if err != nil {
			return nil, nil, err
		}
		if s.api == "H" {
			h, err := handleOf(k)
			if err != nil {
				return nil, nil, err
			}
			sg, err := signature.NewSigner(h)
			return sg, pub, err
		}
		var sg tink.Signer
		switch kk := k.(type) {
		case *tinkecdsa.PrivateKey:
			sg, err = tinkecdsa.NewSigner(kk, internalapi.Token{})
		case *tinked.PrivateKey:
			sg, err = tinked.NewSigner(kk, internalapi.Token{})
		case *rsassapkcs1.PrivateKey:
			sg, err = rsassapkcs1.NewSigner(kk, internalapi.Token{})
		case *rsassapss.PrivateKey:
			sg, err = rsassapss.NewSigner(kk, internalapi.Token{})
		}
		return sg, pub, err
	case "S":
		switch s.scheme {
		case "ecdsa":
			_, c := stdCurve(s.curve)
			sk, err := c.NewPrivateKey(uh(priv))
			if err != nil {
				return nil, nil, err
			}
			enc := map[string]string{"der": "DER", "p1363": "IEEE_P1363"}[s.enc]
			sg, err := sigsubtle.NewECDSASigner(upperHash(s.hash), tinkCurveName(s.curve), enc, uh(priv))
			if err != nil {
				return nil, nil, err
			}
			return sg, sk.PublicKey().Bytes(), nil
		case "ed25519":
			sg, err := sigsubtle.NewED25519Signer(uh(priv))
			if err != nil {
				return nil, nil, err
			}
			return sg, ed25519.NewKeyFromSeed(uh(priv)).Public().(ed25519.PublicKey), nil
		}
	case "I":
		rk := parseRSAPriv(priv)
		switch s.scheme {
		case "pkcs1":
			sg, err := internalsig.New_RSA_SSA_PKCS1_Signer(upperHash(s.hash), rk.std(s.e))
			if err != nil {
				return nil, nil, err
			}
			return sg, rk.n.Bytes(), nil
		case "pss":
			sg, err := internalsig.New_RSA_SSA_PSS_Signer(upperHash(s.hash), s.salt, rk.std(s.e))
			if err != nil {
				return nil, nil, err
			}
			return sg, rk.n.Bytes(), nil
		}
	}
	return nil, nil, fmt.Errorf("unsupported api/scheme %s/%s", s.api, s.scheme)
}
