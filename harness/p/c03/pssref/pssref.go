// Package pssref is a stdlib-only transcription of RSASSA-PSS (RFC 8017
// sections 8.1, 9.1) with an explicit, strictly enforced salt length.  It is
// the independent reference for the salt-length binding of property C03:
// crypto/rsa treats SaltLength 0 as "auto", so it cannot serve as a strict
// verifier for sLen = 0.  It imports nothing from tink-go.
package pssref

import (
	"bytes"
	"crypto/subtle"
	"hash"
	"math/big"
)

func mgf1(h func() hash.Hash, seed []byte, n int) []byte {
	var out []byte
	for c := uint32(0); len(out) < n; c++ {
		x := h()
		x.Write(seed)
		x.Write([]byte{byte(c >> 24), byte(c >> 16), byte(c >> 8), byte(c)})
		out = x.Sum(out)
	}
	return out[:n]
}

// Verify is RSASSA-PSS-VERIFY with MGF1 over the same hash and salt length
// exactly sLen.  digest = Hash(M).
func Verify(n *big.Int, e int, h func() hash.Hash, sLen int, digest, sig []byte) bool {
	if n.Sign() <= 0 || sLen < 0 {
		return false
	}
	k := (n.BitLen() + 7) / 8
	if len(sig) != k {
		return false
	}
	s := new(big.Int).SetBytes(sig)
	if s.Cmp(n) >= 0 {
		return false
	}
	m := new(big.Int).Exp(s, big.NewInt(int64(e)), n)
	emBits := n.BitLen() - 1
	emLen := (emBits + 7) / 8
	mb := m.Bytes()
	if len(mb) > emLen {
		return false
	}
	em := make([]byte, emLen)
	copy(em[emLen-len(mb):], mb)
	// EMSA-PSS-VERIFY
	hLen := h().Size()
	if len(digest) != hLen {
		return false
	}
	if emLen < hLen+sLen+2 {
		return false
	}
	if em[emLen-1] != 0xbc {
		return false
	}
	maskedDB := em[:emLen-hLen-1]
	hh := em[emLen-hLen-1 : emLen-1]
	topBits := 8*emLen - emBits
	if topBits > 0 && maskedDB[0]>>(8-topBits) != 0 {
		return false
	}
	dbMask := mgf1(h, hh, len(maskedDB))
	db := make([]byte, len(maskedDB))
	for i := range db {
		db[i] = maskedDB[i] ^ dbMask[i]
	}
	if topBits > 0 {
		db[0] &= 0xff >> topBits
	}
	ps := emLen - hLen - sLen - 2
	for i := 0; i < ps; i++ {
		if db[i] != 0 {
			return false
		}
	}
	if db[ps] != 1 {
		return false
	}
	salt := db[len(db)-sLen:]
	x := h()
	x.Write(make([]byte, 8))
	x.Write(digest)
	x.Write(salt)
	return subtle.ConstantTimeCompare(x.Sum(nil), hh) == 1
}

// Sign is RSASSA-PSS-SIGN with the given salt (its length is sLen); d is the
// private exponent.  Returns nil when the encoding does not fit.
func Sign(n, d *big.Int, h func() hash.Hash, salt, digest []byte) []byte {
	emBits := n.BitLen() - 1
	emLen := (emBits + 7) / 8
	hLen := h().Size()
	sLen := len(salt)
	if emLen < hLen+sLen+2 || len(digest) != hLen {
		return nil
	}
	x := h()
	x.Write(make([]byte, 8))
	x.Write(digest)
	x.Write(salt)
	hh := x.Sum(nil)
	db := make([]byte, emLen-hLen-1)
	db[len(db)-sLen-1] = 1
	copy(db[len(db)-sLen:], salt)
	mask := mgf1(h, hh, len(db))
	for i := range db {
		db[i] ^= mask[i]
	}
	topBits := 8*emLen - emBits
	if topBits > 0 {
		db[0] &= 0xff >> topBits
	}
	em := bytes.Join([][]byte{db, hh, {0xbc}}, nil)
	s := new(big.Int).Exp(new(big.Int).SetBytes(em), d, n)
	k := (n.BitLen() + 7) / 8
	out := make([]byte, k)
	s.FillBytes(out)
	return out
}
