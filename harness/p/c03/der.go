package c03

import (
	"encoding/hex"
	"math/big"
)

// A hand-written strict DER codec for SEQUENCE { INTEGER, INTEGER }, used by
// the direct property oracle (Check) and by the mutation generator.  It does
// not use encoding/asn1, cryptobyte or any tink-go code.

// intContent is the minimal two's complement content of an INTEGER.
func intContent(x *big.Int) []byte {
	if x.Sign() >= 0 {
		b := x.Bytes()
		if len(b) == 0 {
			return []byte{0}
		}
		if b[0]&0x80 != 0 {
			return append([]byte{0}, b...)
		}
		return b
	}
	m := new(big.Int).Neg(x)
	m.Sub(m, big.NewInt(1)) // -x-1 >= 0
	l := m.BitLen()/8 + 1   // smallest l with -2^(8l-1) <= x
	t := new(big.Int).Lsh(big.NewInt(1), uint(8*l))
	t.Add(t, x)
	out := make([]byte, l)
	t.FillBytes(out)
	return out
}

// lenForm: 0 minimal; 1 long form with one more octet than needed; 2 indefinite
func derLenBytes(n int, form int) []byte {
	switch form {
	case 2:
		return []byte{0x80}
	case 1:
		var d []byte
		for v := n; v > 0; v >>= 8 {
			d = append([]byte{byte(v)}, d...)
		}
		if n < 128 {
			if len(d) == 0 {
				d = []byte{0}
			}
			return append([]byte{0x80 | byte(len(d))}, d...)
		}
		d = append([]byte{0}, d...)
		return append([]byte{0x80 | byte(len(d))}, d...)
	}
	if n < 128 {
		return []byte{byte(n)}
	}
	var d []byte
	for v := n; v > 0; v >>= 8 {
		d = append([]byte{byte(v)}, d...)
	}
	return append([]byte{0x80 | byte(len(d))}, d...)
}

func tlv(tag byte, content []byte, form int) []byte {
	out := []byte{tag}
	out = append(out, derLenBytes(len(content), form)...)
	out = append(out, content...)
	if form == 2 {
		out = append(out, 0, 0)
	}
	return out
}

func derEncodeSig(r, s *big.Int) []byte {
	body := append(tlv(2, intContent(r), 0), tlv(2, intContent(s), 0)...)
	return tlv(0x30, body, 0)
}

func derReadLen(b []byte) (int, []byte, bool) {
	if len(b) == 0 {
		return 0, nil, false
	}
	l := b[0]
	b = b[1:]
	if l < 0x80 {
		return int(l), b, true
	}
	k := int(l & 0x7f)
	if k == 0 || k > 4 || len(b) < k || b[0] == 0 {
		return 0, nil, false
	}
	v := 0
	for i := 0; i < k; i++ {
		v = v<<8 | int(b[i])
	}
	if v < 128 {
		return 0, nil, false
	}
	return v, b[k:], true
}

func derReadTLV(tag byte, b []byte) (content, rest []byte, ok bool) {
	if len(b) == 0 || b[0] != tag {
		return nil, nil, false
	}
	n, r, ok := derReadLen(b[1:])
	if !ok || len(r) < n {
		return nil, nil, false
	}
	return r[:n], r[n:], true
}

func derReadInt(c []byte) (*big.Int, bool) {
	if len(c) == 0 {
		return nil, false
	}
	if len(c) > 1 && ((c[0] == 0 && c[1] < 0x80) || (c[0] == 0xff && c[1] >= 0x80)) {
		return nil, false
	}
	v := new(big.Int).SetBytes(c)
	if c[0] >= 0x80 {
		v.Sub(v, new(big.Int).Lsh(big.NewInt(1), uint(8*len(c))))
	}
	return v, true
}

// derParseSig: strict, signed integers (the accept set of ASN1Decode).
func derParseSig(b []byte) (r, s *big.Int, ok bool) {
	inner, rest, ok := derReadTLV(0x30, b)
	if !ok || len(rest) != 0 {
		return nil, nil, false
	}
	rc, rest, ok := derReadTLV(2, inner)
	if !ok {
		return nil, nil, false
	}
	sc, rest, ok := derReadTLV(2, rest)
	if !ok || len(rest) != 0 {
		return nil, nil, false
	}
	r, ok1 := derReadInt(rc)
	s, ok2 := derReadInt(sc)
	if !ok1 || !ok2 {
		return nil, nil, false
	}
	return r, s, true
}

// signed big integers in case lines: 'p' or 'm' followed by the hex of the big-endian magnitude ("p00" for zero)
func zstr(x *big.Int) string {
	sign := "p"
	if x.Sign() < 0 {
		sign = "m"
	}
	if x.Sign() == 0 {
		return "p00"
	}
	return sign + hex.EncodeToString(new(big.Int).Abs(x).Bytes())
}

func zparse(s string) *big.Int {
	v, ok := new(big.Int).SetString(s[1:], 16)
	if !ok {
		panic("bad integer " + s)
	}
	if s[0] == 'm' {
		v.Neg(v)
	}
	return v
}
