// Package c03 is the harness of property C03: classical signatures (ECDSA
// DER / IEEE P1363, Ed25519, RSA-SSA-PKCS1, RSA-SSA-PSS) verify iff genuinely
// produced by the private key.
//
// case lines ('|' separated, byte strings in hex, "-" = empty):
//
//	C03|V|api|scheme|params|variant|id|pub|sig|msg|label   -> accept | reject | noctor
//	C03|S|api|scheme|params|variant|id|priv|msg|tapeseed   -> pfx=<hex> len=<n|der> self=accept | noctor
//	C03|D|codec|bytes                                      -> ok:<r>:<s> | err      (codec: der, p1363, p1363.<curve>)
//	C03|E|codec|r|s                                        -> <hex> | err
//
// api: K per-key constructor, H keyset handle + signature.New{Signer,Verifier},
// S signature/subtle, I internal/signature (RSA).  params: ecdsa
// curve.hash.enc; pkcs1 hash.e; pss hash.e.saltlen.  variant T C L R.
// pub: uncompressed point / 32 bytes / modulus.  priv: scalar / seed / n.p.q.d.
// label: ok:* must be accepted, bad:* must be rejected, any:* decided by the
// independent strict verifier only.  r, s: p<hex> / m<hex> (sign, magnitude).
package c03

import (
	"bytes"
	"crypto"
	"crypto/ecdsa"
	"crypto/ed25519"
	"crypto/rsa"
	"fmt"
	"math/big"
	"strconv"
	"strings"

	internalecdsa "github.com/tink-crypto/tink-go/v2/internal/signature/ecdsa"
	sigsubtle "github.com/tink-crypto/tink-go/v2/signature/subtle"
	"github.com/tink-crypto/tink-go/v2/verifharness/hx"
	"github.com/tink-crypto/tink-go/v2/verifharness/p/c03/pssref"
)

// KnownPSS0 is the fixed marker of the salt-length-0 finding (known_findings.json matches on it).
const KnownPSS0 = "rsassapss saltlen=0 not bound"

func uh(s string) []byte { return hx.UH(s) }

func init() {
	hx.Register("C03", &hx.Prop{Gen: gen, Run: run, Check: check, Class: class})
}

func tapeOf(seed string) *hx.Tape { return &hx.Tape{Bulk: uh(seed)} }

func run(in string) string {
	f := strings.Split(in, "|")
	switch f[1] {
	case "V":
		return runV(f)
	case "S":
		return runS(f)
	case "D":
		return runD(f)
	case "E":
		return runE(f)
	}
	return "bad-case"
}

func runV(f []string) string {
	s := parseSpec(f[2:7])
	pub, sig, msg := uh(f[7]), uh(f[8]), uh(f[9])
	res := ""
	hx.WithTape(tapeOf("c0"), func() {
		v, err := buildVerifier(s, pub)
		if err != nil {
			res = "noctor"
			return
		}
		sigc, msgc := bytes.Clone(sig), bytes.Clone(msg)
		if v.Verify(sigc, msgc) == nil {
			res = "accept"
		} else {
			res = "reject"
		}
		if !bytes.Equal(sigc, sig) || !bytes.Equal(msgc, msg) {
			res += "!mut"
		}
	})
	return res
}

func signOnce(s spec, priv string, msg []byte, seed string) (sig, pub []byte, err error, ctor bool) {
	hx.WithTape(tapeOf(seed), func() {
		sg, p, e := buildSigner(s, priv)
		if e != nil {
			err = e
			return
		}
		ctor = true
		pub = p
		sig, err = sg.Sign(bytes.Clone(msg))
	})
	return
}

func runS(f []string) string {
	s := parseSpec(f[2:7])
	msg := uh(f[8])
	sig, pub, err, ctor := signOnce(s, f[7], msg, f[9])
	if !ctor {
		return "noctor"
	}
	if err != nil {
		return "signerr"
	}
	pfx := s.prefix()
	if !bytes.HasPrefix(sig, pfx) {
		return "pfx=BAD"
	}
	body := sig[len(pfx):]
	l := strconv.Itoa(len(body))
	if s.scheme == "ecdsa" && s.enc == "der" {
		r, ss, ok := derParseSig(body)
		if ok && r.Sign() > 0 && ss.Sign() > 0 {
			l = "der"
		} else {
			l = "der-bad"
		}
	}
	self := "reject"
	hx.WithTape(tapeOf("c0"), func() {
		v, err := buildVerifier(s, pub)
		if err != nil {
			self = "noctor"
		} else if v.Verify(sig, msg) == nil {
			self = "accept"
		}
	})
	return "pfx=" + hx.H(sig[:len(pfx)]) + " len=" + l + " self=" + self
}

func runD(f []string) string {
	b := uh(f[3])
	show := func(r, s *big.Int) string { return "ok:" + zstr(r) + ":" + zstr(s) }
	switch {
	case f[2] == "der":
		s1, err1 := internalecdsa.ASN1Decode(bytes.Clone(b))
		s2, err2 := sigsubtle.DecodeECDSASignature(bytes.Clone(b), "DER")
		if (err1 == nil) != (err2 == nil) {
			return "DISAGREE"
		}
		if err1 != nil {
			return "err"
		}
		if s1.R.Cmp(s2.R) != 0 || s1.S.Cmp(s2.S) != 0 {
			return "DISAGREE"
		}
		return show(s1.R, s1.S)
	case f[2] == "p1363":
		s1, err1 := internalecdsa.IEEEP1363Decode(bytes.Clone(b))
		s2, err2 := sigsubtle.DecodeECDSASignature(bytes.Clone(b), "IEEE_P1363")
		if (err1 == nil) != (err2 == nil) {
			return "DISAGREE"
		}
		if err1 != nil {
			return "err"
		}
		if s1.R.Cmp(s2.R) != 0 || s1.S.Cmp(s2.S) != 0 {
			return "DISAGREE"
		}
		return show(s1.R, s1.S)
	case strings.HasPrefix(f[2], "p1363."):
		c, _ := stdCurve(f[2][6:])
		s1, err := internalecdsa.IEEEP1363DecodeWithCurve(bytes.Clone(b), c.Params().Name)
		if err != nil {
			return "err"
		}
		return show(s1.R, s1.S)
	}
	return "bad-case"
}

func runE(f []string) string {
	r, s := zparse(f[3]), zparse(f[4])
	switch {
	case f[2] == "der":
		b1, err1 := internalecdsa.ASN1Encode(&internalecdsa.Signature{R: r, S: s})
		b2, err2 := sigsubtle.NewECDSASignature(r, s).EncodeECDSASignature("DER", "")
		if (err1 == nil) != (err2 == nil) || !bytes.Equal(b1, b2) {
			return "DISAGREE"
		}
		if err1 != nil {
			return "err"
		}
		return hx.H(b1)
	case strings.HasPrefix(f[2], "p1363."):
		c, _ := stdCurve(f[2][6:])
		b1, err1 := internalecdsa.IEEEP1363Encode(&internalecdsa.Signature{R: r, S: s}, c.Params().Name)
		b2, err2 := sigsubtle.NewECDSASignature(r, s).EncodeECDSASignature("IEEE_P1363", c.Params().Name)
		if (err1 == nil) != (err2 == nil) || !bytes.Equal(b1, b2) {
			return "DISAGREE"
		}
		if err1 != nil {
			return "err"
		}
		return hx.H(b1)
	}
	return "bad-case"
}

// ---------------------------------------------------------------------------
// The independent strict verifier (standard library + hand-written DER only).

func specCtor(s spec, pub []byte) bool {
	okHash := s.hash == "sha256" || s.hash == "sha384" || s.hash == "sha512"
	switch s.scheme {
	case "ecdsa":
		switch s.curve + "." + s.hash {
		case "p256.sha256", "p384.sha384", "p384.sha512", "p521.sha512":
			return true
		}
		return false
	case "ed25519":
		return len(pub) == 32
	case "pkcs1", "pss":
		return okHash && s.e == 65537 && new(big.Int).SetBytes(pub).BitLen() >= 2048
	}
	return false
}

func cryptoHash(name string) crypto.Hash {
	return map[string]crypto.Hash{"sha1": crypto.SHA1, "sha224": crypto.SHA224, "sha256": crypto.SHA256, "sha384": crypto.SHA384, "sha512": crypto.SHA512}[name]
}

func digestOf(name string, m []byte) []byte {
	h := stdHash(name)()
	h.Write(m)
	return h.Sum(nil)
}

func specVerify(s spec, pub, sig, msg []byte) string {
	if !specCtor(s, pub) {
		return "noctor"
	}
	pfx := s.prefix()
	if len(sig) < len(pfx) || !bytes.Equal(sig[:len(pfx)], pfx) {
		return "reject"
	}
	body := sig[len(pfx):]
	m := msg
	if s.variant == "L" {
		m = append(bytes.Clone(msg), 0)
	}
	ok := false
	switch s.scheme {
	case "ecdsa":
		c, _ := stdCurve(s.curve)
		n := (len(pub) - 1) / 2
		pk := &ecdsa.PublicKey{Curve: c, X: new(big.Int).SetBytes(pub[1 : 1+n]), Y: new(big.Int).SetBytes(pub[1+n:])}
		var r, ss *big.Int
		if s.enc == "der" {
			var pok bool
			r, ss, pok = derParseSig(body)
			if !pok || r.Sign() < 0 || ss.Sign() < 0 {
				return "reject"
			}
		} else {
			w := (c.Params().BitSize + 7) / 8
			if len(body) != 2*w {
				return "reject"
			}
			r, ss = new(big.Int).SetBytes(body[:w]), new(big.Int).SetBytes(body[w:])
		}
		ok = ecdsa.Verify(pk, digestOf(s.hash, m), r, ss)
	case "ed25519":
		ok = len(body) == 64 && ed25519.Verify(ed25519.PublicKey(pub), m, body)
	case "pkcs1":
		pk := &rsa.PublicKey{N: new(big.Int).SetBytes(pub), E: s.e}
		ok = rsa.VerifyPKCS1v15(pk, cryptoHash(s.hash), digestOf(s.hash, m), body) == nil
	case "pss":
		ok = pssref.Verify(new(big.Int).SetBytes(pub), s.e, stdHash(s.hash), s.salt, digestOf(s.hash, m), body)
		if s.salt > 0 {
			// for positive salt lengths the standard library is a second strict reference
			pk := &rsa.PublicKey{N: new(big.Int).SetBytes(pub), E: s.e}
			std := rsa.VerifyPSS(pk, cryptoHash(s.hash), digestOf(s.hash, m), body, &rsa.PSSOptions{SaltLength: s.salt}) == nil
			if std != ok {
				return "REFERENCES-DISAGREE"
			}
		}
	}
	if ok {
		return "accept"
	}
	return "reject"
}

// check is the direct property oracle: no model involved.
func check(in, obs string) string {
	f := strings.Split(in, "|")
	if strings.HasPrefix(obs, "PANIC") {
		return "panic: " + obs
	}
	if strings.Contains(obs, "!mut") {
		return "Verify modified its input buffers"
	}
	if obs == "DISAGREE" {
		return "internal/signature/ecdsa and signature/subtle codecs disagree"
	}
	switch f[1] {
	case "V":
		s := parseSpec(f[2:7])
		pub, sig, msg := uh(f[7]), uh(f[8]), uh(f[9])
		label := f[10]
		want := specVerify(s, pub, sig, msg)
		pss0 := ""
		if s.scheme == "pss" && s.salt == 0 {
			pss0 = KnownPSS0 + ": "
		}
		if obs != want {
			return fmt.Sprintf("%saccept set differs from the independent strict verifier: tink-go %s, reference %s (%s %s %s %s)", pss0, obs, want, s.scheme, s.params(), s.variant, label)
		}
		if strings.HasPrefix(label, "ok:") && obs != "accept" {
			return fmt.Sprintf("%sgenuine signature not accepted: %s (%s %s %s %s)", pss0, obs, s.scheme, s.params(), s.variant, label)
		}
		if strings.HasPrefix(label, "bad:") && obs == "accept" {
			return fmt.Sprintf("%smutant accepted (%s %s %s %s)", pss0, s.scheme, s.params(), s.variant, label)
		}
	case "S":
		return checkS(f, obs)
	case "D":
		b := uh(f[3])
		want := "err"
		switch {
		case f[2] == "der":
			if r, s, ok := derParseSig(b); ok {
				want = "ok:" + zstr(r) + ":" + zstr(s)
			}
		case f[2] == "p1363":
			if len(b) == 64 || len(b) == 96 || len(b) == 132 {
				want = "ok:" + zstr(new(big.Int).SetBytes(b[:len(b)/2])) + ":" + zstr(new(big.Int).SetBytes(b[len(b)/2:]))
			}
		default:
			c, _ := stdCurve(f[2][6:])
			w := (c.Params().BitSize + 7) / 8
			if len(b) == 2*w {
				want = "ok:" + zstr(new(big.Int).SetBytes(b[:w])) + ":" + zstr(new(big.Int).SetBytes(b[w:]))
			}
		}
		if obs != want {
			return "decoder differs from strict reference: got " + obs + " want " + want
		}
	case "E":
		r, s := zparse(f[3]), zparse(f[4])
		want := "err"
		if f[2] == "der" {
			want = hx.H(derEncodeSig(r, s))
		} else {
			c, _ := stdCurve(f[2][6:])
			w := (c.Params().BitSize + 7) / 8
			if r.Sign() >= 0 && s.Sign() >= 0 && r.BitLen() <= 8*w && s.BitLen() <= 8*w {
				out := make([]byte, 2*w)
				r.FillBytes(out[:w])
				s.FillBytes(out[w:])
				want = hx.H(out)
			}
		}
		if obs != want {
			return "encoder differs from strict reference: got " + obs + " want " + want
		}
	}
	return ""
}

// checkS: sign again with tink-go; the independent verifier must accept the
// signature (prefix stripped, 0x00 appended for LEGACY); deterministic schemes
// must equal the standard library's signature; bit flips must be rejected.
func checkS(f []string, obs string) string {
	s := parseSpec(f[2:7])
	msg := uh(f[8])
	sig, pub, err, ctor := signOnce(s, f[7], msg, f[9])
	if !ctor {
		// the signer constructors apply the same key rules as the verifiers
		if specCtorPriv(s, f[7]) {
			return "signer construction failed for a valid key: " + fmt.Sprint(err)
		}
		return ""
	}
	if !specCtorPriv(s, f[7]) {
		return "signer constructed for a key that violates the key rules"
	}
	if err != nil {
		return "Sign failed: " + err.Error()
	}
	pss0 := ""
	if s.scheme == "pss" && s.salt == 0 {
		pss0 = KnownPSS0 + ": "
	}
	if got := specVerify(s, pub, sig, msg); got != "accept" {
		return fmt.Sprintf("%sSign output not accepted by the independent strict verifier: %s (%s %s %s)", pss0, got, s.scheme, s.params(), s.variant)
	}
	if !strings.HasSuffix(obs, "self=accept") {
		return "own signature does not verify: " + obs
	}
	pfx := s.prefix()
	body := sig[len(pfx):]
	m := msg
	if s.variant == "L" {
		m = append(bytes.Clone(msg), 0)
	}
	switch s.scheme {
	case "ed25519":
		if !bytes.Equal(body, ed25519.Sign(ed25519.NewKeyFromSeed(uh(f[7])), m)) {
			return "Ed25519 signature differs from crypto/ed25519"
		}
	case "pkcs1":
		std, err := rsa.SignPKCS1v15(nil, parseRSAPriv(f[7]).std(s.e), cryptoHash(s.hash), digestOf(s.hash, m))
		if err != nil || !bytes.Equal(body, std) {
			return "PKCS1 signature differs from crypto/rsa"
		}
	}
	// mutants of the fresh signature
	var bad string
	hx.WithTape(tapeOf("c0"), func() {
		v, err := buildVerifier(s, pub)
		if err != nil {
			bad = "verifier construction failed"
			return
		}
		for _, pos := range []int{0, len(sig) / 2, len(sig) - 1} {
			mut := bytes.Clone(sig)
			mut[pos] ^= 0x04
			if v.Verify(mut, msg) == nil {
				bad = fmt.Sprintf("bit flip at %d accepted", pos)
			}
		}
		if v.Verify(sig, append(bytes.Clone(msg), 1)) == nil {
			bad = "extended message accepted"
		}
		if v.Verify(sig[:len(sig)-1], msg) == nil {
			bad = "truncated signature accepted"
		}
	})
	return bad
}

func specCtorPriv(s spec, priv string) bool {
	switch s.scheme {
	case "ecdsa":
		return specCtor(s, nil)
	case "ed25519":
		return len(uh(priv)) == 32
	}
	return specCtor(s, parseRSAPriv(priv).n.Bytes())
}

func class(in, obs string) string {
	f := strings.Split(in, "|")
	switch f[1] {
	case "V":
		label := f[10]
		if i := strings.IndexByte(label, '@'); i >= 0 {
			label = label[:i]
		}
		return "V/" + f[2] + "/" + f[3] + "/" + f[4] + "/" + f[5] + "/" + label + "/" + obs
	case "S":
		o := obs
		if i := strings.Index(o, " len="); i >= 0 {
			o = o[i+1:]
		}
		return "S/" + f[2] + "/" + f[3] + "/" + f[4] + "/" + f[5] + "/" + o
	case "D", "E":
		o := obs
		if len(o) > 3 {
			o = o[:3]
		}
		return f[1] + "/" + f[2] + "/" + strconv.Itoa(len(f[3])/2) + "/" + o
	}
	return ""
}
