// Package c01 holds the harness of property C01 (AEAD round trip in the
// standard wire format) and the pieces shared with C02: case-line key
// descriptions, the three construction routes for a tink.AEAD, and
// stdlib-only reference implementations of every wire format.
package c01

import (
	"bytes"
	"crypto/aes"
	"crypto/cipher"
	"crypto/hmac"
	"crypto/sha1"
	"crypto/sha256"
	"crypto/sha512"
	"encoding/binary"
	"fmt"
	"hash"
	"strconv"
	"strings"

	xcc "golang.org/x/crypto/chacha20poly1305"

	"github.com/tink-crypto/tink-go/v2/aead"
	"github.com/tink-crypto/tink-go/v2/aead/aesctrhmac"
	"github.com/tink-crypto/tink-go/v2/aead/aesgcm"
	"github.com/tink-crypto/tink-go/v2/aead/aesgcmsiv"
	"github.com/tink-crypto/tink-go/v2/aead/chacha20poly1305"
	aeadsubtle "github.com/tink-crypto/tink-go/v2/aead/subtle"
	"github.com/tink-crypto/tink-go/v2/aead/xaesgcm"
	"github.com/tink-crypto/tink-go/v2/aead/xchacha20poly1305"
	"github.com/tink-crypto/tink-go/v2/core/registry"
	"github.com/tink-crypto/tink-go/v2/insecurecleartextkeyset"
	"github.com/tink-crypto/tink-go/v2/insecuresecretdataaccess"
	"github.com/tink-crypto/tink-go/v2/internal/internalapi"
	"github.com/tink-crypto/tink-go/v2/key"
	"github.com/tink-crypto/tink-go/v2/keyset"
	macsubtle "github.com/tink-crypto/tink-go/v2/mac/subtle"
	"github.com/tink-crypto/tink-go/v2/secretdata"
	"github.com/tink-crypto/tink-go/v2/tink"
	"github.com/tink-crypto/tink-go/v2/verifharness/hx"
	"google.golang.org/protobuf/proto"

	ctrpb "github.com/tink-crypto/tink-go/v2/proto/aes_ctr_go_proto"
	etmpb "github.com/tink-crypto/tink-go/v2/proto/aes_ctr_hmac_aead_go_proto"
	gcmpb "github.com/tink-crypto/tink-go/v2/proto/aes_gcm_go_proto"
	sivpb "github.com/tink-crypto/tink-go/v2/proto/aes_gcm_siv_go_proto"
	ccpb "github.com/tink-crypto/tink-go/v2/proto/chacha20_poly1305_go_proto"
	commonpb "github.com/tink-crypto/tink-go/v2/proto/common_go_proto"
	hmacpb "github.com/tink-crypto/tink-go/v2/proto/hmac_go_proto"
	kmsepb "github.com/tink-crypto/tink-go/v2/proto/kms_envelope_go_proto"
	tinkpb "github.com/tink-crypto/tink-go/v2/proto/tink_go_proto"
	xaespb "github.com/tink-crypto/tink-go/v2/proto/x_aes_gcm_go_proto"
	xccpb "github.com/tink-crypto/tink-go/v2/proto/xchacha20_poly1305_go_proto"
)

// Spec is the key description carried by a case line:
//
//	<scheme>|<route>|<variant>|<id>|<params>|<key hex>
//
// scheme : gcm chacha xchacha siv etm xaes
// route  : H  cleartext proto keyset -> keyset.Handle -> aead.New
//
//	K  typed key object -> per-key-type constructor (aesgcm.NewAEAD,
//	   xaesgcm.NewAEAD) or keyset.Manager.AddKey -> aead.New
//	S  aead/subtle constructor (no prefix)
//
// variant: T (TINK) C (CRUNCHY) L (LEGACY, proto route only) R (RAW)
// params : etm: ivsize.tagsize.hash.aeskeylen (key = aes key || hmac key)
//
//	xaes: salt size;  others "-"
type Spec struct {
	Scheme, Route, Variant string
	ID                     uint32
	Params                 string
	Key                    []byte
	// etm
	IVSize, TagSize, AESLen int
	Hash                    string
	// xaes
	Salt int
	// env: Variant/ID/Key describe the key-encryption AEAD (KEK); DEK names the template
	DEK string
	// DEKEncoding (harness side only, never part of a case line): Independent frames the envelope around
	// this re-encoding of the serialised data key (see NonCanonical)
	DEKEncoding string
	KEK *Spec
	// pad (key-encryption AEAD of envelope cases only): Inner encrypts, the output is framed and
	// zero-filled to exactly PadN bytes; params = <n>~<inner scheme>~<inner route>~<inner params>,
	// variant/id/key are the inner key's
	PadN  int
	Inner *Spec
	// ks: a keyset of several keys; ID = primary key id; the key field of the line is
	// "scheme,route,variant,id,params,keyhex,status;..." (status E enabled / D disabled)
	Keys    []*Spec
	Enabled []bool
}

// DEKInfo describes a data-key template of the KMS envelope AEAD.
type DEKInfo struct {
	Scheme string
	KeyLen int  // key bytes newDEK draws
	Tag    byte // single-field key protos: proto tag of the key_value field in the serialised DEK
	Tmpl   func() *tinkpb.KeyTemplate
	// AES-CTR-HMAC data keys (name etm:<iv>.<tag>.<hash>.<aes key len>.<hmac key len>): key = AES key || HMAC key
	IVSize, TagSize, AESLen int
	Hash                    string
}

var DEKs = map[string]DEKInfo{
	"gcm16":   {Scheme: "gcm", KeyLen: 16, Tag: 0x1a, Tmpl: aead.AES128GCMKeyTemplate},
	"gcm32":   {Scheme: "gcm", KeyLen: 32, Tag: 0x1a, Tmpl: aead.AES256GCMKeyTemplate},
	"chacha":  {Scheme: "chacha", KeyLen: 32, Tag: 0x12, Tmpl: aead.ChaCha20Poly1305KeyTemplate},
	"xchacha": {Scheme: "xchacha", KeyLen: 32, Tag: 0x1a, Tmpl: aead.XChaCha20Poly1305KeyTemplate},
	"siv16":   {Scheme: "siv", KeyLen: 16, Tag: 0x1a, Tmpl: aead.AES128GCMSIVKeyTemplate},
	"siv32":   {Scheme: "siv", KeyLen: 32, Tag: 0x1a, Tmpl: aead.AES256GCMSIVKeyTemplate},
}

// The AES-CTR-HMAC data keys: the smallest legal IV and tag (data-key ciphertexts of 22 + |p| bytes, the
// shortest any supported data key produces), the two library templates, and an odd combination.
var DEKNames = []string{"gcm16", "gcm32", "chacha", "xchacha", "siv16", "siv32",
	"etm:12.10.sha256.16.16", "etm:16.16.sha256.16.32", "etm:16.32.sha256.32.32", "etm:13.11.sha1.32.20", "etm:12.12.sha512.16.64",
	"etm:14.48.sha384.32.48", "etm:15.28.sha224.16.28"}

// EtmDEKNames: the AES-CTR-HMAC data-key templates among DEKNames.
func EtmDEKNames() []string {
	var out []string
	for _, n := range DEKNames {
		if strings.HasPrefix(n, "etm:") {
			out = append(out, n)
		}
	}
	return out
}

// EnvOver is the envelope key description over the key-encryption key k and the data-key template dek.
func EnvOver(k *Spec, dek string) *Spec {
	return &Spec{Scheme: "env", Route: "E", Variant: k.Variant, ID: k.ID, Key: k.Key, DEK: dek, KEK: k,
		Params: dek + "~" + k.Scheme + "~" + k.Route + "~" + k.Params}
}

// NonCanonical re-encodes the serialised AES-CTR-HMAC data key ser (as Ser writes it) in another way
// protobuf unmarshals to the same message: how = ver0 (explicit version 0 in front), unk (an unknown field
// behind), swap (hmac_key before aes_ctr_key), longvar (the first length as a two-byte varint), split (the
// aes_ctr_key message in two occurrences, which protobuf merges).
func NonCanonical(ser []byte, how string) []byte {
	switch how {
	case "grouptag":
		// a skipped group (field 15) holding a field whose number 2^29 is above the message-level maximum
		// but legal inside a group (protowire.ConsumeTag: up to 2^31-1): unmarshals like the plain key
		return append([]byte{0x7b, 0x80, 0x80, 0x80, 0x80, 0x10, 0x00, 0x7c}, ser...)
	case "ver1":
		// NOT an encoding of the key: version 1 - registry.Primitive refuses it (kind baddek.ver1)
		return append([]byte{0x08, 0x01}, ser...)
	}
	if ser[0] != 0x12 || len(ser) == 2+int(ser[1]) {
		// a single-field key proto: tag len key (ChaCha20-Poly1305 has tag 0x12 too: it is one field long)
		switch how {
		case "ver0":
			return append([]byte{0x08, 0x00}, ser...)
		case "unk":
			return append(append([]byte{}, ser...), 0x28, 0x01)
		default: // longvar; swap / split do not apply: a version field given twice, last value 0
			if how == "longvar" {
				return append([]byte{ser[0], ser[1] | 0x80, 0x00}, ser[2:]...)
			}
			return append([]byte{0x08, 0x05, 0x08, 0x00}, ser...)
		}
	}
	l1 := int(ser[1])
	ctr, hm := ser[:2+l1], ser[2+l1:]
	switch how {
	case "ver0":
		return append([]byte{0x08, 0x00}, ser...)
	case "unk":
		return append(append([]byte{}, ser...), 0x28, 0x01)
	case "swap":
		return append(append([]byte{}, hm...), ctr...)
	case "longvar":
		return append(append([]byte{0x12, byte(l1) | 0x80, 0x00}, ctr[2:]...), hm...)
	case "split":
		// ctr = 12 L1 (12 02 08 iv) (1a la aes...)
		params, key := ctr[2:6], ctr[6:]
		out := append([]byte{0x12, byte(len(params))}, params...)
		out = append(append(out, 0x12, byte(len(key))), key...)
		return append(out, hm...)
	}
	panic("noncanonical " + how)
}

var NonCanonicalHows = []string{"ver0", "unk", "swap", "longvar", "split", "grouptag"}

// DEKOf resolves a data-key template name.
func DEKOf(name string) (DEKInfo, bool) {
	if d, ok := DEKs[name]; ok {
		return d, true
	}
	if !strings.HasPrefix(name, "etm:") {
		return DEKInfo{}, false
	}
	p := strings.Split(name[4:], ".")
	if len(p) != 5 {
		return DEKInfo{}, false
	}
	iv, e1 := strconv.Atoi(p[0])
	tg, e2 := strconv.Atoi(p[1])
	al, e3 := strconv.Atoi(p[3])
	hl, e4 := strconv.Atoi(p[4])
	if e1 != nil || e2 != nil || e3 != nil || e4 != nil || hashByName(p[2]) == nil || hl > 100 {
		return DEKInfo{}, false
	}
	d := DEKInfo{Scheme: "etm", KeyLen: al + hl, IVSize: iv, TagSize: tg, AESLen: al, Hash: p[2]}
	d.Tmpl = func() *tinkpb.KeyTemplate {
		f := &etmpb.AesCtrHmacAeadKeyFormat{
			AesCtrKeyFormat: &ctrpb.AesCtrKeyFormat{Params: &ctrpb.AesCtrParams{IvSize: uint32(iv)}, KeySize: uint32(al)},
			HmacKeyFormat:   &hmacpb.HmacKeyFormat{Params: &hmacpb.HmacParams{Hash: protoHash(p[2]), TagSize: uint32(tg)}, KeySize: uint32(hl)},
		}
		v, err := proto.MarshalOptions{Deterministic: true}.Marshal(f)
		if err != nil {
			panic(err)
		}
		return &tinkpb.KeyTemplate{TypeUrl: "type.googleapis.com/google.crypto.tink.AesCtrHmacAeadKey", Value: v, OutputPrefixType: tinkpb.OutputPrefixType_TINK}
	}
	return d, true
}

// Ser is the serialised data key newDEK returns for the key bytes dk, written out by hand (every length
// fits one byte): the single-field protos tag len key; AesCtrHmacAeadKey = 12 L1 (12 02 08 iv  1a la aes)
// 1a L2 (12 04 08 hash 10 tag  1a lh hmac), zero-valued versions omitted.
func (d DEKInfo) Ser(dk []byte) []byte {
	if d.Scheme != "etm" {
		return append([]byte{d.Tag, byte(d.KeyLen)}, dk...)
	}
	ak, hk := dk[:d.AESLen], dk[d.AESLen:]
	ctr := append([]byte{0x12, 2, 0x08, byte(d.IVSize), 0x1a, byte(len(ak))}, ak...)
	hm := append([]byte{0x12, 4, 0x08, byte(protoHash(d.Hash)), 0x10, byte(d.TagSize), 0x1a, byte(len(hk))}, hk...)
	out := append([]byte{0x12, byte(len(ctr))}, ctr...)
	return append(append(out, 0x1a, byte(len(hm))), hm...)
}

// DEKSpec is the (RAW) key description of a data key with the given key bytes.
func (s *Spec) DEKSpec(key []byte) *Spec {
	d, _ := DEKOf(s.DEK)
	if d.Scheme == "etm" {
		return &Spec{Scheme: "etm", Route: "H", Variant: "R", Key: key, IVSize: d.IVSize, TagSize: d.TagSize, AESLen: d.AESLen, Hash: d.Hash,
			Params: fmt.Sprintf("%d.%d.%s.%d", d.IVSize, d.TagSize, d.Hash, d.AESLen)}
	}
	return &Spec{Scheme: d.Scheme, Route: "H", Variant: "R", Params: "-", Key: key}
}

func ParseSpec(f []string) (*Spec, error) {
	if len(f) < 6 {
		return nil, fmt.Errorf("short spec")
	}
	id, err := strconv.ParseUint(f[3], 10, 32)
	if err != nil {
		return nil, err
	}
	if f[0] == "ks" {
		s := &Spec{Scheme: "ks", Route: f[1], Variant: f[2], ID: uint32(id), Params: f[4]}
		for _, e := range strings.Split(f[5], ";") {
			g := strings.Split(e, ",")
			if len(g) != 7 {
				return nil, fmt.Errorf("ks entry")
			}
			k, err := ParseSpec(g[:6])
			if err != nil {
				return nil, err
			}
			s.Keys = append(s.Keys, k)
			s.Enabled = append(s.Enabled, g[6] == "E")
		}
		return s, nil
	}
	s := &Spec{Scheme: f[0], Route: f[1], Variant: f[2], ID: uint32(id), Params: f[4], Key: hx.UH(f[5])}
	switch s.Scheme {
	case "pv":
	case "etm":
		p := strings.Split(s.Params, ".")
		if len(p) != 4 {
			return nil, fmt.Errorf("etm params")
		}
		s.IVSize, _ = strconv.Atoi(p[0])
		s.TagSize, _ = strconv.Atoi(p[1])
		s.Hash = p[2]
		s.AESLen, _ = strconv.Atoi(p[3])
	case "xaes":
		s.Salt, _ = strconv.Atoi(s.Params)
	case "pad":
		p := strings.SplitN(s.Params, "~", 4)
		if len(p) != 4 {
			return nil, fmt.Errorf("pad params")
		}
		n, err := strconv.Atoi(p[0])
		if err != nil || n < 2 || n > 65535 {
			return nil, fmt.Errorf("pad size")
		}
		in, err := ParseSpec([]string{p[1], p[2], f[2], f[3], p[3], f[5]})
		if err != nil {
			return nil, err
		}
		s.PadN, s.Inner = n, in
	case "env":
		p := strings.SplitN(s.Params, "~", 4)
		if len(p) != 4 {
			return nil, fmt.Errorf("env params")
		}
		if _, ok := DEKOf(p[0]); !ok {
			return nil, fmt.Errorf("dek")
		}
		s.DEK = p[0]
		k, err := ParseSpec([]string{p[1], p[2], f[2], f[3], p[3], f[5]})
		if err != nil {
			return nil, err
		}
		s.KEK = k
	}
	return s, nil
}

func (s *Spec) String() string {
	if s.Scheme == "ks" {
		var es []string
		for i, k := range s.Keys {
			st := "D"
			if s.Enabled[i] {
				st = "E"
			}
			es = append(es, strings.ReplaceAll(k.String(), "|", ",")+","+st)
		}
		return fmt.Sprintf("ks|%s|%s|%d|%s|%s", s.Route, s.Variant, s.ID, s.Params, strings.Join(es, ";"))
	}
	return fmt.Sprintf("%s|%s|%s|%d|%s|%s", s.Scheme, s.Route, s.Variant, s.ID, s.Params, hx.H(s.Key))
}

// Prefix is the output prefix, computed here from the documented format
// (not through tink-go).
func (s *Spec) Prefix() []byte {
	if s.Scheme == "pad" {
		return nil
	}
	switch s.Variant {
	case "T":
		return binary.BigEndian.AppendUint32([]byte{1}, s.ID)
	case "C", "L":
		return binary.BigEndian.AppendUint32([]byte{0}, s.ID)
	}
	return nil
}

// IVLen is the number of random bytes one Encrypt call draws.
func (s *Spec) IVLen() int {
	switch s.Scheme {
	case "gcm", "chacha", "siv":
		return 12
	case "xchacha":
		return 24
	case "etm":
		return s.IVSize
	case "xaes":
		return s.Salt + 12
	case "pad":
		return s.Inner.IVLen()
	case "env":
		d, _ := DEKOf(s.DEK)
		return d.KeyLen + s.KEK.IVLen() + s.DEKSpec(nil).IVLen()
	}
	return 0
}

// TagLen is the number of bytes after the raw ciphertext.
func (s *Spec) TagLen() int {
	if s.Scheme == "etm" {
		return s.TagSize
	}
	return 16
}

func hashByName(n string) func() hash.Hash {
	switch n {
	case "sha1":
		return sha1.New
	case "sha224":
		return sha256.New224
	case "sha256":
		return sha256.New
	case "sha384":
		return sha512.New384
	case "sha512":
		return sha512.New
	}
	return nil
}

func HashLen(n string) int {
	if h := hashByName(n); h != nil {
		return h().Size()
	}
	return 0
}

var tok = insecuresecretdataaccess.Token{}

func sd(b []byte) secretdata.Bytes { return secretdata.NewBytesFromData(b, tok) }

func (s *Spec) protoPrefix() tinkpb.OutputPrefixType {
	switch s.Variant {
	case "T":
		return tinkpb.OutputPrefixType_TINK
	case "C":
		return tinkpb.OutputPrefixType_CRUNCHY
	case "L":
		return tinkpb.OutputPrefixType_LEGACY
	}
	return tinkpb.OutputPrefixType_RAW
}

func protoHash(n string) commonpb.HashType {
	switch n {
	case "sha1":
		return commonpb.HashType_SHA1
	case "sha224":
		return commonpb.HashType_SHA224
	case "sha256":
		return commonpb.HashType_SHA256
	case "sha384":
		return commonpb.HashType_SHA384
	case "sha512":
		return commonpb.HashType_SHA512
	}
	return commonpb.HashType_UNKNOWN_HASH
}

// KeyData serialises the key as the proto of its key type.
func (s *Spec) KeyData() (*tinkpb.KeyData, error) {
	var url string
	var m proto.Message
	switch s.Scheme {
	case "gcm":
		url, m = "type.googleapis.com/google.crypto.tink.AesGcmKey", &gcmpb.AesGcmKey{KeyValue: s.Key}
	case "siv":
		url, m = "type.googleapis.com/google.crypto.tink.AesGcmSivKey", &sivpb.AesGcmSivKey{KeyValue: s.Key}
	case "chacha":
		url, m = "type.googleapis.com/google.crypto.tink.ChaCha20Poly1305Key", &ccpb.ChaCha20Poly1305Key{KeyValue: s.Key}
	case "xchacha":
		url, m = "type.googleapis.com/google.crypto.tink.XChaCha20Poly1305Key", &xccpb.XChaCha20Poly1305Key{KeyValue: s.Key}
	case "xaes":
		url, m = "type.googleapis.com/google.crypto.tink.XAesGcmKey", &xaespb.XAesGcmKey{Params: &xaespb.XAesGcmParams{SaltSize: uint32(s.Salt)}, KeyValue: s.Key}
	case "etm":
		url, m = "type.googleapis.com/google.crypto.tink.AesCtrHmacAeadKey", &etmpb.AesCtrHmacAeadKey{
			AesCtrKey: &ctrpb.AesCtrKey{Params: &ctrpb.AesCtrParams{IvSize: uint32(s.IVSize)}, KeyValue: s.Key[:s.AESLen]},
			HmacKey:   &hmacpb.HmacKey{Params: &hmacpb.HmacParams{Hash: protoHash(s.Hash), TagSize: uint32(s.TagSize)}, KeyValue: s.Key[s.AESLen:]},
		}
	case "env":
		// a KmsEnvelopeAeadKey of the keyset: a key type that has only a key manager (its primitive is
		// wrapped by aead_factory's fullAEADPrimitiveAdapter); the key-encryption AEAD is served by the
		// harness KMS client below, the URI carries its key description
		url, m = "type.googleapis.com/google.crypto.tink.KmsEnvelopeAeadKey", &kmsepb.KmsEnvelopeAeadKey{
			Params: &kmsepb.KmsEnvelopeAeadKeyFormat{KekUri: kmsURIPrefix + hx.H([]byte(s.KEK.String())), DekTemplate: dekTmpl(s.DEK)}}
		v, err := proto.Marshal(m)
		if err != nil {
			return nil, err
		}
		return &tinkpb.KeyData{TypeUrl: url, Value: v, KeyMaterialType: tinkpb.KeyData_REMOTE}, nil
	default:
		return nil, fmt.Errorf("scheme %s", s.Scheme)
	}
	v, err := proto.Marshal(m)
	if err != nil {
		return nil, err
	}
	return &tinkpb.KeyData{TypeUrl: url, Value: v, KeyMaterialType: tinkpb.KeyData_SYMMETRIC}, nil
}

// verifKMS is the harness "remote KMS": the key URI is verif-kms://<hex of a key description>,
// GetAEAD builds that AEAD (any plain scheme or "pad").
const kmsURIPrefix = "verif-kms://"

type verifKMS struct{}

func (verifKMS) Supported(uri string) bool { return strings.HasPrefix(uri, kmsURIPrefix) }

func (verifKMS) GetAEAD(uri string) (tink.AEAD, error) {
	if !strings.HasPrefix(uri, kmsURIPrefix) {
		return nil, fmt.Errorf("uri")
	}
	k, err := ParseSpec(strings.Split(string(hx.UH(uri[len(kmsURIPrefix):])), "|"))
	if err != nil {
		return nil, err
	}
	return k.Build()
}

func init() { registry.RegisterKMSClient(verifKMS{}) }

// ProtoKey is the keyset entry of the key.
func (s *Spec) ProtoKey(status tinkpb.KeyStatusType) (*tinkpb.Keyset_Key, error) {
	kd, err := s.KeyData()
	if err != nil {
		return nil, err
	}
	return &tinkpb.Keyset_Key{KeyData: kd, Status: status, KeyId: s.ID, OutputPrefixType: s.protoPrefix()}, nil
}

// HandleOf builds a keyset handle from explicit proto keys.
func HandleOf(primary uint32, keys ...*tinkpb.Keyset_Key) (*keyset.Handle, error) {
	ks := &tinkpb.Keyset{PrimaryKeyId: primary, Key: keys}
	return insecurecleartextkeyset.Read(&keyset.MemReaderWriter{Keyset: ks})
}

// TypedKey builds the key object of the new (typed) key API.
func (s *Spec) TypedKey() (key.Key, error) {
	id := s.ID
	if s.Variant == "R" {
		id = 0
	}
	switch s.Scheme {
	case "gcm":
		v := map[string]aesgcm.Variant{"T": aesgcm.VariantTink, "C": aesgcm.VariantCrunchy, "L": aesgcm.VariantCrunchy, "R": aesgcm.VariantNoPrefix}[s.Variant]
		p, err := aesgcm.NewParameters(aesgcm.ParametersOpts{KeySizeInBytes: len(s.Key), IVSizeInBytes: 12, TagSizeInBytes: 16, Variant: v})
		if err != nil {
			return nil, err
		}
		return aesgcm.NewKey(sd(s.Key), id, p)
	case "siv":
		v := map[string]aesgcmsiv.Variant{"T": aesgcmsiv.VariantTink, "C": aesgcmsiv.VariantCrunchy, "L": aesgcmsiv.VariantCrunchy, "R": aesgcmsiv.VariantNoPrefix}[s.Variant]
		p, err := aesgcmsiv.NewParameters(len(s.Key), v)
		if err != nil {
			return nil, err
		}
		return aesgcmsiv.NewKey(sd(s.Key), id, p)
	case "chacha":
		v := map[string]chacha20poly1305.Variant{"T": chacha20poly1305.VariantTink, "C": chacha20poly1305.VariantCrunchy, "L": chacha20poly1305.VariantCrunchy, "R": chacha20poly1305.VariantNoPrefix}[s.Variant]
		p, err := chacha20poly1305.NewParameters(v)
		if err != nil {
			return nil, err
		}
		return chacha20poly1305.NewKey(sd(s.Key), id, p)
	case "xchacha":
		v := map[string]xchacha20poly1305.Variant{"T": xchacha20poly1305.VariantTink, "C": xchacha20poly1305.VariantCrunchy, "L": xchacha20poly1305.VariantCrunchy, "R": xchacha20poly1305.VariantNoPrefix}[s.Variant]
		p, err := xchacha20poly1305.NewParameters(v)
		if err != nil {
			return nil, err
		}
		return xchacha20poly1305.NewKey(sd(s.Key), id, p)
	case "xaes":
		v := map[string]xaesgcm.Variant{"T": xaesgcm.VariantTink, "R": xaesgcm.VariantNoPrefix}[s.Variant]
		p, err := xaesgcm.NewParameters(v, s.Salt)
		if err != nil {
			return nil, err
		}
		return xaesgcm.NewKey(sd(s.Key), id, p)
	case "etm":
		v := map[string]aesctrhmac.Variant{"T": aesctrhmac.VariantTink, "C": aesctrhmac.VariantCrunchy, "L": aesctrhmac.VariantCrunchy, "R": aesctrhmac.VariantNoPrefix}[s.Variant]
		ht := map[string]aesctrhmac.HashType{"sha1": aesctrhmac.SHA1, "sha224": aesctrhmac.SHA224, "sha256": aesctrhmac.SHA256, "sha384": aesctrhmac.SHA384, "sha512": aesctrhmac.SHA512}[s.Hash]
		p, err := aesctrhmac.NewParameters(aesctrhmac.ParametersOpts{AESKeySizeInBytes: s.AESLen, HMACKeySizeInBytes: len(s.Key) - s.AESLen,
			IVSizeInBytes: s.IVSize, TagSizeInBytes: s.TagSize, HashType: ht, Variant: v})
		if err != nil {
			return nil, err
		}
		return aesctrhmac.NewKey(aesctrhmac.KeyOpts{AESKeyBytes: sd(s.Key[:s.AESLen]), HMACKeyBytes: sd(s.Key[s.AESLen:]), IDRequirement: id, Parameters: p})
	}
	return nil, fmt.Errorf("scheme %s", s.Scheme)
}

// Build constructs the tink.AEAD through the route the spec names.
func (s *Spec) Build() (tink.AEAD, error) {
	if s.Scheme == "pad" {
		in, err := s.Inner.Build()
		if err != nil {
			return nil, err
		}
		return &padAEAD{inner: in, n: s.PadN}, nil
	}
	if s.Scheme == "env" {
		kek, err := s.KEK.Build()
		if err != nil {
			return nil, err
		}
		return aead.NewKMSEnvelopeAEAD2(dekTmpl(s.DEK), kek), nil
	}
	if s.Scheme == "ks" {
		var keys []*tinkpb.Keyset_Key
		for i, k := range s.Keys {
			st := tinkpb.KeyStatusType_DISABLED
			if s.Enabled[i] {
				st = tinkpb.KeyStatusType_ENABLED
			}
			pk, err := k.ProtoKey(st)
			if err != nil {
				return nil, err
			}
			keys = append(keys, pk)
		}
		h, err := HandleOf(s.ID, keys...)
		if err != nil {
			return nil, err
		}
		return aead.New(h)
	}
	switch s.Route {
	case "H":
		k, err := s.ProtoKey(tinkpb.KeyStatusType_ENABLED)
		if err != nil {
			return nil, err
		}
		h, err := HandleOf(s.ID, k)
		if err != nil {
			return nil, err
		}
		return aead.New(h)
	case "K":
		k, err := s.TypedKey()
		if err != nil {
			return nil, err
		}
		switch kk := k.(type) {
		case *aesgcm.Key:
			return aesgcm.NewAEAD(kk)
		case *xaesgcm.Key:
			return xaesgcm.NewAEAD(kk, internalapi.Token{})
		}
		m := keyset.NewManager()
		id, err := m.AddKey(k)
		if err != nil {
			return nil, err
		}
		if err := m.SetPrimary(id); err != nil {
			return nil, err
		}
		h, err := m.Handle()
		if err != nil {
			return nil, err
		}
		return aead.New(h)
	case "S":
		if s.Variant != "R" {
			return nil, fmt.Errorf("subtle has no prefix")
		}
		// the constructors get a private copy of the key, overwritten after construction
		kb := bytes.Clone(s.Key)
		defer hx.Scribble(kb)
		switch s.Scheme {
		case "gcm":
			return aeadsubtle.NewAESGCM(kb)
		case "siv":
			return aeadsubtle.NewAESGCMSIV(kb)
		case "chacha":
			return aeadsubtle.NewChaCha20Poly1305(kb)
		case "xchacha":
			return aeadsubtle.NewXChaCha20Poly1305(kb)
		case "etm":
			ctr, err := aeadsubtle.NewAESCTR(kb[:s.AESLen], s.IVSize)
			if err != nil {
				return nil, err
			}
			mac, err := macsubtle.NewHMAC(strings.ToUpper(s.Hash), kb[s.AESLen:], uint32(s.TagSize))
			if err != nil {
				return nil, err
			}
			return aeadsubtle.NewEncryptThenAuthenticate(ctr, mac, s.TagSize)
		}
	}
	return nil, fmt.Errorf("route %s/%s", s.Route, s.Scheme)
}

// padAEAD is a harness-side key-encryption AEAD (the "remote KMS" of an envelope case) whose
// ciphertexts have a chosen size: be16(len(ic)) || ic || zeros up to exactly n bytes, where ic is
// the inner AEAD's ciphertext.  Decrypt accepts exactly such strings of n bytes (any other
// length, a length field pointing outside, a non-zero filler byte: error) and hands ic to the
// inner AEAD.  It is an AEAD in the sense the envelope theorems need (round trip, accepts only
// its own encryptions); the model driver has the same few lines (ocaml/c01.ml, scheme "pad").
type padAEAD struct {
	inner tink.AEAD
	n     int
}

func padFrame(ic []byte, n int) ([]byte, error) {
	if 2+len(ic) > n || len(ic) > 65535 {
		return nil, fmt.Errorf("pad: inner ciphertext of %d bytes does not fit %d", len(ic), n)
	}
	out := make([]byte, n)
	binary.BigEndian.PutUint16(out, uint16(len(ic)))
	copy(out[2:], ic)
	return out, nil
}

func (a *padAEAD) Encrypt(pt, ad []byte) ([]byte, error) {
	ic, err := a.inner.Encrypt(pt, ad)
	if err != nil {
		return nil, err
	}
	return padFrame(ic, a.n)
}

func (a *padAEAD) Decrypt(c, ad []byte) ([]byte, error) {
	if len(c) != a.n || len(c) < 2 {
		return nil, fmt.Errorf("pad: size")
	}
	l := int(binary.BigEndian.Uint16(c))
	if 2+l > len(c) {
		return nil, fmt.Errorf("pad: length field")
	}
	for _, b := range c[2+l:] {
		if b != 0 {
			return nil, fmt.Errorf("pad: filler")
		}
	}
	return a.inner.Decrypt(c[2:2+l], ad)
}

// CtLen is the ciphertext length of a plain (non-envelope) spec for a plaintext of n bytes.
func (s *Spec) CtLen(n int) int {
	if s.Scheme == "pad" {
		return s.PadN
	}
	return len(s.Prefix()) + s.IVLen() + n + s.TagLen()
}

// PadKEK wraps the key-encryption spec k of an envelope over the data-key template dek so that
// the encrypted DEK has exactly n bytes; PadMin is the least n that fits.
func PadMin(k *Spec, dek string) int {
	d, _ := DEKOf(dek)
	return 2 + k.CtLen(len(d.Ser(make([]byte, d.KeyLen))))
}

func dekTmpl(name string) *tinkpb.KeyTemplate {
	d, _ := DEKOf(name)
	return d.Tmpl()
}

func PadEnv(k *Spec, dek string, n int) *Spec {
	pk := &Spec{Scheme: "pad", Route: "P", Variant: k.Variant, ID: k.ID, Key: k.Key, PadN: n, Inner: k,
		Params: fmt.Sprintf("%d~%s~%s~%s", n, k.Scheme, k.Route, k.Params)}
	return &Spec{Scheme: "env", Route: "E", Variant: k.Variant, ID: k.ID, Key: k.Key, DEK: dek, KEK: pk,
		Params: dek + "~pad~P~" + pk.Params}
}

// ---- stdlib-only reference implementations of the wire formats ----

func stdGCM(k []byte) cipher.AEAD {
	b, err := aes.NewCipher(k)
	if err != nil {
		panic(err)
	}
	g, err := cipher.NewGCM(b)
	if err != nil {
		panic(err)
	}
	return g
}

// cmacOneBlock is AES-CMAC (RFC 4493) of exactly one full block.
func cmacOneBlock(k, m []byte) []byte {
	b, _ := aes.NewCipher(k)
	l := make([]byte, 16)
	b.Encrypt(l, l)
	k1 := make([]byte, 16)
	carry := byte(0)
	for i := 15; i >= 0; i-- {
		k1[i] = l[i]<<1 | carry
		carry = l[i] >> 7
	}
	if carry == 1 {
		k1[15] ^= 0x87
	}
	x := make([]byte, 16)
	for i := range x {
		x[i] = m[i] ^ k1[i]
	}
	b.Encrypt(x, x)
	return x
}

// Independent computes prefix || iv || ciphertext || tag with the standard
// library only (AES-GCM-SIV: the naive RFC 8452 transcription of sivref.go over
// stdlib AES).  ok=false: no reference (wrong IV length).
func (s *Spec) Independent(iv, pt, ad []byte) (ct []byte, ok bool) {
	if len(iv) != s.IVLen() {
		return nil, false
	}
	if s.Scheme == "pad" {
		ic, ok := s.Inner.Independent(iv, pt, ad)
		if !ok {
			return nil, false
		}
		out, err := padFrame(ic, s.PadN)
		return out, err == nil
	}
	if s.Scheme == "env" {
		d, _ := DEKOf(s.DEK)
		dk, kiv, div := iv[:d.KeyLen], iv[d.KeyLen:d.KeyLen+s.KEK.IVLen()], iv[d.KeyLen+s.KEK.IVLen():]
		dekProto := d.Ser(dk)
		if s.DEKEncoding != "" {
			dekProto = NonCanonical(dekProto, s.DEKEncoding)
		}
		enc, ok1 := s.KEK.Independent(kiv, dekProto, nil)
		payload, ok2 := s.DEKSpec(dk).Independent(div, pt, ad)
		if !ok1 || !ok2 {
			return nil, false
		}
		out := binary.BigEndian.AppendUint32(nil, uint32(len(enc)))
		return append(append(out, enc...), payload...), true
	}
	out := append(append([]byte{}, s.Prefix()...), iv...)
	switch s.Scheme {
	case "gcm":
		return stdGCM(s.Key).Seal(out, iv, pt, ad), true
	case "siv":
		return append(append([]byte{}, s.Prefix()...), SIVRef(s.Key, iv, pt, ad)...), true
	case "chacha":
		a, _ := xcc.New(s.Key)
		return a.Seal(out, iv, pt, ad), true
	case "xchacha":
		a, _ := xcc.NewX(s.Key)
		return a.Seal(out, iv, pt, ad), true
	case "xaes":
		salt, n := iv[:s.Salt], iv[s.Salt:]
		m1 := make([]byte, 16)
		copy(m1, []byte{0, 1, 'X', 0})
		copy(m1[4:], salt)
		m2 := append([]byte{}, m1...)
		m2[1] = 2
		dk := append(cmacOneBlock(s.Key, m1), cmacOneBlock(s.Key, m2)...)
		return stdGCM(dk).Seal(out, n, pt, ad), true
	case "etm":
		b, _ := aes.NewCipher(s.Key[:s.AESLen])
		iv16 := make([]byte, 16)
		copy(iv16, iv)
		body := make([]byte, len(pt))
		cipher.NewCTR(b, iv16).XORKeyStream(body, pt)
		m := hmac.New(hashByName(s.Hash), s.Key[s.AESLen:])
		m.Write(ad)
		m.Write(iv)
		m.Write(body)
		m.Write(binary.BigEndian.AppendUint64(nil, uint64(len(ad))*8))
		out = append(out, body...)
		return append(out, m.Sum(nil)[:s.TagSize]...), true
	}
	return nil, false
}

// ---- generation helpers shared by C01 and C02 ----

var lens = []int{0, 1, 2, 15, 16, 17, 31, 32, 33, 47, 48, 49, 63, 64, 65, 127, 128, 129, 255, 256, 257}

// PickLen favours block boundaries.
func PickLen(r *hx.Rng, max int) int {
	switch {
	case r.Chance(70):
		for {
			if l := hx.PickS(r, lens); l <= max {
				return l
			}
		}
	case r.Chance(50):
		return r.Intn(80)
	}
	return r.Intn(max + 1)
}

func LenClass(n int) string {
	switch {
	case n == 0:
		return "0"
	case n < 16:
		return "<16"
	case n%16 == 0:
		return "16k"
	case n%16 == 1:
		return "16k+1"
	case n%16 == 15:
		return "16k-1"
	}
	return "other"
}

var hashes = []string{"sha1", "sha224", "sha256", "sha384", "sha512"}

// Schemes enabled in the generator.
var Schemes = []string{"gcm", "chacha", "xchacha", "etm", "siv", "xaes"}

// RandSpec draws a valid key description (envelope with probability envPct %).
func RandSpec(r *hx.Rng) *Spec {
	if EnvPct > 0 && r.Chance(EnvPct) {
		k := randPlain(r)
		dek := hx.PickS(r, DEKNames)
		if r.Chance(25) {
			// a key-encryption AEAD whose ciphertext has a chosen size up to the documented maximum
			m := PadMin(k, dek)
			return PadEnv(k, dek, hx.PickS(r, []int{m, m + 1, m + r.Intn(200), 255, 256, 257, 4095, 4096}))
		}
		e := &Spec{Scheme: "env", Route: "E", Variant: k.Variant, ID: k.ID, Key: k.Key, DEK: dek, KEK: k,
			Params: dek + "~" + k.Scheme + "~" + k.Route + "~" + k.Params}
		return e
	}
	return randPlain(r)
}

// RandKeyset draws a keyset of 2..5 keys with distinct ids, mixed schemes and variants,
// some disabled; the primary is an enabled key.
func RandKeyset(r *hx.Rng) *Spec {
	n := 2 + r.Intn(4)
	s := &Spec{Scheme: "ks", Route: "H", Variant: "R", Params: "-"}
	used := map[uint32]bool{}
	for i := 0; i < n; i++ {
		k := randPlain(r)
		k.Route = "H"
		if k.Scheme == "xaes" {
			k.Variant = hx.PickS(r, []string{"T", "R"})
		} else {
			k.Variant = hx.PickS(r, []string{"T", "C", "L", "R", "R"})
		}
		for used[k.ID] || k.ID == 0 {
			k.ID = uint32(r.U64())
		}
		if i > 0 && r.Chance(30) {
			// ids that differ only in one byte / share the low bytes with another key
			k.ID = s.Keys[0].ID ^ (1 << uint(8*r.Intn(4)))
			for used[k.ID] || k.ID == 0 {
				k.ID++
			}
		}
		used[k.ID] = true
		s.Keys = append(s.Keys, k)
		s.Enabled = append(s.Enabled, i == 0 || !r.Chance(25))
	}
	// primary: an enabled key
	for {
		i := r.Intn(n)
		if s.Enabled[i] {
			s.ID = s.Keys[i].ID
			break
		}
	}
	return s
}

// EnvPct is the share of KMS-envelope cases.
var EnvPct = 12

func randPlain(r *hx.Rng) *Spec {
	s := &Spec{Scheme: hx.PickS(r, Schemes), Params: "-"}
	s.Route = hx.PickS(r, []string{"H", "H", "K", "K", "S"})
	if s.Scheme == "xaes" && s.Route == "S" {
		s.Route = "K"
	}
	switch s.Route {
	case "H":
		s.Variant = hx.PickS(r, []string{"T", "C", "L", "R"})
	case "K":
		s.Variant = hx.PickS(r, []string{"T", "C", "R"})
	default:
		s.Variant = "R"
	}
	if s.Scheme == "xaes" && s.Variant != "R" {
		s.Variant = "T"
	}
	switch r.Intn(6) {
	case 0:
		s.ID = hx.PickS(r, []uint32{0, 1, 0xff, 0x100, 0xffff, 0x10000, 0x7fffffff, 0x80000000, 0xffffffff, 0x01020304})
	default:
		s.ID = uint32(r.U64())
	}
	if s.ID == 0 && s.Route == "H" {
		s.ID = 1 + uint32(r.Intn(1000)) // key id 0 is fine for Tink but keep the proto keyset unambiguous
	}
	switch s.Scheme {
	case "gcm", "siv":
		s.Key = r.Bytes(hx.PickS(r, []int{16, 32}))
	case "chacha", "xchacha":
		s.Key = r.Bytes(32)
	case "xaes":
		s.Key = r.Bytes(32)
		s.Salt = 8 + r.Intn(5)
		s.Params = strconv.Itoa(s.Salt)
	case "etm":
		s.AESLen = hx.PickS(r, []int{16, 32})
		s.IVSize = 12 + r.Intn(5)
		s.Hash = hx.PickS(r, hashes)
		hl := HashLen(s.Hash)
		switch r.Intn(3) {
		case 0:
			s.TagSize = 10
		case 1:
			s.TagSize = hl
		default:
			s.TagSize = 10 + r.Intn(hl-9)
		}
		hk := hx.PickS(r, []int{16, 20, 32, 64, 65, 128, 129, 200})
		s.Key = r.Bytes(s.AESLen + hk)
		s.Params = fmt.Sprintf("%d.%d.%s.%d", s.IVSize, s.TagSize, s.Hash, s.AESLen)
	}
	return s
}

// Res renders a Decrypt result as a projected observable.
func Res(pt []byte, err error) string {
	if err != nil {
		return "err"
	}
	return "ok:" + hx.H(pt)
}
