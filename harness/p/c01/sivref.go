package c01

import (
	"crypto/aes"
	"encoding/binary"

	"github.com/tink-crypto/tink-go/v2/verifharness/hx"
)

// An independent, deliberately naive AES-GCM-SIV (RFC 8452) over the standard
// library's AES only: bit-serial GF(2^128) arithmetic, nothing shared with
// tink-go.  Used (1) as the independent implementation whose ciphertexts Tink
// must decrypt, (2) to construct inputs whose 32-bit counter wraps.

type gf struct{ lo, hi uint64 } // bit i of lo (hi) = coefficient of x^i (x^(64+i))

func gfFromBytes(b []byte) gf {
	return gf{binary.LittleEndian.Uint64(b[:8]), binary.LittleEndian.Uint64(b[8:16])}
}
func (a gf) bytes() []byte {
	out := make([]byte, 16)
	binary.LittleEndian.PutUint64(out[:8], a.lo)
	binary.LittleEndian.PutUint64(out[8:], a.hi)
	return out
}
func (a gf) xor(b gf) gf { return gf{a.lo ^ b.lo, a.hi ^ b.hi} }
func (a gf) bit(i int) uint64 {
	if i < 64 {
		return a.lo >> i & 1
	}
	return a.hi >> (i - 64) & 1
}

// mulx multiplies by x modulo x^128 + x^127 + x^126 + x^121 + 1.
func (a gf) mulx() gf {
	carry := a.hi >> 63
	r := gf{a.lo << 1, a.hi<<1 | a.lo>>63}
	if carry == 1 {
		r.hi ^= 1<<63 | 1<<62 | 1<<57
		r.lo ^= 1
	}
	return r
}

// gfMul is the product in GF(2^128) = GF(2)[x]/(x^128+x^127+x^126+x^121+1).
func gfMul(a, b gf) gf {
	var r gf
	for i := 127; i >= 0; i-- {
		r = r.mulx()
		if b.bit(i) == 1 {
			r = r.xor(a)
		}
	}
	return r
}

// x^-128 = x^127 + x^124 + x^121 + x^114 + 1 (RFC 8452 section 3)
var xInv128 = gf{lo: 1, hi: 1<<63 | 1<<60 | 1<<57 | 1<<50}

func dot(a, b gf) gf { return gfMul(gfMul(a, b), xInv128) }

func gfPow(a gf, e [2]uint64) gf { // e = e[0] + 2^64 e[1]
	r := gf{lo: 1}
	for i := 127; i >= 0; i-- {
		r = gfMul(r, r)
		if (gf{e[0], e[1]}).bit(i) == 1 {
			r = gfMul(r, a)
		}
	}
	return r
}
func gfInv(a gf) gf { return gfPow(a, [2]uint64{^uint64(0) - 1, ^uint64(0)}) } // a^(2^128-2)

func padBlocks(d []byte) [][]byte {
	var out [][]byte
	for len(d) > 0 {
		b := make([]byte, 16)
		n := copy(b, d)
		d = d[n:]
		out = append(out, b)
	}
	return out
}

func polyvalRef(h gf, blocks [][]byte) gf {
	var s gf
	for _, b := range blocks {
		s = dot(s.xor(gfFromBytes(b)), h)
	}
	return s
}

func sivDerive(key, nonce []byte) (auth, enc []byte) {
	blk, _ := aes.NewCipher(key)
	half := func(i uint32) []byte {
		in := make([]byte, 16)
		binary.LittleEndian.PutUint32(in, i)
		copy(in[4:], nonce)
		out := make([]byte, 16)
		blk.Encrypt(out, in)
		return out[:8]
	}
	auth = append(half(0), half(1)...)
	enc = append(half(2), half(3)...)
	if len(key) == 32 {
		enc = append(enc, append(half(4), half(5)...)...)
	}
	return
}

func sivBlocks(pt, ad []byte) [][]byte {
	lb := make([]byte, 16)
	binary.LittleEndian.PutUint64(lb, uint64(len(ad))*8)
	binary.LittleEndian.PutUint64(lb[8:], uint64(len(pt))*8)
	return append(append(padBlocks(ad), padBlocks(pt)...), lb)
}

func sivCTR(enc, tag, in []byte) []byte {
	blk, _ := aes.NewCipher(enc)
	ctr := append([]byte{}, tag...)
	ctr[15] |= 0x80
	out := make([]byte, len(in))
	ks := make([]byte, 16)
	for i := 0; i < len(in); i += 16 {
		blk.Encrypt(ks, ctr)
		for j := 0; j < 16 && i+j < len(in); j++ {
			out[i+j] = in[i+j] ^ ks[j]
		}
		binary.LittleEndian.PutUint32(ctr, binary.LittleEndian.Uint32(ctr)+1)
	}
	return out
}

// SIVRef is RFC 8452 encryption: nonce || ciphertext || tag.
func SIVRef(key, nonce, pt, ad []byte) []byte {
	auth, enc := sivDerive(key, nonce)
	s := polyvalRef(gfFromBytes(auth), sivBlocks(pt, ad)).bytes()
	for i := 0; i < 12; i++ {
		s[i] ^= nonce[i]
	}
	s[15] &= 0x7f
	blk, _ := aes.NewCipher(enc)
	tag := make([]byte, 16)
	blk.Encrypt(tag, s)
	out := append(append([]byte{}, nonce...), sivCTR(enc, tag, pt)...)
	return append(out, tag...)
}

// SIVWrap constructs (key, nonce, pt, ad) whose tag starts with le32(start):
// the 32-bit counter of the RFC 8452 counter mode then wraps inside the message
// when start is close to 0xffffffff.  POLYVAL is linear in the first AD block,
// so that block is solved for: tag -> AES^-1 -> POLYVAL target -> block.
func SIVWrap(r *hx.Rng, keyLen int, start uint32, ptLen, adLen int) (key, nonce, pt, ad []byte) {
	if adLen < 16 {
		adLen = 16
	}
	for {
		key, nonce, pt, ad = r.Bytes(keyLen), r.Bytes(12), r.Bytes(ptLen), r.Bytes(adLen)
		auth, enc := sivDerive(key, nonce)
		tag := r.Bytes(16)
		binary.LittleEndian.PutUint32(tag, start)
		blk, _ := aes.NewCipher(enc)
		target := make([]byte, 16)
		blk.Decrypt(target, tag)
		if target[15]&0x80 != 0 {
			continue // the masked POLYVAL output always has this bit clear
		}
		// the top bit of the unmasked S is free: keep it 0
		for i := 0; i < 12; i++ {
			target[i] ^= nonce[i]
		}
		copy(ad[:16], make([]byte, 16))
		h := gfFromBytes(auth)
		blocks := sivBlocks(pt, ad)
		c := polyvalRef(h, blocks)
		// S = L^n(X1) xor C with L(Y) = dot(Y, H) = Y * (H * x^-128): invert L n times
		z := gfFromBytes(target).xor(c)
		ginv := gfInv(gfMul(h, xInv128))
		for range blocks {
			z = gfMul(z, ginv)
		}
		copy(ad[:16], z.bytes())
		// S may differ from target in the masked bit only when ... it cannot: check
		got := SIVRef(key, nonce, pt, ad)
		if binary.LittleEndian.Uint32(got[len(got)-16:]) == start {
			return
		}
	}
}
