package c01

import (
	"bytes"
	"fmt"
	"strings"

	aeadsubtle "github.com/tink-crypto/tink-go/v2/aead/subtle"
	internalaead "github.com/tink-crypto/tink-go/v2/internal/aead"
	"github.com/tink-crypto/tink-go/v2/verifharness/hx"
)

// C01: AEAD decrypts what it encrypts, in the documented standard wire format.
//
// case line:  C01|<scheme>|<route>|<variant>|<id>|<params>|<key>|<iv>|<iv2>|<pt>|<ad>
//   (key description: see Spec)  iv = the bytes crypto/rand serves to Encrypt
//   (Bulk channel of the tape), iv2 = the IV of a second ciphertext produced
//   WITHOUT tink-go (stdlib only) and fed to Tink's Decrypt.
// observation:
//   ct=<Tink's ciphertext>|rt=<Tink decrypting it>|ind=<the independent
//   ciphertext>|indrt=<Tink decrypting that>|drawn=<random bytes consumed>
// The model recomputes every field from (key, iv, iv2, pt, ad).
// An empty AD is passed as nil to one of Encrypt/Decrypt and as []byte{} to
// the other (nil and empty must be interchangeable).

func splitLine(line string) (*Spec, [][]byte, error) {
	f := strings.Split(line, "|")
	if len(f) != 11 {
		return nil, nil, fmt.Errorf("fields")
	}
	s, err := ParseSpec(f[1:7])
	if err != nil {
		return nil, nil, err
	}
	var bs [][]byte
	for _, x := range f[7:] {
		bs = append(bs, hx.UH(x))
	}
	return s, bs, nil
}

func run(line string) string {
	s, b, err := splitLine(line)
	if err != nil {
		return "bad-line"
	}
	iv, iv2, pt, ad := b[0], b[1], b[2], b[3]
	if s.Scheme == "pv" {
		return runPolyval(s.Key, ad, pt)
	}
	a, err := s.Build()
	if err != nil {
		return "nokey"
	}
	adEnc, adDec := ad, ad
	if len(ad) == 0 {
		if len(pt)%2 == 0 {
			adEnc, adDec = nil, []byte{}
		} else {
			adEnc, adDec = []byte{}, nil
		}
	}
	tape := &hx.Tape{Bulk: append([]byte{}, iv...)}
	var ct []byte
	hx.WithTape(tape, func() { ct, err = a.Encrypt(pt, adEnc) })
	if err != nil {
		return "enc-err"
	}
	rt := Res(a.Decrypt(ct, adDec))
	var ind []byte
	ok := false
	if ind, ok = s.Independent(iv2, pt, ad); !ok {
		// no stdlib reference: a second Tink ciphertext under iv2
		t2 := &hx.Tape{Bulk: append([]byte{}, iv2...)}
		hx.WithTape(t2, func() { ind, err = a.Encrypt(pt, adDec) })
		if err != nil {
			return "enc2-err"
		}
	}
	indrt := Res(a.Decrypt(ind, adEnc))
	return fmt.Sprintf("ct=%s|rt=%s|ind=%s|indrt=%s|drawn=%d", hx.H(ct), rt, hx.H(ind), indrt, tape.NBulk)
}

func field(obs, name string) string {
	for _, f := range strings.Split(obs, "|") {
		if strings.HasPrefix(f, name+"=") {
			return f[len(name)+1:]
		}
	}
	return ""
}

// runPolyval drives the two exported POLYVAL implementations (aead/subtle and
// internal/aead share the mul32/mul64/polyvalDot kernels): key, Update(d1), Update(d2), Finish;
// ref = the bit-serial RFC 8452 transcription of sivref.go.
func runPolyval(key, d1, d2 []byte) string {
	p1, err := aeadsubtle.NewPolyval(key)
	if err != nil {
		return "nokey"
	}
	p1.Update(d1)
	p1.Update(d2)
	h1 := p1.Finish()
	p2, err := internalaead.NewPolyval(key)
	if err != nil {
		return "nokey"
	}
	p2.Update(d1)
	p2.Update(d2)
	h2 := p2.Finish()
	ref := polyvalRef(gfFromBytes(key), append(padBlocks(d1), padBlocks(d2)...)).bytes()
	return fmt.Sprintf("pv=%s|int=%s|ref=%s", hx.H(h1[:]), hx.H(h2[:]), hx.H(ref))
}

// check is the direct oracle: round trip, stdlib-reference equality, shape.
func check(line, obs string) string {
	s, b, err := splitLine(line)
	if err != nil {
		return "bad line"
	}
	if s.Scheme == "pv" {
		if strings.HasPrefix(obs, "PANIC") || !strings.HasPrefix(obs, "pv=") {
			return "POLYVAL: " + obs
		}
		if field(obs, "pv") != field(obs, "ref") || field(obs, "int") != field(obs, "ref") {
			return "POLYVAL differs from RFC 8452 (bit-serial reference): " + obs
		}
		return ""
	}
	iv, pt, ad := b[0], b[2], b[3]
	if strings.HasPrefix(obs, "PANIC") {
		return "Encrypt/Decrypt panicked: " + obs
	}
	if s.Scheme == "env" && s.KEK.Scheme == "pad" && s.KEK.PadN > MaxEncryptedDEK {
		// the documented maximum of the encrypted DEK: Encrypt must refuse to build an envelope
		// that Decrypt would reject
		if obs != "enc-err" {
			return fmt.Sprintf("Encrypt built an envelope around an encrypted DEK of %d bytes (documented maximum %d): %.60s", s.KEK.PadN, MaxEncryptedDEK, obs)
		}
		return ""
	}
	if !strings.HasPrefix(obs, "ct=") {
		return "valid key or plaintext rejected: " + obs
	}
	want := "ok:" + hx.H(pt)
	if got := field(obs, "rt"); got != want {
		return fmt.Sprintf("round trip: Decrypt(Encrypt(p)) = %s, want %s", got, want)
	}
	if got := field(obs, "indrt"); got != want {
		return fmt.Sprintf("Tink does not decrypt the independent implementation's ciphertext: %s", got)
	}
	ct := hx.UH(field(obs, "ct"))
	if s.Scheme == "env" {
		if field(obs, "drawn") != fmt.Sprint(s.IVLen()) {
			return "Encrypt drew " + field(obs, "drawn") + " random bytes"
		}
		if ref, ok := s.Independent(iv, pt, ad); ok && !bytes.Equal(ref, ct) {
			return "envelope differs from be32(len)||encDEK||payload computed with the standard library"
		}
		return ""
	}
	pre := s.Prefix()
	if len(ct) != len(pre)+s.IVLen()+len(pt)+s.TagLen() {
		return fmt.Sprintf("ciphertext length %d, want %d", len(ct), len(pre)+s.IVLen()+len(pt)+s.TagLen())
	}
	if !bytes.HasPrefix(ct, pre) {
		return "ciphertext does not start with the output prefix"
	}
	if !bytes.Equal(ct[len(pre):len(pre)+len(iv)], iv) {
		return "nonce in the ciphertext is not the fresh randomness drawn"
	}
	if field(obs, "drawn") != fmt.Sprint(s.IVLen()) {
		return "Encrypt drew " + field(obs, "drawn") + " random bytes"
	}
	if ref, ok := s.Independent(iv, pt, ad); ok && !bytes.Equal(ref, ct) {
		return "ciphertext differs from the standard algorithm (stdlib reference)"
	}
	// published test vectors (RFC 8452 appendix C.1/C.2), fed through corpus/C01.txt
	if want, ok := rfc8452[hx.H(s.Key)+"|"+hx.H(iv)+"|"+hx.H(pt)+"|"+hx.H(ad)]; ok && s.Scheme == "siv" && hx.H(ct[len(pre):]) != hx.H(iv)+want {
		return "AES-GCM-SIV output differs from the RFC 8452 test vector"
	}
	return ""
}

// key|nonce|plaintext|aad -> ciphertext||tag
var rfc8452 = map[string]string{
	"01000000000000000000000000000000|030000000000000000000000|-|-":                                                "dc20e2d83f25705bb49e439eca56de25",
	"01000000000000000000000000000000|030000000000000000000000|0100000000000000|-":                                 "b5d839330ac7b786578782fff6013b815b287c22493a364c",
	"01000000000000000000000000000000|030000000000000000000000|0200000000000000|01":                                "1e6daba35669f4273b0a1a2560969cdf790d99759abd1508",
	"0100000000000000000000000000000000000000000000000000000000000000|030000000000000000000000|0100000000000000|-": "c2ef328e5c71c83b843122130f7364b761e0b97427e3df28",
}

func class(line, obs string) string {
	s, b, err := splitLine(line)
	if err != nil {
		return ""
	}
	sch := s.Scheme
	if sch == "env" {
		sch = "env:" + s.DEK + ":" + s.KEK.Scheme
	}
	if sch == "pv" {
		return fmt.Sprintf("pv/%d/%d/%d", bitsSet(s.Key), len(b[3]), len(b[2]))
	}
	if sch == "siv" {
		if ct := hx.UH(field(obs, "ct")); len(ct) >= 16 {
			t := ct[len(ct)-16:]
			ctr := uint64(t[0]) | uint64(t[1])<<8 | uint64(t[2])<<16 | uint64(t[3])<<24
			if ctr+uint64((len(b[2])+15)/16) > 1<<32 {
				sch = "siv-ctrwrap"
			}
		}
	}
	return fmt.Sprintf("%s/%s/%s/%d/p%s/a%s", sch, s.Route, s.Variant, len(s.Key), LenClass(len(b[2])), LenClass(len(b[3])))
}

func bitsSet(b []byte) int {
	n := 0
	for _, x := range b {
		for ; x != 0; x &= x - 1 {
			n++
		}
	}
	if n > 3 {
		return 9
	}
	return n
}

func oneBit(i int) []byte {
	b := make([]byte, 16)
	b[i/8] = 1 << (i % 8)
	return b
}

// polyvalCases: dot(x^i, x^j) on the monomial basis, low-weight and random field elements,
// multi-block and partial-block inputs split over two Update calls.
func polyvalCases(r *hx.Rng, n int) []string {
	var out []string
	pv := func(key, d1, d2 []byte) {
		out = append(out, fmt.Sprintf("C01|pv|S|R|0|-|%s|-|-|%s|%s", hx.H(key), hx.H(d2), hx.H(d1)))
	}
	for i := 0; i < n; i++ {
		switch r.Intn(6) {
		case 0, 1:
			pv(oneBit(r.Intn(128)), oneBit(r.Intn(128)), nil)
		case 2:
			k, d := oneBit(r.Intn(128)), oneBit(r.Intn(128))
			k[r.Intn(16)] ^= 1 << r.Intn(8)
			d[r.Intn(16)] ^= 1 << r.Intn(8)
			pv(k, d, nil)
		case 3:
			// all-ones / carry-heavy patterns for the "holes" multiplication
			pat := hx.PickS(r, []byte{0xff, 0x11, 0x88, 0xf0, 0x0f, 0xaa, 0x77})
			k, d := make([]byte, 16), make([]byte, 16)
			for j := range k {
				k[j], d[j] = pat, hx.PickS(r, []byte{0xff, pat, ^pat})
			}
			pv(k, d, nil)
		case 4:
			pv(r.Bytes(16), r.Bytes(16), nil)
		default:
			pv(r.Bytes(16), r.Bytes(PickLen(r, 70)), r.Bytes(PickLen(r, 70)))
		}
	}
	return out
}

// nilADCases: "nil and empty associated data are interchangeable" is not expressible in the
// model (byte strings are lists), so it is decided here, directed: for EVERY scheme, route and
// prefix variant (and the envelope over every data-key template) an empty AD is passed as nil
// to Encrypt and as []byte{} to Decrypt (even plaintext length) and the other way round (odd
// length) — see run; the independent (stdlib) ciphertext computed with a nil AD must decrypt
// under the other form too.
func nilADCases(r *hx.Rng) []string {
	var out []string
	emit := func(s *Spec) {
		for _, l := range []int{2 * r.Intn(20), 1 + 2*r.Intn(20)} {
			iv, iv2 := r.Bytes(s.IVLen()), r.Bytes(s.IVLen())
			out = append(out, fmt.Sprintf("C01|%s|%s|%s|%s|-", s, hx.H(iv), hx.H(iv2), hx.H(r.Bytes(l))))
		}
	}
	for _, sc := range Schemes {
		for _, route := range []string{"H", "K", "S"} {
			variants := map[string][]string{"H": {"T", "C", "L", "R"}, "K": {"T", "C", "R"}, "S": {"R"}}[route]
			if sc == "xaes" {
				if route == "S" {
					continue
				}
				variants = []string{"T", "R"}
			}
			for _, v := range variants {
				s := randPlain(r)
				for s.Scheme != sc {
					s = randPlain(r)
				}
				s.Route, s.Variant = route, v
				if s.ID == 0 && route == "H" {
					s.ID = 1 + uint32(r.Intn(1000))
				}
				emit(s)
			}
		}
	}
	for _, dek := range DEKNames {
		k := randPlain(r)
		for k.Scheme != "gcm" || k.Route == "S" {
			k = randPlain(r)
		}
		emit(&Spec{Scheme: "env", Route: "E", Variant: k.Variant, ID: k.ID, Key: k.Key, DEK: dek, KEK: k,
			Params: dek + "~" + k.Scheme + "~" + k.Route + "~" + k.Params})
	}
	return out
}

// MaxEncryptedDEK is the documented bound of the KMS envelope format (kms_envelope_aead.go
// maxLengthEncryptedDEK; Envelope.v maxLengthEncryptedDEK): 1 <= len(encDEK) <= 4096.
const MaxEncryptedDEK = 4096

// envDEKSizeCases: envelopes whose key-encryption AEAD returns an encrypted DEK of a chosen
// size (scheme "pad"), at the minimum that fits and around the documented maximum, for every
// data-key template, with an empty and a short plaintext (the payload behind the encrypted
// DEK is then as short as a data-key AEAD ciphertext can be).  Up to 4096 bytes the envelope
// must round-trip in both directions (Tink decrypting the stdlib-framed envelope, the model
// decrypting Tink's); above, Encrypt must fail.
func envDEKSizeCases(r *hx.Rng) []string {
	var out []string
	for i, dek := range DEKNames {
		k := randPlain(r)
		for k.Scheme == "etm" && i%2 == 0 {
			k = randPlain(r)
		}
		for _, n := range []int{PadMin(k, dek), MaxEncryptedDEK - 1, MaxEncryptedDEK, MaxEncryptedDEK + 1, MaxEncryptedDEK + 4} {
			s := PadEnv(k, dek, n)
			for _, l := range []int{0, 1 + r.Intn(40)} {
				var ad []byte
				if r.Chance(60) {
					ad = r.Bytes(PickLen(r, 40))
				}
				out = append(out, fmt.Sprintf("C01|%s|%s|%s|%s|%s", s, hx.H(r.Bytes(s.IVLen())), hx.H(r.Bytes(s.IVLen())), hx.H(r.Bytes(l)), hx.H(ad)))
			}
		}
	}
	return out
}

func gen(r *hx.Rng, n int, tier string) []string {
	var out []string
	out = append(out, polyvalCases(r, n/8)...)
	// AES-GCM-SIV inputs constructed so that the little-endian 32-bit counter of the
	// RFC 8452 counter mode wraps inside the message (tag starts with le32(start))
	for i, start := range []uint32{0xffffffff, 0xfffffffe, 0xfffffffd, 0xfffffff0, 0xffffff00, 0x7fffffff, 0xffffffff, 0xfffffffe} {
		s := &Spec{Scheme: "siv", Route: []string{"H", "K", "S"}[i%3], Variant: "R", ID: 7, Params: "-"}
		if s.Route != "S" && i%2 == 0 {
			s.Variant = "T"
		}
		ptLen := 33 + r.Intn(300)
		if start == 0xffffff00 {
			ptLen = 256*16 + 40
		}
		key, nonce, pt, ad := SIVWrap(r, []int{16, 32}[i%2], start, ptLen, 16+r.Intn(40))
		s.Key = key
		out = append(out, fmt.Sprintf("C01|%s|%s|%s|%s|%s", s, hx.H(nonce), hx.H(r.Bytes(12)), hx.H(pt), hx.H(ad)))
	}
	out = append(out, nilADCases(r)...)
	out = append(out, envDEKSizeCases(r)...)
	for i := len(out); i < n; i++ {
		s := RandSpec(r)
		max := 300
		if tier != "quick" && r.Chance(5) {
			max = 5000
		}
		pt := r.Bytes(PickLen(r, max))
		var ad []byte
		if !r.Chance(25) {
			ad = r.Bytes(PickLen(r, 100))
		}
		iv, iv2 := r.Bytes(s.IVLen()), r.Bytes(s.IVLen())
		out = append(out, fmt.Sprintf("C01|%s|%s|%s|%s|%s", s, hx.H(iv), hx.H(iv2), hx.H(pt), hx.H(ad)))
	}
	return out
}

func init() {
	hx.Register("C01", &hx.Prop{Gen: gen, Run: run, Check: check, Class: class})
}
