// Package c05: keyset primitives use the primary key to produce and any
// enabled key to accept.
//
// case line (fields separated by '|'):
//
//	C05|<class>|<pool>|<build>|<msg>:<aad>:<tape>|<inputs>|<verdicts>|<outs>
//
//	class    aead daead mac sig hyb jwtmac jwtsig stream prf
//	pool     ','-separated keys  <ktype>:<T|C|L|R>:<id>:<legacy 0|1>:<det 0|1>:<hex of marshalled KeyData>
//	         (private KeyData for the asymmetric classes).  T/C/L/R = output
//	         prefix type; id = id the key is built with.
//	build    "P:" idx.status.primary,...   keyset written as an explicit proto
//	         (entry order as listed, KeyId = the pool key's id, status E/D/X)
//	         and read with insecurecleartextkeyset; pool keys not listed are
//	         foreign keys;
//	         "M:" idtape "/" ops           a keyset.Manager history: K<i> AddKey(pool[i]),
//	         S<id> E<id> D<id> X<id> SetPrimary/Enable/Disable/Delete; RAW keys
//	         draw their id from idtape (4-byte reads of crypto/rand); the
//	         keyset is Handle() at the end.  Removed keys = added then deleted.
//	msg/aad  message and associated data / context info (hex); tape = bytes
//	         served to crypto/rand while the wrapped primitive produces
//	inputs   ','-separated <tag>:<hex>: what single-key primitives produced
//	         (k<i>), and mutations of it (see Gen)
//	verdicts per pool key, what its single-key primitive answers per input:
//	         full primitive "bits"; legacy primitive
//	         "whole,d / whole,d||00 / x[5:],d / x[5:],d||00" bit strings
//	outs     per pool key the single-key output for msg under the tape
//	         ("~" when not deterministic; legacy: raw(m)/raw(m||00))
//
// observation:
//
//	<shape>|p:<logged id>:<prefix carried>:<pool keys whose output equals it>|<r_1>,<r_2>,...
//	shape  h[id.status.primary.prefixhex,...] of the final handle
//	r_j    a<logged id> accepted, r rejected (with LogFailure); anomalies are
//	       spelled out (a?.., r?..)
//	prf:   <shape>|ids:<sorted ids>;prim:<PrimaryID>|<id>=<pool keys with equal output>/<logged>,...;pp=<..>/<logged>
package c05

import (
	"bytes"
	"encoding/binary"
	"fmt"
	"io"
	"sort"
	"strconv"
	"strings"
	"sync"

	"github.com/tink-crypto/tink-go/v2/aead"
	"github.com/tink-crypto/tink-go/v2/core/registry"
	"github.com/tink-crypto/tink-go/v2/daead"
	"github.com/tink-crypto/tink-go/v2/hybrid"
	"github.com/tink-crypto/tink-go/v2/insecurecleartextkeyset"
	"github.com/tink-crypto/tink-go/v2/internal/factoryutil"
	"github.com/tink-crypto/tink-go/v2/internal/internalregistry"
	"github.com/tink-crypto/tink-go/v2/internal/protoserialization"
	"github.com/tink-crypto/tink-go/v2/internal/registryconfig"
	"github.com/tink-crypto/tink-go/v2/jwt"
	"github.com/tink-crypto/tink-go/v2/key"
	"github.com/tink-crypto/tink-go/v2/keyset"
	"github.com/tink-crypto/tink-go/v2/mac"
	"github.com/tink-crypto/tink-go/v2/prf"
	"github.com/tink-crypto/tink-go/v2/signature"
	"github.com/tink-crypto/tink-go/v2/streamingaead"
	"github.com/tink-crypto/tink-go/v2/testing/fakemonitoring"
	"github.com/tink-crypto/tink-go/v2/tink"
	"github.com/tink-crypto/tink-go/v2/verifharness/hx"
	"google.golang.org/protobuf/proto"

	tinkpb "github.com/tink-crypto/tink-go/v2/proto/tink_go_proto"
)

// ---------------------------------------------------------------- classes

type tmpl struct {
	label string
	f     func() *tinkpb.KeyTemplate
}

type classDef struct {
	name    string
	tmpls   []tmpl
	stubURL string // "" = no legacy stub for this class
	ptypes  string // prefix types the key parsers of this class accept
	asym    bool
	logs    bool // the factory logs to monitoring
}

var classes = map[string]*classDef{
	"aead": {name: "aead", stubURL: stubAeadURL, ptypes: "TCLR", logs: true, tmpls: []tmpl{
		{"gcm128", aead.AES128GCMKeyTemplate}, {"gcm256", aead.AES256GCMKeyTemplate},
		{"ctrhmac", aead.AES128CTRHMACSHA256KeyTemplate}, {"chacha", aead.ChaCha20Poly1305KeyTemplate},
		{"xchacha", aead.XChaCha20Poly1305KeyTemplate}, {"gcmsiv", aead.AES128GCMSIVKeyTemplate},
		{"xaes", aead.XAES256GCM192BitNonceKeyTemplate}}},
	"daead": {name: "daead", stubURL: stubDaeadURL, ptypes: "TCLR", logs: true, tmpls: []tmpl{
		{"aessiv", daead.AESSIVKeyTemplate}}},
	"mac": {name: "mac", stubURL: stubMacURL, ptypes: "TCLR", logs: true, tmpls: []tmpl{
		{"hmac256t16", mac.HMACSHA256Tag128KeyTemplate}, {"hmac256t32", mac.HMACSHA256Tag256KeyTemplate},
		{"hmac512t32", mac.HMACSHA512Tag256KeyTemplate}, {"cmac", mac.AESCMACTag128KeyTemplate}}},
	"sig": {name: "sig", stubURL: stubSigPrivURL, ptypes: "TCLR", asym: true, logs: true, tmpls: []tmpl{
		{"ed25519", signature.ED25519KeyTemplate}, {"ecdsap256", signature.ECDSAP256KeyTemplate}}},
	"hyb": {name: "hyb", stubURL: stubHybPrivURL, ptypes: "TCR", asym: true, logs: true, tmpls: []tmpl{
		{"hpkex25519gcm", hybrid.DHKEM_X25519_HKDF_SHA256_HKDF_SHA256_AES_128_GCM_Key_Template},
		{"hpkex25519chacha", hybrid.DHKEM_X25519_HKDF_SHA256_HKDF_SHA256_CHACHA20_POLY1305_Key_Template},
		{"hpkep256", hybrid.DHKEM_P256_HKDF_SHA256_HKDF_SHA256_AES_128_GCM_Key_Template},
		{"ecies", hybrid.ECIESHKDFAES128GCMKeyTemplate}}},
	"jwtmac": {name: "jwtmac", ptypes: "TR", logs: true, tmpls: []tmpl{
		{"hs256", jwt.HS256Template}, {"hs384", jwt.HS384Template}}},
	"jwtsig": {name: "jwtsig", ptypes: "TR", asym: true, logs: true, tmpls: []tmpl{
		{"es256", jwt.ES256Template}}},
	"stream": {name: "stream", ptypes: "R", tmpls: []tmpl{
		{"gcmhkdf", streamingaead.AES128GCMHKDF4KBKeyTemplate},
		{"ctrhmacstream", streamingaead.AES128CTRHMACSHA256Segment4KBKeyTemplate},
		// other key sizes: the header length differs (1+keysize+7), so a keyset can mix header lengths
		{"gcmhkdf256", streamingaead.AES256GCMHKDF4KBKeyTemplate},
		{"ctrhmacstream256", streamingaead.AES256CTRHMACSHA256Segment4KBKeyTemplate}}},
	"prf": {name: "prf", ptypes: "R", logs: true, tmpls: []tmpl{
		{"hmacprf", prf.HMACSHA256PRFKeyTemplate}, {"hkdfprf", prf.HKDFSHA256PRFKeyTemplate},
		{"cmacprf", prf.AESCMACPRFKeyTemplate}}},
}

var classOrder = []string{"aead", "daead", "mac", "sig", "hyb", "jwtmac", "jwtsig", "stream", "prf"}

var (
	setupOnce sync.Once
	monClient *fakemonitoring.Client
)

func setup() {
	setupOnce.Do(func() {
		registerStubs()
		monClient = fakemonitoring.NewClient("c05")
		if err := internalregistry.RegisterMonitoringClient(monClient); err != nil {
			panic(err)
		}
	})
}

// ---------------------------------------------------------------- pool

type poolKey struct {
	ktype  string
	pt     byte
	id     uint32
	legacy bool
	det    bool
	kd     *tinkpb.KeyData
	key    key.Key // private / symmetric key object
	pub    key.Key // public key object (asymmetric classes)
}

func ptProto(c byte) tinkpb.OutputPrefixType {
	switch c {
	case 'T':
		return tinkpb.OutputPrefixType_TINK
	case 'C':
		return tinkpb.OutputPrefixType_CRUNCHY
	case 'L':
		return tinkpb.OutputPrefixType_LEGACY
	}
	return tinkpb.OutputPrefixType_RAW
}

// expectedPrefix is the prefix the *property* names for (prefix type, id);
// written out here independently of the repository's helpers.
func expectedPrefix(pt byte, id uint32) []byte {
	switch pt {
	case 'T':
		return []byte{1, byte(id >> 24), byte(id >> 16), byte(id >> 8), byte(id)}
	case 'C', 'L':
		return []byte{0, byte(id >> 24), byte(id >> 16), byte(id >> 8), byte(id)}
	}
	return nil
}

func makeKey(kd *tinkpb.KeyData, pt byte, id uint32) (key.Key, error) {
	req := id
	if pt == 'R' {
		req = 0
	}
	ks, err := protoserialization.NewKeySerialization(kd, ptProto(pt), req)
	if err != nil {
		return nil, err
	}
	return protoserialization.ParseKey(ks)
}

func (p *poolKey) resolve(cd *classDef) error {
	k, err := makeKey(p.kd, p.pt, p.id)
	if err != nil {
		return err
	}
	p.key = k
	if cd.asym {
		pk, ok := k.(interface{ PublicKey() (key.Key, error) })
		if !ok {
			return fmt.Errorf("not a private key: %T", k)
		}
		pub, err := pk.PublicKey()
		if err != nil {
			return err
		}
		p.pub = pub
	}
	return nil
}

func parsePool(cd *classDef, s string) []*poolKey {
	var out []*poolKey
	for _, es := range strings.Split(s, ",") {
		f := strings.Split(es, ":")
		if len(f) != 6 {
			panic("bad pool entry " + es)
		}
		id, _ := strconv.ParseUint(f[2], 10, 32)
		kd := &tinkpb.KeyData{}
		if err := proto.Unmarshal(hx.UH(f[5]), kd); err != nil {
			panic(err)
		}
		p := &poolKey{ktype: f[0], pt: f[1][0], id: uint32(id), legacy: f[3] == "1", det: f[4] == "1", kd: kd}
		if err := p.resolve(cd); err != nil {
			panic("pool key: " + err.Error())
		}
		out = append(out, p)
	}
	return out
}

// ---------------------------------------------------------------- single-key primitives

// single is the primitive of ONE key, obtained without any keyset factory.
type single struct {
	prod   any // producing side (symmetric: same object)
	acc    any // accepting side
	legacy bool
}

var regCfg = &registryconfig.RegistryConfig{}

func primOf(k key.Key) (any, bool, error) { return factoryutil.PrimitiveFromKey[any](k, regCfg) }

func singleOf(cd *classDef, p *poolKey) (*single, error) {
	s := &single{}
	var err error
	switch cd.name {
	case "sig", "jwtsig":
		if s.prod, s.legacy, err = primOf(p.key); err != nil {
			return nil, err
		}
		if s.acc, _, err = primOf(p.pub); err != nil {
			return nil, err
		}
	case "hyb":
		if s.prod, s.legacy, err = primOf(p.pub); err != nil {
			return nil, err
		}
		if s.acc, _, err = primOf(p.key); err != nil {
			return nil, err
		}
	default:
		if s.prod, s.legacy, err = primOf(p.key); err != nil {
			return nil, err
		}
		s.acc = s.prod
	}
	return s, nil
}

var jwtFixedSubject = "c05"

func rawJWT(msg []byte) *jwt.RawJWT {
	sub := "s" + hx.H(msg)
	r, err := jwt.NewRawJWT(&jwt.RawJWTOptions{Subject: &sub, WithoutExpiration: true})
	if err != nil {
		panic(err)
	}
	return r
}

func jwtValidator() *jwt.Validator {
	v, err := jwt.NewValidator(&jwt.ValidatorOpts{AllowMissingExpiration: true})
	if err != nil {
		panic(err)
	}
	return v
}

// produceWith runs the producing operation of class cd on primitive p.
func produceWith(cd *classDef, p any, msg, aad []byte) ([]byte, error) {
	switch cd.name {
	case "aead":
		return p.(tink.AEAD).Encrypt(msg, aad)
	case "daead":
		return p.(tink.DeterministicAEAD).EncryptDeterministically(msg, aad)
	case "mac":
		return p.(tink.MAC).ComputeMAC(msg)
	case "sig":
		return p.(tink.Signer).Sign(msg)
	case "hyb":
		return p.(tink.HybridEncrypt).Encrypt(msg, aad)
	case "jwtmac":
		s, err := p.(jwt.MAC).ComputeMACAndEncode(rawJWT(msg))
		return []byte(s), err
	case "jwtsig":
		s, err := p.(jwt.Signer).SignAndEncode(rawJWT(msg))
		return []byte(s), err
	case "stream":
		var buf bytes.Buffer
		w, err := p.(tink.StreamingAEAD).NewEncryptingWriter(&buf, aad)
		if err != nil {
			return nil, err
		}
		if _, err := w.Write(msg); err != nil {
			return nil, err
		}
		if err := w.Close(); err != nil {
			return nil, err
		}
		return buf.Bytes(), nil
	case "prf":
		return p.(prf.PRF).ComputePRF(msg, 16)
	}
	panic("class " + cd.name)
}

// acceptWith runs the accepting operation; ok = accepted, pt = recovered
// plaintext where the class has one.
func acceptWith(cd *classDef, p any, x, msg, aad []byte) (ok bool, pt []byte) {
	var err error
	switch cd.name {
	case "aead":
		pt, err = p.(tink.AEAD).Decrypt(x, aad)
	case "daead":
		pt, err = p.(tink.DeterministicAEAD).DecryptDeterministically(x, aad)
	case "mac":
		err = p.(tink.MAC).VerifyMAC(x, msg)
	case "sig":
		err = p.(tink.Verifier).Verify(x, msg)
	case "hyb":
		pt, err = p.(tink.HybridDecrypt).Decrypt(x, aad)
	case "jwtmac":
		_, err = p.(jwt.MAC).VerifyMACAndDecode(string(x), jwtValidator())
	case "jwtsig":
		_, err = p.(jwt.Verifier).VerifyAndDecode(string(x), jwtValidator())
	case "stream":
		var r io.Reader
		r, err = p.(tink.StreamingAEAD).NewDecryptingReader(bytes.NewReader(x), aad)
		if err == nil {
			pt, err = io.ReadAll(r)
		}
	default:
		panic("class " + cd.name)
	}
	return err == nil, pt
}

func hasPlaintext(cd *classDef) bool {
	switch cd.name {
	case "aead", "daead", "hyb", "stream":
		return true
	}
	return false
}

func withBulk(tape []byte, f func()) {
	hx.WithTape(&hx.Tape{Bulk: append([]byte(nil), tape...)}, f)
}

// ---------------------------------------------------------------- building the keyset

type built struct {
	priv *keyset.Handle // nil: no handle (Manager.Handle failed)
	pub  *keyset.Handle // asymmetric classes
	note string
}

var annotations = map[string]string{"verif": "c05"}

func annotate(h *keyset.Handle) *keyset.Handle {
	km := keyset.NewManagerFromHandle(h)
	if err := km.SetAnnotations(annotations); err != nil {
		panic(err)
	}
	h2, err := km.Handle()
	if err != nil {
		panic("annotate: " + err.Error())
	}
	return h2
}

func statusProto(c byte) tinkpb.KeyStatusType {
	switch c {
	case 'E':
		return tinkpb.KeyStatusType_ENABLED
	case 'D':
		return tinkpb.KeyStatusType_DISABLED
	}
	return tinkpb.KeyStatusType_DESTROYED
}

func build(cd *classDef, pool []*poolKey, spec string) *built {
	b := &built{}
	switch {
	case strings.HasPrefix(spec, "P:"):
		ks := &tinkpb.Keyset{}
		for _, es := range strings.Split(spec[2:], ",") {
			f := strings.Split(es, ".")
			i, _ := strconv.Atoi(f[0])
			p := pool[i]
			ks.Key = append(ks.Key, &tinkpb.Keyset_Key{KeyData: p.kd, KeyId: p.id, Status: statusProto(f[1][0]), OutputPrefixType: ptProto(p.pt)})
			if f[2] == "1" {
				ks.PrimaryKeyId = p.id
			}
		}
		h, err := insecurecleartextkeyset.Read(&keyset.MemReaderWriter{Keyset: ks}, keyset.WithAnnotations(annotations))
		if err != nil {
			b.note = "read failed"
			return b
		}
		b.priv = h
	case strings.HasPrefix(spec, "M:"):
		parts := strings.SplitN(spec[2:], "/", 2)
		tape := &hx.Tape{}
		if parts[0] != "" {
			for _, s := range strings.Split(parts[0], ",") {
				v, _ := strconv.ParseUint(s, 10, 32)
				tape.IDs = append(tape.IDs, uint32(v))
			}
		}
		hx.WithTape(tape, func() {
			km := keyset.NewManager()
			if err := km.SetAnnotations(annotations); err != nil {
				panic(err)
			}
			for _, op := range strings.Split(parts[1], ";") {
				if op == "" {
					continue
				}
				v, _ := strconv.ParseUint(op[1:], 10, 32)
				switch op[0] {
				case 'K':
					km.AddKey(pool[int(v)].key)
				case 'S':
					km.SetPrimary(uint32(v))
				case 'E':
					km.Enable(uint32(v))
				case 'D':
					km.Disable(uint32(v))
				case 'X':
					km.Delete(uint32(v))
				}
			}
			h, err := km.Handle()
			if err != nil {
				b.note = "no handle"
				return
			}
			b.priv = h
		})
		if tape.IDExhausted {
			b.priv = nil
			b.note = "TAPE-EXHAUSTED"
		}
	default:
		panic("build spec " + spec)
	}
	if b.priv != nil && cd.asym {
		hp, err := b.priv.Public()
		if err != nil {
			panic("Public(): " + err.Error())
		}
		b.pub = annotate(hp)
	}
	return b
}

type entInfo struct {
	id      uint32
	status  byte
	primary bool
	prefix  []byte
	key     key.Key
	pub     key.Key
}

func inspect(cd *classDef, b *built) []entInfo {
	var out []entInfo
	for i := 0; i < b.priv.Len(); i++ {
		e, err := b.priv.Entry(i)
		if err != nil {
			panic(err)
		}
		st := byte('?')
		switch e.KeyStatus() {
		case keyset.Enabled:
			st = 'E'
		case keyset.Disabled:
			st = 'D'
		case keyset.Destroyed:
			st = 'X'
		}
		k := e.Key()
		var pf []byte
		if usesPrefix(cd) {
			if pf, err = factoryutil.OutputPrefix(k); err != nil {
				panic(err)
			}
		}
		ei := entInfo{id: e.KeyID(), status: st, primary: e.IsPrimary(), prefix: pf, key: k}
		if cd.asym {
			pe, err := b.pub.Entry(i)
			if err != nil {
				panic(err)
			}
			ei.pub = pe.Key()
		}
		out = append(out, ei)
	}
	return out
}

// usesPrefix: the factories of the class consult the key's output prefix
// (JWT, streaming and PRF factories never do).
func usesPrefix(cd *classDef) bool {
	switch cd.name {
	case "jwtmac", "jwtsig", "stream", "prf":
		return false
	}
	return true
}

func shapeOf(es []entInfo) string {
	var xs []string
	for _, e := range es {
		p := "0"
		if e.primary {
			p = "1"
		}
		xs = append(xs, fmt.Sprintf("%d.%c.%s.%s", e.id, e.status, p, hx.H(e.prefix)))
	}
	return "h[" + strings.Join(xs, ",") + "]"
}

// ---------------------------------------------------------------- wrapped primitives

type wrapped struct{ prod, acc any }

func wrap(cd *classDef, b *built) (*wrapped, error) {
	w := &wrapped{}
	var err error
	switch cd.name {
	case "aead":
		w.prod, err = aead.New(b.priv)
		w.acc = w.prod
	case "daead":
		w.prod, err = daead.New(b.priv)
		w.acc = w.prod
	case "mac":
		w.prod, err = mac.New(b.priv)
		w.acc = w.prod
	case "sig":
		if w.prod, err = signature.NewSigner(b.priv); err == nil {
			w.acc, err = signature.NewVerifier(b.pub)
		}
	case "hyb":
		if w.prod, err = hybrid.NewHybridEncrypt(b.pub); err == nil {
			w.acc, err = hybrid.NewHybridDecrypt(b.priv)
		}
	case "jwtmac":
		w.prod, err = jwt.NewMAC(b.priv)
		w.acc = w.prod
	case "jwtsig":
		if w.prod, err = jwt.NewSigner(b.priv); err == nil {
			w.acc, err = jwt.NewVerifier(b.pub)
		}
	case "stream":
		w.prod, err = streamingaead.New(b.priv)
		w.acc = w.prod
	default:
		panic("class " + cd.name)
	}
	return w, err
}

// logs taken since a mark
type mark struct{ ev, fail int }

func markNow() mark { return mark{len(monClient.Events()), len(monClient.Failures())} }
func since(m mark, apis ...string) (ids []uint32, fails int) {
	match := func(a string) bool {
		if len(apis) == 0 {
			return true
		}
		for _, x := range apis {
			if x == a {
				return true
			}
		}
		return false
	}
	for _, e := range monClient.Events()[m.ev:] {
		if match(e.Context.APIFunction) {
			ids = append(ids, e.KeyID)
		}
	}
	for _, f := range monClient.Failures()[m.fail:] {
		if match(f.Context.APIFunction) {
			fails++
		}
	}
	return
}

func prodAPIs(cd *classDef) []string {
	switch cd.name {
	case "aead", "daead", "hyb":
		return []string{"encrypt"}
	case "mac", "jwtmac":
		return []string{"compute"}
	case "sig", "jwtsig":
		return []string{"sign"}
	}
	return nil
}
func accAPIs(cd *classDef) []string {
	switch cd.name {
	case "aead", "daead", "hyb":
		return []string{"decrypt"}
	}
	return []string{"verify"}
}

// ---------------------------------------------------------------- the case

type input struct {
	tag string
	x   []byte
}

type theCase struct {
	cd     *classDef
	pool   []*poolKey
	build  string
	msg    []byte
	aad    []byte
	tape   []byte
	inputs []input
	verd   [][]string // per pool key: 1 or 4 bit strings
	outs   [][]string // per pool key: 1 or 2 hex strings ("~" = not deterministic)
}

func parseCase(line string) *theCase {
	f := strings.Split(line, "|")
	if len(f) != 8 || f[0] != "C05" {
		panic("bad case line")
	}
	c := &theCase{cd: classes[f[1]], build: f[3]}
	if c.cd == nil {
		panic("class " + f[1])
	}
	c.pool = parsePool(c.cd, f[2])
	d := strings.Split(f[4], ":")
	c.msg, c.aad, c.tape = hx.UH(d[0]), hx.UH(d[1]), hx.UH(d[2])
	if f[5] != "" {
		for _, is := range strings.Split(f[5], ",") {
			p := strings.SplitN(is, ":", 2)
			c.inputs = append(c.inputs, input{p[0], hx.UH(p[1])})
		}
	}
	for _, v := range strings.Split(f[6], ",") {
		c.verd = append(c.verd, strings.Split(v, "/"))
	}
	for _, v := range strings.Split(f[7], ",") {
		c.outs = append(c.outs, strings.Split(v, "/"))
	}
	return c
}

// matchesOut: some output string of pool key k is a suffix of out leaving 0 or 5 bytes.
func matchesOut(outs []string, out []byte) bool {
	for _, o := range outs {
		if o == "~" {
			continue
		}
		ob := hx.UH(o)
		if bytes.HasSuffix(out, ob) && (len(out) == len(ob) || len(out) == len(ob)+5) {
			return true
		}
	}
	return false
}

func eqList(c *theCase, out []byte) string {
	if strings.HasPrefix(c.cd.name, "jwt") {
		// protojson output is deliberately unstable across binaries: tokens are not compared byte for byte
		return "-"
	}
	var xs []string
	for k := range c.pool {
		if matchesOut(c.outs[k], out) {
			xs = append(xs, strconv.Itoa(k))
		}
	}
	if len(xs) == 0 {
		return "-"
	}
	return strings.Join(xs, "+")
}

func carried(out []byte, ids []uint32) string {
	if len(ids) == 1 && len(out) >= 5 && out[0] <= 1 && binary.BigEndian.Uint32(out[1:5]) == ids[0] {
		return hx.H(out[:5])
	}
	return "-"
}

func idsStr(ids []uint32, fails int) string {
	var xs []string
	for _, i := range ids {
		xs = append(xs, strconv.FormatUint(uint64(i), 10))
	}
	s := strings.Join(xs, "+")
	if fails > 0 {
		s += fmt.Sprintf("!f%d", fails)
	}
	return s
}

type evalOut struct {
	obs     string
	b       *built
	ents    []entInfo
	w       *wrapped
	prodOut []byte
	prodIDs []uint32
	acc     []bool
	accIDs  [][]uint32
	accPT   [][]byte
}

func evaluate(c *theCase) *evalOut {
	setup()
	r := &evalOut{}
	r.b = build(c.cd, c.pool, c.build)
	if r.b.priv == nil {
		r.obs = "nohandle:" + r.b.note
		return r
	}
	r.ents = inspect(c.cd, r.b)
	shape := shapeOf(r.ents)
	if c.cd.name == "prf" {
		r.obs = shape + "|" + evalPRF(c, r)
		return r
	}
	w, err := wrap(c.cd, r.b)
	if err != nil {
		r.obs = shape + "|factory-error"
		return r
	}
	r.w = w
	// produce
	var prod string
	func() {
		m := markNow()
		var out []byte
		var perr error
		withBulk(c.tape, func() { out, perr = produceWith(c.cd, w.prod, c.msg, c.aad) })
		ids, fails := since(m, prodAPIs(c.cd)...)
		if perr != nil {
			prod = "p:error:" + idsStr(ids, fails)
			return
		}
		r.prodOut, r.prodIDs = out, ids
		if c.cd.logs {
			prod = "p:" + idsStr(ids, fails) + ":" + carried(out, ids) + ":" + eqList(c, out)
		} else {
			prod = "p:~:-:" + eqList(c, out)
		}
	}()
	// accept
	var rs []string
	for _, in := range c.inputs {
		m := markNow()
		ok, pt := acceptWith(c.cd, w.acc, in.x, c.msg, c.aad)
		ids, fails := since(m, accAPIs(c.cd)...)
		r.acc = append(r.acc, ok)
		r.accIDs = append(r.accIDs, ids)
		r.accPT = append(r.accPT, pt)
		switch {
		case !c.cd.logs && ok:
			rs = append(rs, "a")
		case !c.cd.logs:
			rs = append(rs, "r")
		case ok && len(ids) == 1 && fails == 0:
			rs = append(rs, "a"+idsStr(ids, 0))
		case !ok && len(ids) == 0 && fails == 1:
			rs = append(rs, "r")
		case ok:
			rs = append(rs, "a?"+idsStr(ids, fails))
		default:
			rs = append(rs, "r?"+idsStr(ids, fails))
		}
	}
	r.obs = shape + "|" + prod + "|" + strings.Join(rs, ",")
	return r
}

func evalPRF(c *theCase, r *evalOut) string {
	set, err := prf.NewPRFSet(r.b.priv)
	if err != nil {
		return "factory-error"
	}
	var ids []uint32
	for id := range set.PRFs {
		ids = append(ids, id)
	}
	sort.Slice(ids, func(i, j int) bool { return ids[i] < ids[j] })
	var is, rs []string
	for _, id := range ids {
		is = append(is, strconv.FormatUint(uint64(id), 10))
		m := markNow()
		out, err := set.PRFs[id].ComputePRF(c.msg, 16)
		lg, fails := since(m)
		if err != nil {
			rs = append(rs, fmt.Sprintf("%d=error", id))
			continue
		}
		rs = append(rs, fmt.Sprintf("%d=%s/%s", id, eqList(c, out), idsStr(lg, fails)))
	}
	m := markNow()
	out, err := set.ComputePrimaryPRF(c.msg, 16)
	lg, fails := since(m)
	if err != nil {
		rs = append(rs, "pp=error")
	} else {
		r.prodOut, r.prodIDs = out, lg
		rs = append(rs, fmt.Sprintf("pp=%s/%s", eqList(c, out), idsStr(lg, fails)))
	}
	return "ids:" + strings.Join(is, "+") + ";prim:" + strconv.FormatUint(uint64(set.PrimaryID), 10) + "|" + strings.Join(rs, ",")
}

func c05Run(in string) string {
	return evaluate(parseCase(in)).obs
}

func init() {
	hx.Register("C05", &hx.Prop{Gen: c05Gen, Run: c05Run, Check: c05Check, Class: c05Class})
}

var _ = registry.GetKeyManager
