package c05

import (
	"bytes"
	"fmt"
	"sort"
	"strings"

	"github.com/tink-crypto/tink-go/v2/internal/protoserialization"
	"github.com/tink-crypto/tink-go/v2/key"
	"github.com/tink-crypto/tink-go/v2/prf"
	tinkpb "github.com/tink-crypto/tink-go/v2/proto/tink_go_proto"
)

// Direct property oracle: needs neither the model nor the verdict table of
// the case line.  It rebuilds the keyset, takes the single-key primitive of
// every entry straight from the entry's key object, and checks the property
// as stated:
//   - an input is accepted iff it is valid under some ENABLED entry whose
//     prefix it carries (a full primitive checks its own prefix; for a legacy
//     primitive: the input starts with the entry's prefix and the raw
//     primitive accepts the rest — of data||0x00 for LEGACY MAC/signature
//     keys); for MACs, tags of 5 bytes or fewer are refused by design;
//   - the plaintext returned is the one an enabled validating key returns;
//   - the logged id names an enabled key under which the input is valid;
//   - the produced output carries the primary's prefix, is valid under the
//     primary, is logged under the primary's id and is accepted back.

type entSingle struct {
	e      entInfo
	pt     byte
	prefix []byte // written out from (prefix type, ENTRY id), not taken from the key
	s      *single
}

func ptOfKey(k key.Key) byte {
	ks, err := protoserialization.SerializeKey(k)
	if err != nil {
		panic("SerializeKey: " + err.Error())
	}
	switch ks.OutputPrefixType() {
	case tinkpb.OutputPrefixType_TINK:
		return 'T'
	case tinkpb.OutputPrefixType_CRUNCHY:
		return 'C'
	case tinkpb.OutputPrefixType_LEGACY:
		return 'L'
	}
	return 'R'
}

func entSingles(cd *classDef, ents []entInfo) []*entSingle {
	var out []*entSingle
	for _, e := range ents {
		p := &poolKey{key: e.key, pub: e.pub}
		s, err := singleOf(cd, p)
		if err != nil {
			panic("single of entry: " + err.Error())
		}
		pt := ptOfKey(e.key)
		var pf []byte
		if usesPrefix(cd) {
			pf = expectedPrefix(pt, e.id)
		}
		out = append(out, &entSingle{e: e, pt: pt, prefix: pf, s: s})
	}
	return out
}

// validUnder: is x valid under entry es, in the sense of the property.
func validUnder(cd *classDef, es *entSingle, x, msg, aad []byte) (bool, []byte) {
	if cd.name == "mac" && len(x) <= 5 {
		return false, nil
	}
	if !es.s.legacy {
		return acceptWith(cd, es.s.acc, x, msg, aad)
	}
	if !bytes.HasPrefix(x, es.prefix) {
		return false, nil
	}
	m, a := dataArg(cd, msg, aad, usesLegacyData(cd) && es.pt == 'L')
	if !usesLegacyData(cd) {
		m, a = msg, aad
	}
	return acceptWith(cd, es.s.acc, x[len(es.prefix):], m, a)
}

func c05Check(in, obs string) string {
	if strings.HasPrefix(obs, "PANIC") {
		return obs
	}
	c := parseCase(in)
	r := evaluate(c)
	if r.b.priv == nil {
		if strings.HasPrefix(c.build, "P:") {
			return "a valid explicit keyset was not accepted: " + r.b.note
		}
		return ""
	}
	nprim := 0
	seen := map[uint32]bool{}
	for _, e := range r.ents {
		if e.primary {
			nprim++
			if e.status != 'E' {
				return "primary entry is not enabled"
			}
		}
		if seen[e.id] {
			return fmt.Sprintf("duplicate key id %d in handle", e.id)
		}
		seen[e.id] = true
	}
	if nprim != 1 {
		return fmt.Sprintf("%d primary entries", nprim)
	}
	es := entSingles(c.cd, r.ents)
	var primary *entSingle
	for _, e := range es {
		if e.e.primary {
			primary = e
		}
		if !bytes.Equal(e.prefix, e.e.prefix) {
			return fmt.Sprintf("key of entry %d reports output prefix %x, the property demands %x", e.e.id, e.e.prefix, e.prefix)
		}
	}
	if c.cd.name == "prf" {
		return checkPRF(c, r, es, primary)
	}
	if r.w == nil {
		return "factory refused a valid keyset"
	}
	judge := func(what string, x []byte, ok bool, ids []uint32, pt []byte) string {
		var validIDs []uint32
		var pts [][]byte
		for _, e := range es {
			if e.e.status != 'E' {
				continue
			}
			if v, p := validUnder(c.cd, e, x, c.msg, c.aad); v {
				validIDs = append(validIDs, e.e.id)
				pts = append(pts, p)
			}
		}
		if ok && len(validIDs) == 0 {
			return fmt.Sprintf("%s %x accepted although it is valid under no enabled key of the keyset", what, x)
		}
		if !ok && len(validIDs) > 0 {
			return fmt.Sprintf("%s %x rejected although it is valid under enabled key %d", what, x, validIDs[0])
		}
		if !ok {
			return ""
		}
		if hasPlaintext(c.cd) {
			found := false
			for _, p := range pts {
				if bytes.Equal(p, pt) {
					found = true
				}
			}
			if !found {
				return fmt.Sprintf("%s: returned plaintext %x is not what an enabled validating key returns", what, pt)
			}
		}
		if c.cd.logs {
			if len(ids) != 1 {
				return fmt.Sprintf("%s accepted but %d success events were logged", what, len(ids))
			}
			named := false
			for _, v := range validIDs {
				if v == ids[0] {
					named = true
				}
			}
			if !named {
				return fmt.Sprintf("%s accepted, logged key id %d is not an enabled key under which it is valid (%v)", what, ids[0], validIDs)
			}
		}
		return ""
	}
	for j, inp := range c.inputs {
		if v := judge("input "+inp.tag, inp.x, r.acc[j], r.accIDs[j], r.accPT[j]); v != "" {
			return v
		}
	}
	// produce
	if r.prodOut == nil {
		return "the wrapped primitive failed to produce"
	}
	if !bytes.HasPrefix(r.prodOut, primary.prefix) {
		return fmt.Sprintf("output %x does not carry the primary's prefix %x", r.prodOut, primary.prefix)
	}
	pm, pa := c.msg, c.aad
	if c.cd.name == "jwtmac" || c.cd.name == "jwtsig" {
		pm = c.msg
	}
	if c.cd.name == "mac" && len(r.prodOut) <= 5 {
		// a RAW legacy MAC with a tag of 5 bytes or fewer: produced by the primary but
		// unverifiable by design (wrappedMAC.VerifyMAC); compare with the raw primitive
		ok, _ := acceptWith(c.cd, primary.s.acc, r.prodOut[len(primary.prefix):], pm, pa)
		if !ok {
			return "short MAC not produced by the primary"
		}
	} else {
		if v, _ := validUnder(c.cd, primary, r.prodOut, pm, pa); !v {
			return fmt.Sprintf("output %x is not valid under the primary key %d", r.prodOut, primary.e.id)
		}
		m := markNow()
		ok, pt := acceptWith(c.cd, r.w.acc, r.prodOut, c.msg, c.aad)
		ids, _ := since(m, accAPIs(c.cd)...)
		if !ok {
			return fmt.Sprintf("output %x of the wrapped primitive is not accepted back", r.prodOut)
		}
		if v := judge("own output", r.prodOut, ok, ids, pt); v != "" {
			return v
		}
		if hasPlaintext(c.cd) && !bytes.Equal(pt, c.msg) {
			return "round trip returned a different plaintext"
		}
	}
	if c.cd.logs && (len(r.prodIDs) != 1 || r.prodIDs[0] != primary.e.id) {
		return fmt.Sprintf("produce logged %v, primary is %d", r.prodIDs, primary.e.id)
	}
	return ""
}

func checkPRF(c *theCase, r *evalOut, es []*entSingle, primary *entSingle) string {
	set, err := prf.NewPRFSet(r.b.priv)
	if err != nil {
		return "factory refused a valid keyset"
	}
	var want, got []uint32
	for _, e := range es {
		if e.e.status == 'E' {
			want = append(want, e.e.id)
		}
	}
	for id := range set.PRFs {
		got = append(got, id)
	}
	sort.Slice(want, func(i, j int) bool { return want[i] < want[j] })
	sort.Slice(got, func(i, j int) bool { return got[i] < got[j] })
	if fmt.Sprint(want) != fmt.Sprint(got) {
		return fmt.Sprintf("PRF set has ids %v, enabled keys are %v", got, want)
	}
	if set.PrimaryID != primary.e.id {
		return fmt.Sprintf("PrimaryID %d, primary key is %d", set.PrimaryID, primary.e.id)
	}
	for _, e := range es {
		if e.e.status != 'E' {
			continue
		}
		exp, err := produceWith(c.cd, e.s.prod, c.msg, c.aad)
		if err != nil {
			return "single-key PRF failed"
		}
		m := markNow()
		out, err := set.PRFs[e.e.id].ComputePRF(c.msg, 16)
		ids, _ := since(m)
		if err != nil || !bytes.Equal(out, exp) {
			return fmt.Sprintf("PRFs[%d] does not compute with key %d", e.e.id, e.e.id)
		}
		if len(ids) != 1 || ids[0] != e.e.id {
			return fmt.Sprintf("PRFs[%d] logged %v", e.e.id, ids)
		}
		if e == primary {
			m := markNow()
			out, err := set.ComputePrimaryPRF(c.msg, 16)
			ids, _ := since(m)
			if err != nil || !bytes.Equal(out, exp) {
				return "ComputePrimaryPRF does not compute with the primary key"
			}
			if len(ids) != 1 || ids[0] != e.e.id {
				return fmt.Sprintf("ComputePrimaryPRF logged %v, primary is %d", ids, e.e.id)
			}
		}
	}
	return ""
}
