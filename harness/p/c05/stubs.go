package c05

import (
	"bytes"
	"crypto/sha256"
	"errors"

	"github.com/tink-crypto/tink-go/v2/core/registry"
	tinkpb "github.com/tink-crypto/tink-go/v2/proto/tink_go_proto"
	"google.golang.org/protobuf/proto"
)

// Stub key types served by key managers of core/registry only.  Keys of these
// types have no primitive constructor in internal/primitiveregistry, so
// RegistryConfig.PrimitiveFromKey answers with a *legacy* (non-full)
// primitive and every factory wraps it in its full*Adapter: this is how the
// legacy branches of the factories are exercised.  The primitives are toy
// (keyed SHA-256) but deterministic, key dependent and input dependent, which
// is all the selection rule can observe.

const (
	stubAeadURL    = "type.googleapis.com/verif.c05.StubAead"
	stubDaeadURL   = "type.googleapis.com/verif.c05.StubDaead"
	stubMacURL     = "type.googleapis.com/verif.c05.StubMac"
	stubSigPrivURL = "type.googleapis.com/verif.c05.StubSigPriv"
	stubSigPubURL  = "type.googleapis.com/verif.c05.StubSigPub"
	stubHybPrivURL = "type.googleapis.com/verif.c05.StubHybPriv"
	stubHybPubURL  = "type.googleapis.com/verif.c05.StubHybPub"
)

func stubTag(k []byte, parts ...[]byte) []byte {
	h := sha256.New()
	h.Write([]byte{byte(len(k))})
	h.Write(k)
	for _, p := range parts {
		var l [4]byte
		l[0], l[1], l[2], l[3] = byte(len(p)>>24), byte(len(p)>>16), byte(len(p)>>8), byte(len(p))
		h.Write(l[:])
		h.Write(p)
	}
	return h.Sum(nil)[:12]
}

// stubSeal is used for AEAD, DAEAD and hybrid encryption: pt xor pad || tag.
type stubSeal struct{ k []byte }

func (s *stubSeal) seal(pt, ad []byte) ([]byte, error) {
	out := make([]byte, 0, len(pt)+12)
	for i, b := range pt {
		out = append(out, b^s.k[i%len(s.k)]^0x5a)
	}
	return append(out, stubTag(s.k, pt, ad)...), nil
}
func (s *stubSeal) open(ct, ad []byte) ([]byte, error) {
	if len(ct) < 12 {
		return nil, errors.New("stub: too short")
	}
	body := ct[:len(ct)-12]
	pt := make([]byte, len(body))
	for i, b := range body {
		pt[i] = b ^ s.k[i%len(s.k)] ^ 0x5a
	}
	if !bytes.Equal(stubTag(s.k, pt, ad), ct[len(ct)-12:]) {
		return nil, errors.New("stub: bad tag")
	}
	return pt, nil
}

type stubAEAD struct{ stubSeal }

func (s *stubAEAD) Encrypt(pt, ad []byte) ([]byte, error) { return s.seal(pt, ad) }
func (s *stubAEAD) Decrypt(ct, ad []byte) ([]byte, error) { return s.open(ct, ad) }

type stubDAEAD struct{ stubSeal }

func (s *stubDAEAD) EncryptDeterministically(pt, ad []byte) ([]byte, error) { return s.seal(pt, ad) }
func (s *stubDAEAD) DecryptDeterministically(ct, ad []byte) ([]byte, error) { return s.open(ct, ad) }

// hybrid stubs must NOT implement tink.AEAD (the factory rejects those).
type stubHybEnc struct{ s stubSeal }

func (s *stubHybEnc) Encrypt(pt, info []byte) ([]byte, error) { return s.s.seal(pt, info) }

type stubHybDec struct{ s stubSeal }

func (s *stubHybDec) Decrypt(ct, info []byte) ([]byte, error) { return s.s.open(ct, info) }

type stubMAC struct{ k []byte }

// tag length 12, except keys whose first byte is below 48: 4, 5 or 6 bytes
// (wrappedMAC.VerifyMAC refuses every tag of 5 bytes or fewer)
func (s *stubMAC) tag(data []byte) []byte {
	t := stubTag(s.k, data)
	if s.k[0] < 48 {
		return t[:4+int(s.k[0])%3]
	}
	return t
}
func (s *stubMAC) ComputeMAC(data []byte) ([]byte, error) { return s.tag(data), nil }
func (s *stubMAC) VerifyMAC(mac, data []byte) error {
	if !bytes.Equal(mac, s.tag(data)) {
		return errors.New("stub: bad mac")
	}
	return nil
}

type stubSigner struct{ k []byte }

func (s *stubSigner) Sign(data []byte) ([]byte, error) { return stubTag(s.k, data), nil }

type stubVerifier struct{ k []byte }

func (s *stubVerifier) Verify(sig, data []byte) error {
	if !bytes.Equal(sig, stubTag(s.k, data)) {
		return errors.New("stub: bad signature")
	}
	return nil
}

type stubKM struct {
	url    string
	pubURL string // non-empty for private key managers
	mk     func(k []byte) any
}

func (m *stubKM) Primitive(serializedKey []byte) (any, error) {
	if len(serializedKey) == 0 {
		return nil, errors.New("stub: empty key")
	}
	return m.mk(bytes.Clone(serializedKey)), nil
}
func (m *stubKM) NewKey(serializedKeyFormat []byte) (proto.Message, error) {
	return nil, errors.New("stub: not supported")
}
func (m *stubKM) DoesSupport(typeURL string) bool { return typeURL == m.url }
func (m *stubKM) TypeURL() string                 { return m.url }
func (m *stubKM) NewKeyData(serializedKeyFormat []byte) (*tinkpb.KeyData, error) {
	return nil, errors.New("stub: not supported")
}

type stubPrivKM struct{ stubKM }

func (m *stubPrivKM) PublicKeyData(serializedKey []byte) (*tinkpb.KeyData, error) {
	return &tinkpb.KeyData{TypeUrl: m.pubURL, Value: bytes.Clone(serializedKey), KeyMaterialType: tinkpb.KeyData_ASYMMETRIC_PUBLIC}, nil
}

func registerStubs() {
	must := func(err error) {
		if err != nil {
			panic(err)
		}
	}
	must(registry.RegisterKeyManager(&stubKM{url: stubAeadURL, mk: func(k []byte) any { return &stubAEAD{stubSeal{k}} }}))
	must(registry.RegisterKeyManager(&stubKM{url: stubDaeadURL, mk: func(k []byte) any { return &stubDAEAD{stubSeal{k}} }}))
	must(registry.RegisterKeyManager(&stubKM{url: stubMacURL, mk: func(k []byte) any { return &stubMAC{k} }}))
	must(registry.RegisterKeyManager(&stubPrivKM{stubKM{url: stubSigPrivURL, pubURL: stubSigPubURL, mk: func(k []byte) any { return &stubSigner{k} }}}))
	must(registry.RegisterKeyManager(&stubKM{url: stubSigPubURL, mk: func(k []byte) any { return &stubVerifier{k} }}))
	must(registry.RegisterKeyManager(&stubPrivKM{stubKM{url: stubHybPrivURL, pubURL: stubHybPubURL, mk: func(k []byte) any { return &stubHybDec{stubSeal{k}} }}}))
	must(registry.RegisterKeyManager(&stubKM{url: stubHybPubURL, mk: func(k []byte) any { return &stubHybEnc{stubSeal{k}} }}))
}

func stubKeyData(url string, k []byte) *tinkpb.KeyData {
	mt := tinkpb.KeyData_SYMMETRIC
	if url == stubSigPrivURL || url == stubHybPrivURL {
		mt = tinkpb.KeyData_ASYMMETRIC_PRIVATE
	}
	return &tinkpb.KeyData{TypeUrl: url, Value: bytes.Clone(k), KeyMaterialType: mt}
}
