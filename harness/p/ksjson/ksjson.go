// Package ksjson writes the JSON text of tinkpb.Keyset / tinkpb.EncryptedKeyset
// messages in every spelling protojson accepts, and with single faults, for the
// C12 and C14 harnesses (the JSON keyset reader of keyset/json_io.go).  It
// never uses protojson to WRITE (its output is deliberately unstable): the
// text is assembled here from the message.
//
// A text comes with a tag "<family>" and an expectation: "R" when protojson
// must refuse it by construction (unknown field, duplicate field, wrong JSON
// type, uint32 out of range, unknown enum name, bad base64 character, JSON
// syntax), "A" when protojson must ACCEPT it by construction although it is not
// JSON (the dangling exponent marker, see the dangling-e faults), "" when the
// verdict is left to the comparison of model and reader.
package ksjson

import (
	"encoding/base64"
	"fmt"
	"strconv"
	"strings"

	"github.com/tink-crypto/tink-go/v2/verifharness/hx"

	tinkpb "github.com/tink-crypto/tink-go/v2/proto/tink_go_proto"
)

// Node is a JSON value under construction: an object (members), an array
// (elements) or raw text.  Members of objects built from a message carry the
// kind of the proto field they spell.
type Node struct {
	Kind  byte // 'o', 'a', 'r'
	Mem   []*Member
	Elems []*Node
	Raw   string
	Msg   string // for objects: the message it spells (keyset, key, keydata, encrypted, info, keyinfo)
}

type Member struct {
	Name  string // the JSON string literal of the name, quotes included
	Val   *Node
	Field string // camelCase name of the field ("" = not a field)
	Snake string // snake_case name of the field
	FKind string // u32 | enum:status | enum:prefix | enum:material | str | bytes | msg | rep
	U32   uint32 // the value, for u32 fields
	Enum  int32  // the value, for enum fields
	EName string // its name ("" = none)
	Bytes []byte // the value, for bytes fields
}

func raw(s string) *Node { return &Node{Kind: 'r', Raw: s} }

// Style: which of the accepted spellings to use.
type Style struct {
	Snake   int  // 0 lowerCamelCase names, 1 proto names, 2 mixed
	Enum    int  // 0 name, 1 number, 2 "1.0", 3 "1e0", 4 mixed
	U32     int  // 0 number, 1 string, 2 "7.0", 3 exponent forms, 4 mixed
	B64     int  // 0 std padded, 1 std raw, 2 url padded, 3 url raw, 4 mixed
	Shuffle bool // member order
	Space   bool // JSON whitespace between tokens
	Nulls   bool // unset scalar fields written as null
	Escape  bool // \u escapes in names and strings
}

func RandomStyle(r *hx.Rng) Style {
	return Style{Snake: r.Intn(3), Enum: r.Intn(5), U32: r.Intn(5), B64: r.Intn(5), Shuffle: r.Chance(50),
		Space: r.Chance(40), Nulls: r.Chance(25), Escape: r.Chance(20)}
}

func quote(s string, esc bool, r *hx.Rng) string {
	var sb strings.Builder
	sb.WriteByte('"')
	for _, c := range []byte(s) {
		switch {
		case c == '"' || c == '\\':
			sb.WriteByte('\\')
			sb.WriteByte(c)
		case c < 0x20:
			fmt.Fprintf(&sb, `\u%04x`, c)
		case esc && c < 0x80 && r.Chance(25):
			fmt.Fprintf(&sb, `\u%04X`, c)
		default:
			sb.WriteByte(c)
		}
	}
	sb.WriteByte('"')
	return sb.String()
}

func pickN(r *hx.Rng, mode, n int) int {
	if mode >= n {
		return r.Intn(n)
	}
	return mode
}

func (st Style) name(r *hx.Rng, camel, snake string) string {
	n := camel
	if pickN(r, st.Snake, 2) == 1 {
		n = snake
	}
	return quote(n, st.Escape, r)
}

// U32Text: spellings of a uint32 that denote v.
func U32Text(r *hx.Rng, mode int, v uint32) string {
	d := strconv.FormatUint(uint64(v), 10)
	switch pickN(r, mode, 4) {
	case 1:
		return `"` + d + `"`
	case 2:
		return d + hx.PickS(r, []string{".0", ".000", ".0e0"})
	case 3:
		switch r.Intn(5) {
		case 0:
			return d + hx.PickS(r, []string{"e0", "E0", "e+0", "E-0", "e00"})
		case 1:
			if v == 0 { // "00e-1" would be a leading zero: not JSON
				return "0e-1"
			}
			return d + "0e-1"
		case 2:
			if v == 0 {
				return "0E-3"
			}
			return d + "000E-3"
		case 3:
			if v > 0 { // 0.<digits>e<len>
				return "0." + d + "e" + strconv.Itoa(len(d))
			}
			return "0.0e5"
		default:
			return `"` + d + `e0"`
		}
	}
	return d
}

func enumText(r *hx.Rng, mode int, name string, v int32) string {
	d := strconv.FormatInt(int64(v), 10)
	switch pickN(r, mode, 4) {
	case 0:
		if name != "" {
			return `"` + name + `"`
		}
	case 2:
		return d + ".0"
	case 3:
		return d + hx.PickS(r, []string{"e0", "E+0", "0e-1"})
	}
	return d
}

// B64Text: spellings of a byte string protojson decodes to b.
func B64Text(r *hx.Rng, mode int, b []byte) string {
	var s string
	switch pickN(r, mode, 4) {
	case 0:
		s = base64.StdEncoding.EncodeToString(b)
	case 1:
		s = base64.RawStdEncoding.EncodeToString(b)
	case 2:
		s = base64.URLEncoding.EncodeToString(b)
	default:
		s = base64.RawURLEncoding.EncodeToString(b)
	}
	return `"` + s + `"`
}

func enumName(kind string, v int32) string {
	switch kind {
	case "enum:status":
		if n, ok := tinkpb.KeyStatusType_name[v]; ok {
			return n
		}
	case "enum:prefix":
		if n, ok := tinkpb.OutputPrefixType_name[v]; ok {
			return n
		}
	case "enum:material":
		if n, ok := tinkpb.KeyData_KeyMaterialType_name[v]; ok {
			return n
		}
	}
	return ""
}

type builder struct {
	r  *hx.Rng
	st Style
}

func (b *builder) u32(camel, snake string, v uint32) *Member {
	if v == 0 && b.st.Nulls && b.r.Chance(50) {
		return &Member{Name: b.st.name(b.r, camel, snake), Val: raw("null"), Field: camel, Snake: snake, FKind: "u32"}
	}
	return &Member{Name: b.st.name(b.r, camel, snake), Val: raw(U32Text(b.r, b.st.U32, v)), Field: camel, Snake: snake, FKind: "u32", U32: v}
}
func (b *builder) enum(camel, snake, kind string, v int32) *Member {
	n := enumName(kind, v)
	if v == 0 && b.st.Nulls && b.r.Chance(50) {
		return &Member{Name: b.st.name(b.r, camel, snake), Val: raw("null"), Field: camel, Snake: snake, FKind: kind, EName: n}
	}
	return &Member{Name: b.st.name(b.r, camel, snake), Val: raw(enumText(b.r, b.st.Enum, n, v)), Field: camel, Snake: snake, FKind: kind, Enum: v, EName: n}
}
func (b *builder) str(camel, snake, v string) *Member {
	return &Member{Name: b.st.name(b.r, camel, snake), Val: raw(quote(v, b.st.Escape, b.r)), Field: camel, Snake: snake, FKind: "str"}
}
func (b *builder) bytes(camel, snake string, v []byte) *Member {
	return &Member{Name: b.st.name(b.r, camel, snake), Val: raw(B64Text(b.r, b.st.B64, v)), Field: camel, Snake: snake, FKind: "bytes", Bytes: v}
}
func (b *builder) obj(msg string, ms ...*Member) *Node {
	var out []*Member
	for _, m := range ms {
		if m != nil {
			out = append(out, m)
		}
	}
	if b.st.Shuffle {
		for i := len(out) - 1; i > 0; i-- {
			j := b.r.Intn(i + 1)
			out[i], out[j] = out[j], out[i]
		}
	}
	return &Node{Kind: 'o', Mem: out, Msg: msg}
}

// Keyset builds the tree of a keyset message in style st.
func Keyset(ks *tinkpb.Keyset, r *hx.Rng, st Style) *Node {
	b := &builder{r, st}
	arr := &Node{Kind: 'a'}
	for _, k := range ks.GetKey() {
		var kd *Member
		if k.KeyData != nil {
			d := k.KeyData
			kd = &Member{Name: st.name(r, "keyData", "key_data"), Field: "keyData", Snake: "key_data", FKind: "msg",
				Val: b.obj("keydata", b.str("typeUrl", "type_url", d.GetTypeUrl()), b.bytes("value", "value", d.GetValue()),
					b.enum("keyMaterialType", "key_material_type", "enum:material", int32(d.GetKeyMaterialType())))}
		} else if st.Nulls {
			kd = &Member{Name: st.name(r, "keyData", "key_data"), Field: "keyData", Snake: "key_data", FKind: "msg", Val: raw("null")}
		}
		arr.Elems = append(arr.Elems, b.obj("key", kd, b.enum("status", "status", "enum:status", int32(k.GetStatus())),
			b.u32("keyId", "key_id", k.GetKeyId()), b.enum("outputPrefixType", "output_prefix_type", "enum:prefix", int32(k.GetOutputPrefixType()))))
	}
	return b.obj("keyset", b.u32("primaryKeyId", "primary_key_id", ks.GetPrimaryKeyId()),
		&Member{Name: st.name(r, "key", "key"), Field: "key", Snake: "key", FKind: "rep", Val: arr})
}

// Encrypted builds the tree of an EncryptedKeyset message.
func Encrypted(e *tinkpb.EncryptedKeyset, r *hx.Rng, st Style) *Node {
	b := &builder{r, st}
	var info *Member
	if e.KeysetInfo != nil {
		arr := &Node{Kind: 'a'}
		for _, k := range e.KeysetInfo.GetKeyInfo() {
			arr.Elems = append(arr.Elems, b.obj("keyinfo", b.str("typeUrl", "type_url", k.GetTypeUrl()),
				b.enum("status", "status", "enum:status", int32(k.GetStatus())), b.u32("keyId", "key_id", k.GetKeyId()),
				b.enum("outputPrefixType", "output_prefix_type", "enum:prefix", int32(k.GetOutputPrefixType()))))
		}
		info = &Member{Name: st.name(r, "keysetInfo", "keyset_info"), Field: "keysetInfo", Snake: "keyset_info", FKind: "msg",
			Val: b.obj("info", b.u32("primaryKeyId", "primary_key_id", e.KeysetInfo.GetPrimaryKeyId()),
				&Member{Name: st.name(r, "keyInfo", "key_info"), Field: "keyInfo", Snake: "key_info", FKind: "rep", Val: arr})}
	} else if st.Nulls {
		info = &Member{Name: st.name(r, "keysetInfo", "keyset_info"), Field: "keysetInfo", Snake: "keyset_info", FKind: "msg", Val: raw("null")}
	}
	return b.obj("encrypted", b.bytes("encryptedKeyset", "encrypted_keyset", e.GetEncryptedKeyset()), info)
}

// Text renders a tree; spaced = random JSON whitespace around the tokens.
func (n *Node) Text(r *hx.Rng, spaced bool) string {
	ws := func() string {
		if !spaced || r.Chance(60) {
			return ""
		}
		return hx.PickS(r, []string{" ", "\n", "\t", "\r\n", "  ", " \n\t"})
	}
	var sb strings.Builder
	var walk func(n *Node)
	walk = func(n *Node) {
		switch n.Kind {
		case 'r':
			sb.WriteString(n.Raw)
		case 'a':
			sb.WriteString("[" + ws())
			for i, e := range n.Elems {
				if i > 0 {
					sb.WriteString(ws() + "," + ws())
				}
				walk(e)
			}
			sb.WriteString(ws() + "]")
		default:
			sb.WriteString("{" + ws())
			for i, m := range n.Mem {
				if i > 0 {
					sb.WriteString(ws() + "," + ws())
				}
				sb.WriteString(m.Name + ws() + ":" + ws())
				walk(m.Val)
			}
			sb.WriteString(ws() + "}")
		}
	}
	sb.WriteString(ws())
	walk(n)
	sb.WriteString(ws())
	return sb.String()
}

// objects of the tree, in pre-order
func (n *Node) objects() []*Node {
	var out []*Node
	var walk func(n *Node)
	walk = func(n *Node) {
		switch n.Kind {
		case 'o':
			out = append(out, n)
			for _, m := range n.Mem {
				walk(m.Val)
			}
		case 'a':
			for _, e := range n.Elems {
				walk(e)
			}
		}
	}
	walk(n)
	return out
}

// members of kind k (prefix match), with the object they sit in
func (n *Node) members(k string) (ms []*Member, os []*Node) {
	for _, o := range n.objects() {
		for _, m := range o.Mem {
			if strings.HasPrefix(m.FKind, k) && m.Val.Raw != "null" {
				ms = append(ms, m)
				os = append(os, o)
			}
		}
	}
	return
}

// Fault is one single-fault (or exotic but valid) manipulation of a tree.
type Fault struct {
	Name  string
	Apply func(n *Node, r *hx.Rng) (string, bool) // expectation ("R" or ""), applicable
}

func replaceIn(kind string, vals func(m *Member, r *hx.Rng) (string, string)) func(n *Node, r *hx.Rng) (string, bool) {
	return func(n *Node, r *hx.Rng) (string, bool) {
		ms, _ := n.members(kind)
		if len(ms) == 0 {
			return "", false
		}
		m := ms[r.Intn(len(ms))]
		v, exp := vals(m, r)
		m.Val = raw(v)
		return exp, true
	}
}

func pickPair(r *hx.Rng, xs [][2]string) (string, string) {
	p := xs[r.Intn(len(xs))]
	return p[0], p[1]
}

// Faults: every item of the list the property names.
func Faults() []Fault {
	return []Fault{
		{"unknown-field", func(n *Node, r *hx.Rng) (string, bool) {
			os := n.objects()
			o := os[r.Intn(len(os))]
			nm := hx.PickS(r, []string{`"x"`, `"extra"`, `"[x]"`, `"@type"`, `"PrimaryKeyId"`, `"primarykeyid"`, `"KEY"`, `"keys"`, `"key_Id"`, `"keyid"`,
				`"typeURL"`, `"Value"`, `""`, `"key "`, `" key"`, `"keyData."`, `"primary-key-id"`, `"encryptedKeyset2"`, `"status\u0000"`, `"valué"`})
			val := hx.PickS(r, []string{"1", "null", `"a"`, "{}", "[]", "true", `{"a":[1,{"b":null}]}`})
			i := r.Intn(len(o.Mem) + 1)
			o.Mem = append(o.Mem[:i:i], append([]*Member{{Name: nm, Val: raw(val)}}, o.Mem[i:]...)...)
			return "R", true
		}},
		{"duplicate-field", func(n *Node, r *hx.Rng) (string, bool) {
			os := n.objects()
			o := os[r.Intn(len(os))]
			if len(o.Mem) == 0 {
				return "", false
			}
			m := o.Mem[r.Intn(len(o.Mem))]
			if m.Field == "" {
				return "", false
			}
			d := *m
			switch r.Intn(4) {
			case 0: // the other spelling of the same field
				if m.Name == `"`+m.Field+`"` {
					d.Name = `"` + m.Snake + `"`
				} else {
					d.Name = `"` + m.Field + `"`
				}
			case 1: // null counts
				d.Val = raw("null")
			case 2: // escaped spelling of the same name
				d.Name = `"\u00` + fmt.Sprintf("%02x", m.Field[0]) + m.Field[1:] + `"`
			}
			i := r.Intn(len(o.Mem) + 1)
			o.Mem = append(o.Mem[:i:i], append([]*Member{&d}, o.Mem[i:]...)...)
			return "R", true
		}},
		{"wrong-type-u32", replaceIn("u32", func(m *Member, r *hx.Rng) (string, string) {
			return hx.PickS(r, []string{"true", "false", "[]", "{}", `""`, `"abc"`, "[1]", `{"a":1}`, `"NaN"`, `"Infinity"`}), "R"
		})},
		{"wrong-type-enum", replaceIn("enum", func(m *Member, r *hx.Rng) (string, string) {
			return hx.PickS(r, []string{"true", "[]", "{}", `["ENABLED"]`, `{"a":1}`, "false"}), "R"
		})},
		{"wrong-type-string", replaceIn("str", func(m *Member, r *hx.Rng) (string, string) {
			return hx.PickS(r, []string{"1", "true", "[]", "{}", `["a"]`, "0.5"}), "R"
		})},
		{"wrong-type-bytes", replaceIn("bytes", func(m *Member, r *hx.Rng) (string, string) {
			return hx.PickS(r, []string{"1", "true", "[]", "{}", `["AA=="]`, "0"}), "R"
		})},
		{"wrong-type-message", replaceIn("msg", func(m *Member, r *hx.Rng) (string, string) {
			return hx.PickS(r, []string{"1", `"x"`, "[]", "true", "[{}]", `""`}), "R"
		})},
		{"wrong-type-repeated", replaceIn("rep", func(m *Member, r *hx.Rng) (string, string) {
			return hx.PickS(r, []string{"{}", `"x"`, "1", "[null]", "[1]", "[[]]", `["a"]`, "[{},null]", "true"}), "R"
		})},
		{"u32-out-of-range", replaceIn("u32", func(m *Member, r *hx.Rng) (string, string) {
			d := strconv.FormatUint(uint64(m.U32), 10)
			return hx.PickS(r, []string{"-1", "4294967296", `"4294967296"`, "1e10", "-" + d + "1", d + ".5", "1e-1", "0.5", `"-1"`, "18446744073709551616",
				"0.000000000000000000001e21", "1e2147483648", "1e-2147483649", "429496729600e-2" + "0", "4294967295.1", "99999999999999999999999"}), "R"
		})},
		{"u32-bad-string", replaceIn("u32", func(m *Member, r *hx.Rng) (string, string) {
			d := strconv.FormatUint(uint64(m.U32), 10)
			q := func(a, b string) string { return "\"" + a + d + b + "\"" }
			// strings.TrimSpace: Unicode White_Space at either end; then the content must START with a number token
			return hx.PickS(r, []string{q(" ", ""), q("", " "), q("", `\n`), q(`\t`, ""), q("", "\u00a0"), q("", "\u2028"), q("", "\u3000"), q("", "\u2003"),
				q("", "\u1680"), q("", "\u202f"), q("", "\u205f"), q("\u00a0", ""), q("", `\u0085`), q("", `\u000b`), q("", `\f`),
				q("+", ""), q("0x", ""), q("0", "") + "", q("", "x"), q("", "_"), q("", "."), q("", "e"), q("", "-"), q(".", ""), q(`\"`, `\"`)}), "R"
		})},
		// accepted oddities: the inner decoder reads ONE token and ignores what follows a delimiter
		{"u32-odd-accepted", replaceIn("u32", func(m *Member, r *hx.Rng) (string, string) {
			d := strconv.FormatUint(uint64(m.U32), 10)
			q := func(b string) string { return "\"" + d + b + "\"" }
			return hx.PickS(r, []string{q(","), q(" 13"), q("]"), q("}garbage"), q(":"), q(`\t3`), q("\u200b"), q("\ufeff"), q(`\ufeff`),
				q(` \"`), q("\u00e9"), q(".0 x"), q("e0,e0"), q(" \u00a0x"), d + ".0", d + "e0", d + "00e-2"}), ""
		})},
		// protobuf-go leniency (NOT JSON, not a Tink rule): parseNumber cuts "<int>[.<frac>]e" off as a Number
		// token when a delimiter byte follows, and Token.Uint / Token.Int (parseNumberParts) ignore the bare
		// marker: the field reads as the number.  In the string form the inner decoder sees the same token
		// when a delimiter follows inside the string ("5e," "5e x"), not at its end ("5e").
		{"dangling-e-u32", replaceIn("u32", func(m *Member, r *hx.Rng) (string, string) {
			d := strconv.FormatUint(uint64(m.U32), 10)
			q := func(b string) string { return "\"" + d + b + "\"" }
			return hx.PickS(r, []string{d + "e", d + "E", d + ".0e", d + ".000E", d + "e", d + "E", q("e,"), q("e x"), q("E]"), q("e:"), q("e/"), q("e 5"), q(".0e,e"), q("E}")}), "A"
		})},
		{"dangling-e-enum", replaceIn("enum", func(m *Member, r *hx.Rng) (string, string) {
			d := strconv.Itoa(int(m.Enum))
			return hx.PickS(r, []string{d + "e", d + "E", d + ".0e", d + ".00E"}), "A"
		})},
		// ... and what is NOT accepted: a sign after the marker (parseNumberParts fails), the marker at the
		// end of the string form, a second marker, white space at the end of the string form
		{"dangling-e-refused", func(n *Node, r *hx.Rng) (string, bool) {
			ms, _ := n.members("u32")
			es, _ := n.members("enum")
			ms = append(ms, es...)
			if len(ms) == 0 {
				return "", false
			}
			m := ms[r.Intn(len(ms))]
			d := strconv.FormatUint(uint64(m.U32), 10)
			if strings.HasPrefix(m.FKind, "enum") {
				d = strconv.Itoa(int(m.Enum))
			}
			q := func(b string) string { return "\"" + d + b + "\"" }
			m.Val = raw(hx.PickS(r, []string{d + "e+", d + "e-", d + "E+", d + "E-", q("e"), q("E"), d + "ee", d + "eE", d + "e5e", d + ".e", q("e "), d + "e+0e", d + ".5e", q("e+,")}))
			return "R", true
		}},
		{"u32-zero-forms", replaceIn("u32", func(m *Member, r *hx.Rng) (string, string) {
			return hx.PickS(r, []string{"-0", "0", "0.0", "-0.0", "0e5", "0e99999999999", "-0e-5", `"-0"`, `"0.000"`, "0E+2147483648", "null"}), ""
		})},
		{"enum-unknown-name", replaceIn("enum", func(m *Member, r *hx.Rng) (string, string) {
			n := m.EName
			if n == "" {
				n = "ENABLED"
			}
			return hx.PickS(r, []string{`"BOGUS"`, `"` + strings.ToLower(n) + `"`, `"` + n + ` "`, `" ` + n + `"`, `""`, `"1"`, `"` + n + `\u0000"`, `"KeyStatusType_` + n + `"`,
				`"` + n[:len(n)-1] + `"`, `"` + n + n + `"`}), "R"
		})},
		{"enum-foreign-name", replaceIn("enum", func(m *Member, r *hx.Rng) (string, string) {
			switch m.FKind {
			case "enum:status":
				return hx.PickS(r, []string{`"TINK"`, `"SYMMETRIC"`, `"UNKNOWN_PREFIX"`, `"RAW"`}), "R"
			case "enum:prefix":
				return hx.PickS(r, []string{`"ENABLED"`, `"REMOTE"`, `"UNKNOWN_STATUS"`}), "R"
			}
			return hx.PickS(r, []string{`"ENABLED"`, `"TINK"`, `"UNKNOWN_PREFIX"`, `"DESTROYED"`}), "R"
		})},
		{"enum-number", replaceIn("enum", func(m *Member, r *hx.Rng) (string, string) {
			return pickPair(r, [][2]string{{"99", ""}, {"-1", ""}, {"0", ""}, {"2147483647", ""}, {"-2147483648", ""}, {"2147483648", "R"}, {"-2147483649", "R"},
				{"1.5", "R"}, {"4294967297", "R"}, {"1e0", ""}, {"3.0", ""}, {"20e-1", ""}, {"1e10", "R"}, {"6", ""}, {"5", ""}, {"-0", ""}})
		})},
		{"enum-other-name", replaceIn("enum", func(m *Member, r *hx.Rng) (string, string) {
			switch m.FKind {
			case "enum:status":
				return `"` + hx.PickS(r, []string{"UNKNOWN_STATUS", "ENABLED", "DISABLED", "DESTROYED"}) + `"`, ""
			case "enum:prefix":
				return `"` + hx.PickS(r, []string{"UNKNOWN_PREFIX", "TINK", "LEGACY", "RAW", "CRUNCHY", "WITH_ID_REQUIREMENT"}) + `"`, ""
			}
			return `"` + hx.PickS(r, []string{"UNKNOWN_KEYMATERIAL", "SYMMETRIC", "ASYMMETRIC_PRIVATE", "ASYMMETRIC_PUBLIC", "REMOTE"}) + `"`, ""
		})},
		{"base64-bad-char", replaceIn("bytes", func(m *Member, r *hx.Rng) (string, string) {
			s := base64.StdEncoding.EncodeToString(m.Bytes)
			i := 0
			if len(s) > 0 {
				i = r.Intn(len(s))
			}
			return `"` + s[:i] + hx.PickS(r, []string{"@", " ", "*", "\\t", ".", ",", "\\u00e9", "~", "\\u0000", "!"}) + s[i:] + `"`, "R"
		})},
		// padding, alphabets, newlines: the verdict is protojson's rule (alphabet by content, padding by length mod 4)
		{"base64-forms", replaceIn("bytes", func(m *Member, r *hx.Rng) (string, string) {
			std, url := base64.StdEncoding.EncodeToString(m.Bytes), base64.URLEncoding.EncodeToString(m.Bytes)
			rawStd, rawURL := base64.RawStdEncoding.EncodeToString(m.Bytes), base64.RawURLEncoding.EncodeToString(m.Bytes)
			ins := func(s, x string) string {
				i := 0
				if len(s) > 0 {
					i = r.Intn(len(s) + 1)
				}
				return s[:i] + x + s[i:]
			}
			return `"` + hx.PickS(r, []string{std, url, rawStd, rawURL, ins(std, `\n`), ins(url, `\r\n`), ins(rawStd, `\n`), ins(rawURL, `\n\n`), std + "=", std + "==", rawStd + "=", rawStd + "===",
				std + `\n`, std + `\r\n\r\n`, rawStd + "A", "=" + std, strings.Replace(std, "=", `=\n`, 1), strings.Replace(std, "==", `=\r=`, 1), std + std, url + rawURL,
				strings.Map(func(c rune) rune {
					if c == '+' {
						return '-'
					}
					return c
				}, std), ins(rawURL, "+"), ins(rawStd, "_"), ins(rawStd, "-"), `\n`, `\n\n\n\n`, "=", "====", "A", "AA", "AAA", "AB==", "AAF="}) + `"`, ""
		})},
		{"null-field", func(n *Node, r *hx.Rng) (string, bool) {
			os := n.objects()
			o := os[r.Intn(len(os))]
			if len(o.Mem) == 0 {
				return "", false
			}
			o.Mem[r.Intn(len(o.Mem))].Val = raw("null")
			return "", true
		}},
		{"missing-field", func(n *Node, r *hx.Rng) (string, bool) {
			os := n.objects()
			o := os[r.Intn(len(os))]
			if len(o.Mem) == 0 {
				return "", false
			}
			i := r.Intn(len(o.Mem))
			o.Mem = append(o.Mem[:i:i], o.Mem[i+1:]...)
			return "", true
		}},
		{"repeated-shapes", replaceIn("rep", func(m *Member, r *hx.Rng) (string, string) {
			return pickPair(r, [][2]string{{"null", ""}, {"[]", ""}, {"[{}]", ""}, {"[{},{}]", ""}, {"[null]", "R"}, {"[{},null]", "R"}, {`[{"keyData":null}]`, ""}, {"[ ]", ""}})
		})},
		{"string-exotic", replaceIn("str", func(m *Member, r *hx.Rng) (string, string) {
			return pickPair(r, [][2]string{{`""`, ""}, {`"\u0000"`, ""}, {`"😀"`, ""}, {"\"\xf0\x9f\x98\x80\"", ""}, {`"\ud83d"`, "R"}, {"\"\xff\"", "R"}, {"\"a\x01b\"", "R"},
				{`"\/\b\f\n\r\t\"\\"`, ""}, {`"\x41"`, "R"}, {"\"\xed\xa0\x80\"", "R"}, {`"type.googleapis.com/google.crypto.tink.AesGcmKey"`, ""}, {"null", ""}})
		})},
	}
}

// TextFaults: manipulations of the rendered text.
type TextFault struct {
	Name string
	F    func(t string, r *hx.Rng) string
	Exp  string
}

func TextFaults() []TextFault {
	return []TextFault{
		{"trailing-data", func(t string, r *hx.Rng) string {
			return t + hx.PickS(r, []string{"x", "}", "{}", ",", "null", " 1", "[]", `"a"`, "\x00", "//", t})
		}, "R"},
		{"trailing-whitespace", func(t string, r *hx.Rng) string { return t + hx.PickS(r, []string{" ", "\n", "\r\n\t ", "  \n"}) }, ""},
		{"leading-whitespace", func(t string, r *hx.Rng) string { return hx.PickS(r, []string{" ", "\n", "\t\r\n"}) + t }, ""},
		{"not-json-whitespace", func(t string, r *hx.Rng) string {
			x := hx.PickS(r, []string{"\f", "\v", "\xef\xbb\xbf", "\xc2\xa0", "\xe2\x80\xa8", "\x00"})
			if r.Chance(50) {
				return x + t
			}
			return t + x
		}, "R"},
		{"truncated", func(t string, r *hx.Rng) string {
			t = strings.TrimRight(t, " \t\r\n")
			if len(t) < 2 {
				return ""
			}
			return t[:1+r.Intn(len(t)-1)]
		}, "R"},
		{"byte-deleted", func(t string, r *hx.Rng) string {
			if len(t) < 2 {
				return t
			}
			i := r.Intn(len(t))
			return t[:i] + t[i+1:]
		}, ""},
		{"byte-inserted", func(t string, r *hx.Rng) string {
			i := r.Intn(len(t) + 1)
			return t[:i] + string(rune(32+r.Intn(95))) + t[i:]
		}, ""},
		{"top-level-not-object", func(t string, r *hx.Rng) string {
			return hx.PickS(r, []string{"[" + t + "]", "null", "[]", `"x"`, "1", "true", "", " ", strconv.Quote(t)})
		}, "R"},
		{"invalid-utf8", func(t string, r *hx.Rng) string {
			i := strings.Index(t, `":"`)
			if i < 0 {
				return t + "\xff"
			}
			return t[:i+3] + hx.PickS(r, []string{"\xff", "\xc3\x28", "\xed\xa0\x80", "\xc0\xaf"}) + t[i+3:]
		}, "R"},
		{"syntax", func(t string, r *hx.Rng) string {
			switch r.Intn(6) {
			case 0:
				return strings.Replace(t, ":", "=", 1)
			case 1:
				return strings.Replace(t, ",", ",,", 1)
			case 2:
				return strings.Replace(t, `"`, `'`, 2)
			case 3:
				return strings.Replace(t, "}", ",}", 1)
			case 4:
				return strings.Replace(t, "[", "[,", 1)
			}
			return strings.Replace(t, ":", ": /*c*/", 1)
		}, "R"},
	}
}

// Case: one text for the message n spells.  kind in [0,100): how often a fault is applied.
func Case(n *Node, r *hx.Rng, faulty bool, spaced bool) (text, tag, exp string) {
	if !faulty {
		return n.Text(r, spaced), "valid", ""
	}
	if r.Chance(25) {
		tfs := TextFaults()
		tf := tfs[r.Intn(len(tfs))]
		t := n.Text(r, spaced)
		out := tf.F(t, r)
		if out == t && tf.Exp == "R" { // the manipulation did not apply to this text
			out = t + "}"
		}
		return out, tf.Name, tf.Exp
	}
	fs := Faults()
	for tries := 0; tries < 20; tries++ {
		f := fs[r.Intn(len(fs))]
		if e, ok := f.Apply(n, r); ok {
			return n.Text(r, spaced), f.Name, e
		}
	}
	return n.Text(r, spaced), "valid", ""
}

// DanglingTexts: the dangling exponent marker on EVERY uint32 / enum field of both
// schemas, bare and (for uint32) in the string form: kind 'K' (Keyset) or 'E'
// (EncryptedKeyset), the text, the expectation.
func DanglingTexts() (out []struct {
	Kind, Text, Exp string
}) {
	add := func(kind, text, exp string) {
		out = append(out, struct{ Kind, Text, Exp string }{kind, text, exp})
	}
	for _, e := range []string{"e", "E", ".0e"} {
		add("K", `{"primaryKeyId":1`+e+`}`, "A")
		add("K", `{"primary_key_id":7`+e+`,"key":[]}`, "A")
		add("K", `{"key":[{"status":1`+e+`}]}`, "A")
		add("K", `{"key":[{"keyId":42`+e+`}]}`, "A")
		add("K", `{"key":[{"key_id":42`+e+` ,"status":2`+e+`}]}`, "A")
		add("K", `{"key":[{"outputPrefixType":12`+e+`}]}`, "A")
		add("K", `{"key":[{"output_prefix_type":-1`+e+`}]}`, "A")
		add("K", `{"key":[{"keyData":{"keyMaterialType":3`+e+`,"typeUrl":"a","value":"AA=="}}]}`, "A")
		add("E", `{"keysetInfo":{"primaryKeyId":1`+e+`}}`, "A")
		add("E", `{"keyset_info":{"primary_key_id":5`+e+`,"key_info":[]}}`, "A")
		add("E", `{"keysetInfo":{"keyInfo":[{"status":2`+e+`,"keyId":7`+e+` ,"outputPrefixType":1`+e+`}]}}`, "A")
	}
	for _, sfx := range []string{"e,", "e x", "e]", "e:", "e/", "e 5", "E}"} {
		add("K", `{"primaryKeyId":"5`+sfx+`"}`, "A")
		add("K", `{"key":[{"keyId":"1`+sfx+`"}]}`, "A")
		add("E", `{"keysetInfo":{"primaryKeyId":"5`+sfx+`","keyInfo":[{"keyId":"9`+sfx+`"}]}}`, "A")
	}
	for _, bad := range []string{`1e+`, `1e-`, `"1e"`, `"1e "`, `1ee`, `1e5e`, `1.e`, `1.5e`, `4294967296e`, `-1e`} {
		add("K", `{"primaryKeyId":`+bad+`}`, "R")
		add("E", `{"keysetInfo":{"primaryKeyId":`+bad+`}}`, "R")
	}
	for _, bad := range []string{`"1e,"`, `1e+`, `1.5e`, `2147483648e`} {
		add("K", `{"key":[{"status":`+bad+`}]}`, "R") // an enum string is a NAME
	}
	// the marker where no integer is read: refused whatever follows
	add("K", `{"key":[{"keyData":{"typeUrl":1e}}]}`, "R")
	add("K", `{"key":[1e]}`, "R")
	add("K", `{"key":1e}`, "R")
	add("K", `{"x":1e}`, "R")
	add("K", `[1e]`, "R")
	add("K", `1e`, "R")
	add("K", `1e `, "R")
	add("K", `{"primaryKeyId":1e`, "R")
	add("K", `{"primaryKeyId":1e}x`, "R")
	add("K", `{"primaryKeyId":1e"key":[]}`, "R")
	return out
}
