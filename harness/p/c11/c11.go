package c11

import (
	"fmt"
	"sort"
	"strconv"
	"strings"

	"github.com/tink-crypto/tink-go/v2/aead"
	"github.com/tink-crypto/tink-go/v2/aead/aesgcm"
	"github.com/tink-crypto/tink-go/v2/insecurecleartextkeyset"
	"github.com/tink-crypto/tink-go/v2/insecuresecretdataaccess"
	"github.com/tink-crypto/tink-go/v2/internal/internalapi"
	"github.com/tink-crypto/tink-go/v2/key"
	"github.com/tink-crypto/tink-go/v2/keyset"
	"github.com/tink-crypto/tink-go/v2/signature/mldsa"
	"github.com/tink-crypto/tink-go/v2/secretdata"
	"github.com/tink-crypto/tink-go/v2/verifharness/hx"
	"google.golang.org/protobuf/proto"

	gcmpb "github.com/tink-crypto/tink-go/v2/proto/aes_gcm_go_proto"
	tinkpb "github.com/tink-crypto/tink-go/v2/proto/tink_go_proto"
)

// C11: keyset manager histories.
//
// case line:  C11|<init>|<id tape>|<ops>
//   init : "E" (NewManager) or "H:" entries id.status.primary.kind,...  (a
//          well-formed handle read from a cleartext keyset; status E/D/X,
//          primary 0/1, kind T (TINK: id requirement) or R (RAW))
//   tape : comma separated uint32 served to the 4-byte reads of crypto/rand
//   ops  : ';' separated: AT AR AN AU AB (Add with template: tink, raw, nil,
//          unknown prefix, unregistered type), PT PR (AddNewKeyFromParameters),
//          K<id> (AddKey, key requiring id), KR (AddKey, no requirement),
//          S<id> E<id> D<id> X<id> (SetPrimary Enable Disable Delete),
//          H (Handle), F<k> (NewManagerFromHandle of k-th handle obtained)
// observation: per op  ok:<id> | ok | err | h[id.status.primary.req,...]
//          ("!mut" appended when a failing op changed the keyset), then
//          "|" every handle obtained re-inspected at the end, then
//          "|draws:<n>" number of id draws consumed.

func c11Key(req uint32, has bool, fill byte) key.Key {
	v := aesgcm.VariantTink
	if !has {
		v = aesgcm.VariantNoPrefix
	}
	params, err := aesgcm.NewParameters(aesgcm.ParametersOpts{KeySizeInBytes: 16, IVSizeInBytes: 12, TagSizeInBytes: 16, Variant: v})
	if err != nil {
		panic(err)
	}
	kb := make([]byte, 16)
	for i := range kb {
		kb[i] = fill
	}
	k, err := aesgcm.NewKey(secretdata.NewBytesFromData(kb, insecuresecretdataaccess.Token{}), req, params)
	if err != nil {
		panic(err)
	}
	return k
}

func c11Shape(h *keyset.Handle) string {
	var sb strings.Builder
	sb.WriteString("h[")
	for i := 0; i < h.Len(); i++ {
		e, err := h.Entry(i)
		if err != nil {
			sb.WriteString("?")
			continue
		}
		if i > 0 {
			sb.WriteString(",")
		}
		st := "?"
		switch e.KeyStatus() {
		case keyset.Enabled:
			st = "E"
		case keyset.Disabled:
			st = "D"
		case keyset.Destroyed:
			st = "X"
		}
		p := "0"
		if e.IsPrimary() {
			p = "1"
		}
		req := "R"
		if r, has := e.Key().IDRequirement(); has {
			req = strconv.FormatUint(uint64(r), 10)
		}
		fmt.Fprintf(&sb, "%d.%s.%s.%s", e.KeyID(), st, p, req)
	}
	sb.WriteString("]")
	return sb.String()
}

func c11InitHandle(spec string) *keyset.Handle {
	ks := &tinkpb.Keyset{}
	for _, es := range strings.Split(spec, ",") {
		f := strings.Split(es, ".")
		id64, _ := strconv.ParseUint(f[0], 10, 32)
		id := uint32(id64)
		st := map[string]tinkpb.KeyStatusType{"E": tinkpb.KeyStatusType_ENABLED, "D": tinkpb.KeyStatusType_DISABLED, "X": tinkpb.KeyStatusType_DESTROYED}[f[1]]
		pt := tinkpb.OutputPrefixType_TINK
		if f[3] == "R" {
			pt = tinkpb.OutputPrefixType_RAW
		}
		kv, _ := proto.Marshal(&gcmpb.AesGcmKey{Version: 0, KeyValue: []byte("0123456789abcdef")})
		ks.Key = append(ks.Key, &tinkpb.Keyset_Key{KeyId: id, Status: st, OutputPrefixType: pt,
			KeyData: &tinkpb.KeyData{TypeUrl: "type.googleapis.com/google.crypto.tink.AesGcmKey", Value: kv, KeyMaterialType: tinkpb.KeyData_SYMMETRIC}})
		if f[2] == "1" {
			ks.PrimaryKeyId = id
		}
	}
	h, err := insecurecleartextkeyset.Read(&keyset.MemReaderWriter{Keyset: ks})
	if err != nil {
		panic("init handle: " + err.Error())
	}
	return h
}

func c11Run(in string) string {
	f := strings.Split(in, "|")
	tape := &hx.Tape{}
	if f[2] != "" {
		for _, s := range strings.Split(f[2], ",") {
			v, _ := strconv.ParseUint(s, 10, 32)
			tape.IDs = append(tape.IDs, uint32(v))
		}
	}
	var out []string
	var handles []*keyset.Handle
	hx.WithTape(tape, func() {
		var km *keyset.Manager
		if f[1] == "E" {
			km = keyset.NewManager()
		} else {
			h := c11InitHandle(strings.TrimPrefix(f[1], "H:"))
			handles = append(handles, h)
			km = keyset.NewManagerFromHandle(h)
		}
		snap := func() string {
			h, err := km.Handle()
			if err != nil {
				return "err"
			}
			return c11Shape(h)
		}
		prev := snap()
		fill := byte(0)
		for _, op := range strings.Split(f[3], ";") {
			if op == "" {
				continue
			}
			var res string
			failed := false
			idres := func(id uint32, err error) {
				if err != nil {
					res, failed = "err", true
				} else {
					res = "ok:" + strconv.FormatUint(uint64(id), 10)
				}
			}
			ures := func(err error) {
				if err != nil {
					res, failed = "err", true
				} else {
					res = "ok"
				}
			}
			arg := func() uint32 { v, _ := strconv.ParseUint(op[1:], 10, 32); return uint32(v) }
			fill++
			switch {
			case op == "AT":
				idres(km.Add(aead.AES128GCMKeyTemplate()))
			case op == "AR":
				idres(km.Add(aead.AES256GCMNoPrefixKeyTemplate()))
			case op == "AN":
				idres(km.Add(nil))
			case op == "AU":
				t := aead.AES128GCMKeyTemplate()
				t.OutputPrefixType = tinkpb.OutputPrefixType_UNKNOWN_PREFIX
				idres(km.Add(t))
			case op == "AL":
				// a key type that has only a key manager (KMS envelope AEAD, RAW prefix): Manager.Add
				// takes the legacy registry path (NewKeyData, NewKeySerialization, ParseKey)
				t, err := aead.CreateKMSEnvelopeAEADKeyTemplate("verif-kms://c11", aead.AES128GCMKeyTemplate())
				if err != nil {
					panic(err)
				}
				idres(km.Add(t))
			case op == "AB":
				idres(km.Add(&tinkpb.KeyTemplate{TypeUrl: "type.googleapis.com/verif.Unregistered", OutputPrefixType: tinkpb.OutputPrefixType_TINK}))
			case op == "PT":
				idres(km.AddNewKeyFromParameters(c11Key(7, true, 0).Parameters()))
			case op == "PR":
				idres(km.AddNewKeyFromParameters(c11Key(0, false, 0).Parameters()))
			case op == "PW":
				// parameters whose template carries the FIFTH output prefix type, WITH_ID_REQUIREMENT (ML-DSA
				// NoPrefixWithPrehashID): the key must be bound to the id the manager draws, like a TINK key
				pw, err := mldsa.NewParameters(mldsa.MLDSA44, mldsa.VariantNoPrefixWithPrehashID)
				if err != nil {
					panic(err)
				}
				idres(km.AddNewKeyFromParameters(pw))
			case op[0] == 'O':
				// O<req|R>:<opt>,...   the internal API AddKeyWithOpts
				f2 := strings.SplitN(op[1:], ":", 2)
				var k key.Key
				if f2[0] == "R" {
					k = c11Key(0, false, fill)
				} else {
					v, _ := strconv.ParseUint(f2[0], 10, 32)
					k = c11Key(uint32(v), true, fill)
				}
				var opts []keyset.KeyOpts
				for _, o := range strings.Split(f2[1], ",") {
					if o == "" {
						continue
					}
					switch o[0] {
					case 's':
						opts = append(opts, keyset.WithStatus(map[string]keyset.KeyStatus{"E": keyset.Enabled, "D": keyset.Disabled, "X": keyset.Destroyed, "U": keyset.Unknown}[o[1:]]))
					case 'f':
						v, _ := strconv.ParseUint(o[1:], 10, 32)
						opts = append(opts, keyset.WithFixedID(uint32(v)))
					case 'p':
						opts = append(opts, keyset.AsPrimary())
					}
				}
				idres(km.AddKeyWithOpts(k, internalapi.Token{}, opts...))
			case op == "KR":
				idres(km.AddKey(c11Key(0, false, fill)))
			case op[0] == 'K':
				idres(km.AddKey(c11Key(arg(), true, fill)))
			case op[0] == 'S':
				ures(km.SetPrimary(arg()))
			case op[0] == 'E':
				ures(km.Enable(arg()))
			case op[0] == 'D':
				ures(km.Disable(arg()))
			case op[0] == 'X':
				ures(km.Delete(arg()))
			case op == "H":
				h, err := km.Handle()
				if err != nil {
					res = "err"
				} else {
					handles = append(handles, h)
					res = c11Shape(h)
				}
			case op[0] == 'F':
				k := int(arg())
				if k < len(handles) {
					km = keyset.NewManagerFromHandle(handles[k])
					res = "ok"
					prev = snap()
				} else {
					res = "skip"
				}
			default:
				res = "badop"
			}
			now := snap()
			if failed && now != prev {
				res += "!mut"
			}
			prev = now
			out = append(out, res)
		}
	})
	if tape.IDExhausted {
		return "TAPE-EXHAUSTED"
	}
	var hs []string
	for _, h := range handles {
		hs = append(hs, c11Shape(h))
	}
	return strings.Join(out, ";") + "|" + strings.Join(hs, ";") + "|draws:" + strconv.Itoa(tape.NIDs)
}

// c11WF checks the well-formedness the property demands of a handle shape.
func c11WF(shape string) string {
	body := strings.TrimSuffix(strings.TrimPrefix(shape, "h["), "]")
	if body == "" {
		return "empty handle"
	}
	ids := map[string]bool{}
	prim := 0
	for _, e := range strings.Split(body, ",") {
		f := strings.Split(e, ".")
		if len(f) != 4 {
			return "bad entry " + e
		}
		if ids[f[0]] {
			return "duplicate key id " + f[0]
		}
		ids[f[0]] = true
		if f[1] == "?" {
			return "unknown status"
		}
		if f[2] == "1" {
			prim++
			if f[1] != "E" {
				return "primary not enabled"
			}
		}
		if f[3] != "R" && f[3] != f[0] {
			return "key with id requirement " + f[3] + " has id " + f[0]
		}
	}
	if prim != 1 {
		return fmt.Sprintf("%d primaries", prim)
	}
	return ""
}

func c11Check(in, obs string) string {
	if strings.HasPrefix(obs, "PANIC") {
		return obs
	}
	if obs == "TAPE-EXHAUSTED" {
		return ""
	}
	parts := strings.Split(obs, "|")
	if len(parts) != 3 {
		return "malformed observation"
	}
	f := strings.Split(in, "|")
	ops := strings.Split(f[3], ";")
	res := strings.Split(parts[0], ";")
	var obtained []string
	if f[1] != "E" {
		obtained = append(obtained, "") // initial handle: compared below only for stability
	}
	primarySeen := f[1] != "E"
	for i, r := range res {
		if strings.Contains(r, "!mut") {
			return fmt.Sprintf("op %d (%s) returned an error but changed the keyset", i, ops[i])
		}
		if strings.HasPrefix(r, "h[") {
			if v := c11WF(r); v != "" {
				return fmt.Sprintf("op %d Handle(): %s", i, v)
			}
			obtained = append(obtained, r)
		}
		if i < len(ops) && ops[i] != "" {
			if ops[i][0] == 'S' && r == "ok" {
				primarySeen = true
			}
			if ops[i][0] == 'O' && strings.HasPrefix(r, "ok") && (strings.Contains(ops[i], ":p") || strings.Contains(ops[i], ",p")) {
				primarySeen = true
			}
			if ops[i] == "H" && r == "err" && primarySeen {
				return fmt.Sprintf("op %d Handle() failed although a primary was set", i)
			}
			if ops[i] == "H" && r != "err" && !primarySeen {
				return fmt.Sprintf("op %d Handle() succeeded although no primary was ever set", i)
			}
		}
	}
	final := strings.Split(parts[1], ";")
	for i, h := range obtained {
		if h != "" && i < len(final) && final[i] != h {
			return fmt.Sprintf("handle %d changed after it was obtained: %s -> %s", i, h, final[i])
		}
	}
	return ""
}

func c11Gen(r *hx.Rng, n int, tier string) []string {
	var lines []string
	for c := 0; c < n; c++ {
		// small id universe so that collisions and reuse happen often
		uni := []uint32{0, 1, 2, 3, 5, 8, 4294967295, 2147483648, 65536 + 5, 65536 + 8}
		pickID := func() uint32 {
			if r.Chance(85) {
				return hx.PickS(r, uni)
			}
			return uint32(r.U64())
		}
		init := "E"
		var known []uint32
		if r.Chance(45) {
			k := 1 + r.Intn(4)
			seen := map[uint32]bool{}
			var es []string
			prim := -1
			var ids []uint32
			var sts []string
			for len(ids) < k {
				id := pickID()
				if seen[id] {
					continue
				}
				seen[id] = true
				ids = append(ids, id)
				sts = append(sts, hx.PickS(r, []string{"E", "E", "D", "X"}))
			}
			prim = r.Intn(k)
			sts[prim] = "E"
			for i := range ids {
				p := "0"
				if i == prim {
					p = "1"
				}
				es = append(es, fmt.Sprintf("%d.%s.%s.%s", ids[i], sts[i], p, hx.PickS(r, []string{"T", "T", "R"})))
			}
			init = "H:" + strings.Join(es, ",")
			known = ids
		}
		nops := 3 + r.Intn(38)
		var tape []string
		for i := 0; i < 3*nops+20; i++ {
			if r.Chance(35) {
				tape = append(tape, strconv.FormatUint(uint64(uint32(r.U64())), 10))
			} else {
				tape = append(tape, strconv.FormatUint(uint64(pickID()), 10))
			}
		}
		var ops []string
		nh := 0
		if init != "E" {
			nh = 1
		}
		anyID := func() string {
			if len(known) > 0 && r.Chance(75) {
				return strconv.FormatUint(uint64(hx.PickS(r, known)), 10)
			}
			return strconv.FormatUint(uint64(pickID()), 10)
		}
		for i := 0; i < nops; i++ {
			switch x := r.Intn(100); {
			case x < 14:
				ops = append(ops, hx.PickS(r, []string{"AT", "AT", "AR", "AN", "AU", "AB", "AL", "PT", "PR", "PW"}))
			case x < 19 && r.Chance(60):
				// AddKeyWithOpts with a random option list in random order
				req := "R"
				var id uint32
				if r.Chance(60) {
					id = pickID()
					req = strconv.FormatUint(uint64(id), 10)
				}
				var os []string
				for j := r.Intn(4); j > 0; j-- {
					switch r.Intn(3) {
					case 0:
						os = append(os, "s"+hx.PickS(r, []string{"E", "D", "X", "D", "U"}))
					case 1:
						fid := pickID()
						if req != "R" && r.Chance(70) {
							fid = id
						}
						os = append(os, "f"+strconv.FormatUint(uint64(fid), 10))
					default:
						os = append(os, "p")
					}
				}
				ops = append(ops, "O"+req+":"+strings.Join(os, ","))
			case x < 24:
				if r.Chance(25) {
					ops = append(ops, "KR")
				} else {
					id := pickID()
					known = append(known, id)
					ops = append(ops, "K"+strconv.FormatUint(uint64(id), 10))
				}
			case x < 42:
				ops = append(ops, "S"+anyID())
			case x < 52:
				ops = append(ops, "E"+anyID())
			case x < 66:
				ops = append(ops, "D"+anyID())
			case x < 78:
				ops = append(ops, "X"+anyID())
			case x < 94:
				ops = append(ops, "H")
				nh++ // upper bound; failures make it smaller, F then skips
			default:
				if nh > 0 {
					ops = append(ops, "F"+strconv.Itoa(r.Intn(nh)))
				} else {
					ops = append(ops, "H")
				}
			}
			// ids served from the tape become known ids too
			if r.Chance(30) && len(tape) > 0 {
				v, _ := strconv.ParseUint(hx.PickS(r, tape), 10, 32)
				known = append(known, uint32(v))
			}
		}
		ops = append(ops, "H")
		lines = append(lines, "C11|"+init+"|"+strings.Join(tape, ",")+"|"+strings.Join(ops, ";"))
	}
	return lines
}

func c11Class(in, obs string) string {
	// class = multiset signature of (op kind, outcome kind); non-trivial when
	// at least one error and one successful Handle occur.
	if obs == "TAPE-EXHAUSTED" || strings.HasPrefix(obs, "PANIC") {
		return ""
	}
	f := strings.Split(in, "|")
	parts := strings.Split(obs, "|")
	ops := strings.Split(f[3], ";")
	res := strings.Split(parts[0], ";")
	sig := map[string]bool{}
	hasErr, hasH := false, false
	for i, r := range res {
		if i >= len(ops) || ops[i] == "" {
			continue
		}
		k := ops[i][:1]
		o := "ok"
		if strings.HasPrefix(r, "err") {
			o, hasErr = "err", true
		}
		if strings.HasPrefix(r, "h[") {
			hasH = true
		}
		sig[k+o] = true
	}
	if !hasErr || !hasH {
		return ""
	}
	var ks []string
	for k := range sig {
		ks = append(ks, k)
	}
	sort.Strings(ks)
	return f[1][:1] + ":" + strings.Join(ks, "") + fmt.Sprintf(":%d", len(ops)/8)
}

func init() {
	hx.Register("C11", &hx.Prop{Gen: c11Gen, Run: c11Run, Check: c11Check, Class: c11Class})
}
