package c14

// Directed key-size sweep: for every SYMMETRIC bank key whose proto has a key_value (at the top level or in the
// aes_ctr_key / hmac_key sub-messages), the otherwise VALID key with key material of every size around the AES /
// HMAC boundaries - one factor at a time, so that a size check moved, dropped or replaced by another layer's
// (seeded change C14f: X-AES-GCM validated through the AES-CMAC constructor, which takes 16 and 24 bytes too)
// shows on every run and for every key type, not only when the random variants happen to keep the other
// fields valid.

import (
	"fmt"
	"strings"

	"github.com/tink-crypto/tink-go/v2/verifharness/hx"
	"google.golang.org/protobuf/proto"
	"google.golang.org/protobuf/reflect/protoreflect"
	"google.golang.org/protobuf/reflect/protoregistry"
)

var sweepSizes = []int{0, 15, 16, 17, 24, 31, 32, 33, 47, 48, 49, 63, 64, 65, 128}

func directedKeySizes() []string {
	var lines []string
	seen := map[string]bool{}
	for _, bk := range bank {
		k := toMKey(bk, 9, 1)
		if k.Mat != 1 {
			// SYMMETRIC keys only: an asymmetric key with other private material no longer matches its public
			// part (or its legal size lies outside the sweep), so every row would answer err whatever the size
			// rule - it could not fire (fifth audit C-6)
			continue
		}
		name := strings.TrimPrefix(k.URL, tp)
		if seen[name+fmt.Sprint(k.Prefix)] {
			continue
		}
		mt, err := protoregistry.GlobalTypes.FindMessageByName(protoreflect.FullName("google.crypto.tink." + name))
		if err != nil {
			continue
		}
		for _, path := range []string{"key_value", "aes_ctr_key.key_value", "hmac_key.key_value"} {
			m := mt.New()
			if proto.Unmarshal(k.Value, m.Interface()) != nil {
				break
			}
			cur, fd := m, protoreflect.FieldDescriptor(nil)
			parts := strings.Split(path, ".")
			ok := true
			for i, p := range parts {
				fd = cur.Descriptor().Fields().ByName(protoreflect.Name(p))
				if fd == nil || (i < len(parts)-1 && fd.Kind() != protoreflect.MessageKind) || (i == len(parts)-1 && fd.Kind() != protoreflect.BytesKind) {
					ok = false
					break
				}
				if i < len(parts)-1 {
					cur = cur.Mutable(fd).Message()
				}
			}
			if !ok {
				continue
			}
			seen[name+fmt.Sprint(k.Prefix)] = true
			for _, sz := range sweepSizes {
				cur.Set(fd, protoreflect.ValueOfBytes(hx.NewRng(uint64(sz)*977+uint64(len(name))).Bytes(sz)))
				k2 := k
				k2.Value = mustMarshal(m.Interface())
				ks := &mKeyset{Primary: 9, Keys: []mKey{k2}}
				lines = append(lines, fmt.Sprintf("B|%s|size-%s-%d:%s", hx.H(ks.Marshal()), strings.ReplaceAll(path, ".", "/"), sz, name))
			}
		}
	}
	return lines
}

// Directed output-prefix sweep: every bank key as a single-key keyset with each output_prefix_type value around
// and outside the enum (0 = UNKNOWN_PREFIX; 6, 7, 100 and 2^32-1 = -1 are no enum values at all; 2^32+1 and
// 2^32+3 are TINK and RAW after the truncation to int32 that protobuf applies; 2^64-1 = -1).  Most key parsers
// re-check the prefix themselves; the streaming AEAD parsers never look at it, so for them keyset.Validate is
// the only gate (seeded change C14g: Validate rejecting only the value 0).
func directedPrefixes() []string {
	var lines []string
	for _, bk := range bank {
		for _, p := range []uint64{0, 6, 7, 100, 1<<32 - 1, 1<<32 + 1, 1<<32 + 3, 1<<64 - 1} {
			k := toMKey(bk, 9, 1)
			k.Prefix = p
			ks := &mKeyset{Primary: 9, Keys: []mKey{k}}
			lines = append(lines, fmt.Sprintf("B|%s|prefix-%d:%s", hx.H(ks.Marshal()), p, strings.TrimPrefix(k.URL, tp)))
		}
	}
	return lines
}
