package c14

// Parameters parsers (protoserialization.ParseParameters) and the PRF-based
// deriver key: the observable form of a key.Parameters object, the catalogue
// of key templates of every registered type (valid, built at wire level so
// that default-valued fields are explicit and can be mutated), and the
// "P" case line:
//
//	P|<hex of a serialized tinkpb.KeyTemplate>|<label>
//
// Observation "p:err" (the template does not decode, or ParseParameters
// returns an error) or "p:<Name(field,...)>" with the accessors of the
// parameters object as numbers (enum values as their proto numbers, the
// variant as the output prefix type the serializer writes back).

import (
	"fmt"
	"math/big"
	"strings"

	"github.com/tink-crypto/tink-go/v2/aead/aesctrhmac"
	"github.com/tink-crypto/tink-go/v2/aead/aesgcm"
	"github.com/tink-crypto/tink-go/v2/aead/aesgcmsiv"
	"github.com/tink-crypto/tink-go/v2/aead/chacha20poly1305"
	"github.com/tink-crypto/tink-go/v2/aead/xaesgcm"
	"github.com/tink-crypto/tink-go/v2/aead/xchacha20poly1305"
	"github.com/tink-crypto/tink-go/v2/daead/aessiv"
	"github.com/tink-crypto/tink-go/v2/hybrid/ecies"
	"github.com/tink-crypto/tink-go/v2/hybrid/hpke"
	"github.com/tink-crypto/tink-go/v2/internal/protoserialization"
	"github.com/tink-crypto/tink-go/v2/jwt/jwtecdsa"
	"github.com/tink-crypto/tink-go/v2/jwt/jwthmac"
	"github.com/tink-crypto/tink-go/v2/jwt/jwtmldsa"
	"github.com/tink-crypto/tink-go/v2/jwt/jwtrsassapkcs1"
	"github.com/tink-crypto/tink-go/v2/jwt/jwtrsassapss"
	"github.com/tink-crypto/tink-go/v2/key"
	"github.com/tink-crypto/tink-go/v2/keyderivation/prfbasedkeyderivation"
	"github.com/tink-crypto/tink-go/v2/mac/aescmac"
	"github.com/tink-crypto/tink-go/v2/mac/hmac"
	"github.com/tink-crypto/tink-go/v2/prf/aescmacprf"
	"github.com/tink-crypto/tink-go/v2/prf/hkdfprf"
	"github.com/tink-crypto/tink-go/v2/prf/hmacprf"
	"github.com/tink-crypto/tink-go/v2/signature/compositemldsa"
	"github.com/tink-crypto/tink-go/v2/signature/ecdsa"
	"github.com/tink-crypto/tink-go/v2/signature/ed25519"
	"github.com/tink-crypto/tink-go/v2/signature/mldsa"
	"github.com/tink-crypto/tink-go/v2/signature/rsassapkcs1"
	"github.com/tink-crypto/tink-go/v2/signature/rsassapss"
	"github.com/tink-crypto/tink-go/v2/signature/slhdsa"
	saesctrhmac "github.com/tink-crypto/tink-go/v2/streamingaead/aesctrhmac"
	"github.com/tink-crypto/tink-go/v2/streamingaead/aesgcmhkdf"
	"github.com/tink-crypto/tink-go/v2/verifharness/hx"
	"google.golang.org/protobuf/encoding/protowire"
	"google.golang.org/protobuf/proto"

	jwtpk1pb "github.com/tink-crypto/tink-go/v2/proto/jwt_rsa_ssa_pkcs1_go_proto"
	jwtpsspb "github.com/tink-crypto/tink-go/v2/proto/jwt_rsa_ssa_pss_go_proto"
	pk1pb "github.com/tink-crypto/tink-go/v2/proto/rsa_ssa_pkcs1_go_proto"
	psspb "github.com/tink-crypto/tink-go/v2/proto/rsa_ssa_pss_go_proto"
	tinkpb "github.com/tink-crypto/tink-go/v2/proto/tink_go_proto"
)

// ---------------------------------------------------------------------------
// observable form of a parameters object
// ---------------------------------------------------------------------------

var hashCodes = map[string]int{"SHA1": 1, "SHA384": 2, "SHA256": 3, "SHA512": 4, "SHA224": 5}
var variantCodes = map[string]int{"TINK": 1, "LEGACY": 2, "NO_PREFIX": 3, "CRUNCHY": 4, "EXTERNAL_MU": 5}
var curveCodes = map[string]int{"NIST_P256": 2, "NIST_P384": 3, "NIST_P521": 4, "X25519": 5}
var encCodes = map[string]int{"IEEE_P1363": 1, "DER": 2}
var kidCodes = map[string]int{"Base64EncodedKeyIDAsKID": 1, "IgnoredKID": 3, "CustomKID": 9}
var jwtAlgCodes = map[string]int{"HS256": 1, "HS384": 2, "HS512": 3, "ES256": 1, "ES384": 2, "ES512": 3, "RS256": 1, "RS384": 2, "RS512": 3,
	"PS256": 1, "PS384": 2, "PS512": 3, "ML-DSA-44": 1, "ML-DSA-65": 2, "ML-DSA-87": 3}
var instCodes = map[string]int{"MLDSA65": 1, "MLDSA87": 2, "MLDSA44": 3}
var pfCodes = map[string]int{"UnspecifiedPointFormat": 0, "UncompressedPointFormat": 1, "CompressedPointFormat": 2, "LegacyUncompressedPointFormat": 3}
var kemCodes = map[string]int{"DHKEM-X25519-HKDF-SHA256": 1, "DHKEM-P256-HKDF-SHA256": 2, "DHKEM-P384-HKDF-SHA384": 3, "DHKEM-P521-HKDF-SHA512": 4,
	"X-Wing": 5, "ML-KEM-768": 6, "ML-KEM-1024": 7}
var kdfCodes = map[string]int{"HKDF-SHA256": 1, "HKDF-SHA384": 2, "HKDF-SHA512": 3}
var aeadCodes = map[string]int{"AES-128-GCM": 1, "AES-256-GCM": 2, "ChaCha20-Poly1305": 3}

func cd(m map[string]int, s fmt.Stringer) int {
	if v, ok := m[s.String()]; ok {
		return v
	}
	return -1
}

// renderParams: the accessors of the object, in the order of the constructor
// of the model (coq/model/UntrustedParams.v, type params).
func renderParams(p key.Parameters) string {
	switch q := p.(type) {
	case *aesgcm.Parameters:
		return fmt.Sprintf("AesGcm(%d,%d,%d,%d)", q.KeySizeInBytes(), q.IVSizeInBytes(), q.TagSizeInBytes(), cd(variantCodes, q.Variant()))
	case *aesgcmsiv.Parameters:
		return fmt.Sprintf("AesGcmSiv(%d,%d)", q.KeySizeInBytes(), cd(variantCodes, q.Variant()))
	case *aesctrhmac.Parameters:
		return fmt.Sprintf("AesCtrHmac(%d,%d,%d,%d,%d,%d)", q.AESKeySizeInBytes(), q.HMACKeySizeInBytes(), q.IVSizeInBytes(), q.TagSizeInBytes(),
			cd(hashCodes, q.HashType()), cd(variantCodes, q.Variant()))
	case *chacha20poly1305.Parameters:
		return fmt.Sprintf("ChaCha(%d)", cd(variantCodes, q.Variant()))
	case *xchacha20poly1305.Parameters:
		return fmt.Sprintf("XChaCha(%d)", cd(variantCodes, q.Variant()))
	case *xaesgcm.Parameters:
		return fmt.Sprintf("XAesGcm(%d,%d)", q.SaltSizeInBytes(), cd(variantCodes, q.Variant()))
	case *aessiv.Parameters:
		return fmt.Sprintf("AesSiv(%d,%d)", q.KeySizeInBytes(), cd(variantCodes, q.Variant()))
	case *hmac.Parameters:
		return fmt.Sprintf("Hmac(%d,%d,%d,%d)", q.KeySizeInBytes(), q.CryptographicTagSizeInBytes(), cd(hashCodes, q.HashType()), cd(variantCodes, q.Variant()))
	case *aescmac.Parameters:
		return fmt.Sprintf("AesCmac(%d,%d,%d)", q.KeySizeInBytes(), q.CryptographicTagSizeInBytes(), cd(variantCodes, q.Variant()))
	case *aescmacprf.Parameters:
		return fmt.Sprintf("AesCmacPrf(%d)", q.KeySizeInBytes())
	case *hkdfprf.Parameters:
		return fmt.Sprintf("HkdfPrf(%d,%d,%s)", q.KeySizeInBytes(), cd(hashCodes, q.HashType()), hx.H(q.Salt()))
	case *hmacprf.Parameters:
		return fmt.Sprintf("HmacPrf(%d,%d)", q.KeySizeInBytes(), cd(hashCodes, q.HashType()))
	case *ecdsa.Parameters:
		return fmt.Sprintf("Ecdsa(%d,%d,%d,%d)", cd(curveCodes, q.CurveType()), cd(hashCodes, q.HashType()), cd(encCodes, q.SignatureEncoding()), cd(variantCodes, q.Variant()))
	case *ed25519.Parameters:
		return fmt.Sprintf("Ed25519(%d)", cd(variantCodes, q.Variant()))
	case *rsassapkcs1.Parameters:
		return fmt.Sprintf("RsaPkcs1(%d,%d,%d,%d)", q.ModulusSizeBits(), cd(hashCodes, q.HashType()), q.PublicExponent(), cd(variantCodes, q.Variant()))
	case *rsassapss.Parameters:
		return fmt.Sprintf("RsaPss(%d,%d,%d,%d,%d,%d)", q.ModulusSizeBits(), cd(hashCodes, q.SigHashType()), cd(hashCodes, q.MGF1HashType()), q.PublicExponent(),
			q.SaltLengthBytes(), cd(variantCodes, q.Variant()))
	case *mldsa.Parameters:
		return fmt.Sprintf("MlDsa(%d,%d)", cd(instCodes, q.Instance()), cd(variantCodes, q.Variant()))
	case *slhdsa.Parameters:
		h, s := -1, -1
		switch q.HashType() {
		case slhdsa.SHA2:
			h = 1
		case slhdsa.SHAKE:
			h = 2
		}
		switch q.SignatureType() {
		case slhdsa.FastSigning:
			s = 1
		case slhdsa.SmallSignature:
			s = 2
		}
		return fmt.Sprintf("SlhDsa(%d,%d,%d,%d)", h, q.KeySize(), s, cd(variantCodes, q.Variant()))
	case *compositemldsa.Parameters:
		a, i, v := -1, -1, -1
		switch q.ClassicalAlgorithm() {
		case compositemldsa.Ed25519:
			a = 1
		case compositemldsa.ECDSAP256:
			a = 2
		case compositemldsa.ECDSAP384:
			a = 3
		case compositemldsa.ECDSAP521:
			a = 4
		case compositemldsa.RSA3072PSS:
			a = 5
		case compositemldsa.RSA4096PSS:
			a = 6
		case compositemldsa.RSA3072PKCS1:
			a = 7
		case compositemldsa.RSA4096PKCS1:
			a = 8
		}
		switch q.MLDSAInstance() {
		case compositemldsa.MLDSA65:
			i = 1
		case compositemldsa.MLDSA87:
			i = 2
		}
		switch q.Variant() {
		case compositemldsa.VariantTink:
			v = 1
		case compositemldsa.VariantNoPrefix:
			v = 3
		}
		return fmt.Sprintf("Composite(%d,%d,%d)", a, i, v)
	case *ecies.Parameters:
		return fmt.Sprintf("Ecies(%d,%d,%d,%s,%d,%s)", cd(curveCodes, q.CurveType()), cd(hashCodes, q.HashType()), cd(pfCodes, q.NISTCurvePointFormat()),
			renderParams(q.DEMParameters()), cd(variantCodes, q.Variant()), hx.H(q.Salt()))
	case *hpke.Parameters:
		return fmt.Sprintf("Hpke(%d,%d,%d,%d)", cd(kemCodes, q.KEMID()), cd(kdfCodes, q.KDFID()), cd(aeadCodes, q.AEADID()), cd(variantCodes, q.Variant()))
	case *aesgcmhkdf.Parameters:
		return fmt.Sprintf("StreamGcmHkdf(%d,%d,%d,%d)", q.KeySizeInBytes(), q.DerivedKeySizeInBytes(), cd(hashCodes, q.HKDFHashType()), q.SegmentSizeInBytes())
	case *saesctrhmac.Parameters:
		return fmt.Sprintf("StreamCtrHmac(%d,%d,%d,%d,%d,%d)", q.KeySizeInBytes(), q.DerivedKeySizeInBytes(), cd(hashCodes, q.HkdfHashType()),
			cd(hashCodes, q.HmacHashType()), q.HmacTagSizeInBytes(), q.SegmentSizeInBytes())
	case *jwthmac.Parameters:
		return fmt.Sprintf("JwtHmac(%d,%d,%d)", q.KeySizeInBytes(), cd(jwtAlgCodes, q.Algorithm()), cd(kidCodes, q.KIDStrategy()))
	case *jwtecdsa.Parameters:
		return fmt.Sprintf("JwtEcdsa(%d,%d)", cd(jwtAlgCodes, q.Algorithm()), cd(kidCodes, q.KIDStrategy()))
	case *jwtrsassapkcs1.Parameters:
		return fmt.Sprintf("JwtRsaPkcs1(%d,%d,%d,%d)", cd(jwtAlgCodes, q.Algorithm()), q.ModulusSizeInBits(), q.PublicExponent(), cd(kidCodes, q.KIDStrategy()))
	case *jwtrsassapss.Parameters:
		return fmt.Sprintf("JwtRsaPss(%d,%d,%d,%d)", cd(jwtAlgCodes, q.Algorithm()), q.ModulusSizeInBits(), q.PublicExponent(), cd(kidCodes, q.KIDStrategy()))
	case *jwtmldsa.Parameters:
		return fmt.Sprintf("JwtMlDsa(%d,%d)", cd(jwtAlgCodes, q.Algorithm()), cd(kidCodes, q.KIDStrategy()))
	case *prfbasedkeyderivation.Parameters:
		return "Deriver(" + renderParams(q.PRFParameters()) + "," + renderParams(q.DerivedKeyParameters()) + ")"
	}
	return fmt.Sprintf("?%T", p)
}

// parseParams runs protoserialization.ParseParameters; a panic is reported.
func parseParams(t *tinkpb.KeyTemplate) (p key.Parameters, err error, panicked string) {
	defer func() {
		if e := recover(); e != nil {
			p, err, panicked = nil, fmt.Errorf("panic"), fmt.Sprint(e)
		}
	}()
	p, err = protoserialization.ParseParameters(t)
	return p, err, ""
}

func runParams(hexTemplate string) string {
	t := &tinkpb.KeyTemplate{}
	if proto.Unmarshal(hx.UH(hexTemplate), t) != nil {
		return "p:err"
	}
	p, err, pn := parseParams(t)
	if pn != "" {
		return "PANIC ParseParameters: " + pn
	}
	if err != nil || p == nil {
		return "p:err"
	}
	return "p:" + renderParams(p)
}

// checkParams: what must hold of an accepted parameters object whatever the
// model says: it has an id requirement exactly when the template's prefix
// type is not RAW, it can be serialized again (KeysetInfo of a deriver key
// panics otherwise), and the serialization parses back to an Equal object.
func checkParams(hexTemplate string) (res string) {
	defer func() {
		if e := recover(); e != nil {
			res = "parameters object panicked: " + fmt.Sprint(e)
		}
	}()
	t := &tinkpb.KeyTemplate{}
	if proto.Unmarshal(hx.UH(hexTemplate), t) != nil {
		return ""
	}
	p, err, _ := parseParams(t)
	if err != nil || p == nil {
		return ""
	}
	if strings.Contains(renderParams(p), "-1") || strings.Contains(renderParams(p), "?") {
		return "accepted parameters object with an unknown enum value or type: " + renderParams(p)
	}
	if p.HasIDRequirement() != (t.GetOutputPrefixType() != tinkpb.OutputPrefixType_RAW) {
		return fmt.Sprintf("HasIDRequirement() = %v for prefix type %v", p.HasIDRequirement(), t.GetOutputPrefixType())
	}
	if !p.Equal(p) {
		return "parameters object not Equal to itself"
	}
	// an independent reading of the format: the public exponent the object reports is the NUMBER in the format
	var eBytes []byte
	eObj := -1
	switch q := p.(type) {
	case *rsassapkcs1.Parameters:
		f := &pk1pb.RsaSsaPkcs1KeyFormat{}
		if proto.Unmarshal(t.GetValue(), f) == nil {
			eBytes, eObj = f.GetPublicExponent(), q.PublicExponent()
		}
	case *rsassapss.Parameters:
		f := &psspb.RsaSsaPssKeyFormat{}
		if proto.Unmarshal(t.GetValue(), f) == nil {
			eBytes, eObj = f.GetPublicExponent(), q.PublicExponent()
		}
	case *jwtrsassapkcs1.Parameters:
		f := &jwtpk1pb.JwtRsaSsaPkcs1KeyFormat{}
		if proto.Unmarshal(t.GetValue(), f) == nil {
			eBytes, eObj = f.GetPublicExponent(), q.PublicExponent()
		}
	case *jwtrsassapss.Parameters:
		f := &jwtpsspb.JwtRsaSsaPssKeyFormat{}
		if proto.Unmarshal(t.GetValue(), f) == nil {
			eBytes, eObj = f.GetPublicExponent(), q.PublicExponent()
		}
	}
	if eObj >= 0 && new(big.Int).SetBytes(eBytes).Cmp(big.NewInt(int64(eObj))) != 0 {
		return fmt.Sprintf("the accepted parameters have public exponent %d, the key format says %s", eObj, new(big.Int).SetBytes(eBytes).String())
	}
	back, err := protoserialization.SerializeParameters(p)
	if err != nil {
		return "accepted parameters cannot be serialized again: " + err.Error()
	}
	p2, err, pn := parseParams(back)
	if pn != "" {
		return "re-parsing the serialized parameters panicked: " + pn
	}
	if err != nil {
		return "serialized parameters do not parse: " + err.Error()
	}
	if !p.Equal(p2) || !p2.Equal(p) {
		return "serialize-then-parse gives other parameters: " + renderParams(p) + " vs " + renderParams(p2)
	}
	return ""
}

// ---------------------------------------------------------------------------
// catalogue of key templates, built at wire level
// ---------------------------------------------------------------------------

type wf = []byte

func wv(num int, v uint64) wf  { return appVar(nil, protoNum(num), v) }
func wb(num int, v []byte) wf  { return appBytes(nil, protoNum(num), v) }
func wm(num int, fs ...wf) wf  { return appBytes(nil, protoNum(num), wcat(fs...)) }
func wcat(fs ...wf) []byte {
	var out []byte
	for _, f := range fs {
		out = append(out, f...)
	}
	return out
}

func tmplBytes(url string, value []byte, prefix uint64) []byte {
	return wcat(wb(1, []byte(url)), wb(2, value), wv(3, prefix))
}

type tmplCase struct {
	name     string
	url      string
	value    []byte
	prefixes []uint64 // the prefix types the parser accepts
	derive   bool     // keyderivers can derive a key of these parameters
}

const (
	pTink, pLegacy, pRaw, pCrunchy, pWithID = 1, 2, 3, 4, 5
)

var aeadPrefixes = []uint64{pTink, pLegacy, pRaw, pCrunchy}
var tinkRaw = []uint64{pTink, pRaw}
var rawOnly = []uint64{pRaw}

func f4() []byte { return []byte{1, 0, 1} }

// demTmpl: the DEM key template of an ECIES format
func demTmpl(url string, value []byte, prefix uint64) []byte { return tmplBytes(url, value, prefix) }

func eciesFormat(curve, hash, pf uint64, dem []byte, salt []byte) []byte {
	kem := wcat(wv(1, curve), wv(2, hash))
	if salt != nil {
		kem = append(kem, wb(11, salt)...)
	}
	return wm(1, wb(1, kem), wm(2, wb(2, dem)), wv(3, pf))
}

var gcm16 = wcat(wv(2, 16), wv(3, 0))
var gcm32 = wcat(wv(2, 32), wv(3, 0))
var hkdfPrfFormat = wcat(wm(1, wv(1, 3), wb(2, []byte{9, 8, 7})), wv(2, 32), wv(3, 0))

// templates: valid templates of the 29 registered parameters parsers.
func templates() []tmplCase {
	ctrHmac := func(aes, hk, iv, tag, hash uint64) []byte {
		return wcat(wm(1, wm(1, wv(1, iv)), wv(2, aes)), wm(2, wm(1, wv(1, hash), wv(2, tag)), wv(2, hk), wv(3, 0)))
	}
	ts := []tmplCase{
		{"AesGcm16", tp + "AesGcmKey", gcm16, aeadPrefixes, true},
		{"AesGcm24", tp + "AesGcmKey", wcat(wv(2, 24), wv(3, 0)), aeadPrefixes, true},
		{"AesGcm32", tp + "AesGcmKey", gcm32, aeadPrefixes, true},
		{"AesGcmSiv16", tp + "AesGcmSivKey", wcat(wv(2, 16), wv(1, 0)), aeadPrefixes, false},
		{"AesGcmSiv32", tp + "AesGcmSivKey", wcat(wv(2, 32), wv(1, 0)), aeadPrefixes, false},
		{"AesCtrHmac128", tp + "AesCtrHmacAeadKey", ctrHmac(16, 32, 16, 16, 3), aeadPrefixes, false},
		{"AesCtrHmac256", tp + "AesCtrHmacAeadKey", ctrHmac(32, 32, 16, 32, 3), aeadPrefixes, false},
		{"AesCtrHmacSha1", tp + "AesCtrHmacAeadKey", ctrHmac(24, 16, 12, 20, 1), aeadPrefixes, false},
		{"ChaCha", tp + "ChaCha20Poly1305Key", nil, aeadPrefixes, false},
		{"XChaCha", tp + "XChaCha20Poly1305Key", wv(1, 0), aeadPrefixes, true},
		{"XAesGcm", tp + "XAesGcmKey", wcat(wv(1, 0), wm(3, wv(1, 12))), tinkRaw, false},
		{"AesSiv64", tp + "AesSivKey", wcat(wv(1, 64), wv(2, 0)), aeadPrefixes, true},
		{"AesSiv32", tp + "AesSivKey", wcat(wv(1, 32), wv(2, 0)), aeadPrefixes, true},
		{"Hmac256", tp + "HmacKey", wcat(wm(1, wv(1, 3), wv(2, 16)), wv(2, 32), wv(3, 0)), aeadPrefixes, true},
		{"Hmac512", tp + "HmacKey", wcat(wm(1, wv(1, 4), wv(2, 64)), wv(2, 64), wv(3, 0)), aeadPrefixes, true},
		{"AesCmac", tp + "AesCmacKey", wcat(wv(1, 32), wm(2, wv(1, 16))), aeadPrefixes, false},
		{"AesCmacPrf", tp + "AesCmacPrfKey", wcat(wv(1, 32), wv(2, 0)), rawOnly, false},
		{"HkdfPrf", tp + "HkdfPrfKey", hkdfPrfFormat, rawOnly, true},
		{"HmacPrf", tp + "HmacPrfKey", wcat(wm(1, wv(1, 4)), wv(2, 64), wv(3, 0)), rawOnly, true},
		{"EcdsaP256", tp + "EcdsaPrivateKey", wcat(wm(2, wv(1, 3), wv(2, 2), wv(3, 2)), wv(3, 0)), aeadPrefixes, false},
		{"EcdsaP384", tp + "EcdsaPrivateKey", wcat(wm(2, wv(1, 4), wv(2, 3), wv(3, 1)), wv(3, 0)), aeadPrefixes, false},
		{"EcdsaP521", tp + "EcdsaPrivateKey", wcat(wm(2, wv(1, 4), wv(2, 4), wv(3, 2)), wv(3, 0)), aeadPrefixes, false},
		{"Ed25519", tp + "Ed25519PrivateKey", wv(1, 0), aeadPrefixes, true},
		{"RsaPkcs1", tp + "RsaSsaPkcs1PrivateKey", wcat(wm(1, wv(1, 3)), wv(2, 3072), wb(3, f4())), aeadPrefixes, false},
		{"RsaPss", tp + "RsaSsaPssPrivateKey", wcat(wm(1, wv(1, 4), wv(2, 4), wv(3, 64)), wv(2, 4096), wb(3, f4())), aeadPrefixes, false},
		{"RsaPssSalt0", tp + "RsaSsaPssPrivateKey", wcat(wm(1, wv(1, 3), wv(2, 3), wv(3, 0)), wv(2, 2048), wb(3, f4())), aeadPrefixes, false},
		{"MlDsa65", tp + "MlDsaPrivateKey", wcat(wv(1, 0), wm(2, wv(1, 1))), []uint64{pTink, pRaw, pWithID}, false},
		{"MlDsa44", tp + "MlDsaPrivateKey", wcat(wv(1, 0), wm(2, wv(1, 3))), []uint64{pTink, pRaw, pWithID}, false},
		{"SlhDsa", tp + "SlhDsaPrivateKey", wcat(wv(1, 0), wm(2, wv(1, 64), wv(2, 1), wv(3, 2))), tinkRaw, false},
		{"SlhDsa256f", tp + "SlhDsaPrivateKey", wcat(wv(1, 0), wm(2, wv(1, 128), wv(2, 2), wv(3, 1))), tinkRaw, false},
		{"Composite65Ed", tp + "CompositeMlDsaPrivateKey", wcat(wv(1, 0), wm(2, wv(1, 1), wv(2, 1))), tinkRaw, false},
		{"Composite87P521", tp + "CompositeMlDsaPrivateKey", wcat(wv(1, 0), wm(2, wv(1, 2), wv(2, 4))), tinkRaw, false},
		{"EciesP256Gcm", tp + "EciesAeadHkdfPrivateKey", eciesFormat(2, 3, 1, demTmpl(tp+"AesGcmKey", gcm16, pTink), nil), aeadPrefixes, false},
		{"EciesX25519Siv", tp + "EciesAeadHkdfPrivateKey", eciesFormat(5, 3, 2, demTmpl(tp+"AesSivKey", wcat(wv(1, 64), wv(2, 0)), pRaw), []byte{1, 2}), aeadPrefixes, false},
		{"EciesP384CtrHmac", tp + "EciesAeadHkdfPrivateKey", eciesFormat(3, 4, 2, demTmpl(tp+"AesCtrHmacAeadKey", ctrHmac(32, 32, 16, 32, 3), pRaw), nil), aeadPrefixes, false},
		{"EciesP521XChaCha", tp + "EciesAeadHkdfPrivateKey", eciesFormat(4, 4, 3, demTmpl(tp+"XChaCha20Poly1305Key", wv(1, 0), pRaw), nil), aeadPrefixes, false},
		{"HpkeX25519", tp + "HpkePrivateKey", wm(1, wv(1, 1), wv(2, 1), wv(3, 1)), []uint64{pTink, pRaw, pCrunchy}, false},
		{"HpkeXWing", tp + "HpkePrivateKey", wm(1, wv(1, 5), wv(2, 3), wv(3, 3)), []uint64{pTink, pRaw, pCrunchy}, false},
		{"StreamGcmHkdf", tp + "AesGcmHkdfStreamingKey", wcat(wv(3, 0), wm(1, wv(1, 4096), wv(2, 16), wv(3, 3)), wv(2, 32)), rawOnly, true},
		{"StreamCtrHmac", tp + "AesCtrHmacStreamingKey", wcat(wv(3, 0), wm(1, wv(1, 4096), wv(2, 32), wv(3, 4), wm(4, wv(1, 3), wv(2, 32))), wv(2, 32)), rawOnly, false},
		{"JwtHmac", tp + "JwtHmacKey", wcat(wv(1, 0), wv(2, 1), wv(3, 32)), tinkRaw, false},
		{"JwtEcdsa", tp + "JwtEcdsaPrivateKey", wcat(wv(1, 0), wv(2, 2)), tinkRaw, false},
		{"JwtRsaPkcs1", tp + "JwtRsaSsaPkcs1PrivateKey", wcat(wv(1, 0), wv(2, 1), wv(3, 2048), wb(4, f4())), tinkRaw, false},
		{"JwtRsaPss", tp + "JwtRsaSsaPssPrivateKey", wcat(wv(1, 0), wv(2, 3), wv(3, 4096), wb(4, f4())), tinkRaw, false},
		{"JwtMlDsa", tp + "JwtMlDsaPrivateKey", wcat(wv(1, 0), wv(2, 2)), tinkRaw, false},
	}
	// the deriver's own key format: PRF template, derived key template (whose prefix type the outer template repeats)
	deriverFormat := func(prf, derived []byte) []byte { return wcat(wb(1, prf), wm(2, wb(1, derived))) }
	ts = append(ts,
		tmplCase{"DeriverGcm", tp + "PrfBasedDeriverKey", deriverFormat(tmplBytes(tp+"HkdfPrfKey", hkdfPrfFormat, pRaw), tmplBytes(tp+"AesGcmKey", gcm32, pTink)), []uint64{pTink}, false},
		tmplCase{"DeriverCmacPrfRawHmac", tp + "PrfBasedDeriverKey", deriverFormat(tmplBytes(tp+"AesCmacPrfKey", wcat(wv(1, 32), wv(2, 0)), pRaw),
			tmplBytes(tp+"HmacPrfKey", wcat(wm(1, wv(1, 4)), wv(2, 64), wv(3, 0)), pRaw)), rawOnly, false},
		tmplCase{"DeriverOfDeriver", tp + "PrfBasedDeriverKey", deriverFormat(tmplBytes(tp+"HmacPrfKey", wcat(wm(1, wv(1, 3)), wv(2, 32), wv(3, 0)), pRaw),
			tmplBytes(tp+"PrfBasedDeriverKey", deriverFormat(tmplBytes(tp+"HkdfPrfKey", hkdfPrfFormat, pRaw), tmplBytes(tp+"Ed25519PrivateKey", wv(1, 0), pLegacy)), pLegacy)), []uint64{pLegacy}, false})
	return ts
}

// walkMutations enumerates, for an encoded message and every field of it down
// to maxDepth, the one-thing-wrong variants: every varint field at each edge
// value; every length-delimited field removed, emptied, made a non-message,
// one byte shorter / longer, given another wire type; an unknown field, a
// trailing garbage byte and a truncation at the top level.
func walkMutations(root []byte, maxDepth int, edges []uint64, emit func(v []byte, label string)) {
	var walk func(b []byte, depth int, path string, rebuild func([]byte) []byte)
	walk = func(b []byte, depth int, path string, rebuild func([]byte) []byte) {
		fs, ok := splitFields(b)
		if !ok {
			return
		}
		with := func(i int, f wfield) []byte {
			c := append([]wfield(nil), fs...)
			c[i] = f
			return rebuild(joinFields(c))
		}
		without := func(i int) []byte {
			c := append(append([]wfield(nil), fs[:i]...), fs[i+1:]...)
			return rebuild(joinFields(c))
		}
		// an unknown field (varint and bytes), the whole message body twice (every field repeated: scalars
		// last-wins, sub-messages merged), trailing garbage
		emit(rebuild(append(append([]byte(nil), b...), b...)), "dup-body"+path)
		emit(rebuild(append(append([]byte(nil), b...), wv(15, 7)...)), "unknown-var"+path)
		emit(rebuild(append(append([]byte(nil), b...), wb(14, []byte{1, 2})...)), "unknown-len"+path)
		emit(rebuild(append(append([]byte(nil), b...), 0xff)), "trailing"+path)
		if len(b) > 0 {
			emit(rebuild(append([]byte(nil), b[:len(b)-1]...)), "truncated"+path)
		}
		for i, f := range fs {
			p := fmt.Sprintf("%s.%d", path, f.Num)
			switch f.Typ {
			case protowire.VarintType:
				for _, e := range edges {
					if e == f.Var {
						continue
					}
					g := f
					g.Var = e
					emit(with(i, g), fmt.Sprintf("var%s=%d", p, e))
				}
				emit(without(i), "absent"+p)
				g := f
				g.Typ, g.Buf = protowire.BytesType, []byte{byte(f.Var)}
				emit(with(i, g), "wiretype"+p)
				g = f
				g.Typ, g.Buf = protowire.Fixed32Type, []byte{byte(f.Var), 0, 0, 0}
				emit(with(i, g), "fixed32"+p)
			case protowire.BytesType:
				emit(without(i), "nil"+p)
				g := f
				g.Buf = nil
				emit(with(i, g), "empty"+p)
				g.Buf = []byte{0xff}
				emit(with(i, g), "ff"+p)
				g = f
				g.Typ, g.Var = protowire.VarintType, 1
				emit(with(i, g), "wiretype"+p)
				sub, isMsg := splitFields(f.Buf)
				if isMsg && plausibleP(sub) && len(sub) > 0 {
					// the singular sub-message written in two pieces (the decoder merges them): split in the
					// middle; the whole again after itself; and a second piece that overrides its first field
					h1, h2 := f, f
					h1.Buf, h2.Buf = joinFields(sub[:len(sub)/2]), joinFields(sub[len(sub)/2:])
					c := append(append(append([]wfield(nil), fs[:i]...), h1, h2), fs[i+1:]...)
					emit(rebuild(joinFields(c)), "split"+p)
					c = append(append(append([]wfield(nil), fs[:i]...), h2, h1), fs[i+1:]...)
					emit(rebuild(joinFields(c)), "split-swapped"+p)
					ov := f
					first := sub[0]
					if first.Typ == protowire.VarintType {
						first.Var++
					} else if first.Typ == protowire.BytesType {
						first.Buf = append(append([]byte(nil), first.Buf...), 0)
					}
					ov.Buf = joinFields([]wfield{first})
					c = append(append(append([]wfield(nil), fs[:i]...), f, ov), fs[i+1:]...)
					emit(rebuild(joinFields(c)), "merge-override"+p)
				}
				if isMsg && plausibleP(sub) && depth < maxDepth {
					i := i
					walk(f.Buf, depth+1, p, func(nb []byte) []byte {
						h := fs[i]
						h.Buf = nb
						return with(i, h)
					})
					continue
				}
				if len(f.Buf) > 0 {
					g = f
					g.Buf = append([]byte(nil), f.Buf[:len(f.Buf)-1]...)
					emit(with(i, g), "short"+p)
					g.Buf = append([]byte(nil), f.Buf...)
					g.Buf[len(g.Buf)-1] ^= 1
					emit(with(i, g), "flip"+p)
				}
				g = f
				g.Buf = append(append([]byte(nil), f.Buf...), 0)
				emit(with(i, g), "long"+p)
			}
		}
	}
	walk(root, 0, "", func(b []byte) []byte { return b })
}

// plausibleP: the fields look like a message of the catalogue (field numbers up to 15) rather than bytes.
func plausibleP(fs []wfield) bool {
	if len(fs) == 0 || len(fs) > 8 {
		return false
	}
	for _, f := range fs {
		if f.Num > 15 {
			return false
		}
	}
	return true
}

// paramEdges: just below / at / above every bound a parameters parser applies,
// and the integer-conversion edges.
var paramEdges = []uint64{0, 1, 2, 3, 4, 5, 6, 7, 8, 9, 10, 11, 12, 13, 15, 16, 17, 19, 20, 21, 23, 24, 25, 27, 28, 29, 31, 32, 33, 40, 41, 47, 48, 49,
	56, 57, 63, 64, 65, 95, 96, 97, 127, 128, 129, 2047, 2048, 2049, 3072, 4096, 1<<31 - 1, 1 << 31, 1<<32 - 1, 1 << 32, 1<<32 + 16, 1<<32 + 32, 1 << 63, 1<<64 - 1}

// directedParams: every template of the catalogue with every prefix type 0..6,
// and its one-thing-wrong variants (prefix type = the first accepted one).
// step thins the mutations (quick tier).
func directedParams(step int) []string {
	var lines []string
	n := 0
	for _, tc := range templates() {
		for p := uint64(0); p <= 6; p++ {
			lines = append(lines, "P|"+hx.H(tmplBytes(tc.url, tc.value, p))+"|tmpl-prefix"+fmt.Sprint(p)+":"+tc.name)
		}
		tc := tc
		emit := func(v []byte, label string) {
			n++
			if step > 1 && n%step != 0 {
				return
			}
			lines = append(lines, "P|"+hx.H(tmplBytes(tc.url, v, tc.prefixes[0]))+"|tmpl-"+label+":"+tc.name)
		}
		walkMutations(tc.value, 5, paramEdges, emit)
		// the template message itself: unknown field, wrong wire types, no value, no URL, URL of another type / not UTF-8
		base := tmplBytes(tc.url, tc.value, tc.prefixes[0])
		for _, m := range []struct {
			l string
			b []byte
		}{
			{"t-unknown-field", append(append([]byte(nil), base...), wv(9, 1)...)},
			{"t-no-value", wcat(wb(1, []byte(tc.url)), wv(3, tc.prefixes[0]))},
			{"t-empty-value", tmplBytes(tc.url, nil, tc.prefixes[0])},
			{"t-no-url", wcat(wb(2, tc.value), wv(3, tc.prefixes[0]))},
			{"t-url-bad-utf8", tmplBytes(tc.url+"\xff", tc.value, tc.prefixes[0])},
			{"t-url-public", tmplBytes(strings.Replace(tc.url, "PrivateKey", "PublicKey", 1)+"x", tc.value, tc.prefixes[0])},
			{"t-prefix-twice", append(append([]byte(nil), base...), wv(3, 9)...)},
			{"t-value-twice", append(append([]byte(nil), base...), wb(2, []byte{0xff})...)},
			{"t-prefix-2^32+", wcat(wb(1, []byte(tc.url)), wb(2, tc.value), wv(3, 1<<32+tc.prefixes[0]))},
			{"t-truncated", base[:len(base)-1]},
		} {
			lines = append(lines, "P|"+hx.H(m.b)+"|tmpl-"+m.l+":"+tc.name)
		}
	}
	// public exponents of the four RSA key formats around int64 / int conversion and the NewParameters bounds
	for _, tc := range templates() {
		num := 0
		switch tc.name {
		case "RsaPkcs1", "RsaPss":
			num = 3
		case "JwtRsaPkcs1", "JwtRsaPss":
			num = 4
		}
		if num == 0 {
			continue
		}
		fs, _ := splitFields(tc.value)
		for i, e := range rsaExponents {
			c := append([]wfield(nil), fs...)
			for j := range c {
				if int(c[j].Num) == num {
					c[j].Buf = e
				}
			}
			lines = append(lines, "P|"+hx.H(tmplBytes(tc.url, joinFields(c), tc.prefixes[0]))+fmt.Sprintf("|tmpl-exponent-%d:%s", i, tc.name))
		}
	}
	// public-key type URLs and unregistered URLs have no parameters parser
	for _, u := range []string{tp + "EcdsaPublicKey", tp + "Ed25519PublicKey", tp + "HpkePublicKey", tp + "EciesAeadHkdfPublicKey", tp + "KmsAeadKey",
		tp + "KmsEnvelopeAeadKey", tp + "AesEaxKey", "type.googleapis.com/example.Unknown", ""} {
		lines = append(lines, "P|"+hx.H(tmplBytes(u, gcm16, pRaw))+"|tmpl-no-parser:"+strings.TrimPrefix(u, tp))
	}
	lines = append(lines, "P|-|tmpl-empty:none", "P|ff|tmpl-garbage:none")
	// ONE deep case: an ECIES format nested as its own DEM template, 1500 times in the thorough tier (about 135 KB,
	// 125 MB of live memory in the code) and 300 times in the quick tier (the extracted model re-decodes the rest of
	// the value at every level with unary / binary-positive arithmetic: 4.6 minutes for depth 1500, about 10 s for 300).
	// The verdict is an error (the innermost level is reached; a nested ECIES format is not an allowed DEM), but the
	// code keeps every level's decoded format alive across the recursive ParseParameters: live memory quadratic in the
	// depth (measured by the fourth audit: depth 1000 -> 66 MB, 2000 -> 222 MB, 4000 -> 856 MB, 6000 -> 2 GB).
	depth := 300
	if step == 1 {
		depth = 1500
	}
	deep := tmplBytes(tp+"AesGcmKey", gcm16, pRaw)
	for i := 0; i < depth; i++ {
		deep = tmplBytes(tp+"EciesAeadHkdfPrivateKey", eciesFormat(2, 3, 1, deep, nil), pRaw)
	}
	lines = append(lines, "P|"+hx.H(deep)+fmt.Sprintf("|tmpl-ecies-depth-%d:EciesP256Gcm", depth))
	return lines
}

// randomParams: a template of the catalogue, possibly nested into an ECIES or
// a deriver template, with a random structural mutation somewhere.
func randomParams(r *hx.Rng) string {
	ts := templates()
	tc := ts[r.Intn(len(ts))]
	prefix := hx.PickS(r, tc.prefixes)
	if r.Chance(15) {
		prefix = uint64(r.Intn(7))
	}
	value, label := tc.value, "valid"
	if r.Chance(70) {
		value, label = mutateValue(r, tc.value, 4)
	}
	b := tmplBytes(tc.url, value, prefix)
	name := tc.name
	switch r.Intn(6) {
	case 0: // as the DEM of an ECIES template
		b = tmplBytes(tp+"EciesAeadHkdfPrivateKey", eciesFormat(hx.PickS(r, []uint64{2, 3, 4, 5}), 3, hx.PickS(r, []uint64{1, 2, 3}), b, nil), hx.PickS(r, aeadPrefixes))
		name = "EciesOf" + name
	case 1: // as the derived key template of a deriver template
		b = tmplBytes(tp+"PrfBasedDeriverKey", wcat(wb(1, tmplBytes(tp+"HkdfPrfKey", hkdfPrfFormat, pRaw)), wm(2, wb(1, b))), prefix)
		name = "DeriverOf" + name
	case 2: // as the PRF template of a deriver template
		b = tmplBytes(tp+"PrfBasedDeriverKey", wcat(wb(1, b), wm(2, wb(1, tmplBytes(tp+"AesGcmKey", gcm16, pRaw)))), pRaw)
		name = "DeriverPrf" + name
	}
	return "P|" + hx.H(b) + "|rtmpl-" + label + ":" + name
}
