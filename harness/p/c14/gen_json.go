package c14

import (
	"bytes"
	"fmt"
	"strings"

	"github.com/tink-crypto/tink-go/v2/keyset"
	"github.com/tink-crypto/tink-go/v2/verifharness/hx"
	"github.com/tink-crypto/tink-go/v2/verifharness/p/ksjson"
	"google.golang.org/protobuf/encoding/protojson"
	"google.golang.org/protobuf/proto"

	tinkpb "github.com/tink-crypto/tink-go/v2/proto/tink_go_proto"
)

// The JSON TEXT stream of the untrusted-keyset property (the model parses the
// text itself: coq/model/JsonKeyset.v; what protojson made of it travels in
// the line only as a cross-check):
//
//	J|<json hex>|<bin hex or X>|jt-<family>[:R]-<label>      keyset text (see c14.go)
//	F|<kek>|<ad>|<json hex>|<canon or X>|jt-<family>[:R]-<label>
//	    EncryptedKeyset text through keyset.ReadWithAssociatedData(keyset.NewJSONReader(..), kek, ad);
//	    canon = what protojson.Unmarshal yields: ct=<hex>;info=<~ | primary/url.status.id.prefix,...>
//
// families: harness/p/ksjson (every spelling protojson accepts, every single fault).

func msgOf(ks *mKeyset) *tinkpb.Keyset {
	m := &tinkpb.Keyset{}
	if proto.Unmarshal(ks.Marshal(), m) != nil {
		return nil
	}
	return m
}

func lineJ(text, label string) string {
	bin := "X"
	back := &tinkpb.Keyset{}
	if (protojson.UnmarshalOptions{}).Unmarshal([]byte(text), back) == nil {
		bin = hx.H(mustMarshal(back))
	}
	return "J|" + hx.H([]byte(text)) + "|" + bin + "|" + label
}

// canonEncrypted: the EncryptedKeyset message as the model prints it.
func canonEncrypted(e *tinkpb.EncryptedKeyset) string {
	info := "~"
	if e.KeysetInfo != nil {
		var ks []string
		for _, k := range e.KeysetInfo.GetKeyInfo() {
			ks = append(ks, fmt.Sprintf("%s.%d.%d.%d", hx.H([]byte(k.GetTypeUrl())), uint32(k.GetStatus()), k.GetKeyId(), uint32(k.GetOutputPrefixType())))
		}
		info = fmt.Sprintf("%d/%s", e.KeysetInfo.GetPrimaryKeyId(), strings.Join(ks, ","))
	}
	return "ct=" + hx.H(e.GetEncryptedKeyset()) + ";info=" + info
}

func lineF(kek, ad []byte, text, label string) string {
	canon := "X"
	back := &tinkpb.EncryptedKeyset{}
	if (protojson.UnmarshalOptions{}).Unmarshal([]byte(text), back) == nil {
		canon = canonEncrypted(back)
	}
	return "F|" + hx.H(kek) + "|" + hx.H(ad) + "|" + hx.H([]byte(text)) + "|" + canon + "|" + label
}

func jtTag(fam, exp string) string {
	if exp != "" {
		return "jt-" + fam + ":" + exp
	}
	return "jt-" + fam
}

// jsonTextCase: a keyset (valid, or structurally mutated) spelled in a random
// accepted style, half of the time with one fault.
func jsonTextCase(r *hx.Rng) string {
	ks, names := validKeyset(r, 1+r.Intn(3), 85)
	label := "valid"
	if r.Chance(30) {
		label = mutateKeyset(r, ks)
	}
	msg := msgOf(ks)
	if msg == nil {
		msg = &tinkpb.Keyset{}
	}
	st := ksjson.RandomStyle(r)
	text, fam, exp := ksjson.Case(ksjson.Keyset(msg, r, st), r, r.Chance(55), st.Space)
	nm := "none"
	if len(names) > 0 {
		nm = names[0]
	}
	return lineJ(text, jtTag(fam, exp)+"~"+label+":"+nm)
}

func encryptedMsg(r *hx.Rng, ks *mKeyset, kek, ad []byte, withInfo bool) *tinkpb.EncryptedKeyset {
	e := &tinkpb.EncryptedKeyset{EncryptedKeyset: stdlibSeal(kek, r.Bytes(12), ks.Marshal(), ad)}
	if withInfo {
		info := &tinkpb.KeysetInfo{PrimaryKeyId: uint32(ks.Primary)}
		for _, k := range ks.Keys {
			info.KeyInfo = append(info.KeyInfo, &tinkpb.KeysetInfo_KeyInfo{TypeUrl: k.URL, Status: tinkpb.KeyStatusType(k.Status),
				KeyId: uint32(k.ID), OutputPrefixType: tinkpb.OutputPrefixType(k.Prefix)})
		}
		e.KeysetInfo = info
	}
	return e
}

func jsonEncryptedCase(r *hx.Rng) string {
	ks, names := validKeyset(r, 1+r.Intn(3), 85)
	label := "valid"
	if r.Chance(25) {
		label = mutateKeyset(r, ks)
	}
	kek := r.Bytes(hx.PickS(r, []int{16, 32}))
	ad := r.Bytes(hx.PickS(r, []int{0, 0, 5, 16}))
	e := encryptedMsg(r, ks, kek, ad, r.Chance(80))
	lineKek, lineAd := kek, ad
	switch r.Intn(14) {
	case 0:
		lineKek = append([]byte(nil), kek...)
		lineKek[r.Intn(len(kek))] ^= 1
		label += "+wrong-kek"
	case 1:
		lineAd = append(append([]byte(nil), ad...), 1)
		label += "+wrong-ad"
	case 2:
		e.EncryptedKeyset[r.Intn(len(e.EncryptedKeyset))] ^= byte(1 << r.Intn(8))
		label += "+ct-bitflip"
	}
	st := ksjson.RandomStyle(r)
	text, fam, exp := ksjson.Case(ksjson.Encrypted(e, r, st), r, r.Chance(50), st.Space)
	nm := "none"
	if len(names) > 0 {
		nm = names[0]
	}
	return lineF(lineKek, lineAd, text, jtTag(fam, exp)+"~"+label+":"+nm)
}

// directedJSONText: every fault family and every text manipulation several
// times on fixed keysets, every style dimension, cleartext and encrypted.
func directedJSONText() []string {
	r := hx.NewRng(20260928)
	var lines []string
	base := func() (*mKeyset, string) {
		ks, names := validKeyset(r, 1+r.Intn(3), 100)
		return ks, names[0]
	}
	for _, f := range ksjson.Faults() {
		for i := 0; i < 7; i++ {
			ks, nm := base()
			st := ksjson.RandomStyle(r)
			if i < 3 {
				st = ksjson.Style{}
			}
			n := ksjson.Keyset(msgOf(ks), r, st)
			exp, ok := f.Apply(n, r)
			if !ok {
				continue
			}
			lines = append(lines, lineJ(n.Text(r, st.Space), jtTag(f.Name, exp)+"~directed:"+nm))
		}
		for i := 0; i < 3; i++ {
			ks, nm := base()
			kek, ad := r.Bytes(16), r.Bytes(r.Intn(9))
			st := ksjson.RandomStyle(r)
			n := ksjson.Encrypted(encryptedMsg(r, ks, kek, ad, true), r, st)
			exp, ok := f.Apply(n, r)
			if !ok {
				continue
			}
			lines = append(lines, lineF(kek, ad, n.Text(r, st.Space), jtTag(f.Name, exp)+"~directed:"+nm))
		}
	}
	for _, tf := range ksjson.TextFaults() {
		for i := 0; i < 5; i++ {
			ks, nm := base()
			t := ksjson.Keyset(msgOf(ks), r, ksjson.RandomStyle(r)).Text(r, i%2 == 1)
			out := tf.F(t, r)
			if out == t && tf.Exp == "R" {
				out = t + "}"
			}
			lines = append(lines, lineJ(out, jtTag(tf.Name, tf.Exp)+"~directed:"+nm))
		}
		ks, nm := base()
		kek, ad := r.Bytes(32), []byte{}
		t := ksjson.Encrypted(encryptedMsg(r, ks, kek, ad, true), r, ksjson.RandomStyle(r)).Text(r, false)
		out := tf.F(t, r)
		if out == t && tf.Exp == "R" {
			out = t + "}"
		}
		lines = append(lines, lineF(kek, ad, out, jtTag(tf.Name, tf.Exp)+"~directed:"+nm))
	}
	// every accepted spelling, one dimension at a time
	for dim := 0; dim < 8; dim++ {
		for v := 0; v < 5; v++ {
			st := ksjson.Style{}
			switch dim {
			case 0:
				st.Snake = v % 3
			case 1:
				st.Enum = v
			case 2:
				st.U32 = v
			case 3:
				st.B64 = v
			case 4:
				st.Shuffle = true
			case 5:
				st.Space = true
			case 6:
				st.Nulls = true
			case 7:
				st.Escape = true
			}
			ks, nm := base()
			lines = append(lines, lineJ(ksjson.Keyset(msgOf(ks), r, st).Text(r, st.Space), fmt.Sprintf("jt-style%d.%d~directed:%s", dim, v, nm)))
			if v < 2 {
				kek, ad := r.Bytes(16), r.Bytes(4)
				lines = append(lines, lineF(kek, ad, ksjson.Encrypted(encryptedMsg(r, ks, kek, ad, v == 0), r, st).Text(r, st.Space),
					fmt.Sprintf("jt-style%d.%d~directed:%s", dim, v, nm)))
			}
		}
	}
	// the dangling exponent marker (protobuf-go leniency on the integer path) on every integer / enum
	// field of both schemas, bare and string form; :A = protojson reads the text by construction
	for _, d := range ksjson.DanglingTexts() {
		if d.Kind == "K" {
			lines = append(lines, lineJ(d.Text, jtTag("dangling-e-field", d.Exp)+"~directed:text"))
		} else {
			lines = append(lines, lineF(r.Bytes(16), r.Bytes(2), d.Text, jtTag("dangling-e-field", d.Exp)+"~directed:text"))
		}
	}
	// end to end: Tink's own writer output with the primary key id given a dangling marker is read into a handle
	for i := 0; i < 6; i++ {
		ks, nm := base()
		var buf bytes.Buffer
		if keyset.NewJSONWriter(&buf).Write(msgOf(ks)) == nil {
			t := buf.String()
			if j := strings.Index(t, `"primaryKeyId":`); j >= 0 {
				k := j + len(`"primaryKeyId":`)
				for k < len(t) && t[k] == ' ' {
					k++
				}
				e := k
				for e < len(t) && t[e] >= '0' && t[e] <= '9' {
					e++
				}
				if e > k {
					lines = append(lines, lineJ(t[:e]+hx.PickS(r, []string{"e", "E", ".0e"})+t[e:], "jt-dangling-e-writer:A~directed:"+nm))
				}
			}
		}
	}
	// what the library's own writer produces (whatever its formatting is in this build)
	for i := 0; i < 6; i++ {
		ks, nm := base()
		var buf bytes.Buffer
		if keyset.NewJSONWriter(&buf).Write(msgOf(ks)) == nil {
			lines = append(lines, lineJ(buf.String(), "jt-tink-writer~directed:"+nm))
		}
		kek, ad := r.Bytes(16), r.Bytes(3)
		buf.Reset()
		if keyset.NewJSONWriter(&buf).WriteEncrypted(encryptedMsg(r, ks, kek, ad, true)) == nil {
			lines = append(lines, lineF(kek, ad, buf.String(), "jt-tink-writer~directed:"+nm))
		}
	}
	return lines
}
