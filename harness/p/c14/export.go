package c14

import (
	"github.com/tink-crypto/tink-go/v2/key"
	"github.com/tink-crypto/tink-go/v2/keyset"
	"github.com/tink-crypto/tink-go/v2/tink"
	"github.com/tink-crypto/tink-go/v2/verifharness/hx"

	tinkpb "github.com/tink-crypto/tink-go/v2/proto/tink_go_proto"
)

// Exported for the C13 harness (same key bank, same keyset builder).

type BankKey struct {
	Name, Class string
	Key         *tinkpb.Keyset_Key
	Mod         bool
}

func Bank() []BankKey {
	out := make([]BankKey, len(bank))
	for i, b := range bank {
		out[i] = BankKey{b.name, b.class, b.key, b.mod16}
	}
	return out
}

type MKey = mKey
type MKeyset = mKeyset

const TypePrefix = tp

// C13's view of the key types (frozen at the 16 types it was built on): the
// other registered types are outside its scope whether or not C14 models them.
func Modelled(url string) bool   { return base16[url] }
func Unmodelled(url string) bool { return outside16[url] }
func AnyUnmodelled(ks *tinkpb.Keyset) bool {
	for _, k := range ks.GetKey() {
		if outside16[k.GetKeyData().GetTypeUrl()] {
			return true
		}
	}
	return false
}
func KekAEAD(kek []byte) (tink.AEAD, error)        { return kekAEAD(kek) }
func StdlibOpen(kek, ct, ad []byte) ([]byte, bool) { return stdlibOpen(kek, ct, ad) }
func JSONKeyset(ks *tinkpb.Keyset) string          { return jsonKeyset(ks, hx.NewRng(1), 0) }
func WellFormed(h *keyset.Handle) string           { return wellFormed(h) }
func TypedVariant(r *hx.Rng, k *MKey) string       { return typedVariant(r, k) }
func PrimFromKey(k key.Key) (any, error, string)   { return primFromKey(k) }
