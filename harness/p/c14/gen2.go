package c14

import (
	"crypto/ed25519"
	"math/big"
	"strings"

	"github.com/tink-crypto/tink-go/v2/verifharness/hx"
	"google.golang.org/protobuf/proto"

	commonpb "github.com/tink-crypto/tink-go/v2/proto/common_go_proto"
	eciespb "github.com/tink-crypto/tink-go/v2/proto/ecies_aead_hkdf_go_proto"
	ed25519pb "github.com/tink-crypto/tink-go/v2/proto/ed25519_go_proto"
	hpkepb "github.com/tink-crypto/tink-go/v2/proto/hpke_go_proto"
	pk1pb "github.com/tink-crypto/tink-go/v2/proto/rsa_ssa_pkcs1_go_proto"
	psspb "github.com/tink-crypto/tink-go/v2/proto/rsa_ssa_pss_go_proto"
)

// rsaParts: the private part of an RSA key in the order of the proto fields.
type rsaParts struct{ n, e, d, p, q, dp, dq, crt []byte }

var bigOne = big.NewInt(1)

// rsaTweak mutates the parts of a valid RSA private key around every
// consistency check of the parser; returns a short label.
func rsaTweak(r *hx.Rng, k *rsaParts) string {
	flip := func(b []byte) []byte {
		c := append([]byte(nil), b...)
		if len(c) > 0 {
			c[len(c)-1] ^= 1
		}
		return c
	}
	lz := func(b []byte) []byte { return append(make([]byte, 1+r.Intn(3)), b...) }
	switch pick(r, 20) {
	case 0:
		k.d = flip(k.d)
		return "d-flip"
	case 1:
		k.p, k.q = k.q, k.p // still a factorisation, but dp / dq / crt belong to the other order
		return "pq-swapped"
	case 2:
		k.p, k.q, k.dp, k.dq = k.q, k.p, k.dq, k.dp // only crt is wrong now
		return "pq-swapped-crt-stale"
	case 3:
		k.dp = flip(k.dp)
		return "dp-flip"
	case 4:
		k.dq = flip(k.dq)
		return "dq-flip"
	case 5:
		k.crt = flip(k.crt)
		return "crt-flip"
	case 6:
		k.dp, k.dq, k.crt, k.d, k.p, k.q, k.n = lz(k.dp), lz(k.dq), lz(k.crt), lz(k.d), lz(k.p), lz(k.q), lz(k.n)
		return "leading-zeros" // tolerated everywhere
	case 7:
		k.n = flip(k.n)
		return "n-flip"
	case 8:
		k.e = hx.PickS(r, rsaExponents)
		return "e-other"
	case 9:
		// a consistent key for another odd exponent >= 65537: d, dp, dq recomputed
		p, q := new(big.Int).SetBytes(k.p), new(big.Int).SetBytes(k.q)
		p1, q1 := new(big.Int).Sub(p, bigOne), new(big.Int).Sub(q, bigOne)
		phi := new(big.Int).Mul(p1, q1)
		for _, e := range []int64{65539, 65543, 65551, 131073, 1<<31 - 1} {
			eb := big.NewInt(e)
			d := new(big.Int).ModInverse(eb, phi)
			if d == nil {
				continue
			}
			k.e, k.d = eb.Bytes(), d.Bytes()
			k.dp, k.dq = new(big.Int).Mod(d, p1).Bytes(), new(big.Int).Mod(d, q1).Bytes()
			return "consistent-other-e"
		}
		return "valid"
	case 10:
		k.q = k.p
		return "q-equals-p"
	case 11:
		k.p = nil
		return "p-empty"
	case 12:
		k.d = nil
		return "d-empty"
	case 13:
		k.n = odd(r, hx.PickS(r, []int{1024, 2047, 2048}))
		return "n-random"
	case 14:
		// d + lambda-multiple: another valid private exponent for the same key
		p, q := new(big.Int).SetBytes(k.p), new(big.Int).SetBytes(k.q)
		phi := new(big.Int).Mul(new(big.Int).Sub(p, bigOne), new(big.Int).Sub(q, bigOne))
		k.d = new(big.Int).Add(new(big.Int).SetBytes(k.d), phi).Bytes()
		return "d-plus-phi"
	case 15:
		k.dp, k.dq, k.crt = nil, nil, nil
		return "no-crt-values"
	}
	return "valid"
}

// typedVariant2 rebuilds the key value of one of the key types modelled in
// the second round around every check of its parser (wrong version, wrong
// sizes, off-curve / wrong-length points, mismatched public/private parts,
// unknown enums).  handled = false: not one of these types.
func typedVariant2(r *hx.Rng, k *mKey, ver uint32) (label string, handled bool) {
	switch strings.TrimPrefix(k.URL, tp) {
	case "Ed25519PublicKey":
		k.Value = mustMarshal(&ed25519pb.Ed25519PublicKey{Version: ver, KeyValue: r.Bytes(hx.PickS(r, []int{0, 31, 32, 32, 32, 33, 64}))})
	case "Ed25519PrivateKey":
		seed := r.Bytes(32)
		pub := []byte(ed25519.NewKeyFromSeed(seed).Public().(ed25519.PublicKey))
		v := &ed25519pb.Ed25519PrivateKey{KeyValue: seed, PublicKey: &ed25519pb.Ed25519PublicKey{KeyValue: pub}}
		switch pick(r, 10) {
		case 0:
			v.KeyValue = r.Bytes(hx.PickS(r, []int{0, 31, 33, 64})) // seed of another length
		case 1:
			v.KeyValue[r.Intn(32)] ^= 1 // another seed: the public part no longer matches
		case 2:
			v.PublicKey.KeyValue[r.Intn(32)] ^= 1 // another public key
		case 3:
			v.PublicKey.KeyValue = r.Bytes(hx.PickS(r, []int{0, 31, 33, 64}))
		case 4:
			v.PublicKey.Version = hx.PickS(r, []uint32{1, 2})
		case 5:
			v.PublicKey = nil
		case 6:
			v.KeyValue = append(v.KeyValue, pub...) // the 64-byte form of crypto/ed25519
		}
		v.Version = ver
		k.Value = mustMarshal(v)
	case "RsaSsaPkcs1PrivateKey":
		v := &pk1pb.RsaSsaPkcs1PrivateKey{}
		if proto.Unmarshal(k.Value, v) != nil || v.PublicKey == nil {
			return "typed-skip", true
		}
		parts := &rsaParts{v.PublicKey.N, v.PublicKey.E, v.D, v.P, v.Q, v.Dp, v.Dq, v.Crt}
		l := rsaTweak(r, parts)
		v.PublicKey.N, v.PublicKey.E, v.D, v.P, v.Q, v.Dp, v.Dq, v.Crt = parts.n, parts.e, parts.d, parts.p, parts.q, parts.dp, parts.dq, parts.crt
		switch pick(r, 12) {
		case 0:
			v.PublicKey.Params = &pk1pb.RsaSsaPkcs1Params{HashType: hx.PickS(r, []commonpb.HashType{0, 1, 2, 3, 4, 5, 6})}
			l += "+hash"
		case 1:
			v.PublicKey.Version = hx.PickS(r, []uint32{1, 2})
			l += "+pubversion"
		case 2:
			v.PublicKey = nil
			l += "+nopub"
		case 3:
			v.PublicKey.Params = nil
			l += "+noparams"
		}
		v.Version = ver
		k.Value = mustMarshal(v)
		return "typed-" + l, true
	case "RsaSsaPssPrivateKey":
		v := &psspb.RsaSsaPssPrivateKey{}
		if proto.Unmarshal(k.Value, v) != nil || v.PublicKey == nil || v.PublicKey.Params == nil {
			return "typed-skip", true
		}
		parts := &rsaParts{v.PublicKey.N, v.PublicKey.E, v.D, v.P, v.Q, v.Dp, v.Dq, v.Crt}
		l := rsaTweak(r, parts)
		v.PublicKey.N, v.PublicKey.E, v.D, v.P, v.Q, v.Dp, v.Dq, v.Crt = parts.n, parts.e, parts.d, parts.p, parts.q, parts.dp, parts.dq, parts.crt
		switch pick(r, 12) {
		case 0:
			h := hx.PickS(r, []commonpb.HashType{0, 1, 2, 3, 4, 5, 6})
			v.PublicKey.Params.SigHash, v.PublicKey.Params.Mgf1Hash = h, h
			l += "+hash"
		case 1:
			v.PublicKey.Params.Mgf1Hash = hx.PickS(r, []commonpb.HashType{0, 1, 2, 3, 4})
			l += "+mgf"
		case 2:
			v.PublicKey.Version = hx.PickS(r, []uint32{1, 2})
			l += "+pubversion"
		case 3:
			v.PublicKey = nil
			l += "+nopub"
		case 4:
			v.PublicKey.Params = nil
			l += "+noparams"
		case 5, 6:
			// the largest salt a signature has room for is emLen - hLen - 2
			nb := (new(big.Int).SetBytes(v.PublicKey.N).BitLen() + 6) / 8
			hl := map[commonpb.HashType]int{commonpb.HashType_SHA256: 32, commonpb.HashType_SHA384: 48, commonpb.HashType_SHA512: 64}[v.PublicKey.Params.SigHash]
			v.PublicKey.Params.SaltLength = int32(hx.PickS(r, []int{0, 1, 20, 64, nb - hl - 3, nb - hl - 2, nb - hl - 1, nb - hl, nb, 4096, -1, -32}))
			l += "+salt"
		}
		v.Version = ver
		k.Value = mustMarshal(v)
		return "typed-" + l, true
	case "EciesAeadHkdfPublicKey":
		v, _, l := eciesKey(r)
		l += "-" + eciesTweak(r, v)
		v.Version = ver
		k.Value = mustMarshal(v)
		return "typed-" + l, true
	case "EciesAeadHkdfPrivateKey":
		pub, priv, l := eciesKey(r)
		v := &eciespb.EciesAeadHkdfPrivateKey{PublicKey: pub, KeyValue: priv}
		switch pick(r, 14) {
		case 0:
			l += "-" + eciesTweak(r, pub)
		case 1:
			v.KeyValue = append([]byte{0, 0, 0}, v.KeyValue...) // tolerated on the NIST curves, not for X25519
			l += "-priv-leading-zeros"
		case 2:
			v.KeyValue[len(v.KeyValue)-1] ^= 1 // another scalar: the public part no longer matches
			l += "-priv-flip"
		case 3:
			v.KeyValue = make([]byte, len(v.KeyValue))
			l += "-priv-zero"
		case 4:
			for i := range v.KeyValue {
				v.KeyValue[i] = 0xff
			}
			l += "-priv-ff"
		case 5:
			v.KeyValue = v.KeyValue[1:]
			l += "-priv-short"
		case 6:
			v.PublicKey = nil
			l += "-nopub"
		case 7:
			pub.Version = 1
			l += "-pubversion"
		case 8:
			v.KeyValue = nil
			l += "-priv-empty"
		}
		v.Version = ver
		k.Value = mustMarshal(v)
		return "typed-" + l, true
	case "HpkePublicKey":
		v, _, l := hpkeKey(r)
		l += "-" + hpkeTweak(r, v, nil)
		v.Version = ver
		k.Value = mustMarshal(v)
		return "typed-" + l, true
	case "HpkePrivateKey":
		pub, priv, l := hpkeKey(r)
		v := &hpkepb.HpkePrivateKey{PublicKey: pub, PrivateKey: priv}
		switch pick(r, 14) {
		case 0, 1:
			l += "-" + hpkeTweak(r, pub, nil)
		case 2:
			v.PrivateKey = append([]byte{0}, v.PrivateKey...) // no leading zeros tolerated here
			l += "-priv-leading-zero"
		case 3:
			v.PrivateKey[len(v.PrivateKey)-1] ^= 1
			l += "-priv-flip"
		case 4:
			v.PrivateKey = make([]byte, len(v.PrivateKey))
			l += "-priv-zero"
		case 5:
			v.PrivateKey = v.PrivateKey[1:]
			l += "-priv-short"
		case 6:
			v.PublicKey = nil
			l += "-nopub"
		case 7:
			pub.Version = 1
			l += "-pubversion"
		case 8:
			v.PrivateKey = nil
			l += "-priv-empty"
		}
		v.Version = ver
		k.Value = mustMarshal(v)
		return "typed-" + l, true
	default:
		return typedVariant3(r, k, ver, strings.TrimPrefix(k.URL, tp))
	}
	return "typed", true
}

var _ = proto.Marshal
