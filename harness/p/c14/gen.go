package c14

import (
	"encoding/base64"
	"fmt"
	"math/big"
	"strings"

	"github.com/tink-crypto/tink-go/v2/verifharness/hx"
	"google.golang.org/protobuf/encoding/protojson"
	"google.golang.org/protobuf/encoding/protowire"
	"google.golang.org/protobuf/proto"

	cmacpb "github.com/tink-crypto/tink-go/v2/proto/aes_cmac_go_proto"
	cmacprfpb "github.com/tink-crypto/tink-go/v2/proto/aes_cmac_prf_go_proto"
	ctrpb "github.com/tink-crypto/tink-go/v2/proto/aes_ctr_go_proto"
	ctrhmacpb "github.com/tink-crypto/tink-go/v2/proto/aes_ctr_hmac_aead_go_proto"
	gcmpb "github.com/tink-crypto/tink-go/v2/proto/aes_gcm_go_proto"
	gcmsivpb "github.com/tink-crypto/tink-go/v2/proto/aes_gcm_siv_go_proto"
	sivpb "github.com/tink-crypto/tink-go/v2/proto/aes_siv_go_proto"
	chachapb "github.com/tink-crypto/tink-go/v2/proto/chacha20_poly1305_go_proto"
	commonpb "github.com/tink-crypto/tink-go/v2/proto/common_go_proto"
	ecdsapb "github.com/tink-crypto/tink-go/v2/proto/ecdsa_go_proto"
	hkdfprfpb "github.com/tink-crypto/tink-go/v2/proto/hkdf_prf_go_proto"
	hmacpb "github.com/tink-crypto/tink-go/v2/proto/hmac_go_proto"
	hmacprfpb "github.com/tink-crypto/tink-go/v2/proto/hmac_prf_go_proto"
	pk1pb "github.com/tink-crypto/tink-go/v2/proto/rsa_ssa_pkcs1_go_proto"
	psspb "github.com/tink-crypto/tink-go/v2/proto/rsa_ssa_pss_go_proto"
	tinkpb "github.com/tink-crypto/tink-go/v2/proto/tink_go_proto"
	xaesgcmpb "github.com/tink-crypto/tink-go/v2/proto/x_aes_gcm_go_proto"
	xchachapb "github.com/tink-crypto/tink-go/v2/proto/xchacha20_poly1305_go_proto"
)

var idUniverse = []uint64{1, 2, 3, 5, 7, 0x7fffffff, 0x80000000, 0xffffffff, 0, 65536 + 5}

func pickBank(r *hx.Rng, modPct int) bankKey {
	if r.Chance(modPct) {
		return bank[bankMod[r.Intn(len(bankMod))]]
	}
	return bank[r.Intn(len(bank))]
}

func toMKey(bk bankKey, id, status uint64) mKey {
	kd := bk.key.GetKeyData()
	return mKey{URL: kd.GetTypeUrl(), Value: append([]byte(nil), kd.GetValue()...), Mat: uint64(kd.GetKeyMaterialType()),
		Status: status, ID: id, Prefix: uint64(bk.key.GetOutputPrefixType())}
}

// validKeyset builds a well-formed keyset of n bank keys of one class (so
// that a factory accepts it) with distinct ids, one ENABLED primary.
func validKeyset(r *hx.Rng, n, modPct int) (*mKeyset, []string) {
	first := pickBank(r, modPct)
	ks := &mKeyset{}
	var names []string
	seen := map[uint64]bool{}
	for len(ks.Keys) < n {
		bk := first
		if len(ks.Keys) > 0 {
			for tries := 0; tries < 40; tries++ {
				bk = pickBank(r, modPct)
				if bk.class == first.class || r.Chance(8) {
					break
				}
				bk = first
			}
		}
		id := hx.PickS(r, idUniverse)
		if r.Chance(15) {
			id = uint64(uint32(r.U64()))
		}
		if seen[id] {
			continue
		}
		seen[id] = true
		st := hx.PickS(r, []uint64{1, 1, 1, 2, 3})
		ks.Keys = append(ks.Keys, toMKey(bk, id, st))
		names = append(names, bk.name)
	}
	p := r.Intn(n)
	ks.Keys[p].Status = 1
	ks.Primary = ks.Keys[p].ID
	return ks, names
}

func primaryIndex(ks *mKeyset) int {
	for i, k := range ks.Keys {
		if k.ID == ks.Primary {
			return i
		}
	}
	return 0
}

// mutateKeyset applies one of the structural malformations of the property's
// quantifier (or a harmless re-encoding) and returns its label.
func mutateKeyset(r *hx.Rng, ks *mKeyset) string {
	n := len(ks.Keys)
	if n == 0 {
		return "empty"
	}
	i := r.Intn(n)
	p := primaryIndex(ks)
	switch r.Intn(22) {
	case 0:
		ks.Keys = nil
		return "empty"
	case 1:
		ks.Primary = 4242424
		return "no-primary"
	case 2:
		ks.Keys[p].Status = 2
		return "primary-disabled"
	case 3:
		ks.Keys[p].Status = 3
		return "primary-destroyed"
	case 4:
		if n < 2 {
			ks.Keys = append(ks.Keys, ks.Keys[0])
			ks.Keys[1].Status = hx.PickS(r, []uint64{1, 2, 3})
			return "dup-id"
		}
		j := (i + 1) % n
		ks.Keys[j].ID = ks.Keys[i].ID
		return "dup-id"
	case 5:
		c := ks.Keys[p]
		ks.Keys = append(ks.Keys, c)
		return "dup-primary"
	case 6:
		ks.Keys[i].Status = hx.PickS(r, []uint64{0, 4, 7, 1 << 31, 1 << 32, 1<<32 + 1, 1<<64 - 1})
		return "status-edge"
	case 7:
		ks.Keys[i].Prefix = hx.PickS(r, []uint64{0, 5, 6, 99, 1 << 32, 1<<32 + 1, 1<<32 + 3, 1<<64 - 1})
		return "prefix-edge"
	case 8:
		ks.Keys[i].NoData = true
		return "no-keydata"
	case 9:
		ks.Keys[i].Mat = hx.PickS(r, []uint64{0, 1, 2, 3, 4, 5, 1<<32 + 1, 1<<32 + 3})
		return "material"
	case 10:
		ks.Keys[i].Prefix = hx.PickS(r, []uint64{1, 2, 3, 4})
		return "prefix-swap"
	case 11:
		for j := range ks.Keys {
			ks.Keys[j].Status = hx.PickS(r, []uint64{2, 3})
		}
		return "none-enabled"
	case 12:
		ks.Keys[p].ID += 1 << 32 // truncated to the same uint32 by the decoder
		return "id-overlong"
	case 13:
		ks.Keys[i].Split = true
		return "split-keydata"
	case 14:
		ks.PrimaryFirst = true
		return "primary-twice"
	case 15:
		ks.Extra = appVar(nil, 9, r.U64())
		ks.Keys[i].Extra = appBytes(nil, 12, r.Bytes(3))
		ks.Keys[i].DExtra = protowire.AppendTag(protowire.AppendTag(nil, 5, protowire.StartGroupType), 5, protowire.EndGroupType)
		return "unknown-fields"
	case 16:
		if ks.Keys[i].URL == "" {
			ks.Keys[i].URL = "x"
		}
		ks.Keys[i].URL = hx.PickS(r, []string{"", ks.Keys[i].URL + "x", strings.ToLower(ks.Keys[i].URL), "type.googleapis.com/google.crypto.tink.AesEaxKey",
			"type.googleapis.com/google.crypto.tink.KmsAeadKey", ks.Keys[i].URL[:len(ks.Keys[i].URL)-1], "\xff\xfe", "caf\xc3\xa9", "\xed\xa0\x80", "\xf4\x90\x80\x80", "\xc0\xaf", "\xe2\x82"})
		return "url-variant"
	case 17:
		// a second, disabled key carrying the primary's id under another status
		c := ks.Keys[p]
		c.Status = 2
		ks.Keys = append([]mKey{c}, ks.Keys...)
		return "disabled-copy-of-primary"
	case 18:
		ks.Primary = 0
		return "primary-zero"
	case 19:
		ks.Keys[i].ID = ks.Primary
		ks.Keys[i].Status = hx.PickS(r, []uint64{1, 2, 3})
		return "id-equals-primary"
	default:
		return "valid"
	}
}

func odd(r *hx.Rng, bits int) []byte {
	n := new(big.Int).SetBytes(r.Bytes((bits + 7) / 8))
	n.SetBit(n, bits-1, 1)
	for i := bits; i < 8*((bits+7)/8); i++ {
		n.SetBit(n, i, 0)
	}
	n.SetBit(n, 0, 1)
	return n.Bytes()
}

var rsaExponents = [][]byte{{1, 0, 1}, {0, 1, 0, 1}, {3}, {1, 0, 3}, {1, 0, 0}, {0x7f, 0xff, 0xff, 0xff}, {0x80, 0, 0, 1},
	{1, 0, 0, 0, 0, 0, 0, 0, 0, 1, 0, 1}, {1, 0, 0, 0, 0, 0, 1, 0, 1}, {0xff, 0xff, 0xff, 0xff, 0xff, 0xff, 0xff, 0xff}, {}, {1, 0, 1, 0}}

func mustMarshal(m proto.Message) []byte {
	b, err := proto.Marshal(m)
	if err != nil {
		panic(err)
	}
	return b
}

// typedVariant rebuilds the key value of a modelled key type with parameters
// drawn around the acceptance boundaries (the weak keys of the property among them).
func typedVariant(r *hx.Rng, k *mKey) string {
	hashes := []commonpb.HashType{0, 1, 2, 3, 4, 5, 6}
	ver := uint32(0)
	if !calm && r.Chance(8) {
		ver = hx.PickS(r, []uint32{1, 2, 1 << 31})
	}
	switch strings.TrimPrefix(k.URL, tp) {
	case "HmacKey":
		k.Value = mustMarshal(&hmacpb.HmacKey{Version: ver, KeyValue: r.Bytes(hx.PickS(r, []int{0, 15, 16, 17, 32, 64})),
			Params: &hmacpb.HmacParams{Hash: hx.PickS(r, hashes), TagSize: hx.PickS(r, []uint32{0, 9, 10, 16, 20, 21, 28, 29, 32, 33, 48, 49, 64, 65})}})
	case "AesCmacKey":
		k.Value = mustMarshal(&cmacpb.AesCmacKey{Version: ver, KeyValue: r.Bytes(hx.PickS(r, []int{15, 16, 24, 32, 33})),
			Params: &cmacpb.AesCmacParams{TagSize: hx.PickS(r, []uint32{9, 10, 16, 17})}})
	case "AesGcmKey":
		k.Value = mustMarshal(&gcmpb.AesGcmKey{Version: ver, KeyValue: r.Bytes(hx.PickS(r, []int{0, 15, 16, 17, 24, 32, 33}))})
	case "AesGcmSivKey":
		k.Value = mustMarshal(&gcmsivpb.AesGcmSivKey{Version: ver, KeyValue: r.Bytes(hx.PickS(r, []int{15, 16, 24, 32, 33}))})
	case "AesSivKey":
		k.Value = mustMarshal(&sivpb.AesSivKey{Version: ver, KeyValue: r.Bytes(hx.PickS(r, []int{16, 32, 48, 63, 64, 65}))})
	case "AesCtrHmacAeadKey":
		k.Value = mustMarshal(&ctrhmacpb.AesCtrHmacAeadKey{Version: ver,
			AesCtrKey: &ctrpb.AesCtrKey{Version: hx.PickS(r, []uint32{0, 0, 0, 1}), KeyValue: r.Bytes(hx.PickS(r, []int{16, 16, 24, 32, 0})),
				Params: &ctrpb.AesCtrParams{IvSize: hx.PickS(r, []uint32{11, 12, 12, 16, 16, 17})}},
			HmacKey: &hmacpb.HmacKey{Version: hx.PickS(r, []uint32{0, 0, 0, 1}), KeyValue: r.Bytes(hx.PickS(r, []int{15, 16, 32, 32})),
				Params: &hmacpb.HmacParams{Hash: hx.PickS(r, hashes), TagSize: hx.PickS(r, []uint32{9, 10, 16, 20, 21, 32, 33, 64, 65})}}})
	case "HkdfPrfKey":
		k.Value = mustMarshal(&hkdfprfpb.HkdfPrfKey{Version: ver, KeyValue: r.Bytes(hx.PickS(r, []int{15, 16, 31, 32, 33, 64})),
			Params: &hkdfprfpb.HkdfPrfParams{Hash: hx.PickS(r, hashes), Salt: r.Bytes(r.Intn(5))}})
	case "HmacPrfKey":
		k.Value = mustMarshal(&hmacprfpb.HmacPrfKey{Version: ver, KeyValue: r.Bytes(hx.PickS(r, []int{15, 16, 17, 32})),
			Params: &hmacprfpb.HmacPrfParams{Hash: hx.PickS(r, hashes)}})
	case "AesCmacPrfKey":
		k.Value = mustMarshal(&cmacprfpb.AesCmacPrfKey{Version: ver, KeyValue: r.Bytes(hx.PickS(r, []int{15, 16, 24, 32, 33}))})
	case "ChaCha20Poly1305Key":
		k.Value = mustMarshal(&chachapb.ChaCha20Poly1305Key{Version: ver, KeyValue: r.Bytes(hx.PickS(r, []int{0, 16, 31, 32, 32, 33}))})
	case "XChaCha20Poly1305Key":
		k.Value = mustMarshal(&xchachapb.XChaCha20Poly1305Key{Version: ver, KeyValue: r.Bytes(hx.PickS(r, []int{0, 16, 31, 32, 32, 33}))})
	case "XAesGcmKey":
		k.Value = mustMarshal(&xaesgcmpb.XAesGcmKey{Version: ver, KeyValue: r.Bytes(hx.PickS(r, []int{16, 31, 32, 32, 33})),
			Params: &xaesgcmpb.XAesGcmParams{SaltSize: hx.PickS(r, []uint32{0, 7, 8, 10, 12, 13})}})
	case "RsaSsaPkcs1PublicKey":
		k.Value = mustMarshal(&pk1pb.RsaSsaPkcs1PublicKey{Version: ver, N: odd(r, hx.PickS(r, []int{1024, 2047, 2048, 2049, 3072})),
			E: hx.PickS(r, rsaExponents), Params: &pk1pb.RsaSsaPkcs1Params{HashType: hx.PickS(r, hashes)}})
		if r.Chance(20) {
			v := &pk1pb.RsaSsaPkcs1PublicKey{}
			proto.Unmarshal(k.Value, v)
			v.N = append([]byte{0, 0}, v.N...)
			k.Value = mustMarshal(v)
		}
	case "RsaSsaPssPublicKey":
		h := hx.PickS(r, hashes)
		m := h
		if r.Chance(25) {
			m = hx.PickS(r, hashes)
		}
		k.Value = mustMarshal(&psspb.RsaSsaPssPublicKey{Version: ver, N: odd(r, hx.PickS(r, []int{1024, 2047, 2048, 3072})),
			E: hx.PickS(r, rsaExponents), Params: &psspb.RsaSsaPssParams{SigHash: h, Mgf1Hash: m, SaltLength: hx.PickS(r, []int32{0, 1, 20, 32, 64, -1, 1 << 30})}})
	case "EcdsaPublicKey":
		v := &ecdsapb.EcdsaPublicKey{}
		if proto.Unmarshal(k.Value, v) != nil {
			return "typed-skip"
		}
		ecdsaTweak(r, v)
		v.Version = ver
		k.Value = mustMarshal(v)
	case "EcdsaPrivateKey":
		v := &ecdsapb.EcdsaPrivateKey{}
		if proto.Unmarshal(k.Value, v) != nil {
			return "typed-skip"
		}
		switch r.Intn(6) {
		case 0:
			ecdsaTweak(r, v.PublicKey)
		case 1:
			v.KeyValue = append([]byte{0, 0, 0}, v.KeyValue...)
		case 2:
			v.KeyValue[len(v.KeyValue)-1] ^= 1 // another scalar: public part no longer matches
		case 3:
			v.KeyValue = make([]byte, len(v.KeyValue)) // zero scalar
		case 4:
			for i := range v.KeyValue {
				v.KeyValue[i] = 0xff // above the group order
			}
		default:
			v.PublicKey = nil
		}
		v.Version = ver
		k.Value = mustMarshal(v)
	default:
		if l, ok := typedVariant2(r, k, ver); ok {
			return l
		}
		return "typed-skip"
	}
	return "typed"
}

func ecdsaTweak(r *hx.Rng, v *ecdsapb.EcdsaPublicKey) {
	if v == nil {
		return
	}
	if v.Params == nil {
		v.Params = &ecdsapb.EcdsaParams{}
	}
	switch r.Intn(9) {
	case 0:
		v.Params.HashType = hx.PickS(r, []commonpb.HashType{0, 1, 2, 3, 4, 5})
	case 1:
		v.Params.Curve = hx.PickS(r, []commonpb.EllipticCurveType{0, 1, 2, 3, 4, 5})
	case 2:
		v.Params.Encoding = hx.PickS(r, []ecdsapb.EcdsaSignatureEncoding{0, 1, 2, 3})
	case 3:
		v.X = append([]byte{0, 0}, v.X...) // leading zeros are stripped
		v.Y = append([]byte{0}, v.Y...)
	case 4:
		v.X = append([]byte{1}, v.X...) // too long
	case 5:
		if len(v.Y) > 0 {
			v.Y[len(v.Y)-1] ^= 1 // off the curve
		}
	case 6:
		v.X, v.Y = v.Y, v.X
	case 7:
		v.X = nil
		v.Y = nil // (0,0) after padding
	default:
		if len(v.X) > 1 {
			v.X = v.X[1:] // padded back with a zero: another x
		}
	}
}

// jsonKeyset writes the JSON text of a keyset message in a fixed layout
// (protojson's own output is deliberately unstable across builds).
func jsonKeyset(ks *tinkpb.Keyset, r *hx.Rng, mut int) string {
	enumS := func(name string, v int32) string {
		switch mut {
		case 1:
			return fmt.Sprint(v) // enums as numbers are accepted
		}
		return `"` + name + `"`
	}
	var keys []string
	for i, k := range ks.GetKey() {
		kd := k.GetKeyData()
		st := enumS(k.GetStatus().String(), int32(k.GetStatus()))
		pt := enumS(k.GetOutputPrefixType().String(), int32(k.GetOutputPrefixType()))
		mt := enumS(kd.GetKeyMaterialType().String(), int32(kd.GetKeyMaterialType()))
		val := base64.StdEncoding.EncodeToString(kd.GetValue())
		if mut == 2 && i == 0 {
			st = `"BOGUS_STATUS"`
		}
		if mut == 3 && i == 0 {
			pt = "99"
		}
		if mut == 4 && i == 0 {
			val = "@@@" + val
		}
		if mut == 5 && i == 0 {
			val = base64.RawURLEncoding.EncodeToString(kd.GetValue()) // URL alphabet without padding is accepted too
		}
		kdS := fmt.Sprintf(`{"typeUrl":%q,"value":%q,"keyMaterialType":%s}`, kd.GetTypeUrl(), val, mt)
		if mut == 6 && i == 0 {
			kdS = "null"
		}
		id := fmt.Sprint(k.GetKeyId())
		if mut == 7 {
			id = `"` + id + `"` // numbers as strings are accepted
		}
		if mut == 8 && i == 0 {
			id = "4294967296" // out of range for uint32
		}
		if mut == 9 && i == 0 {
			id = "-1"
		}
		keys = append(keys, fmt.Sprintf(`{"keyData":%s,"status":%s,"keyId":%s,"outputPrefixType":%s}`, kdS, st, id, pt))
	}
	prim := fmt.Sprint(ks.GetPrimaryKeyId())
	s := fmt.Sprintf(`{"primaryKeyId":%s,"key":[%s]}`, prim, strings.Join(keys, ","))
	switch mut {
	case 10:
		s = strings.Replace(s, `{"primaryKeyId"`, `{"unknownField":1,"primaryKeyId"`, 1)
	case 11:
		s = strings.Replace(s, `"primaryKeyId"`, `"primary_key_id"`, 1) // proto field names are accepted
	case 12:
		if len(s) > 2 {
			s = s[:r.Intn(len(s))]
		}
	case 13:
		if len(s) > 2 {
			i := r.Intn(len(s))
			s = s[:i] + s[i+1:]
		}
	case 14:
		if len(s) > 2 {
			i := r.Intn(len(s))
			s = s[:i] + string(rune(32+r.Intn(95))) + s[i:]
		}
	case 15:
		s = strings.Replace(s, `"key":[`, `"key":[null,`, 1)
	case 16:
		s = strings.Replace(s, `"primaryKeyId":`+prim, `"primaryKeyId":`+prim+`.0`, 1)
	case 17:
		s = strings.Replace(s, `"primaryKeyId":`+prim, `"primaryKeyId":`+prim+`,"primaryKeyId":`+prim, 1) // duplicate name
	case 18:
		s = " \n" + s + "\n "
	case 19:
		s = s + "x"
	}
	return s
}

var jsonMutNames = []string{"plain", "enum-numbers", "bogus-status", "prefix-99", "bad-base64", "urlsafe-base64", "null-keydata", "id-as-string",
	"id-2^32", "id-negative", "unknown-field", "snake-case", "truncated", "char-deleted", "char-inserted", "null-key", "float-id", "dup-name", "whitespace", "trailing-garbage"}

func c14Gen(r *hx.Rng, n int, tier string) []string {
	var lines []string
	// directed cases first: the boundary of every minimum the property names
	lines = append(lines, directed()...)
	lines = append(lines, directedWire()...)
	lines = append(lines, directed2()...)
	lines = append(lines, directedPrefix5()...)
	lines = append(lines, directedMlDsaPrivate()...)
	lines = append(lines, directedComposite()...)
	// the malformed stream for the table of panic sites (gen6.go); thinned in the quick tier
	step := 4
	if tier == "thorough" {
		step = 1
	}
	sites := append(directedSites(step), directedNil()...)
	// the parameters parsers of every key type and the PRF-based deriver key (params.go, deriver.go)
	pstep := 3
	if tier == "thorough" {
		pstep = 1
	}
	sites = append(sites, directedParams(pstep)...)
	sites = append(sites, directedDeriver(pstep)...)
	sites = append(sites, directedJSONText()...)
	sites = append(sites, directedKeySizes()...)
	sites = append(sites, directedPrefixes()...)
	lines = append(lines, sites...)
	n += len(sites) // the random part keeps its size
	for len(lines) < n {
		if r.Chance(10) {
			lines = append(lines, randomParams(r))
			continue
		}
		if r.Chance(7) {
			lines = append(lines, randomDeriver(r))
			continue
		}
		if r.Chance(9) { // the JSON text layer (gen_json.go)
			if r.Chance(70) {
				lines = append(lines, jsonTextCase(r))
			} else {
				lines = append(lines, jsonEncryptedCase(r))
			}
			continue
		}
		x := r.Intn(100)
		switch {
		case x < 20: // keyset-level structure
			ks, names := validKeyset(r, 1+r.Intn(4), 80)
			label := mutateKeyset(r, ks)
			if r.Chance(15) {
				label += "+" + mutateKeyset(r, ks)
			}
			lines = append(lines, "B|"+hx.H(ks.Marshal())+"|ks-"+label+":"+names[0])
		case x < 50: // typed key variants around the boundaries (x >= 30: of the key types modelled in the second round)
			ks, _ := validKeyset(r, 1+r.Intn(2), 100)
			i := r.Intn(len(ks.Keys))
			if x >= 30 {
				ks.Keys[i] = toMKey(bank[bankMod2[r.Intn(len(bankMod2))]], ks.Keys[i].ID, ks.Keys[i].Status)
			}
			l := typedVariant(r, &ks.Keys[i])
			if r.Chance(20) {
				ks.Keys[i].Prefix = hx.PickS(r, []uint64{1, 2, 3, 4})
			}
			if r.Chance(10) {
				ks.Keys[i].Mat = hx.PickS(r, []uint64{0, 1, 2, 3, 4})
			}
			lines = append(lines, "B|"+hx.H(ks.Marshal())+"|"+l+":"+strings.TrimPrefix(ks.Keys[i].URL, tp))
		case x < 66: // wire-level mutation of one key value
			ks, names := validKeyset(r, 1+r.Intn(2), 75)
			i := r.Intn(len(ks.Keys))
			v, l := mutateValue(r, ks.Keys[i].Value, 2)
			ks.Keys[i].Value = v
			lines = append(lines, "B|"+hx.H(ks.Marshal())+"|val-"+l+":"+names[i])
		case x < 72: // raw fuzz of the whole keyset encoding
			ks, names := validKeyset(r, 1+r.Intn(3), 85)
			b := ks.Marshal()
			var l string
			switch r.Intn(4) {
			case 0:
				b, l = r.Bytes(r.Intn(48)), "random"
			case 1:
				b, l = mutateValue(r, b, 3)
			case 2:
				b[r.Intn(len(b))] ^= byte(1 << r.Intn(8))
				l = "bitflip"
			default:
				b, l = b[:r.Intn(len(b))], "truncated"
			}
			lines = append(lines, "B|"+hx.H(b)+"|fuzz-"+l+":"+names[0])
		case x < 83: // JSON
			ks, names := validKeyset(r, 1+r.Intn(3), 85)
			label := "valid"
			if r.Chance(50) {
				label = mutateKeyset(r, ks)
			}
			if r.Chance(25) && len(ks.Keys) > 0 {
				typedVariant(r, &ks.Keys[r.Intn(len(ks.Keys))])
			}
			msg := &tinkpb.Keyset{}
			if proto.Unmarshal(ks.Marshal(), msg) != nil {
				continue
			}
			m := r.Intn(len(jsonMutNames))
			if r.Chance(30) {
				m = 0
			}
			text := jsonKeyset(msg, r, m)
			bin := "X"
			back := &tinkpb.Keyset{}
			if (protojson.UnmarshalOptions{}).Unmarshal([]byte(text), back) == nil {
				bin = hx.H(mustMarshal(back))
			}
			nm := "none"
			if len(names) > 0 {
				nm = names[0]
			}
			lines = append(lines, "J|"+hx.H([]byte(text))+"|"+bin+"|json-"+jsonMutNames[m]+"-"+label+":"+nm)
		case x < 89: // proto-message API with nil parts
			ks, names := validKeyset(r, 1+r.Intn(3), 85)
			label := "valid"
			if r.Chance(30) {
				label = mutateKeyset(r, ks)
			}
			inj := hx.PickS(r, []string{"-", "ks", "k0", "d0", "k1", "d1", "k0,d1", "-"})
			nm := "none"
			if len(names) > 0 {
				nm = names[0]
			}
			lines = append(lines, "M|"+hx.H(ks.Marshal())+"|"+inj+"|msg-"+inj+"-"+label+":"+nm)
		default: // encrypted keysets
			ks, names := validKeyset(r, 1+r.Intn(3), 85)
			label := "valid"
			if r.Chance(35) {
				label = mutateKeyset(r, ks)
			}
			kek := r.Bytes(hx.PickS(r, []int{16, 32}))
			ad := r.Bytes(hx.PickS(r, []int{0, 0, 5, 16}))
			ct := stdlibSeal(kek, r.Bytes(12), ks.Marshal(), ad)
			var info []byte
			for _, k := range ks.Keys {
				var ki []byte
				ki = appBytes(ki, 1, []byte(k.URL))
				ki = appVar(ki, 2, k.Status)
				ki = appVar(ki, 3, k.ID)
				ki = appVar(ki, 4, k.Prefix)
				info = appBytes(info, 2, ki)
			}
			info = appVar(info, 1, ks.Primary)
			lineKek, lineAd := kek, ad
			em := "ok"
			switch r.Intn(12) {
			case 0:
				lineKek = append([]byte(nil), kek...)
				lineKek[r.Intn(len(kek))] ^= 1
				em = "wrong-kek"
			case 1:
				lineAd = append(append([]byte(nil), ad...), 1)
				em = "wrong-ad"
			case 2:
				ct[r.Intn(len(ct))] ^= byte(1 << r.Intn(8))
				em = "ct-bitflip"
			case 3:
				ct = ct[:r.Intn(min(len(ct), 30))]
				em = "ct-truncated"
			case 4:
				info = appBytes(nil, 2, appBytes(nil, 1, []byte{0xff, 0xfe})) // invalid UTF-8 in KeyInfo.type_url
				em = "info-bad-utf8"
			case 5:
				info = []byte{0x0a} // truncated keyset_info
				em = "info-truncated"
			case 6:
				info = nil
				em = "no-info"
			case 7:
				if len(ad) > 0 {
					lineAd = nil
					em = "wrong-ad"
				}
			}
			var enc []byte
			enc = appBytes(enc, 2, ct)
			if info != nil {
				enc = appBytes(enc, 3, info)
			}
			if em == "info-truncated" {
				enc = appBytes(appBytes(nil, 2, ct), 3, nil)
				enc = append(enc[:len(enc)-1], 5, 1) // keyset_info length 5, one byte present
			}
			lines = append(lines, "E|"+hx.H(lineKek)+"|"+hx.H(lineAd)+"|"+hx.H(enc)+"|enc-"+em+"-"+label+":"+names[0])
		}
	}
	return lines
}

// directed: one keyset per bank key (valid), and the weak keys of the
// property list exactly at and just below each minimum.
func directed() []string {
	var lines []string
	for _, bk := range bank {
		ks := &mKeyset{Primary: 77, Keys: []mKey{toMKey(bk, 77, 1)}}
		lines = append(lines, "B|"+hx.H(ks.Marshal())+"|bank:"+bk.name)
	}
	one := func(url string, mat uint64, prefix uint64, v proto.Message, label string) {
		ks := &mKeyset{Primary: 9, Keys: []mKey{{URL: tp + url, Value: mustMarshal(v), Mat: mat, Status: 1, ID: 9, Prefix: prefix}}}
		lines = append(lines, "B|"+hx.H(ks.Marshal())+"|directed-"+label+":"+url)
	}
	kb := func(n int) []byte { return bytesOf(n) }
	for _, kl := range []int{15, 16} {
		for _, tag := range []uint32{9, 10, 32, 33} {
			one("HmacKey", 1, 1, &hmacpb.HmacKey{KeyValue: kb(kl), Params: &hmacpb.HmacParams{Hash: commonpb.HashType_SHA256, TagSize: tag}}, fmt.Sprintf("hmac-%d-%d", kl, tag))
		}
	}
	for _, kl := range []int{16, 24, 32} {
		one("AesGcmKey", 1, 1, &gcmpb.AesGcmKey{KeyValue: kb(kl)}, fmt.Sprintf("aesgcm-%d", kl))
		one("AesGcmSivKey", 1, 3, &gcmsivpb.AesGcmSivKey{KeyValue: kb(kl)}, fmt.Sprintf("aesgcmsiv-%d", kl))
		one("AesCmacKey", 1, 1, &cmacpb.AesCmacKey{KeyValue: kb(kl), Params: &cmacpb.AesCmacParams{TagSize: 16}}, fmt.Sprintf("aescmac-%d", kl))
		one("AesCmacPrfKey", 1, 3, &cmacprfpb.AesCmacPrfKey{KeyValue: kb(kl)}, fmt.Sprintf("aescmacprf-%d", kl))
		one("AesCtrHmacAeadKey", 1, 1, &ctrhmacpb.AesCtrHmacAeadKey{AesCtrKey: &ctrpb.AesCtrKey{KeyValue: kb(kl), Params: &ctrpb.AesCtrParams{IvSize: 16}},
			HmacKey: &hmacpb.HmacKey{KeyValue: kb(32), Params: &hmacpb.HmacParams{Hash: commonpb.HashType_SHA256, TagSize: 16}}}, fmt.Sprintf("aesctrhmac-%d", kl))
	}
	for _, kl := range []int{32, 48, 64} {
		one("AesSivKey", 1, 1, &sivpb.AesSivKey{KeyValue: kb(kl)}, fmt.Sprintf("aessiv-%d", kl))
	}
	for _, kl := range []int{15, 16, 31, 32} {
		for _, h := range []commonpb.HashType{commonpb.HashType_SHA1, commonpb.HashType_SHA256, commonpb.HashType_SHA384, commonpb.HashType_SHA512} {
			one("HkdfPrfKey", 1, 3, &hkdfprfpb.HkdfPrfKey{KeyValue: kb(kl), Params: &hkdfprfpb.HkdfPrfParams{Hash: h}}, fmt.Sprintf("hkdfprf-%d-%v", kl, h))
		}
		one("HmacPrfKey", 1, 3, &hmacprfpb.HmacPrfKey{KeyValue: kb(kl), Params: &hmacprfpb.HmacPrfParams{Hash: commonpb.HashType_SHA256}}, fmt.Sprintf("hmacprf-%d", kl))
	}
	rr := hx.NewRng(14)
	for _, bits := range []int{1024, 2047, 2048} {
		n := odd(rr, bits)
		for i, e := range rsaExponents {
			one("RsaSsaPkcs1PublicKey", 3, 1, &pk1pb.RsaSsaPkcs1PublicKey{N: n, E: e, Params: &pk1pb.RsaSsaPkcs1Params{HashType: commonpb.HashType_SHA256}}, fmt.Sprintf("rsapkcs1-%d-e%d", bits, i))
			one("RsaSsaPssPublicKey", 3, 3, &psspb.RsaSsaPssPublicKey{N: n, E: e, Params: &psspb.RsaSsaPssParams{SigHash: commonpb.HashType_SHA256, Mgf1Hash: commonpb.HashType_SHA256, SaltLength: 32}}, fmt.Sprintf("rsapss-%d-e%d", bits, i))
		}
	}
	for _, bk := range bank {
		if bk.key.GetKeyData().GetTypeUrl() != tp+"EcdsaPublicKey" {
			continue
		}
		for _, h := range []commonpb.HashType{commonpb.HashType_SHA1, commonpb.HashType_SHA256, commonpb.HashType_SHA384, commonpb.HashType_SHA512} {
			v := &ecdsapb.EcdsaPublicKey{}
			proto.Unmarshal(bk.key.GetKeyData().GetValue(), v)
			v.Params.HashType = h
			one("EcdsaPublicKey", 3, uint64(bk.key.GetOutputPrefixType()), v, fmt.Sprintf("ecdsa-%v-%v", v.Params.Curve, h))
		}
	}
	return lines
}

// directedWire: corner cases of the wire format around a valid one-key keyset.
func directedWire() []string {
	var lines []string
	base := func(id uint64) *mKeyset {
		return &mKeyset{Primary: id, Keys: []mKey{toMKey(bank[0], id, 1)}}
	}
	add := func(b []byte, label string) { lines = append(lines, "B|"+hx.H(b)+"|wire-"+label+":"+bank[0].name) }
	grp := func(num protowire.Number, inner []byte) []byte {
		out := protowire.AppendTag(nil, num, protowire.StartGroupType)
		out = append(out, inner...)
		return protowire.AppendTag(out, num, protowire.EndGroupType)
	}
	rawTag := func(num uint64, typ uint64) []byte { return protowire.AppendVarint(nil, num<<3|typ) }
	b := base(7).Marshal()
	cat := func(x ...[]byte) []byte {
		var o []byte
		for _, p := range x {
			o = append(o, p...)
		}
		return o
	}
	add(cat(b, grp(9, cat(rawTag(1<<29, 0), []byte{0}))), "group-field-2^29")
	add(cat(b, grp(9, cat(rawTag(1<<31-1, 0), []byte{0}))), "group-field-maxint32")
	add(cat(b, grp(9, cat(rawTag(1<<31, 0), []byte{0}))), "group-field-2^31")
	add(cat(b, grp(9, grp(8, grp(7, appVar(nil, 1, 5))))), "nested-groups")
	add(cat(b, grp(9, cat(protowire.AppendTag(nil, 8, protowire.StartGroupType), protowire.AppendTag(nil, 7, protowire.EndGroupType)))), "nested-wrong-end")
	add(cat(b, grp(9, []byte{byte(3<<3 | 2), 200})), "group-length-overrun")
	add(cat(b, grp(9, []byte{byte(3<<3 | 6)})), "group-reserved-wiretype")
	add(cat(b, rawTag(1<<29-1, 0), []byte{1}), "field-2^29-1")
	add(cat(b, rawTag(1<<29, 0), []byte{1}), "field-2^29")
	add(cat(b, []byte{0x88, 0x00, 7}), "overlong-tag") // tag 8 (field 1 varint) in two bytes: primary = 7 again
	add(cat(b, []byte{0x88, 0x80, 0x80, 0x80, 0x80, 0x80, 0x80, 0x80, 0x80, 0x00, 7}), "overlong-tag-10")
	add(cat(b, []byte{0x88, 0x80, 0x80, 0x80, 0x80, 0x80, 0x80, 0x80, 0x80, 0x80, 0x00, 7}), "overlong-tag-11")
	add(cat(b, []byte{0x08, 0x87, 0x80, 0x80, 0x80, 0x80, 0x80, 0x80, 0x80, 0x80, 0x01}), "primary-2^63+7") // truncated to 7
	add(cat(b, []byte{0x08, 0x87, 0x80, 0x80, 0x80, 0x80, 0x80, 0x80, 0x80, 0x80, 0x02}), "varint-10th-byte-2")
	add(cat(b, []byte{0x0d, 7, 0, 0, 0}), "primary-as-fixed32")       // unknown field: primary stays 7
	add(cat([]byte{0x0d, 7, 0, 0, 0}, b[2:]), "primary-only-fixed32") // no primary at all
	add(cat(b, []byte{0x09, 7, 0, 0, 0, 0, 0, 0}), "truncated-fixed64")
	add(cat(b, []byte{0x12, 0x80, 0x00}), "empty-key-overlong-length") // a second, empty key (no key data)
	add(cat(b, []byte{0x12, 0x00}), "empty-key")
	zero := base(0)
	add(zero.Marshal(), "id-zero-primary-absent") // key id 0 = default primary 0: well formed
	add([]byte{}, "empty-input")
	add([]byte{0x08, 0x07}, "primary-only")
	k := base(7)
	k.Keys[0].DExtra = appBytes(nil, 1, []byte("x")) // type_url twice: last wins -> unknown type "x"
	add(k.Marshal(), "type-url-twice")
	k = base(7)
	k.Keys[0].Extra = appBytes(nil, 1, appVar(nil, 3, 3)) // second key_data piece overrides the material type
	add(k.Marshal(), "key-data-merged-material")
	return lines
}

func bytesOf(n int) []byte {
	b := make([]byte, n)
	for i := range b {
		b[i] = byte(0x40 + i)
	}
	return b
}
