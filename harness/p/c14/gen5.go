package c14

import (
	"fmt"
	"strings"

	"github.com/tink-crypto/tink-go/v2/verifharness/hx"

	ctrhmacstreampb "github.com/tink-crypto/tink-go/v2/proto/aes_ctr_hmac_streaming_go_proto"
	gcmhkdfpb "github.com/tink-crypto/tink-go/v2/proto/aes_gcm_hkdf_streaming_go_proto"
	commonpb "github.com/tink-crypto/tink-go/v2/proto/common_go_proto"
	ed25519pb "github.com/tink-crypto/tink-go/v2/proto/ed25519_go_proto"
	hmacpb "github.com/tink-crypto/tink-go/v2/proto/hmac_go_proto"
	jwthmacpb "github.com/tink-crypto/tink-go/v2/proto/jwt_hmac_go_proto"
	jwtmldsapb "github.com/tink-crypto/tink-go/v2/proto/jwt_ml_dsa_go_proto"
	jwtpk1pb "github.com/tink-crypto/tink-go/v2/proto/jwt_rsa_ssa_pkcs1_go_proto"
	jwtpsspb "github.com/tink-crypto/tink-go/v2/proto/jwt_rsa_ssa_pss_go_proto"
	mldsapb "github.com/tink-crypto/tink-go/v2/proto/ml_dsa_go_proto"
)

// directed2: for every key type modelled in the second round, each tweak of
// its typed variants once around an otherwise valid key (deterministic: the
// same cases for every seed), every prefix type and material type on a valid
// key, and explicit grids where the parser compares sizes.
func directed2() []string {
	var lines []string
	calm = true
	defer func() { calm, forced = false, nil }()
	one := func(k mKey, label string) {
		ks := &mKeyset{Primary: k.ID, Keys: []mKey{k}}
		lines = append(lines, "B|"+hx.H(ks.Marshal())+"|d2-"+label+":"+strings.TrimPrefix(k.URL, tp))
	}
	tweaked := func(bk bankKey, seed uint64, q []int, label string) {
		k := toMKey(bk, 9, 1)
		forced = append([]int(nil), q...)
		typedVariant(hx.NewRng(seed), &k)
		forced = nil
		one(k, label)
	}
	// queues of forced tweak choices per type: first the primary tweak alone, then the secondary ones
	queues := map[string][][]int{}
	add := func(names []string, qs ...[]int) {
		for _, n := range names {
			queues[n] = append(queues[n], qs...)
		}
	}
	seq := func(prefix []int, n int, suffix ...int) [][]int {
		var out [][]int
		for j := 0; j < n; j++ {
			out = append(out, append(append(append([]int(nil), prefix...), j), suffix...))
		}
		return out
	}
	add([]string{"Ed25519PrivateKey"}, seq(nil, 8)...)
	rsa := []string{"RsaSsaPkcs1PrivateKey", "RsaSsaPssPrivateKey", "JwtRsaSsaPkcs1PrivateKey", "JwtRsaSsaPssPrivateKey"}
	add(rsa, seq(nil, 17, 11)...)
	add(rsa, seq([]int{16}, 7)...)
	add([]string{"EciesAeadHkdfPublicKey"}, seq(nil, 18, 15)...)
	add([]string{"EciesAeadHkdfPublicKey"}, seq([]int{0}, 9)...)
	add([]string{"EciesAeadHkdfPublicKey"}, seq([]int{9}, 9)...)
	add([]string{"EciesAeadHkdfPrivateKey"}, seq([]int{0}, 10)...)
	add([]string{"EciesAeadHkdfPrivateKey"}, seq([]int{0, 0}, 9)...)
	add([]string{"EciesAeadHkdfPrivateKey"}, seq(nil, 18, 13)...)
	add([]string{"HpkePublicKey"}, seq(nil, 8)...)
	add([]string{"HpkePrivateKey"}, seq(nil, 10)...)
	add([]string{"HpkePrivateKey"}, seq([]int{0}, 8)...)
	add([]string{"JwtEcdsaPublicKey"}, seq(nil, 8)...)
	add([]string{"JwtEcdsaPrivateKey"}, seq(nil, 9)...)
	add([]string{"JwtEcdsaPrivateKey"}, seq([]int{0}, 8)...)
	add([]string{"SlhDsaPublicKey"}, seq(nil, 8)...)
	add([]string{"SlhDsaPrivateKey"}, seq(nil, 10)...)
	add([]string{"SlhDsaPrivateKey"}, seq([]int{0}, 8)...)
	seen := map[string]int{}
	for _, bi := range bankMod2 {
		bk := bank[bi]
		name := strings.TrimPrefix(bk.key.GetKeyData().GetTypeUrl(), tp)
		seen[name]++
		// the curve / KEM of the rebuilt ECIES, HPKE, JWT-ECDSA and SLH-DSA keys comes from the rng: several seeds
		seeds := 1
		switch name {
		case "EciesAeadHkdfPublicKey", "EciesAeadHkdfPrivateKey", "JwtEcdsaPublicKey", "JwtEcdsaPrivateKey", "SlhDsaPublicKey", "SlhDsaPrivateKey":
			seeds = 2
		case "HpkePublicKey", "HpkePrivateKey":
			seeds = 4
		}
		if seen[name] > 2 {
			continue
		}
		for s := 0; s < seeds; s++ {
			for qi, q := range queues[name] {
				tweaked(bk, uint64(7000+100*seen[name]+s), q, fmt.Sprintf("tweak%v-%d-%d", q, qi, s))
			}
		}
		// every prefix type and every material type on the bank key as it is
		for _, p := range []uint64{1, 2, 3, 4} {
			k := toMKey(bk, 9, 1)
			k.Prefix = p
			one(k, fmt.Sprintf("prefix%d", p))
		}
		for _, m := range []uint64{0, 1, 2, 3, 4} {
			k := toMKey(bk, 9, 1)
			k.Mat = m
			one(k, fmt.Sprintf("mat%d", m))
		}
	}
	// grids
	key := func(url string, mat, prefix uint64, value []byte) mKey {
		return mKey{URL: tp + url, Value: value, Mat: mat, Status: 1, ID: 9, Prefix: prefix}
	}
	for _, n := range []int{0, 31, 32, 33, 64} {
		for _, ver := range []uint32{0, 1} {
			one(key("Ed25519PublicKey", 3, 1, mustMarshal(&ed25519pb.Ed25519PublicKey{Version: ver, KeyValue: bytesOf(n)})), fmt.Sprintf("ed25519pub-%d-v%d", n, ver))
		}
	}
	for _, derived := range []uint32{0, 15, 16, 24, 32, 33} {
		for _, ikm := range []int{15, 16, 17, 31, 32, 33, 64} {
			one(key("AesGcmHkdfStreamingKey", 1, 3, mustMarshal(&gcmhkdfpb.AesGcmHkdfStreamingKey{KeyValue: bytesOf(ikm),
				Params: &gcmhkdfpb.AesGcmHkdfStreamingParams{CiphertextSegmentSize: 4096, DerivedKeySize: derived, HkdfHashType: commonpb.HashType_SHA256}})), fmt.Sprintf("gcmhkdf-%d-%d", derived, ikm))
			one(key("AesCtrHmacStreamingKey", 1, 3, mustMarshal(&ctrhmacstreampb.AesCtrHmacStreamingKey{KeyValue: bytesOf(ikm),
				Params: &ctrhmacstreampb.AesCtrHmacStreamingParams{CiphertextSegmentSize: 4096, DerivedKeySize: derived, HkdfHashType: commonpb.HashType_SHA256,
					HmacParams: &hmacpb.HmacParams{Hash: commonpb.HashType_SHA256, TagSize: 32}}})), fmt.Sprintf("ctrhmac-%d-%d", derived, ikm))
		}
	}
	for _, derived := range []uint32{16, 32} {
		for _, seg := range []uint32{0, derived + 23, derived + 24, derived + 25, 1<<31 - 1, 1 << 31, 1<<32 - 1} {
			one(key("AesGcmHkdfStreamingKey", 1, 3, mustMarshal(&gcmhkdfpb.AesGcmHkdfStreamingKey{KeyValue: bytesOf(32),
				Params: &gcmhkdfpb.AesGcmHkdfStreamingParams{CiphertextSegmentSize: seg, DerivedKeySize: derived, HkdfHashType: commonpb.HashType_SHA256}})), fmt.Sprintf("gcmhkdf-seg-%d-%d", derived, seg))
		}
		for _, h := range []commonpb.HashType{0, 1, 2, 3, 4, 5, 6} {
			one(key("AesGcmHkdfStreamingKey", 1, 3, mustMarshal(&gcmhkdfpb.AesGcmHkdfStreamingKey{KeyValue: bytesOf(32),
				Params: &gcmhkdfpb.AesGcmHkdfStreamingParams{CiphertextSegmentSize: 4096, DerivedKeySize: derived, HkdfHashType: h}})), fmt.Sprintf("gcmhkdf-hash-%d-%d", derived, h))
			for _, tag := range []uint32{9, 10, 20, 21, 32, 33, 64, 65} {
				one(key("AesCtrHmacStreamingKey", 1, 3, mustMarshal(&ctrhmacstreampb.AesCtrHmacStreamingKey{KeyValue: bytesOf(32),
					Params: &ctrhmacstreampb.AesCtrHmacStreamingParams{CiphertextSegmentSize: 4096, DerivedKeySize: derived, HkdfHashType: commonpb.HashType_SHA256,
						HmacParams: &hmacpb.HmacParams{Hash: h, TagSize: tag}}})), fmt.Sprintf("ctrhmac-tag-%d-%d-%d", derived, h, tag))
			}
			one(key("AesCtrHmacStreamingKey", 1, 3, mustMarshal(&ctrhmacstreampb.AesCtrHmacStreamingKey{KeyValue: bytesOf(32),
				Params: &ctrhmacstreampb.AesCtrHmacStreamingParams{CiphertextSegmentSize: 4096, DerivedKeySize: derived, HkdfHashType: h,
					HmacParams: &hmacpb.HmacParams{Hash: commonpb.HashType_SHA256, TagSize: 16}}})), fmt.Sprintf("ctrhmac-hkdfhash-%d-%d", derived, h))
		}
		for _, tag := range []uint32{10, 32} {
			for _, seg := range []uint32{0, derived + 7 + tag, derived + 8 + tag, derived + 9 + tag, 1<<31 - 1, 1 << 31} {
				one(key("AesCtrHmacStreamingKey", 1, 3, mustMarshal(&ctrhmacstreampb.AesCtrHmacStreamingKey{KeyValue: bytesOf(32),
					Params: &ctrhmacstreampb.AesCtrHmacStreamingParams{CiphertextSegmentSize: seg, DerivedKeySize: derived, HkdfHashType: commonpb.HashType_SHA256,
						HmacParams: &hmacpb.HmacParams{Hash: commonpb.HashType_SHA256, TagSize: tag}}})), fmt.Sprintf("ctrhmac-seg-%d-%d-%d", derived, tag, seg))
			}
		}
	}
	for _, alg := range []jwthmacpb.JwtHmacAlgorithm{0, 1, 2, 3, 4} {
		for _, kl := range []int{15, 16, 31, 32, 47, 48, 63, 64} {
			for _, prefix := range []uint64{1, 3} {
				one(key("JwtHmacKey", 1, prefix, mustMarshal(&jwthmacpb.JwtHmacKey{Algorithm: alg, KeyValue: bytesOf(kl)})), fmt.Sprintf("jwthmac-%d-%d", alg, kl))
			}
		}
	}
	for _, prefix := range []uint64{1, 2, 3, 4} {
		for c := 0; c < 4; c++ {
			v := &jwthmacpb.JwtHmacKey{Algorithm: 1, KeyValue: bytesOf(32)}
			switch c {
			case 1:
				v.CustomKid = &jwthmacpb.JwtHmacKey_CustomKid{}
			case 2:
				v.CustomKid = &jwthmacpb.JwtHmacKey_CustomKid{Value: "my-kid"}
			}
			one(key("JwtHmacKey", 1, prefix, append(mustMarshal(v), kidWire(4, c)...)), fmt.Sprintf("jwthmac-kid%d-prefix%d", c, prefix))
		}
	}
	rr := hx.NewRng(1414)
	for _, bits := range []int{1024, 2047, 2048} {
		n := odd(rr, bits)
		for i, e := range rsaExponents {
			one(key("JwtRsaSsaPkcs1PublicKey", 3, 1, mustMarshal(&jwtpk1pb.JwtRsaSsaPkcs1PublicKey{Algorithm: 1, N: n, E: e})), fmt.Sprintf("jwtrs-%d-e%d", bits, i))
			one(key("JwtRsaSsaPssPublicKey", 3, 3, mustMarshal(&jwtpsspb.JwtRsaSsaPssPublicKey{Algorithm: 2, N: n, E: e})), fmt.Sprintf("jwtps-%d-e%d", bits, i))
		}
	}
	for alg := 0; alg < 5; alg++ {
		n := odd(rr, 2048)
		one(key("JwtRsaSsaPkcs1PublicKey", 3, 1, mustMarshal(&jwtpk1pb.JwtRsaSsaPkcs1PublicKey{Algorithm: jwtpk1pb.JwtRsaSsaPkcs1Algorithm(alg), N: n, E: []byte{1, 0, 1}})), fmt.Sprintf("jwtrs-alg%d", alg))
		one(key("JwtRsaSsaPssPublicKey", 3, 1, mustMarshal(&jwtpsspb.JwtRsaSsaPssPublicKey{Algorithm: jwtpsspb.JwtRsaSsaPssAlgorithm(alg), N: n, E: []byte{1, 0, 1}})), fmt.Sprintf("jwtps-alg%d", alg))
	}
	for inst := 0; inst < 5; inst++ {
		for _, size := range []int{0, 1311, 1312, 1313, 1951, 1952, 1953, 2591, 2592, 2593} {
			one(key("MlDsaPublicKey", 3, 1, mustMarshal(&mldsapb.MlDsaPublicKey{KeyValue: bytesOf(size), Params: &mldsapb.MlDsaParams{MlDsaInstance: mldsapb.MlDsaInstance(inst)}})), fmt.Sprintf("mldsa-%d-%d", inst, size))
			one(key("JwtMlDsaPublicKey", 3, 1, mustMarshal(&jwtmldsapb.JwtMlDsaPublicKey{Algorithm: jwtmldsapb.JwtMlDsaAlgorithm(inst), KeyValue: bytesOf(size)})), fmt.Sprintf("jwtmldsa-%d-%d", inst, size))
		}
	}
	return lines
}
