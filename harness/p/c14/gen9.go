package c14

import (
	"bytes"
	"fmt"
	"strings"

	"github.com/tink-crypto/tink-go/v2/verifharness/hx"
	"google.golang.org/protobuf/proto"

	comppb "github.com/tink-crypto/tink-go/v2/proto/composite_ml_dsa_go_proto"
	ecdsapb "github.com/tink-crypto/tink-go/v2/proto/ecdsa_go_proto"
	mldsapb "github.com/tink-crypto/tink-go/v2/proto/ml_dsa_go_proto"
	tinkpb "github.com/tink-crypto/tink-go/v2/proto/tink_go_proto"
)

// directedComposite: the parsers of CompositeMlDsaPublicKey / PrivateKey
// (transcribed in the fourth round).  Composite keys are ASSEMBLED from the key
// data of other bank keys, so that every classical algorithm (Ed25519, ECDSA
// P-256/384/521, RSA-PSS and RSA-PKCS1 3072/4096 as far as the bank has them)
// meets every ML-DSA instance and every algorithm number, plus the nested
// failure modes: nested version, nested key of the wrong kind (other
// classical type, symmetric key, ML-DSA key in the classical slot and the
// reverse, a composite key nested in a composite key, public data in a private
// key), mismatching public parts, unsupported combination, nested instance
// other than the composite's, wrong nested material label, nil / empty /
// garbage / oversized nested key data, outer version and prefix.
func directedComposite() []string {
	var lines []string
	byName := map[string]bankKey{}
	for _, b := range bank {
		byName[b.name] = b
	}
	kdOf := func(name string) *tinkpb.KeyData {
		b, ok := byName[name]
		if !ok {
			panic("c14 bank has no key " + name)
		}
		return proto.Clone(b.key.GetKeyData()).(*tinkpb.KeyData)
	}
	mm := func(m proto.Message) []byte {
		b, err := proto.Marshal(m)
		if err != nil {
			panic(err)
		}
		return b
	}
	emit := func(private bool, value []byte, mat, prefix uint64, label string) {
		url := tp + "CompositeMlDsaPublicKey"
		if private {
			url = tp + "CompositeMlDsaPrivateKey"
		}
		id := uint64(9)
		k := mKey{URL: url, Value: value, Mat: mat, Status: 1, ID: id, Prefix: prefix}
		ks := &mKeyset{Primary: id, Keys: []mKey{k}}
		lines = append(lines, "B|"+hx.H(ks.Marshal())+"|composite-"+label+":"+strings.TrimPrefix(url, tp))
	}
	pub := func(ml, cl *tinkpb.KeyData, inst mldsapb.MlDsaInstance, alg comppb.CompositeMlDsaClassicalAlgorithm, version uint32) []byte {
		return mm(&comppb.CompositeMlDsaPublicKey{Version: version, MlDsaPublicKey: ml, ClassicalPublicKey: cl,
			Params: &comppb.CompositeMlDsaParams{MlDsaInstance: inst, ClassicalAlgorithm: alg}})
	}
	priv := func(ml, cl *tinkpb.KeyData, inst mldsapb.MlDsaInstance, alg comppb.CompositeMlDsaClassicalAlgorithm, version uint32) []byte {
		return mm(&comppb.CompositeMlDsaPrivateKey{Version: version, MlDsaPrivateKey: ml, ClassicalPrivateKey: cl,
			Params: &comppb.CompositeMlDsaParams{MlDsaInstance: inst, ClassicalAlgorithm: alg}})
	}
	// the classical halves the bank offers (name of the private key; "/pub" is its public key)
	classical := []string{"ED25519Raw", "ED25519", "ECDSAP256Raw", "ECDSAP256", "ECDSAP384SHA384", "ECDSAP384SHA512", "ECDSAP521",
		"RSAPSS_3072Raw", "RSAPSS_2048", "RSAPKCS1_3072Raw", "RSAPKCS1_2048", "RSAPKCS1_2048_UNBALANCED"}
	const ml65 = mldsapb.MlDsaInstance_ML_DSA_65
	// 1. every classical half x every algorithm number (0..9), public and private, instance 65
	for _, cn := range classical {
		for alg := comppb.CompositeMlDsaClassicalAlgorithm(0); alg <= 9; alg++ {
			emit(false, pub(kdOf("MLDSA65/pub"), kdOf(cn+"/pub"), ml65, alg, 0), 3, 3, fmt.Sprintf("alg%d-%s", alg, cn))
			if alg >= 1 && alg <= 8 {
				emit(true, priv(kdOf("MLDSA65"), kdOf(cn), ml65, alg, 0), 2, 1, fmt.Sprintf("alg%d-%s", alg, cn))
			}
		}
	}
	// 2. instances: the composite's and the nested key's
	for _, inst := range []mldsapb.MlDsaInstance{0, 1, 2, 3, 4} {
		emit(false, pub(kdOf("MLDSA65/pub"), kdOf("ED25519Raw/pub"), inst, 1, 0), 3, 1, "instance")
		emit(false, pub(kdOf("MLDSA44Raw/pub"), kdOf("ECDSAP384SHA384/pub"), inst, 3, 0), 3, 3, "nested-instance-44")
		emit(true, priv(kdOf("MLDSA44Raw"), kdOf("ED25519Raw"), inst, 1, 0), 2, 3, "nested-instance-44")
	}
	// 3. the real composite keys of the bank and their mutations
	for _, cn := range []string{"COMPOSITE_ED25519_MLDSA65", "COMPOSITE_P256_MLDSA65_Raw"} {
		pk := &comppb.CompositeMlDsaPublicKey{}
		if err := proto.Unmarshal(kdOf(cn+"/pub").GetValue(), pk); err != nil {
			panic(err)
		}
		sk := &comppb.CompositeMlDsaPrivateKey{}
		if err := proto.Unmarshal(kdOf(cn).GetValue(), sk); err != nil {
			panic(err)
		}
		prefix := uint64(byName[cn].key.GetOutputPrefixType())
		clonePK := func() *comppb.CompositeMlDsaPublicKey { return proto.Clone(pk).(*comppb.CompositeMlDsaPublicKey) }
		cloneSK := func() *comppb.CompositeMlDsaPrivateKey { return proto.Clone(sk).(*comppb.CompositeMlDsaPrivateKey) }
		emit(false, mm(pk), 3, prefix, "valid")
		emit(true, mm(sk), 2, prefix, "valid")
		for _, p := range []uint64{1, 2, 3, 4, 5} {
			emit(false, mm(pk), 3, p, "prefix")
			emit(true, mm(sk), 2, p, "prefix")
		}
		for _, m := range []uint64{0, 1, 2, 3, 4} {
			emit(false, mm(pk), m, prefix, "material")
			emit(true, mm(sk), m, prefix, "material")
		}
		{
			v := clonePK()
			v.Version = 1
			emit(false, mm(v), 3, prefix, "version")
			w := cloneSK()
			w.Version = 1
			emit(true, mm(w), 2, prefix, "version")
		}
		// nil / empty / garbage / oversized nested key data
		for i, kd := range []*tinkpb.KeyData{nil, {}, {TypeUrl: pk.GetMlDsaPublicKey().GetTypeUrl()}, {TypeUrl: pk.GetMlDsaPublicKey().GetTypeUrl(), Value: []byte{0xff, 0xff, 0xff}, KeyMaterialType: 3},
			{TypeUrl: pk.GetClassicalPublicKey().GetTypeUrl(), Value: bytes.Repeat([]byte{0x0a}, 6000), KeyMaterialType: 3},
			{TypeUrl: "type.googleapis.com/example.Unknown", Value: []byte{1, 2, 3}, KeyMaterialType: 3}} {
			v := clonePK()
			v.MlDsaPublicKey = kd
			emit(false, mm(v), 3, prefix, fmt.Sprintf("nested-mldsa-bad%d", i))
			v = clonePK()
			v.ClassicalPublicKey = kd
			emit(false, mm(v), 3, prefix, fmt.Sprintf("nested-classical-bad%d", i))
			w := cloneSK()
			w.MlDsaPrivateKey = kd
			emit(true, mm(w), 2, prefix, fmt.Sprintf("nested-mldsa-bad%d", i))
			w = cloneSK()
			w.ClassicalPrivateKey = kd
			emit(true, mm(w), 2, prefix, fmt.Sprintf("nested-classical-bad%d", i))
		}
		// nested key of the wrong kind
		for _, other := range []string{"AES128GCMSIV", "HMAC256T128", "MLDSA65/pub", "MLDSA65", "ED25519Raw/pub", "ED25519Raw", "ECDSAP256Raw/pub", "ECDSAP256Raw",
			"SLHDSA_SHA2_128s/pub", "JWT_ES256/pub", cn + "/pub", cn} {
			v := clonePK()
			v.ClassicalPublicKey = kdOf(other)
			emit(false, mm(v), 3, prefix, "classical-slot-"+other)
			v = clonePK()
			v.MlDsaPublicKey = kdOf(other)
			emit(false, mm(v), 3, prefix, "mldsa-slot-"+other)
			w := cloneSK()
			w.ClassicalPrivateKey = kdOf(other)
			emit(true, mm(w), 2, prefix, "classical-slot-"+other)
			w = cloneSK()
			w.MlDsaPrivateKey = kdOf(other)
			emit(true, mm(w), 2, prefix, "mldsa-slot-"+other)
		}
		// nested material labels
		for _, m := range []tinkpb.KeyData_KeyMaterialType{0, 1, 2, 3, 4} {
			v := clonePK()
			v.ClassicalPublicKey.KeyMaterialType = m
			emit(false, mm(v), 3, prefix, "nested-classical-label")
			v = clonePK()
			v.MlDsaPublicKey.KeyMaterialType = m
			emit(false, mm(v), 3, prefix, "nested-mldsa-label")
			w := cloneSK()
			w.ClassicalPrivateKey.KeyMaterialType = m
			emit(true, mm(w), 2, prefix, "nested-classical-label")
			w = cloneSK()
			w.MlDsaPrivateKey.KeyMaterialType = m
			emit(true, mm(w), 2, prefix, "nested-mldsa-label")
		}
		// nested versions and mismatching public parts of the nested ML-DSA private key
		{
			w := cloneSK()
			mk := &mldsapb.MlDsaPrivateKey{}
			if err := proto.Unmarshal(w.MlDsaPrivateKey.Value, mk); err != nil {
				panic(err)
			}
			mk2 := proto.Clone(mk).(*mldsapb.MlDsaPrivateKey)
			mk2.Version = 1
			w.MlDsaPrivateKey.Value = mm(mk2)
			emit(true, mm(w), 2, prefix, "nested-mldsa-version")
			mk2 = proto.Clone(mk).(*mldsapb.MlDsaPrivateKey)
			mk2.KeyValue = append([]byte{}, mk2.KeyValue...)
			mk2.KeyValue[3] ^= 4
			w = cloneSK()
			w.MlDsaPrivateKey.Value = mm(mk2)
			emit(true, mm(w), 2, prefix, "nested-mldsa-seed-mismatch")
			v := clonePK()
			mp := &mldsapb.MlDsaPublicKey{}
			if err := proto.Unmarshal(v.MlDsaPublicKey.Value, mp); err != nil {
				panic(err)
			}
			mp.Version = 2
			v.MlDsaPublicKey.Value = mm(mp)
			emit(false, mm(v), 3, prefix, "nested-mldsa-version")
			mp.Version = 0
			mp.KeyValue = mp.KeyValue[:len(mp.KeyValue)-1]
			v.MlDsaPublicKey.Value = mm(mp)
			emit(false, mm(v), 3, prefix, "nested-mldsa-short")
		}
	}
	// 4. the nested ECDSA key's own parameters: encoding and hash other than the expected ones
	{
		base := kdOf("ECDSAP256Raw/pub")
		ek := &ecdsapb.EcdsaPublicKey{}
		if err := proto.Unmarshal(base.Value, ek); err != nil {
			panic(err)
		}
		for _, enc := range []ecdsapb.EcdsaSignatureEncoding{0, 1, 2} {
			e2 := proto.Clone(ek).(*ecdsapb.EcdsaPublicKey)
			e2.Params.Encoding = enc
			kd := proto.Clone(base).(*tinkpb.KeyData)
			kd.Value = mm(e2)
			emit(false, pub(kdOf("MLDSA65/pub"), kd, ml65, 2, 0), 3, 3, "ecdsa-encoding")
		}
		e2 := proto.Clone(ek).(*ecdsapb.EcdsaPublicKey)
		e2.Version = 1
		kd := proto.Clone(base).(*tinkpb.KeyData)
		kd.Value = mm(e2)
		emit(false, pub(kdOf("MLDSA65/pub"), kd, ml65, 2, 0), 3, 3, "nested-classical-version")
	}
	return lines
}
