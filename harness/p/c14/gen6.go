package c14

import (
	"fmt"
	"strings"

	"github.com/tink-crypto/tink-go/v2/verifharness/hx"
	"google.golang.org/protobuf/encoding/protowire"
)

// directedSites: the malformed stream for the table of panic sites
// (coq/model/UntrustedPanicSites.v).  Deterministic (the same cases for every
// seed).  For EVERY key of the bank, and for every field of its value down to
// depth 3:
//
//   - every varint field takes each of the overflow edges (0, 2^31-1, 2^31,
//     2^32-1, 2^32, 2^63, 2^64-1): the integer conversions int(uint32),
//     int32(uint32), int(int32), uint32(int), make() sizes of the table;
//   - every length-delimited field is removed (nil sub-message: the getters of
//     the parsers must be nil safe), emptied, replaced by one 0xff byte (not a
//     message), and - when it is a byte string - gets 300 leading zero bytes
//     (big-integer fields: BigIntBytesToFixedSizeBuffer, big.Int.SetBytes), loses
//     its last byte and gains one byte (the length checks in front of every slice
//     and of ed25519.NewKeyFromSeed / DecodeSecretKey / encodePoint);
//   - once per key: a length prefix that claims 2^31-1 bytes with three bytes
//     present (huge length field), inside the key value.
//
// step thins the enumeration (quick tier): case i is kept when i % step == 0.
func directedSites(step int) []string {
	var lines []string
	n := 0
	emit := func(bk bankKey, v []byte, label string) {
		n++
		if step > 1 && n%step != 0 {
			return
		}
		k := toMKey(bk, 9, 1)
		k.Value = v
		ks := &mKeyset{Primary: 9, Keys: []mKey{k}}
		lines = append(lines, "B|"+hx.H(ks.Marshal())+"|site-"+label+":"+strings.TrimPrefix(k.URL, tp))
	}
	edges := []uint64{0, 1<<31 - 1, 1 << 31, 1<<32 - 1, 1 << 32, 1 << 63, 1<<64 - 1}
	for _, bk := range bank {
		root := bk.key.GetKeyData().GetValue()
		// rebuild(path, replacement fields at the innermost level) -> whole value
		var walk func(b []byte, depth int, path string, rebuild func([]byte) []byte)
		walk = func(b []byte, depth int, path string, rebuild func([]byte) []byte) {
			fs, ok := splitFields(b)
			if !ok || len(fs) == 0 {
				return
			}
			with := func(i int, f wfield) []byte {
				c := append([]wfield(nil), fs...)
				c[i] = f
				return rebuild(joinFields(c))
			}
			without := func(i int) []byte {
				c := append(append([]wfield(nil), fs[:i]...), fs[i+1:]...)
				return rebuild(joinFields(c))
			}
			for i, f := range fs {
				p := fmt.Sprintf("%s.%d", path, f.Num)
				switch f.Typ {
				case protowire.VarintType:
					for _, e := range edges {
						g := f
						g.Var = e
						emit(bk, with(i, g), fmt.Sprintf("var%s=%d", p, e))
					}
				case protowire.BytesType:
					emit(bk, without(i), "nil"+p)
					g := f
					g.Buf = nil
					emit(bk, with(i, g), "empty"+p)
					g.Buf = []byte{0xff}
					emit(bk, with(i, g), "ff"+p)
					sub, isMsg := splitFields(f.Buf)
					if isMsg && plausible(sub) && depth < 3 {
						i := i
						walk(f.Buf, depth+1, p, func(nb []byte) []byte {
							h := fs[i]
							h.Buf = nb
							return with(i, h)
						})
						continue
					}
					g.Buf = append(make([]byte, 300), f.Buf...)
					emit(bk, with(i, g), "zeros300"+p)
					if len(f.Buf) > 0 {
						g.Buf = append([]byte(nil), f.Buf[:len(f.Buf)-1]...)
						emit(bk, with(i, g), "short"+p)
					}
					g.Buf = append(append([]byte(nil), f.Buf...), 0)
					emit(bk, with(i, g), "long"+p)
				}
			}
		}
		walk(root, 0, "", func(b []byte) []byte { return b })
		// huge length field: field 2, length 2^31-1, three bytes present
		huge := protowire.AppendTag(nil, 2, protowire.BytesType)
		huge = protowire.AppendVarint(huge, 1<<31-1)
		huge = append(huge, 1, 2, 3)
		n = step*(n/step+1) - 1 // always kept
		emit(bk, append(append([]byte(nil), root...), huge...), "huge-length")
	}
	return lines
}

// directedNil: nil injections of the proto-message API for every bank key (nil
// keyset, nil key, nil key data), and an EncryptedKeyset that is empty, has no
// ciphertext, or whose keyset_info is not a message.
func directedNil() []string {
	var lines []string
	for _, bk := range bank {
		k := toMKey(bk, 9, 1)
		ks := &mKeyset{Primary: 9, Keys: []mKey{k, toMKey(bank[0], 10, 1)}}
		b := hx.H(ks.Marshal())
		for _, inj := range []string{"ks", "k0", "k1", "d0", "d1", "k0,d1", "d0,d1"} {
			lines = append(lines, "M|"+b+"|"+inj+"|site-nil-"+inj+":"+strings.TrimPrefix(k.URL, tp))
		}
	}
	kek := bytesOf(16)
	for i, enc := range [][]byte{{}, appBytes(nil, 2, nil), appBytes(nil, 3, []byte{0xff}), appBytes(appBytes(nil, 2, []byte{1, 2, 3}), 3, []byte{0xff}),
		appVar(nil, 2, 7), append(protowire.AppendVarint(protowire.AppendTag(nil, 2, protowire.BytesType), 1<<31-1), 1, 2, 3)} {
		lines = append(lines, fmt.Sprintf("E|%s|%s|%s|site-enc-%d:%s", hx.H(kek), hx.H(nil), hx.H(enc), i, bank[0].name))
	}
	return lines
}
