package c14

import (
	"github.com/tink-crypto/tink-go/v2/verifharness/hx"
	"google.golang.org/protobuf/proto"

	ctrhmacstreampb "github.com/tink-crypto/tink-go/v2/proto/aes_ctr_hmac_streaming_go_proto"
	gcmhkdfpb "github.com/tink-crypto/tink-go/v2/proto/aes_gcm_hkdf_streaming_go_proto"
	commonpb "github.com/tink-crypto/tink-go/v2/proto/common_go_proto"
	hmacpb "github.com/tink-crypto/tink-go/v2/proto/hmac_go_proto"
	jwtecdsapb "github.com/tink-crypto/tink-go/v2/proto/jwt_ecdsa_go_proto"
	jwthmacpb "github.com/tink-crypto/tink-go/v2/proto/jwt_hmac_go_proto"
	jwtmldsapb "github.com/tink-crypto/tink-go/v2/proto/jwt_ml_dsa_go_proto"
	jwtpk1pb "github.com/tink-crypto/tink-go/v2/proto/jwt_rsa_ssa_pkcs1_go_proto"
	jwtpsspb "github.com/tink-crypto/tink-go/v2/proto/jwt_rsa_ssa_pss_go_proto"
	mldsapb "github.com/tink-crypto/tink-go/v2/proto/ml_dsa_go_proto"
	slhdsapb "github.com/tink-crypto/tink-go/v2/proto/slh_dsa_go_proto"
)

// kidChoice: how the custom_kid field of a JWT key is written: 0 absent,
// 1 present and empty, 2 a name, 3 invalid UTF-8 (appended on the wire, the
// generated marshaller refuses it).
func kidChoice(r *hx.Rng, prefix uint64) int {
	if calm {
		return 0
	}
	if prefix == 1 { // TINK: a custom kid is refused
		return hx.PickS(r, []int{0, 0, 0, 0, 0, 0, 0, 1, 2, 3})
	}
	return hx.PickS(r, []int{0, 0, 0, 1, 2, 2, 2, 3})
}

func kidWire(num int, choice int) []byte {
	if choice != 3 {
		return nil
	}
	return appBytes(nil, protoNum(num), appBytes(nil, 1, []byte{0xff, 0xfe}))
}

// near: the valid value most of the time, one of the edge values otherwise.
func near[T any](r *hx.Rng, valid T, edges []T) T {
	if calm || r.Chance(78) {
		return valid
	}
	return hx.PickS(r, edges)
}

// forced / calm: the directed cases enumerate the tweaks of a key type one by
// one (pick takes its answers from the queue) around an otherwise valid key
// (near keeps the valid value).
var forced []int
var calm bool

func pick(r *hx.Rng, n int) int {
	if len(forced) > 0 {
		v := forced[0]
		forced = forced[1:]
		return v % n
	}
	return r.Intn(n)
}

// typedVariant3: streaming AEAD, JWT, ML-DSA and SLH-DSA keys.
func typedVariant3(r *hx.Rng, k *mKey, ver uint32, name string) (label string, handled bool) {
	hashes := []commonpb.HashType{3, 3, 3, 1, 4, 0, 2, 5, 6}
	switch name {
	case "AesGcmHkdfStreamingKey":
		derived := near(r, hx.PickS(r, []uint32{16, 32}), []uint32{0, 15, 17, 24, 33, 1<<32 - 16})
		seg := near(r, hx.PickS(r, []uint32{4096, 1 << 20, derived + 25, 1<<31 - 1}), []uint32{0, derived + 24, derived, 1 << 31, 1<<32 - 1})
		ikm := near(r, hx.PickS(r, []int{16, 32, 32, int(derived % 128)}), []int{0, 15, 17, 31, 33, 64})
		k.Value = mustMarshal(&gcmhkdfpb.AesGcmHkdfStreamingKey{Version: ver, KeyValue: r.Bytes(ikm),
			Params: &gcmhkdfpb.AesGcmHkdfStreamingParams{CiphertextSegmentSize: seg, DerivedKeySize: derived, HkdfHashType: near(r, hx.PickS(r, []commonpb.HashType{1, 3, 4}), hashes)}})
	case "AesCtrHmacStreamingKey":
		derived := near(r, hx.PickS(r, []uint32{16, 32}), []uint32{0, 15, 17, 24, 33, 1<<32 - 16})
		mh := near(r, hx.PickS(r, []commonpb.HashType{1, 3, 4}), hashes)
		dg := map[commonpb.HashType]uint32{1: 20, 3: 32, 4: 64}[mh]
		tag := near(r, hx.PickS(r, []uint32{10, 16, dg}), []uint32{0, 9, dg + 1, 21, 33, 65})
		seg := near(r, hx.PickS(r, []uint32{4096, 1 << 20, derived + 9 + tag, 1<<31 - 1}), []uint32{0, derived + 8 + tag, derived, 1 << 31, 1<<32 - 1})
		ikm := near(r, hx.PickS(r, []int{16, 32, 32, int(derived % 128)}), []int{0, 15, 17, 31, 33, 64})
		k.Value = mustMarshal(&ctrhmacstreampb.AesCtrHmacStreamingKey{Version: ver, KeyValue: r.Bytes(ikm),
			Params: &ctrhmacstreampb.AesCtrHmacStreamingParams{CiphertextSegmentSize: seg, DerivedKeySize: derived, HkdfHashType: near(r, hx.PickS(r, []commonpb.HashType{1, 3, 4}), hashes),
				HmacParams: &hmacpb.HmacParams{Hash: mh, TagSize: tag}}})
		if r.Chance(5) {
			v := &ctrhmacstreampb.AesCtrHmacStreamingKey{Version: ver, KeyValue: r.Bytes(32), Params: &ctrhmacstreampb.AesCtrHmacStreamingParams{CiphertextSegmentSize: 4096, DerivedKeySize: 16, HkdfHashType: 3}}
			k.Value = mustMarshal(v) // no HMAC parameters at all
		}
	case "JwtHmacKey":
		alg := near(r, hx.PickS(r, []jwthmacpb.JwtHmacAlgorithm{1, 2, 3}), []jwthmacpb.JwtHmacAlgorithm{0, 4})
		min, known := map[jwthmacpb.JwtHmacAlgorithm]int{1: 32, 2: 48, 3: 64}[alg]
		if !known {
			min = 64
		}
		v := &jwthmacpb.JwtHmacKey{Version: ver, Algorithm: alg,
			KeyValue: r.Bytes(near(r, hx.PickS(r, []int{min, min + 1, 64, 128}), []int{0, 15, 16, 31, 47, 63, min - 1}))}
		c := kidChoice(r, k.Prefix)
		switch c {
		case 1:
			v.CustomKid = &jwthmacpb.JwtHmacKey_CustomKid{}
		case 2:
			v.CustomKid = &jwthmacpb.JwtHmacKey_CustomKid{Value: "my-kid"}
		}
		k.Value = append(mustMarshal(v), kidWire(4, c)...)
	case "JwtEcdsaPublicKey", "JwtEcdsaPrivateKey":
		alg := hx.PickS(r, []jwtecdsapb.JwtEcdsaAlgorithm{1, 1, 2, 3})
		cv := nistCurves[int(alg)-1]
		priv, p := ecKeyPair(r, cv.c, cv.size)
		pub := &jwtecdsapb.JwtEcdsaPublicKey{Algorithm: alg, X: p[1 : 1+cv.size], Y: p[1+cv.size:]}
		c := kidChoice(r, k.Prefix)
		switch c {
		case 1:
			pub.CustomKid = &jwtecdsapb.JwtEcdsaPublicKey_CustomKid{}
		case 2:
			pub.CustomKid = &jwtecdsapb.JwtEcdsaPublicKey_CustomKid{Value: "my-kid"}
		}
		l := "ok"
		tweak := func() {
			switch pick(r, 12) {
			case 0:
				pub.Algorithm = hx.PickS(r, []jwtecdsapb.JwtEcdsaAlgorithm{0, 1, 2, 3, 4}) // possibly another curve than the point's
				l = "alg-other"
			case 1:
				pub.X = append([]byte{0, 0}, pub.X...)
				pub.Y = append([]byte{0}, pub.Y...)
				l = "leading-zeros"
			case 2:
				pub.X = append([]byte{1}, pub.X...)
				l = "x-too-long"
			case 3:
				pub.Y[len(pub.Y)-1] ^= 1
				l = "off-curve"
			case 4:
				pub.X, pub.Y = pub.Y, pub.X
				l = "xy-swapped"
			case 5:
				pub.X, pub.Y = nil, nil
				l = "no-point"
			case 6:
				pub.X = pub.X[1:]
				l = "x-shorter"
			}
		}
		if name == "JwtEcdsaPublicKey" {
			tweak()
			pub.Version = ver
			k.Value = append(mustMarshal(pub), kidWire(5, c)...)
			return "typed-" + l, true
		}
		v := &jwtecdsapb.JwtEcdsaPrivateKey{KeyValue: priv}
		switch pick(r, 12) {
		case 0:
			tweak()
		case 1:
			v.KeyValue = append([]byte{0, 0, 0}, v.KeyValue...) // tolerated
			l = "priv-leading-zeros"
		case 2:
			v.KeyValue[len(v.KeyValue)-1] ^= 1
			l = "priv-flip"
		case 3:
			v.KeyValue = make([]byte, len(v.KeyValue))
			l = "priv-zero"
		case 4:
			for i := range v.KeyValue {
				v.KeyValue[i] = 0xff
			}
			l = "priv-ff"
		case 5:
			pub.Version = 1
			l = "pubversion"
		case 6:
			pub = nil
			l = "nopub"
		case 7:
			v.KeyValue = nil
			l = "priv-empty"
		}
		v.Version = ver
		if pub != nil {
			// the public key goes in as a sub-message; an invalid kid is appended to it on the wire
			pb := append(mustMarshal(pub), kidWire(5, c)...)
			k.Value = appBytes(mustMarshal(v), 2, pb)
		} else {
			k.Value = mustMarshal(v)
		}
		return "typed-" + l, true
	case "JwtRsaSsaPkcs1PublicKey":
		v := &jwtpk1pb.JwtRsaSsaPkcs1PublicKey{Version: ver, Algorithm: near(r, hx.PickS(r, []jwtpk1pb.JwtRsaSsaPkcs1Algorithm{1, 2, 3}), []jwtpk1pb.JwtRsaSsaPkcs1Algorithm{0, 4}),
			N: odd(r, near(r, hx.PickS(r, []int{2048, 2049, 3072}), []int{1024, 2047})), E: near(r, []byte{1, 0, 1}, rsaExponents)}
		c := kidChoice(r, k.Prefix)
		switch c {
		case 1:
			v.CustomKid = &jwtpk1pb.JwtRsaSsaPkcs1PublicKey_CustomKid{}
		case 2:
			v.CustomKid = &jwtpk1pb.JwtRsaSsaPkcs1PublicKey_CustomKid{Value: "my-kid"}
		}
		if r.Chance(15) {
			v.N = append([]byte{0, 0}, v.N...)
		}
		k.Value = append(mustMarshal(v), kidWire(5, c)...)
	case "JwtRsaSsaPssPublicKey":
		v := &jwtpsspb.JwtRsaSsaPssPublicKey{Version: ver, Algorithm: near(r, hx.PickS(r, []jwtpsspb.JwtRsaSsaPssAlgorithm{1, 2, 3}), []jwtpsspb.JwtRsaSsaPssAlgorithm{0, 4}),
			N: odd(r, near(r, hx.PickS(r, []int{2048, 2049, 3072}), []int{1024, 2047})), E: near(r, []byte{1, 0, 1}, rsaExponents)}
		c := kidChoice(r, k.Prefix)
		switch c {
		case 1:
			v.CustomKid = &jwtpsspb.JwtRsaSsaPssPublicKey_CustomKid{}
		case 2:
			v.CustomKid = &jwtpsspb.JwtRsaSsaPssPublicKey_CustomKid{Value: "my-kid"}
		}
		k.Value = append(mustMarshal(v), kidWire(5, c)...)
	case "JwtRsaSsaPkcs1PrivateKey":
		v := &jwtpk1pb.JwtRsaSsaPkcs1PrivateKey{}
		if proto.Unmarshal(k.Value, v) != nil || v.PublicKey == nil {
			return "typed-skip", true
		}
		parts := &rsaParts{v.PublicKey.N, v.PublicKey.E, v.D, v.P, v.Q, v.Dp, v.Dq, v.Crt}
		l := rsaTweak(r, parts)
		v.PublicKey.N, v.PublicKey.E, v.D, v.P, v.Q, v.Dp, v.Dq, v.Crt = parts.n, parts.e, parts.d, parts.p, parts.q, parts.dp, parts.dq, parts.crt
		c := kidChoice(r, k.Prefix)
		switch c {
		case 1:
			v.PublicKey.CustomKid = &jwtpk1pb.JwtRsaSsaPkcs1PublicKey_CustomKid{}
		case 2:
			v.PublicKey.CustomKid = &jwtpk1pb.JwtRsaSsaPkcs1PublicKey_CustomKid{Value: "my-kid"}
		}
		switch pick(r, 12) {
		case 0:
			v.PublicKey.Algorithm = hx.PickS(r, []jwtpk1pb.JwtRsaSsaPkcs1Algorithm{0, 1, 2, 3, 4})
			l += "+alg"
		case 1:
			v.PublicKey.Version = hx.PickS(r, []uint32{1, 2})
			l += "+pubversion"
		case 2:
			v.PublicKey = nil
			l += "+nopub"
		}
		v.Version = ver
		k.Value = mustMarshal(v)
		return "typed-" + l, true
	case "JwtRsaSsaPssPrivateKey":
		v := &jwtpsspb.JwtRsaSsaPssPrivateKey{}
		if proto.Unmarshal(k.Value, v) != nil || v.PublicKey == nil {
			return "typed-skip", true
		}
		parts := &rsaParts{v.PublicKey.N, v.PublicKey.E, v.D, v.P, v.Q, v.Dp, v.Dq, v.Crt}
		l := rsaTweak(r, parts)
		v.PublicKey.N, v.PublicKey.E, v.D, v.P, v.Q, v.Dp, v.Dq, v.Crt = parts.n, parts.e, parts.d, parts.p, parts.q, parts.dp, parts.dq, parts.crt
		c := kidChoice(r, k.Prefix)
		switch c {
		case 1:
			v.PublicKey.CustomKid = &jwtpsspb.JwtRsaSsaPssPublicKey_CustomKid{}
		case 2:
			v.PublicKey.CustomKid = &jwtpsspb.JwtRsaSsaPssPublicKey_CustomKid{Value: "my-kid"}
		}
		switch pick(r, 12) {
		case 0:
			v.PublicKey.Algorithm = hx.PickS(r, []jwtpsspb.JwtRsaSsaPssAlgorithm{0, 1, 2, 3, 4})
			l += "+alg"
		case 1:
			v.PublicKey.Version = hx.PickS(r, []uint32{1, 2})
			l += "+pubversion"
		case 2:
			v.PublicKey = nil
			l += "+nopub"
		}
		v.Version = ver
		k.Value = mustMarshal(v)
		return "typed-" + l, true
	case "JwtMlDsaPublicKey":
		alg := near(r, hx.PickS(r, []jwtmldsapb.JwtMlDsaAlgorithm{1, 2, 3}), []jwtmldsapb.JwtMlDsaAlgorithm{0, 4})
		size := map[jwtmldsapb.JwtMlDsaAlgorithm]int{1: 1312, 2: 1952, 3: 2592}[alg]
		if r.Chance(25) {
			size = hx.PickS(r, []int{0, 1311, 1312, 1313, 1951, 1952, 1953, 2591, 2592, 2593})
		}
		v := &jwtmldsapb.JwtMlDsaPublicKey{Version: ver, Algorithm: alg, KeyValue: r.Bytes(size)}
		c := kidChoice(r, k.Prefix)
		switch c {
		case 1:
			v.CustomKid = &jwtmldsapb.JwtMlDsaPublicKey_CustomKid{}
		case 2:
			v.CustomKid = &jwtmldsapb.JwtMlDsaPublicKey_CustomKid{Value: "my-kid"}
		}
		k.Value = append(mustMarshal(v), kidWire(4, c)...)
	case "MlDsaPublicKey":
		inst := hx.PickS(r, []mldsapb.MlDsaInstance{1, 1, 2, 3, 3, 0, 4})
		size := map[mldsapb.MlDsaInstance]int{1: 1952, 2: 2592, 3: 1312}[inst]
		if r.Chance(30) {
			size = hx.PickS(r, []int{0, 1311, 1312, 1313, 1951, 1952, 1953, 2591, 2592, 2593})
		}
		v := &mldsapb.MlDsaPublicKey{Version: ver, KeyValue: r.Bytes(size), Params: &mldsapb.MlDsaParams{MlDsaInstance: inst}}
		if r.Chance(5) {
			v.Params = nil
		}
		k.Value = mustMarshal(v)
	case "SlhDsaPublicKey", "SlhDsaPrivateKey":
		ks := hx.PickS(r, []int32{64, 64, 64, 96, 128})
		params := &slhdsapb.SlhDsaParams{KeySize: ks, HashType: hx.PickS(r, []slhdsapb.SlhDsaHashType{1, 2}), SigType: slhdsapb.SlhDsaSignatureType_FAST_SIGNING}
		if r.Chance(20) {
			params.SigType = slhdsapb.SlhDsaSignatureType_SMALL_SIGNATURE
		}
		sk := r.Bytes(int(ks))
		pub := &slhdsapb.SlhDsaPublicKey{KeyValue: append([]byte(nil), sk[ks/2:]...), Params: params}
		l := "ok"
		tweak := func() {
			switch pick(r, 12) {
			case 0:
				params.KeySize = hx.PickS(r, []int32{0, 32, 63, 65, 96, 128, 256, -64})
				l = "keysize-other"
			case 1:
				params.HashType = hx.PickS(r, []slhdsapb.SlhDsaHashType{0, 3})
				l = "hash-unknown"
			case 2:
				params.SigType = hx.PickS(r, []slhdsapb.SlhDsaSignatureType{0, 3})
				l = "sig-unknown"
			case 3:
				pub.KeyValue = pub.KeyValue[1:]
				l = "pub-short"
			case 4:
				pub.KeyValue = append(pub.KeyValue, 0)
				l = "pub-long"
			case 5:
				pub.Params = nil
				l = "no-params"
			case 6:
				pub.KeyValue = nil
				l = "pub-empty"
			}
		}
		if name == "SlhDsaPublicKey" {
			tweak()
			pub.Version = ver
			k.Value = mustMarshal(pub)
			return "typed-" + l, true
		}
		v := &slhdsapb.SlhDsaPrivateKey{KeyValue: sk, PublicKey: pub}
		switch pick(r, 12) {
		case 0, 1:
			tweak()
		case 2:
			pub.KeyValue[0] ^= 1 // not the public part the private key embeds
			l = "pub-other"
		case 3:
			v.KeyValue = v.KeyValue[1:]
			l = "priv-short"
		case 4:
			v.KeyValue = append(v.KeyValue, 0)
			l = "priv-long"
		case 5:
			v.KeyValue = nil
			l = "priv-empty"
		case 6:
			pub.Version = 1
			l = "pubversion"
		case 7:
			v.PublicKey = nil
			l = "nopub"
		case 8:
			v.KeyValue[0] ^= 1 // the secret seed: the embedded public part is unchanged, the key is accepted
			l = "seed-other"
		}
		v.Version = ver
		k.Value = mustMarshal(v)
		return "typed-" + l, true
	default:
		return "", false
	}
	return "typed", true
}
