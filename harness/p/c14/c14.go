// Package c14: untrusted keyset input (property C14).
//
// Case lines (self-contained; the last field is a label used only for the
// class statistics):
//
//	B|<hex>|<label>                         binary Keyset through insecurecleartextkeyset.Read and
//	                                        keyset.ReadWithNoSecrets with keyset.NewBinaryReader
//	J|<json hex>|<bin hex or X>|<label>     JSON text through the same two readers with
//	                                        keyset.NewJSONReader (bin = the message protojson yields,
//	                                        X = protojson refuses the text; used by the model only)
//	M|<bin hex>|<nil injections>|<label>    proto-message API: insecurecleartextkeyset.Read on a
//	                                        MemReaderWriter and keyset.NewHandleWithNoSecrets, with
//	                                        nil keyset ("ks"), nil key ("k<i>"), nil key data ("d<i>")
//	E|<kek>|<ad>|<hex>|<label>              EncryptedKeyset through keyset.ReadWithAssociatedData with
//	                                        an AES-GCM (no prefix) key-encryption key
//	F|<kek>|<ad>|<json hex>|<canon or X>|<label>  the same with the JSON text of an EncryptedKeyset and
//	                                        keyset.NewJSONReader (canon: what protojson yields, gen_json.go)
//
// J and F: the model parses the TEXT itself (coq/model/JsonKeyset.v); the bin / canon field is what
// protojson.Unmarshal made of it and is only compared with the model's own parse (a cross-check).
//
//	P|<KeyTemplate hex>|<label>             protoserialization.ParseParameters on the decoded template (params.go)
//
// Observation: "c:<o>|n:<o>" (cleartext reader, no-secrets reader) or "e:<o>",
// <o> = err or h[id.status.primary.idreq.prefix.prim,...] with prim = + (a
// primitive is created from the key), - (constructor error), ~ (no registered
// parser: the fallback key); a PRF-based deriver key adds {<prf key>;<derived
// key parameters>} (deriverDetail).  Every registered key type is modelled: no
// case is decided by the direct check alone any more.
package c14

import (
	"bytes"
	"crypto/aes"
	"crypto/cipher"
	"encoding/hex"
	"fmt"
	"io"
	"math/big"
	"strconv"
	"strings"
	"time"

	"github.com/tink-crypto/tink-go/v2/aead"
	"github.com/tink-crypto/tink-go/v2/aead/aesgcm"
	"github.com/tink-crypto/tink-go/v2/daead"
	"github.com/tink-crypto/tink-go/v2/hybrid"
	"github.com/tink-crypto/tink-go/v2/insecurecleartextkeyset"
	"github.com/tink-crypto/tink-go/v2/insecuresecretdataaccess"
	"github.com/tink-crypto/tink-go/v2/internal/factoryutil"
	"github.com/tink-crypto/tink-go/v2/internal/registryconfig"
	"github.com/tink-crypto/tink-go/v2/jwt"
	_ "github.com/tink-crypto/tink-go/v2/jwt/jwtmldsa"
	"github.com/tink-crypto/tink-go/v2/key"
	"github.com/tink-crypto/tink-go/v2/keyderivation"
	"github.com/tink-crypto/tink-go/v2/keyderivation/prfbasedkeyderivation"
	"github.com/tink-crypto/tink-go/v2/keyset"
	"github.com/tink-crypto/tink-go/v2/mac"
	"github.com/tink-crypto/tink-go/v2/prf"
	"github.com/tink-crypto/tink-go/v2/prf/aescmacprf"
	"github.com/tink-crypto/tink-go/v2/prf/hkdfprf"
	"github.com/tink-crypto/tink-go/v2/prf/hmacprf"
	"github.com/tink-crypto/tink-go/v2/secretdata"
	"github.com/tink-crypto/tink-go/v2/signature"
	_ "github.com/tink-crypto/tink-go/v2/signature/compositemldsa"
	_ "github.com/tink-crypto/tink-go/v2/signature/mldsa"
	_ "github.com/tink-crypto/tink-go/v2/signature/slhdsa"
	"github.com/tink-crypto/tink-go/v2/streamingaead"
	"github.com/tink-crypto/tink-go/v2/tink"
	"github.com/tink-crypto/tink-go/v2/verifharness/hx"
	"google.golang.org/protobuf/encoding/protojson"
	"google.golang.org/protobuf/encoding/protowire"
	"google.golang.org/protobuf/proto"

	cmacpb "github.com/tink-crypto/tink-go/v2/proto/aes_cmac_go_proto"
	ctrhmacpb "github.com/tink-crypto/tink-go/v2/proto/aes_ctr_hmac_aead_go_proto"
	ctrhmacstreampb "github.com/tink-crypto/tink-go/v2/proto/aes_ctr_hmac_streaming_go_proto"
	gcmpb "github.com/tink-crypto/tink-go/v2/proto/aes_gcm_go_proto"
	gcmhkdfpb "github.com/tink-crypto/tink-go/v2/proto/aes_gcm_hkdf_streaming_go_proto"
	gcmsivpb "github.com/tink-crypto/tink-go/v2/proto/aes_gcm_siv_go_proto"
	sivpb "github.com/tink-crypto/tink-go/v2/proto/aes_siv_go_proto"
	commonpb "github.com/tink-crypto/tink-go/v2/proto/common_go_proto"
	ecdsapb "github.com/tink-crypto/tink-go/v2/proto/ecdsa_go_proto"
	hkdfprfpb "github.com/tink-crypto/tink-go/v2/proto/hkdf_prf_go_proto"
	hmacpb "github.com/tink-crypto/tink-go/v2/proto/hmac_go_proto"
	jwthmacpb "github.com/tink-crypto/tink-go/v2/proto/jwt_hmac_go_proto"
	jwtpk1pb "github.com/tink-crypto/tink-go/v2/proto/jwt_rsa_ssa_pkcs1_go_proto"
	jwtpsspb "github.com/tink-crypto/tink-go/v2/proto/jwt_rsa_ssa_pss_go_proto"
	prfderpb "github.com/tink-crypto/tink-go/v2/proto/prf_based_deriver_go_proto"
	pk1pb "github.com/tink-crypto/tink-go/v2/proto/rsa_ssa_pkcs1_go_proto"
	psspb "github.com/tink-crypto/tink-go/v2/proto/rsa_ssa_pss_go_proto"
	tinkpb "github.com/tink-crypto/tink-go/v2/proto/tink_go_proto"
	xaesgcmpb "github.com/tink-crypto/tink-go/v2/proto/x_aes_gcm_go_proto"
)

const tp = "type.googleapis.com/google.crypto.tink."

// modelled: key types whose parser and primitive constructor the model transcribes.
var modelled = map[string]bool{}

// unmodelled: every other type URL with a registered key parser (the list
// unmodelled_urls of coq/model/UntrustedConsts.v).
var unmodelled = map[string]bool{}

// base16 / outside16: the split of the registered key types the C13 harness
// (which shares this key bank and the model's parsers) was built on; C13
// keeps treating every type outside the first 16 as outside its scope
// (c13_outside_urls of coq/model/UntrustedConsts.v).
var base16 = map[string]bool{}
var outside16 = map[string]bool{}

func init() {
	base := []string{"HmacKey", "AesCmacKey", "AesGcmKey", "AesGcmSivKey", "AesCtrHmacAeadKey", "AesSivKey", "HkdfPrfKey",
		"HmacPrfKey", "AesCmacPrfKey", "EcdsaPublicKey", "EcdsaPrivateKey", "RsaSsaPkcs1PublicKey", "RsaSsaPssPublicKey",
		"ChaCha20Poly1305Key", "XChaCha20Poly1305Key", "XAesGcmKey"}
	// newly modelled (round 2 of C14)
	added := []string{"Ed25519PublicKey", "Ed25519PrivateKey", "RsaSsaPkcs1PrivateKey", "RsaSsaPssPrivateKey",
		"EciesAeadHkdfPublicKey", "EciesAeadHkdfPrivateKey", "HpkePublicKey", "HpkePrivateKey",
		"AesCtrHmacStreamingKey", "AesGcmHkdfStreamingKey", "JwtHmacKey", "JwtEcdsaPublicKey", "JwtEcdsaPrivateKey",
		"JwtRsaSsaPkcs1PublicKey", "JwtRsaSsaPssPublicKey", "MlDsaPublicKey", "SlhDsaPublicKey", "SlhDsaPrivateKey",
		"JwtRsaSsaPkcs1PrivateKey", "JwtRsaSsaPssPrivateKey", "JwtMlDsaPublicKey",
		// third round (the public key of the seed comes from the oracle op c14_mldsa_pub)
		"MlDsaPrivateKey", "JwtMlDsaPrivateKey",
		// fourth round: the nested key data go to the parsers already transcribed
		"CompositeMlDsaPublicKey", "CompositeMlDsaPrivateKey"}
	// fifth round: the deriver key nests a PRF key and a key template (parameters parsers of every type)
	rest := []string{"PrfBasedDeriverKey"}
	for _, n := range base {
		modelled[tp+n] = true
		base16[tp+n] = true
	}
	for _, n := range added {
		modelled[tp+n] = true
		outside16[tp+n] = true
	}
	for _, n := range rest {
		modelled[tp+n] = true // C14 models it (coq/model/UntrustedParams.v); C13's view (outside16) is unchanged
		outside16[tp+n] = true
	}
}

type bankKey struct {
	name, class string
	key         *tinkpb.Keyset_Key
	mod         bool // a modelled type
	mod16       bool // one of the 16 types of C13's scope
}

var bank []bankKey
var bankMod []int  // indices of bank keys of modelled types
var bankMod2 []int // ... of the types modelled in the second round

func init() {
	for _, d := range bankData {
		b, err := hex.DecodeString(d.hex)
		if err != nil {
			panic(err)
		}
		k := &tinkpb.Keyset_Key{}
		if err := proto.Unmarshal(b, k); err != nil {
			panic(err)
		}
		m := modelled[k.GetKeyData().GetTypeUrl()]
		if m {
			bankMod = append(bankMod, len(bank))
			if !base16[k.GetKeyData().GetTypeUrl()] {
				bankMod2 = append(bankMod2, len(bank))
			}
		}
		bank = append(bank, bankKey{d.name, d.class, k, m, base16[k.GetKeyData().GetTypeUrl()]})
	}
}

var cfg = &registryconfig.RegistryConfig{}

// primFromKey creates the primitive of one key; panics are reported.
func primFromKey(k key.Key) (p any, err error, panicked string) {
	defer func() {
		if e := recover(); e != nil {
			p, err, panicked = nil, fmt.Errorf("panic"), fmt.Sprint(e)
		}
	}()
	p, _, err = factoryutil.PrimitiveFromKey[any](k, cfg)
	return p, err, ""
}

func statusStr(s keyset.KeyStatus) string {
	switch s {
	case keyset.Enabled:
		return "E"
	case keyset.Disabled:
		return "D"
	case keyset.Destroyed:
		return "X"
	}
	return "?"
}

// shape prints the projected observables of a handle.
func shape(h *keyset.Handle) string {
	info := h.KeysetInfo()
	var sb strings.Builder
	sb.WriteString("h[")
	for i := 0; i < h.Len(); i++ {
		e, err := h.Entry(i)
		if err != nil {
			sb.WriteString("?")
			continue
		}
		if i > 0 {
			sb.WriteString(",")
		}
		p := "0"
		if e.IsPrimary() {
			p = "1"
		}
		req := "R"
		if r, has := e.Key().IDRequirement(); has {
			req = strconv.FormatUint(uint64(r), 10)
		}
		ki := info.GetKeyInfo()[i]
		prim := "~"
		if modelled[ki.GetTypeUrl()] {
			_, err, pn := primFromKey(e.Key())
			switch {
			case pn != "":
				prim = "!"
			case err != nil:
				prim = "-"
			default:
				prim = "+"
			}
		}
		fmt.Fprintf(&sb, "%d.%s.%s.%s.%d.%s%s", e.KeyID(), statusStr(e.KeyStatus()), p, req, int32(ki.GetOutputPrefixType()), prim, deriverDetail(e.Key()))
	}
	sb.WriteString("]")
	return sb.String()
}

// deriverDetail: the observable fields of a PRF-based deriver key object: its
// PRF key (type, key size, hash) and the parameters of the keys it derives.
func deriverDetail(k key.Key) string {
	dk, ok := k.(*prfbasedkeyderivation.Key)
	if !ok {
		return ""
	}
	prfS := fmt.Sprintf("?%T", dk.PRFKey())
	switch pk := dk.PRFKey().(type) {
	case *hkdfprf.Key:
		pp := pk.Parameters().(*hkdfprf.Parameters)
		prfS = fmt.Sprintf("hkdf(%d,%d)", pp.KeySizeInBytes(), cd(hashCodes, pp.HashType()))
	case *hmacprf.Key:
		pp := pk.Parameters().(*hmacprf.Parameters)
		prfS = fmt.Sprintf("hmacprf(%d,%d)", pp.KeySizeInBytes(), cd(hashCodes, pp.HashType()))
	case *aescmacprf.Key:
		pp := pk.Parameters().(*aescmacprf.Parameters)
		prfS = fmt.Sprintf("cmacprf(%d)", pp.KeySizeInBytes())
	}
	dp := "?"
	if ps, ok := dk.Parameters().(*prfbasedkeyderivation.Parameters); ok {
		dp = renderParams(ps.DerivedKeyParameters())
	}
	return "{" + prfS + ";" + dp + "}"
}

func outcome(h *keyset.Handle, err error) string {
	if err != nil || h == nil {
		return "err"
	}
	return shape(h)
}

func anyUnmodelled(ks *tinkpb.Keyset) bool {
	for _, k := range ks.GetKey() {
		if unmodelled[k.GetKeyData().GetTypeUrl()] {
			return true
		}
	}
	return false
}

func kekAEAD(kek []byte) (tink.AEAD, error) {
	params, err := aesgcm.NewParameters(aesgcm.ParametersOpts{KeySizeInBytes: len(kek), IVSizeInBytes: 12, TagSizeInBytes: 16, Variant: aesgcm.VariantNoPrefix})
	if err != nil {
		return nil, err
	}
	k, err := aesgcm.NewKey(secretdata.NewBytesFromData(kek, insecuresecretdataaccess.Token{}), 0, params)
	if err != nil {
		return nil, err
	}
	return aesgcm.NewAEAD(k)
}

// stdlibOpen: the KEK decryption done with the standard library only (to
// know what the readers get to see, for the "U" decision and the checks).
func stdlibOpen(kek, ct, ad []byte) ([]byte, bool) {
	if len(ct) < 28 {
		return nil, false
	}
	b, err := aes.NewCipher(kek)
	if err != nil {
		return nil, false
	}
	g, err := cipher.NewGCM(b)
	if err != nil {
		return nil, false
	}
	pt, err := g.Open(nil, ct[:12], ct[12:], ad)
	return pt, err == nil
}
func stdlibSeal(kek, iv, pt, ad []byte) []byte {
	b, _ := aes.NewCipher(kek)
	g, _ := cipher.NewGCM(b)
	return g.Seal(append([]byte(nil), iv...), iv, pt, ad)
}

// applyInj applies the nil injections of an M line.
func applyInj(ks *tinkpb.Keyset, inj string) (*tinkpb.Keyset, bool) {
	changed := false
	for _, i := range strings.Split(inj, ",") {
		if ks == nil {
			return nil, true
		}
		switch {
		case i == "ks":
			return nil, true
		case i == "" || i == "-":
		default:
			idx, _ := strconv.Atoi(i[1:])
			if idx < len(ks.Key) {
				if i[0] == 'k' {
					ks.Key[idx] = nil
					changed = true
				} else if i[0] == 'd' && ks.Key[idx] != nil {
					ks.Key[idx].KeyData = nil
					changed = true
				}
			}
		}
	}
	return ks, changed
}

// run holds everything one case produces: the handles of each entry point and
// what the readers were given, decoded independently.
type run struct {
	kind    string
	ks      *tinkpb.Keyset // the Keyset message the readers see (nil: not decodable / nil message)
	pre     *tinkpb.Keyset // the decoded message before the nil injections of an M line (U decision)
	decoded bool           // a Keyset message reached handle construction
	paths   []string
	handles []*keyset.Handle
	errs    []error
	wantErr string // a reason the input must be rejected on every path ("" = none known)
}

func execute(in string) *run {
	f := strings.Split(in, "|")
	r := &run{kind: f[0]}
	add := func(p string, h *keyset.Handle, err error) {
		r.paths = append(r.paths, p)
		r.handles = append(r.handles, h)
		r.errs = append(r.errs, err)
	}
	switch f[0] {
	case "B":
		data := hx.UH(f[1])
		ks := &tinkpb.Keyset{}
		if proto.Unmarshal(data, ks) == nil {
			r.ks, r.decoded = ks, true
		}
		h, err := insecurecleartextkeyset.Read(keyset.NewBinaryReader(bytes.NewReader(data)))
		add("c", h, err)
		h, err = keyset.ReadWithNoSecrets(keyset.NewBinaryReader(bytes.NewReader(data)))
		add("n", h, err)
	case "J":
		data := hx.UH(f[1])
		ks := &tinkpb.Keyset{}
		if (protojson.UnmarshalOptions{}).Unmarshal(data, ks) == nil {
			r.ks, r.decoded = ks, true
		}
		h, err := insecurecleartextkeyset.Read(keyset.NewJSONReader(bytes.NewReader(data)))
		add("c", h, err)
		h, err = keyset.ReadWithNoSecrets(keyset.NewJSONReader(bytes.NewReader(data)))
		add("n", h, err)
	case "F":
		kek, ad, data := hx.UH(f[1]), hx.UH(f[2]), hx.UH(f[3])
		enc := &tinkpb.EncryptedKeyset{}
		if (protojson.UnmarshalOptions{}).Unmarshal(data, enc) == nil {
			if pt, ok := stdlibOpen(kek, enc.GetEncryptedKeyset(), ad); ok {
				ks := &tinkpb.Keyset{}
				if proto.Unmarshal(pt, ks) == nil {
					r.ks, r.decoded = ks, true
				}
			}
		}
		a, err := kekAEAD(kek)
		if err != nil {
			add("e", nil, err)
			return r
		}
		h, err := keyset.ReadWithAssociatedData(keyset.NewJSONReader(bytes.NewReader(data)), a, ad)
		add("e", h, err)
	case "M":
		data := hx.UH(f[1])
		ks := &tinkpb.Keyset{}
		if proto.Unmarshal(data, ks) != nil {
			add("c", nil, fmt.Errorf("undecodable"))
			add("n", nil, fmt.Errorf("undecodable"))
			return r
		}
		// the U decision looks at the message before the injections
		r.pre, r.decoded = proto.Clone(ks).(*tinkpb.Keyset), true
		ks2, changed := applyInj(ks, f[2])
		r.ks = ks2
		var h *keyset.Handle
		var err error
		if ks2 == nil {
			h, err = insecurecleartextkeyset.Read(&keyset.MemReaderWriter{})
		} else {
			h, err = insecurecleartextkeyset.Read(&keyset.MemReaderWriter{Keyset: ks2})
		}
		add("c", h, err)
		h, err = keyset.NewHandleWithNoSecrets(ks2)
		add("n", h, err)
		if changed {
			r.wantErr = "nil keyset / key / key data"
		}
	case "E":
		kek, ad, data := hx.UH(f[1]), hx.UH(f[2]), hx.UH(f[3])
		enc := &tinkpb.EncryptedKeyset{}
		if proto.Unmarshal(data, enc) == nil {
			if pt, ok := stdlibOpen(kek, enc.GetEncryptedKeyset(), ad); ok {
				ks := &tinkpb.Keyset{}
				if proto.Unmarshal(pt, ks) == nil {
					r.ks, r.decoded = ks, true
				}
			}
		}
		a, err := kekAEAD(kek)
		if err != nil {
			add("e", nil, err)
			return r
		}
		h, err := keyset.ReadWithAssociatedData(keyset.NewBinaryReader(bytes.NewReader(data)), a, ad)
		add("e", h, err)
	}
	return r
}

func c14Run(in string) string {
	if strings.HasPrefix(in, "P|") {
		return runParams(strings.Split(in, "|")[1])
	}
	r := execute(in)
	var parts []string
	for i, p := range r.paths {
		parts = append(parts, p+":"+outcome(r.handles[i], r.errs[i]))
	}
	return strings.Join(parts, "|")
}

// ---------------------------------------------------------------------------
// direct check (no model)
// ---------------------------------------------------------------------------

// mustReject: an independent reading of the property's rejection list on the
// decoded message.
func mustReject(ks *tinkpb.Keyset) string {
	if ks == nil {
		return "nil keyset"
	}
	if len(ks.GetKey()) == 0 {
		return "empty keyset"
	}
	ids := map[uint32]int{}
	enabledPrimary := 0
	for _, k := range ks.GetKey() {
		if k == nil {
			return "nil key"
		}
		if k.KeyData == nil {
			return "nil key data"
		}
		ids[k.GetKeyId()]++
		switch k.GetStatus() {
		case tinkpb.KeyStatusType_ENABLED, tinkpb.KeyStatusType_DISABLED, tinkpb.KeyStatusType_DESTROYED:
		default:
			return "unknown status"
		}
		switch k.GetOutputPrefixType() {
		case tinkpb.OutputPrefixType_TINK, tinkpb.OutputPrefixType_LEGACY, tinkpb.OutputPrefixType_RAW, tinkpb.OutputPrefixType_CRUNCHY,
			tinkpb.OutputPrefixType_WITH_ID_REQUIREMENT: // accepted by Validate since /repo 4b80d2c (the key's parser decides)
		default:
			return "unknown prefix type"
		}
		if k.GetKeyId() == ks.GetPrimaryKeyId() && k.GetStatus() == tinkpb.KeyStatusType_ENABLED {
			enabledPrimary++
		}
	}
	for id, c := range ids {
		if c > 1 {
			return fmt.Sprintf("repeated key id %d", id)
		}
	}
	if enabledPrimary == 0 {
		return "no enabled primary"
	}
	return ""
}

// wellFormed: what the property promises of every handle that is returned.
func wellFormed(h *keyset.Handle) string {
	if h.Len() == 0 {
		return "handle without keys"
	}
	ids := map[uint32]bool{}
	prim := 0
	for i := 0; i < h.Len(); i++ {
		e, err := h.Entry(i)
		if err != nil {
			return "Entry() fails"
		}
		if ids[e.KeyID()] {
			return fmt.Sprintf("repeated key id %d", e.KeyID())
		}
		ids[e.KeyID()] = true
		switch e.KeyStatus() {
		case keyset.Enabled, keyset.Disabled, keyset.Destroyed:
		default:
			return "unknown status in handle"
		}
		if e.IsPrimary() {
			prim++
			if e.KeyStatus() != keyset.Enabled {
				return "primary not enabled"
			}
		}
		if r, has := e.Key().IDRequirement(); has && r != e.KeyID() {
			return fmt.Sprintf("key id %d but id requirement %d", e.KeyID(), r)
		}
	}
	if prim != 1 {
		return fmt.Sprintf("%d primaries", prim)
	}
	p, err := h.Primary()
	if err != nil || !p.IsPrimary() {
		return "Primary() inconsistent"
	}
	for _, ki := range h.KeysetInfo().GetKeyInfo() {
		switch ki.GetOutputPrefixType() {
		case tinkpb.OutputPrefixType_TINK, tinkpb.OutputPrefixType_LEGACY, tinkpb.OutputPrefixType_RAW, tinkpb.OutputPrefixType_CRUNCHY,
			tinkpb.OutputPrefixType_WITH_ID_REQUIREMENT:
		default:
			return "unknown prefix type in handle"
		}
	}
	return ""
}

func rsaWeak(n, e []byte) string {
	if new(big.Int).SetBytes(n).BitLen() < 2048 {
		return "RSA modulus under 2048 bits"
	}
	if new(big.Int).SetBytes(e).Cmp(big.NewInt(65537)) != 0 {
		return "RSA exponent other than 65537"
	}
	return ""
}

func ecdsaWeak(p *ecdsapb.EcdsaParams) string {
	bits := map[commonpb.HashType]int{commonpb.HashType_SHA1: 80, commonpb.HashType_SHA224: 112, commonpb.HashType_SHA256: 128, commonpb.HashType_SHA384: 192, commonpb.HashType_SHA512: 256}[p.GetHashType()]
	need := map[commonpb.EllipticCurveType]int{commonpb.EllipticCurveType_NIST_P256: 128, commonpb.EllipticCurveType_NIST_P384: 192, commonpb.EllipticCurveType_NIST_P521: 256}[p.GetCurve()]
	if need == 0 || bits < need {
		return "ECDSA hash weaker than its curve"
	}
	return ""
}

func aesWeak(n int) string {
	if n != 16 && n != 32 {
		return fmt.Sprintf("AES key of %d bytes", n)
	}
	return ""
}

// weakKey: the property's list of keys that must never yield a usable
// primitive, read off the serialized key with the generated proto types only.
func weakKey(kd *tinkpb.KeyData) string {
	v := kd.GetValue()
	switch strings.TrimPrefix(kd.GetTypeUrl(), tp) {
	case "HmacKey":
		k := &hmacpb.HmacKey{}
		if proto.Unmarshal(v, k) == nil {
			if len(k.GetKeyValue()) < 16 {
				return "HMAC key under 16 bytes"
			}
			if k.GetParams().GetTagSize() < 10 {
				return "HMAC tag under 10 bytes"
			}
		}
	case "AesGcmKey":
		k := &gcmpb.AesGcmKey{}
		if proto.Unmarshal(v, k) == nil {
			return aesWeak(len(k.GetKeyValue()))
		}
	case "AesGcmSivKey":
		k := &gcmsivpb.AesGcmSivKey{}
		if proto.Unmarshal(v, k) == nil {
			return aesWeak(len(k.GetKeyValue()))
		}
	case "AesCmacKey":
		k := &cmacpb.AesCmacKey{}
		if proto.Unmarshal(v, k) == nil {
			return aesWeak(len(k.GetKeyValue()))
		}
	case "AesSivKey":
		k := &sivpb.AesSivKey{}
		if proto.Unmarshal(v, k) == nil {
			if len(k.GetKeyValue())%2 != 0 {
				return "AES-SIV key of odd length"
			}
			return aesWeak(len(k.GetKeyValue()) / 2)
		}
	case "AesCtrHmacAeadKey":
		k := &ctrhmacpb.AesCtrHmacAeadKey{}
		if proto.Unmarshal(v, k) == nil {
			if w := aesWeak(len(k.GetAesCtrKey().GetKeyValue())); w != "" {
				return w
			}
			if len(k.GetHmacKey().GetKeyValue()) < 16 {
				return "HMAC key under 16 bytes"
			}
			if k.GetHmacKey().GetParams().GetTagSize() < 10 {
				return "HMAC tag under 10 bytes"
			}
		}
	case "XAesGcmKey":
		k := &xaesgcmpb.XAesGcmKey{}
		if proto.Unmarshal(v, k) == nil {
			return aesWeak(len(k.GetKeyValue()))
		}
	case "AesGcmHkdfStreamingKey":
		k := &gcmhkdfpb.AesGcmHkdfStreamingKey{}
		if proto.Unmarshal(v, k) == nil {
			return aesWeak(int(k.GetParams().GetDerivedKeySize()))
		}
	case "AesCtrHmacStreamingKey":
		k := &ctrhmacstreampb.AesCtrHmacStreamingKey{}
		if proto.Unmarshal(v, k) == nil {
			if k.GetParams().GetHmacParams().GetTagSize() < 10 {
				return "HMAC tag under 10 bytes"
			}
			return aesWeak(int(k.GetParams().GetDerivedKeySize()))
		}
	case "JwtHmacKey":
		k := &jwthmacpb.JwtHmacKey{}
		if proto.Unmarshal(v, k) == nil && len(k.GetKeyValue()) < 16 {
			return "HMAC key under 16 bytes"
		}
	case "HkdfPrfKey":
		k := &hkdfprfpb.HkdfPrfKey{}
		if proto.Unmarshal(v, k) == nil && len(k.GetKeyValue()) < 32 {
			return "HKDF-PRF key under 32 bytes"
		}
	case "PrfBasedDeriverKey": // the PRF key it nests
		k := &prfderpb.PrfBasedDeriverKey{}
		if proto.Unmarshal(v, k) == nil && k.GetPrfKey() != nil {
			return weakKey(k.GetPrfKey())
		}
	case "RsaSsaPkcs1PublicKey":
		k := &pk1pb.RsaSsaPkcs1PublicKey{}
		if proto.Unmarshal(v, k) == nil {
			return rsaWeak(k.GetN(), k.GetE())
		}
	case "RsaSsaPkcs1PrivateKey":
		k := &pk1pb.RsaSsaPkcs1PrivateKey{}
		if proto.Unmarshal(v, k) == nil {
			return rsaWeak(k.GetPublicKey().GetN(), k.GetPublicKey().GetE())
		}
	case "RsaSsaPssPublicKey":
		k := &psspb.RsaSsaPssPublicKey{}
		if proto.Unmarshal(v, k) == nil {
			return rsaWeak(k.GetN(), k.GetE())
		}
	case "RsaSsaPssPrivateKey":
		k := &psspb.RsaSsaPssPrivateKey{}
		if proto.Unmarshal(v, k) == nil {
			return rsaWeak(k.GetPublicKey().GetN(), k.GetPublicKey().GetE())
		}
	case "JwtRsaSsaPkcs1PublicKey":
		k := &jwtpk1pb.JwtRsaSsaPkcs1PublicKey{}
		if proto.Unmarshal(v, k) == nil {
			return rsaWeak(k.GetN(), k.GetE())
		}
	case "JwtRsaSsaPkcs1PrivateKey":
		k := &jwtpk1pb.JwtRsaSsaPkcs1PrivateKey{}
		if proto.Unmarshal(v, k) == nil {
			return rsaWeak(k.GetPublicKey().GetN(), k.GetPublicKey().GetE())
		}
	case "JwtRsaSsaPssPublicKey":
		k := &jwtpsspb.JwtRsaSsaPssPublicKey{}
		if proto.Unmarshal(v, k) == nil {
			return rsaWeak(k.GetN(), k.GetE())
		}
	case "JwtRsaSsaPssPrivateKey":
		k := &jwtpsspb.JwtRsaSsaPssPrivateKey{}
		if proto.Unmarshal(v, k) == nil {
			return rsaWeak(k.GetPublicKey().GetN(), k.GetPublicKey().GetE())
		}
	case "EcdsaPublicKey":
		k := &ecdsapb.EcdsaPublicKey{}
		if proto.Unmarshal(v, k) == nil {
			return ecdsaWeak(k.GetParams())
		}
	case "EcdsaPrivateKey":
		k := &ecdsapb.EcdsaPrivateKey{}
		if proto.Unmarshal(v, k) == nil {
			return ecdsaWeak(k.GetPublicKey().GetParams())
		}
	}
	return ""
}

var msg = []byte("untrusted keyset self check")
var ctx = []byte("context info")

// selfCheck uses a primitive and checks that it is consistent with itself (or
// with the primitive of its public half).  "" = fine.
func selfCheck(p any, k key.Key, typeURL string) (res string) {
	defer func() {
		if e := recover(); e != nil {
			res = "using the primitive panicked: " + fmt.Sprint(e)
		}
	}()
	pubPrim := func() any {
		pk, ok := k.(interface{ PublicKey() (key.Key, error) })
		if !ok {
			return nil
		}
		pub, err := pk.PublicKey()
		if err != nil {
			return nil
		}
		pp, err, _ := primFromKey(pub)
		if err != nil {
			return nil
		}
		return pp
	}
	switch a := p.(type) {
	case tink.AEAD:
		ct, err := a.Encrypt(msg, ctx)
		if err != nil {
			return "" // refusing to encrypt is not an inconsistency
		}
		pt, err := a.Decrypt(ct, ctx)
		if err != nil || !bytes.Equal(pt, msg) {
			return "AEAD does not decrypt its own ciphertext"
		}
		if _, err := a.Decrypt(ct, []byte("other")); err == nil {
			return "AEAD accepts its ciphertext under other associated data"
		}
		a.Decrypt(ct[:len(ct)/2], ctx)
		a.Decrypt(nil, nil)
	case tink.DeterministicAEAD:
		ct, err := a.EncryptDeterministically(msg, ctx)
		if err != nil {
			return ""
		}
		pt, err := a.DecryptDeterministically(ct, ctx)
		if err != nil || !bytes.Equal(pt, msg) {
			return "DAEAD does not decrypt its own ciphertext"
		}
		a.DecryptDeterministically(ct[:len(ct)/2], ctx)
		a.DecryptDeterministically(nil, nil)
	case tink.MAC:
		tag, err := a.ComputeMAC(msg)
		if err != nil {
			return ""
		}
		if a.VerifyMAC(tag, msg) != nil {
			return "MAC does not verify its own tag"
		}
		if a.VerifyMAC(tag, ctx) == nil {
			return "MAC verifies its tag for another message"
		}
		a.VerifyMAC(nil, msg)
	case tink.Signer:
		sig, err := a.Sign(msg)
		if err != nil {
			return ""
		}
		if strings.HasSuffix(typeURL, ".SlhDsaPrivateKey") {
			return "" // the private key format embeds the public part (excepted by the property)
		}
		if v, ok := pubPrim().(tink.Verifier); ok {
			if v.Verify(sig, msg) != nil {
				return "signature does not verify under the public half of the key"
			}
			if v.Verify(sig, ctx) == nil {
				return "signature verifies for another message"
			}
		} else {
			return "no verifier for the public half of a private key"
		}
	case tink.Verifier:
		a.Verify(nil, msg)
		a.Verify(msg, msg)
	case prf.PRF:
		o1, err := a.ComputePRF(msg, 16)
		if err != nil {
			return ""
		}
		o2, err := a.ComputePRF(msg, 16)
		if err != nil || !bytes.Equal(o1, o2) || len(o1) != 16 {
			return "PRF is not a function"
		}
	case tink.HybridDecrypt:
		if he, ok := pubPrim().(tink.HybridEncrypt); ok {
			ct, err := he.Encrypt(msg, ctx)
			if err != nil {
				return ""
			}
			pt, err := a.Decrypt(ct, ctx)
			if err != nil || !bytes.Equal(pt, msg) {
				return "hybrid decryption does not invert encryption under the public half"
			}
		} else {
			return "no HybridEncrypt for the public half of a private key"
		}
		a.Decrypt(nil, nil)
		a.Decrypt(msg, ctx)
	case tink.HybridEncrypt:
		a.Encrypt(msg, ctx)
	case interface {
		DeriveKey([]byte) (key.Key, error)
	}:
		// the deriver is a function of the salt; a derived key must give a primitive or an error, not a panic
		if hugeTemplate(k) {
			return "" // make([]byte, KeySizeInBytes()) with a size of gigabytes: exercised by the deriver-huge-* cases only through parsing
		}
		k1, err := a.DeriveKey(msg)
		if err != nil {
			return ""
		}
		k2, err := a.DeriveKey(msg)
		if err != nil || !k1.Equal(k2) {
			return "key derivation is not a function of the salt"
		}
		if _, _, pn := primFromKey(k1); pn != "" {
			return "primitive constructor of a derived key panicked: " + pn
		}
	case tink.StreamingAEAD:
		var buf bytes.Buffer
		w, err := a.NewEncryptingWriter(&buf, ctx)
		if err != nil {
			return ""
		}
		if _, err := w.Write(msg); err != nil {
			return ""
		}
		if err := w.Close(); err != nil {
			return ""
		}
		rd, err := a.NewDecryptingReader(bytes.NewReader(buf.Bytes()), ctx)
		if err != nil {
			return "streaming AEAD does not open its own ciphertext"
		}
		pt, err := io.ReadAll(rd)
		if err != nil || !bytes.Equal(pt, msg) {
			return "streaming AEAD does not decrypt its own ciphertext"
		}
	}
	return ""
}

// deriverMustReject: an independent reading (generated proto types only) of what
// an accepted PRF-based deriver key must satisfy: version 0, labelled SYMMETRIC,
// a PRF key of one of the three PRF types, a derived key template that carries
// the key's own output prefix type.
func deriverMustReject(kd *tinkpb.KeyData, prefix tinkpb.OutputPrefixType) string {
	if kd.GetTypeUrl() != tp+"PrfBasedDeriverKey" {
		return ""
	}
	k := &prfderpb.PrfBasedDeriverKey{}
	if proto.Unmarshal(kd.GetValue(), k) != nil {
		return "its value is not a PrfBasedDeriverKey message"
	}
	if k.GetVersion() != 0 {
		return fmt.Sprintf("its version is %d", k.GetVersion())
	}
	if kd.GetKeyMaterialType() != tinkpb.KeyData_SYMMETRIC {
		return fmt.Sprintf("its material type is %v", kd.GetKeyMaterialType())
	}
	switch k.GetPrfKey().GetTypeUrl() {
	case tp + "HkdfPrfKey", tp + "HmacPrfKey", tp + "AesCmacPrfKey":
	default:
		return "its PRF key is of type " + k.GetPrfKey().GetTypeUrl()
	}
	if k.GetParams().GetDerivedKeyTemplate().GetOutputPrefixType() != prefix {
		return fmt.Sprintf("its template has prefix type %v, the key %v", k.GetParams().GetDerivedKeyTemplate().GetOutputPrefixType(), prefix)
	}
	return ""
}

// hugeTemplate: the derived-key parameters ask for a key of more than 1 MiB
// (the parameters parsers have no upper bound on key_size; deriving allocates
// the whole buffer before the PRF output runs out).
func hugeTemplate(k key.Key) bool {
	dk, ok := k.(*prfbasedkeyderivation.Key)
	if !ok {
		return false
	}
	ps, ok := dk.Parameters().(*prfbasedkeyderivation.Parameters)
	if !ok {
		return false
	}
	type sized interface{ KeySizeInBytes() int }
	if s, ok := ps.DerivedKeyParameters().(sized); ok && s.KeySizeInBytes() > 1<<20 {
		return true
	}
	return false
}

func strp(s string) *string { return &s }

// factories creates the wrapped primitives from the handle through every
// public factory and uses those that are created.
func factories(h *keyset.Handle) (res string) {
	defer func() {
		if e := recover(); e != nil {
			res = "factory or wrapped primitive panicked: " + fmt.Sprint(e)
		}
	}()
	if a, err := aead.New(h); err == nil {
		if ct, err := a.Encrypt(msg, ctx); err == nil {
			if pt, err := a.Decrypt(ct, ctx); err != nil || !bytes.Equal(pt, msg) {
				return "aead.New: no round trip"
			}
		}
		a.Decrypt(msg, ctx)
	}
	if a, err := daead.New(h); err == nil {
		if ct, err := a.EncryptDeterministically(msg, ctx); err == nil {
			if pt, err := a.DecryptDeterministically(ct, ctx); err != nil || !bytes.Equal(pt, msg) {
				return "daead.New: no round trip"
			}
		}
	}
	if a, err := mac.New(h); err == nil {
		if tag, err := a.ComputeMAC(msg); err == nil {
			if a.VerifyMAC(tag, msg) != nil {
				return "mac.New: own tag rejected"
			}
		}
		a.VerifyMAC(msg, msg)
	}
	if a, err := prf.NewPRFSet(h); err == nil {
		a.ComputePrimaryPRF(msg, 16)
	}
	if s, err := signature.NewSigner(h); err == nil {
		if sig, err := s.Sign(msg); err == nil {
			if pub, err := h.Public(); err == nil {
				if v, err := signature.NewVerifier(pub); err == nil {
					prim, _ := h.Primary()
					slh := false
					if prim != nil {
						for i, ki := range h.KeysetInfo().GetKeyInfo() {
							if e, _ := h.Entry(i); e != nil && e.IsPrimary() && strings.HasSuffix(ki.GetTypeUrl(), ".SlhDsaPrivateKey") {
								slh = true
							}
						}
					}
					if v.Verify(sig, msg) != nil && !slh {
						return "signature.NewSigner: signature rejected by the verifier of the public keyset"
					}
				}
			}
		}
	}
	if v, err := signature.NewVerifier(h); err == nil {
		v.Verify(msg, msg)
	}
	if d, err := hybrid.NewHybridDecrypt(h); err == nil {
		if pub, err := h.Public(); err == nil {
			if e, err := hybrid.NewHybridEncrypt(pub); err == nil {
				if ct, err := e.Encrypt(msg, ctx); err == nil {
					if pt, err := d.Decrypt(ct, ctx); err != nil || !bytes.Equal(pt, msg) {
						return "hybrid: no round trip"
					}
				}
			}
		}
		d.Decrypt(msg, ctx)
	}
	if e, err := hybrid.NewHybridEncrypt(h); err == nil {
		e.Encrypt(msg, ctx)
	}
	if a, err := streamingaead.New(h); err == nil {
		var buf bytes.Buffer
		if w, err := a.NewEncryptingWriter(&buf, ctx); err == nil {
			w.Write(msg)
			if w.Close() == nil {
				if rd, err := a.NewDecryptingReader(bytes.NewReader(buf.Bytes()), ctx); err == nil {
					if pt, err := io.ReadAll(rd); err != nil || !bytes.Equal(pt, msg) {
						return "streamingaead.New: no round trip"
					}
				}
			}
		}
	}
	exp := time.Now().Add(time.Hour)
	raw, _ := jwt.NewRawJWT(&jwt.RawJWTOptions{Issuer: strp("verif"), ExpiresAt: &exp})
	val, _ := jwt.NewValidator(&jwt.ValidatorOpts{ExpectedIssuer: strp("verif")})
	if m, err := jwt.NewMAC(h); err == nil && raw != nil {
		if tok, err := m.ComputeMACAndEncode(raw); err == nil {
			if _, err := m.VerifyMACAndDecode(tok, val); err != nil {
				return "jwt.NewMAC: own token rejected"
			}
		}
	}
	if s, err := jwt.NewSigner(h); err == nil && raw != nil {
		if tok, err := s.SignAndEncode(raw); err == nil {
			if pub, err := h.Public(); err == nil {
				if v, err := jwt.NewVerifier(pub); err == nil {
					if _, err := v.VerifyAndDecode(tok, val); err != nil {
						return "jwt.NewSigner: token rejected by the verifier of the public keyset"
					}
				}
			}
		}
	}
	if v, err := jwt.NewVerifier(h); err == nil {
		v.VerifyAndDecode("a.b.c", val)
	}
	huge := false
	for i := 0; i < h.Len(); i++ {
		if e, err := h.Entry(i); err == nil && hugeTemplate(e.Key()) {
			huge = true
		}
	}
	if d, err := keyderivation.New(h); err == nil && !huge {
		if dh, err := d.DeriveKeyset(msg); err == nil {
			if w := wellFormed(dh); w != "" {
				return "derived keyset: " + w
			}
		}
	}
	return ""
}

func c14Check(in, obs string) string {
	if strings.HasPrefix(obs, "PANIC") {
		return obs
	}
	if strings.Contains(obs, ".!") {
		return "creating a primitive from an accepted key panicked"
	}
	if strings.HasPrefix(in, "P|") {
		return checkParams(strings.Split(in, "|")[1])
	}
	r := execute(in)
	if f := strings.Split(in, "|"); (f[0] == "J" || f[0] == "F") && strings.Contains(f[len(f)-1], ":R~") {
		// JSON text that protojson must refuse by construction (unknown / duplicate field, wrong JSON type,
		// uint32 out of range, unknown enum name, bad base64 character, syntax): no reader may return a handle
		for i, h := range r.handles {
			if r.errs[i] == nil && h != nil {
				return fmt.Sprintf("path %s: a handle was returned for a JSON text that must be refused (%s)", r.paths[i], f[len(f)-1])
			}
		}
	}
	if f := strings.Split(in, "|"); (f[0] == "J" && strings.Contains(f[len(f)-1], ":A~") && f[2] == "X") ||
		(f[0] == "F" && strings.Contains(f[len(f)-1], ":A~") && f[4] == "X") {
		// the dangling exponent marker on an integer / enum field: protobuf-go reads the text (leniency of its
		// integer path, not JSON and not a Tink rule); the line records that protojson refused it
		return "a JSON text protojson reads by construction (dangling exponent marker) was refused: " + f[len(f)-1]
	}
	must := "undecodable input"
	if r.decoded {
		must = mustReject(r.ks)
	}
	if r.wantErr != "" {
		must = r.wantErr
	}
	for i, h := range r.handles {
		if r.errs[i] != nil || h == nil {
			continue
		}
		if must != "" {
			return fmt.Sprintf("path %s: handle returned although the input must be rejected (%s)", r.paths[i], must)
		}
		if w := wellFormed(h); w != "" {
			return fmt.Sprintf("path %s: ill-formed handle: %s", r.paths[i], w)
		}
		if h.Len() != len(r.ks.GetKey()) {
			return fmt.Sprintf("path %s: handle has %d keys, keyset %d", r.paths[i], h.Len(), len(r.ks.GetKey()))
		}
		if i > 0 && r.handles[0] != nil {
			continue // primitives are exercised once per case
		}
		info := h.KeysetInfo()
		for j := 0; j < h.Len(); j++ {
			e, _ := h.Entry(j)
			kd := r.ks.GetKey()[j].GetKeyData()
			if info.GetKeyInfo()[j].GetTypeUrl() != kd.GetTypeUrl() || e.KeyID() != r.ks.GetKey()[j].GetKeyId() {
				return fmt.Sprintf("path %s: entry %d does not correspond to key %d of the keyset", r.paths[i], j, j)
			}
			if req, has := e.Key().IDRequirement(); r.ks.GetKey()[j].GetOutputPrefixType() == tinkpb.OutputPrefixType_RAW && (has || req != 0) {
				return fmt.Sprintf("entry %d: RAW key with an id requirement", j)
			}
			if w := deriverMustReject(kd, r.ks.GetKey()[j].GetOutputPrefixType()); w != "" {
				return fmt.Sprintf("entry %d: a PRF-based deriver key was accepted although %s", j, w)
			}
			p, err, pn := primFromKey(e.Key())
			if pn != "" {
				return fmt.Sprintf("entry %d (%s): primitive constructor panicked: %s", j, kd.GetTypeUrl(), pn)
			}
			if err != nil {
				continue
			}
			if w := weakKey(kd); w != "" {
				return fmt.Sprintf("weak-key: entry %d (%s): %s, yet a primitive is created", j, strings.TrimPrefix(kd.GetTypeUrl(), tp), w)
			}
			if strings.HasSuffix(kd.GetTypeUrl(), ".SlhDsaPrivateKey") && !strings.Contains(in, "sign-slh") && len(in)%7 != 0 {
				continue // SLH-DSA signing is slow: exercised on a fraction of the cases
			}
			if w := selfCheck(p, e.Key(), kd.GetTypeUrl()); w != "" {
				return fmt.Sprintf("entry %d (%s): %s", j, strings.TrimPrefix(kd.GetTypeUrl(), tp), w)
			}
		}
		slh := false
		for _, ki := range info.GetKeyInfo() {
			if strings.HasSuffix(ki.GetTypeUrl(), ".SlhDsaPrivateKey") {
				slh = true
			}
		}
		if !slh || len(in)%7 == 0 {
			if w := factories(h); w != "" {
				return w
			}
		}
	}
	return ""
}

func c14Class(in, obs string) string {
	f := strings.Split(in, "|")
	label := f[len(f)-1]
	if i := strings.Index(label, "~"); i > 0 && strings.HasPrefix(label, "jt-") {
		label = label[:i] // JSON text layer: one class per (kind, family, outcome)
	}
	o := "err"
	switch {
	case obs == "U":
		o = "U"
	case strings.HasPrefix(obs, "p:") && obs != "p:err":
		o = "ok"
	case strings.HasPrefix(obs, "PANIC"):
		o = "panic"
	case strings.Contains(obs, "h["):
		o = "ok"
		if strings.Contains(obs, ".-") {
			o = "ok-noprim"
		}
	}
	return f[0] + ":" + label + ":" + o
}

func init() {
	hx.Register("C14", &hx.Prop{Gen: c14Gen, Run: c14Run, Check: c14Check, Class: c14Class})
}

var _ = protowire.AppendVarint
