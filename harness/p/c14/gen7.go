package c14

import (
	"fmt"
	"strings"

	"github.com/tink-crypto/tink-go/v2/verifharness/hx"
)

// directedPrefix5: OutputPrefixType WITH_ID_REQUIREMENT (5), which
// keyset.Validate accepts since /repo 4b80d2c.  On an ML-DSA public / private
// key it is the variant NoPrefixWithPrehashID: accepted and usable.  On every
// other registered type the key's own parser refuses it (the streaming AEAD
// parsers never look at the prefix type and accept), on an unregistered type
// URL the fallback key refuses it (calculateOutputPrefix) - an error, never a
// panic.  The id requirement of a prefix-5 key is the key id (5 is not RAW):
// ids 0, small, 2^32-1; alone, as primary and as a secondary key.
func directedPrefix5() []string {
	var lines []string
	byName := map[string]bankKey{}
	for _, b := range bank {
		byName[b.name] = b
	}
	names := []string{"MLDSA65/pub", "MLDSA44Raw/pub", "MLDSA65", "MLDSA44Raw", "JWT_MLDSA65/pub", "JWT_MLDSA65",
		"AES128GCMSIV", "HMAC256T128", "AESCMAC", "HKDF256PRF", "ECDSAP256/pub", "ECDSAP256", "ED25519/pub", "ED25519",
		"RSAPKCS1_2048/pub", "SLHDSA_SHA2_128s/pub", "SLHDSA_SHA2_128s", "HPKE_P256_AES128/pub", "ECIES_AES128GCM/pub",
		"STREAM_GCMHKDF4KB", "STREAM_CTRHMAC4KB", "JWT_HS256", "JWT_ES256/pub", "COMPOSITE_ED25519_MLDSA65/pub", "DERIVER_HKDF_AES128GCM"}
	ids := []uint64{0, 5, 1<<32 - 1}
	for i, n := range names {
		bk, ok := byName[n]
		if !ok {
			panic("c14 bank has no key " + n)
		}
		id := ids[i%len(ids)]
		k := toMKey(bk, id, 1)
		k.Prefix = 5
		short := strings.TrimPrefix(k.URL, tp)
		// alone (primary)
		ks := &mKeyset{Primary: id, Keys: []mKey{k}}
		lines = append(lines, "B|"+hx.H(ks.Marshal())+"|prefix5-alone:"+short)
		// as a secondary key beside a TINK primary of the same class
		p := toMKey(bk, 77, 1)
		ks2 := &mKeyset{Primary: 77, Keys: []mKey{p, k}}
		lines = append(lines, "B|"+hx.H(ks2.Marshal())+"|prefix5-secondary:"+short)
		// the same through the proto-message API and the no-secrets readers (M line, no nil injection)
		lines = append(lines, "M|"+hx.H(ks.Marshal())+"|-|prefix5-msg:"+short)
	}
	// an unregistered type URL: the fallback key does not know prefix 5
	for _, mat := range []uint64{1, 2, 3, 4} {
		k := mKey{URL: "type.googleapis.com/example.UnknownKey", Value: []byte{1, 2, 3, 4, 5, 6, 7, 8, 9}, Mat: mat, Status: 1, ID: 9, Prefix: 5}
		ks := &mKeyset{Primary: 9, Keys: []mKey{k}}
		lines = append(lines, "B|"+hx.H(ks.Marshal())+fmt.Sprintf("|prefix5-unregistered-mat%d:example.UnknownKey", mat))
	}
	return lines
}
