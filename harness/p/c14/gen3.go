package c14

import (
	"crypto/ecdh"
	"crypto/mlkem"
	"crypto/sha3"

	"github.com/tink-crypto/tink-go/v2/verifharness/hx"
	"google.golang.org/protobuf/proto"

	ctrpb "github.com/tink-crypto/tink-go/v2/proto/aes_ctr_go_proto"
	ctrhmacpb "github.com/tink-crypto/tink-go/v2/proto/aes_ctr_hmac_aead_go_proto"
	gcmpb "github.com/tink-crypto/tink-go/v2/proto/aes_gcm_go_proto"
	gcmsivpb "github.com/tink-crypto/tink-go/v2/proto/aes_gcm_siv_go_proto"
	sivpb "github.com/tink-crypto/tink-go/v2/proto/aes_siv_go_proto"
	commonpb "github.com/tink-crypto/tink-go/v2/proto/common_go_proto"
	eciespb "github.com/tink-crypto/tink-go/v2/proto/ecies_aead_hkdf_go_proto"
	hmacpb "github.com/tink-crypto/tink-go/v2/proto/hmac_go_proto"
	hpkepb "github.com/tink-crypto/tink-go/v2/proto/hpke_go_proto"
	tinkpb "github.com/tink-crypto/tink-go/v2/proto/tink_go_proto"
	xchachapb "github.com/tink-crypto/tink-go/v2/proto/xchacha20_poly1305_go_proto"
)

// ecKeyPair makes a key pair of crypto/ecdh from generator randomness.
func ecKeyPair(r *hx.Rng, c ecdh.Curve, size int) (priv, pub []byte) {
	for {
		d := r.Bytes(size)
		if size == 66 {
			d[0] &= 1
		}
		sk, err := c.NewPrivateKey(d)
		if err != nil {
			continue
		}
		return d, sk.PublicKey().Bytes()
	}
}

var nistCurves = []struct {
	id   commonpb.EllipticCurveType
	c    ecdh.Curve
	size int
}{{commonpb.EllipticCurveType_NIST_P256, ecdh.P256(), 32}, {commonpb.EllipticCurveType_NIST_P384, ecdh.P384(), 48}, {commonpb.EllipticCurveType_NIST_P521, ecdh.P521(), 66}}

// demTemplate draws a DEM key template around the six parameter sets ECIES allows.
func demTemplate(r *hx.Rng) (*tinkpb.KeyTemplate, string) {
	t := func(url string, m proto.Message) *tinkpb.KeyTemplate {
		return &tinkpb.KeyTemplate{TypeUrl: tp + url, Value: mustMarshal(m), OutputPrefixType: hx.PickS(r, []tinkpb.OutputPrefixType{1, 1, 3, 2, 0, 9})}
	}
	ctrhmac := func(aes, iv, hk, tag uint32, h commonpb.HashType, hv uint32) *tinkpb.KeyTemplate {
		return t("AesCtrHmacAeadKey", &ctrhmacpb.AesCtrHmacAeadKeyFormat{
			AesCtrKeyFormat: &ctrpb.AesCtrKeyFormat{KeySize: aes, Params: &ctrpb.AesCtrParams{IvSize: iv}},
			HmacKeyFormat:   &hmacpb.HmacKeyFormat{KeySize: hk, Version: hv, Params: &hmacpb.HmacParams{Hash: h, TagSize: tag}}})
	}
	switch pick(r, 22) {
	case 0, 1:
		return t("AesGcmKey", &gcmpb.AesGcmKeyFormat{KeySize: 16}), "gcm16"
	case 2:
		return t("AesGcmKey", &gcmpb.AesGcmKeyFormat{KeySize: 32}), "gcm32"
	case 3:
		return t("AesGcmKey", &gcmpb.AesGcmKeyFormat{KeySize: hx.PickS(r, []uint32{0, 15, 24, 33, 1<<32 - 16})}), "gcm-size"
	case 4:
		return t("AesGcmKey", &gcmpb.AesGcmKeyFormat{KeySize: 16, Version: 1}), "gcm-version"
	case 5:
		return t("AesSivKey", &sivpb.AesSivKeyFormat{KeySize: 64}), "siv64"
	case 6:
		return t("AesSivKey", &sivpb.AesSivKeyFormat{KeySize: hx.PickS(r, []uint32{0, 32, 48, 65}), Version: hx.PickS(r, []uint32{0, 0, 1})}), "siv-other"
	case 7:
		return t("XChaCha20Poly1305Key", &xchachapb.XChaCha20Poly1305KeyFormat{}), "xchacha"
	case 8:
		return t("XChaCha20Poly1305Key", &xchachapb.XChaCha20Poly1305KeyFormat{Version: 1}), "xchacha-version"
	case 9:
		return ctrhmac(16, 16, 32, 16, commonpb.HashType_SHA256, 0), "ctrhmac128"
	case 10:
		return ctrhmac(32, 16, 32, 32, commonpb.HashType_SHA256, 0), "ctrhmac256"
	case 11:
		return ctrhmac(hx.PickS(r, []uint32{16, 24, 32}), hx.PickS(r, []uint32{12, 16}), hx.PickS(r, []uint32{16, 32}), hx.PickS(r, []uint32{10, 16, 32}),
			hx.PickS(r, []commonpb.HashType{0, 1, 3, 4}), hx.PickS(r, []uint32{0, 0, 0, 1})), "ctrhmac-other"
	case 12:
		return t("AesGcmSivKey", &gcmsivpb.AesGcmSivKeyFormat{KeySize: 16}), "gcmsiv" // has a parameters parser, is not allowed
	case 13:
		return t("HmacKey", &hmacpb.HmacKeyFormat{KeySize: 32, Params: &hmacpb.HmacParams{Hash: commonpb.HashType_SHA256, TagSize: 16}}), "hmac"
	case 14:
		return &tinkpb.KeyTemplate{TypeUrl: hx.PickS(r, []string{"", "x", tp + "AesEaxKey", tp + "AesGcmKey "}), Value: mustMarshal(&gcmpb.AesGcmKeyFormat{KeySize: 16})}, "url-unknown"
	case 15:
		return &tinkpb.KeyTemplate{TypeUrl: tp + hx.PickS(r, []string{"AesGcmKey", "AesSivKey", "XChaCha20Poly1305Key", "AesCtrHmacAeadKey"}), Value: r.Bytes(r.Intn(12))}, "value-garbage"
	case 16:
		return &tinkpb.KeyTemplate{TypeUrl: tp + hx.PickS(r, []string{"AesGcmKey", "AesSivKey", "XChaCha20Poly1305Key", "AesCtrHmacAeadKey"})}, "value-empty"
	case 17:
		return nil, "nil-template"
	}
	return t("AesGcmKey", &gcmpb.AesGcmKeyFormat{KeySize: 16}), "gcm16"
}

// eciesKey builds an ECIES key pair (public message, private scalar) on a
// curve of the generator's choice.
func eciesKey(r *hx.Rng) (*eciespb.EciesAeadHkdfPublicKey, []byte, string) {
	tmpl, dl := demTemplate(r)
	params := &eciespb.EciesAeadHkdfParams{
		KemParams:     &eciespb.EciesHkdfKemParams{HkdfHashType: near(r, hx.PickS(r, []commonpb.HashType{3, 1, 2, 4, 5}), []commonpb.HashType{0, 6}), HkdfSalt: r.Bytes(hx.PickS(r, []int{0, 0, 8}))},
		DemParams:     &eciespb.EciesAeadDemParams{AeadDem: tmpl},
		EcPointFormat: near(r, hx.PickS(r, []commonpb.EcPointFormat{1, 2, 3}), []commonpb.EcPointFormat{0, 4}),
	}
	if !calm && r.Chance(4) {
		params.DemParams = nil
		dl = "nil-dem"
	}
	pub := &eciespb.EciesAeadHkdfPublicKey{Params: params}
	var priv []byte
	if r.Chance(25) {
		params.KemParams.CurveType = commonpb.EllipticCurveType_CURVE25519
		if r.Chance(75) {
			params.EcPointFormat = commonpb.EcPointFormat_COMPRESSED
		}
		var p []byte
		priv, p = ecKeyPair(r, ecdh.X25519(), 32)
		pub.X = p
		if r.Chance(15) {
			pub.Y = r.Bytes(3) // ignored
		}
		dl += "-x25519"
	} else {
		cv := hx.PickS(r, nistCurves)
		params.KemParams.CurveType = cv.id
		var p []byte
		priv, p = ecKeyPair(r, cv.c, cv.size)
		pub.X, pub.Y = p[1:1+cv.size], p[1+cv.size:]
	}
	return pub, priv, dl
}

func eciesTweak(r *hx.Rng, v *eciespb.EciesAeadHkdfPublicKey) string {
	switch pick(r, 16) {
	case 0:
		v.Params.KemParams.CurveType = hx.PickS(r, []commonpb.EllipticCurveType{0, 1, 2, 3, 4, 5, 6})
		return "curve"
	case 1:
		v.X = append([]byte{0, 0}, v.X...)
		v.Y = append([]byte{0}, v.Y...)
		return "leading-zeros"
	case 2:
		v.X = append([]byte{1}, v.X...)
		return "x-too-long"
	case 3:
		if len(v.Y) > 0 {
			v.Y[len(v.Y)-1] ^= 1
			return "off-curve"
		}
		v.X = v.X[:len(v.X)-1]
		return "x-short"
	case 4:
		v.X, v.Y = v.Y, v.X
		return "xy-swapped"
	case 5:
		v.X, v.Y = nil, nil
		return "no-point"
	case 6:
		v.Params.KemParams = nil
		return "no-kem-params"
	case 7:
		v.Params = nil
		return "no-params"
	case 8:
		if len(v.X) > 1 {
			v.X = v.X[1:]
		}
		return "x-shorter"
	}
	return "ok"
}

// xwingPublic: the public key of a 32-byte X-Wing secret, computed with the
// standard library only (SHAKE256, ML-KEM-768, X25519).
func xwingPublic(sk []byte) []byte {
	h := sha3.NewSHAKE256()
	h.Write(sk)
	seed := make([]byte, 64)
	h.Read(seed)
	x := make([]byte, 32)
	h.Read(x)
	dk, err := mlkem.NewDecapsulationKey768(seed)
	if err != nil {
		panic(err)
	}
	xk, err := ecdh.X25519().NewPrivateKey(x)
	if err != nil {
		panic(err)
	}
	return append(dk.EncapsulationKey().Bytes(), xk.PublicKey().Bytes()...)
}

// hpkeKey builds an HPKE key pair for a KEM of the generator's choice.
func hpkeKey(r *hx.Rng) (*hpkepb.HpkePublicKey, []byte, string) {
	params := &hpkepb.HpkeParams{Kdf: near(r, hx.PickS(r, []hpkepb.HpkeKdf{1, 2, 3}), []hpkepb.HpkeKdf{0, 4}), Aead: near(r, hx.PickS(r, []hpkepb.HpkeAead{1, 2, 3}), []hpkepb.HpkeAead{0, 4})}
	pub := &hpkepb.HpkePublicKey{Params: params}
	var priv []byte
	l := ""
	k := hx.PickS(r, []hpkepb.HpkeKem{1, 1, 2, 2, 3, 4, 5, 6, 7})
	params.Kem = k
	switch k {
	case hpkepb.HpkeKem_DHKEM_X25519_HKDF_SHA256:
		priv, pub.PublicKey = ecKeyPair(r, ecdh.X25519(), 32)
		l = "x25519"
	case hpkepb.HpkeKem_DHKEM_P256_HKDF_SHA256, hpkepb.HpkeKem_DHKEM_P384_HKDF_SHA384, hpkepb.HpkeKem_DHKEM_P521_HKDF_SHA512:
		cv := nistCurves[int(k)-2]
		priv, pub.PublicKey = ecKeyPair(r, cv.c, cv.size)
		l = "nist"
	case hpkepb.HpkeKem_X_WING:
		priv = r.Bytes(32)
		pub.PublicKey = xwingPublic(priv)
		l = "xwing"
	case hpkepb.HpkeKem_ML_KEM768:
		priv = r.Bytes(64)
		dk, _ := mlkem.NewDecapsulationKey768(priv)
		pub.PublicKey = dk.EncapsulationKey().Bytes()
		l = "mlkem768"
	default:
		priv = r.Bytes(64)
		dk, _ := mlkem.NewDecapsulationKey1024(priv)
		pub.PublicKey = dk.EncapsulationKey().Bytes()
		l = "mlkem1024"
	}
	return pub, priv, l
}

func hpkeTweak(r *hx.Rng, v *hpkepb.HpkePublicKey, kemOf func() hpkepb.HpkeKem) string {
	switch pick(r, 14) {
	case 0:
		v.Params.Kem = hx.PickS(r, []hpkepb.HpkeKem{0, 1, 2, 3, 4, 5, 6, 7, 8})
		return "kem-other"
	case 1:
		v.PublicKey = append([]byte(nil), v.PublicKey...)
		v.PublicKey[len(v.PublicKey)-1] ^= 1
		return "pub-flip" // off the curve for NIST, another key otherwise
	case 2:
		v.PublicKey = v.PublicKey[:len(v.PublicKey)-1]
		return "pub-short"
	case 3:
		v.PublicKey = append(append([]byte(nil), v.PublicKey...), 0)
		return "pub-long"
	case 4:
		v.PublicKey = nil
		return "pub-empty"
	case 5:
		v.Params = nil
		return "no-params"
	case 6:
		if len(v.PublicKey) > 0 && v.PublicKey[0] == 4 {
			n := (len(v.PublicKey) - 1) / 2
			c := append([]byte{2 + v.PublicKey[len(v.PublicKey)-1]&1}, v.PublicKey[1:1+n]...)
			v.PublicKey = c
			return "pub-compressed"
		}
	}
	return "ok"
}
