package c14

// Keysets with PRF-based deriver keys (PrfBasedDeriverKey { version = 1;
// prf_key = 2 (KeyData); params = 3 { derived_key_template = 1 } }): valid
// ones over every template of the catalogue (params.go) and every PRF key
// type the code allows, and malformed ones.  All built at wire level.

import (
	"fmt"
	"strings"

	"github.com/tink-crypto/tink-go/v2/verifharness/hx"
)

type prfCase struct {
	name string
	kd   []byte // serialized KeyData
}

func keyData(url string, value []byte, mat uint64) []byte {
	return wcat(wb(1, []byte(url)), wb(2, value), wv(3, mat))
}

// prfKeys: KeyData of PRF keys (deterministic bytes).  HkdfPrfKey { version = 1;
// params = 2 { hash = 1; salt = 2 }; key_value = 3 }, HmacPrfKey { version = 1;
// params = 2 { hash = 1 }; key_value = 3 }, AesCmacPrfKey { version = 1; key_value = 2 }.
func prfKeys() []prfCase {
	hkdf := func(hash uint64, n int, salt []byte) []byte {
		p := wv(1, hash)
		if salt != nil {
			p = append(p, wb(2, salt)...)
		}
		return keyData(tp+"HkdfPrfKey", wcat(wv(1, 0), wb(2, p), wb(3, bytesOf(n))), 1)
	}
	return []prfCase{
		{"hkdf256", hkdf(3, 32, nil)},
		{"hkdf512salt", hkdf(4, 64, []byte{1, 2, 3})},
		{"hkdf256-31", hkdf(3, 31, nil)}, // parsed (>= 16), no primitive (< 32)
		{"hkdf256-16", hkdf(3, 16, nil)},
		{"hkdf256-15", hkdf(3, 15, nil)}, // refused by the PRF key parser
		{"hkdf1", hkdf(1, 32, nil)},      // parsed, no primitive (SHA1)
		{"hkdf384", hkdf(2, 48, nil)},
		{"hmacprf", keyData(tp+"HmacPrfKey", wcat(wv(1, 0), wm(2, wv(1, 3)), wb(3, bytesOf(32))), 1)},
		{"cmacprf", keyData(tp+"AesCmacPrfKey", wcat(wv(1, 0), wb(2, bytesOf(32))), 1)},
	}
}

func deriverValue(version uint64, prfKD []byte, tmpl []byte) []byte {
	out := wv(1, version)
	if prfKD != nil {
		out = append(out, wb(2, prfKD)...)
	}
	if tmpl != nil {
		out = append(out, wm(3, wb(1, tmpl))...)
	}
	return out
}

func deriverLine(value []byte, mat, prefix uint64, label, name string) string {
	ks := &mKeyset{Primary: 77, Keys: []mKey{{URL: tp + "PrfBasedDeriverKey", Value: value, Mat: mat, Status: 1, ID: 77, Prefix: prefix}}}
	return "B|" + hx.H(ks.Marshal()) + "|" + label + ":" + name
}

// directedDeriver: step thins the mutation part (quick tier).
func directedDeriver(step int) []string {
	var lines []string
	prfs := prfKeys()
	ts := templates()
	// valid: every template x every accepted prefix with the HKDF-SHA256 key; the other PRF keys with the first prefix
	for _, tc := range ts {
		for _, p := range tc.prefixes {
			lines = append(lines, deriverLine(deriverValue(0, prfs[0].kd, tmplBytes(tc.url, tc.value, p)), 1, p, "deriver-valid-"+prfs[0].name+fmt.Sprintf("-p%d", p), tc.name))
		}
		for _, pk := range prfs[1:] {
			p := tc.prefixes[len(tc.prefixes)-1]
			lines = append(lines, deriverLine(deriverValue(0, pk.kd, tmplBytes(tc.url, tc.value, p)), 1, p, "deriver-valid-"+pk.name, tc.name))
		}
	}
	byName := map[string]tmplCase{}
	for _, tc := range ts {
		byName[tc.name] = tc
	}
	// mismatched prefix types: key prefix x template prefix
	for _, nm := range []string{"AesGcm32", "MlDsa65", "HkdfPrf", "DeriverOfDeriver"} {
		tc := byName[nm]
		for kp := uint64(0); kp <= 6; kp++ {
			for tpfx := uint64(0); tpfx <= 6; tpfx++ {
				lines = append(lines, deriverLine(deriverValue(0, prfs[0].kd, tmplBytes(tc.url, tc.value, tpfx)), 1, kp, fmt.Sprintf("deriver-prefix-k%d-t%d", kp, tpfx), tc.name))
			}
		}
	}
	gcm := tmplBytes(tp+"AesGcmKey", gcm32, pTink)
	// versions, material types
	for _, v := range []uint64{1, 2, 1 << 31, 1 << 32, 1<<32 + 1} {
		lines = append(lines, deriverLine(deriverValue(v, prfs[0].kd, gcm), 1, pTink, fmt.Sprintf("deriver-version-%d", v), "AesGcm32"))
	}
	for _, m := range []uint64{0, 2, 3, 4, 5} {
		lines = append(lines, deriverLine(deriverValue(0, prfs[0].kd, gcm), m, pTink, fmt.Sprintf("deriver-material-%d", m), "AesGcm32"))
	}
	// absent parts
	lines = append(lines, deriverLine(deriverValue(0, nil, gcm), 1, pTink, "deriver-no-prf-key", "AesGcm32"))
	lines = append(lines, deriverLine(deriverValue(0, prfs[0].kd, nil), 1, pTink, "deriver-no-params", "none"))
	lines = append(lines, deriverLine(wcat(wv(1, 0), wb(2, prfs[0].kd), wb(3, nil)), 1, pTink, "deriver-empty-params", "none"))
	lines = append(lines, deriverLine(wcat(wv(1, 0), wb(2, prfs[0].kd), wm(3, wb(1, nil))), 1, pTink, "deriver-empty-template", "none"))
	lines = append(lines, deriverLine(nil, 1, pTink, "deriver-empty-value", "none"))
	lines = append(lines, deriverLine(nil, 1, 0, "deriver-empty-value-prefix0", "none"))
	// the PRF key is a key of another type (its parser runs, NewParameters refuses): every bank key, incl. the deriver key itself
	for _, bk := range bank {
		kd := bk.key.GetKeyData()
		lines = append(lines, deriverLine(deriverValue(0, keyData(kd.GetTypeUrl(), kd.GetValue(), uint64(kd.GetKeyMaterialType())), gcm), 1, pTink, "deriver-prf-is", bk.name))
	}
	// nested deriver inside a deriver inside a deriver
	inner := deriverValue(0, prfs[0].kd, tmplBytes(tp+"AesGcmKey", gcm32, pRaw))
	mid := deriverValue(0, keyData(tp+"PrfBasedDeriverKey", inner, 1), tmplBytes(tp+"AesGcmKey", gcm32, pRaw))
	lines = append(lines, deriverLine(deriverValue(0, keyData(tp+"PrfBasedDeriverKey", mid, 1), gcm), 1, pTink, "deriver-nested-3", "AesGcm32"))
	// unknown / unregistered PRF key URL, wrong material type of the PRF key, PRF key of a private-labelled unknown type
	lines = append(lines, deriverLine(deriverValue(0, keyData("type.googleapis.com/example.Unknown", []byte{1, 2, 3}, 1), gcm), 1, pTink, "deriver-prf-unknown-url", "AesGcm32"))
	lines = append(lines, deriverLine(deriverValue(0, keyData("type.googleapis.com/example.Unknown", []byte{1, 2, 3}, 2), gcm), 1, pTink, "deriver-prf-unknown-private", "AesGcm32"))
	lines = append(lines, deriverLine(deriverValue(0, keyData("", nil, 0), gcm), 1, pTink, "deriver-prf-empty-keydata", "AesGcm32"))
	// templates without a parameters parser
	for _, u := range []string{tp + "EcdsaPublicKey", tp + "KmsAeadKey", "type.googleapis.com/example.Unknown", "", tp + "AesEaxKey"} {
		lines = append(lines, deriverLine(deriverValue(0, prfs[0].kd, tmplBytes(u, gcm32, pTink)), 1, pTink, "deriver-template-no-parser", strings.TrimPrefix(u, tp)))
	}
	// huge sizes in the nested format (accepted by the parameters parsers: no upper bound): key_size 2^31, 2^32-1
	for _, sz := range []uint64{1 << 20, 1 << 31, 1<<32 - 1, 1 << 32, 1<<32 + 32} {
		hm := wcat(wm(1, wv(1, 3), wv(2, 16)), wv(2, sz), wv(3, 0))
		lines = append(lines, deriverLine(deriverValue(0, prfs[0].kd, tmplBytes(tp+"HmacKey", hm, pTink)), 1, pTink, fmt.Sprintf("deriver-huge-hmac-%d", sz), "Hmac"))
		hk := wcat(wm(1, wv(1, 3)), wv(2, sz), wv(3, 0))
		lines = append(lines, deriverLine(deriverValue(0, prfs[0].kd, tmplBytes(tp+"HkdfPrfKey", hk, pRaw)), 1, pRaw, fmt.Sprintf("deriver-huge-hkdf-%d", sz), "HkdfPrf"))
		st := wcat(wv(3, 0), wm(1, wv(1, 4096), wv(2, 16), wv(3, 3)), wv(2, sz))
		lines = append(lines, deriverLine(deriverValue(0, prfs[0].kd, tmplBytes(tp+"AesGcmHkdfStreamingKey", st, pRaw)), 1, pRaw, fmt.Sprintf("deriver-huge-stream-%d", sz), "StreamGcmHkdf"))
	}
	// one-thing-wrong variants of whole deriver key values, all nesting levels
	n := 0
	for _, nm := range []string{"AesGcm32", "Ed25519", "EciesP256Gcm", "DeriverOfDeriver"} {
		tc := byName[nm]
		p := tc.prefixes[0]
		root := deriverValue(0, prfs[1].kd, tmplBytes(tc.url, tc.value, p))
		walkMutations(root, 7, []uint64{0, 1, 2, 3, 4, 5, 15, 16, 17, 31, 32, 33, 1<<31 - 1, 1 << 31, 1<<32 - 1, 1 << 32, 1<<32 + 1, 1 << 63, 1<<64 - 1}, func(v []byte, label string) {
			n++
			if step > 1 && n%step != 0 {
				return
			}
			lines = append(lines, deriverLine(v, 1, p, "deriver-"+label, tc.name))
		})
	}
	// two deriver keys and a non-deriver key in one keyset; deriver key through the proto-message API and encrypted
	k1 := mKey{URL: tp + "PrfBasedDeriverKey", Value: deriverValue(0, prfs[0].kd, gcm), Mat: 1, Status: 1, ID: 5, Prefix: pTink}
	k2 := mKey{URL: tp + "PrfBasedDeriverKey", Value: deriverValue(0, prfs[1].kd, tmplBytes(tp+"Ed25519PrivateKey", wv(1, 0), pRaw)), Mat: 1, Status: 2, ID: 6, Prefix: pRaw}
	k3 := toMKey(bank[0], 7, 1)
	ks := &mKeyset{Primary: 5, Keys: []mKey{k1, k2, k3}}
	lines = append(lines, "B|"+hx.H(ks.Marshal())+"|deriver-three-keys:AesGcm32")
	for _, inj := range []string{"-", "d0", "k1"} {
		lines = append(lines, "M|"+hx.H(ks.Marshal())+"|"+inj+"|deriver-msg-"+inj+":AesGcm32")
	}
	kek := bytesOf(16)
	ct := stdlibSeal(kek, bytesOf(12), ks.Marshal(), nil)
	lines = append(lines, "E|"+hx.H(kek)+"|-|"+hx.H(appBytes(nil, 2, ct))+"|deriver-enc:AesGcm32")
	return lines
}

// randomDeriver: a deriver key over a random template and PRF key, with a
// random mutation somewhere in its value (60%), in a keyset of one or two keys.
func randomDeriver(r *hx.Rng) string {
	ts := templates()
	tc := ts[r.Intn(len(ts))]
	prfs := prfKeys()
	pk := prfs[r.Intn(len(prfs))]
	p := hx.PickS(r, tc.prefixes)
	kp := p
	if r.Chance(10) {
		kp = uint64(1 + r.Intn(5))
	}
	tv, label := tc.value, "valid"
	if r.Chance(30) {
		tv, label = mutateValue(r, tc.value, 3)
		label = "tmpl-" + label
	}
	v := deriverValue(0, pk.kd, tmplBytes(tc.url, tv, p))
	if r.Chance(40) {
		v, label = mutateValue(r, v, 5)
	}
	ks := &mKeyset{Primary: 77, Keys: []mKey{{URL: tp + "PrfBasedDeriverKey", Value: v, Mat: 1, Status: 1, ID: 77, Prefix: kp}}}
	if r.Chance(30) {
		ks.Keys = append(ks.Keys, toMKey(pickBank(r, 100), 78, hx.PickS(r, []uint64{1, 2, 3})))
	}
	return "B|" + hx.H(ks.Marshal()) + "|rderiver-" + label + ":" + tc.name
}
