package c14

import (
	"github.com/tink-crypto/tink-go/v2/verifharness/hx"
	"google.golang.org/protobuf/encoding/protowire"
)

// mKey / mKeyset: a Keyset message under the generator's control down to the
// wire: out-of-range enum values, missing key data, repeated singular fields,
// unknown fields.  Marshal writes plain protobuf wire format.
type mKey struct {
	NoData bool   // omit the key_data field (nil KeyData)
	URL    string // KeyData.type_url
	Value  []byte // KeyData.value
	Mat    uint64 // KeyData.key_material_type
	Status uint64
	ID     uint64
	Prefix uint64
	Split  bool   // key_data written in two pieces (merged by the decoder)
	Extra  []byte // raw bytes appended inside the Key message
	DExtra []byte // raw bytes appended inside the KeyData message
}

type mKeyset struct {
	Primary      uint64
	Keys         []mKey
	Extra        []byte // raw bytes appended to the Keyset message
	PrimaryFirst bool   // primary_key_id also written first with another value (last wins)
}

func protoNum(n int) protowire.Number { return protowire.Number(n) }

func appVar(b []byte, num protowire.Number, v uint64) []byte {
	b = protowire.AppendTag(b, num, protowire.VarintType)
	return protowire.AppendVarint(b, v)
}
func appBytes(b []byte, num protowire.Number, v []byte) []byte {
	b = protowire.AppendTag(b, num, protowire.BytesType)
	return protowire.AppendBytes(b, v)
}

func (k *mKey) marshal() []byte {
	var out []byte
	if !k.NoData {
		if k.Split {
			var d1, d2 []byte
			d1 = appBytes(d1, 1, []byte(k.URL))
			d1 = appVar(d1, 3, k.Mat^1) // overwritten by the second piece
			d2 = appBytes(d2, 2, k.Value)
			if k.Mat != 0 {
				d2 = appVar(d2, 3, k.Mat)
			} else {
				d2 = appVar(d2, 3, 0)
			}
			d2 = append(d2, k.DExtra...)
			out = appBytes(out, 1, d1)
			out = appBytes(out, 1, d2)
		} else {
			var d []byte
			if k.URL != "" {
				d = appBytes(d, 1, []byte(k.URL))
			}
			if len(k.Value) > 0 {
				d = appBytes(d, 2, k.Value)
			}
			if k.Mat != 0 {
				d = appVar(d, 3, k.Mat)
			}
			d = append(d, k.DExtra...)
			out = appBytes(out, 1, d)
		}
	}
	if k.Status != 0 {
		out = appVar(out, 2, k.Status)
	}
	if k.ID != 0 {
		out = appVar(out, 3, k.ID)
	}
	if k.Prefix != 0 {
		out = appVar(out, 4, k.Prefix)
	}
	return append(out, k.Extra...)
}

func (ks *mKeyset) Marshal() []byte {
	var out []byte
	if ks.PrimaryFirst {
		out = appVar(out, 1, ks.Primary+1)
		for i := range ks.Keys {
			out = appBytes(out, 2, ks.Keys[i].marshal())
		}
		out = appVar(out, 1, ks.Primary)
		return append(out, ks.Extra...)
	}
	if ks.Primary != 0 {
		out = appVar(out, 1, ks.Primary)
	}
	for i := range ks.Keys {
		out = appBytes(out, 2, ks.Keys[i].marshal())
	}
	return append(out, ks.Extra...)
}

// wfield is one decoded top-level field of a message (for value mutation).
type wfield struct {
	Num protowire.Number
	Typ protowire.Type
	Var uint64
	Buf []byte // BytesType payload, or the raw encoding for fixed/group
}

func splitFields(b []byte) ([]wfield, bool) {
	var fs []wfield
	for len(b) > 0 {
		num, typ, n := protowire.ConsumeTag(b)
		if n < 0 {
			return nil, false
		}
		b = b[n:]
		switch typ {
		case protowire.VarintType:
			v, m := protowire.ConsumeVarint(b)
			if m < 0 {
				return nil, false
			}
			fs = append(fs, wfield{Num: num, Typ: typ, Var: v})
			b = b[m:]
		case protowire.BytesType:
			v, m := protowire.ConsumeBytes(b)
			if m < 0 {
				return nil, false
			}
			fs = append(fs, wfield{Num: num, Typ: typ, Buf: append([]byte(nil), v...)})
			b = b[m:]
		default:
			m := protowire.ConsumeFieldValue(num, typ, b)
			if m < 0 {
				return nil, false
			}
			fs = append(fs, wfield{Num: num, Typ: typ, Buf: append([]byte(nil), b[:m]...)})
			b = b[m:]
		}
	}
	return fs, true
}

func joinFields(fs []wfield) []byte {
	var out []byte
	for _, f := range fs {
		switch f.Typ {
		case protowire.VarintType:
			out = appVar(out, f.Num, f.Var)
		case protowire.BytesType:
			out = appBytes(out, f.Num, f.Buf)
		default:
			out = protowire.AppendTag(out, f.Num, f.Typ)
			out = append(out, f.Buf...)
		}
	}
	return out
}

// plausible: the fields look like a small message rather than key bytes.
func plausible(fs []wfield) bool {
	if len(fs) == 0 || len(fs) > 8 {
		return false
	}
	for _, f := range fs {
		if f.Num > 8 {
			return false
		}
	}
	return true
}

var sizeEdges = []int{0, 1, 8, 15, 16, 17, 24, 31, 32, 33, 47, 48, 49, 63, 64, 65, 66, 67, 128, 255, 256, 257}
var varEdges = []uint64{0, 1, 2, 3, 4, 5, 6, 8, 9, 10, 11, 12, 13, 15, 16, 17, 20, 21, 28, 29, 32, 33, 48, 49, 64, 65,
	1 << 31, 1<<31 - 1, 1 << 32, 1<<32 + 1, 1<<32 + 3, 1<<32 + 16, 1<<63 - 1, 1 << 63, 1<<64 - 1}

// overlong re-encodes v as a non-minimal varint of n bytes (still valid).
func overlong(v uint64, n int) []byte {
	var out []byte
	for i := 0; i < n-1; i++ {
		out = append(out, byte(v&0x7f)|0x80)
		v >>= 7
	}
	return append(out, byte(v&0x7f))
}

// mutateValue applies one structural mutation to an encoded message and
// returns it with a label.  depth bounds the recursion into sub-messages.
func mutateValue(r *hx.Rng, b []byte, depth int) ([]byte, string) {
	fs, ok := splitFields(b)
	if !ok || len(fs) == 0 || r.Chance(12) {
		switch r.Intn(5) {
		case 0:
			if len(b) > 0 {
				return b[:r.Intn(len(b))], "truncate"
			}
			return []byte{byte(r.U64())}, "garbage"
		case 1:
			return append(append([]byte(nil), b...), r.Bytes(1+r.Intn(6))...), "append-garbage"
		case 2:
			c := append([]byte(nil), b...)
			if len(c) > 0 {
				c[r.Intn(len(c))] ^= byte(1 << r.Intn(8))
			}
			return c, "bitflip"
		case 3:
			return r.Bytes(r.Intn(40)), "random"
		default:
			return nil, "empty"
		}
	}
	i := r.Intn(len(fs))
	f := &fs[i]
	switch x := r.Intn(100); {
	case x < 30 && f.Typ == protowire.VarintType:
		f.Var = hx.PickS(r, varEdges)
		return joinFields(fs), "varint-edge"
	case x < 30 && f.Typ == protowire.BytesType:
		if depth > 0 && r.Chance(60) {
			if sub, ok := splitFields(f.Buf); ok && plausible(sub) {
				nb, l := mutateValue(r, f.Buf, depth-1)
				f.Buf = nb
				return joinFields(fs), "sub-" + l
			}
		}
		f.Buf = r.Bytes(hx.PickS(r, sizeEdges))
		return joinFields(fs), "bytes-resize"
	case x < 40:
		fs = append(fs[:i], fs[i+1:]...)
		return joinFields(fs), "drop-field"
	case x < 50:
		// duplicate with another value: last occurrence wins for scalars
		d := *f
		if d.Typ == protowire.VarintType {
			d.Var = hx.PickS(r, varEdges)
		} else if d.Typ == protowire.BytesType {
			d.Buf = r.Bytes(hx.PickS(r, sizeEdges))
		}
		if r.Bool() {
			fs = append(fs, d)
		} else {
			fs = append([]wfield{d}, fs...)
		}
		return joinFields(fs), "dup-field"
	case x < 58:
		// unknown field of some wire type
		num := protowire.Number(hx.PickS(r, []int{7, 15, 16, 100, 2047, 1<<29 - 1}))
		switch r.Intn(5) {
		case 0:
			fs = append(fs, wfield{Num: num, Typ: protowire.VarintType, Var: r.U64()})
		case 1:
			fs = append(fs, wfield{Num: num, Typ: protowire.BytesType, Buf: r.Bytes(r.Intn(9))})
		case 2:
			fs = append(fs, wfield{Num: num, Typ: protowire.Fixed32Type, Buf: r.Bytes(4)})
		case 3:
			fs = append(fs, wfield{Num: num, Typ: protowire.Fixed64Type, Buf: r.Bytes(8)})
		default:
			var g []byte
			g = appVar(g, 1, r.U64())
			g = protowire.AppendTag(g, 3, protowire.StartGroupType)
			g = protowire.AppendTag(g, 3, protowire.EndGroupType)
			g = protowire.AppendTag(g, num, protowire.EndGroupType)
			fs = append(fs, wfield{Num: num, Typ: protowire.StartGroupType, Buf: g})
		}
		return joinFields(fs), "unknown-field"
	case x < 64:
		// malformed tail: bad tag / unterminated group / wrong end group / reserved wire type
		out := joinFields(fs)
		switch r.Intn(6) {
		case 0:
			out = append(out, 0x00) // field number 0
		case 1:
			out = protowire.AppendTag(out, 9, protowire.StartGroupType)
		case 2:
			out = protowire.AppendTag(out, 9, protowire.StartGroupType)
			out = protowire.AppendTag(out, 8, protowire.EndGroupType)
		case 3:
			out = append(out, byte(9<<3|6))
		case 4:
			out = protowire.AppendVarint(out, uint64(1<<29)<<3) // field number 2^29
		default:
			out = append(out, byte(9<<3|4)) // stray END_GROUP
		}
		return out, "bad-tail"
	case x < 72 && f.Typ == protowire.VarintType:
		// overlong (non-minimal) varint: accepted by the decoder
		out := joinFields(fs[:i])
		out = protowire.AppendTag(out, f.Num, protowire.VarintType)
		out = append(out, overlong(f.Var, 10)...)
		out = append(out, joinFields(fs[i+1:])...)
		return out, "overlong-varint"
	case x < 80:
		// known field with another wire type: treated as unknown
		if f.Typ == protowire.VarintType {
			f.Typ = protowire.BytesType
			f.Buf = r.Bytes(r.Intn(5))
		} else {
			f.Typ = protowire.VarintType
			f.Var = hx.PickS(r, varEdges)
		}
		return joinFields(fs), "wiretype-swap"
	case x < 86:
		// varint of 11 bytes / 10th byte >= 2: overflow
		out := joinFields(fs)
		out = protowire.AppendTag(out, 1, protowire.VarintType)
		if r.Bool() {
			out = append(out, 0xff, 0xff, 0xff, 0xff, 0xff, 0xff, 0xff, 0xff, 0xff, 0x02)
		} else {
			out = append(out, 0x80, 0x80, 0x80, 0x80, 0x80, 0x80, 0x80, 0x80, 0x80, 0x80, 0x01)
		}
		return out, "varint-overflow"
	case x < 92:
		// length running past the end
		out := joinFields(fs)
		out = protowire.AppendTag(out, 3, protowire.BytesType)
		out = protowire.AppendVarint(out, uint64(5+r.Intn(1000)))
		out = append(out, r.Bytes(r.Intn(4))...)
		return out, "length-overrun"
	default:
		if f.Typ == protowire.VarintType {
			f.Var ^= 1 << uint(r.Intn(8))
			return joinFields(fs), "varint-flip"
		}
		if len(f.Buf) > 0 {
			f.Buf[r.Intn(len(f.Buf))] ^= byte(1 << r.Intn(8))
		}
		return joinFields(fs), "bytes-flip"
	}
}
