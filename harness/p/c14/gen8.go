package c14

import (
	"strings"

	"github.com/tink-crypto/tink-go/v2/verifharness/hx"
	"google.golang.org/protobuf/proto"

	jwtmldsapb "github.com/tink-crypto/tink-go/v2/proto/jwt_ml_dsa_go_proto"
	mldsapb "github.com/tink-crypto/tink-go/v2/proto/ml_dsa_go_proto"
)

// directedMlDsaPrivate: the parsers of MlDsaPrivateKey and JwtMlDsaPrivateKey
// (transcribed in the third round): seed of 31 / 33 / 0 bytes, a seed that does
// not generate the public key, a public key of the wrong length or of another
// instance, versions, a wrong material label, and - for JWT - a custom kid
// with the TINK prefix.  Each as the only key of a keyset.
func directedMlDsaPrivate() []string {
	var lines []string
	byName := map[string]bankKey{}
	for _, b := range bank {
		byName[b.name] = b
	}
	one := func(k mKey, label string) {
		ks := &mKeyset{Primary: k.ID, Keys: []mKey{k}}
		lines = append(lines, "B|"+hx.H(ks.Marshal())+"|mldsa-priv-"+label+":"+strings.TrimPrefix(k.URL, tp))
	}
	mm := func(m proto.Message) []byte {
		b, err := proto.Marshal(m)
		if err != nil {
			panic(err)
		}
		return b
	}
	for _, n := range []string{"MLDSA65", "MLDSA44Raw"} {
		base := toMKey(byName[n], 9, 1)
		if base.Prefix == 3 {
			base.ID = 9
		}
		get := func() *mldsapb.MlDsaPrivateKey {
			v := &mldsapb.MlDsaPrivateKey{}
			if err := proto.Unmarshal(base.Value, v); err != nil {
				panic(err)
			}
			return v
		}
		one(base, "valid")
		for _, l := range []int{0, 31, 33} {
			v := get()
			v.KeyValue = append(append([]byte{}, v.KeyValue...), 7)[:l]
			k := base
			k.Value = mm(v)
			one(k, "seedlen")
		}
		{
			v := get()
			v.KeyValue = append([]byte{}, v.KeyValue...)
			v.KeyValue[5] ^= 1
			k := base
			k.Value = mm(v)
			one(k, "seed-mismatch")
		}
		{
			v := get()
			v.PublicKey.KeyValue = append([]byte{}, v.PublicKey.KeyValue...)
			v.PublicKey.KeyValue[100] ^= 0x40
			k := base
			k.Value = mm(v)
			one(k, "pub-mismatch")
		}
		{
			v := get()
			v.PublicKey.KeyValue = v.PublicKey.KeyValue[:len(v.PublicKey.KeyValue)-1]
			k := base
			k.Value = mm(v)
			one(k, "pub-short")
		}
		for _, inst := range []mldsapb.MlDsaInstance{0, 1, 2, 3, 4} {
			v := get()
			v.PublicKey.Params.MlDsaInstance = inst
			k := base
			k.Value = mm(v)
			one(k, "instance")
		}
		{
			v := get()
			v.Version = 1
			k := base
			k.Value = mm(v)
			one(k, "version")
			v = get()
			v.PublicKey.Version = 1
			k = base
			k.Value = mm(v)
			one(k, "pub-version")
			v = get()
			v.PublicKey = nil
			k = base
			k.Value = mm(v)
			one(k, "no-pub")
		}
		for _, mat := range []uint64{0, 1, 3, 4} {
			k := base
			k.Mat = mat
			one(k, "material")
		}
		for _, p := range []uint64{1, 2, 3, 4, 5} {
			k := base
			k.Prefix = p
			one(k, "prefix")
		}
	}
	{
		base := toMKey(byName["JWT_MLDSA65"], 9, 1)
		get := func() *jwtmldsapb.JwtMlDsaPrivateKey {
			v := &jwtmldsapb.JwtMlDsaPrivateKey{}
			if err := proto.Unmarshal(base.Value, v); err != nil {
				panic(err)
			}
			return v
		}
		one(base, "valid")
		for _, l := range []int{0, 31, 33} {
			v := get()
			v.KeyValue = append(append([]byte{}, v.KeyValue...), 7)[:l]
			k := base
			k.Value = mm(v)
			one(k, "seedlen")
		}
		v := get()
		v.KeyValue = append([]byte{}, v.KeyValue...)
		v.KeyValue[0] ^= 0x80
		k := base
		k.Value = mm(v)
		one(k, "seed-mismatch")
		for _, alg := range []jwtmldsapb.JwtMlDsaAlgorithm{0, 1, 2, 3, 4} {
			v := get()
			v.PublicKey.Algorithm = alg
			k := base
			k.Value = mm(v)
			one(k, "algorithm")
		}
		v = get()
		v.PublicKey.CustomKid = &jwtmldsapb.JwtMlDsaPublicKey_CustomKid{Value: "kid"}
		for _, p := range []uint64{1, 3} {
			k := base
			k.Value = mm(v)
			k.Prefix = p
			one(k, "custom-kid")
		}
		for _, p := range []uint64{1, 2, 3, 4, 5} {
			k := base
			k.Prefix = p
			one(k, "prefix")
		}
		v = get()
		v.Version = 2
		k = base
		k.Value = mm(v)
		one(k, "version")
	}
	return lines
}
